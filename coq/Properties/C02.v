(* C02 -- Stellar evolution turns stars into remnants without creating or losing any.
   Field-level theorems, for EVERY configuration, state and age.
   Statements only; proofs are `exact` of lemmas in Proofs/SevProofs.v. *)
From Coq Require Import List Reals.
From SSP Require Import Num Model.Lifetime Model.Bins Model.BinsSpec Model.Sev Model.SevSpec Proofs.SevProofs.
Import ListNotations.
Local Open Scope R_scope.

(* nothing happens before the heaviest bin's upper edge turns off *)
Theorem C02_before_first_turnoff : forall J c t Ns alpha m_rem cls,
  t <= last (c_tms_u c) 0 ->
  sev_field (O:=R_ops J) c t Ns alpha m_rem cls = Ok None.
Proof. exact sev_before_first_turnoff. Qed.
Print Assumptions C02_before_first_turnoff.

(* stars leave only the bin that contains the current turn-off mass: the active
   bin has mto < upper, and lower <= mto -- except when the turn-off mass has
   already dropped below the lowest edge, where the active bin is the lowest one
   and nothing leaves it any more *)
Theorem C02_isev_contains_mto : forall J c t Ns alpha m_rem cls s, valid_cfg J c ->
  sev_field (O:=R_ops J) c t Ns alpha m_rem cls = Ok (Some s) ->
  (so_isev s < length (c_ms c))%nat /\
  mto (O:=R_ops J) (c_a0 c) (c_a1 c) (c_a2 c) t < snd (nth (so_isev s) (c_ms c) (0, 0)) /\
  (fst (nth (so_isev s) (c_ms c) (0, 0)) <= mto (O:=R_ops J) (c_a0 c) (c_a1 c) (c_a2 c) t \/
   (so_isev s = 0%nat /\ forall x, so_dNdt s = Some x -> x = 0)).
Proof. exact sev_isev_contains_mto. Qed.
Print Assumptions C02_isev_contains_mto.

(* every star that leaves re-appears as a remnant of the predicted class, in the
   bin that brackets the IFMR mass, scaled by that class's retention fraction,
   carrying the IFMR remnant mass:  dNr = -frem * dNs,  dMr = m_rem * dNr *)
Theorem C02_balance : forall J c t Ns alpha m_rem cls s k irem dn dm x,
  sev_field (O:=R_ops J) c t Ns alpha m_rem cls = Ok (Some s) ->
  so_dep s = Some (k, irem, dn, dm) -> so_dNdt s = Some x ->
  k = cls /\ 0 < m_rem /\
  determine_index (O:=R_ops J) m_rem (cls_bins c cls) false = Ok irem /\
  dn = Some (cls_frem c cls * (- x)) /\ dm = Some (m_rem * (cls_frem c cls * (- x))).
Proof. exact sev_balance. Qed.
Print Assumptions C02_balance.

(* zero-mass remnants are skipped (nothing is deposited) *)
Theorem C02_zero_mass_skipped : forall J c t Ns alpha m_rem cls s,
  sev_field (O:=R_ops J) c t Ns alpha m_rem cls = Ok (Some s) -> m_rem <= 0 -> so_dep s = None.
Proof. exact sev_zero_mass_skipped. Qed.
Print Assumptions C02_zero_mass_skipped.

(* per-bin star counts never grow *)
Theorem C02_nonincreasing : forall J c t Ns alpha m_rem cls s x, valid_cfg J c ->
  sev_field (O:=R_ops J) c t Ns alpha m_rem cls = Ok (Some s) -> so_dNdt s = Some x -> x <= 0.
Proof. exact sev_nonincreasing. Qed.
Print Assumptions C02_nonincreasing.

(* with the class fully retained the number of objects is conserved *)
Theorem C02_number_conserved : forall J c t Ns alpha m_rem cls s k irem y dm x,
  sev_field (O:=R_ops J) c t Ns alpha m_rem cls = Ok (Some s) ->
  so_dep s = Some (k, irem, Some y, dm) -> so_dNdt s = Some x ->
  cls_frem c cls = 1 -> x + y = 0.
Proof. exact sev_number_conserved. Qed.
Print Assumptions C02_number_conserved.

(* the total mass never increases: the turn-off star of mass mto is replaced by
   frem remnants of mass m_rem <= mto *)
Theorem C02_mass_nonincreasing : forall J c t Ns alpha m_rem cls s k irem dn z x, valid_cfg J c ->
  sev_field (O:=R_ops J) c t Ns alpha m_rem cls = Ok (Some s) ->
  so_dep s = Some (k, irem, dn, Some z) -> so_dNdt s = Some x ->
  0 <= cls_frem c cls <= 1 -> m_rem <= mto (O:=R_ops J) (c_a0 c) (c_a1 c) (c_a2 c) t ->
  mto (O:=R_ops J) (c_a0 c) (c_a1 c) (c_a2 c) t * x + z <= 0.
Proof. exact sev_mass_nonincreasing. Qed.
Print Assumptions C02_mass_nonincreasing.

(* support of the packed derivative: only dNs[isev] and the (class, irem)
   entries of dNr / dMr can be non-zero; slopes never change *)
Theorem C02_support : forall J c o,
  let d := sev_expand (O:=R_ops J) c o in
  Forall (fun v => v = Some 0) (d_alpha d) /\
  (forall i, (match o with Some s => i <> so_isev s | None => True end) ->
     (i < length (c_ms c))%nat -> nth i (d_Ns d) None = Some 0) /\
  (forall k i, (match o with
                | Some s => match so_dep s with Some (k', i', _, _) => k <> k' \/ i <> i' | None => True end
                | None => True end) ->
     (i < length (cls_bins c k))%nat ->
     nth i (match k with WD => d_Nwd d | NS => d_Nns d | BH => d_Nbh d end) None = Some 0 /\
     nth i (match k with WD => d_Mwd d | NS => d_Mns d | BH => d_Mbh d end) None = Some 0).
Proof. exact sev_support. Qed.
Print Assumptions C02_support.
