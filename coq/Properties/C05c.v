(* C05 (continued) -- a remnant bin's mean mass stays inside the bin along the EXACT solution of the
   equations the code integrates.  On a remnant bin with edges lo <= up the modelled right-hand side is
        Nr' = a(t) + c(t) * Nr        Mr' = b(t) + c(t) * Mr
   where (a, b) is the stellar-evolution deposit, which lies in the bin's cone lo*a <= b <= up*a
   (C05_deposit_in_cone), and c(t) is the escape rate per object of that bin, the same factor for
   number and mass (C03_pre_uniform / C03_post_rem_mean: dMr * Nr = dNr * Mr).  Then
        lo * Nr(t) <= Mr(t) <= up * Nr(t)
   is preserved for all later t: the mean mass Mr/Nr of a populated bin never leaves [lo, up].
   (DOPRI5 is not the exact flow: it has a negative weight; its deviation is what the C05 check measures.)
   Statements only; proofs are `exact` of lemmas in Proofs/ConeProofs.v (plain reals + Coquelicot). *)
From Coq Require Import Reals.
From Coquelicot Require Import Coquelicot.
From SSP Require Import Proofs.ConeProofs.
Local Open Scope R_scope.

(* the scalar heart: g' = c g + h with h >= 0 keeps g >= 0 *)
Theorem C05_nonneg_invariant : forall (c h g : R -> R) t0 t1, t0 <= t1 ->
  (forall t, t0 <= t <= t1 -> continuous c t) ->
  (forall t, t0 <= t <= t1 -> is_derive g t (c t * g t + h t)) ->
  (forall t, t0 <= t <= t1 -> 0 <= h t) ->
  0 <= g t0 ->
  forall t, t0 <= t <= t1 -> 0 <= g t.
Proof. exact nonneg_invariant. Qed.
Print Assumptions C05_nonneg_invariant.

Theorem C05_remnant_mean_stays_in_bin : forall (a b c Nr Mr : R -> R) lo up t0 t1, t0 <= t1 ->
  (forall t, t0 <= t <= t1 -> continuous c t) ->
  (forall t, t0 <= t <= t1 -> is_derive Nr t (a t + c t * Nr t)) ->
  (forall t, t0 <= t <= t1 -> is_derive Mr t (b t + c t * Mr t)) ->
  (forall t, t0 <= t <= t1 -> lo * a t <= b t <= up * a t) ->
  lo * Nr t0 <= Mr t0 <= up * Nr t0 ->
  forall t, t0 <= t <= t1 -> lo * Nr t <= Mr t <= up * Nr t.
Proof. exact remnant_mean_stays_in_bin. Qed.
Print Assumptions C05_remnant_mean_stays_in_bin.

(* and the count itself stays non-negative when the deposit is non-negative *)
Theorem C05_remnant_count_nonneg : forall (a c Nr : R -> R) t0 t1, t0 <= t1 ->
  (forall t, t0 <= t <= t1 -> continuous c t) ->
  (forall t, t0 <= t <= t1 -> is_derive Nr t (a t + c t * Nr t)) ->
  (forall t, t0 <= t <= t1 -> 0 <= a t) ->
  0 <= Nr t0 ->
  forall t, t0 <= t <= t1 -> 0 <= Nr t.
Proof. exact remnant_count_nonneg. Qed.
Print Assumptions C05_remnant_count_nonneg.
