(* C19 -- The initial-BH-population shortcut agrees with the full model.
   Statements only; proofs are `exact` of lemmas in Proofs/BHPopProofs.v. *)
From Coq Require Import List Reals PrimFloat.
From SSP Require Import Num FloatFun Model.Bins Model.Sev Model.BHPop Proofs.BHPopProofs.
Import ListNotations.
Local Open Scope R_scope.

(* up to the final age, whenever the bin that is turning off has the slope of the
   IMF's last segment, the simplified derivative IS the full stellar-evolution
   derivative (with full BH retention and the same empty-bin threshold): the two
   integrations therefore coincide step for step on the same grid *)
Theorem C19_bh_field_eq_sev : forall J c c01 alast final_age t Ns alpha m_rem,
  c_Nmin c = c01 -> c_fbh c = 1 -> t <= final_age ->
  (forall i, first_gt (O:=R_ops J) t (c_tms_u c) 0 = Some i -> nth i alpha 0 = alast) ->
  bh_field (O:=R_ops J) c c01 alast final_age t Ns m_rem BH = sev_field (O:=R_ops J) c t Ns alpha m_rem BH.
Proof. exact bh_field_eq_sev. Qed.
Print Assumptions C19_bh_field_eq_sev.

(* a non-BH remnant before the final age is an error, never a silent deposit *)
Theorem C19_non_bh_raises : forall J c c01 alast final_age t Ns m_rem cls i,
  last (c_tms_u c) 0 < t -> first_gt (O:=R_ops J) t (c_tms_u c) 0 = Some i ->
  t <= final_age -> 0 < m_rem -> cls <> BH ->
  bh_field (O:=R_ops J) c c01 alast final_age t Ns m_rem cls = Err RuntimeError.
Proof. exact bh_field_non_bh_raises. Qed.
Print Assumptions C19_non_bh_raises.

(* after the final age stars keep leaving but nothing is deposited *)
Theorem C19_no_deposit_after_final_age : forall J c c01 alast final_age t Ns m_rem cls s,
  final_age < t -> bh_field (O:=R_ops J) c c01 alast final_age t Ns m_rem cls = Ok (Some s) -> so_dep s = None.
Proof. exact bh_field_no_deposit_after. Qed.
Print Assumptions C19_no_deposit_after_final_age.
