(* C16 -- Results depend only on the arguments: no hidden state, no argument mutation.
   Statements only; proofs are `exact` of lemmas in Proofs/ArgStoreProofs.v.
   A history is ANY list of constructor calls with arbitrary sharing of option
   dictionaries (handles into a store of mutable objects). *)
From Coq Require Import List ZArith String.
From SSP Require Import Model.ArgStore Proofs.ArgStoreProofs.
Import ListNotations.
Local Open Scope Z_scope.

Theorem C16_store_unchanged : forall cs s, fst (run_history true s cs) = s.
Proof. exact store_unchanged. Qed.
Print Assumptions C16_store_unchanged.

Theorem C16_history_free : forall cs s,
  snd (run_history true s cs) = map (fun c => snd (ifmr_call true s c)) cs.
Proof. exact history_free. Qed.
Print Assumptions C16_history_free.

Theorem C16_uses_requested_feh : forall s c h d,
  c_kwargs c = Some h -> sget s h = Some d -> dget d "FeH" = None ->
  snd (ifmr_call true s c) = c_feh c.
Proof. exact uses_requested_feh. Qed.
Print Assumptions C16_uses_requested_feh.

(* the code before /repo fix cc856a2 (on_copy = false) violated both *)
Theorem C16_alias_refuted :
  let s := [(0%nat, [])] in
  let cs := [{| c_feh := -100; c_kwargs := Some 0%nat |}; {| c_feh := 20; c_kwargs := Some 0%nat |}] in
  snd (run_history false s cs) = [-100; -100] /\ fst (run_history false s cs) <> s /\
  snd (run_history true s cs) = [-100; 20].
Proof. exact alias_refuted. Qed.
Print Assumptions C16_alias_refuted.
