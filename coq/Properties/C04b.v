(* C04 (continued) -- counts and masses stay non-negative along the EXACT solution of the equations the
   code integrates.  Every component of the modelled right-hand side has the form g' = c(t) g + h(t):
     star counts:     h = 0,  c = -(turn-off flux per star, C01_field_flux) + escape factor (C03: dNs proportional to Ns)
     remnant N and M: h = the stellar-evolution deposit >= 0 (C05_deposit_in_cone),  c = escape factor
   so non-negative initial values stay non-negative, and an empty star bin stays exactly empty.
   (dopri5 itself is not modelled: the C04 check inspects every array of sampled constructions.)
   Statements only; proofs are `exact` of lemmas in Proofs/ConeProofs.v / ConeProofs2.v. *)
From Coq Require Import Reals.
From Coquelicot Require Import Coquelicot.
From SSP Require Import Proofs.ConeProofs Proofs.ConeProofs2.
Local Open Scope R_scope.

Theorem C04_star_count_nonneg_exact_flow : forall (c g : R -> R) t0 t1, t0 <= t1 ->
  (forall t, t0 <= t <= t1 -> continuous c t) ->
  (forall t, t0 <= t <= t1 -> is_derive g t (c t * g t)) ->
  0 <= g t0 -> forall t, t0 <= t <= t1 -> 0 <= g t.
Proof. exact linear_decay_nonneg. Qed.
Print Assumptions C04_star_count_nonneg_exact_flow.

Theorem C04_empty_star_bin_stays_empty : forall (c g : R -> R) t0 t1, t0 <= t1 ->
  (forall t, t0 <= t <= t1 -> continuous c t) ->
  (forall t, t0 <= t <= t1 -> is_derive g t (c t * g t)) ->
  g t0 = 0 -> forall t, t0 <= t <= t1 -> g t = 0.
Proof. exact linear_decay_zero. Qed.
Print Assumptions C04_empty_star_bin_stays_empty.

Theorem C04_remnant_nonneg_exact_flow : forall (c h g : R -> R) t0 t1, t0 <= t1 ->
  (forall t, t0 <= t <= t1 -> continuous c t) ->
  (forall t, t0 <= t <= t1 -> is_derive g t (c t * g t + h t)) ->
  (forall t, t0 <= t <= t1 -> 0 <= h t) ->
  0 <= g t0 -> forall t, t0 <= t <= t1 -> 0 <= g t.
Proof. exact nonneg_invariant. Qed.
Print Assumptions C04_remnant_nonneg_exact_flow.
