(* C18 (continued) -- the BH post-processing is scale-free: the mass-fraction target routine
   (the target f itself has no scale), the row block of EvolvedMFWithBH, the 'retain almost
   nothing' shortcut (homogeneous only if the absolute constant Nmin is scaled too - it is the
   one place where an absolute number enters) and the standard model's budget decision.
   Statements only; proofs are `exact` of lemmas in Proofs/ScaleProofs4.v. *)
From Coq Require Import List Reals.
From SSP Require Import Num Model.Eject Model.Kicks Model.ScaleSpec Proofs.EjectProofs Proofs.ScaleProofs4 Proofs.ScaleProofs5.
Import ListNotations.
Local Open Scope R_scope.

(* hypotheses: bins well formed; the cluster holds more than the BH bins' mass (so every total
   met by the loop stays positive); and the degenerate target f = 1 is excluded unless MBH <= Mtot *)
Theorem C18_fbh_homogeneous : forall J MN MBH Mtot f lam, 0 < lam ->
  Forall wfbin MN -> sumM MN < Mtot -> (f <> 1 \/ MBH <= Mtot) ->
  dyn_eject_fbh_nowrap (O:=R_ops J) (scale_bins lam MN) (lam * MBH) (lam * Mtot) f =
  let '(l, w) := dyn_eject_fbh_nowrap (O:=R_ops J) MN MBH Mtot f in (scale_bins lam l, w).
Proof. exact fbh_homogeneous. Qed.
Print Assumptions C18_fbh_homogeneous.

(* non-vacuity: three bins, a target removing the top bin and half of the middle one *)
Theorem C18_fbh_homogeneous_nonvacuous : forall J lam, 0 < lam ->
  dyn_eject_fbh_nowrap (O:=R_ops J) [(1, 10); (2, 10); (4, 10)] 7 20 (2 / 15) =
    ([(1, 10); (1, 5); (0, 0)], false) /\
  dyn_eject_fbh_nowrap (O:=R_ops J) (scale_bins lam [(1, 10); (2, 10); (4, 10)]) (lam * 7) (lam * 20) (2 / 15) =
    (scale_bins lam [(1, 10); (1, 5); (0, 0)], false).
Proof. exact fbh_homogeneous_example. Qed.
Print Assumptions C18_fbh_homogeneous_nonvacuous.

Theorem C18_fbh_post_homogeneous : forall J formed strict MN Mtot Mbhtot f lam, 0 < lam ->
  Forall wfbin MN -> sumM MN < Mtot -> (f <> 1 \/ Mbhtot <= Mtot) ->
  fbh_post (O:=R_ops J) formed strict (scale_bins lam MN) (lam * Mtot) (lam * Mbhtot) f =
  match fbh_post (O:=R_ops J) formed strict MN Mtot Mbhtot f with
  | FbhOk l w => FbhOk (scale_bins lam l) w
  | FbhErr => FbhErr
  end.
Proof. exact fbh_post_homogeneous. Qed.
Print Assumptions C18_fbh_post_homogeneous.

Theorem C18_shortcut_scale : forall J MN Msum ret_dyn Nmin lam, 0 < lam ->
  fst (hd (0, 0) MN) <> 0 -> snd (hd (0, 0) MN) <> 0 ->
  shortcut (O:=R_ops J) (scale_bins lam MN) (lam * Msum) ret_dyn (lam * Nmin) =
  shortcut (O:=R_ops J) MN Msum ret_dyn Nmin.
Proof. exact shortcut_scale. Qed.
Print Assumptions C18_shortcut_scale.

Theorem C18_bh_post_homogeneous : forall J formed MN Msum ret_dyn Nmin kicked lam, 0 < lam ->
  fst (hd (0, 0) MN) <> 0 -> snd (hd (0, 0) MN) <> 0 ->
  Forall wfbin (match kicked with Some (l, _) => l | None => MN end) ->
  bh_post (O:=R_ops J) formed (scale_bins lam MN) (lam * Msum) ret_dyn (lam * Nmin)
          (scale_kicked lam kicked) =
  scale_post lam (bh_post (O:=R_ops J) formed MN Msum ret_dyn Nmin kicked).
Proof. exact bh_post_homogeneous. Qed.
Print Assumptions C18_bh_post_homogeneous.

(* natal kicks: the per-bin loop is homogeneous (retention fractions are functions of the bins' mean
   masses, which do not change with scale); the 0.1-object skip threshold has to be scaled along *)
Theorem C18_kicks_homogeneous : forall J lam c01 MN rets, 0 < lam ->
  unbound_natal_kicks (O:=R_ops J) (lam * c01) (scale_bins lam MN) rets =
  let '(l, e) := unbound_natal_kicks (O:=R_ops J) c01 MN rets in (scale_bins lam l, lam * e).
Proof. exact kicks_homogeneous. Qed.
Print Assumptions C18_kicks_homogeneous.
