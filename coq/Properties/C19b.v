(* C19 (continued) -- bookkeeping of the simplified derivative of InitialBHPopulation.from_IMF,
   for EVERY state, slope and age (no hypothesis on which slope is used):
   every star that leaves before the final age re-appears as exactly one BH (all BHs are retained)
   carrying the IFMR mass, in the bin that brackets it; hence `stars lost = BHs formed` and the
   BH mass formed is the IFMR mass weighted by the stars lost, whatever the integrator's steps
   (a linear invariant, RK_linear_functional).
   Statements only; proofs are `exact` of lemmas in Proofs/BHPopProofs2.v. *)
From Coq Require Import List Reals.
From SSP Require Import Num Model.Pk Model.Bins Model.Sev Model.BHPop Proofs.BHPopProofs2.
Import ListNotations.
Local Open Scope R_scope.

Theorem C19_bh_balance : forall J c c01 alast final_age t Ns m_rem cls s k irem dn dm x,
  bh_field (O:=R_ops J) c c01 alast final_age t Ns m_rem cls = Ok (Some s) ->
  so_dep s = Some (k, irem, dn, dm) -> so_dNdt s = Some x ->
  k = BH /\ cls = BH /\ t <= final_age /\ 0 < m_rem /\
  determine_index (O:=R_ops J) m_rem (c_bh c) false = Ok irem /\
  dn = Some (- x) /\ dm = Some (m_rem * (- x)).
Proof. exact bh_balance. Qed.
Print Assumptions C19_bh_balance.

(* before the final age, with a positive remnant mass of class BH and a remnant bin that brackets it,
   something IS deposited (no star is lost without a BH appearing) *)
Theorem C19_bh_deposit_exists : forall J c c01 alast final_age t Ns m_rem s irem,
  bh_field (O:=R_ops J) c c01 alast final_age t Ns m_rem BH = Ok (Some s) ->
  t <= final_age -> 0 < m_rem ->
  determine_index (O:=R_ops J) m_rem (c_bh c) false = Ok irem ->
  exists dn dm, so_dep s = Some (BH, irem, dn, dm).
Proof. exact bh_deposit_exists. Qed.
Print Assumptions C19_bh_deposit_exists.

(* a remnant mass outside the BH bins is an error, not a silent loss *)
Theorem C19_bh_unbinned_raises : forall J c c01 alast final_age t Ns m_rem i e,
  last (c_tms_u c) 0 < t -> first_gt (O:=R_ops J) t (c_tms_u c) 0 = Some i ->
  t <= final_age -> 0 < m_rem ->
  determine_index (O:=R_ops J) m_rem (c_bh c) false = Err e ->
  bh_field (O:=R_ops J) c c01 alast final_age t Ns m_rem BH = Err e.
Proof. exact bh_unbinned_raises. Qed.
Print Assumptions C19_bh_unbinned_raises.
