(* C06 -- An output row depends only on its own age, not on the rest of the schedule.
   Statements only; proofs are `exact` of lemmas in Proofs/EvolveProofs.v.
   The solver is an abstract flow with the identity and semigroup laws of an
   exact flow (hypotheses H_id, H_semi); ages are non-negative. *)
From Coq Require Import List Reals Sorted.
From SSP Require Import Num Model.Evolve Proofs.EvolveProofs.
Import ListNotations.
Local Open Scope R_scope.

Section C06.
  Variable J : Junk.
  Variables state row : Type.
  Variable flow : R -> R -> state -> state.
  Variable extract : nat -> R -> state -> row.
  Hypothesis H_id : forall t y, flow t t y = y.
  Hypothesis H_semi : forall a b c y, 0 <= a -> a <= b -> b <= c -> flow b c (flow a b y) = flow a c y.

  (* the integration grid is sorted and contains every requested age *)
  Theorem C06_grid_sorted : forall tms_u tout,
    StronglySorted Rle (grid (O:=R_ops J) tms_u tout) /\
    (forall t, In t tout -> In t (grid (O:=R_ops J) tms_u tout)).
  Proof. exact (grid_sorted J). Qed.

  (* row i holds the extraction, with row index i, of the flow from 0 to ITS OWN
     age -- whatever else is in the schedule, in whatever order, whether or not
     the age coincides with a bin turn-off time -- provided i is the first
     occurrence of that age *)
  Theorem C06_row_own_age : forall tms_u tout y0 i ti,
    Forall (fun t => 0 <= t) tout -> Forall (fun t => 0 <= t) tms_u ->
    nth_error tout i = Some ti ->
    (forall j tj, (j < i)%nat -> nth_error tout j = Some tj -> tj <> ti) ->
    nth_error (evolve_rows (O:=R_ops J) state row flow extract tms_u tout y0) i =
      Some (Some (extract i ti (flow 0 ti y0))).
  Proof. exact (row_own_age J state row flow extract H_id H_semi). Qed.

  (* age 0 returns the extraction of the initial state *)
  Theorem C06_row_zero_is_initial : forall tms_u tout y0 i,
    Forall (fun t => 0 <= t) tout -> Forall (fun t => 0 <= t) tms_u ->
    nth_error tout i = Some 0 ->
    (forall j tj, (j < i)%nat -> nth_error tout j = Some tj -> tj <> 0) ->
    nth_error (evolve_rows (O:=R_ops J) state row flow extract tms_u tout y0) i = Some (Some (extract i 0 y0)).
  Proof. exact (row_zero_is_initial J state row flow extract H_id H_semi). Qed.

  (* KNOWN FINDING duplicate_age_row_uninitialised: an age requested more than
     once is written to its FIRST row only; later rows with the same age stay
     uninitialised (None) *)
  Theorem C06_duplicate_row_unwritten : forall tms_u tout y0 i j ti,
    (j < i)%nat -> nth_error tout j = Some ti -> nth_error tout i = Some ti ->
    nth_error (evolve_rows (O:=R_ops J) state row flow extract tms_u tout y0) i = Some None.
  Proof. exact (duplicate_row_unwritten J state row flow extract). Qed.
End C06.
Print Assumptions C06_grid_sorted.
Print Assumptions C06_row_own_age.
Print Assumptions C06_row_zero_is_initial.
Print Assumptions C06_duplicate_row_unwritten.
