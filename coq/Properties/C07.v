(* C07 -- Dynamical BH retention removes exactly the requested mass, heaviest first.
   Statements only; every proof is `exact <lemma of Proofs/EjectProofs.v>`.
   All real-number statements are quantified over the Junk record J (Num.v):
   nothing depends on the value of a division by zero.
   Bins are (mass, number) pairs in array order (lightest first). *)
From Coq Require Import List Reals PrimFloat.
From SSP Require Import Num FloatFun Model.Eject Proofs.EjectProofs.
Import ListNotations.
Local Open Scope R_scope.

(* exactly the requested mass is removed *)
Theorem C07_eject_total : forall J MN E MN',
  Forall wfbin MN -> 0 <= E -> dyn_eject (O:=R_ops J) MN E = Ok MN' ->
  sumM MN' = sumM MN - E.
Proof. exact dyn_eject_total. Qed.
Print Assumptions C07_eject_total.

(* heaviest first: bins above the cut emptied, bins below untouched, one bin
   partly depleted with M'*N = M*N' (mean mass preserved), nothing negative *)
Theorem C07_eject_shape : forall J MN E MN',
  Forall wfbin MN -> 0 <= E -> dyn_eject (O:=R_ops J) MN E = Ok MN' ->
  exists below m n above e,
    MN = below ++ (m, n) :: above /\
    e = E - sumM above /\ 0 <= e <= m /\
    (forall p, In p above -> fst p < E) /\
    exists m' n',
      MN' = below ++ (m', n') :: zeros (length above) /\
      m' = m - e /\ 0 <= m' /\ 0 <= n' /\ m' * n = m * n' /\ (e = 0 -> n' = n).
Proof. exact dyn_eject_shape. Qed.
Print Assumptions C07_eject_shape.

(* asking for more than exists raises ValueError; asking for no more succeeds *)
Theorem C07_eject_too_much : forall J MN E,
  Forall wfbin MN -> sumM MN < E -> dyn_eject (O:=R_ops J) MN E = Err ValueError.
Proof. exact dyn_eject_too_much. Qed.
Print Assumptions C07_eject_too_much.

Theorem C07_eject_enough : forall J MN E,
  Forall wfbin MN -> 0 <= E <= sumM MN -> MN <> [] ->
  exists MN', dyn_eject (O:=R_ops J) MN E = Ok MN'.
Proof. exact dyn_eject_enough. Qed.
Print Assumptions C07_eject_enough.

(* the per-row block: retained mass = ret_dyn * formed mass, kicks count
   toward the ejected share, kicks alone exceeding it raise, the shortcut
   zeroes everything exactly when less than Nmin lightest-bin BHs would remain,
   and nothing happens before BHs form *)
Theorem C07_budget : forall J MN Msum ret Nmin,
  Forall wfbin MN -> MN <> [] -> Msum = sumM MN -> 0 <= ret <= 1 ->
  shortcut (O:=R_ops J) MN Msum ret Nmin = false ->
  exists l, bh_post (O:=R_ops J) true MN Msum ret Nmin None = PostOk l /\ sumM l = ret * Msum.
Proof. exact bh_post_budget. Qed.
Print Assumptions C07_budget.

Theorem C07_budget_with_kicks : forall J MN Msum ret Nmin lk k,
  Forall wfbin lk -> lk <> [] -> sumM lk = Msum - k -> 0 <= ret <= 1 ->
  0 <= k <= Msum * (1 - ret) ->
  shortcut (O:=R_ops J) MN Msum ret Nmin = false ->
  exists l, bh_post (O:=R_ops J) true MN Msum ret Nmin (Some (lk, k)) = PostOk l /\ sumM l = ret * Msum.
Proof. exact bh_post_kicks. Qed.
Print Assumptions C07_budget_with_kicks.

Theorem C07_kicks_exceed_budget : forall J MN Msum ret Nmin lk k,
  Msum * (1 - ret) < k ->
  shortcut (O:=R_ops J) MN Msum ret Nmin = false ->
  bh_post (O:=R_ops J) true MN Msum ret Nmin (Some (lk, k)) = PostErrKicks.
Proof. exact bh_post_kicks_exceed. Qed.
Print Assumptions C07_kicks_exceed_budget.

Theorem C07_shortcut : forall J MN Msum ret Nmin k,
  shortcut (O:=R_ops J) MN Msum ret Nmin = true ->
  bh_post (O:=R_ops J) true MN Msum ret Nmin k = PostOk (map (fun _ => (0, 0)) MN).
Proof. exact bh_post_shortcut. Qed.
Print Assumptions C07_shortcut.

Theorem C07_shortcut_meaning : forall J m0 n0 rest Msum ret Nmin,
  0 < m0 -> 0 < n0 ->
  (shortcut (O:=R_ops J) ((m0, n0) :: rest) Msum ret Nmin = true <->
   0 <= ret * Msum < Nmin * (m0 / n0)).
Proof. exact shortcut_meaning. Qed.
Print Assumptions C07_shortcut_meaning.

Theorem C07_not_formed : forall J MN Msum ret Nmin k,
  bh_post (O:=R_ops J) false MN Msum ret Nmin k = PostOk MN.
Proof. exact bh_post_not_formed. Qed.
Print Assumptions C07_not_formed.

(* non-vacuity: a concrete non-trivial state meets the hypotheses *)
Example C07_nonvacuous : Forall wfbin [(10, 2); (0, 0); (30, 3)] /\ 0 <= 35 <= sumM [(10, 2); (0, 0); (30, 3)].
Proof.
  split.
  - repeat constructor; simpl; Lra.lra.
  - simpl; Lra.lra.
Qed.

(* Float-level witnesses (the same Gallina term at the binary64 instance).
   1. After /repo fix cd913a3 an empty heaviest bin with nothing to eject is
      left untouched (it used to become (0, NaN)).
   2. KNOWN FINDING eject_exact_total_rounding: asking for exactly the total
      raises for M = [6.4; 1.2; 8.8; 1.9], E = 18.3 (E <= the exact rational
      total): the running float budget ends above the lightest bin. C07_eject_enough shows this is a pure
      rounding effect (the real-number model succeeds). *)
Local Open Scope float_scope.
Example C07_float_empty_top_ok :
  dyn_eject (O:=F_ops) [(10, 2); (0, 0)] 0 = Ok [(10, 2); (0, 0)].
Proof. vm_compute. reflexivity. Qed.
Example C07_float_exact_total_raises_refuted :
  dyn_eject (O:=F_ops) [(0x1.999999999999ap+2, 1); (0x1.3333333333333p+0, 1); (0x1.199999999999ap+3, 1); (0x1.e666666666666p+0, 1)] 0x1.24ccccccccccdp+4 = Err ValueError.
Proof. vm_compute. reflexivity. Qed.
