(* C19 (continued) -- arithmetic core of the known finding single_bin_window_stepped_over (and of the failure
   property C04 calls "the solver's first trial step"); statements only, proofs in Proofs/RKBlindProofs.v.
   Trusted: that scipy's dopri5 uses the Dormand-Prince weights written in dopri5_b / dopri5_e. *)
From Coq Require Import List Reals.
From SSP Require Import Model.RK Proofs.RKBlindProofs.
Import ListNotations.
Local Open Scope R_scope.

(* the pair is consistent: the solution weights sum to one, the error weights to zero *)
Theorem C19_dopri5_weights_consistent : sumlist dopri5_b = 1 /\ sumlist dopri5_e = 0.
Proof. exact weights_sum. Qed.
Print Assumptions C19_dopri5_weights_consistent.

(* a step whose stage derivatives vanish everywhere but at the second stage returns the state it started
   from and an error estimate of exactly zero - whatever the right-hand side is at that second stage *)
Theorem C19_step_blind_to_second_stage : forall f A c t h y k2,
  rk_stages f t h y A c [] = only_second k2 ->
  forall i, rk_step f {| tA := A; tb := dopri5_b; tc := c |} t h y i = y i /\
            h * lincomb dopri5_e (only_second k2) i = 0.
Proof. exact step_blind_to_second_stage. Qed.
Print Assumptions C19_step_blind_to_second_stage.
