(* C14 -- Lifetime and turn-off mass are inverse, monotone, and set the evolution rate.
   Statements only; proofs are `exact` of lemmas in Proofs/LifetimeProofs.v. *)
From Coq Require Import List Reals.
From Coquelicot Require Import Coquelicot.
From SSP Require Import Num Model.Lifetime Proofs.LifetimeProofs.
Import ListNotations.
Local Open Scope R_scope.

Theorem C14_tms_strictly_decreasing : forall J a0 a1 a2 m m',
  0 < a0 -> 0 < a1 -> a2 < 0 -> 0 < m -> m < m' ->
  tms (O:=R_ops J) a0 a1 a2 m' < tms (O:=R_ops J) a0 a1 a2 m.
Proof. exact tms_strictly_decreasing. Qed.
Print Assumptions C14_tms_strictly_decreasing.

Theorem C14_tms_above_a0 : forall J a0 a1 a2 m,
  0 < a0 -> 0 < a1 -> a2 < 0 -> 0 < m -> a0 < tms (O:=R_ops J) a0 a1 a2 m.
Proof. exact tms_above_a0. Qed.
Print Assumptions C14_tms_above_a0.

Theorem C14_mto_strictly_decreasing : forall J a0 a1 a2 t t',
  0 < a0 -> 0 < a1 -> a2 < 0 -> a0 < t -> t < t' ->
  0 < mto (O:=R_ops J) a0 a1 a2 t' /\ mto (O:=R_ops J) a0 a1 a2 t' < mto (O:=R_ops J) a0 a1 a2 t.
Proof. exact mto_strictly_decreasing. Qed.
Print Assumptions C14_mto_strictly_decreasing.

(* infinite up to the shortest lifetime (ninf is the instance's +inf) *)
Theorem C14_mto_inf_upto_a0 : forall J a0 a1 a2 t, t <= a0 ->
  mto (O:=R_ops J) a0 a1 a2 t = @ninf R (R_ops J).
Proof. exact mto_inf_upto_a0. Qed.
Print Assumptions C14_mto_inf_upto_a0.

Theorem C14_mto_tms_inverse : forall J a0 a1 a2 m,
  0 < a0 -> 0 < a1 -> a2 < 0 -> 0 < m ->
  mto (O:=R_ops J) a0 a1 a2 (tms (O:=R_ops J) a0 a1 a2 m) = m.
Proof. exact mto_tms_inverse. Qed.
Print Assumptions C14_mto_tms_inverse.

Theorem C14_tms_mto_inverse : forall J a0 a1 a2 t,
  0 < a0 -> 0 < a1 -> a2 < 0 -> a0 < t ->
  tms (O:=R_ops J) a0 a1 a2 (mto (O:=R_ops J) a0 a1 a2 t) = t.
Proof. exact tms_mto_inverse. Qed.
Print Assumptions C14_tms_mto_inverse.

(* the hand-differentiated sweep speed IS minus the time derivative of the
   turn-off function, and is positive, at every age after a0 *)
Theorem C14_dmdt_is_sweep_speed : forall J a0 a1 a2 t,
  0 < a0 -> 0 < a1 -> a2 < 0 -> a0 < t ->
  is_derive (fun s => mto (O:=R_ops J) a0 a1 a2 s) t (- dmdt (O:=R_ops J) a0 a1 a2 t)
  /\ 0 < dmdt (O:=R_ops J) a0 a1 a2 t.
Proof. exact dmdt_is_sweep_speed. Qed.
Print Assumptions C14_dmdt_is_sweep_speed.

(* the row chosen minimises |grid_i - FeH|, first one on ties *)
Theorem C14_nearest_row : forall J grid feh, grid <> [] ->
  let i := nearest_row (O:=R_ops J) grid feh in
  (i < length grid)%nat /\
  (forall j, (j < length grid)%nat -> Rabs (nth i grid 0 - feh) <= Rabs (nth j grid 0 - feh)) /\
  (forall j, (j < i)%nat -> Rabs (nth i grid 0 - feh) < Rabs (nth j grid 0 - feh)).
Proof. exact nearest_row_spec. Qed.
Print Assumptions C14_nearest_row.
