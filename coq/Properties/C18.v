(* C18 -- Population size only sets the scale.
   Statements only; proofs are `exact` of lemmas in Proofs/ScaleProofs.v.
   (The Runge-Kutta part - a homogeneous field gives a homogeneous numerical
   flow for ANY tableau and steps - is Properties/RK.v: RK_homogeneous.) *)
From Coq Require Import List Reals.
From SSP Require Import Num Model.Pk Model.IMF Model.Sev Model.SevSpec Model.Eject Model.ScaleSpec
                        Proofs.EjectProofs Proofs.ScaleProofs.
Import ListNotations.
Local Open Scope R_scope.

(* initial values scale with N: every binned number / mass is linear in N, slopes unchanged *)
Theorem C18_initial_values_linear : forall J res ext a mb A N lo up lam,
  binned_eval1 (O:=R_ops J) res ext a mb A (lam * N) lo up =
  match binned_eval1 (O:=R_ops J) res ext a mb A N lo up with
  | Ok (n, m, al) => Ok (oscale lam n, oscale lam m, al)
  | Err e => Err e
  end.
Proof. exact binned_linear. Qed.
Print Assumptions C18_initial_values_linear.

(* the stellar-evolution field is homogeneous of degree one in the star counts,
   provided no 'empty bin' comparison (Nj > Nmin) changes side *)
Theorem C18_sev_homogeneous : forall J c t Ns alpha m_rem cls lam, 0 < lam -> valid_cfg J c ->
  (forall i, Rltb (c_Nmin c) (nth i Ns 0) = Rltb (c_Nmin c) (lam * nth i Ns 0)) ->
  sev_field (O:=R_ops J) c t (map (Rmult lam) Ns) alpha m_rem cls =
  match sev_field (O:=R_ops J) c t Ns alpha m_rem cls with
  | Ok (Some s) => Ok (Some (scale_sev_out lam s))
  | Ok None => Ok None
  | Err e => Err e
  end.
Proof. exact sev_homogeneous. Qed.
Print Assumptions C18_sev_homogeneous.

(* BH ejection is homogeneous: scaling the bins and the budget scales the result *)
Theorem C18_eject_homogeneous : forall J MN E lam, 0 < lam -> Forall wfbin MN ->
  dyn_eject (O:=R_ops J) (scale_bins lam MN) (lam * E) =
  match dyn_eject (O:=R_ops J) MN E with Ok l => Ok (scale_bins lam l) | Err e => Err e end.
Proof. exact eject_homogeneous. Qed.
Print Assumptions C18_eject_homogeneous.
