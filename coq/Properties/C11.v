(* C11 -- The IMF is continuous, normalised, and binned consistently.
   Statements only; proofs are `exact` of lemmas in Proofs/IMFProofs.v. *)
From Coq Require Import List Reals Sorted Arith.
From Coquelicot Require Import Coquelicot.
From SSP Require Import Num Model.Pk Model.IMF Model.IMFSpec Proofs.IMFProofs.
Import ListNotations.
Local Open Scope R_scope.

(* the normalisation constants exist and are positive whenever no segment is
   thinner than the Pk threshold, for any number of segments *)
Theorem C11_A_defined : forall J res a mb, valid_imf a mb ->
  List.Forall (fun p => p <> None) (seg_P (O:=R_ops J) res 1 a mb) ->
  exists A, A_comps (O:=R_ops J) res a mb = Some A /\ length A = length a /\ List.Forall (fun x => 0 < x) A.
Proof. exact A_comps_defined. Qed.
Print Assumptions C11_A_defined.

(* continuity at every interior break: A_i mb_{i+1}^{a_i} = A_{i+1} mb_{i+1}^{a_{i+1}} *)
Theorem C11_continuous : forall J res a mb A i, valid_imf a mb ->
  A_comps (O:=R_ops J) res a mb = Some A -> (S i < length a)%nat ->
  nth i A 0 * Rpower (nth (S i) mb 0) (nth i a 0) =
  nth (S i) A 0 * Rpower (nth (S i) mb 0) (nth (S i) a 0).
Proof. exact imf_continuous. Qed.
Print Assumptions C11_continuous.

(* normalisation: the segment integrals of N(m)/N0 sum to one *)
Theorem C11_normalised : forall J res a mb A, valid_imf a mb ->
  A_comps (O:=R_ops J) res a mb = Some A ->
  dot A (seg_raw J 1 a mb) = 1.
Proof. exact imf_normalised. Qed.
Print Assumptions C11_normalised.

(* ... and each term IS the integral of that segment's power law (by C12), so
   the IMF integrates to N0 over its range *)
Theorem C11_segment_integral : forall J a mb i N0 Ai, valid_imf a mb -> (i < length a)%nat ->
  is_RInt (fun m => N0 * (Ai * Rpower m (nth i a 0))) (nth i mb 0) (nth (S i) mb 0)
          (N0 * (Ai * nth i (seg_raw J 1 a mb) 0)).
Proof. exact imf_segment_integral. Qed.
Print Assumptions C11_segment_integral.

(* evaluation strictly inside segment i (modes 'zeros' and 'raise') *)
Theorem C11_eval_inside : forall J ext a mb A N m i, valid_imf a mb -> ext <> Extrapolate ->
  (i < length a)%nat -> nth i mb 0 < m < nth (S i) mb 0 ->
  imf_eval (O:=R_ops J) ext a mb A N m = Ok (N * (nth i A 0 * Rpower m (nth i a 0))).
Proof. exact imf_eval_inside. Qed.
Print Assumptions C11_eval_inside.

(* outside the range: zero / ValueError / nearest segment extrapolated *)
Theorem C11_eval_outside_zeros : forall J a mb A N m, valid_imf a mb ->
  m < nth 0 mb 0 \/ last mb 0 < m ->
  imf_eval (O:=R_ops J) Zeros a mb A N m = Ok (N * 0).
Proof. exact imf_eval_outside_zeros. Qed.
Print Assumptions C11_eval_outside_zeros.

Theorem C11_eval_outside_raise : forall J a mb A N m, valid_imf a mb ->
  m < nth 0 mb 0 \/ last mb 0 < m ->
  imf_eval (O:=R_ops J) Raise a mb A N m = Err ValueError.
Proof. exact imf_eval_outside_raise. Qed.
Print Assumptions C11_eval_outside_raise.

Theorem C11_eval_outside_extrapolate : forall J a mb A N m, valid_imf a mb -> 0 < m ->
  (m < nth 0 mb 0 ->
     imf_eval (O:=R_ops J) Extrapolate a mb A N m = Ok (N * (nth 0 A 0 * Rpower m (nth 0 a 0)))) /\
  (last mb 0 < m ->
     imf_eval (O:=R_ops J) Extrapolate a mb A N m =
       Ok (N * (nth (length a - 1) A 0 * Rpower m (nth (length a - 1) a 0)))).
Proof. exact imf_eval_outside_extrapolate. Qed.
Print Assumptions C11_eval_outside_extrapolate.

(* a bin that does not straddle a break gets that segment's constant and slope,
   hence (by C12) the integrals of N(m) and m N(m) over the bin *)
Theorem C11_binned_inside : forall J res ext a mb A N lo up i, valid_imf a mb -> ext <> Extrapolate ->
  (i < length a)%nat -> nth i mb 0 <= lo -> lo < up -> up <= nth (S i) mb 0 ->
  binned_eval1 (O:=R_ops J) res ext a mb A N lo up =
    Ok (omul (O:=R_ops J) (Some (N * nth i A 0)) (Pk (O:=R_ops J) res (nth i a 0) 1 lo up),
        omul (O:=R_ops J) (Some (N * nth i A 0)) (Pk (O:=R_ops J) res (nth i a 0) (1 + 1) lo up),
        nth i a 0).
Proof. exact binned_inside. Qed.
Print Assumptions C11_binned_inside.

(* total mass is linear in N0 and from_M0 yields exactly the requested mass *)
Theorem C11_from_M0 : forall J res a mb A M0 mt1 N0,
  Mtot (O:=R_ops J) res a mb A 1 = Some mt1 -> mt1 <> 0 ->
  from_M0_N0 (O:=R_ops J) res a mb A M0 = Some N0 ->
  N0 = M0 / mt1 /\ Mtot (O:=R_ops J) res a mb A N0 = Some M0.
Proof. exact from_M0_total. Qed.
Print Assumptions C11_from_M0.

(* KNOWN FINDING binned_eval_straddle: the documentation promises that bins need
   not align with breaks; a straddling bin gets 0 (mode 'zeros') *)
Theorem C11_binned_straddle_refuted : exists a mb lo up,
  valid_imf a mb /\ nth 0 mb 0 <= lo /\ lo < up /\ up <= last mb 0 /\
  forall J res A N, 0 < res <= 1 / 2 ->
    binned_eval1 (O:=R_ops J) res Zeros a mb A N lo up = Ok (Some (N * 0 * (up - lo)), Some (N * 0 * ((up * up - lo * lo) / 2)), 0).
Proof. exact binned_straddle_refuted. Qed.
Print Assumptions C11_binned_straddle_refuted.
