(* C03 -- Escape removes exactly the requested rate with the documented mass dependence.
   Field-level theorems for EVERY state, both branches, both normalisations.
   Statements only; proofs are `exact` of lemmas in Proofs/EscProofs.v. *)
From Coq Require Import List Reals.
From SSP Require Import Num Model.Pk Model.Esc Model.EscSpec Proofs.EscProofs.
Import ListNotations.
Local Open Scope R_scope.

(* ---------- before core collapse (t < tcc) ---------- *)
(* normalisation 'N': the losses over all star and remnant bins sum to the rate *)
Theorem C03_pre_N_sum : forall J res md rate tcc t stars rems, t < tcc ->
  stars_ok J res stars -> rems_ok rems ->
  sumR (map (fun q => fst (fst (fst q))) stars) + sumR (map fst rems) <> 0 ->
  let e := esc_field (O:=R_ops J) res md rate tcc t NormN stars rems in
  exists a b, ototal (e_dNs e) = Some a /\ ototal (e_dNr e) = Some b /\ a + b = rate.
Proof. exact esc_pre_N_sum. Qed.
Print Assumptions C03_pre_N_sum.

(* every bin loses the same fraction, slopes do not change, remnant mean masses
   are preserved (dMr * Nr = dNr * Mr) *)
Theorem C03_pre_uniform : forall J res md rate tcc t nm stars rems, t < tcc ->
  stars_ok J res stars -> rems_ok rems ->
  match nm with
  | NormN => sumR (map (fun q => fst (fst (fst q))) stars) + sumR (map fst rems) <> 0
  | NormM => sumR (map (fun q => fst (fst (fst q)) * ms_of J res q) stars) + sumR (map snd rems) <> 0
  end ->
  let e := esc_field (O:=R_ops J) res md rate tcc t nm stars rems in
  Forall (fun v => v = Some 0) (e_dalpha e) /\
  (exists frac : option R, forall i q, nth_error stars i = Some q ->
       nth_error (e_dNs e) i = Some (match frac with Some f => Some (f * fst (fst (fst q))) | None => None end)) /\
  (forall i p dn dm, nth_error rems i = Some p -> nth_error (e_dNr e) i = Some (Some dn) ->
       nth_error (e_dMr e) i = Some (Some dm) -> dm * fst p = dn * snd p).
Proof. exact esc_pre_uniform_nz. Qed.
Print Assumptions C03_pre_uniform.

(* without the non-zero total the statement is false (the code divides by it):
   machine-checked counter-example, found while proving *)
Theorem C03_pre_uniform_needs_nonzero_total :
  ~ (forall J res md rate tcc t nm stars rems, t < tcc ->
     stars_ok J res stars -> rems_ok rems ->
     let e := esc_field (O:=R_ops J) res md rate tcc t nm stars rems in
     Forall (fun v => v = Some 0) (e_dalpha e) /\
     (exists frac : option R, forall i q, nth_error stars i = Some q ->
          nth_error (e_dNs e) i = Some (match frac with Some f => Some (f * fst (fst (fst q))) | None => None end)) /\
     (forall i p dn dm, nth_error rems i = Some p -> nth_error (e_dNr e) i = Some (Some dn) ->
          nth_error (e_dMr e) i = Some (Some dm) -> dm * fst p = dn * snd p)).
Proof. exact esc_pre_uniform_refuted. Qed.
Print Assumptions C03_pre_uniform_needs_nonzero_total.

(* normalisation 'M': the mass losses (star bins at their mean mass P2/P1) sum to the rate *)
Theorem C03_pre_M_sum : forall J res md rate tcc t stars rems, t < tcc ->
  stars_ok J res stars -> rems_ok rems ->
  sumR (map (fun q => fst (fst (fst q)) * ms_of J res q) stars) + sumR (map snd rems) <> 0 ->
  let e := esc_field (O:=R_ops J) res md rate tcc t NormM stars rems in
  exists dNs b, e_dNs e = map Some dNs /\ ototal (e_dMr e) = Some b /\
    sumR (map (fun z => ms_of J res (fst z) * snd z) (combine stars dNs)) + b = rate.
Proof. exact esc_pre_M_sum. Qed.
Print Assumptions C03_pre_M_sum.

(* ---------- after core collapse (tcc <= t) ---------- *)
(* normalisation 'N': summed over all bins the loss equals the rate *)
Theorem C03_post_N_sum : forall J res md rate tcc t stars rems, tcc <= t -> 0 < md ->
  stars_ok J res stars -> rems_ok rems ->
  let e := esc_field (O:=R_ops J) res md rate tcc t NormN stars rems in
  forall den, ototal (map (sb_Is (O:=R_ops J) md)
                 (filter (sb_depl (O:=R_ops J) md)
                    (map (fun q => let '(n, al, lo, up) := q in mk_starbin (O:=R_ops J) res n al lo up) stars)))
              = Some den ->
  den + sumR (map (rem_I (O:=R_ops J) md) rems) <> 0 ->
  exists a b, ototal (e_dNs e) = Some a /\ ototal (e_dNr e) = Some b /\ a + b = rate.
Proof. exact esc_post_N_sum. Qed.
Print Assumptions C03_post_N_sum.

(* heavier bins are untouched: a star bin whose mean mass is not below md and a
   remnant bin whose mean mass is not below md lose nothing, slopes unchanged *)
Theorem C03_post_support : forall J res md rate tcc t nm stars rems i q, tcc <= t -> 0 < md ->
  stars_ok J res stars -> nth_error stars i = Some q -> md <= ms_of J res q ->
  let e := esc_field (O:=R_ops J) res md rate tcc t nm stars rems in
  nth_error (e_dNs e) i = Some (Some 0) /\ nth_error (e_dalpha e) i = Some (Some 0).
Proof. exact esc_post_support. Qed.
Print Assumptions C03_post_support.

(* remnant mean masses are preserved after core collapse as well *)
Theorem C03_post_rem_mean : forall J res md rate tcc t nm stars rems i p dn dm, tcc <= t -> 0 < md ->
  rems_ok rems ->
  let e := esc_field (O:=R_ops J) res md rate tcc t nm stars rems in
  nth_error rems i = Some p -> nth_error (e_dNr e) i = Some (Some dn) ->
  nth_error (e_dMr e) i = Some (Some dm) -> dm * fst p = dn * snd p.
Proof. exact esc_post_rem_mean. Qed.
Print Assumptions C03_post_rem_mean.

(* per-object loss rate proportional to 1 - sqrt(m / md): a remnant bin of mean
   mass mr < md loses N * (1 - sqrt(mr/md)) * B objects, one with mr >= md none *)
Theorem C03_rem_weight : forall J md n m, 0 < md -> 0 < n -> 0 <= m ->
  rem_I (O:=R_ops J) md (n, m) = (if Rlt_dec (m / n) md then n * (1 - sqrt ((m / n) / md)) else 0).
Proof. exact rem_weight. Qed.
Print Assumptions C03_rem_weight.
