(* C12 -- The power-law moment integral is exact, positive and additive.
   Statements only; proofs are `exact` of lemmas in Proofs/PkProofs.v.
   Real instance, universally quantified over the Junk record (Num.v). *)
From Coq Require Import List Reals.
From Coquelicot Require Import Coquelicot.
From SSP Require Import Num Model.Pk Proofs.PkProofs.
Import ListNotations.
Local Open Scope R_scope.

(* the helper IS the integral of m^(a+k-1) over [m1, m2], in both branches
   (generic and logarithmic, the latter exactly when a + k = 0) *)
Theorem C12_is_integral : forall J a k m1 m2, 0 < m1 -> m1 <= m2 ->
  is_RInt (fun m => Rpower m (a + k - 1)) m1 m2 (Pk_raw (O:=R_ops J) a k m1 m2).
Proof. exact Pk_raw_is_RInt. Qed.
Print Assumptions C12_is_integral.

Theorem C12_log_branch_iff : forall J a k m1 m2,
  a + k = 0 -> Pk_raw (O:=R_ops J) a k m1 m2 = Pk_log (O:=R_ops J) m1 m2.
Proof. exact Pk_raw_log_branch. Qed.
Print Assumptions C12_log_branch_iff.

Theorem C12_positive : forall J a k m1 m2, 0 < m1 -> m1 < m2 ->
  0 < Pk_raw (O:=R_ops J) a k m1 m2.
Proof. exact Pk_raw_pos. Qed.
Print Assumptions C12_positive.

Theorem C12_additive : forall J a k m1 m2 m3, 0 < m1 -> m1 <= m2 -> m2 <= m3 ->
  Pk_raw (O:=R_ops J) a k m1 m3 = Pk_raw (O:=R_ops J) a k m1 m2 + Pk_raw (O:=R_ops J) a k m2 m3.
Proof. exact Pk_raw_additive. Qed.
Print Assumptions C12_additive.

(* consecutive moments bracket the bin: m1 * P_k < P_{k+1} < m2 * P_k; with
   k = 1 this is "the implied mean mass P2/P1 lies inside (m1, m2)" *)
Theorem C12_moment_bracket : forall J a k m1 m2, 0 < m1 -> m1 < m2 ->
  m1 * Pk_raw (O:=R_ops J) a k m1 m2 < Pk_raw (O:=R_ops J) a (k + 1) m1 m2
  /\ Pk_raw (O:=R_ops J) a (k + 1) m1 m2 < m2 * Pk_raw (O:=R_ops J) a k m1 m2.
Proof. exact Pk_raw_moment_bracket. Qed.
Print Assumptions C12_moment_bracket.

Theorem C12_mean_mass_in_bin : forall J a m1 m2, 0 < m1 -> m1 < m2 ->
  m1 < Pk_raw (O:=R_ops J) a 2 m1 m2 / Pk_raw (O:=R_ops J) a 1 m1 m2 < m2.
Proof. exact Pk_mean_mass_in_bin. Qed.
Print Assumptions C12_mean_mass_in_bin.

(* derivative with respect to the upper limit (used by C01, C03) *)
Theorem C12_deriv_upper : forall J a k m1 x, 0 < m1 -> 0 < x ->
  is_derive (fun y => Pk_raw (O:=R_ops J) a k m1 y) x (Rpower x (a + k - 1)).
Proof. exact Pk_raw_deriv_upper. Qed.
Print Assumptions C12_deriv_upper.

(* NaN (None) exactly when the raw value is below the threshold; otherwise the
   raw value itself *)
Theorem C12_none_iff : forall J res a k m1 m2,
  Pk (O:=R_ops J) res a k m1 m2 = None <-> Pk_raw (O:=R_ops J) a k m1 m2 < res.
Proof. exact Pk_none_iff. Qed.
Print Assumptions C12_none_iff.

Theorem C12_some : forall J res a k m1 m2 r,
  Pk (O:=R_ops J) res a k m1 m2 = Some r -> r = Pk_raw (O:=R_ops J) a k m1 m2 /\ res <= r.
Proof. exact Pk_some. Qed.
Print Assumptions C12_some.

(* degenerate or inverted intervals give NaN, never a non-positive number *)
Theorem C12_degenerate_nan : forall J res a k m1 m2, 0 < res -> 0 < m2 -> m2 <= m1 ->
  Pk (O:=R_ops J) res a k m1 m2 = None.
Proof. exact Pk_degenerate_none. Qed.
Print Assumptions C12_degenerate_nan.

(* array form is element-wise, for any length and any mixture of branches *)
Theorem C12_array_pointwise : forall J res k a m1 m2 i,
  nth_error (Pk_arr (O:=R_ops J) res k a m1 m2) i =
  match nth_error a i, nth_error m1 i, nth_error m2 i with
  | Some x, Some y, Some z => Some (Pk (O:=R_ops J) res x k y z)
  | _, _, _ => None
  end.
Proof. exact Pk_arr_pointwise. Qed.
Print Assumptions C12_array_pointwise.

(* KNOWN FINDING pk_nan_below_abs_resolution: the threshold is absolute
   (1e-15), so inside the property's domain the helper returns NaN although
   the integral is a perfectly good positive number *)
Theorem C12_abs_threshold_refuted : forall J, exists a k m1 m2,
  -6 <= a <= 4 /\ k = 1 /\ 1/1000 <= m1 /\ m1 < m2 /\ m2 <= 1000 /\
  0 < Pk_raw (O:=R_ops J) a k m1 m2 /\
  Pk (O:=R_ops J) (1/1000000000000000) a k m1 m2 = None.
Proof. exact Pk_abs_threshold_refuted. Qed.
Print Assumptions C12_abs_threshold_refuted.
