(* C13 (continued) -- remnant bins given directly (nbins is a dict): WD bins run from
   max(first break, minimum WD mass) to the maximum WD mass, BH bins from the minimum BH mass to
   min(last break, maximum BH mass), each with exactly the requested number of contiguous,
   strictly increasing bins for both spacings; the request is refused (ValueError) exactly when
   that range is empty; the single NS bin contains the NS mass.
   Statements only; proofs are `exact` of lemmas in Proofs/BinsProofs2.v. *)
From Coq Require Import List Reals Sorted Arith.
From Coq Require PrimFloat.
From SSP Require Import Num FloatFun Model.Bins Model.BinsSpec Proofs.BinsProofs2 Proofs.FindingWitnesses.
Import ListNotations.
Local Open Scope R_scope.

Theorem C13_dict_WD : forall J sp m_first wd_lo wd_up n, (1 <= n)%nat -> 0 < m_first -> 0 < wd_lo ->
  Rmax m_first wd_lo < wd_up ->
  exists b, dict_WD (O:=R_ops J) sp m_first wd_lo wd_up n = Ok b /\
    length b = n /\ tiling b /\
    fst (hd (0, 0) b) = Rmax m_first wd_lo /\ snd (last b (0, 0)) = wd_up.
Proof. exact dict_WD_spec. Qed.
Print Assumptions C13_dict_WD.

Theorem C13_dict_WD_refused : forall J sp m_first wd_lo wd_up n,
  wd_up <= Rmax m_first wd_lo ->
  dict_WD (O:=R_ops J) sp m_first wd_lo wd_up n = Err ValueError.
Proof. exact dict_WD_refused. Qed.
Print Assumptions C13_dict_WD_refused.

Theorem C13_dict_BH : forall J sp m_last bh_lo bh_up n, (1 <= n)%nat -> 0 < bh_lo ->
  bh_lo < Rmin m_last bh_up ->
  exists b, dict_BH (O:=R_ops J) sp m_last bh_lo bh_up n = Ok b /\
    length b = n /\ tiling b /\
    fst (hd (0, 0) b) = bh_lo /\ snd (last b (0, 0)) = Rmin m_last bh_up.
Proof. exact dict_BH_spec. Qed.
Print Assumptions C13_dict_BH.

Theorem C13_dict_BH_refused : forall J sp m_last bh_lo bh_up n,
  Rmin m_last bh_up <= bh_lo ->
  dict_BH (O:=R_ops J) sp m_last bh_lo bh_up n = Err ValueError.
Proof. exact dict_BH_refused. Qed.
Print Assumptions C13_dict_BH_refused.

Theorem C13_dict_NS : forall J ns c001, 0 < c001 ->
  exists lo up, dict_NS (O:=R_ops J) ns c001 = [(lo, up)] /\ lo <= ns < up /\ up - lo = 2 * c001.
Proof. exact dict_NS_spec. Qed.
Print Assumptions C13_dict_NS.

(* one segment of either spacing: n + 1 strictly increasing edges from a to b *)
Theorem C13_seg_edges : forall J sp a b n, (1 <= n)%nat -> 0 < a -> a < b ->
  let s := seg_edges (O:=R_ops J) sp a b n in
  length s = S n /\ StronglySorted Rlt s /\ hd 0 s = a /\ last s 0 = b.
Proof. exact seg_edges_spec. Qed.
Print Assumptions C13_seg_edges.

(* known finding wd_bin_degenerate_edge_at_wd_max (the hypothesis `fst p <> wd_up` of C13_carve_WD is needed): float witness *)
Theorem C13_wd_bin_degenerate_refuted :
  match carve_WD (O:=F_ops) deg_ms deg_wd_up with
  | Ok wd => match last wd (deg_zero, deg_zero) with (lo, up) => PrimFloat.eqb lo up = true /\ length wd = 2%nat end
  | Err _ => False
  end.
Proof. exact wd_bin_degenerate_refuted. Qed.
Print Assumptions C13_wd_bin_degenerate_refuted.
