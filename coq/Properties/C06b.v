(* C06 (continued) -- known finding duplicate_age_row_uninitialised, machine-checked on the float
   instance of the model the correspondence check runs against EvolvedMF._evolve: with the schedule
   [3000, 3000, 12000] the second row is never written (`np.where(tout == ti)[0][0]` finds the first).
   Statement only; proof in Proofs/FindingWitnesses.v. *)
From Coq Require Import List Bool.
From Coq Require PrimFloat.
From SSP Require Import Num FloatFun Model.Evolve Proofs.FindingWitnesses.
Import ListNotations.

Theorem C06_duplicate_age_row_refuted :
  match dup_rows with
  | [Some (0%nat, _); None; Some (2%nat, _)] => True
  | _ => False
  end.
Proof. exact duplicate_age_row_refuted. Qed.
Print Assumptions C06_duplicate_age_row_refuted.
