(* C02 (continued) -- "the IFMR remnant mass never exceeds the progenitor's mass" is FALSE for the
   relations the validator accepts on an unbounded segment (known finding
   unbounded_bh_segment_upper_end_unchecked).  Statement only; proof in Proofs/IFMRUnbounded.v. *)
From Coq Require PrimFloat.
From SSP Require Import Num FloatFun Model.IFMR Proofs.IFMRUnbounded.

Theorem C02_unbounded_segment_refuted :
  exists e s c ml m : PrimFloat.float,
    powerlaw_valid (O:=F_ops) e s c ml PrimFloat.infinity = Ok tt /\
    PrimFloat.leb ml m = true /\
    PrimFloat.ltb m (line (O:=F_ops) m e s c) = true.
Proof. exact unbounded_segment_refuted. Qed.
Print Assumptions C02_unbounded_segment_refuted.

Theorem C02_bounded_segment_refused :
  powerlaw_valid (O:=F_ops) w_exp w_slope w_scale w_lower w_upper = Err ValueError.
Proof. exact bounded_segment_refused. Qed.
Print Assumptions C02_bounded_segment_refused.

Theorem C09_concave_segment_refuted_float :
  powerlaw_valid (O:=F_ops) c_exp c_slope c_scale c_lower c_upper = Ok tt /\
  PrimFloat.leb c_lower c_m = true /\ PrimFloat.leb c_m c_upper = true /\
  PrimFloat.ltb c_m (line (O:=F_ops) c_m c_exp c_slope c_scale) = true.
Proof. exact concave_segment_refuted_float. Qed.
Print Assumptions C09_concave_segment_refuted_float.
