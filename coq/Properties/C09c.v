(* C09 (continued) -- exactly when the END-POINT validation of an analytic IFMR segment
   (`_powerlaw_predictor`: 0 < line(m_lower) <= m_lower and 0 < line(m_upper) <= m_upper)
   guarantees 0 < line(m) <= m on the whole segment.
     line(m) = slope * m^e + scale  is monotone on m > 0, so positivity always follows;
     line(m) <= m follows when line is convex  (slope * e * (e - 1) >= 0)
                       or non-increasing       (slope * e <= 0);
   in the remaining case (increasing and strictly concave) it is FALSE: a validated
   segment can give remnants heavier than their progenitors (refutation below; known
   finding `concave_segment_endpoint_validation`).
   Statements only; proofs are `exact` of lemmas in Proofs/IFMRProofs3.v. *)
From Coq Require Import List Reals.
From SSP Require Import Num Model.IFMR Proofs.IFMRProofs3.
Local Open Scope R_scope.

Theorem C09_powerlaw_convex_in_bounds : forall J e slope scale m_lower m_upper m,
  0 < m_lower -> 0 <= slope * (e * (e - 1)) ->
  powerlaw_valid (O:=R_ops J) e slope scale m_lower m_upper = Ok tt ->
  m_lower <= m <= m_upper ->
  0 < line (O:=R_ops J) m e slope scale <= m.
Proof. exact powerlaw_convex_in_bounds. Qed.
Print Assumptions C09_powerlaw_convex_in_bounds.

Theorem C09_powerlaw_decreasing_in_bounds : forall J e slope scale m_lower m_upper m,
  0 < m_lower -> slope * e <= 0 ->
  powerlaw_valid (O:=R_ops J) e slope scale m_lower m_upper = Ok tt ->
  m_lower <= m <= m_upper ->
  0 < line (O:=R_ops J) m e slope scale <= m.
Proof. exact powerlaw_decreasing_in_bounds. Qed.
Print Assumptions C09_powerlaw_decreasing_in_bounds.

(* the library's own default relations are in the convex class *)
Theorem C09_default_segments_convex :
  0 <= 1 * (1 * (1 - 1)) /\ 0 <= 6e-4 * (3 * (3 - 1)) /\ 0 <= 0.43 * (1 * (1 - 1)) /\
  0 <= 3e-5 * (3 * (3 - 1)) /\ 0 <= 0.4 * (1 * (1 - 1)).
Proof. exact default_segments_convex. Qed.
Print Assumptions C09_default_segments_convex.

(* increasing and strictly concave: end-point validation is not enough *)
Theorem C09_powerlaw_concave_refuted : forall J, exists e slope scale m_lower m_upper m,
  0 < m_lower /\ 0 < slope * e /\ slope * (e * (e - 1)) < 0 /\
  powerlaw_valid (O:=R_ops J) e slope scale m_lower m_upper = Ok tt /\
  m_lower <= m <= m_upper /\
  m < line (O:=R_ops J) m e slope scale.
Proof. exact powerlaw_concave_refuted. Qed.
Print Assumptions C09_powerlaw_concave_refuted.
