(* C15 -- Kick retention is a probability matching its definition; kicks only remove.
   Statements only; proofs are `exact` of lemmas in Proofs/KicksProofs.v.
   erf is not in the standard library: it is the `jerf` field of the Junk
   record, and the theorems that need it carry its defining facts as explicit
   hypotheses (erf 0 = 0, derivative 2/sqrt(pi) exp(-x^2), bounded by 1). *)
From Coq Require Import List Reals.
From Coquelicot Require Import Coquelicot.
From SSP Require Import Num Model.Kicks Model.KicksSpec Proofs.EjectProofs Proofs.KicksProofs.
Import ListNotations.
Local Open Scope R_scope.

(* the closed-form cdf IS the integral of the Maxwellian pdf from 0 to v *)
Theorem C15_cdf_is_integral : forall J v a, erf_facts J -> 0 < a -> 0 <= v ->
  is_RInt (fun x => maxwell_pdf (O:=R_ops J) PI x a) 0 v (maxwell_cdf (O:=R_ops J) PI v a).
Proof. exact maxwell_cdf_is_integral. Qed.
Print Assumptions C15_cdf_is_integral.

(* it is a probability and non-decreasing in the escape velocity *)
Theorem C15_cdf_in_01 : forall J v a, erf_facts J -> 0 < a -> 0 <= v ->
  0 <= maxwell_cdf (O:=R_ops J) PI v a <= 1.
Proof. exact maxwell_cdf_in_01. Qed.
Print Assumptions C15_cdf_in_01.

Theorem C15_cdf_monotone : forall J v v' a, erf_facts J -> 0 < a -> 0 <= v -> v <= v' ->
  maxwell_cdf (O:=R_ops J) PI v a <= maxwell_cdf (O:=R_ops J) PI v' a.
Proof. exact maxwell_cdf_monotone. Qed.
Print Assumptions C15_cdf_monotone.

Theorem C15_full_fallback : forall J fb vesc vdisp, 1 <= fb ->
  retention_exact (O:=R_ops J) PI fb vesc vdisp = 1.
Proof. exact retention_full_fallback. Qed.
Print Assumptions C15_full_fallback.

Theorem C15_retention_in_01 : forall J fb vesc vdisp, erf_facts J -> 0 <= fb -> 0 < vdisp -> 0 <= vesc ->
  0 <= retention_exact (O:=R_ops J) PI fb vesc vdisp <= 1.
Proof. exact retention_exact_in_01. Qed.
Print Assumptions C15_retention_in_01.

Theorem C15_sigmoid_in_01 : forall J m slope scale, erf_facts J ->
  0 <= sigmoid (O:=R_ops J) m slope scale <= 1.
Proof. exact sigmoid_in_01. Qed.
Print Assumptions C15_sigmoid_in_01.

(* linear interpolation of the fallback fraction stays between its neighbours *)
Theorem C15_interp_between : forall J xs ys v i,
  (S i < length xs)%nat -> length ys = length xs ->
  (forall j, (S j < length xs)%nat -> nth j xs 0 < nth (S j) xs 0) ->
  nth i xs 0 < v <= nth (S i) xs 0 ->
  let y := interp1d (O:=R_ops J) xs ys 0 1 v in
  Rmin (nth i ys 0) (nth (S i) ys 0) <= y <= Rmax (nth i ys 0) (nth (S i) ys 0).
Proof. exact interp1d_between. Qed.
Print Assumptions C15_interp_between.

(* bookkeeping of the kick loop, for ANY retention values in [0,1] and any bins:
   populated bins are scaled by their retention (mean mass preserved, nothing
   increases), bins with fewer than c01 = 0.1 objects are untouched, and the
   reported ejecta is exactly the mass removed *)
Theorem C15_kicks_bookkeeping : forall J c01 MN rets MN' ej,
  length rets = length MN -> List.Forall (fun r => 0 <= r <= 1) rets -> List.Forall wfbin MN ->
  unbound_natal_kicks (O:=R_ops J) c01 MN rets = (MN', ej) ->
  length MN' = length MN /\
  (forall j m n r, nth_error MN j = Some (m, n) -> nth_error rets j = Some r ->
     nth_error MN' j = Some (if Rlt_dec n c01 then (m, n) else (m * r, n * r))) /\
  Forall2 (fun p p' => fst p' <= fst p /\ snd p' <= snd p /\ fst p' * snd p = fst p * snd p') MN MN' /\
  ej = sumM MN - sumM MN'.
Proof. exact kicks_bookkeeping. Qed.
Print Assumptions C15_kicks_bookkeeping.
