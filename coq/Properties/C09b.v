(* C09 (continued) -- the composition used for every regenerated BH table:
   the integer checks decided by the kernel imply the bounds for EVERY progenitor
   mass between the first and the last tabulated BH progenitor.
   Statements only; proofs are `exact` of lemmas in Proofs/IFMRProofs2.v. *)
From Coq Require Import ZArith List Reals.
From SSP Require Import Num Model.IFMR Model.IFMRSpec Proofs.IFMRProofs2.
Import ListNotations.
Local Open Scope R_scope.

Theorem C09_table_bounds : forall rows, table_okZ rows = true -> (2 <= length rows)%nat ->
  forall J m, fst (hd (0, 0) (knotsR rows)) <= m <= fst (last (knotsR rows) (0, 0)) ->
  0 < lin_interp (O:=R_ops J) (knotsR rows) m /\
  IZR (minfZ rows) / 100000 <= lin_interp (O:=R_ops J) (knotsR rows) m /\
  lin_interp (O:=R_ops J) (knotsR rows) m <= m.
Proof. exact table_bounds. Qed.
Print Assumptions C09_table_bounds.
