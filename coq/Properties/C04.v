(* C04 -- Every valid configuration yields a complete, finite, non-negative result.
   PARTIAL: what is proved here is the consistency of the filtered summary views,
   for any last row.  Finiteness / non-negativity / absence of exceptions over the
   whole pipeline involve the Fortran solver (its evaluation points, its first
   trial step) and are validated by exploration, not proved (see DESIGN.md).
   Statements only; proofs are `exact` of lemmas in Proofs/ViewsProofs.v. *)
From Coq Require Import List Reals.
From SSP Require Import Num Model.Sev Model.Views Proofs.ViewsProofs.
Import ListNotations.
Local Open Scope R_scope.

(* M, N, m and types have the same length nms + nmr *)
Theorem C04_views_lengths : forall J thr Ns Ms Nr Mr rem_types,
  length Ms = length Ns -> length Mr = length Nr -> length rem_types = length Nr ->
  let n := (nms (O:=R_ops J) thr Ns + nmr (O:=R_ops J) thr Nr)%nat in
  length (view_M (O:=R_ops J) thr Ns Ms Nr Mr) = n /\ length (view_N (O:=R_ops J) thr Ns Nr) = n /\
  length (view_m (O:=R_ops J) thr Ns Ms Nr Mr) = n /\ length (view_types (O:=R_ops J) thr Ns Nr rem_types) = n.
Proof. exact views_lengths. Qed.
Print Assumptions C04_views_lengths.

(* exactly the bins holding more than thr objects appear, star bins first, then the
   remnant bins in their stored (WD, NS, BH) order, each group in its original order *)
Theorem C04_view_N_spec : forall J thr Ns Nr,
  view_N (O:=R_ops J) thr Ns Nr = filter (fun n => Rltb thr n) Ns ++ filter (fun n => Rltb thr n) Nr.
Proof. exact view_N_spec. Qed.
Print Assumptions C04_view_N_spec.

Theorem C04_types_order : forall J thr Ns Nr rem_types,
  exists k, view_types (O:=R_ops J) thr Ns Nr rem_types =
            repeat TMS (nms (O:=R_ops J) thr Ns) ++ map TRem k /\
            k = sel (O:=R_ops J) thr Nr rem_types.
Proof. exact types_order. Qed.
Print Assumptions C04_types_order.

(* every listed bin holds more than thr objects, and m = M / N entry by entry *)
Theorem C04_listed_bins_populated : forall J thr Ns Nr n,
  In n (view_N (O:=R_ops J) thr Ns Nr) -> thr < n.
Proof. exact listed_bins_populated. Qed.
Print Assumptions C04_listed_bins_populated.

Theorem C04_m_is_M_over_N : forall J thr Ns Ms Nr Mr i M N, 0 <= thr ->
  nth_error (view_M (O:=R_ops J) thr Ns Ms Nr Mr) i = Some M ->
  nth_error (view_N (O:=R_ops J) thr Ns Nr) i = Some N ->
  nth_error (view_m (O:=R_ops J) thr Ns Ms Nr Mr) i = Some (M / N).
Proof. exact m_is_M_over_N. Qed.
Print Assumptions C04_m_is_M_over_N.
