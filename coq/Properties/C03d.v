(* C03 (continued) -- "whenever a constant or time-dependent escape rate is given" the escape part
   enters the right-hand side handed to the solver: for EVERY negative constant rate, however small,
   and for every callable rate; and it is absent only for a non-negative constant.
   Statements only; proofs are `exact` of lemmas in Proofs/DispatchProofs.v. *)
From Coq Require Import List Bool Reals.
From SSP Require Import Num Model.Dispatch Proofs.DispatchProofs.
Import ListNotations.
Local Open Scope R_scope.

Theorem C03_escape_active_iff : forall J time_dep rate,
  escape_active (O:=R_ops J) time_dep rate = true <-> time_dep = true \/ rate < 0.
Proof. exact escape_active_iff. Qed.
Print Assumptions C03_escape_active_iff.

Theorem C03_derivs_with_escape : forall J stellar_ev time_dep rate sev esc i,
  time_dep = true \/ rate < 0 -> length sev = length esc -> (i < length sev)%nat ->
  nth i (derivs (O:=R_ops J) stellar_ev time_dep rate sev esc) 0 =
  (if stellar_ev then nth i sev 0 else 0) + nth i esc 0.
Proof. exact derivs_with_escape. Qed.
Print Assumptions C03_derivs_with_escape.

Theorem C03_derivs_without_escape : forall J stellar_ev rate sev esc, 0 <= rate ->
  derivs (O:=R_ops J) stellar_ev false rate sev esc = (if stellar_ev then sev else vzero (O:=R_ops J) (length sev)).
Proof. exact derivs_without_escape. Qed.
Print Assumptions C03_derivs_without_escape.
