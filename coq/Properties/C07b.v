(* C07 (continued) -- when the BH block of an output row runs: exactly when the age exceeds the
   lifetime of the heaviest BH progenitor of the IFMR, i.e. exactly when the turn-off mass has
   dropped below that progenitor mass.  Before that the BH arrays are left untouched (C07_not_formed).
   Statements only; proofs are `exact` of lemmas in Proofs/GateProofs.v. *)
From Coq Require Import Reals Bool.
From SSP Require Import Num Model.Lifetime Model.Gate Proofs.GateProofs.
Local Open Scope R_scope.

Theorem C07_gate_iff_age_exceeds_lifetime : forall J a0 a1 a2 up t, 0 < a0 -> 0 < a1 -> a2 < 0 -> 0 < up ->
  (bh_gate (O:=R_ops J) a0 a1 a2 up t = true <-> tms (O:=R_ops J) a0 a1 a2 up < t).
Proof. exact bh_gate_iff. Qed.
Print Assumptions C07_gate_iff_age_exceeds_lifetime.

Theorem C07_gate_iff_turnoff_below_heaviest_progenitor : forall J a0 a1 a2 up t,
  0 < a0 -> 0 < a1 -> a2 < 0 -> 0 < up -> a0 < t ->
  (bh_gate (O:=R_ops J) a0 a1 a2 up t = true <-> mto (O:=R_ops J) a0 a1 a2 t < up).
Proof. exact bh_gate_iff_turnoff_below. Qed.
Print Assumptions C07_gate_iff_turnoff_below_heaviest_progenitor.
