(* C17 -- Invalid requests are rejected and non-convergence is never silent.
   Statements only; proofs are `exact` of lemmas in Proofs/ValidateProofs.v. *)
From Coq Require Import List Bool Reals.
From SSP Require Import Num Model.Validate Proofs.ValidateProofs.
Import ListNotations.
Local Open Scope R_scope.

(* any ONE of the invalid families makes construction raise ValueError, whatever
   the rest of the request is: positive constant escape rate, unknown escape
   normalisation, unknown BH / WD IFMR method, analytic IFMR parameters leaving
   (0, mi], overlapping WD/BH progenitor ranges, unknown binning method,
   unknown kick method *)
Theorem C17_emf_rejects : forall J r,
  (r_esc_callable r = false /\ 0 < r_esc_rate r) \/ r_esc_norm_known r = false \/ r_bh_method_known r = false \/
  r_analytic_ok r = false \/ r_wd_method_known r = false \/ r_bh_mi_lo r < r_wd_mi_up r \/
  r_binning_known r = false \/ r_kick_known r = false ->
  validate_emf (O:=R_ops J) r = Err ValueError.
Proof. exact emf_rejects. Qed.
Print Assumptions C17_emf_rejects.

(* ... and a request in none of the families is accepted *)
Theorem C17_emf_accepts : forall J r,
  (r_esc_callable r = true \/ r_esc_rate r <= 0) -> r_esc_norm_known r = true -> r_bh_method_known r = true ->
  r_analytic_ok r = true -> r_wd_method_known r = true -> r_wd_mi_up r <= r_bh_mi_lo r ->
  r_binning_known r = true -> r_kick_known r = true -> validate_emf (O:=R_ops J) r = Ok tt.
Proof. exact emf_accepts. Qed.
Print Assumptions C17_emf_accepts.

(* BH-fraction list of the wrong length or with a negative entry *)
Theorem C17_fbh_size : forall J n m fbh r, n <> m -> validate_fbh (O:=R_ops J) n m fbh r = Err ValueError.
Proof. exact fbh_rejects_size. Qed.
Print Assumptions C17_fbh_size.
Theorem C17_fbh_negative : forall J n fbh r f, In f fbh -> f < 0 -> validate_fbh (O:=R_ops J) n n fbh r = Err ValueError.
Proof. exact fbh_rejects_negative. Qed.
Print Assumptions C17_fbh_negative.

(* mis-sized or non-increasing IMF breaks *)
Theorem C17_imf_size : forall J mb a, length mb <> S (length a) -> validate_imf (O:=R_ops J) mb a = Err ValueError.
Proof. exact imf_rejects_size. Qed.
Print Assumptions C17_imf_size.
Theorem C17_imf_order : forall J mb a i, length mb = S (length a) -> (S i < length mb)%nat ->
  nth (S i) mb 0 <= nth i mb 0 -> validate_imf (O:=R_ops J) mb a = Err ValueError.
Proof. exact imf_rejects_order. Qed.
Print Assumptions C17_imf_order.

(* the flag is the conjunction over ALL integrate calls (scipy keeps success
   false once any call failed): any failed segment - also an intermediate one
   followed by successes - gives converged = false; converged = true means every
   segment succeeded *)
Theorem C17_flag_false_if_any_failed : forall segs, In false segs -> converged segs = false.
Proof. exact converged_false_if_any_failed. Qed.
Print Assumptions C17_flag_false_if_any_failed.
Theorem C17_flag_true_all_succeeded : forall segs, converged segs = true -> forall b, In b segs -> b = true.
Proof. exact converged_true_all_succeeded. Qed.
Print Assumptions C17_flag_true_all_succeeded.
