(* C09 (continued) -- known findings bh_max_on_top_dict_edge and wd_peak_on_upper_edge at the level of the
   lookup model (statements only; proofs in Proofs/TopEdgeProofs.v, Proofs/TopEdgeFloat.v): for every tiling,
   the mass equal to the upper edge of the last bin is refused, although the IFMR declares it as a possible
   remnant mass of that class (closed range [lower, upper]). *)
From Coq Require Import List Bool Reals.
From Coq Require PrimFloat.
From SSP Require Import Num FloatFun Model.Bins Model.BinsSpec Proofs.TopEdgeProofs Proofs.TopEdgeFloat.
Import ListNotations.
Local Open Scope R_scope.

Theorem C09_declared_maximum_unbinned : forall J b, tiling b -> b <> [] ->
  determine_index (O:=R_ops J) (snd (last b (0, 0))) b false = Err ValueError.
Proof. exact top_edge_unbinned. Qed.
Print Assumptions C09_declared_maximum_unbinned.

Theorem C09_declared_maximum_unbinned_float :
  determine_index (O:=F_ops) te_m te_bins false = Err ValueError /\ determine_index (O:=F_ops) te_in te_bins false = Ok 1%nat.
Proof. exact top_edge_unbinned_float. Qed.
Print Assumptions C09_declared_maximum_unbinned_float.
