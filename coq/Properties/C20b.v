(* C20 (continued) -- Kroupa.integral across SEVERAL pieces (imin <> imax in Model/Kroupa.v, kintegral).
   Statements only; proofs are `exact` of lemmas in Proofs/KroupaProofs2.v.  Together with
   C20_integral_one_piece these cover both branches of integral(): whatever sub-range is asked for,
   the method returns sums of the zeroth / first moments of the SAME scaled piece densities, each
   moment being the integral of its piece's density over the sub-range clipped to that piece. *)
From Coq Require Import List Reals.
From Coquelicot Require Import Coquelicot.
From SSP Require Import Num Model.Pk Model.Kroupa Model.KroupaSpec Proofs.KroupaProofs Proofs.KroupaProofs2.
Import ListNotations.
Local Open Scope R_scope.

(* the moments are additive over adjacent sub-ranges for EVERY exponent, the logarithmic ones included *)
Theorem C20_mom0_additive : forall J x y z a, 0 < x -> 0 < y -> 0 < z ->
  mom0 (O:=R_ops J) x z a = mom0 (O:=R_ops J) x y a + mom0 (O:=R_ops J) y z a.
Proof. exact mom0_additive. Qed.
Print Assumptions C20_mom0_additive.

Theorem C20_mom1_additive : forall J x y z a, 0 < x -> 0 < y -> 0 < z ->
  mom1 (O:=R_ops J) x z a = mom1 (O:=R_ops J) x y a + mom1 (O:=R_ops J) y z a.
Proof. exact mom1_additive. Qed.
Print Assumptions C20_mom1_additive.

(* so integral() inside one piece is additive: splitting the sub-range changes nothing *)
Theorem C20_integral_one_piece_additive : forall J a mlim i x y z, 0 < x -> 0 < y -> 0 < z ->
  kint_piece (O:=R_ops J) a mlim i x z =
  (fst (kint_piece (O:=R_ops J) a mlim i x y) + fst (kint_piece (O:=R_ops J) a mlim i y z),
   snd (kint_piece (O:=R_ops J) a mlim i x y) + snd (kint_piece (O:=R_ops J) a mlim i y z)).
Proof. exact kint_piece_additive. Qed.
Print Assumptions C20_integral_one_piece_additive.

(* the multi-piece branch of integral() IS the accumulator loop over pieces imin .. imax-1 ... *)
Theorem C20_integral_multi_is_loop : forall J a mlim xmin xmax imin imax,
  nth 0 mlim 0 <= xmin -> xmax <= last mlim 0 ->
  last_ge1 (O:=R_ops J) mlim xmin 0 None = Some imin ->
  (if Reqb xmax (last mlim 0) then Some (length mlim - 1)%nat else first_lt1 (O:=R_ops J) mlim xmax 0) = Some imax ->
  imin <> imax ->
  kintegral (O:=R_ops J) a mlim xmin xmax = Ok (kint_loop J a mlim xmin xmax (seq imin (imax - imin)) (0, 0)).
Proof. exact kintegral_multi_is_loop. Qed.
Print Assumptions C20_integral_multi_is_loop.

(* ... and that loop returns, for any run of pieces, the sums of the scaled one-piece moments over the
   sub-range clipped to each piece (same normalisation, same continuity constants as eval) *)
Theorem C20_integral_multi_is_sum : forall J a mlim xmin xmax imin n,
  kint_loop J a mlim xmin xmax (seq imin n) (0, 0) =
  (sumR (map (fun i => knorm (O:=R_ops J) a mlim * Cconst (O:=R_ops J) a mlim i *
                       mom0 (O:=R_ops J) (clip_lo J mlim xmin i) (clip_hi J mlim xmax i) (nth i a 0)) (seq imin n)),
   sumR (map (fun i => knorm (O:=R_ops J) a mlim * Cconst (O:=R_ops J) a mlim i *
                       mom1 (O:=R_ops J) (clip_lo J mlim xmin i) (clip_hi J mlim xmax i) (nth i a 0)) (seq imin n))).
Proof. exact kint_loop_spec. Qed.
Print Assumptions C20_integral_multi_is_sum.

(* each term is the integral of the scaled density of its piece (zeroth and first moment) *)
Theorem C20_integral_term_is_integral : forall J a mlim i lo hi, 0 < lo -> lo <= hi ->
  is_RInt (fun x => knorm (O:=R_ops J) a mlim * Cconst (O:=R_ops J) a mlim i * Rpower x (- nth i a 0)) lo hi
          (fst (kint_piece (O:=R_ops J) a mlim i lo hi)) /\
  is_RInt (fun x => knorm (O:=R_ops J) a mlim * Cconst (O:=R_ops J) a mlim i * (x * Rpower x (- nth i a 0))) lo hi
          (snd (kint_piece (O:=R_ops J) a mlim i lo hi)).
Proof. exact kint_term_is_integral. Qed.
Print Assumptions C20_integral_term_is_integral.

(* over the WHOLE domain the loop visits every piece with its own limits and the zeroth moment it returns
   is exactly one: integral() agrees with the normalisation of eval(), any number of pieces, any exponents *)
Theorem C20_integral_full_range_is_one : forall J a mlim, valid_kroupa a mlim ->
  fst (kint_loop J a mlim (nth 0 mlim 0) (last mlim 0) (seq 0 (length a)) (0, 0)) = 1.
Proof. exact kint_full_range. Qed.
Print Assumptions C20_integral_full_range_is_one.

(* and the method itself, asked for the whole domain [mlim[0], mlim[-1]], takes exactly that loop
   (imin = 0 by the first search, imax = the last index by the xmax == mlim[-1] special case) *)
Theorem C20_integral_full_range_is_loop : forall J a mlim, valid_kroupa a mlim ->
  kintegral (O:=R_ops J) a mlim (nth 0 mlim 0) (last mlim 0) =
  Ok (kint_loop J a mlim (nth 0 mlim 0) (last mlim 0) (seq 0 (length a)) (0, 0)).
Proof. exact kintegral_full_range. Qed.
Print Assumptions C20_integral_full_range_is_loop.
