(* C05 (continued) -- escape keeps a remnant bin on the line M = c N: in particular
   neutron-star bins, which only ever receive objects of the NS mass, keep holding
   exactly the NS mass under escape (both branches, both normalisations).
   Statements only; proofs are `exact` of lemmas in Proofs/EscProofs3.v. *)
From Coq Require Import List Reals.
From SSP Require Import Num Model.Esc Model.EscSpec Proofs.EscProofs3.
Import ListNotations.
Local Open Scope R_scope.

Theorem C05_escape_keeps_mass_relation : forall J res md rate tcc t nm stars rems i n m dn dm c,
  0 < md -> nth_error rems i = Some (n, m) -> 0 < n -> m = c * n ->
  let e := esc_field (O:=R_ops J) res md rate tcc t nm stars rems in
  nth_error (e_dNr e) i = Some (Some dn) -> nth_error (e_dMr e) i = Some (Some dm) ->
  (nm = NormM -> t < tcc -> sumR (map (fun q => fst (fst (fst q)) * ms_of J res q) stars) + sumR (map snd rems) <> 0) ->
  (nm = NormN -> t < tcc -> sumR (map (fun q => fst (fst (fst q))) stars) + sumR (map fst rems) <> 0) ->
  (nm = NormM -> t < tcc -> stars_ok J res stars) ->
  dm = c * dn.
Proof. exact escape_keeps_mass_relation_ok. Qed.
Print Assumptions C05_escape_keeps_mass_relation.

(* without the last hypothesis (no NaN moments before core collapse, norm 'M') the
   statement is false: machine-checked counter-example found while proving - the
   code's mass total skips star bins whose moments are NaN *)
Theorem C05_escape_mass_relation_needs_finite_moments :
  ~ (forall J res md rate tcc t nm stars rems i n m dn dm c,
  0 < md -> nth_error rems i = Some (n, m) -> 0 < n -> m = c * n ->
  let e := esc_field (O:=R_ops J) res md rate tcc t nm stars rems in
  nth_error (e_dNr e) i = Some (Some dn) -> nth_error (e_dMr e) i = Some (Some dm) ->
  (nm = NormM -> t < tcc -> sumR (map (fun q => fst (fst (fst q)) * ms_of J res q) stars) + sumR (map snd rems) <> 0) ->
  (nm = NormN -> t < tcc -> sumR (map (fun q => fst (fst (fst q))) stars) + sumR (map fst rems) <> 0) ->
  dm = c * dn).
Proof. exact escape_keeps_mass_relation_refuted. Qed.
Print Assumptions C05_escape_mass_relation_needs_finite_moments.
