(* C11 (continued) -- known finding nan_amplitudes_segment_below_pk_threshold (statements only;
   proofs in Proofs/IMFNanProofs.v): an undefined segment integral leaves the whole IMF without a
   normalisation, for every number instance; over the reals and on the binary64 instance this
   happens for a segment whose true integral is positive but below Pk's absolute 1e-15 threshold. *)
From Coq Require Import List Bool Reals.
From Coq Require PrimFloat.
From SSP Require Import Num FloatFun Model.Pk Model.IMF Proofs.IMFNanProofs Proofs.IMFNanFloat.
Import ListNotations.
Local Open Scope R_scope.

Theorem C11_undefined_segment_undefines_amplitudes : forall J res a mb,
  In None (seg_P (O:=R_ops J) res 1 a mb) -> A_comps (O:=R_ops J) res a mb = None.
Proof. intros J res a mb. exact (A_comps_none_if_segment_none (O:=R_ops J) res a mb). Qed.
Print Assumptions C11_undefined_segment_undefines_amplitudes.

Theorem C11_nan_amplitudes_refuted : forall J, exists a m1 m2,
  -6 <= a <= 4 /\ 1/1000 <= m1 /\ m1 < m2 /\ m2 <= 1000 /\
  0 < Pk_raw (O:=R_ops J) a 1 m1 m2 /\
  A_comps (O:=R_ops J) (1/1000000000000000) [a] [m1; m2] = None.
Proof. exact nan_amplitudes_refuted_R. Qed.
Print Assumptions C11_nan_amplitudes_refuted.

Theorem C11_nan_amplitudes_refuted_float :
  A_comps (O:=F_ops) nanw_res nanw_a nanw_mb = None /\
  (match A_comps (O:=F_ops) nanw_res nanw_a nanw_mb_ok with Some [_] => True | _ => False end).
Proof. exact nan_amplitudes_refuted_float. Qed.
Print Assumptions C11_nan_amplitudes_refuted_float.
