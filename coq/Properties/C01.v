(* C01 -- Without escape, the evolved population equals its closed-form value.
   PARTIAL (see DESIGN.md): proved here (and in C01b.v, C01c.v) is the analytic heart - the closed form
   for the stars of the bin that is turning off solves exactly the ODE the code
   integrates - and the deposit cone used by C05.  The per-remnant-bin
   pre-image integral and the convergence of dopri5 are validated against the
   closed form on every run, not proved.
   Statements only; proofs are `exact` of lemmas in Proofs/ClosedFormProofs.v. *)
From Coq Require Import List Reals.
From Coquelicot Require Import Coquelicot.
From SSP Require Import Num Model.Pk Model.Lifetime Model.Bins Model.BinsSpec Model.Sev Model.SevSpec Proofs.ClosedFormProofs.
Import ListNotations.
Local Open Scope R_scope.

(* N(t) = N(0) * P1(lo, mto(t)) / P1(lo, up): the IMF integrated over the part of the
   bin below the turn-off mass.  Its time derivative is exactly the flux the
   stellar-evolution derivative assigns to that bin when evaluated ON the closed
   form:  -(N(t) / P1(lo, mto)) * mto^alpha * |dmto/dt| . *)
Theorem C01_closed_form_solves_sev : forall J a0 a1 a2 alpha lo up N0 t,
  0 < a0 -> 0 < a1 -> a2 < 0 -> 0 < lo -> lo < up -> a0 < t ->
  lo < mto (O:=R_ops J) a0 a1 a2 t -> mto (O:=R_ops J) a0 a1 a2 t < up ->
  let N := fun s => N0 * Pk_raw (O:=R_ops J) alpha 1 lo (mto (O:=R_ops J) a0 a1 a2 s) / Pk_raw (O:=R_ops J) alpha 1 lo up in
  is_derive N t (- (N t / Pk_raw (O:=R_ops J) alpha 1 lo (mto (O:=R_ops J) a0 a1 a2 t)
                    * Rpower (mto (O:=R_ops J) a0 a1 a2 t) alpha) * dmdt (O:=R_ops J) a0 a1 a2 t).
Proof. exact closed_form_solves_sev. Qed.
Print Assumptions C01_closed_form_solves_sev.

(* and the field's value at a state with Ns[isev] = N(t) is that same expression *)
Theorem C01_field_flux : forall J c t Ns alpha m_rem cls s x p, valid_cfg J c ->
  sev_field (O:=R_ops J) c t Ns alpha m_rem cls = Ok (Some s) -> so_dNdt s = Some x ->
  let i := so_isev s in let lo := fst (nth i (c_ms c) (0, 0)) in
  let m := mto (O:=R_ops J) (c_a0 c) (c_a1 c) (c_a2 c) t in
  lo < m -> c_Nmin c < nth i Ns 0 ->
  Pk (O:=R_ops J) (c_res c) (nth i alpha 0) 1 lo m = Some p ->
  x = - (nth i Ns 0 / p * Rpower m (nth i alpha 0)) * dmdt (O:=R_ops J) (c_a0 c) (c_a1 c) (c_a2 c) t.
Proof. exact field_flux. Qed.
Print Assumptions C01_field_flux.
