(* C13 -- Mass bins tile the mass range; lookup and packing are exact inverses.
   Statements only; proofs are `exact` of lemmas in Proofs/BinsProofs.v. *)
From Coq Require Import List Reals Sorted Arith.
From SSP Require Import Num Model.Bins Model.BinsSpec Proofs.BinsProofs.
Import ListNotations.
Local Open Scope R_scope.

(* ---- bin counts ---------------------------------------------------- *)
Theorem C13_divide_bin_sizes : forall N Nsec, (0 < Nsec)%nat ->
  length (divide_bin_sizes N Nsec) = Nsec /\
  fold_right Nat.add 0%nat (divide_bin_sizes N Nsec) = N /\
  Forall (fun n => n = (N / Nsec)%nat \/ n = S (N / Nsec)) (divide_bin_sizes N Nsec).
Proof. exact divide_bin_sizes_spec. Qed.
Print Assumptions C13_divide_bin_sizes.

(* ---- edges: for both spacings, any number of segments, any counts >= 1 -- *)
Theorem C13_edges : forall J sp breaks counts, valid_request breaks counts ->
  exists s, edges (O:=R_ops J) sp breaks counts = Ok s /\
    length s = S (fold_right Nat.add 0%nat counts) /\
    StronglySorted Rlt s /\
    (forall b, In b breaks -> In b s) /\
    hd 0 s = hd 0 breaks /\ last s 0 = last breaks 0.
Proof. exact edges_spec. Qed.
Print Assumptions C13_edges.

(* stellar bins built from strictly increasing edges tile the range *)
Theorem C13_bins_tile : forall s, StronglySorted Rlt s -> (2 <= length s)%nat ->
  let b := bins_of_edges s in
  length b = (length s - 1)%nat /\ tiling b /\
  fst (hd (0, 0) b) = hd 0 s /\ snd (last b (0, 0)) = last s 0.
Proof. exact bins_of_edges_tile. Qed.
Print Assumptions C13_bins_tile.

(* ---- lookup --------------------------------------------------------- *)
Theorem C13_determine_index_spec : forall J b m i, tiling b -> b <> [] ->
  (determine_index (O:=R_ops J) m b false = Ok i <->
   (i < length b)%nat /\ fst (nth i b (0, 0)) <= m < snd (nth i b (0, 0))).
Proof. exact determine_index_spec. Qed.
Print Assumptions C13_determine_index_spec.

Theorem C13_determine_index_raises : forall J b m, tiling b -> b <> [] ->
  (determine_index (O:=R_ops J) m b false = Err ValueError <->
   m < fst (hd (0, 0) b) \/ snd (last b (0, 0)) <= m).
Proof. exact determine_index_raises. Qed.
Print Assumptions C13_determine_index_raises.

(* ---- turn-off truncation changes only the upper edge of the bin holding mto -- *)
Theorem C13_turned_off_inside : forall J b mto i, tiling b -> b <> [] ->
  (i < length b)%nat -> fst (nth i b (0, 0)) <= mto < snd (nth i b (0, 0)) ->
  let b' := turned_off_bins (O:=R_ops J) b mto in
  length b' = length b /\
  map fst b' = map fst b /\
  nth i (map snd b') 0 = mto /\
  (forall j, j <> i -> nth j (map snd b') 0 = nth j (map snd b) 0).
Proof. exact turned_off_inside. Qed.
Print Assumptions C13_turned_off_inside.

Theorem C13_turned_off_outside : forall J b mto, tiling b -> b <> [] ->
  mto < fst (hd (0, 0) b) \/ snd (last b (0, 0)) <= mto ->
  turned_off_bins (O:=R_ops J) b mto = b.
Proof. exact turned_off_outside. Qed.
Print Assumptions C13_turned_off_outside.

(* ---- remnant bins ---------------------------------------------------- *)
(* BH bins: start at the IFMR minimum BH mass, keep the stellar upper edges,
   contiguous and increasing; WD bins: end at the IFMR maximum WD mass *)
Theorem C13_carve_BH : forall J ms bh_lo, tiling ms -> ms <> [] ->
  bh_lo < snd (last ms (0, 0)) ->
  exists bh, carve_BH (O:=R_ops J) ms bh_lo = Ok bh /\ tiling bh /\ bh <> [] /\
    fst (hd (0, 0) bh) = bh_lo /\ snd (last bh (0, 0)) = snd (last ms (0, 0)) /\
    (forall p, In p (tl bh) -> In p ms).
Proof. exact carve_BH_spec. Qed.
Print Assumptions C13_carve_BH.

Theorem C13_carve_WD : forall J ms wd_up, tiling ms -> ms <> [] ->
  fst (hd (0, 0) ms) < wd_up ->
  Forall (fun p => fst p <> wd_up) ms ->   (* no stellar edge exactly at the WD maximum *)
  exists wd, carve_WD (O:=R_ops J) ms wd_up = Ok wd /\ tiling wd /\ wd <> [] /\
    fst (hd (0, 0) wd) = fst (hd (0, 0) ms) /\ snd (last wd (0, 0)) = wd_up /\
    (forall p, In p (removelast wd) -> In p ms).
Proof. exact carve_WD_spec. Qed.
Print Assumptions C13_carve_WD.

(* exactly one NS bin: the (left-inclusive) stellar bin that contains the NS mass *)
Theorem C13_carve_NS_unique : forall J ms c14 i, tiling ms ->
  (i < length ms)%nat -> fst (nth i ms (0, 0)) <= c14 < snd (nth i ms (0, 0)) ->
  carve_NS (O:=R_ops J) ms c14 = [nth i ms (0, 0)].
Proof. exact carve_NS_unique. Qed.
Print Assumptions C13_carve_NS_unique.

(* ... which exists whenever the NS mass lies in the stellar range, edges included
   (before /repo fix 46060d4 an edge exactly at the NS mass left NO NS bin) *)
Theorem C13_carve_NS_exists : forall J ms c14, tiling ms -> ms <> [] ->
  fst (hd (0, 0) ms) <= c14 < snd (last ms (0, 0)) ->
  exists i, (i < length ms)%nat /\ carve_NS (O:=R_ops J) ms c14 = [nth i ms (0, 0)].
Proof. exact carve_NS_exists. Qed.
Print Assumptions C13_carve_NS_exists.

(* ---- packing: inverse bijections in the documented order ---------------- *)
Theorem C13_blueprint : forall L,
  blueprint L = [0; nMS L; nMS L + nMS L; nMS L + nMS L + nWD L;
                 nMS L + nMS L + nWD L + nNS L; nMS L + nMS L + nWD L + nNS L + nBH L;
                 nMS L + nMS L + nWD L + nNS L + nBH L + nWD L;
                 nMS L + nMS L + nWD L + nNS L + nBH L + nWD L + nNS L;
                 nMS L + nMS L + nWD L + nNS L + nBH L + nWD L + nNS L + nBH L]%nat.
Proof. exact blueprint_spec. Qed.
Print Assumptions C13_blueprint.

Theorem C13_unpack_pack : forall (L : layout) (u : unpacked (T:=R)) y,
  pack L u = Ok y -> length y = ysize L /\ unpack L y = u.
Proof. exact unpack_pack. Qed.
Print Assumptions C13_unpack_pack.

Theorem C13_pack_unpack : forall (L : layout) (y : list R),
  length y = ysize L -> pack L (unpack L y) = Ok y.
Proof. exact pack_unpack. Qed.
Print Assumptions C13_pack_unpack.

Theorem C13_pack_size_mismatch : forall (L : layout) (u : unpacked (T:=R)),
  sizes_ok L u = false -> pack L u = Err ValueError.
Proof. exact pack_size_mismatch. Qed.
Print Assumptions C13_pack_size_mismatch.
