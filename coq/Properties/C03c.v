(* C03 (continued) -- after core collapse, normalisation 'M', and the slope equation.
   Statements only; proofs are `exact` of lemmas in Proofs/EscProofs4.v. *)
From Coq Require Import List Reals.
From Coquelicot Require Import Coquelicot.
From SSP Require Import Num Model.Pk Model.Esc Model.EscSpec Proofs.EscProofs4.
Import ListNotations.
Local Open Scope R_scope.

(* normalisation 'M' after core collapse: there is ONE constant B with
   B * (sum of the star mass weights Js over the depletable bins + sum of the remnant mass
   weights Jr) = rate, every depletable star bin loses B * Is objects, and the remnant
   number / mass losses total B * sum Ir and B * sum Jr.  Hence the mass carried away,
   star bins at their weight Js (the integral of m * n(m) * (1 - sqrt(m/md)), next theorem)
   plus remnants, equals the requested rate. *)
Theorem C03_post_M_norm : forall J res md rate tcc t stars rems, tcc <= t -> 0 < md ->
  stars_ok J res stars -> rems_ok rems ->
  let sb := map (fun q => let '(n, al, lo, up) := q in mk_starbin (O:=R_ops J) res n al lo up) stars in
  let e := esc_field (O:=R_ops J) res md rate tcc t NormM stars rems in
  forall den, ototal (map (sb_Js (O:=R_ops J) md) (filter (sb_depl (O:=R_ops J) md) sb)) = Some den ->
  den + sumR (map (rem_J (O:=R_ops J) md) rems) <> 0 ->
  exists B, B * den + B * sumR (map (rem_J (O:=R_ops J) md) rems) = rate /\
    (forall i b, nth_error sb i = Some b -> sb_depl (O:=R_ops J) md b = true ->
       exists w, sb_Is (O:=R_ops J) md b = Some w /\ nth_error (e_dNs e) i = Some (Some (B * w))) /\
    ototal (e_dNr e) = Some (B * sumR (map (rem_I (O:=R_ops J) md) rems)) /\
    ototal (e_dMr e) = Some (B * sumR (map (rem_J (O:=R_ops J) md) rems)).
Proof. exact esc_post_M_norm. Qed.
Print Assumptions C03_post_M_norm.

(* the star-bin mass weight Js IS the integral over the (truncated) bin of
   m * (bin's power law) * (1 - sqrt(m / md)) *)
Theorem C03_Js_is_integral : forall J res md n al lo up v, 0 < md -> 0 < lo -> lo < up ->
  List.Forall (fun k => Pk (O:=R_ops J) res al k lo up <> None)
              [1; ntwo (O:=R_ops J); five_halves (O:=R_ops J)] ->
  sb_Js (O:=R_ops J) md (mk_starbin (O:=R_ops J) res n al lo up) = Some v ->
  is_RInt (fun m => n / Pk_raw (O:=R_ops J) al 1 lo up * (m * Rpower m al) * (1 - sqrt (m / md))) lo up v.
Proof. exact Js_is_integral. Qed.
Print Assumptions C03_Js_is_integral.

(* slopes change consistently with the weighting: for a depletable bin the slope derivative is
   the difference of the per-object loss rates B * (1 - sqrt(m/md)) at the bin's two (truncated)
   edges, divided by ln(up/lo) -- the rate of change of the logarithmic slope of a power law
   through the two edge values *)
Theorem C03_post_dalpha : forall J res md rate tcc t nm stars rems i n al lo up Bv, tcc <= t -> 0 < md ->
  stars_ok J res stars -> nth_error stars i = Some (n, al, lo, up) ->
  sb_depl (O:=R_ops J) md (mk_starbin (O:=R_ops J) res n al lo up) = true ->
  let sb := map (fun q => let '(n, al, lo, up) := q in mk_starbin (O:=R_ops J) res n al lo up) stars in
  let e := esc_field (O:=R_ops J) res md rate tcc t nm stars rems in
  (match nm with
   | NormM => odiv (O:=R_ops J) (Some rate) (oadd (O:=R_ops J) (osumo (O:=R_ops J) (map (sb_Js (O:=R_ops J) md) (filter (sb_depl (O:=R_ops J) md) sb)))
                                 (Some (sum_plain (O:=R_ops J) (map (rem_J (O:=R_ops J) md) rems))))
   | NormN => odiv (O:=R_ops J) (Some rate) (oadd (O:=R_ops J) (osumo (O:=R_ops J) (map (sb_Is (O:=R_ops J) md) (filter (sb_depl (O:=R_ops J) md) sb)))
                                 (Some (sum_plain (O:=R_ops J) (map (rem_I (O:=R_ops J) md) rems))))
   end) = Some Bv ->
  nth_error (e_dalpha e) i =
    Some (Some ((Bv * (1 - sqrt (up / md)) - Bv * (1 - sqrt (lo / md))) / ln (up / lo))).
Proof. exact esc_post_dalpha. Qed.
Print Assumptions C03_post_dalpha.
