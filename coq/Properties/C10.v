(* C10 -- Any metallicity is accepted and snapped to the nearest tabulated model.
   Statements only; proofs are `exact` of lemmas in Proofs/FeHProofs.v.
   Quantified over EVERY rational [Fe/H] (every float is one), not a grid. *)
From Coq Require Import ZArith QArith Qabs List Bool.
From SSP Require Import Model.FeHLookup Proofs.FeHProofs.
Import ListNotations.
Local Open Scope Z_scope.

(* two-decimal formatting rounds to a nearest hundredth: |h - 100|x|| <= 1/2 *)
Theorem C10_fmt2_nearest : forall nz x,
  let h := snd (fmt2 nz x) in
  (0 <= inject_Z h /\ Qabs (inject_Z h - 100 * Qabs x) <= 1 # 2)%Q.
Proof. exact fmt2_nearest. Qed.
Print Assumptions C10_fmt2_nearest.

(* the sign character is the sign of the number (zero keeps its sign bit) *)
Theorem C10_fmt2_sign : forall nz x,
  fst (fmt2 nz x) = (if Qnum x =? 0 then nz else Qnum x <? 0).
Proof. exact fmt2_sign. Qed.
Print Assumptions C10_fmt2_sign.

(* for a complete grid (every hundredth from -neg_h to +pos_h, both zeros) every
   rational metallicity maps to a table that exists ... *)
Theorem C10_lookup_total : forall l neg_h pos_h nz x,
  grid_complete l neg_h pos_h = true ->
  has l (table_of (- inject_Z (Z.of_nat neg_h) / 100)%Q (inject_Z (Z.of_nat pos_h) / 100)%Q nz x) = true.
Proof. exact lookup_total. Qed.
Print Assumptions C10_lookup_total.

(* ... whose value is within half a hundredth of the clamped metallicity: the
   nearest grid point, clamped at the grid ends *)
Theorem C10_lookup_nearest : forall neg_h pos_h nz x,
  let lo := (- inject_Z (Z.of_nat neg_h) / 100)%Q in
  let hi := (inject_Z (Z.of_nat pos_h) / 100)%Q in
  let y := clampQ lo hi x in
  (lo <= y /\ y <= hi /\ (lo <= x -> x <= hi -> y == x) /\ (x < lo -> y == lo) /\ (hi < x -> y == hi) /\
   Qabs (inject_Z (name_val (table_of lo hi nz x)) - 100 * y) <= 1 # 2)%Q.
Proof. exact lookup_nearest. Qed.
Print Assumptions C10_lookup_nearest.
