(* C01 (continued) -- uniqueness: the turning-off bin obeys a linear ODE N' = -c(t) N,
   so ANY solution is the positive closed-form solution rescaled to its initial value;
   with the same initial value it IS the closed form.
   Statements only; proofs are `exact` of lemmas in Proofs/OdeProofs.v. *)
From Coq Require Import Reals.
From Coquelicot Require Import Coquelicot.
From SSP Require Import Proofs.OdeProofs.
Local Open Scope R_scope.

Theorem C01_linear_ode_unique : forall (c Nc N : R -> R) t0 t1, t0 <= t1 ->
  (forall t, t0 <= t <= t1 -> 0 < Nc t) ->
  (forall t, t0 <= t <= t1 -> is_derive Nc t (- c t * Nc t)) ->
  (forall t, t0 <= t <= t1 -> is_derive N t (- c t * N t)) ->
  forall t, t0 <= t <= t1 -> N t = N t0 / Nc t0 * Nc t.
Proof. exact linear_ode_unique. Qed.
Print Assumptions C01_linear_ode_unique.
