(* RK -- facts about every explicit Runge-Kutta method (used by C02, C03, C05, C18).
   Statements only; proofs are `exact` of lemmas in Proofs/RKProofs.v. *)
From Coq Require Import List Reals.
From SSP Require Import Model.RK Proofs.RKProofs.
Import ListNotations.
Local Open Scope R_scope.

(* a linear functional whose derivative along the field is a known rate r(t)
   evolves by the method's own quadrature of r -- whatever the steps *)
Theorem RK_linear_functional : forall f tab w n r, well_formed tab ->
  (forall t y, lin w n (f t y) = r t) ->
  forall hs t y, lin w n (rk_run f tab t y hs) = lin w n y + quad_run tab r t hs.
Proof. exact rk_linear_functional. Qed.
Print Assumptions RK_linear_functional.

(* exactly conserved when the rate is zero *)
Theorem RK_conserved : forall f tab w n, well_formed tab ->
  (forall t y, lin w n (f t y) = 0) ->
  forall hs t y, lin w n (rk_run f tab t y hs) = lin w n y.
Proof. exact rk_conserved. Qed.
Print Assumptions RK_conserved.

(* a constant rate is integrated exactly by any consistent method (sum b_i = 1) *)
Theorem RK_constant_rate : forall f tab w n rho, well_formed tab -> sumlist (tb tab) = 1 ->
  (forall t y, lin w n (f t y) = rho) ->
  forall hs t y, lin w n (rk_run f tab t y hs) = lin w n y + rho * sumlist hs.
Proof. exact rk_constant_rate. Qed.
Print Assumptions RK_constant_rate.

(* a field that is homogeneous of degree one gives a homogeneous numerical flow,
   component-wise, for the same steps *)
Theorem RK_homogeneous : forall f tab lam,
  (forall t y i, f t (vscale lam y) i = lam * f t y i) ->
  (forall t y y', (forall i, y i = y' i) -> forall i, f t y i = f t y' i) ->
  forall hs t y i, rk_run f tab t (vscale lam y) hs i = lam * rk_run f tab t y hs i.
Proof. exact rk_homogeneous. Qed.
Print Assumptions RK_homogeneous.
