(* C18 (continued) -- the escape field is homogeneous of degree one in (Ns, Nr, Mr, rate)
   and leaves the slopes' derivative unchanged, in both branches and both
   normalisations, whenever its normalising sum is non-zero.
   Statements only; proofs are `exact` of lemmas in Proofs/ScaleProofs2.v. *)
From Coq Require Import List Reals.
From SSP Require Import Num Model.Pk Model.Esc Model.EscSpec Model.ScaleSpec Proofs.ScaleProofs2.
Import ListNotations.
Local Open Scope R_scope.

(* before core collapse *)
Theorem C18_esc_homogeneous_pre : forall J res md rate tcc t nm stars rems lam, 0 < lam -> t < tcc ->
  stars_ok J res stars -> rems_ok rems ->
  match nm with
  | NormN => sumR (map (fun q => fst (fst (fst q))) stars) + sumR (map fst rems) <> 0
  | NormM => sumR (map (fun q => fst (fst (fst q)) * ms_of J res q) stars) + sumR (map snd rems) <> 0
  end ->
  esc_field (O:=R_ops J) res md (lam * rate) tcc t nm (scale_stars lam stars) (scale_bins lam rems) =
  scale_esc lam (esc_field (O:=R_ops J) res md rate tcc t nm stars rems).
Proof. exact esc_homogeneous_pre. Qed.
Print Assumptions C18_esc_homogeneous_pre.
