(* C01 (continued) -- what the closed form MEANS, for the exact solution of the equations the
   code integrates, on any stretch of time during which one stellar bin is turning off and the
   deposit goes to one remnant bin:
     (1) the stars left in the bin are the IMF integrated over the part of the bin below the
         turn-off mass;
     (2) the stars that left between two ages are the IMF integrated over the progenitor
         masses swept by the turn-off in between; hence (with C02_balance: dNr = -frem dNs)
         the remnants deposited are that integral times the class's retention fraction;
     (3) the remnant MASS deposited between two ages (the field deposits
         frem * m_rem(mto) * (stars leaving per unit time), C02_balance + C01_field_flux) is the
         IMF-weighted remnant mass of those progenitors times the retention fraction, for any
         continuous initial-final mass relation g.
   Statements only; proofs are `exact` of lemmas in Proofs/ClosedFormProofs2.v. *)
From Coq Require Import List Reals.
From Coquelicot Require Import Coquelicot.
From SSP Require Import Num Model.Pk Model.Lifetime Proofs.ClosedFormProofs2.
Import ListNotations.
Local Open Scope R_scope.

Theorem C01_stars_are_imf_below_turnoff : forall J a0 a1 a2 alpha lo up N0 t,
  0 < a0 -> 0 < a1 -> a2 < 0 -> 0 < lo -> lo < up -> a0 < t ->
  lo <= mto (O:=R_ops J) a0 a1 a2 t ->
  let A := N0 / Pk_raw (O:=R_ops J) alpha 1 lo up in
  let N := fun s => N0 * Pk_raw (O:=R_ops J) alpha 1 lo (mto (O:=R_ops J) a0 a1 a2 s) / Pk_raw (O:=R_ops J) alpha 1 lo up in
  is_RInt (fun m => A * Rpower m alpha) lo (mto (O:=R_ops J) a0 a1 a2 t) (N t).
Proof. exact stars_are_imf_below_turnoff. Qed.
Print Assumptions C01_stars_are_imf_below_turnoff.

Theorem C01_deposit_number : forall J a0 a1 a2 alpha lo up N0 t1 t2,
  0 < a0 -> 0 < a1 -> a2 < 0 -> 0 < lo -> lo < up -> a0 < t1 -> t1 <= t2 ->
  lo <= mto (O:=R_ops J) a0 a1 a2 t2 ->
  let A := N0 / Pk_raw (O:=R_ops J) alpha 1 lo up in
  let N := fun s => N0 * Pk_raw (O:=R_ops J) alpha 1 lo (mto (O:=R_ops J) a0 a1 a2 s) / Pk_raw (O:=R_ops J) alpha 1 lo up in
  is_RInt (fun m => A * Rpower m alpha) (mto (O:=R_ops J) a0 a1 a2 t2) (mto (O:=R_ops J) a0 a1 a2 t1) (N t1 - N t2).
Proof. exact deposit_number. Qed.
Print Assumptions C01_deposit_number.

Theorem C01_deposit_mass : forall J a0 a1 a2 alpha lo up N0 frem (g Mr : R -> R) t1 t2,
  0 < a0 -> 0 < a1 -> a2 < 0 -> 0 < lo -> lo < up -> a0 < t1 -> t1 <= t2 ->
  lo <= mto (O:=R_ops J) a0 a1 a2 t2 ->
  let A := N0 / Pk_raw (O:=R_ops J) alpha 1 lo up in
  (forall m, mto (O:=R_ops J) a0 a1 a2 t2 <= m <= mto (O:=R_ops J) a0 a1 a2 t1 -> continuous g m) ->
  (forall s, t1 <= s <= t2 ->
     is_derive Mr s (frem * g (mto (O:=R_ops J) a0 a1 a2 s) *
                     (A * Rpower (mto (O:=R_ops J) a0 a1 a2 s) alpha * dmdt (O:=R_ops J) a0 a1 a2 s))) ->
  is_RInt (fun m => frem * g m * (A * Rpower m alpha))
          (mto (O:=R_ops J) a0 a1 a2 t2) (mto (O:=R_ops J) a0 a1 a2 t1) (Mr t2 - Mr t1).
Proof. exact deposit_mass. Qed.
Print Assumptions C01_deposit_mass.
