(* C08 -- The requested final black-hole mass fraction is met.
   Statements only; proofs are `exact` of lemmas in Proofs/FbhProofs.v.
   Bins are (mass, number) pairs in array order; Mo is the (positive) mass of
   everything that is not a black hole, so the total mass is Mo + sumM MN. *)
From Coq Require Import List Reals.
From SSP Require Import Num Model.Eject Proofs.EjectProofs Proofs.FbhProofs.
Import ListNotations.
Local Open Scope R_scope.

(* the closed form removes exactly what is needed to reach the target *)
Theorem C08_mrem_closed_form : forall J f Mb Mt, 0 < Mt -> Mb < Mt -> 0 <= f < 1 ->
  let x := mrem (O:=R_ops J) (Mb / Mt - f) Mb Mt in
  x = (Mb - f * Mt) / (1 - f) /\ (Mb - x) = f * (Mt - x).
Proof. exact mrem_closed_form. Qed.
Print Assumptions C08_mrem_closed_form.

(* target below the fraction formed: after ejection BH mass / total mass = target,
   heaviest first, with the same bin-level structure as the standard model *)
Theorem C08_hits_target : forall J MN Mo f, Forall wfbin MN -> 0 < Mo -> 0 <= f < 1 ->
  f * (Mo + sumM MN) < sumM MN ->
  exists MN' w, dyn_eject_fbh_nowrap (O:=R_ops J) MN (sumM MN) (Mo + sumM MN) f = (MN', w) /\
    w = false /\
    sumM MN' = f * (Mo + sumM MN') /\
    exists below m n above m' n',
      MN = below ++ (m, n) :: above /\
      MN' = below ++ (m', n') :: zeros (length above) /\
      0 <= m' <= m /\ 0 <= n' /\ m' * n = m * n'.
Proof. exact fbh_hits_target. Qed.
Print Assumptions C08_hits_target.

(* target not below the fraction formed: the arrays pass through untouched *)
Theorem C08_above_formed_identity : forall J MN Mtot Mbh f, 0 < Mtot -> Mbh / Mtot <= f ->
  dyn_eject_fbh_nowrap (O:=R_ops J) MN Mbh Mtot f = (MN, false).
Proof. exact fbh_above_formed_identity. Qed.
Print Assumptions C08_above_formed_identity.

(* the per-row block: strict mode raises, non-strict warns and leaves the BHs as
   formed; before BHs form nothing happens *)
Theorem C08_strict_raises : forall J MN Mtot Mbh f, 0 < Mtot -> Mbh / Mtot < f ->
  fbh_post (O:=R_ops J) true true MN Mtot Mbh f = FbhErr.
Proof. exact fbh_post_strict_raises. Qed.
Print Assumptions C08_strict_raises.

Theorem C08_nonstrict_warns : forall J MN Mtot Mbh f, 0 < Mtot -> Mbh / Mtot < f ->
  fbh_post (O:=R_ops J) true false MN Mtot Mbh f = FbhOk MN true.
Proof. exact fbh_post_nonstrict_warns. Qed.
Print Assumptions C08_nonstrict_warns.

Theorem C08_not_formed : forall J strict MN Mtot Mbh f,
  fbh_post (O:=R_ops J) false strict MN Mtot Mbh f = FbhOk MN false.
Proof. exact fbh_post_not_formed. Qed.
Print Assumptions C08_not_formed.

Theorem C08_row_meets_target : forall J strict MN Mo f, Forall wfbin MN -> 0 < Mo -> 0 <= f < 1 ->
  f * (Mo + sumM MN) <= sumM MN ->
  exists MN', fbh_post (O:=R_ops J) true strict MN (Mo + sumM MN) (sumM MN) f = FbhOk MN' false /\
    sumM MN' = f * (Mo + sumM MN').
Proof. exact fbh_post_meets_target. Qed.
Print Assumptions C08_row_meets_target.
