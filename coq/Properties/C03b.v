(* C03 (continued) -- further escape theorems.  Statements only; proofs are `exact`
   of lemmas in Proofs/EscProofs2.v. *)
From Coq Require Import List Reals.
From Coquelicot Require Import Coquelicot.
From SSP Require Import Num Model.Pk Model.Esc Model.EscSpec Proofs.EscProofs2.
Import ListNotations.
Local Open Scope R_scope.

(* the star-bin weight Is IS the integral over the (truncated) bin of the bin's
   power law times 1 - sqrt(m / md): every star of mass m is lost at a rate
   proportional to 1 - sqrt(m/md) *)
Theorem C03_Is_is_integral : forall J res md n al lo up v, 0 < md -> 0 < lo -> lo < up ->
  List.Forall (fun k => Pk (O:=R_ops J) res al k lo up <> None) [1; three_halves (O:=R_ops J)] ->
  sb_Is (O:=R_ops J) md (mk_starbin (O:=R_ops J) res n al lo up) = Some v ->
  is_RInt (fun m => n / Pk_raw (O:=R_ops J) al 1 lo up * Rpower m al * (1 - sqrt (m / md))) lo up v.
Proof. exact Is_is_integral. Qed.
Print Assumptions C03_Is_is_integral.

(* with zero rate nothing escapes (after core collapse, non-degenerate normalisation) *)
Theorem C03_zero_rate_post : forall J res md tcc t stars rems den, tcc <= t ->
  ototal (map (sb_Is (O:=R_ops J) md)
            (filter (sb_depl (O:=R_ops J) md)
               (map (fun q => let '(n, al, lo, up) := q in mk_starbin (O:=R_ops J) res n al lo up) stars))) = Some den ->
  den + sumR (map (rem_I (O:=R_ops J) md) rems) <> 0 ->
  stars_ok J res stars ->
  let e := esc_field (O:=R_ops J) res md 0 tcc t NormN stars rems in
  List.Forall (fun v => v = Some 0) (e_dNs e) /\ List.Forall (fun v => v = Some 0) (e_dNr e) /\
  List.Forall (fun v => v = Some 0) (e_dMr e).
Proof. exact zero_rate_post. Qed.
Print Assumptions C03_zero_rate_post.
