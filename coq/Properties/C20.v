(* C20 -- The legacy Kroupa density is a normalised, continuous, non-negative PDF.
   Statements only; proofs are `exact` of lemmas in Proofs/KroupaProofs.v.
   (Model of the code after /repo fixes 3b435a4, 4b3b663, 8c12907: with them the
   theorems hold for ALL exponents, including exactly 1 and 2.) *)
From Coq Require Import List Reals.
From Coquelicot Require Import Coquelicot.
From SSP Require Import Num Model.Pk Model.Kroupa Model.KroupaSpec Proofs.KroupaProofs.
Import ListNotations.
Local Open Scope R_scope.

(* the moment helpers ARE the integrals of x^-a and x * x^-a, for every exponent
   (logarithmic special cases at exactly a = 1 and a = 2 respectively) *)
Theorem C20_mom0_is_integral : forall J xmin xmax a, 0 < xmin -> xmin <= xmax ->
  is_RInt (fun x => Rpower x (- a)) xmin xmax (mom0 (O:=R_ops J) xmin xmax a).
Proof. exact mom0_is_integral. Qed.
Print Assumptions C20_mom0_is_integral.

Theorem C20_mom1_is_integral : forall J xmin xmax a, 0 < xmin -> xmin <= xmax ->
  is_RInt (fun x => x * Rpower x (- a)) xmin xmax (mom1 (O:=R_ops J) xmin xmax a).
Proof. exact mom1_is_integral. Qed.
Print Assumptions C20_mom1_is_integral.

Theorem C20_mom0_pos : forall J xmin xmax a, 0 < xmin -> xmin < xmax -> 0 < mom0 (O:=R_ops J) xmin xmax a.
Proof. exact mom0_pos. Qed.
Print Assumptions C20_mom0_pos.

(* continuity at every interior limit, any number of pieces, any exponents *)
Theorem C20_continuous : forall J a mlim i, valid_kroupa a mlim -> (S i < length a)%nat ->
  Cconst (O:=R_ops J) a mlim i * Rpower (nth (S i) mlim 0) (- nth i a 0) =
  Cconst (O:=R_ops J) a mlim (S i) * Rpower (nth (S i) mlim 0) (- nth (S i) a 0).
Proof. exact kroupa_continuous. Qed.
Print Assumptions C20_continuous.

Theorem C20_constants_positive : forall J a mlim i, valid_kroupa a mlim -> (i < length a)%nat ->
  0 < Cconst (O:=R_ops J) a mlim i.
Proof. exact kroupa_C_pos. Qed.
Print Assumptions C20_constants_positive.

(* the density integrates to one: the pieces' integrals, scaled, sum to 1 *)
Theorem C20_normalised : forall J a mlim, valid_kroupa a mlim ->
  0 < knorm (O:=R_ops J) a mlim /\
  sumR (map (fun i => knorm (O:=R_ops J) a mlim * Cconst (O:=R_ops J) a mlim i *
                      mom0 (O:=R_ops J) (nth i mlim 0) (nth (S i) mlim 0) (nth i a 0))
            (seq 0 (length a))) = 1.
Proof. exact kroupa_normalised. Qed.
Print Assumptions C20_normalised.

(* non-negative wherever it is defined *)
Theorem C20_nonneg : forall J a mlim N0 x v, valid_kroupa a mlim -> 0 <= N0 -> 0 < x ->
  keval (O:=R_ops J) a mlim N0 x = Some v -> 0 <= v.
Proof. exact kroupa_nonneg. Qed.
Print Assumptions C20_nonneg.

(* integral() inside one piece returns the zeroth and first moments of that same density *)
Theorem C20_integral_one_piece : forall J a mlim i xmin xmax,
  kint_piece (O:=R_ops J) a mlim i xmin xmax =
  (knorm (O:=R_ops J) a mlim * Cconst (O:=R_ops J) a mlim i * mom0 (O:=R_ops J) xmin xmax (nth i a 0),
   knorm (O:=R_ops J) a mlim * Cconst (O:=R_ops J) a mlim i * mom1 (O:=R_ops J) xmin xmax (nth i a 0)).
Proof. exact kint_piece_spec. Qed.
Print Assumptions C20_integral_one_piece.

(* sampled masses lie inside the limits of their piece, for every exponent *)
Theorem C20_sample_in_limits : forall J x slope xmin xmax, 0 < xmin -> xmin < xmax -> 0 <= x <= 1 ->
  xmin <= getmass (O:=R_ops J) x slope xmin xmax <= xmax.
Proof. exact getmass_in_limits. Qed.
Print Assumptions C20_sample_in_limits.
