(* C18 (continued) -- the escape field after core collapse is homogeneous of degree one in
   (Ns, Nr, Mr, rate) and leaves the slope derivative unchanged, for both normalisations,
   whenever its normalising sum is non-zero.
   Statements only; proofs are `exact` of lemmas in Proofs/ScaleProofs3.v. *)
From Coq Require Import List Reals.
From SSP Require Import Num Model.Pk Model.Esc Model.EscSpec Model.ScaleSpec Proofs.ScaleProofs3.
Import ListNotations.
Local Open Scope R_scope.

Theorem C18_esc_homogeneous_post : forall J res md rate tcc t nm stars rems lam, 0 < lam -> tcc <= t -> 0 < md ->
  stars_ok J res stars -> rems_ok rems ->
  let sb := map (fun q => let '(n, al, lo, up) := q in mk_starbin (O:=R_ops J) res n al lo up) stars in
  (forall den,
     ototal (map (match nm with NormN => sb_Is (O:=R_ops J) md | NormM => sb_Js (O:=R_ops J) md end)
                 (filter (sb_depl (O:=R_ops J) md) sb)) = Some den ->
     den + sumR (map (match nm with NormN => rem_I (O:=R_ops J) md | NormM => rem_J (O:=R_ops J) md end) rems) <> 0) ->
  esc_field (O:=R_ops J) res md (lam * rate) tcc t nm (scale_stars lam stars) (scale_bins lam rems) =
  scale_esc lam (esc_field (O:=R_ops J) res md rate tcc t nm stars rems).
Proof. exact esc_homogeneous_post. Qed.
Print Assumptions C18_esc_homogeneous_post.
