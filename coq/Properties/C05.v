(* C05 -- Mean masses lie inside their bins and remnant classes never mix.
   Statements only; proofs are `exact` of lemmas in Proofs/ClosedFormProofs.v
   (plus the mean-preservation theorems already stated in C07 / C08 / C15 / C03). *)
From Coq Require Import List Reals.
From SSP Require Import Num Model.Pk Model.Bins Model.BinsSpec Model.Sev Model.SevSpec Proofs.ClosedFormProofs.
Import ListNotations.
Local Open Scope R_scope.

(* the mean mass P2/P1 of a star bin truncated at the turn-off mass lies strictly
   between the lower edge and the smaller of upper edge and turn-off mass *)
Theorem C05_star_mean_in_truncated_bin : forall J alpha lo up mto_,
  0 < lo -> lo < up -> lo < mto_ ->
  lo < Pk_raw (O:=R_ops J) alpha 2 lo (Rmin up mto_) / Pk_raw (O:=R_ops J) alpha 1 lo (Rmin up mto_) < Rmin up mto_.
Proof. exact star_mean_in_truncated_bin. Qed.
Print Assumptions C05_star_mean_in_truncated_bin.

(* the remnant flux lies in the cone of its bin: lower * dNr <= dMr <= upper * dNr,
   so depositing can never move a bin's mean mass outside the bin *)
Theorem C05_deposit_in_cone : forall J c t Ns alpha m_rem cls s k i dn dm x, valid_cfg J c ->
  tiling (cls_bins c cls) -> cls_bins c cls <> [] -> 0 <= cls_frem c cls ->
  sev_field (O:=R_ops J) c t Ns alpha m_rem cls = Ok (Some s) ->
  so_dep s = Some (k, i, Some dn, Some dm) -> so_dNdt s = Some x ->
  0 <= dn /\ fst (nth i (cls_bins c cls) (0, 0)) * dn <= dm /\ dm <= snd (nth i (cls_bins c cls) (0, 0)) * dn.
Proof. exact deposit_in_cone. Qed.
Print Assumptions C05_deposit_in_cone.

(* a deposit is written into the predicted class only (classes never mix) *)
Theorem C05_classes_never_mix : forall J c t Ns alpha m_rem cls s k i dn dm,
  sev_field (O:=R_ops J) c t Ns alpha m_rem cls = Ok (Some s) -> so_dep s = Some (k, i, dn, dm) -> k = cls.
Proof. exact deposit_class. Qed.
Print Assumptions C05_classes_never_mix.
