(* C09 -- Initial-final mass relations are closed, ordered, physical at every metallicity.
   Static part: statements only; proofs are `exact` of lemmas in Proofs/IFMRProofs.v.
   The data part (every BH table, every WD row, the analytic defaults) is
   regenerated and checked on every run (coq/gen/BHTables_*.v, WDRows.v). *)
From Coq Require Import ZArith List Reals.
From SSP Require Import Num Model.Sev Model.IFMR Model.IFMRSpec Proofs.IFMRProofs.
Import ListNotations.
Local Open Scope R_scope.

(* a linear spline through knots that are positive, at least lo and not above
   their progenitor stays positive, at least lo and not above the progenitor for
   EVERY mass between the first and last knot -- gaps between knots included *)
Theorem C09_lin_interp_bounds : forall J k lo m, knots_ok lo k -> (2 <= length k)%nat ->
  fst (hd (0, 0) k) <= m <= fst (last k (0, 0)) ->
  0 < lin_interp (O:=R_ops J) k m /\ lo <= lin_interp (O:=R_ops J) k m /\ lin_interp (O:=R_ops J) k m <= m.
Proof. exact lin_interp_bounds. Qed.
Print Assumptions C09_lin_interp_bounds.

(* it passes through its knots *)
Theorem C09_lin_interp_at_knot : forall J k lo i, knots_ok lo k -> (2 <= length k)%nat -> (i < length k)%nat ->
  lin_interp (O:=R_ops J) k (fst (nth i k (0, 0))) = snd (nth i k (0, 0)).
Proof. exact lin_interp_at_knot. Qed.
Print Assumptions C09_lin_interp_at_knot.

(* the integer checks the kernel runs on each regenerated table imply knots_ok
   with lo = the table minimum (= the declared BH_mf.lower) *)
Theorem C09_table_sound : forall rows, table_okZ rows = true ->
  knots_ok (IZR (minfZ rows) / 100000) (knotsR rows).
Proof. exact table_sound. Qed.
Print Assumptions C09_table_sound.

(* the three classes are contiguous ranges in the order WD < NS < BH *)
Theorem C09_classes_contiguous : forall J f m, i_wd_mi_up f <= i_bh_lo f ->
  (predict_type (O:=R_ops J) f m = WD <-> m <= i_wd_mi_up f /\ m < i_bh_lo f) /\
  (predict_type (O:=R_ops J) f m = NS <-> i_wd_mi_up f < m < i_bh_lo f) /\
  (predict_type (O:=R_ops J) f m = BH <-> i_bh_lo f <= m).
Proof. exact classes_contiguous. Qed.
Print Assumptions C09_classes_contiguous.

(* type and mass predictions use the same class boundaries *)
Theorem C09_predict_agrees_with_type : forall J f m,
  predict (O:=R_ops J) f m =
  match predict_type (O:=R_ops J) f m with
  | BH => lin_interp (O:=R_ops J) (i_bh_knots f) m
  | NS => i_ns_mass f
  | WD => horner (O:=R_ops J) (i_wd_coeffs f) m
  end.
Proof. exact predict_agrees_with_type. Qed.
Print Assumptions C09_predict_agrees_with_type.

(* a linear analytic prescription that passes the end-point validation stays in (0, mi] in between *)
Theorem C09_linear_in_bounds : forall J slope scale m_lower m_upper m, 0 < m_lower ->
  powerlaw_valid (O:=R_ops J) 1 slope scale m_lower m_upper = Ok tt ->
  m_lower <= m <= m_upper ->
  0 < line (O:=R_ops J) m 1 slope scale <= m.
Proof. exact linear_in_bounds. Qed.
Print Assumptions C09_linear_in_bounds.
