(* Proofs/FeHProofs.v -- proofs for Properties/C10.v (metallicity snapping). *)
From Coq Require Import ZArith QArith List Bool Lia ZifyBool.
(* Properties/C10.v uses [Qabs] without requiring it: re-export it from here. *)
From Coq Require Export Qabs.
From SSP Require Import Model.FeHLookup.
Import ListNotations.
Local Open Scope Z_scope.

(* Properties/C10.v writes [(0 <= h)%Q] with [h : Z]; this only type-checks with
   the canonical embedding as a coercion, so that the statement reads
   [(0 <= inject_Z h)%Q]. The coercion is deliberately global (C10.v imports
   this file). *)
Coercion inject_Z : Z >-> Q.

Ltac Zify.zify_post_hook ::= Z.div_mod_to_equations.

(* ---------- round-half-even ---------- *)

Lemma rhe_spec : forall n d, 0 < d -> 0 <= n ->
  0 <= rhe n d /\ Z.abs (rhe n d * d - n) * 2 <= d.
Proof.
  intros n d Hd Hn. unfold rhe.
  pose proof (Z.div_mod n d ltac:(lia)) as Hdm.
  pose proof (Z.mod_pos_bound n d Hd) as Hr.
  assert (Hq : 0 <= n / d) by (apply Z.div_pos; lia).
  set (q := n / d) in *. set (r := n mod d) in *.
  destruct (2 * r <? d) eqn:E1; [ apply Z.ltb_lt in E1 | apply Z.ltb_ge in E1 ].
  { split; [lia|]. replace (q * d - n) with (- r) by lia. lia. }
  destruct (d <? 2 * r) eqn:E2; [ apply Z.ltb_lt in E2 | apply Z.ltb_ge in E2 ].
  { split; [lia|]. replace ((q + 1) * d - n) with (d - r) by lia. lia. }
  destruct (Z.even q).
  { split; [lia|]. replace (q * d - n) with (- r) by lia. lia. }
  { split; [lia|]. replace ((q + 1) * d - n) with (d - r) by lia. lia. }
Qed.

Lemma rhe_le : forall n d k, 0 < d -> 0 <= n -> 0 <= k -> n <= k * d -> rhe n d <= k.
Proof.
  intros n d k Hd Hn Hk Hle. unfold rhe.
  pose proof (Z.div_mod n d ltac:(lia)) as Hdm.
  pose proof (Z.mod_pos_bound n d Hd) as Hr.
  set (q := n / d) in *. set (r := n mod d) in *.
  assert (Hqk : q < k \/ (q = k /\ r = 0)).
  { destruct (Z_lt_le_dec q k) as [Hlt|Hge]; [left; exact Hlt|right].
    assert (Hm : d * k <= d * q) by (apply Z.mul_le_mono_nonneg_l; lia).
    assert (Hqk : d * q <= d * k) by lia.
    assert (Heq : d * q = d * k) by lia.
    apply Z.mul_reg_l in Heq; [|lia]. split; lia. }
  destruct Hqk as [Hlt|[Heq Hr0]].
  { destruct (2 * r <? d); [lia|]. destruct (d <? 2 * r); [lia|].
    destruct (Z.even q); lia. }
  { replace (2 * r <? d) with true by (symmetry; apply Z.ltb_lt; lia). lia. }
Qed.

Lemma rhe_0 : forall d, 0 < d -> rhe 0 d = 0.
Proof.
  intros d Hd. unfold rhe. rewrite Z.div_0_l by lia. rewrite Z.mod_0_l by lia.
  replace (2 * 0 <? d) with true by (symmetry; apply Z.ltb_lt; lia). reflexivity.
Qed.

(* ---------- Q helpers ---------- *)

(* characterisation of the two grid ends as Z inequalities *)
Lemma lo_le_Z : forall N y,
  (- inject_Z N / 100 <= y)%Q <-> - N * Zpos (Qden y) <= 100 * Qnum y.
Proof.
  intros N [n d]. unfold Qle, Qdiv, Qmult, Qinv, Qopp, inject_Z; cbn [Qnum Qden]. lia.
Qed.

Lemma le_hi_Z : forall P y,
  (y <= inject_Z P / 100)%Q <-> 100 * Qnum y <= P * Zpos (Qden y).
Proof.
  intros P [n d]. unfold Qle, Qdiv, Qmult, Qinv, Qopp, inject_Z; cbn [Qnum Qden]. lia.
Qed.

Lemma near_Z : forall h s n d,
  Z.abs (h * Zpos d - 100 * Z.abs n) * 2 <= Zpos d ->
  s = Z.sgn n \/ h = 0 ->
  (Qabs (inject_Z (s * h) - 100 * (n # d)) <= 1 # 2)%Q.
Proof.
  intros h s n d H Hs. unfold Qle, Qabs, Qminus, Qplus, Qmult, Qopp, inject_Z. cbn [Qnum Qden].
  destruct Hs as [Hs|Hs]; subst; lia.
Qed.

(* ---------- fmt2 ---------- *)

Lemma fmt2_nearest : forall nz x,
  let h := snd (fmt2 nz x) in
  (0 <= h /\ Qabs (inject_Z h - 100 * Qabs x) <= 1 # 2)%Q.
Proof.
  intros nz [n d]. cbv zeta. unfold fmt2. cbn [snd Qnum Qden].
  change (Qabs (n # d)) with (Z.abs n # d).
  destruct (rhe_spec (100 * Z.abs n) (Zpos d) ltac:(lia) ltac:(lia)) as [H0 H1].
  set (h := rhe (100 * Z.abs n) (Zpos d)) in *.
  split.
  { unfold Qle, inject_Z. cbn [Qnum Qden]. lia. }
  { replace h with (1 * h) at 1 by lia.
    apply near_Z.
    - rewrite Z.abs_involutive. exact H1.
    - destruct (Z.eq_dec n 0) as [E|E].
      + right. subst n. apply rhe_0. lia.
      + left. lia. }
Qed.

Lemma fmt2_sign : forall nz x,
  fst (fmt2 nz x) = (if Qnum x =? 0 then nz else Qnum x <? 0).
Proof. intros nz x. reflexivity. Qed.

Lemma fmt2_val_nearest : forall nz y,
  (Qabs (inject_Z (name_val (fmt2 nz y)) - 100 * y) <= 1 # 2)%Q.
Proof.
  intros nz [n d]. unfold name_val, fmt2. cbn [fst snd Qnum Qden].
  destruct (rhe_spec (100 * Z.abs n) (Zpos d) ltac:(lia) ltac:(lia)) as [H0 H1].
  set (h := rhe (100 * Z.abs n) (Zpos d)) in *.
  destruct (n =? 0) eqn:E0.
  { apply Z.eqb_eq in E0.
    assert (Hh : h = 0).
    { unfold h. rewrite E0. apply (rhe_0 (Zpos d)). lia. }
    replace (if nz then - h else h) with (0 * h) by (rewrite Hh; destruct nz; reflexivity).
    apply near_Z; [exact H1|right; exact Hh]. }
  apply Z.eqb_neq in E0.
  destruct (n <? 0) eqn:E1; [ apply Z.ltb_lt in E1 | apply Z.ltb_ge in E1 ].
  { replace (- h) with ((-1) * h) by lia. apply near_Z; [exact H1|left; lia]. }
  { replace h with (1 * h) at 1 by lia. apply near_Z; [exact H1|left; lia]. }
Qed.

(* ---------- clamp ---------- *)

Lemma lo_le_hi : forall (neg_h pos_h : nat),
  (- inject_Z (Z.of_nat neg_h) / 100 <= inject_Z (Z.of_nat pos_h) / 100)%Q.
Proof.
  intros neg_h pos_h. unfold Qle, Qdiv, Qmult, Qinv, Qopp, inject_Z; cbn [Qnum Qden]. lia.
Qed.

Lemma clamp_props : forall lo hi x, (lo <= hi)%Q ->
  let y := clampQ lo hi x in
  (lo <= y /\ y <= hi /\ (lo <= x -> x <= hi -> y == x) /\ (x < lo -> y == lo) /\ (hi < x -> y == hi))%Q.
Proof.
  intros lo hi x Hlh. unfold clampQ.
  destruct (Qlt_le_dec x lo) as [H1|H1].
  { split; [|split; [|split; [|split]]].
    - apply Qle_refl.
    - exact Hlh.
    - intros Ha Hb. exfalso. apply (Qlt_not_le _ _ H1 Ha).
    - intros _. reflexivity.
    - intros Hb. exfalso. apply (Qlt_not_le _ _ (Qlt_trans _ _ _ Hb H1) Hlh). }
  destruct (Qlt_le_dec hi x) as [H2|H2].
  { split; [|split; [|split; [|split]]].
    - exact Hlh.
    - apply Qle_refl.
    - intros Ha Hb. exfalso. apply (Qlt_not_le _ _ H2 Hb).
    - intros Hb. exfalso. apply (Qlt_not_le _ _ Hb H1).
    - intros _. reflexivity. }
  { split; [|split; [|split; [|split]]].
    - exact H1.
    - exact H2.
    - intros _ _. reflexivity.
    - intros Hb. exfalso. apply (Qlt_not_le _ _ Hb H1).
    - intros Hb. exfalso. apply (Qlt_not_le _ _ Hb H2). }
Qed.

Lemma lookup_nearest : forall neg_h pos_h nz x,
  let lo := (- inject_Z (Z.of_nat neg_h) / 100)%Q in
  let hi := (inject_Z (Z.of_nat pos_h) / 100)%Q in
  let y := clampQ lo hi x in
  (lo <= y /\ y <= hi /\ (lo <= x -> x <= hi -> y == x) /\ (x < lo -> y == lo) /\ (hi < x -> y == hi) /\
   Qabs (inject_Z (name_val (table_of lo hi nz x)) - 100 * y) <= 1 # 2)%Q.
Proof.
  intros neg_h pos_h nz x lo hi y.
  destruct (clamp_props lo hi x (lo_le_hi neg_h pos_h)) as (A & B & C & D & E).
  repeat split; try assumption.
  unfold table_of. apply fmt2_val_nearest.
Qed.

(* ---------- grid ---------- *)

Lemma range_ok_has : forall l neg k, range_ok l neg k = true ->
  forall j, (j <= k)%nat -> has l (neg, Z.of_nat j) = true.
Proof.
  intros l neg k. induction k as [|k IH]; intros H j Hj.
  { assert (j = 0%nat) by lia. subst j. exact H. }
  { simpl range_ok in H. apply andb_true_iff in H. destruct H as [Ha Hb].
    destruct (Nat.eq_dec j (S k)) as [E|E].
    - subst j. exact Ha.
    - apply IH; [exact Hb|lia]. }
Qed.

Lemma range_ok_hasZ : forall l neg k h, range_ok l neg k = true ->
  0 <= h <= Z.of_nat k -> has l (neg, h) = true.
Proof.
  intros l neg k h H Hh. rewrite <- (Z2Nat.id h) by lia.
  apply (range_ok_has l neg k H). lia.
Qed.

Lemma lookup_total : forall l neg_h pos_h nz x,
  grid_complete l neg_h pos_h = true ->
  has l (table_of (- inject_Z (Z.of_nat neg_h) / 100)%Q (inject_Z (Z.of_nat pos_h) / 100)%Q nz x) = true.
Proof.
  intros l neg_h pos_h nz x G.
  unfold grid_complete in G. apply andb_true_iff in G. destruct G as [GN GP].
  destruct (clamp_props _ _ x (lo_le_hi neg_h pos_h)) as (A & B & _).
  unfold table_of.
  set (y := clampQ _ _ x) in *. clearbody y.
  apply lo_le_Z in A. apply le_hi_Z in B.
  destruct y as [n d]. cbn [Qnum Qden] in *.
  unfold fmt2. cbn [Qnum Qden].
  destruct (rhe_spec (100 * Z.abs n) (Zpos d) ltac:(lia) ltac:(lia)) as [H0 _].
  destruct (n =? 0) eqn:E0.
  { apply Z.eqb_eq in E0. subst n. change (100 * Z.abs 0) with 0.
    rewrite rhe_0 by lia.
    destruct nz; [apply (range_ok_hasZ l true neg_h 0 GN) | apply (range_ok_hasZ l false pos_h 0 GP)]; lia. }
  apply Z.eqb_neq in E0.
  destruct (n <? 0) eqn:E1; [ apply Z.ltb_lt in E1 | apply Z.ltb_ge in E1 ].
  { apply (range_ok_hasZ l true neg_h _ GN). split; [exact H0|].
    apply rhe_le; lia. }
  { apply (range_ok_hasZ l false pos_h _ GP). split; [exact H0|].
    apply rhe_le; lia. }
Qed.
