(* Proofs/TableFacts.v -- exact decimals (mantissa, power of ten) as reals,
   for the regenerated data tables (gen/).  A decimal's sign is its
   mantissa's sign, so sign conditions on table rows are decided by the kernel
   on integers (vm_compute) and lifted to the reals here. *)
From Coq Require Import ZArith List Bool Reals Lra Lia.
Import ListNotations.
Local Open Scope R_scope.

Definition dec := (Z * Z)%type.
Definition dec2R (d : dec) : R := IZR (fst d) * powerRZ 10 (snd d).

Lemma pow10_pos e : 0 < powerRZ 10 e.
Proof. apply powerRZ_lt. lra. Qed.
Lemma dec2R_pos d : (0 < fst d)%Z -> 0 < dec2R d.
Proof. intros H. unfold dec2R. apply Rmult_lt_0_compat; [apply IZR_lt; exact H|apply pow10_pos]. Qed.
Lemma dec2R_neg d : (fst d < 0)%Z -> dec2R d < 0.
Proof.
  intros H. unfold dec2R. assert (IZR (fst d) < 0) by (apply IZR_lt; exact H).
  pose proof (pow10_pos (snd d)). nra.
Qed.

(* a lifetime-table row: [Fe/H], a0, a1, a2 *)
Definition msto_row := (dec * dec * dec * dec)%type.
Definition row_sign_ok (r : msto_row) : bool :=
  let '(_, a0, a1, a2) := r in
  (0 <? fst a0)%Z && (0 <? fst a1)%Z && (fst a2 <? 0)%Z.
Lemma row_sign_ok_spec r : row_sign_ok r = true ->
  let '(_, a0, a1, a2) := r in 0 < dec2R a0 /\ 0 < dec2R a1 /\ dec2R a2 < 0.
Proof.
  destruct r as [[[f a0] a1] a2]. unfold row_sign_ok.
  rewrite !andb_true_iff, !Z.ltb_lt. intros [[H0 H1] H2].
  repeat split; [apply dec2R_pos|apply dec2R_pos|apply dec2R_neg]; assumption.
Qed.
