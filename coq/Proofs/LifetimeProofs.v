(* Proofs/LifetimeProofs.v -- theorems about Model/Lifetime.v at the real
   instance.  Every statement is universally quantified over the Junk record. *)
From Coq Require Import List Bool Reals Lra Lia.
From Coquelicot Require Import Coquelicot.
From SSP Require Import Num RFacts Model.Lifetime.
Import ListNotations.
Local Open Scope R_scope.

(* ------------------------------------------------------------------ *)
(* Real-analysis helpers *)

Lemma exp_gt_1 x : 0 < x -> 1 < exp x.
Proof. intros Hx. rewrite <- exp_0. apply exp_increasing; assumption. Qed.

(* Rpower with a negative exponent is strictly decreasing in the base *)
Lemma Rpower_neg_decr x y c : c < 0 -> 0 < x -> x < y -> Rpower y c < Rpower x c.
Proof.
  intros Hc Hx Hxy. unfold Rpower. apply exp_increasing.
  assert (Hl : ln x < ln y) by (apply ln_increasing; assumption).
  nra.
Qed.

Lemma Rpower_pos x c : 0 < Rpower x c.
Proof. unfold Rpower. apply exp_pos. Qed.

Lemma inv_neg x : x < 0 -> / x < 0.
Proof. intros Hx. apply Rinv_lt_0_compat; assumption. Qed.

Lemma one_div_neg x : x < 0 -> 1 / x < 0.
Proof. intros Hx. unfold Rdiv. rewrite Rmult_1_l. apply inv_neg; assumption. Qed.

Lemma prod_neg a1 a2 t : 0 < a1 -> a2 < 0 -> 0 < t -> a1 * a2 * t < 0.
Proof.
  intros H1 H2 Ht.
  assert (H12 : 0 < a1 * (- a2)) by (apply Rmult_lt_0_compat; lra).
  assert (H3 : 0 < a1 * (- a2) * t) by (apply Rmult_lt_0_compat; lra).
  lra.
Qed.

(* L t = ln (t / a0) / a1, the base of the turn-off power *)
Lemma Lbase_pos a0 a1 t : 0 < a0 -> 0 < a1 -> a0 < t -> 0 < ln (t / a0) / a1.
Proof.
  intros H0 H1 Ht. apply div_pos; [|assumption].
  rewrite <- ln_1. apply ln_increasing; [lra|].
  apply lt_div_iff; lra.
Qed.

Lemma Lbase_incr a0 a1 t t' : 0 < a0 -> 0 < a1 -> a0 < t -> t < t' ->
  ln (t / a0) / a1 < ln (t' / a0) / a1.
Proof.
  intros H0 H1 Ht Htt'.
  assert (Hl : ln (t / a0) < ln (t' / a0)).
  { apply ln_increasing; [apply div_pos; lra|].
    unfold Rdiv. apply Rmult_lt_compat_r; [apply Rinv_0_lt_compat; assumption|assumption]. }
  unfold Rdiv. apply Rmult_lt_compat_r; [apply Rinv_0_lt_compat; assumption|assumption].
Qed.

(* ------------------------------------------------------------------ *)
(* Unfolding lemmas *)

Lemma tms_unfold J a0 a1 a2 m :
  tms (O:=R_ops J) a0 a1 a2 m = a0 * exp (a1 * Rpow_j J m a2).
Proof. reflexivity. Qed.

Lemma mto_unfold J a0 a1 a2 t :
  mto (O:=R_ops J) a0 a1 a2 t =
    if Rltb a0 t then Rpow_j J (Rdiv_j J (Rln_j J (Rdiv_j J t a0)) a1) (Rdiv_j J 1 a2)
    else jinf J.
Proof. reflexivity. Qed.

Lemma dmdt_unfold J a0 a1 a2 t :
  dmdt (O:=R_ops J) a0 a1 a2 t =
    Rabs (Rdiv_j J 1 (a1 * a2 * t) *
          Rpow_j J (Rdiv_j J (Rln_j J (Rdiv_j J t a0)) a1) (Rdiv_j J 1 a2 - 1)).
Proof. reflexivity. Qed.

Lemma tms_eq J a0 a1 a2 m : 0 < m ->
  tms (O:=R_ops J) a0 a1 a2 m = a0 * exp (a1 * Rpower m a2).
Proof. intros Hm. rewrite tms_unfold, Rpow_j_ok by assumption. reflexivity. Qed.

Lemma mto_eq J a0 a1 a2 t : 0 < a0 -> 0 < a1 -> a2 < 0 -> a0 < t ->
  mto (O:=R_ops J) a0 a1 a2 t = Rpower (ln (t / a0) / a1) (1 / a2).
Proof.
  intros H0 H1 H2 Ht. rewrite mto_unfold.
  destruct (Rltb_spec a0 t) as [_|Hn]; [|contradiction].
  rewrite (Rdiv_j_ok J t a0) by lra.
  rewrite Rln_j_ok by (apply div_pos; lra).
  rewrite (Rdiv_j_ok J _ a1) by lra.
  rewrite (Rdiv_j_ok J 1 a2) by lra.
  rewrite Rpow_j_ok by (apply Lbase_pos; assumption).
  reflexivity.
Qed.

Lemma dmdt_eq J a0 a1 a2 t : 0 < a0 -> 0 < a1 -> a2 < 0 -> a0 < t ->
  dmdt (O:=R_ops J) a0 a1 a2 t =
    Rabs (1 / (a1 * a2 * t) * Rpower (ln (t / a0) / a1) (1 / a2 - 1)).
Proof.
  intros H0 H1 H2 Ht. rewrite dmdt_unfold.
  assert (Hd : a1 * a2 * t < 0) by (apply prod_neg; lra).
  rewrite (Rdiv_j_ok J 1 (a1 * a2 * t)) by lra.
  rewrite (Rdiv_j_ok J t a0) by lra.
  rewrite Rln_j_ok by (apply div_pos; lra).
  rewrite (Rdiv_j_ok J _ a1) by lra.
  rewrite (Rdiv_j_ok J 1 a2) by lra.
  rewrite Rpow_j_ok by (apply Lbase_pos; assumption).
  reflexivity.
Qed.

(* ------------------------------------------------------------------ *)
(* tms *)

Lemma tms_strictly_decreasing : forall J a0 a1 a2 m m',
  0 < a0 -> 0 < a1 -> a2 < 0 -> 0 < m -> m < m' ->
  tms (O:=R_ops J) a0 a1 a2 m' < tms (O:=R_ops J) a0 a1 a2 m.
Proof.
  intros J a0 a1 a2 m m' H0 H1 H2 Hm Hmm'.
  rewrite !tms_eq by lra.
  apply Rmult_lt_compat_l; [assumption|].
  apply exp_increasing.
  apply Rmult_lt_compat_l; [assumption|].
  apply Rpower_neg_decr; assumption.
Qed.

Lemma tms_above_a0 : forall J a0 a1 a2 m,
  0 < a0 -> 0 < a1 -> a2 < 0 -> 0 < m -> a0 < tms (O:=R_ops J) a0 a1 a2 m.
Proof.
  intros J a0 a1 a2 m H0 H1 H2 Hm.
  rewrite tms_eq by assumption.
  assert (Hp : 0 < a1 * Rpower m a2)
    by (apply Rmult_lt_0_compat; [assumption|apply Rpower_pos]).
  pose proof (exp_gt_1 _ Hp) as He. nra.
Qed.

(* ------------------------------------------------------------------ *)
(* mto *)

Lemma mto_strictly_decreasing : forall J a0 a1 a2 t t',
  0 < a0 -> 0 < a1 -> a2 < 0 -> a0 < t -> t < t' ->
  0 < mto (O:=R_ops J) a0 a1 a2 t' /\ mto (O:=R_ops J) a0 a1 a2 t' < mto (O:=R_ops J) a0 a1 a2 t.
Proof.
  intros J a0 a1 a2 t t' H0 H1 H2 Ht Htt'.
  rewrite !mto_eq by lra. split; [apply Rpower_pos|].
  apply Rpower_neg_decr.
  - apply one_div_neg; assumption.
  - apply Lbase_pos; assumption.
  - apply Lbase_incr; assumption.
Qed.

Lemma mto_inf_upto_a0 : forall J a0 a1 a2 t, t <= a0 ->
  mto (O:=R_ops J) a0 a1 a2 t = @ninf R (R_ops J).
Proof.
  intros J a0 a1 a2 t Ht. rewrite mto_unfold.
  destruct (Rltb_spec a0 t) as [Hlt|_]; [lra|reflexivity].
Qed.

Lemma mto_tms_inverse : forall J a0 a1 a2 m,
  0 < a0 -> 0 < a1 -> a2 < 0 -> 0 < m ->
  mto (O:=R_ops J) a0 a1 a2 (tms (O:=R_ops J) a0 a1 a2 m) = m.
Proof.
  intros J a0 a1 a2 m H0 H1 H2 Hm.
  rewrite mto_eq by (try assumption; apply tms_above_a0; assumption).
  rewrite tms_eq by assumption.
  replace (a0 * exp (a1 * Rpower m a2) / a0) with (exp (a1 * Rpower m a2))
    by (field; lra).
  rewrite ln_exp.
  replace (a1 * Rpower m a2 / a1) with (Rpower m a2) by (field; lra).
  rewrite Rpower_mult.
  replace (a2 * (1 / a2)) with 1 by (field; lra).
  apply Rpower_1; assumption.
Qed.

Lemma tms_mto_inverse : forall J a0 a1 a2 t,
  0 < a0 -> 0 < a1 -> a2 < 0 -> a0 < t ->
  tms (O:=R_ops J) a0 a1 a2 (mto (O:=R_ops J) a0 a1 a2 t) = t.
Proof.
  intros J a0 a1 a2 t H0 H1 H2 Ht.
  rewrite mto_eq by assumption.
  rewrite tms_eq by apply Rpower_pos.
  rewrite Rpower_mult.
  replace (1 / a2 * a2) with 1 by (field; lra).
  rewrite Rpower_1 by (apply Lbase_pos; assumption).
  replace (a1 * (ln (t / a0) / a1)) with (ln (t / a0)) by (field; lra).
  rewrite exp_ln by (apply div_pos; lra).
  field; lra.
Qed.

(* ------------------------------------------------------------------ *)
(* sweep speed *)

Lemma dmdt_is_sweep_speed : forall J a0 a1 a2 t,
  0 < a0 -> 0 < a1 -> a2 < 0 -> a0 < t ->
  is_derive (fun s => mto (O:=R_ops J) a0 a1 a2 s) t (- dmdt (O:=R_ops J) a0 a1 a2 t)
  /\ 0 < dmdt (O:=R_ops J) a0 a1 a2 t.
Proof.
  intros J a0 a1 a2 t H0 H1 H2 Ht.
  assert (HL : 0 < ln (t / a0) / a1) by (apply Lbase_pos; assumption).
  assert (Hta : 0 < t / a0) by (apply div_pos; lra).
  assert (Hd : a1 * a2 * t < 0) by (apply prod_neg; lra).
  assert (Hneg : 1 / (a1 * a2 * t) < 0) by (apply one_div_neg; assumption).
  assert (HP : 0 < Rpower (ln (t / a0) / a1) (1 / a2 - 1)) by apply Rpower_pos.
  assert (Hdm : dmdt (O:=R_ops J) a0 a1 a2 t =
                - (1 / (a1 * a2 * t) * Rpower (ln (t / a0) / a1) (1 / a2 - 1))).
  { rewrite dmdt_eq by assumption. apply Rabs_left. nra. }
  split; [|rewrite Hdm; nra].
  rewrite Hdm, Ropp_involutive.
  apply (is_derive_ext_loc (fun s => exp (1 / a2 * ln (ln (s / a0) / a1)))).
  - exists (mkposreal (t - a0) ltac:(lra)). intros y Hy.
    assert (Hy' : Rabs (y - t) < t - a0) by exact Hy.
    apply Rabs_def2 in Hy'. destruct Hy' as [Hy1 Hy2].
    rewrite mto_eq by (try assumption; lra). reflexivity.
  - auto_derive.
    + repeat split; try lra; try assumption.
    + fold (t / a0). fold (ln (t / a0) / a1). unfold Rpower.
      replace ((1 / a2 - 1) * ln (ln (t / a0) / a1))
        with (1 / a2 * ln (ln (t / a0) / a1) + - ln (ln (t / a0) / a1)) by ring.
      rewrite exp_plus, exp_Ropp, exp_ln by assumption.
      assert (Hln : ln (t / a0) <> 0).
      { intros E. rewrite E in HL. unfold Rdiv in HL. lra. }
      field. repeat split; lra.
Qed.

(* ------------------------------------------------------------------ *)
(* nearest row *)

Lemma argmin_from_unfold_cons J best bi i x r :
  argmin_from (O:=R_ops J) best bi i (x :: r) =
    if Rltb x best then argmin_from (O:=R_ops J) x i (S i) r
    else argmin_from (O:=R_ops J) best bi (S i) r.
Proof. reflexivity. Qed.

Lemma argmin_from_spec J d : forall l pre best bi,
  (bi < length pre)%nat ->
  nth bi pre d = best ->
  (forall j, (j < length pre)%nat -> best <= nth j pre d) ->
  (forall j, (j < bi)%nat -> best < nth j pre d) ->
  let k := argmin_from (O:=R_ops J) best bi (length pre) l in
  (k < length (pre ++ l))%nat /\
  (forall j, (j < length (pre ++ l))%nat -> nth k (pre ++ l) d <= nth j (pre ++ l) d) /\
  (forall j, (j < k)%nat -> nth k (pre ++ l) d < nth j (pre ++ l) d).
Proof.
  induction l as [|x r IH]; intros pre best bi Hbi Hnth Hle Hlt.
  - simpl. rewrite app_nil_r. rewrite Hnth.
    split; [assumption|]. split; assumption.
  - rewrite argmin_from_unfold_cons.
    assert (Hlen : length (pre ++ [x]) = S (length pre))
      by (rewrite app_length; simpl; lia).
    replace (pre ++ x :: r) with ((pre ++ [x]) ++ r)
      by (rewrite <- app_assoc; reflexivity).
    destruct (Rltb_spec x best) as [Hx|Hx].
    + rewrite <- Hlen.
      apply IH.
      * rewrite Hlen; lia.
      * rewrite app_nth2 by lia. rewrite Nat.sub_diag. reflexivity.
      * intros j Hj. rewrite Hlen in Hj.
        destruct (Nat.eq_dec j (length pre)) as [->|Hne].
        -- rewrite app_nth2 by lia. rewrite Nat.sub_diag. simpl. lra.
        -- rewrite app_nth1 by lia. specialize (Hle j ltac:(lia)). lra.
      * intros j Hj. rewrite app_nth1 by lia. specialize (Hle j Hj). lra.
    + rewrite <- Hlen.
      apply IH.
      * rewrite Hlen; lia.
      * rewrite app_nth1 by lia. assumption.
      * intros j Hj. rewrite Hlen in Hj.
        destruct (Nat.eq_dec j (length pre)) as [->|Hne].
        -- rewrite app_nth2 by lia. rewrite Nat.sub_diag. simpl. lra.
        -- rewrite app_nth1 by lia. apply Hle. lia.
      * intros j Hj. rewrite app_nth1 by lia. apply Hlt. assumption.
Qed.

Lemma argmin_spec J d l : l <> [] ->
  let k := argmin (O:=R_ops J) l in
  (k < length l)%nat /\
  (forall j, (j < length l)%nat -> nth k l d <= nth j l d) /\
  (forall j, (j < k)%nat -> nth k l d < nth j l d).
Proof.
  destruct l as [|x r]; intros Hne; [contradiction|].
  change (x :: r) with ([x] ++ r).
  change (argmin (O:=R_ops J) ([x] ++ r))
    with (argmin_from (O:=R_ops J) x 0 (length [x]) r).
  apply argmin_from_spec.
  - simpl; lia.
  - reflexivity.
  - intros j Hj. simpl in Hj. assert (j = 0%nat) as -> by lia. simpl. lra.
  - intros j Hj. lia.
Qed.

Lemma nearest_row_unfold J grid feh :
  nearest_row (O:=R_ops J) grid feh =
    argmin (O:=R_ops J) (map (fun g => Rabs (g - feh)) grid).
Proof. reflexivity. Qed.

Lemma nearest_row_spec : forall J grid feh, grid <> [] ->
  let i := nearest_row (O:=R_ops J) grid feh in
  (i < length grid)%nat /\
  (forall j, (j < length grid)%nat -> Rabs (nth i grid 0 - feh) <= Rabs (nth j grid 0 - feh)) /\
  (forall j, (j < i)%nat -> Rabs (nth i grid 0 - feh) < Rabs (nth j grid 0 - feh)).
Proof.
  intros J grid feh Hne. cbv zeta. rewrite nearest_row_unfold.
  set (f := fun g => Rabs (g - feh)).
  assert (Hm : map f grid <> []) by (destruct grid; [contradiction|discriminate]).
  pose proof (argmin_spec J (f 0) (map f grid) Hm) as Hs. cbv zeta in Hs.
  rewrite map_length in Hs.
  destruct Hs as (Hk & Hmin & Hfirst).
  split; [exact Hk|]. split.
  - intros j Hj. specialize (Hmin j Hj). rewrite !map_nth in Hmin. exact Hmin.
  - intros j Hj. specialize (Hfirst j Hj). rewrite !map_nth in Hfirst. exact Hfirst.
Qed.
