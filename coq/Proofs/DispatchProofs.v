(* Proofs about Model/Dispatch.v: which parts enter the total derivative. *)
From Coq Require Import List Bool Reals Lra.
From SSP Require Import Num Model.Dispatch.
Import ListNotations.
Local Open Scope R_scope.

Lemma vplus_zero_r J (x : list R) : vplus (O:=R_ops J) x (vzero (O:=R_ops J) (length x)) = x.
Proof. induction x as [|a x IH]; cbn; [reflexivity|]. f_equal; [ring | exact IH]. Qed.
Lemma vplus_zero_l J (x y : list R) : length x = length y ->
  vplus (O:=R_ops J) (vzero (O:=R_ops J) (length x)) y = y.
Proof.
  revert y; induction x as [|a x IH]; intros [|b y] H; cbn in *; try reflexivity; try discriminate.
  f_equal; [ring | apply IH; congruence].
Qed.
Lemma vplus_nth J (x y : list R) i : length x = length y -> (i < length x)%nat ->
  nth i (vplus (O:=R_ops J) x y) 0 = nth i x 0 + nth i y 0.
Proof.
  revert y i; induction x as [|a x IH]; intros [|b y] i H Hi; cbn in *; try discriminate; try (exfalso; inversion Hi; fail).
  destruct i as [|i]; [reflexivity|]. apply IH; [congruence | apply (proj2 (PeanoNat.Nat.succ_lt_mono _ _)); exact Hi].
Qed.

(* every negative constant rate, however small, and every callable rate switches the escape part on *)
Lemma escape_active_iff J time_dep rate :
  escape_active (O:=R_ops J) time_dep rate = true <-> time_dep = true \/ rate < 0.
Proof.
  unfold escape_active. rewrite orb_true_iff. cbn.
  split; intros [H|H]; auto.
  - right. apply Rltb_true. exact H.
  - right. apply Rltb_true. exact H.
Qed.

Lemma derivs_with_escape J stellar_ev time_dep rate sev esc i :
  time_dep = true \/ rate < 0 -> length sev = length esc -> (i < length sev)%nat ->
  nth i (derivs (O:=R_ops J) stellar_ev time_dep rate sev esc) 0 =
  (if stellar_ev then nth i sev 0 else 0) + nth i esc 0.
Proof.
  intros Ha Hl Hi. unfold derivs. apply (proj2 (escape_active_iff J time_dep rate)) in Ha. rewrite Ha.
  rewrite vplus_nth.
  - destruct stellar_ev; [reflexivity|]. unfold vzero. rewrite nth_repeat. reflexivity.
  - destruct stellar_ev; [exact Hl|]. unfold vzero. rewrite repeat_length. exact Hl.
  - destruct stellar_ev; [exact Hi|]. unfold vzero. rewrite repeat_length. exact Hi.
Qed.

Lemma derivs_without_escape J stellar_ev rate sev esc :
  0 <= rate ->
  derivs (O:=R_ops J) stellar_ev false rate sev esc = (if stellar_ev then sev else vzero (O:=R_ops J) (length sev)).
Proof.
  intros Hr. unfold derivs, escape_active. cbn [orb].
  replace (nltb (NumOps:=R_ops J) rate (nzero (NumOps:=R_ops J))) with false.
  - destruct stellar_ev; [apply vplus_zero_r|].
    rewrite <- (repeat_length (@nzero R (R_ops J)) (length sev)) at 2. apply vplus_zero_r.
  - symmetry. apply Rltb_false. exact Hr.
Qed.
