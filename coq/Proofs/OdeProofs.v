(* Proofs/OdeProofs.v -- uniqueness for the scalar linear ODE N' = -c(t) N on an
   interval: any solution is the positive reference solution Nc rescaled to its
   initial value.  Plain reals + Coquelicot; independent of Num.v. *)
From Coq Require Import Reals Lra.
From Coquelicot Require Import Coquelicot.
Local Open Scope R_scope.

(* the quotient of two solutions has zero derivative wherever the reference
   solution does not vanish *)
Lemma quotient_derive_zero (c Nc N : R -> R) x :
  Nc x <> 0 ->
  is_derive Nc x (- c x * Nc x) -> is_derive N x (- c x * N x) ->
  is_derive (fun t => N t / Nc t) x 0.
Proof.
  intros Hnz HNc HN.
  pose proof (is_derive_div N Nc x _ _ HN HNc Hnz) as Hq.
  replace 0 with ((- c x * N x * Nc x - N x * (- c x * Nc x)) / Nc x ^ 2).
  - exact Hq.
  - field. exact Hnz.
Qed.

Lemma linear_ode_unique : forall (c Nc N : R -> R) t0 t1, t0 <= t1 ->
  (forall t, t0 <= t <= t1 -> 0 < Nc t) ->
  (forall t, t0 <= t <= t1 -> is_derive Nc t (- c t * Nc t)) ->
  (forall t, t0 <= t <= t1 -> is_derive N t (- c t * N t)) ->
  forall t, t0 <= t <= t1 -> N t = N t0 / Nc t0 * Nc t.
Proof.
  intros c Nc N t0 t1 Hle Hpos HdNc HdN t Ht.
  assert (Hq : forall x, t0 <= x <= t1 -> is_derive (fun s => N s / Nc s) x 0).
  { intros x Hx. apply (quotient_derive_zero c).
    - pose proof (Hpos x Hx) as Hp. lra.
    - apply HdNc; exact Hx.
    - apply HdN; exact Hx. }
  assert (Hmin : Rmin t0 t = t0) by (apply Rmin_left; lra).
  assert (Hmax : Rmax t0 t = t) by (apply Rmax_right; lra).
  destruct (MVT_gen (fun s => N s / Nc s) t0 t (fun _ => 0)) as (xi & _ & Heq).
  - rewrite Hmin, Hmax. intros x Hx. apply Hq. lra.
  - rewrite Hmin, Hmax. intros x Hx. apply continuity_pt_filterlim.
    apply (ex_derive_continuous (fun s => N s / Nc s) x).
    exists 0. apply Hq. lra.
  - cbv beta in Heq. rewrite Rmult_0_l in Heq.
    assert (Hqt : N t / Nc t = N t0 / Nc t0) by lra.
    rewrite <- Hqt. field.
    pose proof (Hpos t Ht) as Hp. lra.
Qed.
