(* Proofs/EvolveProofs.v -- proofs for Properties/C06.v (row bookkeeping of
   EvolvedMF._evolve over an abstract exact flow). *)
From Coq Require Import List Bool Reals Sorted Lra Lia Arith.
From SSP Require Import Num Model.Evolve.
Import ListNotations.
Local Open Scope R_scope.

(* ------------------------------------------------------------------ *)
(* insertion sort *)

Section Sorting.
  Variable J : Junk.

  Lemma insert_sorted_cons : forall x h r,
    insert_sorted (O:=R_ops J) x (h :: r) =
      if Rleb x h then x :: h :: r else h :: insert_sorted (O:=R_ops J) x r.
  Proof. reflexivity. Qed.

  Lemma insert_sorted_In : forall x l t,
    In t (insert_sorted (O:=R_ops J) x l) <-> t = x \/ In t l.
  Proof.
    intros x l t; induction l as [|h r IH].
    - simpl; split; intros H; [destruct H as [H|H]; [left; symmetry; exact H|contradiction]
                              |destruct H as [H|H]; [left; symmetry; exact H|contradiction]].
    - rewrite insert_sorted_cons. destruct (Rleb x h).
      + simpl; split; intros H.
        * destruct H as [H|H]; [left; symmetry; exact H|right; exact H].
        * destruct H as [H|H]; [left; symmetry; exact H|right; exact H].
      + simpl; rewrite IH; split; intros H.
        * destruct H as [H|[H|H]]; [right; left; exact H|left; exact H|right; right; exact H].
        * destruct H as [H|[H|H]]; [right; left; exact H|left; exact H|right; right; exact H].
  Qed.

  Lemma insert_sorted_sorted : forall x l,
    StronglySorted Rle l -> StronglySorted Rle (insert_sorted (O:=R_ops J) x l).
  Proof.
    intros x l Hs; induction Hs as [|h r Hr IH Hh].
    - simpl; constructor; constructor.
    - rewrite insert_sorted_cons. destruct (Rleb_spec x h) as [Hle|Hnle].
      + constructor.
        * constructor; assumption.
        * constructor; [exact Hle|].
          rewrite Forall_forall in Hh |- *; intros t Ht.
          apply Rle_trans with h; [exact Hle|apply Hh; exact Ht].
      + constructor; [exact IH|].
        rewrite Forall_forall in Hh |- *; intros t Ht.
        apply insert_sorted_In in Ht; destruct Ht as [Ht|Ht].
        * subst t; lra.
        * apply Hh; exact Ht.
  Qed.

  Lemma sortT_In : forall l t, In t (sortT (O:=R_ops J) l) <-> In t l.
  Proof.
    intros l t; induction l as [|h r IH].
    - simpl; tauto.
    - change (sortT (O:=R_ops J) (h :: r)) with
        (insert_sorted (O:=R_ops J) h (sortT (O:=R_ops J) r)).
      rewrite insert_sorted_In, IH; simpl; split; intros H.
      + destruct H as [H|H]; [left; symmetry; exact H|right; exact H].
      + destruct H as [H|H]; [left; symmetry; exact H|right; exact H].
  Qed.

  Lemma sortT_sorted : forall l, StronglySorted Rle (sortT (O:=R_ops J) l).
  Proof.
    intros l; induction l as [|h r IH].
    - simpl; constructor.
    - change (sortT (O:=R_ops J) (h :: r)) with
        (insert_sorted (O:=R_ops J) h (sortT (O:=R_ops J) r)).
      apply insert_sorted_sorted; exact IH.
  Qed.

  Lemma grid_In : forall tms_u tout t,
    In t (grid (O:=R_ops J) tms_u tout) -> In t tms_u \/ In t tout.
  Proof.
    intros tms_u tout t H; unfold grid in H.
    apply (proj1 (sortT_In _ _)) in H. apply in_app_or in H; destruct H as [H|H].
    - left; apply filter_In in H; destruct H as [H _]; exact H.
    - right; exact H.
  Qed.

  Lemma grid_In_tout : forall tms_u tout t,
    In t tout -> In t (grid (O:=R_ops J) tms_u tout).
  Proof.
    intros tms_u tout t H; unfold grid.
    apply (proj2 (sortT_In _ _)). apply in_or_app; right; exact H.
  Qed.

  Lemma grid_sorted : forall tms_u tout,
    StronglySorted Rle (grid (O:=R_ops J) tms_u tout) /\
    (forall t, In t tout -> In t (grid (O:=R_ops J) tms_u tout)).
  Proof.
    intros tms_u tout; split.
    - unfold grid; apply sortT_sorted.
    - intros t Ht; apply grid_In_tout; exact Ht.
  Qed.

  (* ---------------------------------------------------------------- *)
  (* first_eq *)

  Lemma first_eq_cons : forall t x r k,
    first_eq (O:=R_ops J) t (x :: r) k =
      if Reqb x t then Some k else first_eq (O:=R_ops J) t r (S k).
  Proof. reflexivity. Qed.

  Lemma first_eq_some : forall t l k i,
    first_eq (O:=R_ops J) t l k = Some i ->
    exists n, i = (k + n)%nat /\ nth_error l n = Some t /\
              (forall j tj, (j < n)%nat -> nth_error l j = Some tj -> tj <> t).
  Proof.
    intros t l; induction l as [|x r IH]; intros k i H.
    - simpl in H; discriminate.
    - rewrite first_eq_cons in H. destruct (Reqb_spec x t) as [Heq|Hne].
      + injection H as H; exists 0%nat; split; [lia|]; split.
        * simpl; rewrite Heq; reflexivity.
        * intros j tj Hj; lia.
      + apply IH in H; destruct H as [n [Hi [Hn Hfirst]]].
        exists (S n); split; [lia|]; split.
        * simpl; exact Hn.
        * intros j tj Hj Hnth; destruct j as [|j'].
          -- simpl in Hnth; injection Hnth as Hnth; subst tj; exact Hne.
          -- simpl in Hnth; apply (Hfirst j' tj); [lia|exact Hnth].
  Qed.

  Lemma first_eq_first : forall t l k n,
    nth_error l n = Some t ->
    (forall j tj, (j < n)%nat -> nth_error l j = Some tj -> tj <> t) ->
    first_eq (O:=R_ops J) t l k = Some (k + n)%nat.
  Proof.
    intros t l; induction l as [|x r IH]; intros k n Hn Hfirst.
    - destruct n; simpl in Hn; discriminate.
    - rewrite first_eq_cons. destruct n as [|n'].
      + simpl in Hn; injection Hn as Hn; subst x.
        destruct (Reqb_spec t t) as [_|Hne]; [|exfalso; apply Hne; reflexivity].
        f_equal; lia.
      + destruct (Reqb_spec x t) as [Heq|Hne].
        * exfalso; apply (Hfirst 0%nat x); [lia|reflexivity|exact Heq].
        * simpl in Hn. rewrite (IH (S k) n' Hn).
          -- f_equal; lia.
          -- intros j tj Hj Hnth; apply (Hfirst (S j) tj); [lia|simpl; exact Hnth].
  Qed.
End Sorting.

(* ------------------------------------------------------------------ *)
(* set_row *)

Section Rows.
  Variable row : Type.

  Lemma set_row_length : forall (rows : list (option row)) i v,
    length (set_row row rows i v) = length rows.
  Proof.
    intros rows; induction rows as [|h r IH]; intros i v.
    - reflexivity.
    - destruct i as [|k]; simpl; [reflexivity|rewrite IH; reflexivity].
  Qed.

  Lemma set_row_same : forall (rows : list (option row)) i v,
    (i < length rows)%nat -> nth_error (set_row row rows i v) i = Some (Some v).
  Proof.
    intros rows; induction rows as [|h r IH]; intros i v Hi.
    - simpl in Hi; lia.
    - destruct i as [|k]; simpl; [reflexivity|apply IH; simpl in Hi; lia].
  Qed.

  Lemma set_row_other : forall (rows : list (option row)) i k v,
    i <> k -> nth_error (set_row row rows k v) i = nth_error rows i.
  Proof.
    intros rows; induction rows as [|h r IH]; intros i k v Hik.
    - reflexivity.
    - destruct k as [|k']; destruct i as [|i']; simpl; try reflexivity.
      + exfalso; apply Hik; reflexivity.
      + apply IH; intros Heq; apply Hik; rewrite Heq; reflexivity.
  Qed.
End Rows.

(* ------------------------------------------------------------------ *)
(* run_grid *)

Section Run.
  Variable J : Junk.
  Variables state row : Type.
  Variable flow : R -> R -> state -> state.
  Variable extract : nat -> R -> state -> row.

  Lemma run_grid_cons : forall t rest tout cur y rows,
    run_grid (O:=R_ops J) state row flow extract (t :: rest) tout cur y rows =
    run_grid (O:=R_ops J) state row flow extract rest tout t (flow cur t y)
      (match first_eq (O:=R_ops J) t tout 0 with
       | Some iout => set_row row rows iout (extract iout t (flow cur t y))
       | None => rows
       end).
  Proof. reflexivity. Qed.

  (* a row that is never the first occurrence of its age is never written *)
  Lemma run_grid_unwritten : forall tout i j ti,
    (j < i)%nat -> nth_error tout j = Some ti -> nth_error tout i = Some ti ->
    forall ts cur y rows v,
      nth_error rows i = v ->
      nth_error (fst (run_grid (O:=R_ops J) state row flow extract ts tout cur y rows)) i = v.
  Proof.
    intros tout i j ti Hji Hj Hi ts; induction ts as [|t rest IH]; intros cur y rows v Hrows.
    - simpl; exact Hrows.
    - rewrite run_grid_cons. apply IH.
      destruct (first_eq (O:=R_ops J) t tout 0) as [k|] eqn:Hfe; [|exact Hrows].
      apply first_eq_some in Hfe; destruct Hfe as [n [Hk [Hn Hfirst]]].
      simpl in Hk; subst n.
      rewrite set_row_other; [exact Hrows|].
      intros Heq; subst k.
      rewrite Hi in Hn; injection Hn as Hn; subst t.
      apply (Hfirst j ti Hji Hj); reflexivity.
  Qed.

  Hypothesis H_semi : forall a b c y, 0 <= a -> a <= b -> b <= c -> flow b c (flow a b y) = flow a c y.

  Lemma run_grid_row : forall tout y0 i ti,
    nth_error tout i = Some ti ->
    (forall j tj, (j < i)%nat -> nth_error tout j = Some tj -> tj <> ti) ->
    forall ts cur rows,
      StronglySorted Rle ts -> 0 <= cur -> Forall (fun t => cur <= t) ts ->
      length rows = length tout ->
      (In ti ts \/ nth_error rows i = Some (Some (extract i ti (flow 0 ti y0)))) ->
      nth_error (fst (run_grid (O:=R_ops J) state row flow extract ts tout cur
                        (flow 0 cur y0) rows)) i =
        Some (Some (extract i ti (flow 0 ti y0))).
  Proof.
    intros tout y0 i ti Hi Hfirst ts; induction ts as [|t rest IH];
      intros cur rows Hs Hcur Hge Hlen Hor.
    - simpl. destruct Hor as [Hin|Hrow]; [destruct Hin|exact Hrow].
    - rewrite run_grid_cons.
      assert (Hct : cur <= t) by (inversion Hge; assumption).
      assert (Hflow : flow cur t (flow 0 cur y0) = flow 0 t y0)
        by (apply H_semi; [lra|exact Hcur|exact Hct]).
      rewrite Hflow.
      assert (Hs' : StronglySorted Rle rest) by (inversion Hs; assumption).
      assert (Hge' : Forall (fun u => t <= u) rest) by (inversion Hs; assumption).
      assert (Ht0 : 0 <= t) by lra.
      assert (Hilt : (i < length tout)%nat)
        by (apply nth_error_Some; rewrite Hi; discriminate).
      apply IH; [exact Hs'|exact Ht0|exact Hge'| |].
      + destruct (first_eq (O:=R_ops J) t tout 0); [rewrite set_row_length|]; exact Hlen.
      + destruct (Req_dec t ti) as [Heq|Hne].
        * right. subst t.
          rewrite (first_eq_first J ti tout 0 i Hi Hfirst). simpl.
          apply set_row_same. rewrite Hlen; exact Hilt.
        * destruct Hor as [Hin|Hrow].
          -- left. destruct Hin as [Hin|Hin]; [exfalso; apply Hne; exact Hin|exact Hin].
          -- right.
             destruct (first_eq (O:=R_ops J) t tout 0) as [k|] eqn:Hfe; [|exact Hrow].
             apply first_eq_some in Hfe; destruct Hfe as [n [Hk [Hn _]]].
             simpl in Hk; subst n.
             rewrite set_row_other; [exact Hrow|].
             intros Heq; subst k. rewrite Hi in Hn; injection Hn as Hn.
             apply Hne; symmetry; exact Hn.
  Qed.
End Run.

(* ------------------------------------------------------------------ *)
(* the C06 lemmas *)

Lemma grid_nonneg : forall (J : Junk) tms_u tout,
  Forall (fun t => 0 <= t) tout -> Forall (fun t => 0 <= t) tms_u ->
  Forall (fun t => 0 <= t) (grid (O:=R_ops J) tms_u tout).
Proof.
  intros J tms_u tout Hout Hu. rewrite Forall_forall in *; intros t Ht.
  apply grid_In in Ht; destruct Ht as [Ht|Ht]; [apply Hu|apply Hout]; exact Ht.
Qed.

Lemma row_own_age : forall (J : Junk) (state row : Type)
    (flow : R -> R -> state -> state) (extract : nat -> R -> state -> row),
  (forall t y, flow t t y = y) ->
  (forall a b c y, 0 <= a -> a <= b -> b <= c -> flow b c (flow a b y) = flow a c y) ->
  forall tms_u tout y0 i ti,
    Forall (fun t => 0 <= t) tout -> Forall (fun t => 0 <= t) tms_u ->
    nth_error tout i = Some ti ->
    (forall j tj, (j < i)%nat -> nth_error tout j = Some tj -> tj <> ti) ->
    nth_error (evolve_rows (O:=R_ops J) state row flow extract tms_u tout y0) i =
      Some (Some (extract i ti (flow 0 ti y0))).
Proof.
  intros J state row flow extract H_id H_semi tms_u tout y0 i ti Hout Hu Hi Hfirst.
  unfold evolve_rows.
  change (@nzero R (R_ops J)) with 0.
  rewrite <- (H_id 0 y0) at 1.
  apply (run_grid_row J state row flow extract H_semi tout y0 i ti Hi Hfirst).
  - apply grid_sorted.
  - lra.
  - apply grid_nonneg; assumption.
  - apply map_length.
  - left. apply grid_In_tout. apply nth_error_In with i; exact Hi.
Qed.

Lemma row_zero_is_initial : forall (J : Junk) (state row : Type)
    (flow : R -> R -> state -> state) (extract : nat -> R -> state -> row),
  (forall t y, flow t t y = y) ->
  (forall a b c y, 0 <= a -> a <= b -> b <= c -> flow b c (flow a b y) = flow a c y) ->
  forall tms_u tout y0 i,
    Forall (fun t => 0 <= t) tout -> Forall (fun t => 0 <= t) tms_u ->
    nth_error tout i = Some 0 ->
    (forall j tj, (j < i)%nat -> nth_error tout j = Some tj -> tj <> 0) ->
    nth_error (evolve_rows (O:=R_ops J) state row flow extract tms_u tout y0) i =
      Some (Some (extract i 0 y0)).
Proof.
  intros J state row flow extract H_id H_semi tms_u tout y0 i Hout Hu Hi Hfirst.
  rewrite (row_own_age J state row flow extract H_id H_semi tms_u tout y0 i 0 Hout Hu Hi Hfirst).
  rewrite H_id; reflexivity.
Qed.

Lemma duplicate_row_unwritten : forall (J : Junk) (state row : Type)
    (flow : R -> R -> state -> state) (extract : nat -> R -> state -> row),
  forall tms_u tout y0 i j ti,
    (j < i)%nat -> nth_error tout j = Some ti -> nth_error tout i = Some ti ->
    nth_error (evolve_rows (O:=R_ops J) state row flow extract tms_u tout y0) i = Some None.
Proof.
  intros J state row flow extract tms_u tout y0 i j ti Hji Hj Hi.
  unfold evolve_rows.
  apply (run_grid_unwritten J state row flow extract tout i j ti Hji Hj Hi).
  rewrite nth_error_map, Hi; reflexivity.
Qed.
