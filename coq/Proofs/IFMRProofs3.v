(* Proofs/IFMRProofs3.v -- when end-point validation of an analytic IFMR segment
   (line(m) = slope * m^e + scale) extends to the whole segment (C09c). *)
From Coq Require Import ZArith List Bool Reals Lra Lia.
From SSP Require Import Num RFacts Model.Sev Model.IFMR Proofs.IFMRProofs.
Import ListNotations.
Local Open Scope R_scope.

(* ------------------------------------------------------------------ *)
(* monotonicity of x |-> Rpower x d on x > 0 *)

Lemma Rpower_mono_nonneg a b d : 0 <= d -> 0 < a -> a <= b -> Rpower a d <= Rpower b d.
Proof.
  intros Hd Ha Hab. apply Rle_Rpower_l; [exact Hd|split; assumption].
Qed.

Lemma Rpower_mono_nonpos a b d : d <= 0 -> 0 < a -> a <= b -> Rpower b d <= Rpower a d.
Proof.
  intros Hd Ha Hab. unfold Rpower.
  destruct Hab as [Hlt|Heq]; [|subst b; apply Rle_refl].
  assert (Hln : ln a < ln b) by (apply ln_increasing; assumption).
  assert (Hle : d * ln b <= d * ln a) by nra.
  destruct Hle as [Hl|He]; [left; apply exp_increasing; exact Hl|rewrite He; apply Rle_refl].
Qed.

Lemma Rpower_pos x d : 0 < Rpower x d.
Proof. unfold Rpower. apply exp_pos. Qed.

Lemma Rpower_0_exp x : Rpower x 0 = 1.
Proof. unfold Rpower. rewrite Rmult_0_l. apply exp_0. Qed.

(* c * Rpower x d is non-decreasing in x when 0 <= c * d *)
Lemma scaled_power_mono c d a b : 0 <= c * d -> 0 < a -> a <= b ->
  c * Rpower a d <= c * Rpower b d.
Proof.
  intros Hcd Ha Hab.
  destruct (Rtotal_order d 0) as [Hd|[Hd|Hd]].
  - assert (Hc : c <= 0) by nra.
    pose proof (Rpower_mono_nonpos a b d (Rlt_le _ _ Hd) Ha Hab) as Hp. nra.
  - subst d. rewrite !Rpower_0_exp. lra.
  - assert (Hc : 0 <= c) by nra.
    pose proof (Rpower_mono_nonneg a b d (Rlt_le _ _ Hd) Ha Hab) as Hp. nra.
Qed.

(* c * Rpower x d is non-increasing in x when c * d <= 0 *)
Lemma scaled_power_anti c d a b : c * d <= 0 -> 0 < a -> a <= b ->
  c * Rpower b d <= c * Rpower a d.
Proof.
  intros Hcd Ha Hab.
  assert (H : (- c) * Rpower a d <= (- c) * Rpower b d)
    by (apply scaled_power_mono; [nra|assumption|assumption]).
  lra.
Qed.

(* c * Rpower x d always lies between its end-point values *)
Lemma scaled_power_between c d a x b : 0 < a -> a <= x -> x <= b ->
  (c * Rpower a d <= c * Rpower x d <= c * Rpower b d) \/
  (c * Rpower b d <= c * Rpower x d <= c * Rpower a d).
Proof.
  intros Ha Hax Hxb.
  assert (Hx : 0 < x) by lra.
  destruct (Rle_lt_dec 0 (c * d)) as [Hs|Hs].
  - left. split; apply scaled_power_mono; assumption.
  - right. split; apply scaled_power_anti; try assumption; lra.
Qed.

(* ------------------------------------------------------------------ *)
(* what validation gives *)

Lemma powerlaw_valid_facts J e slope scale ml mu : 0 < ml ->
  powerlaw_valid (O:=R_ops J) e slope scale ml mu = Ok tt ->
  ml <= mu /\
  0 < slope * Rpower ml e + scale <= ml /\
  0 < slope * Rpower mu e + scale <= mu.
Proof.
  intros Hml Hv.
  rewrite powerlaw_valid_unfold in Hv.
  destruct (Rltb_spec mu ml) as [Hc|Hc].
  { destruct (negb _); [discriminate|]. destruct (Rltb ml 0); discriminate. }
  assert (Hmu : 0 < mu) by lra.
  rewrite !line_unfold in Hv.
  rewrite (Rpow_j_ok J ml) in Hv by exact Hml.
  rewrite (Rpow_j_ok J mu) in Hv by exact Hmu.
  destruct (Rltb_spec 0 (slope * Rpower ml e + scale)) as [Hl0|]; [|discriminate].
  destruct (Rleb_spec (slope * Rpower ml e + scale) ml) as [Hl1|]; [|discriminate].
  destruct (Rltb_spec 0 (slope * Rpower mu e + scale)) as [Hu0|]; [|discriminate].
  destruct (Rleb_spec (slope * Rpower mu e + scale) mu) as [Hu1|]; [|discriminate].
  lra.
Qed.

(* ------------------------------------------------------------------ *)
(* decreasing case *)

Lemma powerlaw_decreasing_in_bounds : forall J e slope scale m_lower m_upper m,
  0 < m_lower -> slope * e <= 0 ->
  powerlaw_valid (O:=R_ops J) e slope scale m_lower m_upper = Ok tt ->
  m_lower <= m <= m_upper ->
  0 < line (O:=R_ops J) m e slope scale <= m.
Proof.
  intros J e slope scale ml mu m Hml Hse Hv [Hm1 Hm2].
  destruct (powerlaw_valid_facts J e slope scale ml mu Hml Hv) as (Hlu & [Hl0 Hl1] & [Hu0 Hu1]).
  assert (Hm : 0 < m) by lra.
  rewrite line_unfold, Rpow_j_ok by exact Hm.
  pose proof (scaled_power_anti slope e ml m Hse Hml Hm1) as H1.
  pose proof (scaled_power_anti slope e m mu Hse Hm Hm2) as H2.
  lra.
Qed.

(* ------------------------------------------------------------------ *)
(* convex case *)

Definition gfun (e slope scale x : R) : R := slope * Rpower x e + scale - x.
Definition gder (e slope : R) (x : R) : R := slope * (e * Rpower x (e - 1)) - 1.

Lemma gfun_deriv e slope scale x : 0 < x ->
  derivable_pt_lim (gfun e slope scale) x (gder e slope x).
Proof.
  intros Hx. unfold gfun, gder.
  apply (derivable_pt_lim_minus (fun x => slope * Rpower x e + scale) (fun x => x)).
  - replace (slope * (e * Rpower x (e - 1))) with (slope * (e * Rpower x (e - 1)) + 0) by ring.
    apply (derivable_pt_lim_plus (fun x => slope * Rpower x e) (fun _ => scale)).
    + apply (derivable_pt_lim_scal (fun x => Rpower x e)).
      apply derivable_pt_lim_power. exact Hx.
    + apply derivable_pt_lim_const.
  - apply derivable_pt_lim_id.
Qed.

Lemma gder_mono e slope a b : 0 <= slope * (e * (e - 1)) -> 0 < a -> a <= b ->
  gder e slope a <= gder e slope b.
Proof.
  intros Hc Ha Hab. unfold gder.
  assert (H : (slope * e) * Rpower a (e - 1) <= (slope * e) * Rpower b (e - 1)).
  { apply scaled_power_mono; [|assumption|assumption].
    replace (slope * e * (e - 1)) with (slope * (e * (e - 1))) by ring. exact Hc. }
  lra.
Qed.

Lemma convex_below e slope scale ml mu m :
  0 < ml -> 0 <= slope * (e * (e - 1)) ->
  ml <= m <= mu ->
  gfun e slope scale ml <= 0 -> gfun e slope scale mu <= 0 ->
  gfun e slope scale m <= 0.
Proof.
  intros Hml Hc [Hm1 Hm2] Hgl Hgu.
  destruct Hm1 as [Hm1|Heq]; [|subst m; exact Hgl].
  destruct Hm2 as [Hm2|Heq]; [|subst m; exact Hgu].
  destruct (Rle_lt_dec (gfun e slope scale m) 0) as [Hok|Hpos]; [exact Hok|exfalso].
  destruct (MVT_cor2 (gfun e slope scale) (gder e slope) ml m Hm1) as (x1 & Hx1 & Hx1r).
  { intros c Hcr. apply gfun_deriv. lra. }
  destruct (MVT_cor2 (gfun e slope scale) (gder e slope) m mu Hm2) as (x2 & Hx2 & Hx2r).
  { intros c Hcr. apply gfun_deriv. lra. }
  assert (Hmono : gder e slope x1 <= gder e slope x2)
    by (apply gder_mono; [exact Hc|lra|lra]).
  assert (Hd1 : 0 < gder e slope x1).
  { destruct (Rle_lt_dec (gder e slope x1) 0) as [Hn|Hp]; [|exact Hp].
    assert (gder e slope x1 * (m - ml) <= 0) by nra. lra. }
  assert (Hd2 : gder e slope x2 < 0).
  { destruct (Rle_lt_dec 0 (gder e slope x2)) as [Hn|Hp]; [|exact Hp].
    assert (0 <= gder e slope x2 * (mu - m)) by nra. lra. }
  lra.
Qed.

Lemma powerlaw_convex_in_bounds : forall J e slope scale m_lower m_upper m,
  0 < m_lower -> 0 <= slope * (e * (e - 1)) ->
  powerlaw_valid (O:=R_ops J) e slope scale m_lower m_upper = Ok tt ->
  m_lower <= m <= m_upper ->
  0 < line (O:=R_ops J) m e slope scale <= m.
Proof.
  intros J e slope scale ml mu m Hml Hc Hv [Hm1 Hm2].
  destruct (powerlaw_valid_facts J e slope scale ml mu Hml Hv) as (Hlu & [Hl0 Hl1] & [Hu0 Hu1]).
  assert (Hm : 0 < m) by lra.
  rewrite line_unfold, Rpow_j_ok by exact Hm.
  split.
  - destruct (scaled_power_between slope e ml m mu Hml Hm1 Hm2) as [[H1 H2]|[H1 H2]]; lra.
  - assert (Hg : gfun e slope scale m <= 0).
    { apply (convex_below e slope scale ml mu m); try assumption.
      - split; assumption.
      - unfold gfun; lra.
      - unfold gfun; lra. }
    unfold gfun in Hg. lra.
Qed.

(* ------------------------------------------------------------------ *)
(* the library's default segments *)

Lemma default_segments_convex :
  0 <= 1 * (1 * (1 - 1)) /\ 0 <= 6e-4 * (3 * (3 - 1)) /\ 0 <= 0.43 * (1 * (1 - 1)) /\
  0 <= 3e-5 * (3 * (3 - 1)) /\ 0 <= 0.4 * (1 * (1 - 1)).
Proof. repeat split; lra. Qed.

(* ------------------------------------------------------------------ *)
(* concave refutation: e = 1/2, slope = 3, scale = -2 on [1, 4], m = 9/4 *)

Lemma Rpower_half x : 0 < x -> Rpower x (1 / 2) = sqrt x.
Proof.
  intros Hx. replace (1 / 2) with (/ 2) by lra. apply Rpower_sqrt. exact Hx.
Qed.

Lemma line_cx_1 J : line (O:=R_ops J) 1 (1 / 2) 3 (-2) = 1.
Proof.
  rewrite line_unfold, Rpow_j_ok by lra.
  rewrite Rpower_half by lra. rewrite sqrt_1. lra.
Qed.

Lemma line_cx_4 J : line (O:=R_ops J) 4 (1 / 2) 3 (-2) = 4.
Proof.
  rewrite line_unfold, Rpow_j_ok by lra.
  rewrite Rpower_half by lra.
  replace 4 with (2 * 2) at 1 by lra. rewrite sqrt_square by lra. lra.
Qed.

Lemma line_cx_94 J : line (O:=R_ops J) (9 / 4) (1 / 2) 3 (-2) = 5 / 2.
Proof.
  rewrite line_unfold, Rpow_j_ok by lra.
  rewrite Rpower_half by lra.
  replace (9 / 4) with (3 / 2 * (3 / 2)) by lra. rewrite sqrt_square by lra. lra.
Qed.

Lemma powerlaw_concave_refuted : forall J, exists e slope scale m_lower m_upper m,
  0 < m_lower /\ 0 < slope * e /\ slope * (e * (e - 1)) < 0 /\
  powerlaw_valid (O:=R_ops J) e slope scale m_lower m_upper = Ok tt /\
  m_lower <= m <= m_upper /\
  m < line (O:=R_ops J) m e slope scale.
Proof.
  intros J. exists (1 / 2), 3, (-2), 1, 4, (9 / 4).
  split; [lra|]. split; [lra|]. split; [lra|]. split; [|split; [lra|]].
  - rewrite powerlaw_valid_unfold, line_cx_1, line_cx_4.
    assert (H1 : Rltb 0 1 = true) by (apply Rltb_true; lra).
    assert (H2 : Rleb 1 1 = true) by (apply Rleb_true; lra).
    assert (H3 : Rltb 0 4 = true) by (apply Rltb_true; lra).
    assert (H4 : Rleb 4 4 = true) by (apply Rleb_true; lra).
    assert (H5 : Rltb 1 0 = false) by (apply Rltb_false; lra).
    assert (H6 : Rltb 4 1 = false) by (apply Rltb_false; lra).
    rewrite H1, H2, H3, H4, H5, H6. reflexivity.
  - rewrite line_cx_94. lra.
Qed.
