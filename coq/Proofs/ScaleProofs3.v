(* Proofs/ScaleProofs3.v -- C18 (continued): the escape field after core
   collapse is homogeneous of degree one in (Ns, Nr, Mr, rate) and leaves the
   slope derivative unchanged, at the real instance.  Every statement is
   universally quantified over the Junk record. *)
From Coq Require Import List Bool Reals Lra.
From SSP Require Import Num RFacts Model.Pk Model.Esc Model.EscSpec Model.ScaleSpec
  Proofs.PkProofs Proofs.EscProofs Proofs.ScaleProofs2.
Import ListNotations.
Local Open Scope R_scope.

(* ------------------------------------------------------------------ *)
(* option / list helpers *)

Lemma ototal_oscale lam l : ototal (map (oscale lam) l) = oscale lam (ototal l).
Proof.
  induction l as [|x l IH]; [cbn; f_equal; ring|].
  cbn [map]. rewrite !ototal_cons, IH.
  destruct x as [a|]; [|reflexivity].
  destruct (ototal l) as [b|]; [|reflexivity].
  cbn [oscale]. f_equal. ring.
Qed.

(* ------------------------------------------------------------------ *)
(* scaling of one star bin: only the count changes *)

Definition scb (lam : R) (b : starbin (T:=R)) : starbin (T:=R) :=
  {| sb_N := lam * sb_N b; sb_lo := sb_lo b; sb_up := sb_up b;
     sb_p1 := sb_p1 b; sb_p15 := sb_p15 b; sb_p2 := sb_p2 b; sb_p25 := sb_p25 b |}.

Lemma mkb_sc J res lam q : mkb J res (sc lam q) = scb lam (mkb J res q).
Proof. destruct q as [[[n al] lo] up]; reflexivity. Qed.

Lemma sb_depl_scb J md lam b : sb_depl (O:=R_ops J) md (scb lam b) = sb_depl (O:=R_ops J) md b.
Proof. reflexivity. Qed.

Lemma sb_Is_scb J md lam b :
  sb_Is (O:=R_ops J) md (scb lam b) = oscale lam (sb_Is (O:=R_ops J) md b).
Proof.
  unfold sb_Is. cbn [scb sb_N sb_p1 sb_p15].
  destruct (osub (O:=R_ops J) (Some (none (NumOps:=R_ops J)))
              (omul (O:=R_ops J) (Some (npow (NumOps:=R_ops J) md (nopp (NumOps:=R_ops J) (nhalf (O:=R_ops J)))))
                 (odiv (O:=R_ops J) (sb_p15 b) (sb_p1 b)))) as [x|]; [|reflexivity].
  cbn [omul oscale nmul R_ops]. f_equal. ring.
Qed.

Lemma sb_Js_scb J md lam b :
  sb_Js (O:=R_ops J) md (scb lam b) = oscale lam (sb_Js (O:=R_ops J) md b).
Proof.
  unfold sb_Js, sb_Ms, sb_ms. cbn [scb sb_N sb_p1 sb_p2 sb_p25].
  destruct (osub (O:=R_ops J) (Some (none (NumOps:=R_ops J)))
              (omul (O:=R_ops J) (Some (npow (NumOps:=R_ops J) md (nopp (NumOps:=R_ops J) (nhalf (O:=R_ops J)))))
                 (odiv (O:=R_ops J) (sb_p25 b) (sb_p2 b)))) as [x|];
  destruct (odiv (O:=R_ops J) (sb_p2 b) (sb_p1 b)) as [y|]; try reflexivity.
  cbn [omul oscale nmul R_ops]. f_equal. ring.
Qed.

Lemma filter_depl_scb J md lam l :
  filter (sb_depl (O:=R_ops J) md) (map (scb lam) l) = map (scb lam) (filter (sb_depl (O:=R_ops J) md) l).
Proof.
  induction l as [|b l IH]; [reflexivity|].
  cbn [map filter]. rewrite sb_depl_scb, IH.
  destruct (sb_depl (O:=R_ops J) md b); reflexivity.
Qed.

(* ------------------------------------------------------------------ *)
(* scaling of one remnant bin *)

Lemma Rdiv_j_scale J lam m n : 0 < lam -> 0 < n -> Rdiv_j J (lam * m) (lam * n) = Rdiv_j J m n.
Proof.
  intros Hl Hn.
  assert (lam * n <> 0) by (apply Rmult_integral_contrapositive_currified; lra).
  rewrite !Rdiv_j_ok by (assumption || lra). field. split; lra.
Qed.

Lemma rem_I_scale J md lam p : 0 < lam ->
  rem_I (O:=R_ops J) md (lam * fst p, lam * snd p) = lam * rem_I (O:=R_ops J) md p.
Proof.
  intros Hl. destruct p as [n m]. cbn [fst snd]. rewrite !rem_I_unfold.
  rewrite (Rltb_pos_scale lam n Hl).
  destruct (Rltb_spec 0 n) as [Hn|Hn]; [|ring].
  rewrite (Rdiv_j_scale J lam m n Hl Hn).
  destruct (Rltb (Rdiv_j J m n) md); ring.
Qed.

Lemma rem_J_scale J md lam p : 0 < lam ->
  rem_J (O:=R_ops J) md (lam * fst p, lam * snd p) = lam * rem_J (O:=R_ops J) md p.
Proof.
  intros Hl. destruct p as [n m]. cbn [fst snd]. rewrite !rem_J_unfold.
  rewrite (Rltb_pos_scale lam n Hl).
  destruct (Rltb_spec 0 n) as [Hn|Hn]; [|ring].
  rewrite (Rdiv_j_scale J lam m n Hl Hn).
  destruct (Rltb (Rdiv_j J m n) md); ring.
Qed.

Lemma sum_rem_scale (f : R * R -> R) lam rems :
  (forall p, f (lam * fst p, lam * snd p) = lam * f p) ->
  sumR (map f (scale_bins lam rems)) = lam * sumR (map f rems).
Proof.
  intros Hf. unfold scale_bins. rewrite map_map.
  rewrite (sumR_ext _ (fun p => lam * f p)) by (intros p _; apply Hf).
  apply sumR_lin.
Qed.

(* ------------------------------------------------------------------ *)
(* the normalisation constant B is unchanged *)

Lemma B_scale J lam rate (o : option R) s : 0 < lam ->
  (forall den, o = Some den -> den + s <> 0) ->
  odiv (O:=R_ops J) (Some (lam * rate)) (oadd (O:=R_ops J) (oscale lam o) (Some (lam * s)))
  = odiv (O:=R_ops J) (Some rate) (oadd (O:=R_ops J) o (Some s)).
Proof.
  intros Hl Hnz. destruct o as [den|]; [|reflexivity].
  specialize (Hnz den eq_refl).
  cbn [oscale oadd odiv nadd ndiv R_ops].
  assert (lam * den + lam * s <> 0).
  { replace (lam * den + lam * s) with (lam * (den + s)) by ring.
    apply Rmult_integral_contrapositive_currified; lra. }
  rewrite !Rdiv_j_ok by assumption. f_equal. field. split; [assumption|lra].
Qed.

(* ------------------------------------------------------------------ *)
(* the four output fields, for an arbitrary common B *)

Lemma post_dNs_scale J md lam (B : option R) l :
  map (fun b => if sb_depl (O:=R_ops J) md b then omul (O:=R_ops J) B (sb_Is (O:=R_ops J) md b) else Some 0)
      (map (scb lam) l)
  = map (oscale lam)
      (map (fun b => if sb_depl (O:=R_ops J) md b then omul (O:=R_ops J) B (sb_Is (O:=R_ops J) md b) else Some 0) l).
Proof.
  rewrite !map_map. apply map_ext. intros b.
  rewrite sb_depl_scb, sb_Is_scb.
  destruct (sb_depl (O:=R_ops J) md b).
  - destruct B as [Bv|]; destruct (sb_Is (O:=R_ops J) md b) as [x|]; try reflexivity.
    cbn [omul oscale nmul R_ops]. f_equal. ring.
  - cbn [oscale]. f_equal. ring.
Qed.

Lemma post_rem_scale J lam (B : option R) (f : R * R -> R) rems : 0 < lam ->
  (forall p, f (lam * fst p, lam * snd p) = lam * f p) ->
  map (fun p => if Rltb 0 (fst p) then omul (O:=R_ops J) B (Some (f p)) else Some 0) (scale_bins lam rems)
  = map (oscale lam)
      (map (fun p => if Rltb 0 (fst p) then omul (O:=R_ops J) B (Some (f p)) else Some 0) rems).
Proof.
  intros Hl Hf. unfold scale_bins. rewrite !map_map. apply map_ext. intros p.
  cbn [fst snd]. rewrite (Rltb_pos_scale lam (fst p) Hl), Hf.
  destruct (Rltb 0 (fst p)).
  - destruct B as [Bv|]; [|reflexivity].
    cbn [omul oscale nmul R_ops]. f_equal. ring.
  - cbn [oscale]. f_equal. ring.
Qed.

(* ------------------------------------------------------------------ *)
(* main theorem *)

Lemma esc_homogeneous_post : forall J res md rate tcc t nm stars rems lam, 0 < lam -> tcc <= t -> 0 < md ->
  stars_ok J res stars -> rems_ok rems ->
  let sb := map (fun q => let '(n, al, lo, up) := q in mk_starbin (O:=R_ops J) res n al lo up) stars in
  (forall den,
     ototal (map (match nm with NormN => sb_Is (O:=R_ops J) md | NormM => sb_Js (O:=R_ops J) md end)
                 (filter (sb_depl (O:=R_ops J) md) sb)) = Some den ->
     den + sumR (map (match nm with NormN => rem_I (O:=R_ops J) md | NormM => rem_J (O:=R_ops J) md end) rems) <> 0) ->
  esc_field (O:=R_ops J) res md (lam * rate) tcc t nm (scale_stars lam stars) (scale_bins lam rems) =
  scale_esc lam (esc_field (O:=R_ops J) res md rate tcc t nm stars rems).
Proof.
  intros J res md rate tcc t nm stars rems lam Hl Ht Hmd Hs Hr sb Hnz. subst sb.
  rewrite (mkb_eq J) in Hnz.
  unfold scale_esc.
  esc_post J t tcc Ht.
  rewrite scale_stars_sc, (map_map (sc lam) (mkb J res)).
  rewrite (map_ext (fun q => mkb J res (sc lam q)) (fun q => scb lam (mkb J res q)))
    by (intros q; apply mkb_sc).
  rewrite <- (map_map (mkb J res) (scb lam)).
  set (l := map (mkb J res) stars) in *.
  rewrite filter_depl_scb.
  rewrite !ototal_osumo, !sum_plain_sumR.
  destruct nm.
  - (* NormN *)
    rewrite (map_map (scb lam) (sb_Is (O:=R_ops J) md)).
    rewrite (map_ext (fun b => sb_Is (O:=R_ops J) md (scb lam b))
                     (fun b => oscale lam (sb_Is (O:=R_ops J) md b)))
      by (intros b; apply sb_Is_scb).
    rewrite <- (map_map (sb_Is (O:=R_ops J) md) (oscale lam)), ototal_oscale.
    rewrite (sum_rem_scale (rem_I (O:=R_ops J) md) lam rems) by (intros p; apply rem_I_scale; exact Hl).
    rewrite (B_scale J lam rate _ _ Hl Hnz).
    f_equal.
    + apply post_dNs_scale.
    + rewrite map_map. apply map_ext. intros b. reflexivity.
    + apply post_rem_scale; [exact Hl|intros p; apply rem_I_scale; exact Hl].
    + apply post_rem_scale; [exact Hl|intros p; apply rem_J_scale; exact Hl].
  - (* NormM *)
    rewrite (map_map (scb lam) (sb_Js (O:=R_ops J) md)).
    rewrite (map_ext (fun b => sb_Js (O:=R_ops J) md (scb lam b))
                     (fun b => oscale lam (sb_Js (O:=R_ops J) md b)))
      by (intros b; apply sb_Js_scb).
    rewrite <- (map_map (sb_Js (O:=R_ops J) md) (oscale lam)), ototal_oscale.
    rewrite (sum_rem_scale (rem_J (O:=R_ops J) md) lam rems) by (intros p; apply rem_J_scale; exact Hl).
    rewrite (B_scale J lam rate _ _ Hl Hnz).
    f_equal.
    + apply post_dNs_scale.
    + rewrite map_map. apply map_ext. intros b. reflexivity.
    + apply post_rem_scale; [exact Hl|intros p; apply rem_I_scale; exact Hl].
    + apply post_rem_scale; [exact Hl|intros p; apply rem_J_scale; exact Hl].
Qed.
