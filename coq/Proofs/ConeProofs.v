(* Proofs for Properties/C05c.v: the cone lo*N <= M <= up*N is invariant under the exact flow of
   N' = a + c N, M' = b + c M when the deposit (a,b) lies in the cone.  Plain reals + Coquelicot. *)
From Coq Require Import Reals Lra.
From Coquelicot Require Import Coquelicot.
Local Open Scope R_scope.

(* Integrating factor, with c continuous everywhere. *)
Lemma nonneg_invariant_glob : forall (c h g : R -> R) t0 t1, t0 <= t1 ->
  (forall t, continuous c t) ->
  (forall t, t0 <= t <= t1 -> is_derive g t (c t * g t + h t)) ->
  (forall t, t0 <= t <= t1 -> 0 <= h t) ->
  0 <= g t0 ->
  forall t, t0 <= t <= t1 -> 0 <= g t.
Proof.
  intros c h g t0 t1 H01 Hc Hg Hh Hg0 t Ht.
  set (C := fun x => RInt c t0 x).
  assert (HC : forall x, is_derive C x (c x)).
  { intros x. apply (is_derive_RInt c C t0 x).
    - apply filter_forall. intros y. unfold C. apply (RInt_correct c t0 y).
      apply (ex_RInt_continuous c t0 y). intros z _. apply Hc.
    - apply Hc. }
  set (phi := fun x => g x * exp (- C x)).
  set (dphi := fun x => h x * exp (- C x)).
  assert (Hphi : forall x, t0 <= x <= t1 -> is_derive phi x (dphi x)).
  { intros x Hx. unfold phi, dphi.
    pose proof (Hg x Hx) as Hgx. pose proof (HC x) as HCx.
    auto_derive.
    - split. { exists (c x * g x + h x). exact Hgx. }
      split. { exists (c x). exact HCx. } exact I.
    - assert (E1 : Derive (fun x0 : R => g x0) x = c x * g x + h x)
        by exact (is_derive_unique _ _ _ Hgx).
      assert (E2 : Derive (fun x0 : R => C x0) x = c x)
        by exact (is_derive_unique _ _ _ HCx).
      rewrite E1, E2. ring. }
  assert (HC0 : C t0 = 0).
  { unfold C. exact (@RInt_point R_CompleteNormedModule t0 c). }
  destruct (MVT_gen phi t0 t dphi) as [xi [Hxi Heq]].
  - intros x Hx. rewrite Rmin_left in Hx by lra. rewrite Rmax_right in Hx by lra.
    apply Hphi. lra.
  - intros x Hx. rewrite Rmin_left in Hx by lra. rewrite Rmax_right in Hx by lra.
    apply continuity_pt_filterlim.
    apply (ex_derive_continuous phi x). exists (dphi x). apply Hphi. lra.
  - rewrite Rmin_left in Hxi by lra. rewrite Rmax_right in Hxi by lra.
    assert (Hd : 0 <= dphi xi).
    { unfold dphi. apply Rmult_le_pos. apply Hh; lra. left; apply exp_pos. }
    assert (Hp0 : 0 <= phi t0).
    { unfold phi. apply Rmult_le_pos. exact Hg0. left; apply exp_pos. }
    assert (Hpt : 0 <= phi t).
    { assert (0 <= dphi xi * (t - t0)) by (apply Rmult_le_pos; lra). lra. }
    unfold phi in Hpt.
    pose proof (exp_pos (- C t)) as He.
    destruct (Rle_or_lt 0 (g t)) as [Hge|Hlt]; [exact Hge|].
    exfalso.
    assert (g t * exp (- C t) < 0).
    { replace (g t * exp (- C t)) with (- ((- g t) * exp (- C t))) by ring.
      assert (0 < - g t * exp (- C t)) by (apply Rmult_lt_0_compat; lra). lra. }
    lra.
Qed.

Lemma nonneg_invariant : forall (c h g : R -> R) t0 t1, t0 <= t1 ->
  (forall t, t0 <= t <= t1 -> continuous c t) ->
  (forall t, t0 <= t <= t1 -> is_derive g t (c t * g t + h t)) ->
  (forall t, t0 <= t <= t1 -> 0 <= h t) ->
  0 <= g t0 ->
  forall t, t0 <= t <= t1 -> 0 <= g t.
Proof.
  intros c h g t0 t1 H01 Hc Hg Hh Hg0.
  destruct (C0_extension_le c t0 t1 Hc) as [c' [Hc' Heq]].
  apply (nonneg_invariant_glob c' h g t0 t1 H01).
  - exact Hc'.
  - intros t Ht. rewrite (Heq t Ht). apply Hg; exact Ht.
  - exact Hh.
  - exact Hg0.
Qed.

Lemma remnant_count_nonneg : forall (a c Nr : R -> R) t0 t1, t0 <= t1 ->
  (forall t, t0 <= t <= t1 -> continuous c t) ->
  (forall t, t0 <= t <= t1 -> is_derive Nr t (a t + c t * Nr t)) ->
  (forall t, t0 <= t <= t1 -> 0 <= a t) ->
  0 <= Nr t0 ->
  forall t, t0 <= t <= t1 -> 0 <= Nr t.
Proof.
  intros a c Nr t0 t1 H01 Hc HN Ha HN0.
  apply (nonneg_invariant c a Nr t0 t1 H01 Hc).
  - intros t Ht. replace (c t * Nr t + a t) with (a t + c t * Nr t) by ring.
    apply HN; exact Ht.
  - exact Ha.
  - exact HN0.
Qed.

Lemma remnant_mean_stays_in_bin : forall (a b c Nr Mr : R -> R) lo up t0 t1, t0 <= t1 ->
  (forall t, t0 <= t <= t1 -> continuous c t) ->
  (forall t, t0 <= t <= t1 -> is_derive Nr t (a t + c t * Nr t)) ->
  (forall t, t0 <= t <= t1 -> is_derive Mr t (b t + c t * Mr t)) ->
  (forall t, t0 <= t <= t1 -> lo * a t <= b t <= up * a t) ->
  lo * Nr t0 <= Mr t0 <= up * Nr t0 ->
  forall t, t0 <= t <= t1 -> lo * Nr t <= Mr t <= up * Nr t.
Proof.
  intros a b c Nr Mr lo up t0 t1 H01 Hc HN HM Hab H0 t Ht.
  assert (H1 : 0 <= Mr t - lo * Nr t).
  { apply (nonneg_invariant c (fun x => b x - lo * a x) (fun x => Mr x - lo * Nr x)
             t0 t1 H01 Hc); [| | lra | exact Ht].
    - intros x Hx. pose proof (HN x Hx) as HNx. pose proof (HM x Hx) as HMx.
      auto_derive.
      + split. { exists (b x + c x * Mr x). exact HMx. }
        split. { exists (a x + c x * Nr x). exact HNx. } exact I.
      + assert (E1 : Derive (fun x0 : R => Nr x0) x = a x + c x * Nr x)
          by exact (is_derive_unique _ _ _ HNx).
        assert (E2 : Derive (fun x0 : R => Mr x0) x = b x + c x * Mr x)
          by exact (is_derive_unique _ _ _ HMx).
        rewrite E1, E2. ring.
    - intros x Hx. pose proof (Hab x Hx). simpl. lra. }
  assert (H2 : 0 <= up * Nr t - Mr t).
  { apply (nonneg_invariant c (fun x => up * a x - b x) (fun x => up * Nr x - Mr x)
             t0 t1 H01 Hc); [| | lra | exact Ht].
    - intros x Hx. pose proof (HN x Hx) as HNx. pose proof (HM x Hx) as HMx.
      auto_derive.
      + split. { exists (a x + c x * Nr x). exact HNx. }
        split. { exists (b x + c x * Mr x). exact HMx. } exact I.
      + assert (E1 : Derive (fun x0 : R => Nr x0) x = a x + c x * Nr x)
          by exact (is_derive_unique _ _ _ HNx).
        assert (E2 : Derive (fun x0 : R => Mr x0) x = b x + c x * Mr x)
          by exact (is_derive_unique _ _ _ HMx).
        rewrite E1, E2. ring.
    - intros x Hx. pose proof (Hab x Hx). simpl. lra. }
  lra.
Qed.
