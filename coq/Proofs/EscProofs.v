(* Proofs/EscProofs.v -- theorems about Model/Esc.v (the escape part of the ODE
   right-hand side) at the real instance.  Every statement is universally
   quantified over the Junk record, so no step can rely on the value of x/0. *)
From Coq Require Import List Bool Reals Lra.
From SSP Require Import Num RFacts Model.Pk Model.Esc Model.EscSpec Proofs.PkProofs.
Import ListNotations.
Local Open Scope R_scope.

(* ------------------------------------------------------------------ *)
(* generic list facts *)

Lemma ototal_map_Some {A} (f : A -> R) l :
  ototal (map (fun x => Some (f x)) l) = Some (sumR (map f l)).
Proof. induction l as [|x l IH]; simpl; [reflexivity|]. rewrite IH. reflexivity. Qed.

Lemma ototal_osumo J l : osumo (O:=R_ops J) l = ototal l.
Proof. induction l as [|x l IH]; simpl; [reflexivity|]. rewrite IH. reflexivity. Qed.

Lemma sum_plain_sumR J l : sum_plain (O:=R_ops J) l = sumR l.
Proof. reflexivity. Qed.

Lemma sumR_scale {A} (f : A -> R) c d l :
  sumR (map (fun x => c * f x / d) l) = c * sumR (map f l) / d.
Proof.
  induction l as [|x l IH]; simpl; [unfold Rdiv; ring|]. rewrite IH. unfold Rdiv; ring.
Qed.

Lemma sumR_ext {A} (f g : A -> R) l :
  (forall x, In x l -> f x = g x) -> sumR (map f l) = sumR (map g l).
Proof.
  induction l as [|x l IH]; intros H; simpl; [reflexivity|].
  rewrite (H x (or_introl eq_refl)), IH; [reflexivity|].
  intros y Hy; apply H; right; assumption.
Qed.

Lemma sumR_nonneg {A} (f : A -> R) l :
  (forall x, In x l -> 0 <= f x) -> 0 <= sumR (map f l).
Proof.
  induction l as [|x l IH]; intros H; simpl; [lra|].
  assert (0 <= f x) by (apply H; left; reflexivity).
  assert (0 <= sumR (map f l)) by (apply IH; intros y Hy; apply H; right; assumption).
  lra.
Qed.

Lemma sumR_zero_all {A} (f : A -> R) l :
  (forall x, In x l -> 0 <= f x) -> sumR (map f l) = 0 -> forall x, In x l -> f x = 0.
Proof.
  induction l as [|y l IH]; intros H Hs x Hx; simpl in *; [contradiction|].
  assert (0 <= f y) by (apply H; left; reflexivity).
  assert (0 <= sumR (map f l)) by (apply sumR_nonneg; intros z Hz; apply H; right; assumption).
  destruct Hx as [->|Hx]; [lra|].
  apply IH; [intros z Hz; apply H; right; assumption|lra|assumption].
Qed.

(* ------------------------------------------------------------------ *)
(* remnant weight *)

Lemma rem_I_unfold J md n m :
  rem_I (O:=R_ops J) md (n, m) =
  if Rltb 0 n then (if Rltb (Rdiv_j J m n) md
                    then n * (1 - Rsqrt_j J (Rdiv_j J (Rdiv_j J m n) md)) else 0) else 0.
Proof. reflexivity. Qed.
Lemma rem_J_unfold J md n m :
  rem_J (O:=R_ops J) md (n, m) =
  if Rltb 0 n then (if Rltb (Rdiv_j J m n) md
                    then m * (1 - Rsqrt_j J (Rdiv_j J (Rdiv_j J m n) md)) else 0) else 0.
Proof. reflexivity. Qed.

Lemma rem_weight : forall J md n m, 0 < md -> 0 < n -> 0 <= m ->
  rem_I (O:=R_ops J) md (n, m) = (if Rlt_dec (m / n) md then n * (1 - sqrt ((m / n) / md)) else 0).
Proof.
  intros J md n m Hmd Hn Hm. rewrite rem_I_unfold.
  rewrite (proj2 (Rltb_true 0 n) Hn).
  rewrite !Rdiv_j_ok by lra.
  rewrite Rsqrt_j_ok by (apply div_nonneg; [apply div_nonneg; assumption|assumption]).
  unfold Rltb. destruct (Rlt_dec (m / n) md); reflexivity.
Qed.

(* rem_I / rem_J vanish on unpopulated bins and share the weight factor *)
Lemma rem_I_unpop J md p : Rltb 0 (fst p) = false -> rem_I (O:=R_ops J) md p = 0.
Proof. destruct p as [n m]; simpl fst; intros H. rewrite rem_I_unfold, H. reflexivity. Qed.

Lemma rem_IJ J md p : rem_J (O:=R_ops J) md p * fst p = rem_I (O:=R_ops J) md p * snd p.
Proof.
  destruct p as [n m]; simpl fst; simpl snd. rewrite rem_I_unfold, rem_J_unfold.
  destruct (Rltb 0 n); [|ring]. destruct (Rltb (Rdiv_j J m n) md); ring.
Qed.

(* ------------------------------------------------------------------ *)
(* star bins *)

Definition q_n (q : R * R * R * R) : R := fst (fst (fst q)).
Definition mkb (J : Junk) (res : R) (q : R * R * R * R) : starbin (T:=R) :=
  let '(n, al, lo, up) := q in mk_starbin (O:=R_ops J) res n al lo up.


Lemma mkb_eq J res :
  (fun q : R * R * R * R => let '(n, al, lo, up) := q in mk_starbin (O:=R_ops J) res n al lo up)
  = mkb J res.
Proof. reflexivity. Qed.

Lemma sb_N_mkb J res q : sb_N (mkb J res q) = q_n q.
Proof. destruct q as [[[n al] lo] up]; reflexivity. Qed.

Lemma sbN_sum J res stars :
  sum_plain (O:=R_ops J) (map sb_N (map (mkb J res) stars)) = sumR (map q_n stars).
Proof.
  rewrite map_map, sum_plain_sumR. apply sumR_ext; intros q _; apply sb_N_mkb.
Qed.

Definition bin_ok (J : Junk) (res : R) (q : R * R * R * R) : Prop :=
  let '(n, al, lo, up) := q in
  0 <= n /\ 0 < lo /\ lo < up /\
  Pk (O:=R_ops J) res al 1 lo up <> None /\
  Pk (O:=R_ops J) res al (three_halves (O:=R_ops J)) lo up <> None /\
  Pk (O:=R_ops J) res al (ntwo (O:=R_ops J)) lo up <> None /\
  Pk (O:=R_ops J) res al (five_halves (O:=R_ops J)) lo up <> None.

Lemma stars_ok_In J res stars q : stars_ok J res stars -> In q stars -> bin_ok J res q.
Proof. intros H Hq. unfold stars_ok in H. rewrite Forall_forall in H. exact (H q Hq). Qed.

Lemma Pk_some_raw J res a k lo up :
  Pk (O:=R_ops J) res a k lo up <> None ->
  Pk (O:=R_ops J) res a k lo up = Some (Pk_raw (O:=R_ops J) a k lo up).
Proof.
  intros H. destruct (Pk (O:=R_ops J) res a k lo up) as [r|] eqn:E; [|contradiction].
  destruct (Pk_some J res a k lo up r E) as [-> _]. reflexivity.
Qed.

Lemma ms_of_pos J res q : bin_ok J res q -> 0 < ms_of J res q.
Proof.
  destruct q as [[[n al] lo] up]. intros (Hn & Hlo & Hup & _). unfold ms_of.
  apply div_pos; apply Pk_raw_pos; assumption.
Qed.

Lemma bin_facts J res q : bin_ok J res q ->
  sb_finite (mkb J res q) = true /\ sb_ms (O:=R_ops J) (mkb J res q) = Some (ms_of J res q).
Proof.
  destruct q as [[[n al] lo] up]. intros (Hn & Hlo & Hup & H1 & H15 & H2 & H25).
  apply Pk_some_raw in H1. apply Pk_some_raw in H2.
  assert (HP1 : 0 < Pk_raw (O:=R_ops J) al 1 lo up) by (apply Pk_raw_pos; assumption).
  split.
  - change (sb_finite (mkb J res (n, al, lo, up)))
      with (is_some (Pk (O:=R_ops J) res al 1 lo up)).
    rewrite H1. reflexivity.
  - change (sb_ms (O:=R_ops J) (mkb J res (n, al, lo, up)))
      with (odiv (O:=R_ops J) (Pk (O:=R_ops J) res al (ntwo (O:=R_ops J)) lo up)
                              (Pk (O:=R_ops J) res al 1 lo up)).
    rewrite H1, H2. unfold ms_of.
    change (odiv (O:=R_ops J) (Some ?a) (Some ?b)) with (Some (Rdiv_j J a b)).
    rewrite Rdiv_j_ok by lra. reflexivity.
Qed.

Lemma sb_Ms_mkb J res q : bin_ok J res q ->
  sb_Ms (O:=R_ops J) (mkb J res q) = Some (q_n q * ms_of J res q).
Proof.
  intros H. destruct (bin_facts J res q H) as [_ Hms].
  unfold sb_Ms. rewrite Hms, sb_N_mkb. reflexivity.
Qed.

Lemma filter_all {A} (f : A -> bool) l : (forall x, In x l -> f x = true) -> filter f l = l.
Proof.
  induction l as [|x l IH]; intros H; simpl; [reflexivity|].
  rewrite (H x (or_introl eq_refl)), IH; [reflexivity|]. intros y Hy; apply H; right; assumption.
Qed.

(* the mass normalisation under stars_ok *)
Definition Msum (J : Junk) (res : R) (stars : list (R * R * R * R)) (rems : list (R * R)) : R :=
  sumR (map (fun q => q_n q * ms_of J res q) stars) + sumR (map snd rems).
Definition Nsum (stars : list (R * R * R * R)) (rems : list (R * R)) : R :=
  sumR (map q_n stars) + sumR (map fst rems).

Lemma M_sum_eq J res stars rems : stars_ok J res stars ->
  oadd (O:=R_ops J) (osumo (O:=R_ops J) (map (sb_Ms (O:=R_ops J)) (filter sb_finite (map (mkb J res) stars))))
       (Some (sum_plain (O:=R_ops J) (map snd rems)))
  = Some (Msum J res stars rems).
Proof.
  intros Hs. rewrite filter_all.
  2:{ intros b Hb. apply in_map_iff in Hb. destruct Hb as (q & <- & Hq).
      apply (bin_facts J res q). eapply stars_ok_In; eassumption. }
  rewrite map_map.
  rewrite (map_ext_in _ (fun q => Some (q_n q * ms_of J res q))).
  2:{ intros q Hq. apply sb_Ms_mkb. eapply stars_ok_In; eassumption. }
  rewrite ototal_osumo, ototal_map_Some. reflexivity.
Qed.

Lemma rems_ok_In rems p : rems_ok rems -> In p rems ->
  0 <= fst p /\ 0 <= snd p /\ (0 < snd p -> 0 < fst p).
Proof. intros H Hp. unfold rems_ok in H. rewrite Forall_forall in H. exact (H p Hp). Qed.

Lemma rems_unpop rems p : rems_ok rems -> In p rems -> Rltb 0 (fst p) = false ->
  fst p = 0 /\ snd p = 0.
Proof.
  intros H Hp Hf. destruct (rems_ok_In rems p H Hp) as (H1 & H2 & H3).
  apply Rltb_false in Hf. split; [lra|].
  destruct (Rle_lt_or_eq_dec _ _ H2) as [Hlt|Heq]; [|symmetry; assumption].
  apply H3 in Hlt. lra.
Qed.

Ltac esc_pre J t tcc Ht :=
  unfold esc_field;
  change (@nltb R (R_ops J) t tcc) with (Rltb t tcc);
  rewrite (proj2 (Rltb_true t tcc) Ht);
  cbn [e_dNs e_dNr e_dMr e_dalpha];
  rewrite ?(mkb_eq J);
  cbn [nadd nsub nmul ndiv nltb nzero none R_ops].
Ltac esc_post J t tcc Ht :=
  unfold esc_field;
  change (@nltb R (R_ops J) t tcc) with (Rltb t tcc);
  rewrite (proj2 (Rltb_false t tcc) Ht);
  cbn [e_dNs e_dNr e_dMr e_dalpha];
  rewrite ?(mkb_eq J);
  cbn [nadd nsub nmul ndiv nltb nzero none R_ops].

Lemma Nsum_nonneg J res stars rems : stars_ok J res stars -> rems_ok rems ->
  0 <= sumR (map q_n stars) /\ 0 <= sumR (map fst rems).
Proof.
  intros Hs Hr; split; apply sumR_nonneg.
  - intros q Hq. pose proof (stars_ok_In J res stars q Hs Hq) as Hb.
    destruct q as [[[n al] lo] up]. destruct Hb as (Hn & _). exact Hn.
  - intros p Hp. apply (rems_ok_In rems p Hr Hp).
Qed.

Lemma esc_pre_N_sum : forall J res md rate tcc t stars rems, t < tcc ->
  stars_ok J res stars -> rems_ok rems ->
  sumR (map (fun q => fst (fst (fst q))) stars) + sumR (map fst rems) <> 0 ->
  let e := esc_field (O:=R_ops J) res md rate tcc t NormN stars rems in
  exists a b, ototal (e_dNs e) = Some a /\ ototal (e_dNr e) = Some b /\ a + b = rate.
Proof.
  intros J res md rate tcc t stars rems Ht Hs Hr Hnz e. subst e.
  change (Nsum stars rems <> 0) in Hnz.
  esc_pre J t tcc Ht.
  rewrite sbN_sum, !sum_plain_sumR. fold (Nsum stars rems).
  rewrite map_map.
  rewrite (map_ext _ (fun q => Some (rate * q_n q / Nsum stars rems))).
  2:{ intros q. rewrite sb_N_mkb, Rdiv_j_ok by exact Hnz. reflexivity. }
  rewrite (map_ext_in _ (fun p => Some (rate * fst p / Nsum stars rems))).
  2:{ intros p Hp. destruct (Rltb 0 (fst p)) eqn:E.
      - rewrite Rdiv_j_ok by exact Hnz. reflexivity.
      - destruct (rems_unpop rems p Hr Hp E) as [-> _]. f_equal. unfold Rdiv; ring. }
  rewrite !ototal_map_Some. do 2 eexists. split; [reflexivity|split; [reflexivity|]].
  rewrite !sumR_scale. unfold Nsum in *. field. exact Hnz.
Qed.

Lemma combine_map_self {A B} (f : A -> B) l : combine l (map f l) = map (fun x => (x, f x)) l.
Proof. induction l as [|x l IH]; simpl; [reflexivity|]. rewrite IH. reflexivity. Qed.

Lemma esc_pre_M_sum : forall J res md rate tcc t stars rems, t < tcc ->
  stars_ok J res stars -> rems_ok rems ->
  sumR (map (fun q => fst (fst (fst q)) * ms_of J res q) stars) + sumR (map snd rems) <> 0 ->
  let e := esc_field (O:=R_ops J) res md rate tcc t NormM stars rems in
  exists dNs b, e_dNs e = map Some dNs /\ ototal (e_dMr e) = Some b /\
    sumR (map (fun z => ms_of J res (fst z) * snd z) (combine stars dNs)) + b = rate.
Proof.
  intros J res md rate tcc t stars rems Ht Hs Hr Hnz e. subst e.
  change (Msum J res stars rems <> 0) in Hnz.
  esc_pre J t tcc Ht.
  rewrite (M_sum_eq J res stars rems Hs).
  cbn [odiv ndiv R_ops].
  rewrite map_map.
  exists (map (fun q => rate * q_n q / Msum J res stars rems) stars).
  exists (sumR (map (fun p => rate * snd p / Msum J res stars rems) rems)).
  split; [|split].
  - rewrite map_map. apply map_ext. intros q.
    rewrite sb_N_mkb, Rdiv_j_ok by exact Hnz. reflexivity.
  - rewrite <- ototal_map_Some. f_equal. apply map_ext_in. intros p Hp.
    destruct (Rltb 0 (fst p)) eqn:E.
    + rewrite Rdiv_j_ok by exact Hnz. reflexivity.
    + destruct (rems_unpop rems p Hr Hp E) as [_ ->]. f_equal. unfold Rdiv; ring.
  - rewrite combine_map_self, map_map. cbn [fst snd].
    rewrite (sumR_ext _ (fun q => rate * (q_n q * ms_of J res q) / Msum J res stars rems)).
    2:{ intros q _. unfold Rdiv; ring. }
    rewrite !sumR_scale.
    unfold Msum in *. field. exact Hnz.
Qed.

(* ------------------------------------------------------------------ *)
(* after core collapse *)

Lemma ototal_cons x l :
  ototal (x :: l) = match x, ototal l with Some a, Some b => Some (a + b) | _, _ => None end.
Proof. reflexivity. Qed.

Lemma post_dNs_total J md (Bv : R) (l : list (starbin (T:=R))) : forall d,
  ototal (map (sb_Is (O:=R_ops J) md) (filter (sb_depl (O:=R_ops J) md) l)) = Some d ->
  ototal (map (fun b => if sb_depl (O:=R_ops J) md b
                        then omul (O:=R_ops J) (Some Bv) (sb_Is (O:=R_ops J) md b)
                        else Some 0) l) = Some (Bv * d).
Proof.
  induction l as [|b l IH]; intros d Hd.
  - simpl in Hd |- *. inversion Hd; subst. f_equal; ring.
  - cbn [map filter] in Hd |- *. rewrite ototal_cons.
    destruct (sb_depl (O:=R_ops J) md b).
    + cbn [map] in Hd. rewrite ototal_cons in Hd.
      destruct (sb_Is (O:=R_ops J) md b) as [x|]; [|discriminate].
      destruct (ototal (map (sb_Is (O:=R_ops J) md) (filter (sb_depl (O:=R_ops J) md) l)))
        as [d'|] eqn:E; [|discriminate].
      inversion Hd; subst. rewrite (IH d' eq_refl). cbn [omul nmul R_ops]. f_equal; ring.
    + rewrite (IH d Hd). f_equal; ring.
Qed.

Lemma post_dNr_total J md (Bv : R) rems :
  ototal (map (fun p => if Rltb 0 (fst p)
                        then omul (O:=R_ops J) (Some Bv) (Some (rem_I (O:=R_ops J) md p))
                        else Some 0) rems)
  = Some (Bv * sumR (map (rem_I (O:=R_ops J) md) rems)).
Proof.
  induction rems as [|p l IH].
  - simpl. f_equal; ring.
  - cbn [map]. rewrite ototal_cons, IH. change (sumR (?x :: ?r)) with (x + sumR r).
    destruct (Rltb 0 (fst p)) eqn:E.
    + cbn [omul nmul R_ops]. f_equal; ring.
    + rewrite (rem_I_unpop J md p E). f_equal; ring.
Qed.

Lemma esc_post_N_sum : forall J res md rate tcc t stars rems, tcc <= t -> 0 < md ->
  stars_ok J res stars -> rems_ok rems ->
  let e := esc_field (O:=R_ops J) res md rate tcc t NormN stars rems in
  forall den, ototal (map (sb_Is (O:=R_ops J) md)
                 (filter (sb_depl (O:=R_ops J) md)
                    (map (fun q => let '(n, al, lo, up) := q in mk_starbin (O:=R_ops J) res n al lo up) stars)))
              = Some den ->
  den + sumR (map (rem_I (O:=R_ops J) md) rems) <> 0 ->
  exists a b, ototal (e_dNs e) = Some a /\ ototal (e_dNr e) = Some b /\ a + b = rate.
Proof.
  intros J res md rate tcc t stars rems Ht Hmd Hs Hr e den Hden Hnz. subst e.
  rewrite (mkb_eq J) in Hden.
  esc_post J t tcc Ht.
  rewrite ototal_osumo, Hden, sum_plain_sumR.
  cbn [oadd odiv nadd ndiv R_ops].
  rewrite Rdiv_j_ok by exact Hnz.
  set (Bv := rate / (den + sumR (map (rem_I (O:=R_ops J) md) rems))).
  rewrite (post_dNs_total J md Bv _ den Hden).
  rewrite (post_dNr_total J md Bv rems).
  do 2 eexists. split; [reflexivity|split; [reflexivity|]].
  unfold Bv. field. exact Hnz.
Qed.

Lemma sb_depl_heavy J res md q : bin_ok J res q -> md <= ms_of J res q ->
  sb_depl (O:=R_ops J) md (mkb J res q) = false.
Proof.
  intros Hb Hm. destruct (bin_facts J res q Hb) as [_ Hms].
  unfold sb_depl. rewrite Hms. cbn [nltb R_ops].
  rewrite (proj2 (Rltb_false _ _) Hm). reflexivity.
Qed.

Lemma esc_post_support : forall J res md rate tcc t nm stars rems i q, tcc <= t -> 0 < md ->
  stars_ok J res stars -> nth_error stars i = Some q -> md <= ms_of J res q ->
  let e := esc_field (O:=R_ops J) res md rate tcc t nm stars rems in
  nth_error (e_dNs e) i = Some (Some 0) /\ nth_error (e_dalpha e) i = Some (Some 0).
Proof.
  intros J res md rate tcc t nm stars rems i q Ht Hmd Hs Hq Hm e. subst e.
  assert (Hb : bin_ok J res q) by (eapply stars_ok_In; [exact Hs|eapply nth_error_In; exact Hq]).
  pose proof (sb_depl_heavy J res md q Hb Hm) as Hd.
  esc_post J t tcc Ht.
  split.
  - erewrite map_nth_error; [|apply map_nth_error; exact Hq]. rewrite Hd. reflexivity.
  - erewrite map_nth_error; [|apply map_nth_error; exact Hq]. rewrite Hd. reflexivity.
Qed.

Lemma esc_post_rem_mean : forall J res md rate tcc t nm stars rems i p dn dm, tcc <= t -> 0 < md ->
  rems_ok rems ->
  let e := esc_field (O:=R_ops J) res md rate tcc t nm stars rems in
  nth_error rems i = Some p -> nth_error (e_dNr e) i = Some (Some dn) ->
  nth_error (e_dMr e) i = Some (Some dm) -> dm * fst p = dn * snd p.
Proof.
  intros J res md rate tcc t nm stars rems i p dn dm Ht Hmd Hr e Hp. subst e.
  esc_post J t tcc Ht.
  rewrite !(map_nth_error _ i rems Hp).
  destruct (Rltb 0 (fst p)).
  - match goal with |- context [omul ?B _] => destruct B as [Bv|] end.
    + cbn [omul nmul R_ops]. intros H1 H2. inversion H1; inversion H2; subst.
      rewrite Rmult_assoc, rem_IJ. ring.
    + cbn [omul]. intros H1; discriminate H1.
  - intros H1 H2. inversion H1; inversion H2; subst. ring.
Qed.

(* ------------------------------------------------------------------ *)
(* before core collapse: uniform fractional loss.
   The statement of Properties/C03.v (C03_pre_uniform) has no hypothesis that the
   normalising sum is non-zero; it is then FALSE (see esc_pre_uniform_refuted
   below).  esc_pre_uniform_nz is the same statement with that hypothesis. *)

Lemma esc_pre_uniform_nz : forall J res md rate tcc t nm stars rems, t < tcc ->
  stars_ok J res stars -> rems_ok rems ->
  match nm with
  | NormN => sumR (map (fun q => fst (fst (fst q))) stars) + sumR (map fst rems) <> 0
  | NormM => sumR (map (fun q => fst (fst (fst q)) * ms_of J res q) stars) + sumR (map snd rems) <> 0
  end ->
  let e := esc_field (O:=R_ops J) res md rate tcc t nm stars rems in
  Forall (fun v => v = Some 0) (e_dalpha e) /\
  (exists frac : option R, forall i q, nth_error stars i = Some q ->
       nth_error (e_dNs e) i = Some (match frac with Some f => Some (f * fst (fst (fst q))) | None => None end)) /\
  (forall i p dn dm, nth_error rems i = Some p -> nth_error (e_dNr e) i = Some (Some dn) ->
       nth_error (e_dMr e) i = Some (Some dm) -> dm * fst p = dn * snd p).
Proof.
  intros J res md rate tcc t nm stars rems Ht Hs Hr Hnz e. subst e.
  destruct nm.
  - (* NormN *)
    change (Nsum stars rems <> 0) in Hnz.
    esc_pre J t tcc Ht.
    rewrite sbN_sum, !sum_plain_sumR. fold (Nsum stars rems).
    split; [|split].
    + apply Forall_forall. intros v Hv. apply in_map_iff in Hv. destruct Hv as (q & <- & _). reflexivity.
    + exists (Some (rate / Nsum stars rems)). intros i q Hq.
      erewrite map_nth_error; [|apply map_nth_error; exact Hq].
      rewrite sb_N_mkb, Rdiv_j_ok by exact Hnz. do 2 f_equal. unfold q_n, Rdiv; ring.
    + intros i p dn dm Hp. rewrite !(map_nth_error _ i rems Hp).
      destruct (Rltb_spec 0 (fst p)) as [Hpos|Hnp].
      * rewrite !Rdiv_j_ok by (try exact Hnz; lra).
        intros H1 H2. inversion H1; inversion H2; subst. field. split; [exact Hnz|lra].
      * intros H1 H2. inversion H1; inversion H2; subst. ring.
  - (* NormM *)
    change (Msum J res stars rems <> 0) in Hnz.
    esc_pre J t tcc Ht.
    rewrite (M_sum_eq J res stars rems Hs).
    cbn [odiv ndiv R_ops].
    split; [|split].
    + apply Forall_forall. intros v Hv. apply in_map_iff in Hv. destruct Hv as (q & <- & _). reflexivity.
    + exists (Some (rate / Msum J res stars rems)). intros i q Hq.
      erewrite map_nth_error; [|apply map_nth_error; exact Hq].
      rewrite sb_N_mkb, Rdiv_j_ok by exact Hnz. do 2 f_equal. unfold q_n, Rdiv; ring.
    + intros i p dn dm Hp. rewrite !(map_nth_error _ i rems Hp).
      destruct (Rltb_spec 0 (fst p)) as [Hpos|Hnp].
      * rewrite !Rdiv_j_ok by exact Hnz.
        intros H1 H2. inversion H1; inversion H2; subst. field. exact Hnz.
      * intros H1 H2. inversion H1; inversion H2; subst. ring.
Qed.

Lemma Rdiv_j_zero J x y : y = 0 -> Rdiv_j J x y = jdiv J x.
Proof. intros H. unfold Rdiv_j. rewrite (proj2 (Reqb_true y 0) H). reflexivity. Qed.

(* counter-example to the statement without the non-zero hypothesis: one empty star
   bin (N = 0), no remnants, normalisation 'N': the code computes 0/0 (NaN in numpy),
   which here is the arbitrary junk value jdiv J 0, chosen as 1. *)
Lemma esc_pre_uniform_refuted :
  ~ (forall J res md rate tcc t nm stars rems, t < tcc ->
       stars_ok J res stars -> rems_ok rems ->
       let e := esc_field (O:=R_ops J) res md rate tcc t nm stars rems in
       Forall (fun v => v = Some 0) (e_dalpha e) /\
       (exists frac : option R, forall i q, nth_error stars i = Some q ->
          nth_error (e_dNs e) i = Some (match frac with Some f => Some (f * fst (fst (fst q))) | None => None end)) /\
       (forall i p dn dm, nth_error rems i = Some p -> nth_error (e_dNr e) i = Some (Some dn) ->
          nth_error (e_dMr e) i = Some (Some dm) -> dm * fst p = dn * snd p)).
Proof.
  intros H.
  pose (J := mkJunk (fun _ => 1) (fun _ => 0) (fun _ _ => 0) (fun _ => 0) (fun _ => 0) 0).
  assert (Ht : 0 < 1) by lra.
  assert (Hs : stars_ok J 0 [(0, 0, 1, 2)]).
  { constructor; [|constructor].
    assert (HP : forall k, Pk (O:=R_ops J) 0 0 k 1 2 <> None).
    { intros k HN. apply Pk_none_iff in HN.
      pose proof (Pk_raw_pos J 0 k 1 2 ltac:(lra) ltac:(lra)). lra. }
    repeat split; try lra; apply HP. }
  assert (Hr : rems_ok []) by constructor.
  destruct (H J 0 1 1 1 0 NormN [(0, 0, 1, 2)] [] Ht Hs Hr) as (_ & (frac & Hf) & _).
  specialize (Hf 0%nat (0, 0, 1, 2) eq_refl). revert Hf.
  esc_pre J 0 1 Ht.
  rewrite sbN_sum, !sum_plain_sumR.
  cbn [map nth_error sumR fold_right q_n fst snd sb_N mkb mk_starbin].
  rewrite Rdiv_j_zero by ring. cbn [jdiv J].
  intros Hf. destruct frac as [f|]; inversion Hf. lra.
Qed.
