(* Proofs/PkProofs.v -- theorems about Model/Pk.v at the real instance.
   Every statement is universally quantified over the Junk record, so no
   step can rely on the value of x/0, ln of a non-positive number, etc. *)
From Coq Require Import List Bool Reals Lra.
From Coquelicot Require Import Coquelicot.
From Interval Require Import Tactic.
From SSP Require Import Num RFacts Model.Pk.
Import ListNotations.
Local Open Scope R_scope.

(* ------------------------------------------------------------------ *)
(* The junk-free integral  int_{m1}^{m2} m^(c-1) dm  on positive masses. *)

Definition Pint (c m1 m2 : R) : R :=
  if Req_EM_T c 0 then ln (m2 / m1) else (Rpower m2 c - Rpower m1 c) / c.

Lemma Rpower_pos x y : 0 < Rpower x y.
Proof. unfold Rpower; apply exp_pos. Qed.

Lemma Rpower_succ x c : 0 < x -> Rpower x (c + 1 - 1) = x * Rpower x (c - 1).
Proof.
  intros Hx. replace (c + 1 - 1) with ((c - 1) + 1) by ring.
  rewrite Rpower_plus, Rpower_1 by exact Hx. ring.
Qed.

Lemma Pint_same c m : 0 < m -> Pint c m m = 0.
Proof.
  intros Hm. unfold Pint. destruct (Req_EM_T c 0) as [Hc|Hc].
  - replace (m / m) with 1 by (field; lra). apply ln_1.
  - unfold Rdiv. ring.
Qed.

Lemma Pint_additive c m1 m2 m3 : 0 < m1 -> 0 < m2 -> 0 < m3 ->
  Pint c m1 m3 = Pint c m1 m2 + Pint c m2 m3.
Proof.
  intros H1 H2 H3. unfold Pint. destruct (Req_EM_T c 0) as [Hc|Hc].
  - rewrite <- ln_mult by (apply div_pos; assumption).
    f_equal. field. lra.
  - field. exact Hc.
Qed.

Lemma Pint_antisym c m1 m2 : 0 < m1 -> 0 < m2 -> Pint c m1 m2 = - Pint c m2 m1.
Proof.
  intros H1 H2. pose proof (Pint_additive c m1 m2 m1 H1 H2 H1) as H.
  rewrite Pint_same in H by exact H1. lra.
Qed.

Lemma Pint_deriv c m1 x : 0 < m1 -> 0 < x ->
  is_derive (fun y => Pint c m1 y) x (Rpower x (c - 1)).
Proof.
  intros H1 Hx. unfold Pint. destruct (Req_EM_T c 0) as [Hc|Hc].
  - subst c. auto_derive.
    + apply (div_pos x m1); assumption.
    + replace (0 - 1) with (- (1)) by ring.
      rewrite Rpower_Ropp, Rpower_1 by exact Hx. field. lra.
  - unfold Rpower. auto_derive.
    + exact Hx.
    + replace ((c - 1) * ln x) with (c * ln x + - ln x) by ring.
      rewrite exp_plus, exp_Ropp, exp_ln by exact Hx. field. lra.
Qed.

Lemma Rpower_continuous c x : 0 < x -> continuous (fun m => Rpower m c) x.
Proof.
  intros Hx. apply (ex_derive_continuous (fun m : R => Rpower m c)).
  unfold Rpower. auto_derive. exact Hx.
Qed.

Lemma Pint_is_RInt c m1 m2 : 0 < m1 -> m1 <= m2 ->
  is_RInt (fun m => Rpower m (c - 1)) m1 m2 (Pint c m1 m2).
Proof.
  intros H1 H12.
  replace (Pint c m1 m2) with (minus (Pint c m1 m2) (Pint c m1 m1)).
  2:{ rewrite Pint_same by exact H1. unfold minus, plus, opp; simpl. ring. }
  apply (is_RInt_derive (fun y => Pint c m1 y) (fun m => Rpower m (c - 1))).
  - intros x Hx. rewrite Rmin_left, Rmax_right in Hx by exact H12.
    apply Pint_deriv; lra.
  - intros x Hx. rewrite Rmin_left, Rmax_right in Hx by exact H12.
    apply Rpower_continuous; lra.
Qed.

(* strict monotonicity from a positive derivative in the interior *)
Lemma incr_strict (f f' : R -> R) a b : a < b ->
  (forall x, a <= x <= b -> is_derive f x (f' x)) ->
  (forall x, a < x < b -> 0 < f' x) -> f a < f b.
Proof.
  intros Hab Hd Hp.
  destruct (MVT_cor2 f f' a b Hab) as (c & Hc & Hin).
  - intros c Hc. apply is_derive_Reals. apply Hd. exact Hc.
  - specialize (Hp c Hin).
    assert (0 < f' c * (b - a)) by (apply Rmult_lt_0_compat; lra). lra.
Qed.

Lemma Pint_pos c m1 m2 : 0 < m1 -> m1 < m2 -> 0 < Pint c m1 m2.
Proof.
  intros H1 H12. rewrite <- (Pint_same c m1 H1).
  apply (incr_strict (fun y => Pint c m1 y) (fun x => Rpower x (c - 1))).
  - exact H12.
  - intros x Hx. apply Pint_deriv; lra.
  - intros x Hx. apply Rpower_pos.
Qed.

(* h_M(x) = P_{c+1}(M, x) - M * P_c(M, x) has derivative (x - M) x^(c-1) *)
Definition hM (c M x : R) : R := Pint (c + 1) M x - M * Pint c M x.

Lemma hM_same c M : 0 < M -> hM c M M = 0.
Proof. intros HM. unfold hM. rewrite !Pint_same by exact HM. ring. Qed.

Lemma hM_deriv c M x : 0 < M -> 0 < x ->
  is_derive (hM c M) x ((x - M) * Rpower x (c - 1)).
Proof.
  intros HM Hx.
  replace ((x - M) * Rpower x (c - 1))
    with (minus (Rpower x (c + 1 - 1)) (scal M (Rpower x (c - 1)))).
  2:{ rewrite Rpower_succ by exact Hx.
      unfold minus, plus, opp, scal; simpl. unfold mult; simpl. ring. }
  unfold hM.
  apply (is_derive_minus (fun x => Pint (c + 1) M x) (fun x => M * Pint c M x)).
  - apply Pint_deriv; assumption.
  - apply (is_derive_scal (fun x => Pint c M x)). apply Pint_deriv; assumption.
Qed.

Lemma Pint_bracket c m1 m2 : 0 < m1 -> m1 < m2 ->
  m1 * Pint c m1 m2 < Pint (c + 1) m1 m2 /\ Pint (c + 1) m1 m2 < m2 * Pint c m1 m2.
Proof.
  intros H1 H12. split.
  - assert (H : hM c m1 m1 < hM c m1 m2).
    { apply (incr_strict (hM c m1) (fun x => (x - m1) * Rpower x (c - 1))).
      - exact H12.
      - intros x Hx. apply hM_deriv; lra.
      - intros x Hx. apply Rmult_lt_0_compat; [lra|apply Rpower_pos]. }
    rewrite hM_same in H by exact H1. unfold hM in H. lra.
  - assert (H : - hM c m2 m1 < - hM c m2 m2).
    { apply (incr_strict (fun x => - hM c m2 x)
               (fun x => - ((x - m2) * Rpower x (c - 1)))).
      - exact H12.
      - intros x Hx. apply (is_derive_opp (hM c m2)). apply hM_deriv; lra.
      - intros x Hx.
        replace (- ((x - m2) * Rpower x (c - 1))) with ((m2 - x) * Rpower x (c - 1)) by ring.
        apply Rmult_lt_0_compat; [lra|apply Rpower_pos]. }
    rewrite hM_same in H by lra. unfold hM in H.
    rewrite (Pint_antisym (c + 1) m2 m1), (Pint_antisym c m2 m1) in H by lra. lra.
Qed.

(* ------------------------------------------------------------------ *)
(* The model at the real instance. *)

Section PkR.
  Variable J : Junk.
  Local Instance OR : NumOps R := R_ops J.

  (* unfolding lemmas *)
  Lemma Pk_raw_unfold a k m1 m2 :
    Pk_raw a k m1 m2 =
      if Reqb (- a) k then Rln_j J (Rdiv_j J m2 m1)
      else Rdiv_j J (Rpow_j J m2 (a + k) - Rpow_j J m1 (a + k)) (a + k).
  Proof. reflexivity. Qed.

  Lemma Pk_unfold res a k m1 m2 :
    Pk res a k m1 m2 =
      if Rltb (Pk_raw a k m1 m2) res then None else Some (Pk_raw a k m1 m2).
  Proof. reflexivity. Qed.

  Lemma Pk_raw_Pint a k m1 m2 : 0 < m1 -> 0 < m2 ->
    Pk_raw a k m1 m2 = Pint (a + k) m1 m2.
  Proof.
    intros H1 H2. rewrite Pk_raw_unfold. unfold Pint.
    destruct (Reqb_spec (- a) k) as [He|He]; destruct (Req_EM_T (a + k) 0) as [Hc|Hc];
      try (exfalso; lra).
    - rewrite Rdiv_j_ok by lra. rewrite Rln_j_ok by (apply div_pos; assumption).
      reflexivity.
    - rewrite !Rpow_j_ok by assumption. rewrite Rdiv_j_ok by exact Hc. reflexivity.
  Qed.

  Lemma Pk_raw_log_branch_s a k m1 m2 :
    a + k = 0 -> Pk_raw a k m1 m2 = Pk_log m1 m2.
  Proof.
    intros H. rewrite Pk_raw_unfold.
    destruct (Reqb_spec (- a) k) as [He|He]; [reflexivity|exfalso; lra].
  Qed.

  Lemma Pk_none_iff_s res a k m1 m2 :
    Pk res a k m1 m2 = None <-> Pk_raw a k m1 m2 < res.
  Proof.
    rewrite Pk_unfold. destruct (Rltb_spec (Pk_raw a k m1 m2) res) as [H|H]; split;
      intros H'; try reflexivity; try assumption; try discriminate; contradiction.
  Qed.

  Lemma Pk_some_s res a k m1 m2 r :
    Pk res a k m1 m2 = Some r -> r = Pk_raw a k m1 m2 /\ res <= r.
  Proof.
    rewrite Pk_unfold. destruct (Rltb_spec (Pk_raw a k m1 m2) res) as [H|H];
      intros H'; [discriminate|].
    injection H' as <-. split; [reflexivity|]. apply Rnot_lt_le. exact H.
  Qed.

  Lemma Pk_arr_pointwise_s res k a : forall m1 m2 i,
    nth_error (Pk_arr res k a m1 m2) i =
    match nth_error a i, nth_error m1 i, nth_error m2 i with
    | Some x, Some y, Some z => Some (Pk res x k y z)
    | _, _, _ => None
    end.
  Proof.
    induction a as [|x a' IH]; intros m1 m2 i.
    - simpl. destruct i; reflexivity.
    - destruct m1 as [|y m1']; [|destruct m2 as [|z m2']].
      + simpl. destruct i as [|i]; simpl; [reflexivity|].
        destruct (nth_error a' i); reflexivity.
      + simpl. destruct i as [|i]; simpl; [reflexivity|].
        destruct (nth_error a' i); [|reflexivity].
        destruct (nth_error m1' i); reflexivity.
      + destruct i as [|i]; simpl; [reflexivity|]. apply IH.
  Qed.

  Lemma Pk_raw_deriv_upper_s a k m1 x : 0 < m1 -> 0 < x ->
    is_derive (fun y => Pk_raw a k m1 y) x (Rpower x (a + k - 1)).
  Proof.
    intros H1 Hx.
    apply (is_derive_ext_loc (fun y => Pint (a + k) m1 y)).
    - exists (mkposreal x Hx). intros y Hy.
      unfold ball in Hy; simpl in Hy. unfold AbsRing_ball, abs, minus, plus, opp in Hy;
        simpl in Hy.
      symmetry. apply Pk_raw_Pint; [exact H1|].
      apply Rabs_def2 in Hy. lra.
    - apply Pint_deriv; assumption.
  Qed.

  Lemma Pk_raw_is_RInt_s a k m1 m2 : 0 < m1 -> m1 <= m2 ->
    is_RInt (fun m => Rpower m (a + k - 1)) m1 m2 (Pk_raw a k m1 m2).
  Proof.
    intros H1 H12. rewrite Pk_raw_Pint by lra. apply Pint_is_RInt; assumption.
  Qed.

  Lemma Pk_raw_pos_s a k m1 m2 : 0 < m1 -> m1 < m2 -> 0 < Pk_raw a k m1 m2.
  Proof.
    intros H1 H12. rewrite Pk_raw_Pint by lra. apply Pint_pos; assumption.
  Qed.

  Lemma Pk_raw_additive_s a k m1 m2 m3 : 0 < m1 -> m1 <= m2 -> m2 <= m3 ->
    Pk_raw a k m1 m3 = Pk_raw a k m1 m2 + Pk_raw a k m2 m3.
  Proof.
    intros H1 H12 H23. rewrite !Pk_raw_Pint by lra. apply Pint_additive; lra.
  Qed.

  Lemma Pk_raw_moment_bracket_s a k m1 m2 : 0 < m1 -> m1 < m2 ->
    m1 * Pk_raw a k m1 m2 < Pk_raw a (k + 1) m1 m2
    /\ Pk_raw a (k + 1) m1 m2 < m2 * Pk_raw a k m1 m2.
  Proof.
    intros H1 H12. rewrite !Pk_raw_Pint by lra.
    replace (a + (k + 1)) with (a + k + 1) by ring.
    apply Pint_bracket; assumption.
  Qed.

  Lemma Pk_mean_mass_in_bin_s a m1 m2 : 0 < m1 -> m1 < m2 ->
    m1 < Pk_raw a 2 m1 m2 / Pk_raw a 1 m1 m2 < m2.
  Proof.
    intros H1 H12.
    destruct (Pk_raw_moment_bracket_s a 1 m1 m2 H1 H12) as [Hlo Hhi].
    replace (1 + 1) with 2 in Hlo, Hhi by ring.
    pose proof (Pk_raw_pos_s a 1 m1 m2 H1 H12) as Hp.
    split.
    - apply lt_div_iff; assumption.
    - apply div_lt_iff; assumption.
  Qed.

  Lemma Pk_degenerate_none_s res a k m1 m2 : 0 < res -> 0 < m2 -> m2 <= m1 ->
    Pk res a k m1 m2 = None.
  Proof.
    intros Hres H2 H21. apply Pk_none_iff_s.
    rewrite Pk_raw_Pint by lra.
    destruct (Rle_lt_or_eq_dec m2 m1 H21) as [Hlt|Heq].
    - rewrite Pint_antisym by lra.
      pose proof (Pint_pos (a + k) m2 m1 H2 Hlt). lra.
    - subst m2. rewrite Pint_same by exact H2. exact Hres.
  Qed.

  Lemma Pk_abs_threshold_refuted_s : exists a k m1 m2,
    -6 <= a <= 4 /\ k = 1 /\ 1/1000 <= m1 /\ m1 < m2 /\ m2 <= 1000 /\
    0 < Pk_raw a k m1 m2 /\
    Pk (1/1000000000000000) a k m1 m2 = None.
  Proof.
    exists (-6), 1, 900, 1000.
    split; [lra|]. split; [reflexivity|]. split; [lra|]. split; [lra|]. split; [lra|].
    split.
    - apply Pk_raw_pos_s; lra.
    - apply Pk_none_iff_s. rewrite Pk_raw_Pint by lra. unfold Pint.
      destruct (Req_EM_T (-6 + 1) 0) as [Hc|Hc]; [exfalso; lra|].
      apply Rminus_gt_0_lt. interval with (i_prec 80).
  Qed.
End PkR.

(* ------------------------------------------------------------------ *)
(* Exported statements, exactly as used by Properties/C12.v. *)

Lemma Pk_raw_is_RInt : forall J a k m1 m2, 0 < m1 -> m1 <= m2 ->
  is_RInt (fun m => Rpower m (a + k - 1)) m1 m2 (Pk_raw (O:=R_ops J) a k m1 m2).
Proof. exact Pk_raw_is_RInt_s. Qed.

Lemma Pk_raw_log_branch : forall J a k m1 m2,
  a + k = 0 -> Pk_raw (O:=R_ops J) a k m1 m2 = Pk_log (O:=R_ops J) m1 m2.
Proof. exact Pk_raw_log_branch_s. Qed.

Lemma Pk_raw_pos : forall J a k m1 m2, 0 < m1 -> m1 < m2 ->
  0 < Pk_raw (O:=R_ops J) a k m1 m2.
Proof. exact Pk_raw_pos_s. Qed.

Lemma Pk_raw_additive : forall J a k m1 m2 m3, 0 < m1 -> m1 <= m2 -> m2 <= m3 ->
  Pk_raw (O:=R_ops J) a k m1 m3 = Pk_raw (O:=R_ops J) a k m1 m2 + Pk_raw (O:=R_ops J) a k m2 m3.
Proof. exact Pk_raw_additive_s. Qed.

Lemma Pk_raw_moment_bracket : forall J a k m1 m2, 0 < m1 -> m1 < m2 ->
  m1 * Pk_raw (O:=R_ops J) a k m1 m2 < Pk_raw (O:=R_ops J) a (k + 1) m1 m2
  /\ Pk_raw (O:=R_ops J) a (k + 1) m1 m2 < m2 * Pk_raw (O:=R_ops J) a k m1 m2.
Proof. exact Pk_raw_moment_bracket_s. Qed.

Lemma Pk_mean_mass_in_bin : forall J a m1 m2, 0 < m1 -> m1 < m2 ->
  m1 < Pk_raw (O:=R_ops J) a 2 m1 m2 / Pk_raw (O:=R_ops J) a 1 m1 m2 < m2.
Proof. exact Pk_mean_mass_in_bin_s. Qed.

Lemma Pk_raw_deriv_upper : forall J a k m1 x, 0 < m1 -> 0 < x ->
  is_derive (fun y => Pk_raw (O:=R_ops J) a k m1 y) x (Rpower x (a + k - 1)).
Proof. exact Pk_raw_deriv_upper_s. Qed.

Lemma Pk_none_iff : forall J res a k m1 m2,
  Pk (O:=R_ops J) res a k m1 m2 = None <-> Pk_raw (O:=R_ops J) a k m1 m2 < res.
Proof. exact Pk_none_iff_s. Qed.

Lemma Pk_some : forall J res a k m1 m2 r,
  Pk (O:=R_ops J) res a k m1 m2 = Some r -> r = Pk_raw (O:=R_ops J) a k m1 m2 /\ res <= r.
Proof. exact Pk_some_s. Qed.

Lemma Pk_degenerate_none : forall J res a k m1 m2, 0 < res -> 0 < m2 -> m2 <= m1 ->
  Pk (O:=R_ops J) res a k m1 m2 = None.
Proof. exact Pk_degenerate_none_s. Qed.

Lemma Pk_arr_pointwise : forall J res k a m1 m2 i,
  nth_error (Pk_arr (O:=R_ops J) res k a m1 m2) i =
  match nth_error a i, nth_error m1 i, nth_error m2 i with
  | Some x, Some y, Some z => Some (Pk (O:=R_ops J) res x k y z)
  | _, _, _ => None
  end.
Proof. exact Pk_arr_pointwise_s. Qed.

Lemma Pk_abs_threshold_refuted : forall J, exists a k m1 m2,
  -6 <= a <= 4 /\ k = 1 /\ 1/1000 <= m1 /\ m1 < m2 /\ m2 <= 1000 /\
  0 < Pk_raw (O:=R_ops J) a k m1 m2 /\
  Pk (O:=R_ops J) (1/1000000000000000) a k m1 m2 = None.
Proof. exact Pk_abs_threshold_refuted_s. Qed.
