(* Proofs/EscProofs4.v -- theorems about Model/Esc.v at the real instance used by
   Properties/C03c.v: normalisation 'M' after core collapse, the mass weight Js as
   an integral, and the slope equation.  Every statement is universally quantified
   over the Junk record, so no step can rely on the value of x/0. *)
From Coq Require Import List Bool Reals Lra.
From Coquelicot Require Import Coquelicot.
From SSP Require Import Num RFacts Model.Pk Model.Esc Model.EscSpec
  Proofs.PkProofs Proofs.EscProofs Proofs.EscProofs2.
Import ListNotations.
Local Open Scope R_scope.

(* ------------------------------------------------------------------ *)
(* constants *)

Lemma ntwo_eq J : ntwo (O:=R_ops J) = 2.
Proof. unfold ntwo. cbn [nadd none R_ops]. lra. Qed.

Lemma five_halves_eq J : five_halves (O:=R_ops J) = 5 / 2.
Proof.
  unfold five_halves, ntwo. cbn [nadd ndiv none R_ops]. rewrite Rdiv_j_ok by lra. lra.
Qed.

(* ------------------------------------------------------------------ *)
(* normalisation 'M' after core collapse *)

Lemma rem_J_unpop J md p : Rltb 0 (fst p) = false -> rem_J (O:=R_ops J) md p = 0.
Proof. destruct p as [n m]; simpl fst; intros H. rewrite rem_J_unfold, H. reflexivity. Qed.

Lemma post_dMr_total J md (Bv : R) rems :
  ototal (map (fun p => if Rltb 0 (fst p)
                        then omul (O:=R_ops J) (Some Bv) (Some (rem_J (O:=R_ops J) md p))
                        else Some 0) rems)
  = Some (Bv * sumR (map (rem_J (O:=R_ops J) md) rems)).
Proof.
  induction rems as [|p l IH].
  - simpl. f_equal; ring.
  - cbn [map]. rewrite ototal_cons, IH. change (sumR (?x :: ?r)) with (x + sumR r).
    destruct (Rltb 0 (fst p)) eqn:E.
    + cbn [omul nmul R_ops]. f_equal; ring.
    + rewrite (rem_J_unpop J md p E). f_equal; ring.
Qed.

Lemma nth_error_map_inv {A B} (f : A -> B) l i b :
  nth_error (map f l) i = Some b -> exists a, nth_error l i = Some a /\ b = f a.
Proof.
  revert i. induction l as [|x l IH]; intros i H.
  - destruct i; discriminate H.
  - destruct i as [|i]; simpl in H.
    + inversion H; subst. exists x. split; reflexivity.
    + apply IH in H. exact H.
Qed.

Lemma esc_post_M_norm : forall J res md rate tcc t stars rems, tcc <= t -> 0 < md ->
  stars_ok J res stars -> rems_ok rems ->
  let sb := map (fun q => let '(n, al, lo, up) := q in mk_starbin (O:=R_ops J) res n al lo up) stars in
  let e := esc_field (O:=R_ops J) res md rate tcc t NormM stars rems in
  forall den, ototal (map (sb_Js (O:=R_ops J) md) (filter (sb_depl (O:=R_ops J) md) sb)) = Some den ->
  den + sumR (map (rem_J (O:=R_ops J) md) rems) <> 0 ->
  exists B, B * den + B * sumR (map (rem_J (O:=R_ops J) md) rems) = rate /\
    (forall i b, nth_error sb i = Some b -> sb_depl (O:=R_ops J) md b = true ->
       exists w, sb_Is (O:=R_ops J) md b = Some w /\ nth_error (e_dNs e) i = Some (Some (B * w))) /\
    ototal (e_dNr e) = Some (B * sumR (map (rem_I (O:=R_ops J) md) rems)) /\
    ototal (e_dMr e) = Some (B * sumR (map (rem_J (O:=R_ops J) md) rems)).
Proof.
  intros J res md rate tcc t stars rems Ht Hmd Hs Hr sb e den Hden Hnz. subst sb e.
  rewrite (mkb_eq J) in Hden |- *.
  esc_post J t tcc Ht.
  rewrite ototal_osumo, Hden, sum_plain_sumR.
  cbn [oadd odiv nadd ndiv R_ops].
  rewrite Rdiv_j_ok by exact Hnz.
  set (Bv := rate / (den + sumR (map (rem_J (O:=R_ops J) md) rems))).
  exists Bv. split; [|split; [|split]].
  - unfold Bv. field. exact Hnz.
  - intros i b Hb Hd.
    destruct (nth_error_map_inv _ _ _ _ Hb) as (q & Hq & Hbq).
    pose proof (stars_ok_In J res stars q Hs (nth_error_In _ _ Hq)) as Hok.
    rewrite (map_nth_error _ i _ Hb). rewrite Hd. subst b.
    destruct q as [[[n al] lo] up].
    destruct Hok as (_ & _ & _ & H1 & H15 & _).
    change (mkb J res (n, al, lo, up)) with (mk_starbin (O:=R_ops J) res n al lo up).
    rewrite (sb_Is_some J res md n al lo up H1 H15).
    eexists. split; [reflexivity|]. reflexivity.
  - apply post_dNr_total.
  - apply post_dMr_total.
Qed.

(* ------------------------------------------------------------------ *)
(* Js is the integral of m * (the bin's power law) * (1 - sqrt (m / md)) *)

Lemma sb_Js_mk J res md n al lo up :
  sb_Js (O:=R_ops J) md (mk_starbin (O:=R_ops J) res n al lo up) =
  omul (O:=R_ops J)
    (omul (O:=R_ops J) (Some n)
       (odiv (O:=R_ops J) (Pk (O:=R_ops J) res al (ntwo (O:=R_ops J)) lo up)
                          (Pk (O:=R_ops J) res al 1 lo up)))
    (osub (O:=R_ops J) (Some 1)
       (omul (O:=R_ops J) (Some (Rpow_j J md (- nhalf (O:=R_ops J))))
          (odiv (O:=R_ops J) (Pk (O:=R_ops J) res al (five_halves (O:=R_ops J)) lo up)
                             (Pk (O:=R_ops J) res al (ntwo (O:=R_ops J)) lo up)))).
Proof. reflexivity. Qed.

Lemma sb_Js_some J res md n al lo up :
  Pk (O:=R_ops J) res al 1 lo up <> None ->
  Pk (O:=R_ops J) res al (ntwo (O:=R_ops J)) lo up <> None ->
  Pk (O:=R_ops J) res al (five_halves (O:=R_ops J)) lo up <> None ->
  sb_Js (O:=R_ops J) md (mk_starbin (O:=R_ops J) res n al lo up) =
  Some (n * Rdiv_j J (Pk_raw (O:=R_ops J) al (ntwo (O:=R_ops J)) lo up)
                     (Pk_raw (O:=R_ops J) al 1 lo up)
        * (1 - Rpow_j J md (- nhalf (O:=R_ops J)) *
                 Rdiv_j J (Pk_raw (O:=R_ops J) al (five_halves (O:=R_ops J)) lo up)
                          (Pk_raw (O:=R_ops J) al (ntwo (O:=R_ops J)) lo up))).
Proof.
  intros H1 H2 H25. apply Pk_some_raw in H1. apply Pk_some_raw in H2. apply Pk_some_raw in H25.
  rewrite sb_Js_mk, H1, H2, H25. reflexivity.
Qed.

Lemma integrand_J_eq md al x c : 0 < md -> 0 < x ->
  c * (Rpower x (al + 2 - 1) - Rpower md (- (1 / 2)) * Rpower x (al + 5 / 2 - 1))
  = c * (x * Rpower x al) * (1 - sqrt (x / md)).
Proof.
  intros Hmd Hx.
  replace (al + 2 - 1) with (al + 1) by ring.
  replace (al + 5 / 2 - 1) with (al + 1 + / 2) by lra.
  replace (1 / 2) with (/ 2) by lra.
  rewrite !Rpower_plus, Rpower_Ropp, !Rpower_sqrt, Rpower_1 by assumption.
  rewrite sqrt_div_alt by exact Hmd.
  unfold Rdiv. ring.
Qed.

Lemma Js_is_integral : forall J res md n al lo up v, 0 < md -> 0 < lo -> lo < up ->
  List.Forall (fun k => Pk (O:=R_ops J) res al k lo up <> None)
              [1; ntwo (O:=R_ops J); five_halves (O:=R_ops J)] ->
  sb_Js (O:=R_ops J) md (mk_starbin (O:=R_ops J) res n al lo up) = Some v ->
  is_RInt (fun m => n / Pk_raw (O:=R_ops J) al 1 lo up * (m * Rpower m al) * (1 - sqrt (m / md))) lo up v.
Proof.
  intros J res md n al lo up v Hmd Hlo Hup HF Hv.
  pose proof (Forall_inv HF) as H1. cbv beta in H1.
  pose proof (Forall_inv (Forall_inv_tail HF)) as H2. cbv beta in H2.
  pose proof (Forall_inv (Forall_inv_tail (Forall_inv_tail HF))) as H25. cbv beta in H25.
  rewrite (sb_Js_some J res md n al lo up H1 H2 H25) in Hv.
  rewrite nhalf_eq, ntwo_eq, five_halves_eq in Hv.
  assert (HP1 : 0 < Pk_raw (O:=R_ops J) al 1 lo up) by (apply Pk_raw_pos; assumption).
  assert (HP2 : 0 < Pk_raw (O:=R_ops J) al 2 lo up) by (apply Pk_raw_pos; assumption).
  rewrite Rpow_j_ok in Hv by exact Hmd.
  rewrite !Rdiv_j_ok in Hv by lra.
  injection Hv as Hv. subst v.
  set (P1 := Pk_raw (O:=R_ops J) al 1 lo up) in *.
  set (P2 := Pk_raw (O:=R_ops J) al 2 lo up) in *.
  set (P25 := Pk_raw (O:=R_ops J) al (5 / 2) lo up).
  set (c := Rpower md (- (1 / 2))).
  assert (HI : is_RInt (fun m => scal (n / P1) (minus (Rpower m (al + 2 - 1))
                                                   (scal c (Rpower m (al + 5 / 2 - 1)))))
                 lo up (scal (n / P1) (minus P2 (scal c P25)))).
  { apply (is_RInt_scal (V:=R_NormedModule)).
    apply (is_RInt_minus (V:=R_NormedModule)).
    - apply Pk_raw_is_RInt; lra.
    - apply (is_RInt_scal (V:=R_NormedModule)). apply Pk_raw_is_RInt; lra. }
  replace (n * (P2 / P1) * (1 - c * (P25 / P2))) with (scal (n / P1) (minus P2 (scal c P25))).
  2:{ unfold scal, minus, plus, opp; simpl. unfold mult; simpl. field. lra. }
  apply (is_RInt_ext (V:=R_NormedModule)) with (2 := HI).
  intros x Hx. rewrite Rmin_left, Rmax_right in Hx by lra.
  unfold scal, minus, plus, opp; simpl. unfold mult; simpl.
  change (Rpower x (al + 2 - 1) + - (c * Rpower x (al + 5 / 2 - 1)))
    with (Rpower x (al + 2 - 1) - c * Rpower x (al + 5 / 2 - 1)).
  unfold c. apply integrand_J_eq; lra.
Qed.

(* ------------------------------------------------------------------ *)
(* the slope equation *)

Lemma dalpha_val J res md n al lo up Bv : 0 < md -> 0 < lo -> lo < up ->
  odiv (O:=R_ops J)
    (omul (O:=R_ops J) (Some Bv)
       (Some (@npow R (R_ops J) (@ndiv R (R_ops J) (sb_lo (mk_starbin (O:=R_ops J) res n al lo up)) md) (nhalf (O:=R_ops J)) -
              @npow R (R_ops J) (@ndiv R (R_ops J) (sb_up (mk_starbin (O:=R_ops J) res n al lo up)) md) (nhalf (O:=R_ops J)))))
    (Some (@nln R (R_ops J) (@ndiv R (R_ops J) (sb_up (mk_starbin (O:=R_ops J) res n al lo up))
                                                (sb_lo (mk_starbin (O:=R_ops J) res n al lo up)))))
  = Some ((Bv * (1 - sqrt (up / md)) - Bv * (1 - sqrt (lo / md))) / ln (up / lo)).
Proof.
  intros Hmd Hlo Hup.
  cbn [sb_lo sb_up mk_starbin omul odiv nmul ndiv nsub npow nln R_ops].
  rewrite nhalf_eq.
  rewrite !(Rdiv_j_ok J _ md) by lra.
  rewrite (Rdiv_j_ok J up lo) by lra.
  assert (H1 : 0 < lo / md) by (apply div_pos; lra).
  assert (H2 : 0 < up / md) by (apply div_pos; lra).
  assert (H3 : 1 < up / lo).
  { apply (Rmult_lt_reg_r lo); [exact Hlo|]. unfold Rdiv. rewrite Rmult_assoc, Rinv_l by lra. lra. }
  rewrite !Rpow_j_ok by assumption.
  rewrite Rln_j_ok by lra.
  assert (H4 : 0 < ln (up / lo)) by (rewrite <- ln_1; apply ln_increasing; lra).
  rewrite Rdiv_j_ok by lra.
  replace (1 / 2) with (/ 2) by lra.
  rewrite !Rpower_sqrt by assumption.
  f_equal. unfold Rdiv. ring.
Qed.

Lemma esc_post_dalpha : forall J res md rate tcc t nm stars rems i n al lo up Bv, tcc <= t -> 0 < md ->
  stars_ok J res stars -> nth_error stars i = Some (n, al, lo, up) ->
  sb_depl (O:=R_ops J) md (mk_starbin (O:=R_ops J) res n al lo up) = true ->
  let sb := map (fun q => let '(n, al, lo, up) := q in mk_starbin (O:=R_ops J) res n al lo up) stars in
  let e := esc_field (O:=R_ops J) res md rate tcc t nm stars rems in
  (match nm with
   | NormM => odiv (O:=R_ops J) (Some rate) (oadd (O:=R_ops J) (osumo (O:=R_ops J) (map (sb_Js (O:=R_ops J) md) (filter (sb_depl (O:=R_ops J) md) sb)))
                                 (Some (sum_plain (O:=R_ops J) (map (rem_J (O:=R_ops J) md) rems))))
   | NormN => odiv (O:=R_ops J) (Some rate) (oadd (O:=R_ops J) (osumo (O:=R_ops J) (map (sb_Is (O:=R_ops J) md) (filter (sb_depl (O:=R_ops J) md) sb)))
                                 (Some (sum_plain (O:=R_ops J) (map (rem_I (O:=R_ops J) md) rems))))
   end) = Some Bv ->
  nth_error (e_dalpha e) i =
    Some (Some ((Bv * (1 - sqrt (up / md)) - Bv * (1 - sqrt (lo / md))) / ln (up / lo))).
Proof.
  intros J res md rate tcc t nm stars rems i n al lo up Bv Ht Hmd Hs Hq Hd sb e HB. subst sb e.
  pose proof (stars_ok_In J res stars _ Hs (nth_error_In _ _ Hq)) as Hok.
  destruct Hok as (_ & Hlo & Hup & _).
  unfold esc_field.
  change (@nltb R (R_ops J) t tcc) with (Rltb t tcc).
  rewrite (proj2 (Rltb_false t tcc) Ht).
  cbn [e_dalpha].
  rewrite (map_nth_error _ i _ (map_nth_error _ i _ Hq)).
  cbv beta iota. rewrite Hd.
  destruct nm; rewrite HB; f_equal; apply dalpha_val; assumption.
Qed.

