(* Machine-checked witnesses, on the binary64 instance of the models (the very definitions the
   correspondence checks run against the code), for open known findings that had none:
     C06 duplicate_age_row_uninitialised, C13 wd_bin_degenerate_edge_at_wd_max. *)
From Coq Require Import List Bool PrimFloat.
From SSP Require Import Num FloatFun Model.Bins Model.Evolve.
Import ListNotations.

(* C06: a schedule that names one age twice fills only the first of the two rows
   (flow: the state is replaced by the target age; extract: the pair (row index, state)) *)
Definition dup_rows : list (option (nat * float)) :=
  evolve_rows (O:=F_ops) float (nat * float) (fun a b y => b) (fun i t y => (i, y))
              [10%float; 100%float] [3000%float; 3000%float; 12000%float] 0%float.
Lemma duplicate_age_row_refuted :
  match dup_rows with
  | [Some (0%nat, _); None; Some (2%nat, _)] => True
  | _ => False
  end.
Proof. vm_compute. exact I. Qed.

(* C13: a stellar bin edge exactly at the maximum WD mass gives a last WD bin of zero width *)
Definition deg_ms : list (float * float) := [(0x1p-3, 1); (1, 2); (2, 4)]%float.
Definition deg_wd_up : float := 1%float.
Definition deg_zero : float := 0%float.
Lemma wd_bin_degenerate_refuted :
  match carve_WD (O:=F_ops) deg_ms deg_wd_up with
  | Ok wd => match last wd (deg_zero, deg_zero) with (lo, up) => PrimFloat.eqb lo up = true /\ length wd = 2%nat end
  | Err _ => False
  end.
Proof. vm_compute. split; reflexivity. Qed.
