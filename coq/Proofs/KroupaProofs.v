(* Proofs/KroupaProofs.v -- theorems about Model/Kroupa.v at the real instance
   (statements used by Properties/C20.v).  Every statement is universally
   quantified over the Junk record. *)
From Coq Require Import List Bool Reals Lra Arith Sorted Lia.
From Coquelicot Require Import Coquelicot.
From SSP Require Import Num RFacts Model.Pk Model.Kroupa Model.KroupaSpec Proofs.PkProofs.
Import ListNotations.
Local Open Scope R_scope.

(* ------------------------------------------------------------------ *)
(* small real facts *)

Lemma exp_le_mono x y : x <= y -> exp x <= exp y.
Proof.
  intros [H|H]; [left; apply exp_increasing; exact H|subst; apply Rle_refl].
Qed.

Lemma ln_le_mono x y : 0 < x -> x <= y -> ln x <= ln y.
Proof.
  intros Hx [H|H]; [left; apply ln_increasing; assumption|subst; apply Rle_refl].
Qed.

Lemma ln_Rpower x c : ln (Rpower x c) = c * ln x.
Proof. unfold Rpower. apply ln_exp. Qed.

Lemma Rpower_inv_base x c : 0 < x -> Rpower (1 / x) c * Rpower x c = 1.
Proof.
  intros Hx. unfold Rpower.
  replace (1 / x) with (/ x) by (field; lra).
  rewrite ln_Rinv by exact Hx. rewrite <- exp_plus.
  replace (c * - ln x + c * ln x) with 0 by ring. apply exp_0.
Qed.

Lemma Rpower_div_base x y c : 0 < x -> 0 < y ->
  Rpower (x / y) c = Rpower (1 / y) c * Rpower x c.
Proof.
  intros Hx Hy. unfold Rpower.
  replace (1 / y) with (/ y) by (field; lra).
  unfold Rdiv. rewrite ln_mult by (try apply Rinv_0_lt_compat; assumption).
  rewrite <- exp_plus. f_equal. ring.
Qed.

(* ------------------------------------------------------------------ *)
(* moments *)

Lemma mom0_unfold J xmin xmax a :
  mom0 (O:=R_ops J) xmin xmax a =
  if Reqb a 1 then Rln_j J xmax - Rln_j J xmin
  else Rdiv_j J (Rpow_j J xmax (1 - a) - Rpow_j J xmin (1 - a)) (1 - a).
Proof. reflexivity. Qed.

Lemma mom1_unfold J xmin xmax a :
  mom1 (O:=R_ops J) xmin xmax a =
  if Reqb a (1 + 1) then Rln_j J xmax - Rln_j J xmin
  else Rdiv_j J (Rpow_j J xmax (1 + 1 - a) - Rpow_j J xmin (1 + 1 - a)) (1 + 1 - a).
Proof. reflexivity. Qed.

Lemma ln_div_pos x y : 0 < x -> 0 < y -> ln (y / x) = ln y - ln x.
Proof.
  intros Hx Hy. unfold Rdiv. rewrite ln_mult by (try apply Rinv_0_lt_compat; assumption).
  rewrite ln_Rinv by exact Hx. ring.
Qed.

Lemma mom0_Pint J xmin xmax a : 0 < xmin -> 0 < xmax ->
  mom0 (O:=R_ops J) xmin xmax a = Pint (1 - a) xmin xmax.
Proof.
  intros H1 H2. rewrite mom0_unfold. unfold Pint.
  destruct (Reqb_spec a 1) as [Ha|Ha]; destruct (Req_EM_T (1 - a) 0) as [Hc|Hc];
    try (exfalso; lra).
  - rewrite !Rln_j_ok by assumption. symmetry. apply ln_div_pos; assumption.
  - rewrite Rdiv_j_ok by exact Hc. rewrite !Rpow_j_ok by assumption. reflexivity.
Qed.

Lemma mom1_Pint J xmin xmax a : 0 < xmin -> 0 < xmax ->
  mom1 (O:=R_ops J) xmin xmax a = Pint (1 + 1 - a) xmin xmax.
Proof.
  intros H1 H2. rewrite mom1_unfold. unfold Pint.
  destruct (Reqb_spec a (1 + 1)) as [Ha|Ha]; destruct (Req_EM_T (1 + 1 - a) 0) as [Hc|Hc];
    try (exfalso; lra).
  - rewrite !Rln_j_ok by assumption. symmetry. apply ln_div_pos; assumption.
  - rewrite Rdiv_j_ok by exact Hc. rewrite !Rpow_j_ok by assumption. reflexivity.
Qed.

(* bridge to the already verified masses.Pk *)
Lemma mom0_Pk_raw J xmin xmax a : 0 < xmin -> 0 < xmax ->
  mom0 (O:=R_ops J) xmin xmax a = Pk_raw (O:=R_ops J) (- a) 1 xmin xmax.
Proof.
  intros H1 H2. rewrite mom0_Pint by assumption.
  rewrite Pk_raw_Pint by assumption. f_equal. ring.
Qed.

Lemma mom1_Pk_raw J xmin xmax a : 0 < xmin -> 0 < xmax ->
  mom1 (O:=R_ops J) xmin xmax a = Pk_raw (O:=R_ops J) (- a) (1 + 1) xmin xmax.
Proof.
  intros H1 H2. rewrite mom1_Pint by assumption.
  rewrite Pk_raw_Pint by assumption. f_equal. ring.
Qed.

Lemma mom0_is_integral : forall J xmin xmax a, 0 < xmin -> xmin <= xmax ->
  is_RInt (fun x => Rpower x (- a)) xmin xmax (mom0 (O:=R_ops J) xmin xmax a).
Proof.
  intros J xmin xmax a H1 H12. rewrite mom0_Pint by lra.
  apply (is_RInt_ext (fun m => Rpower m (1 - a - 1))).
  - intros x _. f_equal. ring.
  - apply Pint_is_RInt; assumption.
Qed.

Lemma mom1_is_integral : forall J xmin xmax a, 0 < xmin -> xmin <= xmax ->
  is_RInt (fun x => x * Rpower x (- a)) xmin xmax (mom1 (O:=R_ops J) xmin xmax a).
Proof.
  intros J xmin xmax a H1 H12. rewrite mom1_Pint by lra.
  apply (is_RInt_ext (fun m => Rpower m (1 + 1 - a - 1))).
  - intros x Hx. rewrite Rmin_left in Hx by exact H12.
    replace (1 + 1 - a - 1) with (1 + - a) by ring.
    rewrite Rpower_plus, Rpower_1 by lra. reflexivity.
  - apply Pint_is_RInt; assumption.
Qed.

Lemma mom0_pos : forall J xmin xmax a, 0 < xmin -> xmin < xmax -> 0 < mom0 (O:=R_ops J) xmin xmax a.
Proof.
  intros J xmin xmax a H1 H12. rewrite mom0_Pint by lra. apply Pint_pos; assumption.
Qed.

(* ------------------------------------------------------------------ *)
(* list facts *)

Definition prodR (l : list R) : R := fold_right Rmult 1 l.

Lemma fold_left_mul_prodR l x : fold_left Rmult l x = x * prodR l.
Proof.
  revert x. induction l as [|y l IH]; intros x; simpl.
  - ring.
  - rewrite IH. ring.
Qed.

Lemma prodR_app l1 l2 : prodR (l1 ++ l2) = prodR l1 * prodR l2.
Proof.
  induction l1 as [|y l IH]; simpl.
  - ring.
  - rewrite IH. ring.
Qed.

Lemma prodR_pos l : List.Forall (fun x => 0 < x) l -> 0 < prodR l.
Proof.
  induction 1 as [|y l Hy Hl IH]; simpl.
  - lra.
  - apply Rmult_lt_0_compat; assumption.
Qed.

Lemma fold_left_add_sumR l x : fold_left Rplus l x = x + sumR l.
Proof.
  revert x. induction l as [|y l IH]; intros x; simpl.
  - ring.
  - rewrite IH. ring.
Qed.

Lemma sumR_scal {A} k (f : A -> R) l :
  sumR (map (fun i => k * f i) l) = k * sumR (map f l).
Proof.
  induction l as [|y l IH]; simpl.
  - ring.
  - rewrite IH. ring.
Qed.

Lemma sumR_nonneg {A} (f : A -> R) l :
  (forall i, In i l -> 0 < f i) -> 0 <= sumR (map f l).
Proof.
  induction l as [|y l IH]; intros H; simpl.
  - lra.
  - assert (0 < f y) by (apply H; left; reflexivity).
    assert (0 <= sumR (map f l)) by (apply IH; intros i Hi; apply H; right; exact Hi).
    lra.
Qed.

Lemma sumR_pos {A} (f : A -> R) l : l <> [] ->
  (forall i, In i l -> 0 < f i) -> 0 < sumR (map f l).
Proof.
  destruct l as [|y l]; intros Hne H; [contradiction|]. simpl.
  assert (0 < f y) by (apply H; left; reflexivity).
  assert (0 <= sumR (map f l)) by (apply sumR_nonneg; intros i Hi; apply H; right; exact Hi).
  lra.
Qed.

Lemma combine_map_map {A B C} (f : A -> B) (g : A -> C) l :
  combine (map f l) (map g l) = map (fun i => (f i, g i)) l.
Proof. induction l as [|y l IH]; simpl; [reflexivity|rewrite IH; reflexivity]. Qed.

Lemma SS_nth_lt l : StronglySorted Rlt l ->
  forall i, (S i < length l)%nat -> nth i l 0 < nth (S i) l 0.
Proof.
  induction 1 as [|x l Hs IH Hf]; intros i Hi; simpl in Hi.
  - lia.
  - destruct i as [|i].
    + simpl. rewrite Forall_forall in Hf. apply Hf.
      destruct l as [|y l]; simpl in *; [lia|left; reflexivity].
    + change (nth i l 0 < nth (S i) l 0). apply IH. lia.
Qed.

(* ------------------------------------------------------------------ *)
(* consequences of valid_kroupa *)

Lemma valid_pos a mlim i : valid_kroupa a mlim -> (i <= length a)%nat -> 0 < nth i mlim 0.
Proof.
  intros (Hlen & _ & _ & Hp) Hi. rewrite Forall_forall in Hp.
  apply Hp. apply nth_In. lia.
Qed.

Lemma valid_lt a mlim i : valid_kroupa a mlim -> (i < length a)%nat ->
  nth i mlim 0 < nth (S i) mlim 0.
Proof.
  intros (Hlen & _ & Hs & _) Hi. apply SS_nth_lt; [exact Hs|lia].
Qed.

(* ------------------------------------------------------------------ *)
(* continuity constants *)

Definition ratio_j J (a mlim : list R) (j : nat) : R :=
  Rpow_j J (Rdiv_j J (nth (S j) mlim 0) (nth j mlim 0)) (- nth j a 0).
Definition ratio (a mlim : list R) (j : nat) : R :=
  Rpower (nth (S j) mlim 0 / nth j mlim 0) (- nth j a 0).

Lemma ratios_map J a mlim n j :
  ratios (O:=R_ops J) a mlim n j = map (ratio_j J a mlim) (seq j n).
Proof.
  revert j. induction n as [|n IH]; intros j; simpl.
  - reflexivity.
  - rewrite IH. reflexivity.
Qed.

Lemma ratio_j_ok J a mlim j : valid_kroupa a mlim -> (j < length a)%nat ->
  ratio_j J a mlim j = ratio a mlim j.
Proof.
  intros Hv Hj. unfold ratio_j, ratio.
  pose proof (valid_pos a mlim j Hv ltac:(lia)) as H1.
  pose proof (valid_pos a mlim (S j) Hv ltac:(lia)) as H2.
  rewrite Rdiv_j_ok by lra. rewrite Rpow_j_ok by (apply div_pos; assumption).
  reflexivity.
Qed.

Lemma ratios_ok J a mlim n j : valid_kroupa a mlim -> (j + n <= length a)%nat ->
  ratios (O:=R_ops J) a mlim n j = map (ratio a mlim) (seq j n).
Proof.
  intros Hv Hn. rewrite ratios_map. apply map_ext_in.
  intros i Hi. apply in_seq in Hi. apply ratio_j_ok; [exact Hv|lia].
Qed.

Lemma Cconst_unfold0 J a mlim :
  Cconst (O:=R_ops J) a mlim 0 = Rpow_j J (Rdiv_j J 1 (nth 1 mlim 0)) (- nth 0 a 0).
Proof. reflexivity. Qed.

Lemma Cconst_unfoldS J a mlim i :
  Cconst (O:=R_ops J) a mlim (S i) =
  fold_left Rmult (ratios (O:=R_ops J) a mlim i 1)
    (Rpow_j J (Rdiv_j J 1 (nth (S i) mlim 0)) (- nth (S i) a 0)).
Proof.
  destruct i as [|i].
  - reflexivity.
  - reflexivity.
Qed.

Lemma Cconst_0 J a mlim : valid_kroupa a mlim ->
  Cconst (O:=R_ops J) a mlim 0 = Rpower (1 / nth 1 mlim 0) (- nth 0 a 0).
Proof.
  intros Hv. rewrite Cconst_unfold0.
  pose proof Hv as (_ & H2 & _).
  pose proof (valid_pos a mlim 1 Hv ltac:(lia)) as H1.
  rewrite Rdiv_j_ok by lra. rewrite Rpow_j_ok by (apply div_pos; lra). reflexivity.
Qed.

Lemma Cconst_S J a mlim i : valid_kroupa a mlim -> (S i < length a)%nat ->
  Cconst (O:=R_ops J) a mlim (S i) =
  Rpower (1 / nth (S i) mlim 0) (- nth (S i) a 0) * prodR (map (ratio a mlim) (seq 1 i)).
Proof.
  intros Hv Hi. rewrite Cconst_unfoldS.
  pose proof (valid_pos a mlim (S i) Hv ltac:(lia)) as H1.
  rewrite Rdiv_j_ok by lra. rewrite Rpow_j_ok by (apply div_pos; lra).
  rewrite ratios_ok by (try exact Hv; lia).
  apply fold_left_mul_prodR.
Qed.

Lemma kroupa_C_pos : forall J a mlim i, valid_kroupa a mlim -> (i < length a)%nat ->
  0 < Cconst (O:=R_ops J) a mlim i.
Proof.
  intros J a mlim i Hv Hi. destruct i as [|i].
  - rewrite Cconst_0 by exact Hv. apply Rpower_pos.
  - rewrite Cconst_S by assumption.
    apply Rmult_lt_0_compat; [apply Rpower_pos|].
    apply prodR_pos. apply Forall_forall. intros x Hx.
    apply in_map_iff in Hx. destruct Hx as (j & <- & _). apply Rpower_pos.
Qed.

Lemma kroupa_continuous : forall J a mlim i, valid_kroupa a mlim -> (S i < length a)%nat ->
  Cconst (O:=R_ops J) a mlim i * Rpower (nth (S i) mlim 0) (- nth i a 0) =
  Cconst (O:=R_ops J) a mlim (S i) * Rpower (nth (S i) mlim 0) (- nth (S i) a 0).
Proof.
  intros J a mlim i Hv Hi.
  pose proof (valid_pos a mlim (S i) Hv ltac:(lia)) as HSi.
  rewrite (Cconst_S J a mlim i Hv Hi).
  destruct i as [|i].
  - rewrite Cconst_0 by exact Hv. cbn [seq map prodR fold_right].
    rewrite Rpower_inv_base by exact HSi.
    rewrite Rmult_1_r, Rpower_inv_base by exact HSi. reflexivity.
  - pose proof (valid_pos a mlim (S i) Hv ltac:(lia)) as Hi1.
    rewrite Cconst_S by (try exact Hv; lia).
    rewrite seq_S, map_app, prodR_app. cbn [map prodR fold_right Nat.add].
    change (ratio a mlim (S i)) with (Rpower (nth (S (S i)) mlim 0 / nth (S i) mlim 0) (- nth (S i) a 0)).
    rewrite (Rpower_div_base (nth (S (S i)) mlim 0) (nth (S i) mlim 0)) by assumption.
    set (P := prodR (map (ratio a mlim) (seq 1 i))).
    set (u := Rpower (1 / nth (S i) mlim 0) (- nth (S i) a 0)).
    set (w := Rpower (nth (S (S i)) mlim 0) (- nth (S i) a 0)).
    transitivity (u * w * P * (Rpower (1 / nth (S (S i)) mlim 0) (- nth (S (S i)) a 0)
                     * Rpower (nth (S (S i)) mlim 0) (- nth (S (S i)) a 0))).
    + rewrite Rpower_inv_base by exact HSi. ring.
    + ring.
Qed.

(* ------------------------------------------------------------------ *)
(* normalisation *)

Definition Ssum J (a mlim : list R) : R :=
  sumR (map (fun i => mom0 (O:=R_ops J) (nth i mlim 0) (nth (S i) mlim 0) (nth i a 0)
                      * Cconst (O:=R_ops J) a mlim i) (seq 0 (length a))).

Lemma knorm_unfold J a mlim :
  knorm (O:=R_ops J) a mlim = Rdiv_j J 1 (Ssum J a mlim).
Proof.
  unfold knorm, sumT, areas, Cs, Ssum.
  rewrite combine_map_map, map_map.
  change (@nadd R (R_ops J)) with Rplus. change (@nzero R (R_ops J)) with 0.
  rewrite fold_left_add_sumR, Rplus_0_l. reflexivity.
Qed.

Lemma Ssum_pos J a mlim : valid_kroupa a mlim -> 0 < Ssum J a mlim.
Proof.
  intros Hv. unfold Ssum. apply sumR_pos.
  - pose proof Hv as (_ & H2 & _). destruct (length a); [lia|discriminate].
  - intros i Hi. apply in_seq in Hi. apply Rmult_lt_0_compat.
    + apply mom0_pos; [apply (valid_pos a mlim i Hv); lia|apply (valid_lt a mlim i Hv); lia].
    + apply kroupa_C_pos; [exact Hv|lia].
Qed.

Lemma knorm_eq J a mlim : valid_kroupa a mlim ->
  knorm (O:=R_ops J) a mlim = 1 / Ssum J a mlim.
Proof.
  intros Hv. rewrite knorm_unfold. pose proof (Ssum_pos J a mlim Hv).
  apply Rdiv_j_ok. lra.
Qed.

Lemma knorm_pos J a mlim : valid_kroupa a mlim -> 0 < knorm (O:=R_ops J) a mlim.
Proof.
  intros Hv. rewrite knorm_eq by exact Hv. apply div_pos; [lra|apply Ssum_pos; exact Hv].
Qed.

Lemma kroupa_normalised : forall J a mlim, valid_kroupa a mlim ->
  0 < knorm (O:=R_ops J) a mlim /\
  sumR (map (fun i => knorm (O:=R_ops J) a mlim * Cconst (O:=R_ops J) a mlim i *
                      mom0 (O:=R_ops J) (nth i mlim 0) (nth (S i) mlim 0) (nth i a 0))
            (seq 0 (length a))) = 1.
Proof.
  intros J a mlim Hv. split; [apply knorm_pos; exact Hv|].
  rewrite (map_ext _ (fun i => knorm (O:=R_ops J) a mlim *
     (mom0 (O:=R_ops J) (nth i mlim 0) (nth (S i) mlim 0) (nth i a 0) * Cconst (O:=R_ops J) a mlim i)))
    by (intros i; ring).
  rewrite sumR_scal. fold (Ssum J a mlim).
  rewrite knorm_eq by exact Hv. pose proof (Ssum_pos J a mlim Hv). field. lra.
Qed.

Lemma kroupa_nonneg : forall J a mlim N0 x v, valid_kroupa a mlim -> 0 <= N0 -> 0 < x ->
  keval (O:=R_ops J) a mlim N0 x = Some v -> 0 <= v.
Proof.
  intros J a mlim N0 x v Hv HN Hx. unfold keval.
  destruct (piece_of mlim x 0) as [i|]; [|discriminate].
  destruct (Nat.ltb_spec i (length a)) as [Hi|Hi]; [|discriminate].
  intros Hs. injection Hs as <-.
  change (0 <= N0 * knorm (O:=R_ops J) a mlim * Cconst (O:=R_ops J) a mlim i
               * Rpow_j J x (- nth i a 0)).
  rewrite Rpow_j_ok by exact Hx.
  pose proof (knorm_pos J a mlim Hv) as Hk.
  pose proof (kroupa_C_pos J a mlim i Hv Hi) as Hc.
  pose proof (Rpower_pos x (- nth i a 0)) as Hp.
  apply Rmult_le_pos; [apply Rmult_le_pos; [apply Rmult_le_pos|]|]; lra.
Qed.

Lemma kint_piece_spec : forall J a mlim i xmin xmax,
  kint_piece (O:=R_ops J) a mlim i xmin xmax =
  (knorm (O:=R_ops J) a mlim * Cconst (O:=R_ops J) a mlim i * mom0 (O:=R_ops J) xmin xmax (nth i a 0),
   knorm (O:=R_ops J) a mlim * Cconst (O:=R_ops J) a mlim i * mom1 (O:=R_ops J) xmin xmax (nth i a 0)).
Proof. reflexivity. Qed.

(* ------------------------------------------------------------------ *)
(* the single-piece sampler *)

Lemma getmass_unfold J x slope xmin xmax :
  getmass (O:=R_ops J) x slope xmin xmax =
  if Reqb slope 1 then xmin * Rpow_j J (Rdiv_j J xmax xmin) x
  else Rpow_j J ((1 - slope) * x *
                   (Rdiv_j J 1 (1 - slope) *
                     (Rpow_j J xmax (1 - slope) - Rpow_j J xmin (1 - slope)))
                 + Rpow_j J xmin (1 - slope))
                (Rdiv_j J 1 (1 - slope)).
Proof. reflexivity. Qed.

Lemma getmass_in_limits : forall J x slope xmin xmax, 0 < xmin -> xmin < xmax -> 0 <= x <= 1 ->
  xmin <= getmass (O:=R_ops J) x slope xmin xmax <= xmax.
Proof.
  intros J x slope xmin xmax H1 H12 Hx. rewrite getmass_unfold.
  assert (H2 : 0 < xmax) by lra.
  destruct (Reqb_spec slope 1) as [Hs|Hs].
  - rewrite Rdiv_j_ok by lra.
    assert (Hr : 1 <= xmax / xmin) by (apply le_div_iff; lra).
    rewrite Rpow_j_ok by lra.
    pose proof (Rle_Rpower (xmax / xmin) 0 x Hr ltac:(lra)) as Hlo.
    pose proof (Rle_Rpower (xmax / xmin) x 1 Hr ltac:(lra)) as Hhi.
    rewrite Rpower_O in Hlo by lra. rewrite Rpower_1 in Hhi by lra.
    split.
    + replace xmin with (xmin * 1) at 1 by ring.
      apply Rmult_le_compat_l; lra.
    + replace xmax with (xmin * (xmax / xmin)) at 2 by (field; lra).
      apply Rmult_le_compat_l; lra.
  - set (p := 1 - slope). assert (Hp : p <> 0) by (unfold p; lra).
    rewrite !Rdiv_j_ok by exact Hp. rewrite !(Rpow_j_ok J xmax), !(Rpow_j_ok J xmin) by assumption.
    set (u := Rpower xmin p). set (w := Rpower xmax p).
    replace (p * x * (1 / p * (w - u)) + u) with ((1 - x) * u + x * w) by (field; exact Hp).
    set (inner := (1 - x) * u + x * w).
    assert (Hu : 0 < u) by apply Rpower_pos.
    assert (Hw : 0 < w) by apply Rpower_pos.
    assert (Hlnu : ln u = p * ln xmin) by apply ln_Rpower.
    assert (Hlnw : ln w = p * ln xmax) by apply ln_Rpower.
    assert (Hln12 : ln xmin < ln xmax) by (apply ln_increasing; assumption).
    assert (Hinner : 0 < inner).
    { unfold inner. destruct (Req_dec x 0) as [Hx0|Hx0].
      - subst x. lra.
      - assert (0 < x * w) by (apply Rmult_lt_0_compat; lra).
        assert (0 <= (1 - x) * u) by (apply Rmult_le_pos; lra). lra. }
    rewrite Rpow_j_ok by exact Hinner.
    assert (Hgoal : ln xmin <= 1 / p * ln inner <= ln xmax).
    { destruct (Rlt_or_le 0 p) as [Hpos|Hneg].
      - (* p > 0: u < w *)
        assert (Huw : u < w).
        { apply ln_lt_inv; try assumption. rewrite Hlnu, Hlnw.
          apply Rmult_lt_compat_l; assumption. }
        assert (Hb : u <= inner <= w) by (unfold inner; split; nra).
        assert (Hl1 : ln u <= ln inner) by (apply ln_le_mono; lra).
        assert (Hl2 : ln inner <= ln w) by (apply ln_le_mono; lra).
        rewrite Hlnu in Hl1. rewrite Hlnw in Hl2.
        replace (1 / p * ln inner) with (ln inner / p) by (field; exact Hp).
        split; [apply le_div_iff|apply div_le_iff]; lra.
      - (* p < 0: w < u *)
        assert (Hpn : p < 0) by lra.
        assert (Huw : w < u).
        { apply ln_lt_inv; try assumption. rewrite Hlnu, Hlnw.
          assert (0 < (- p) * (ln xmax - ln xmin)) by (apply Rmult_lt_0_compat; lra).
          lra. }
        assert (Hb : w <= inner <= u) by (unfold inner; split; nra).
        assert (Hl1 : ln w <= ln inner) by (apply ln_le_mono; lra).
        assert (Hl2 : ln inner <= ln u) by (apply ln_le_mono; lra).
        rewrite Hlnw in Hl1. rewrite Hlnu in Hl2.
        replace (1 / p * ln inner) with ((- ln inner) / (- p)) by (field; exact Hp).
        split; [apply le_div_iff|apply div_le_iff]; lra. }
    unfold Rpower.
    split.
    + apply Rle_trans with (exp (ln xmin)).
      * rewrite exp_ln by exact H1. apply Rle_refl.
      * apply exp_le_mono; lra.
    + apply Rle_trans with (exp (ln xmax)).
      * apply exp_le_mono; lra.
      * rewrite exp_ln by exact H2. apply Rle_refl.
Qed.
