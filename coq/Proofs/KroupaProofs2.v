(* Proofs/KroupaProofs2.v -- the multi-piece branch of Kroupa.integral (Model/Kroupa.v,
   kintegral, imin <> imax): additivity of the moment helpers over adjacent sub-ranges,
   the accumulator loop as a pair of sums over the pieces, and every term of that sum as
   the integral of the scaled piece density over the clipped sub-range. *)
From Coq Require Import List Bool Reals Lra Arith Sorted Lia.
From Coquelicot Require Import Coquelicot.
From SSP Require Import Num RFacts Model.Pk Model.Kroupa Model.KroupaSpec Proofs.PkProofs Proofs.KroupaProofs.
Import ListNotations.
Local Open Scope R_scope.

(* the moments are additive over adjacent sub-ranges, for every exponent (log cases included) *)
Lemma mom0_additive : forall J x y z a, 0 < x -> 0 < y -> 0 < z ->
  mom0 (O:=R_ops J) x z a = mom0 (O:=R_ops J) x y a + mom0 (O:=R_ops J) y z a.
Proof. intros J x y z a Hx Hy Hz. rewrite !mom0_Pint by assumption. apply Pint_additive; assumption. Qed.

Lemma mom1_additive : forall J x y z a, 0 < x -> 0 < y -> 0 < z ->
  mom1 (O:=R_ops J) x z a = mom1 (O:=R_ops J) x y a + mom1 (O:=R_ops J) y z a.
Proof. intros J x y z a Hx Hy Hz. rewrite !mom1_Pint by assumption. apply Pint_additive; assumption. Qed.

(* hence integral() inside one piece is additive: splitting a sub-range changes nothing *)
Lemma kint_piece_additive : forall J a mlim i x y z, 0 < x -> 0 < y -> 0 < z ->
  kint_piece (O:=R_ops J) a mlim i x z =
  (fst (kint_piece (O:=R_ops J) a mlim i x y) + fst (kint_piece (O:=R_ops J) a mlim i y z),
   snd (kint_piece (O:=R_ops J) a mlim i x y) + snd (kint_piece (O:=R_ops J) a mlim i y z)).
Proof.
  intros J a mlim i x y z Hx Hy Hz. rewrite !kint_piece_spec. cbn [fst snd].
  rewrite (mom0_additive J x y z) by assumption. rewrite (mom1_additive J x y z) by assumption.
  f_equal; ring.
Qed.

(* the loop of the multi-piece branch: the accumulator after visiting the pieces in l *)
Definition kint_loop J (a mlim : list R) (xmin xmax : R) (l : list nat) (acc : R * R) : R * R :=
  fold_left (fun acc i =>
               let XMIN := nmax (O:=R_ops J) (nth i mlim 0) xmin in
               let XMAX := nmin (O:=R_ops J) (nth (S i) mlim 0) xmax in
               let p := kint_piece (O:=R_ops J) a mlim i XMIN XMAX in
               (fst acc + fst p, snd acc + snd p)) l acc.

Definition clip_lo J (mlim : list R) xmin i := nmax (O:=R_ops J) (nth i mlim 0) xmin.
Definition clip_hi J (mlim : list R) xmax i := nmin (O:=R_ops J) (nth (S i) mlim 0) xmax.

Lemma kint_loop_acc J a mlim xmin xmax l : forall acc,
  kint_loop J a mlim xmin xmax l acc =
  (fst acc + sumR (map (fun i => fst (kint_piece (O:=R_ops J) a mlim i (clip_lo J mlim xmin i) (clip_hi J mlim xmax i))) l),
   snd acc + sumR (map (fun i => snd (kint_piece (O:=R_ops J) a mlim i (clip_lo J mlim xmin i) (clip_hi J mlim xmax i))) l)).
Proof.
  induction l as [|i l IH]; intros [a0 a1]; unfold kint_loop, sumR in *; cbn [fold_left map fold_right fst snd].
  - f_equal; ring.
  - rewrite IH. cbn [fst snd]. unfold clip_lo, clip_hi. f_equal; ring.
Qed.

(* integral(xmin, xmax) across several pieces = the sum over the visited pieces of the
   one-piece moments over the sub-range clipped to that piece *)
Lemma kint_loop_spec : forall J a mlim xmin xmax imin n,
  kint_loop J a mlim xmin xmax (seq imin n) (0, 0) =
  (sumR (map (fun i => knorm (O:=R_ops J) a mlim * Cconst (O:=R_ops J) a mlim i *
                       mom0 (O:=R_ops J) (clip_lo J mlim xmin i) (clip_hi J mlim xmax i) (nth i a 0)) (seq imin n)),
   sumR (map (fun i => knorm (O:=R_ops J) a mlim * Cconst (O:=R_ops J) a mlim i *
                       mom1 (O:=R_ops J) (clip_lo J mlim xmin i) (clip_hi J mlim xmax i) (nth i a 0)) (seq imin n))).
Proof.
  intros. rewrite kint_loop_acc. cbn [fst snd]. f_equal; rewrite Rplus_0_l; reflexivity.
Qed.

(* the model's kintegral takes exactly this loop in its multi-piece branch *)
Lemma kintegral_multi_is_loop : forall J a mlim xmin xmax imin imax,
  nth 0 mlim 0 <= xmin -> xmax <= last mlim 0 ->
  last_ge1 (O:=R_ops J) mlim xmin 0 None = Some imin ->
  (if Reqb xmax (last mlim 0) then Some (length mlim - 1)%nat else first_lt1 (O:=R_ops J) mlim xmax 0) = Some imax ->
  imin <> imax ->
  kintegral (O:=R_ops J) a mlim xmin xmax = Ok (kint_loop J a mlim xmin xmax (seq imin (imax - imin)) (0, 0)).
Proof.
  intros J a mlim xmin xmax imin imax H1 H2 Hmin Hmax Hne. unfold kintegral.
  change (@nzero R (R_ops J)) with 0. change (@nltb R (R_ops J)) with Rltb. change (@neqb R (R_ops J)) with Reqb.
  replace (Rltb xmin (nth 0 mlim 0)) with false by (symmetry; apply Rltb_false; exact H1).
  replace (Rltb (last mlim 0) xmax) with false by (symmetry; apply Rltb_false; exact H2).
  rewrite Hmin, Hmax.
  apply Nat.eqb_neq in Hne. rewrite Hne. reflexivity.
Qed.

(* each term of the sum is the integral of the scaled density of ITS piece over the clipped range *)
Lemma kint_term_is_integral : forall J a mlim i lo hi, 0 < lo -> lo <= hi ->
  is_RInt (fun x => knorm (O:=R_ops J) a mlim * Cconst (O:=R_ops J) a mlim i * Rpower x (- nth i a 0)) lo hi
          (fst (kint_piece (O:=R_ops J) a mlim i lo hi)) /\
  is_RInt (fun x => knorm (O:=R_ops J) a mlim * Cconst (O:=R_ops J) a mlim i * (x * Rpower x (- nth i a 0))) lo hi
          (snd (kint_piece (O:=R_ops J) a mlim i lo hi)).
Proof.
  intros J a mlim i lo hi Hlo Hle. rewrite kint_piece_spec. cbn [fst snd]. split.
  - apply (is_RInt_scal (fun x => Rpower x (- nth i a 0)) lo hi
             (knorm (O:=R_ops J) a mlim * Cconst (O:=R_ops J) a mlim i)).
    apply mom0_is_integral; assumption.
  - apply (is_RInt_scal (fun x => x * Rpower x (- nth i a 0)) lo hi
             (knorm (O:=R_ops J) a mlim * Cconst (O:=R_ops J) a mlim i)).
    apply mom1_is_integral; assumption.
Qed.

(* ------------------------------------------------------------------ *)
(* integral() over the WHOLE domain: the loop visits every piece with its own limits, and the
   zeroth moment it returns is exactly one -- integral() agrees with the normalisation of eval() *)

Lemma SS_nth_le_gen l : StronglySorted Rlt l ->
  forall i j, (i <= j)%nat -> (j < length l)%nat -> nth i l 0 <= nth j l 0.
Proof.
  intros Hs i j Hij Hj. induction j as [|j IH].
  - assert (i = 0)%nat by lia. subst. lra.
  - destruct (Nat.eq_dec i (S j)) as [->|Hne]; [lra|].
    assert (nth i l 0 <= nth j l 0) by (apply IH; lia).
    pose proof (SS_nth_lt l Hs j Hj). lra.
Qed.

Lemma last_nth (l : list R) : last l 0 = nth (length l - 1) l 0.
Proof.
  induction l as [|x l IH]; [reflexivity|].
  destruct l as [|y l]; [reflexivity|].
  change (last (x :: y :: l) 0) with (last (y :: l) 0). rewrite IH.
  cbn [length]. replace (S (S (length l)) - 1)%nat with (S (length l - 0))%nat by lia.
  cbn [nth]. replace (S (length l) - 1)%nat with (length l - 0)%nat by lia. reflexivity.
Qed.

Lemma clip_full J a mlim i : valid_kroupa a mlim -> (i < length a)%nat ->
  clip_lo J mlim (nth 0 mlim 0) i = nth i mlim 0 /\
  clip_hi J mlim (last mlim 0) i = nth (S i) mlim 0.
Proof.
  intros Hv Hi. pose proof Hv as (Hlen & _ & Hs & _).
  unfold clip_lo, clip_hi, nmax, nmin.
  change (@nltb R (R_ops J)) with Rltb. split.
  - replace (Rltb (nth i mlim 0) (nth 0 mlim 0)) with false; [reflexivity|].
    symmetry. apply Rltb_false. apply SS_nth_le_gen; [exact Hs|lia|lia].
  - replace (Rltb (last mlim 0) (nth (S i) mlim 0)) with false; [reflexivity|].
    symmetry. apply Rltb_false. rewrite last_nth. apply SS_nth_le_gen; [exact Hs|lia|lia].
Qed.

Lemma kint_full_range : forall J a mlim, valid_kroupa a mlim ->
  fst (kint_loop J a mlim (nth 0 mlim 0) (last mlim 0) (seq 0 (length a)) (0, 0)) = 1.
Proof.
  intros J a mlim Hv. rewrite kint_loop_spec. cbn [fst].
  destruct (kroupa_normalised J a mlim Hv) as [_ Hn]. rewrite <- Hn.
  f_equal. apply map_ext_in. intros i Hin. apply in_seq in Hin.
  destruct (clip_full J a mlim i Hv) as [-> ->]; [lia|reflexivity].
Qed.

(* ... and the model's kintegral, asked for the whole domain, takes exactly that loop *)
Lemma last_ge1_above J x : 0 < x -> forall r i acc, List.Forall (fun m => x < m) r ->
  last_ge1 (O:=R_ops J) r x i acc = acc.
Proof.
  intros Hx r. induction r as [|m r IH]; intros i acc Hf; [reflexivity|].
  inversion Hf as [|m' r' Hm Hr]; subst. cbn [last_ge1].
  change (@nleb R (R_ops J)) with Rleb. change (@none R (R_ops J)) with 1. change (@ndiv R (R_ops J)) with (Rdiv_j J).
  rewrite Rdiv_j_ok by lra.
  replace (Rleb 1 (x / m)) with false; [apply IH; exact Hr|].
  symmetry. apply Rleb_false.
  apply (Rmult_lt_reg_r m); [lra|]. replace (x / m * m) with x by (field; lra). lra.
Qed.

Lemma kintegral_full_range : forall J a mlim, valid_kroupa a mlim ->
  kintegral (O:=R_ops J) a mlim (nth 0 mlim 0) (last mlim 0) =
  Ok (kint_loop J a mlim (nth 0 mlim 0) (last mlim 0) (seq 0 (length a)) (0, 0)).
Proof.
  intros J a mlim Hv. pose proof Hv as (Hlen & H2 & Hs & Hp).
  replace (seq 0 (length a)) with (seq 0 (length a - 0)) by (f_equal; lia).
  apply kintegral_multi_is_loop; try lra; try lia.
  - destruct mlim as [|x0 r]; [simpl in Hlen; lia|].
    inversion Hs as [|x0' r' Hsr Hfr]; subst. inversion Hp as [|x0' r' Hx0 Hpr]; subst.
    cbn [nth last_ge1].
    change (@nleb R (R_ops J)) with Rleb. change (@none R (R_ops J)) with 1. change (@ndiv R (R_ops J)) with (Rdiv_j J).
    rewrite Rdiv_j_ok by lra.
    replace (Rleb 1 (x0 / x0)) with true.
    2:{ symmetry. apply Rleb_true. replace (x0 / x0) with 1 by (field; lra). lra. }
    apply last_ge1_above; assumption.
  - replace (Reqb (last mlim 0) (last mlim 0)) with true by (symmetry; apply Reqb_true; reflexivity).
    f_equal. lia.
Qed.
