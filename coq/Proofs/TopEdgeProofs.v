(* Known findings C09 bh_max_on_top_dict_edge / wd_peak_on_upper_edge, model level: the lookup is
   half-open, so a remnant whose mass EQUALS the upper edge of its class's last bin is in no bin. *)
From Coq Require Import List Bool Reals Lra.
From SSP Require Import Num Model.Bins Model.BinsSpec Proofs.BinsProofs.
Import ListNotations.
Local Open Scope R_scope.

Lemma top_edge_unbinned : forall J b, tiling b -> b <> [] ->
  determine_index (O:=R_ops J) (snd (last b (0, 0))) b false = Err ValueError.
Proof.
  intros J b Ht Hne. apply (determine_index_raises J b _ Ht Hne). right. apply Rle_refl.
Qed.
