(* Proofs/ClosedFormProofs.v -- lemmas behind Properties/C01.v and C05.v:
   the closed form for the bin that is turning off solves the ODE the code
   integrates, the field's flux is that same expression, truncated-bin mean
   masses stay in the bin, and remnant deposits lie in the cone of their bin.
   Everything is composed from PkProofs / LifetimeProofs / SevProofs /
   BinsProofs.  Every statement is universally quantified over Junk. *)
From Coq Require Import List Bool Reals Lra Lia.
From Coquelicot Require Import Coquelicot.
From SSP Require Import Num RFacts Model.Pk Model.Lifetime Model.Bins Model.BinsSpec
  Model.Sev Model.SevSpec Proofs.LifetimeProofs Proofs.PkProofs Proofs.BinsProofs
  Proofs.SevProofs.
Import ListNotations.
Local Open Scope R_scope.

(* ------------------------------------------------------------------ *)
(* C01: the closed form solves the stellar-evolution ODE *)

Lemma closed_form_solves_sev : forall J a0 a1 a2 alpha lo up N0 t,
  0 < a0 -> 0 < a1 -> a2 < 0 -> 0 < lo -> lo < up -> a0 < t ->
  lo < mto (O:=R_ops J) a0 a1 a2 t -> mto (O:=R_ops J) a0 a1 a2 t < up ->
  let N := fun s => N0 * Pk_raw (O:=R_ops J) alpha 1 lo (mto (O:=R_ops J) a0 a1 a2 s) / Pk_raw (O:=R_ops J) alpha 1 lo up in
  is_derive N t (- (N t / Pk_raw (O:=R_ops J) alpha 1 lo (mto (O:=R_ops J) a0 a1 a2 t)
                    * Rpower (mto (O:=R_ops J) a0 a1 a2 t) alpha) * dmdt (O:=R_ops J) a0 a1 a2 t).
Proof.
  intros J a0 a1 a2 alpha lo up N0 t H0 H1 H2 Hlo Hlu Ht HloM HMup N.
  destruct (dmdt_is_sweep_speed J a0 a1 a2 t H0 H1 H2 Ht) as [Hd Hdpos].
  pose proof (Pk_raw_pos J alpha 1 lo up Hlo Hlu) as HPup.
  pose proof (Pk_raw_pos J alpha 1 lo _ Hlo HloM) as HPM.
  assert (HM : 0 < mto (O:=R_ops J) a0 a1 a2 t) by lra.
  pose proof (Pk_raw_deriv_upper J alpha 1 lo _ Hlo HM) as HdP.
  assert (Hcomp : is_derive
            (fun s => Pk_raw (O:=R_ops J) alpha 1 lo (mto (O:=R_ops J) a0 a1 a2 s)) t
            (scal (- dmdt (O:=R_ops J) a0 a1 a2 t)
                  (Rpower (mto (O:=R_ops J) a0 a1 a2 t) (alpha + 1 - 1)))).
  { apply (is_derive_comp (fun y => Pk_raw (O:=R_ops J) alpha 1 lo y)
                          (fun s => mto (O:=R_ops J) a0 a1 a2 s)).
    - exact HdP.
    - exact Hd. }
  apply (is_derive_ext
           (fun s => scal (N0 / Pk_raw (O:=R_ops J) alpha 1 lo up)
                          (Pk_raw (O:=R_ops J) alpha 1 lo (mto (O:=R_ops J) a0 a1 a2 s)))).
  - intros s. unfold N, scal; simpl. unfold mult; simpl. unfold Rdiv. ring.
  - replace (- (N t / Pk_raw (O:=R_ops J) alpha 1 lo (mto (O:=R_ops J) a0 a1 a2 t)
                * Rpower (mto (O:=R_ops J) a0 a1 a2 t) alpha) * dmdt (O:=R_ops J) a0 a1 a2 t)
      with (scal (N0 / Pk_raw (O:=R_ops J) alpha 1 lo up)
                 (scal (- dmdt (O:=R_ops J) a0 a1 a2 t)
                       (Rpower (mto (O:=R_ops J) a0 a1 a2 t) (alpha + 1 - 1)))).
    + apply (is_derive_scal
               (fun s => Pk_raw (O:=R_ops J) alpha 1 lo (mto (O:=R_ops J) a0 a1 a2 s))).
      exact Hcomp.
    + replace (alpha + 1 - 1) with alpha by ring.
      unfold N, scal; simpl. unfold mult; simpl.
      field. split; lra.
Qed.

(* ------------------------------------------------------------------ *)
(* C01: the field's flux at the active bin *)

Lemma field_flux : forall J c t Ns alpha m_rem cls s x p, valid_cfg J c ->
  sev_field (O:=R_ops J) c t Ns alpha m_rem cls = Ok (Some s) -> so_dNdt s = Some x ->
  let i := so_isev s in let lo := fst (nth i (c_ms c) (0, 0)) in
  let m := mto (O:=R_ops J) (c_a0 c) (c_a1 c) (c_a2 c) t in
  lo < m -> c_Nmin c < nth i Ns 0 ->
  Pk (O:=R_ops J) (c_res c) (nth i alpha 0) 1 lo m = Some p ->
  x = - (nth i Ns 0 / p * Rpower m (nth i alpha 0)) * dmdt (O:=R_ops J) (c_a0 c) (c_a1 c) (c_a2 c) t.
Proof.
  intros J c t Ns alpha m_rem cls s x p Hv Hs Hx i lo m Hlom HN HP.
  destruct (sev_field_inv _ _ _ _ _ _ _ _ Hs) as (_ & Hfg & HdN & _).
  destruct (sev_active_facts _ _ _ _ Hv Hfg) as (_ & Hlo & _ & _ & _).
  destruct Hv as (_ & _ & _ & _ & _ & _ & _ & _ & Hres).
  fold i in HdN, Hlo. fold lo in Hlo.
  rewrite HdN in Hx. unfold sev_dNdt, sev_dNdm in Hx.
  fold lo m in Hx.
  destruct (Rltb_spec lo m) as [_|Hn]; [|contradiction].
  destruct (Rltb_spec (c_Nmin c) (nth i Ns 0)) as [_|Hn]; [|contradiction].
  cbn [andb] in Hx. rewrite HP in Hx. cbn [omul odiv oneg] in Hx.
  injection Hx as <-.
  destruct (Pk_some _ _ _ _ _ _ _ HP) as [_ Hp].
  change (- (Rdiv_j J (nth i Ns 0) p * Rpow_j J m (nth i alpha 0))
            * dmdt (O:=R_ops J) (c_a0 c) (c_a1 c) (c_a2 c) t =
          - (nth i Ns 0 / p * Rpower m (nth i alpha 0))
            * dmdt (O:=R_ops J) (c_a0 c) (c_a1 c) (c_a2 c) t).
  rewrite Rdiv_j_ok by lra.
  rewrite Rpow_j_ok by lra.
  reflexivity.
Qed.

(* ------------------------------------------------------------------ *)
(* C05 *)

Lemma star_mean_in_truncated_bin : forall J alpha lo up mto_,
  0 < lo -> lo < up -> lo < mto_ ->
  lo < Pk_raw (O:=R_ops J) alpha 2 lo (Rmin up mto_) / Pk_raw (O:=R_ops J) alpha 1 lo (Rmin up mto_) < Rmin up mto_.
Proof.
  intros J alpha lo up mto_ Hlo Hlu Hlm.
  apply Pk_mean_mass_in_bin; [exact Hlo|].
  apply Rmin_glb_lt; assumption.
Qed.

Lemma deposit_in_cone : forall J c t Ns alpha m_rem cls s k i dn dm x, valid_cfg J c ->
  tiling (cls_bins c cls) -> cls_bins c cls <> [] -> 0 <= cls_frem c cls ->
  sev_field (O:=R_ops J) c t Ns alpha m_rem cls = Ok (Some s) ->
  so_dep s = Some (k, i, Some dn, Some dm) -> so_dNdt s = Some x ->
  0 <= dn /\ fst (nth i (cls_bins c cls) (0, 0)) * dn <= dm /\ dm <= snd (nth i (cls_bins c cls) (0, 0)) * dn.
Proof.
  intros J c t Ns alpha m_rem cls s k i dn dm x Hv Htil Hne Hf Hs Hdep Hx.
  destruct (sev_balance _ _ _ _ _ _ _ _ _ _ _ _ _ Hs Hdep Hx)
    as (_ & Hm & Hdi & Hdn & Hdm).
  pose proof (sev_nonincreasing _ _ _ _ _ _ _ _ _ Hv Hs Hx) as Hx0.
  injection Hdn as ->. injection Hdm as ->.
  apply (determine_index_spec J _ _ _ Htil Hne) in Hdi.
  destruct Hdi as (_ & Hlo & Hhi).
  set (f := cls_frem c cls) in *.
  set (l := fst (nth i (cls_bins c cls) (0, 0))) in *.
  set (u := snd (nth i (cls_bins c cls) (0, 0))) in *.
  assert (Hd : 0 <= f * - x) by (apply Rmult_le_pos; lra).
  split; [exact Hd|]. split.
  - apply Rmult_le_compat_r; assumption.
  - apply Rmult_le_compat_r; [assumption|lra].
Qed.

Lemma deposit_class : forall J c t Ns alpha m_rem cls s k i dn dm,
  sev_field (O:=R_ops J) c t Ns alpha m_rem cls = Ok (Some s) -> so_dep s = Some (k, i, dn, dm) -> k = cls.
Proof.
  intros J c t Ns alpha m_rem cls s k i dn dm Hs Hdep.
  destruct (sev_field_inv _ _ _ _ _ _ _ _ Hs) as (_ & _ & _ & [(_ & i' & _ & Hd)|(_ & Hd)]).
  - rewrite Hd in Hdep. injection Hdep as Hk _ _ _. symmetry. exact Hk.
  - rewrite Hd in Hdep. discriminate.
Qed.
