(* Proofs/EscProofs3.v -- escape keeps a remnant bin on the line M = c N
   (Properties/C05b.v).

   RESULT.  The statement of Properties/C05b.v (C05_escape_keeps_mass_relation) is
   FALSE as written: see escape_keeps_mass_relation_refuted below (a Coq proof of
   its negation).  The failing case is nm = NormM before core collapse: the model's
   normalising sum only runs over the star bins whose P1 moment is not NaN
   (filter sb_finite) and uses the guarded division P2 / P1, whereas the
   hypothesis of C05b talks about the sum over ALL star bins of Ns * ms_of; without
   stars_ok the two differ, so the hypothesis does not exclude the model dividing
   by zero, and then dn, dm are unrelated junk values.

   escape_keeps_mass_relation_ok is the same statement with the single extra
   hypothesis   nm = NormM -> t < tcc -> stars_ok J res stars   and is proved. *)
From Coq Require Import List Bool Reals Lra.
From SSP Require Import Num RFacts Model.Pk Model.Esc Model.EscSpec Proofs.PkProofs Proofs.EscProofs.
Import ListNotations.
Local Open Scope R_scope.

Lemma escape_keeps_mass_relation_ok : forall J res md rate tcc t nm stars rems i n m dn dm c,
  0 < md -> nth_error rems i = Some (n, m) -> 0 < n -> m = c * n ->
  let e := esc_field (O:=R_ops J) res md rate tcc t nm stars rems in
  nth_error (e_dNr e) i = Some (Some dn) -> nth_error (e_dMr e) i = Some (Some dm) ->
  (nm = NormM -> t < tcc -> sumR (map (fun q => fst (fst (fst q)) * ms_of J res q) stars) + sumR (map snd rems) <> 0) ->
  (nm = NormN -> t < tcc -> sumR (map (fun q => fst (fst (fst q))) stars) + sumR (map fst rems) <> 0) ->
  (nm = NormM -> t < tcc -> stars_ok J res stars) ->
  dm = c * dn.
Proof.
  intros J res md rate tcc t nm stars rems i n m dn dm c Hmd Hp Hn Hm e Hdn Hdm HM HN HS.
  subst e. revert Hdn Hdm.
  assert (Hn0 : n <> 0) by lra.
  destruct (Rlt_le_dec t tcc) as [Ht|Ht].
  - destruct nm.
    + (* NormN *)
      pose proof (HN eq_refl Ht) as Hnz. change (Nsum stars rems <> 0) in Hnz.
      esc_pre J t tcc Ht.
      rewrite sbN_sum, !sum_plain_sumR. fold (Nsum stars rems).
      rewrite !(map_nth_error _ i rems Hp). cbn [fst snd].
      rewrite (proj2 (Rltb_true 0 n) Hn).
      rewrite !Rdiv_j_ok by (try exact Hnz; exact Hn0).
      intros H1 H2. inversion H1; inversion H2; subst. field. split; [exact Hnz|exact Hn0].
    + (* NormM *)
      pose proof (HM eq_refl Ht) as Hnz. change (Msum J res stars rems <> 0) in Hnz.
      pose proof (HS eq_refl Ht) as Hs.
      esc_pre J t tcc Ht.
      rewrite (M_sum_eq J res stars rems Hs).
      cbn [odiv ndiv R_ops].
      rewrite !(map_nth_error _ i rems Hp). cbn [fst snd].
      rewrite (proj2 (Rltb_true 0 n) Hn).
      rewrite !Rdiv_j_ok by exact Hnz.
      intros H1 H2. inversion H1; inversion H2; subst. field. exact Hnz.
  - (* after core collapse: no extra hypothesis needed *)
    esc_post J t tcc Ht.
    rewrite !(map_nth_error _ i rems Hp). cbn [fst snd].
    rewrite (proj2 (Rltb_true 0 n) Hn).
    match goal with |- context [omul ?B _] => destruct B as [Bv|] end.
    + cbn [omul nmul R_ops]. intros H1 H2. inversion H1; inversion H2; subst.
      rewrite ?rem_I_unfold, ?rem_J_unfold.
      destruct (Rltb 0 n); [|ring].
      destruct (Rltb (Rdiv_j J (c * n) n) md); ring.
    + cbn [omul]. intros H1; discriminate H1.
Qed.

(* Counter-example to the statement of Properties/C05b.v.
   One star bin (N = 1, alpha = 0, edges 1 < 2) whose moments are all below the Pk
   threshold res (= P1 + 1), so the model drops it from the mass sum, while
   ms_of > 0 keeps the C05b hypothesis true; two remnant bins (1, 2) and (1, -2)
   whose masses cancel: the model's M_sum is 0 + (2 + (-2 + 0)) = 0, and both
   dn = rate * 1 / 0 and dm = rate * 2 / 0 are the junk value jdiv J _ = 1, so
   dm = 1 <> 2 * 1 = c * dn. *)
Lemma escape_keeps_mass_relation_refuted :
  ~ (forall J res md rate tcc t nm stars rems i n m dn dm c,
       0 < md -> nth_error rems i = Some (n, m) -> 0 < n -> m = c * n ->
       let e := esc_field (O:=R_ops J) res md rate tcc t nm stars rems in
       nth_error (e_dNr e) i = Some (Some dn) -> nth_error (e_dMr e) i = Some (Some dm) ->
       (nm = NormM -> t < tcc -> sumR (map (fun q => fst (fst (fst q)) * ms_of J res q) stars) + sumR (map snd rems) <> 0) ->
       (nm = NormN -> t < tcc -> sumR (map (fun q => fst (fst (fst q))) stars) + sumR (map fst rems) <> 0) ->
       dm = c * dn).
Proof.
  intros H.
  pose (J := mkJunk (fun _ => 1) (fun _ => 0) (fun _ _ => 0) (fun _ => 0) (fun _ => 0) 0).
  pose (res := Pk_raw (O:=R_ops J) 0 1 1 2 + 1).
  assert (Ht : 0 < 1) by lra.
  assert (HP1 : Pk (O:=R_ops J) res 0 1 1 2 = None).
  { apply Pk_none_iff. unfold res. lra. }
  assert (Hms : 0 < ms_of J res (1, 0, 1, 2)).
  { unfold ms_of. apply div_pos; apply Pk_raw_pos; lra. }
  assert (Hgoal : 1 = 2 * 1 -> False) by (intros E; lra).
  apply Hgoal.
  apply (H J res 1 1 1 0 NormM [(1, 0, 1, 2)] [(1, 2); (1, -2)] 0%nat 1 2 1 1 2);
    try lra; try reflexivity.
  - (* dn *)
    esc_pre J 0 1 Ht.
    cbn [map filter mkb mk_starbin sb_finite sb_p1 is_some nth_error fst snd].
    change (sb_finite (mk_starbin (O:=R_ops J) res 1 0 1 2))
      with (is_some (Pk (O:=R_ops J) res 0 1 1 2)).
    rewrite HP1. cbn [is_some map osumo fold_right oadd odiv sum_plain nadd nzero ndiv R_ops].
    rewrite (proj2 (Rltb_true 0 1) Ht).
    rewrite Rdiv_j_zero by ring. reflexivity.
  - (* dm *)
    esc_pre J 0 1 Ht.
    cbn [map filter mkb mk_starbin sb_finite sb_p1 is_some nth_error fst snd].
    change (sb_finite (mk_starbin (O:=R_ops J) res 1 0 1 2))
      with (is_some (Pk (O:=R_ops J) res 0 1 1 2)).
    rewrite HP1. cbn [is_some map osumo fold_right oadd odiv sum_plain nadd nzero ndiv R_ops].
    rewrite (proj2 (Rltb_true 0 1) Ht).
    rewrite Rdiv_j_zero by ring. reflexivity.
  - (* the NormM hypothesis of C05b holds *)
    intros _ _. cbn [map sumR fold_right fst snd]. lra.
  - intros E; discriminate E.
Qed.
