(* Proofs/ValidateProofs.v -- each invalid family is rejected; the flag is sound (C17). *)
From Coq Require Import List Bool ZArith Reals Lra Lia.
From SSP Require Import Num Model.Validate.
Import ListNotations.
Local Open Scope R_scope.

Section V.
  Variable J : Junk.
  Local Instance OR : NumOps R := R_ops J.

  Ltac vcase := unfold validate_emf, validate_fbh, validate_imf; simpl;
    repeat match goal with
    | |- context [if ?b then _ else _] => let E := fresh "E" in destruct b eqn:E; simpl; try reflexivity; try discriminate
    end.

  Lemma pos_const_rate r : r_esc_callable r = false -> 0 < r_esc_rate r -> validate_emf r = Err ValueError.
  Proof. intros H1 H2. unfold validate_emf. rewrite H1. simpl. destruct (Rltb_spec 0 (r_esc_rate r)); [reflexivity|contradiction]. Qed.

  (* any single defect makes the whole validation fail, whatever else the request contains *)
  Lemma emf_rejects r :
    (r_esc_callable r = false /\ 0 < r_esc_rate r) \/ r_esc_norm_known r = false \/ r_bh_method_known r = false \/
    r_analytic_ok r = false \/ r_wd_method_known r = false \/ r_bh_mi_lo r < r_wd_mi_up r \/
    r_binning_known r = false \/ r_kick_known r = false ->
    validate_emf r = Err ValueError.
  Proof.
    intros H. unfold validate_emf. simpl.
    destruct (negb (r_esc_callable r) && Rltb 0 (r_esc_rate r)) eqn:E1; [reflexivity|].
    destruct (r_esc_norm_known r) eqn:E2; simpl; [|reflexivity].
    destruct (r_bh_method_known r) eqn:E3; simpl; [|reflexivity].
    destruct (r_analytic_ok r) eqn:E4; simpl; [|reflexivity].
    destruct (r_wd_method_known r) eqn:E5; simpl; [|reflexivity].
    destruct (Rltb_spec (r_bh_mi_lo r) (r_wd_mi_up r)) as [E6|E6]; [reflexivity|].
    destruct (r_binning_known r) eqn:E7; simpl; [|reflexivity].
    destruct (r_kick_known r) eqn:E8; simpl; [|reflexivity].
    exfalso. destruct H as [[Ha Hb]|[H|[H|[H|[H|[H|[H|H]]]]]]]; try discriminate; try lra.
    rewrite Ha in E1. simpl in E1. destruct (Rltb_spec 0 (r_esc_rate r)); [discriminate|contradiction].
  Qed.

  (* and a request with none of the defects passes *)
  Lemma emf_accepts r :
    (r_esc_callable r = true \/ r_esc_rate r <= 0) -> r_esc_norm_known r = true -> r_bh_method_known r = true ->
    r_analytic_ok r = true -> r_wd_method_known r = true -> r_wd_mi_up r <= r_bh_mi_lo r ->
    r_binning_known r = true -> r_kick_known r = true -> validate_emf r = Ok tt.
  Proof.
    intros H1 H2 H3 H4 H5 H6 H7 H8. unfold validate_emf. simpl. rewrite H2, H3, H4, H5, H7, H8. simpl.
    destruct (Rltb_spec (r_bh_mi_lo r) (r_wd_mi_up r)); [lra|].
    destruct H1 as [H1|H1]; [rewrite H1; reflexivity|].
    destruct (Rltb_spec 0 (r_esc_rate r)); [lra|]. destruct (r_esc_callable r); reflexivity.
  Qed.

  Lemma fbh_rejects_size n m fbh r : n <> m -> validate_fbh n m fbh r = Err ValueError.
  Proof. intros H. unfold validate_fbh. destruct (Nat.eqb_spec n m); [contradiction|reflexivity]. Qed.
  Lemma fbh_rejects_negative n fbh r f : In f fbh -> f < 0 -> validate_fbh n n fbh r = Err ValueError.
  Proof.
    intros Hin Hf. unfold validate_fbh. rewrite Nat.eqb_refl. simpl.
    assert (H : existsb (fun f0 : R => Rltb f0 0) fbh = true).
    { apply existsb_exists. exists f. split; [assumption|]. destruct (Rltb_spec f 0); [reflexivity|contradiction]. }
    simpl in *. unfold nltb, nzero. simpl. rewrite H. reflexivity.
  Qed.

  Lemma imf_rejects_size mb a : length mb <> S (length a) -> validate_imf mb a = Err ValueError.
  Proof. intros H. unfold validate_imf. destruct (Nat.eqb_spec (length mb) (S (length a))); [contradiction|reflexivity]. Qed.
  Lemma imf_rejects_order mb a i : length mb = S (length a) -> (S i < length mb)%nat ->
    nth (S i) mb 0 <= nth i mb 0 -> validate_imf mb a = Err ValueError.
  Proof.
    intros Hl Hi Hle. unfold validate_imf. rewrite Hl, Nat.eqb_refl. simpl.
    destruct (Nat.ltb_spec (S (length a)) 2); [reflexivity|].
    assert (Hinc : increasing mb = false).
    { clear Hl H. revert i Hi Hle. induction mb as [|x [|y r] IH]; intros i Hi Hle; simpl in Hi; try lia.
      destruct i as [|i].
      - simpl in Hle. change (increasing (x :: y :: r)) with (Rltb x y && increasing (y :: r)).
        destruct (Rltb_spec x y); [lra|reflexivity].
      - change (increasing (x :: y :: r)) with (Rltb x y && increasing (y :: r)).
        rewrite (IH i); [apply andb_false_r|simpl in *; lia|exact Hle]. }
    rewrite Hinc. reflexivity.
  Qed.
End V.

(* the convergence flag: false as soon as ANY segment failed (including an
   intermediate one followed by successes); true only if every segment succeeded *)
Lemma converged_false_if_any_failed segs : In false segs -> converged segs = false.
Proof.
  intros H. unfold converged. destruct (forallb (fun b => b) segs) eqn:E; [|reflexivity].
  rewrite forallb_forall in E. specialize (E false H). discriminate.
Qed.
Lemma converged_true_all_succeeded segs : converged segs = true -> forall b, In b segs -> b = true.
Proof. unfold converged. rewrite forallb_forall. auto. Qed.
