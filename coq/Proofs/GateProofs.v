(* The BH gate is open exactly when the turn-off mass has dropped below the heaviest BH progenitor. *)
From Coq Require Import Reals Lra Bool.
From SSP Require Import Num Model.Lifetime Model.Gate Proofs.LifetimeProofs.
Local Open Scope R_scope.

Lemma bh_gate_iff J a0 a1 a2 up t : 0 < a0 -> 0 < a1 -> a2 < 0 -> 0 < up ->
  (bh_gate (O:=R_ops J) a0 a1 a2 up t = true <-> tms (O:=R_ops J) a0 a1 a2 up < t).
Proof. intros. unfold bh_gate. cbn. apply Rltb_true. Qed.

Lemma bh_gate_iff_turnoff_below J a0 a1 a2 up t : 0 < a0 -> 0 < a1 -> a2 < 0 -> 0 < up -> a0 < t ->
  (bh_gate (O:=R_ops J) a0 a1 a2 up t = true <-> mto (O:=R_ops J) a0 a1 a2 t < up).
Proof.
  intros H0 H1 H2 Hup Ht. rewrite bh_gate_iff by assumption.
  pose proof (tms_above_a0 J a0 a1 a2 up H0 H1 H2 Hup) as Hab.
  split; intro H.
  - (* tms up < t  ->  mto t < mto (tms up) = up *)
    destruct (mto_strictly_decreasing J a0 a1 a2 (tms (O:=R_ops J) a0 a1 a2 up) t H0 H1 H2 Hab H) as [_ Hlt].
    rewrite mto_tms_inverse in Hlt by assumption. exact Hlt.
  - (* mto t < up  ->  tms up < tms (mto t) = t *)
    assert (Hm : 0 < mto (O:=R_ops J) a0 a1 a2 t).
    { destruct (Rlt_le_dec (tms (O:=R_ops J) a0 a1 a2 up) t) as [Hc|Hc].
      - destruct (mto_strictly_decreasing J a0 a1 a2 _ t H0 H1 H2 Hab Hc) as [Hp _]. exact Hp.
      - rewrite mto_eq by assumption. apply Rpower_pos. }
    pose proof (tms_strictly_decreasing J a0 a1 a2 _ up H0 H1 H2 Hm H) as Hd.
    rewrite tms_mto_inverse in Hd by assumption. exact Hd.
Qed.
