(* Proofs/IFMRProofs2.v -- composition of table_sound and lin_interp_bounds (C09b). *)
From Coq Require Import ZArith List Bool Reals Lra Lia.
From SSP Require Import Num RFacts Model.Sev Model.IFMR Model.IFMRSpec Proofs.IFMRProofs.
Import ListNotations.
Local Open Scope R_scope.

Lemma table_bounds : forall rows, table_okZ rows = true -> (2 <= length rows)%nat ->
  forall J m, fst (hd (0, 0) (knotsR rows)) <= m <= fst (last (knotsR rows) (0, 0)) ->
  0 < lin_interp (O:=R_ops J) (knotsR rows) m /\
  IZR (minfZ rows) / 100000 <= lin_interp (O:=R_ops J) (knotsR rows) m /\
  lin_interp (O:=R_ops J) (knotsR rows) m <= m.
Proof.
  intros rows Hok Hlen J m Hm.
  apply lin_interp_bounds.
  - apply table_sound; exact Hok.
  - unfold knotsR; rewrite map_length; exact Hlen.
  - exact Hm.
Qed.
