(* Proofs/SevProofs.v -- theorems about Model/Sev.v (the stellar-evolution
   part of the ODE right-hand side) at the real instance.  Every statement is
   universally quantified over the Junk record. *)
From Coq Require Import List Bool Reals Lra Lia.
From SSP Require Import Num RFacts Model.Pk Model.Lifetime Model.Bins Model.BinsSpec
  Model.Sev Model.SevSpec Proofs.LifetimeProofs Proofs.PkProofs.
Import ListNotations.
Local Open Scope R_scope.

(* ------------------------------------------------------------------ *)
(* list helpers *)

Lemma nth_map_lt {A B} (f : A -> B) (l : list A) i d d' :
  (i < length l)%nat -> nth i (map f l) d = f (nth i l d').
Proof.
  intros Hi. rewrite (nth_indep _ d (f d')) by (rewrite map_length; exact Hi).
  apply map_nth.
Qed.

Lemma Forall_nth_lt {A} (P : A -> Prop) (l : list A) i d :
  Forall P l -> (i < length l)%nat -> P (nth i l d).
Proof.
  intros HF Hi. rewrite Forall_forall in HF. apply HF. apply nth_In. exact Hi.
Qed.

Lemma nth_set_nth_ne {A} (l : list A) : forall i j x d, i <> j ->
  nth i (set_nth l j x) d = nth i l d.
Proof.
  induction l as [|h r IH]; intros i j x d Hij; [reflexivity|].
  destruct j as [|j]; destruct i as [|i]; simpl; try reflexivity.
  - contradiction.
  - apply IH. intros E. apply Hij. rewrite E. reflexivity.
Qed.

Lemma nth_zeros_like J {A} (l : list A) i :
  (i < length l)%nat -> nth i (zeros_like (O:=R_ops J) l) None = Some 0.
Proof.
  intros Hi. unfold zeros_like.
  destruct l as [|a l]; [simpl in Hi; lia|].
  rewrite (nth_map_lt _ (a :: l) i None a Hi). reflexivity.
Qed.

Lemma Forall_zeros_like J {A} (l : list A) :
  Forall (fun v => v = Some 0) (zeros_like (O:=R_ops J) l).
Proof.
  unfold zeros_like. induction l as [|a l IH]; simpl; constructor; [reflexivity|exact IH].
Qed.

(* ------------------------------------------------------------------ *)
(* first_gt *)

Lemma first_gt_cons J t x r i :
  first_gt (O:=R_ops J) t (x :: r) i =
    if Rltb x t then Some i else first_gt (O:=R_ops J) t r (S i).
Proof. reflexivity. Qed.

Lemma first_gt_spec J t : forall l k i,
  first_gt (O:=R_ops J) t l k = Some i ->
  exists j, i = (k + j)%nat /\ (j < length l)%nat /\ nth j l 0 < t /\
            forall j', (j' < j)%nat -> t <= nth j' l 0.
Proof.
  induction l as [|x r IH]; intros k i H.
  - discriminate H.
  - rewrite first_gt_cons in H. destruct (Rltb_spec x t) as [Hlt|Hnlt].
    + injection H as <-. exists 0%nat. repeat split.
      * lia.
      * simpl; lia.
      * exact Hlt.
      * intros j' Hj'. lia.
    + destruct (IH _ _ H) as (j & Hi & Hj & Hn & Hb).
      exists (S j). repeat split.
      * lia.
      * simpl; lia.
      * exact Hn.
      * intros j' Hj'. destruct j' as [|j']; simpl.
        -- apply Rnot_lt_le. exact Hnlt.
        -- apply Hb. lia.
Qed.

(* ------------------------------------------------------------------ *)
(* unfolding of the field *)

Definition sev_dNdm (J : Junk) (c : sev_cfg (T:=R)) (t : R) (Ns alpha : list R) (isev : nat)
  : option R :=
  let m1 := fst (nth isev (c_ms c) (0, 0)) in
  let mto_ := mto (O:=R_ops J) (c_a0 c) (c_a1 c) (c_a2 c) t in
  let Nj := nth isev Ns 0 in
  let alphaj := nth isev alpha 0 in
  if Rltb m1 mto_ && Rltb (c_Nmin c) Nj then
    omul (O:=R_ops J) (odiv (O:=R_ops J) (Some Nj) (Pk (O:=R_ops J) (c_res c) alphaj 1 m1 mto_))
         (Some (Rpow_j J mto_ alphaj))
  else Some 0.

Definition sev_dNdt (J : Junk) (c : sev_cfg (T:=R)) (t : R) (Ns alpha : list R) (isev : nat)
  : option R :=
  omul (O:=R_ops J) (oneg (O:=R_ops J) (sev_dNdm J c t Ns alpha isev))
       (Some (dmdt (O:=R_ops J) (c_a0 c) (c_a1 c) (c_a2 c) t)).

Lemma sev_field_unfold J c t Ns alpha m_rem cls :
  sev_field (O:=R_ops J) c t Ns alpha m_rem cls =
    if Rltb (last (c_tms_u c) 0) t then
      match first_gt (O:=R_ops J) t (c_tms_u c) 0 with
      | None => Err IndexError
      | Some isev =>
          let dNdt := sev_dNdt J c t Ns alpha isev in
          if Rltb 0 m_rem then
            match determine_index (O:=R_ops J) m_rem (cls_bins c cls) false with
            | Err e => Err e
            | Ok irem =>
                Ok (Some {| so_isev := isev; so_dNdt := dNdt;
                            so_dep := Some (cls, irem,
                              omul (O:=R_ops J) (oneg (O:=R_ops J) dNdt) (Some (cls_frem c cls)),
                              omul (O:=R_ops J) (omul (O:=R_ops J) (Some (- m_rem)) dNdt)
                                   (Some (cls_frem c cls))) |})
            end
          else Ok (Some {| so_isev := isev; so_dNdt := dNdt; so_dep := None |})
      end
    else Ok None.
Proof. reflexivity. Qed.

Lemma sev_field_inv J c t Ns alpha m_rem cls s :
  sev_field (O:=R_ops J) c t Ns alpha m_rem cls = Ok (Some s) ->
  last (c_tms_u c) 0 < t /\
  first_gt (O:=R_ops J) t (c_tms_u c) 0 = Some (so_isev s) /\
  so_dNdt s = sev_dNdt J c t Ns alpha (so_isev s) /\
  ((0 < m_rem /\ exists irem,
      determine_index (O:=R_ops J) m_rem (cls_bins c cls) false = Ok irem /\
      so_dep s = Some (cls, irem,
        omul (O:=R_ops J) (oneg (O:=R_ops J) (so_dNdt s)) (Some (cls_frem c cls)),
        omul (O:=R_ops J) (omul (O:=R_ops J) (Some (- m_rem)) (so_dNdt s))
             (Some (cls_frem c cls)))) \/
   (m_rem <= 0 /\ so_dep s = None)).
Proof.
  rewrite sev_field_unfold.
  destruct (Rltb_spec (last (c_tms_u c) 0) t) as [Hlt|Hnlt]; [|discriminate].
  destruct (first_gt (O:=R_ops J) t (c_tms_u c) 0) as [isev|] eqn:Hfg; [|discriminate].
  cbv zeta.
  destruct (Rltb_spec 0 m_rem) as [Hm|Hm].
  - destruct (determine_index (O:=R_ops J) m_rem (cls_bins c cls) false) as [irem|e] eqn:Hdi;
      [|discriminate].
    intros H. injection H as <-. cbn [so_isev so_dNdt so_dep].
    repeat split; try assumption.
    left. split; [assumption|]. exists irem. split; reflexivity.
  - intros H. injection H as <-. cbn [so_isev so_dNdt so_dep].
    repeat split; try assumption.
    right. split; [apply Rnot_lt_le; assumption|reflexivity].
Qed.

(* the possible values of dNs[isev] *)
Lemma sev_dNdt_form J c t Ns alpha i x :
  sev_dNdt J c t Ns alpha i = Some x ->
  let m1 := fst (nth i (c_ms c) (0, 0)) in
  let mto_ := mto (O:=R_ops J) (c_a0 c) (c_a1 c) (c_a2 c) t in
  let dmdt_ := dmdt (O:=R_ops J) (c_a0 c) (c_a1 c) (c_a2 c) t in
  x = 0 \/
  (exists p, m1 < mto_ /\ c_Nmin c < nth i Ns 0 /\
     Pk (O:=R_ops J) (c_res c) (nth i alpha 0) 1 m1 mto_ = Some p /\
     x = - (Rdiv_j J (nth i Ns 0) p * Rpow_j J mto_ (nth i alpha 0)) * dmdt_).
Proof.
  intros H m1 mto_ dmdt_. unfold sev_dNdt, sev_dNdm in H.
  fold m1 mto_ dmdt_ in H.
  destruct (Rltb_spec m1 mto_) as [H1|H1];
    [destruct (Rltb_spec (c_Nmin c) (nth i Ns 0)) as [H2|H2]|]; cbn [andb] in H.
  - destruct (Pk (O:=R_ops J) (c_res c) (nth i alpha 0) 1 m1 mto_) as [p|] eqn:HP;
      cbn [omul odiv oneg] in H; [|discriminate].
    injection H as <-. right. exists p. repeat split; assumption.
  - cbn [omul oneg] in H. injection H as <-. left.
    change (- 0 * dmdt_ = 0). ring.
  - cbn [omul oneg] in H. injection H as <-. left.
    change (- 0 * dmdt_ = 0). ring.
Qed.

(* ------------------------------------------------------------------ *)
(* what a valid configuration gives at the active bin *)

Lemma sev_active_facts J c t i : valid_cfg J c ->
  first_gt (O:=R_ops J) t (c_tms_u c) 0 = Some i ->
  (i < length (c_ms c))%nat /\
  0 < fst (nth i (c_ms c) (0, 0)) /\
  c_a0 c < t /\
  mto (O:=R_ops J) (c_a0 c) (c_a1 c) (c_a2 c) t < snd (nth i (c_ms c) (0, 0)) /\
  (i <> 0%nat -> fst (nth i (c_ms c) (0, 0)) <= mto (O:=R_ops J) (c_a0 c) (c_a1 c) (c_a2 c) t).
Proof.
  intros (Htil & Hne & Hpos & Htms & H0 & H1 & H2 & HNmin & Hres) Hfg.
  destruct Htil as [Hlu Hadj].
  destruct (first_gt_spec J t _ _ _ Hfg) as (j & Hij & Hj & Hn & Hb).
  simpl in Hij. subst j.
  rewrite Htms, map_length in Hj.
  assert (Hup : forall k, (k < length (c_ms c))%nat ->
            0 < fst (nth k (c_ms c) (0, 0)) /\ 0 < snd (nth k (c_ms c) (0, 0))).
  { intros k Hk.
    pose proof (Forall_nth_lt _ _ k (0, 0) Hpos Hk) as Ha.
    pose proof (Forall_nth_lt _ _ k (0, 0) Hlu Hk) as Hc.
    simpl in Ha, Hc. split; lra. }
  assert (Hnth : forall k, (k < length (c_ms c))%nat ->
            nth k (c_tms_u c) 0 =
            tms (O:=R_ops J) (c_a0 c) (c_a1 c) (c_a2 c) (snd (nth k (c_ms c) (0, 0)))).
  { intros k Hk. rewrite Htms.
    apply (nth_map_lt (fun p : R * R => tms (O:=R_ops J) (c_a0 c) (c_a1 c) (c_a2 c) (snd p))
             (c_ms c) k 0 (0, 0) Hk). }
  destruct (Hup i Hj) as [Hlo Hhi].
  rewrite (Hnth i Hj) in Hn.
  pose proof (tms_above_a0 J _ _ _ _ H0 H1 H2 Hhi) as Hab.
  assert (Ht : c_a0 c < t) by lra.
  split; [exact Hj|]. split; [exact Hlo|]. split; [exact Ht|]. split.
  - pose proof (mto_strictly_decreasing J _ _ _ _ _ H0 H1 H2 Hab Hn) as [_ Hd].
    rewrite mto_tms_inverse in Hd by assumption. exact Hd.
  - intros Hi0. destruct i as [|i']; [contradiction|].
    assert (Hi' : (i' < length (c_ms c))%nat) by lia.
    rewrite <- (Hadj i' Hj).
    destruct (Hup i' Hi') as [_ Hhi'].
    pose proof (Hb i' ltac:(lia)) as Hle. rewrite (Hnth i' Hi') in Hle.
    destruct Hle as [Hlt|Heq].
    + pose proof (mto_strictly_decreasing J _ _ _ _ _ H0 H1 H2 Ht Hlt) as [_ Hd].
      rewrite mto_tms_inverse in Hd by assumption. lra.
    + rewrite Heq, mto_tms_inverse by assumption. lra.
Qed.

(* ------------------------------------------------------------------ *)
(* C02 lemmas *)

Lemma sev_before_first_turnoff : forall J c t Ns alpha m_rem cls,
  t <= last (c_tms_u c) 0 ->
  sev_field (O:=R_ops J) c t Ns alpha m_rem cls = Ok None.
Proof.
  intros J c t Ns alpha m_rem cls Ht. rewrite sev_field_unfold.
  destruct (Rltb_spec (last (c_tms_u c) 0) t) as [Hlt|_]; [lra|reflexivity].
Qed.

Lemma sev_isev_contains_mto : forall J c t Ns alpha m_rem cls s, valid_cfg J c ->
  sev_field (O:=R_ops J) c t Ns alpha m_rem cls = Ok (Some s) ->
  (so_isev s < length (c_ms c))%nat /\
  mto (O:=R_ops J) (c_a0 c) (c_a1 c) (c_a2 c) t < snd (nth (so_isev s) (c_ms c) (0, 0)) /\
  (fst (nth (so_isev s) (c_ms c) (0, 0)) <= mto (O:=R_ops J) (c_a0 c) (c_a1 c) (c_a2 c) t \/
   (so_isev s = 0%nat /\ forall x, so_dNdt s = Some x -> x = 0)).
Proof.
  intros J c t Ns alpha m_rem cls s Hv Hs.
  destruct (sev_field_inv _ _ _ _ _ _ _ _ Hs) as (Hlast & Hfg & HdN & _).
  destruct (sev_active_facts _ _ _ _ Hv Hfg) as (Hi & Hlo & Ht & Hup & Hlow).
  split; [exact Hi|]. split; [exact Hup|].
  destruct (Rle_dec (fst (nth (so_isev s) (c_ms c) (0, 0)))
                    (mto (O:=R_ops J) (c_a0 c) (c_a1 c) (c_a2 c) t)) as [Hle|Hnle].
  - left; exact Hle.
  - right. split.
    + destruct (Nat.eq_dec (so_isev s) 0) as [E|E]; [exact E|].
      exfalso. apply Hnle. apply Hlow. exact E.
    + intros x Hx. rewrite HdN in Hx.
      destruct (sev_dNdt_form _ _ _ _ _ _ _ Hx) as [E|(p & Hlt & _)]; [exact E|].
      exfalso. apply Hnle. lra.
Qed.

Lemma sev_balance : forall J c t Ns alpha m_rem cls s k irem dn dm x,
  sev_field (O:=R_ops J) c t Ns alpha m_rem cls = Ok (Some s) ->
  so_dep s = Some (k, irem, dn, dm) -> so_dNdt s = Some x ->
  k = cls /\ 0 < m_rem /\
  determine_index (O:=R_ops J) m_rem (cls_bins c cls) false = Ok irem /\
  dn = Some (cls_frem c cls * (- x)) /\ dm = Some (m_rem * (cls_frem c cls * (- x))).
Proof.
  intros J c t Ns alpha m_rem cls s k irem dn dm x Hs Hdep Hx.
  destruct (sev_field_inv _ _ _ _ _ _ _ _ Hs) as (_ & _ & _ & [(Hm & i' & Hdi & Hd)|(_ & Hd)]).
  - rewrite Hd, Hx in Hdep. cbn [omul oneg] in Hdep.
    injection Hdep as Hk Hi Hdn Hdm. subst k i'.
    split; [reflexivity|]. split; [exact Hm|]. split; [exact Hdi|].
    split.
    + rewrite <- Hdn. f_equal. change (- x * cls_frem c cls = cls_frem c cls * - x). ring.
    + rewrite <- Hdm. f_equal.
      change (- m_rem * x * cls_frem c cls = m_rem * (cls_frem c cls * - x)). ring.
  - rewrite Hd in Hdep. discriminate.
Qed.

Lemma sev_zero_mass_skipped : forall J c t Ns alpha m_rem cls s,
  sev_field (O:=R_ops J) c t Ns alpha m_rem cls = Ok (Some s) -> m_rem <= 0 -> so_dep s = None.
Proof.
  intros J c t Ns alpha m_rem cls s Hs Hm.
  destruct (sev_field_inv _ _ _ _ _ _ _ _ Hs) as (_ & _ & _ & [(Hm' & _)|(_ & Hd)]);
    [lra|exact Hd].
Qed.

Lemma sev_nonincreasing : forall J c t Ns alpha m_rem cls s x, valid_cfg J c ->
  sev_field (O:=R_ops J) c t Ns alpha m_rem cls = Ok (Some s) -> so_dNdt s = Some x -> x <= 0.
Proof.
  intros J c t Ns alpha m_rem cls s x Hv Hs Hx.
  destruct (sev_field_inv _ _ _ _ _ _ _ _ Hs) as (Hlast & Hfg & HdN & _).
  destruct (sev_active_facts _ _ _ _ Hv Hfg) as (Hi & Hlo & Ht & Hup & Hlow).
  destruct Hv as (_ & _ & _ & _ & H0 & H1 & H2 & HNmin & Hres).
  rewrite HdN in Hx.
  destruct (sev_dNdt_form _ _ _ _ _ _ _ Hx) as [E|(p & Hlt & HN & HP & E)]; [lra|].
  destruct (Pk_some _ _ _ _ _ _ _ HP) as [_ Hp].
  destruct (dmdt_is_sweep_speed J _ _ _ _ H0 H1 H2 Ht) as [_ Hd].
  rewrite Rdiv_j_ok in E by lra.
  rewrite Rpow_j_ok in E by lra.
  set (N := nth (so_isev s) Ns 0) in *.
  set (P := Rpower _ _) in E.
  set (D := dmdt _ _ _ _) in *.
  assert (HPp : 0 < P) by apply Rpower_pos.
  assert (Hq : 0 < N / p) by (apply div_pos; lra).
  assert (Hq2 : 0 < N / p * P) by (apply Rmult_lt_0_compat; assumption).
  assert (Hq3 : 0 < N / p * P * D) by (apply Rmult_lt_0_compat; assumption).
  rewrite E. lra.
Qed.

Lemma sev_number_conserved : forall J c t Ns alpha m_rem cls s k irem y dm x,
  sev_field (O:=R_ops J) c t Ns alpha m_rem cls = Ok (Some s) ->
  so_dep s = Some (k, irem, Some y, dm) -> so_dNdt s = Some x ->
  cls_frem c cls = 1 -> x + y = 0.
Proof.
  intros J c t Ns alpha m_rem cls s k irem y dm x Hs Hdep Hx Hf.
  destruct (sev_balance _ _ _ _ _ _ _ _ _ _ _ _ _ Hs Hdep Hx) as (_ & _ & _ & Hdn & _).
  injection Hdn as ->. rewrite Hf. ring.
Qed.

Lemma sev_mass_nonincreasing : forall J c t Ns alpha m_rem cls s k irem dn z x, valid_cfg J c ->
  sev_field (O:=R_ops J) c t Ns alpha m_rem cls = Ok (Some s) ->
  so_dep s = Some (k, irem, dn, Some z) -> so_dNdt s = Some x ->
  0 <= cls_frem c cls <= 1 -> m_rem <= mto (O:=R_ops J) (c_a0 c) (c_a1 c) (c_a2 c) t ->
  mto (O:=R_ops J) (c_a0 c) (c_a1 c) (c_a2 c) t * x + z <= 0.
Proof.
  intros J c t Ns alpha m_rem cls s k irem dn z x Hv Hs Hdep Hx Hf Hm.
  destruct (sev_balance _ _ _ _ _ _ _ _ _ _ _ _ _ Hs Hdep Hx) as (_ & Hmp & _ & _ & Hdm).
  pose proof (sev_nonincreasing _ _ _ _ _ _ _ _ _ Hv Hs Hx) as Hx0.
  injection Hdm as ->.
  set (M := mto _ _ _ _) in *. set (f := cls_frem c cls) in *.
  assert (H1 : m_rem * f <= m_rem) by nra.
  assert (H2 : 0 <= (M - m_rem * f) * (- x)) by (apply Rmult_le_pos; lra).
  lra.
Qed.

Lemma sev_support : forall J c o,
  let d := sev_expand (O:=R_ops J) c o in
  Forall (fun v => v = Some 0) (d_alpha d) /\
  (forall i, (match o with Some s => i <> so_isev s | None => True end) ->
     (i < length (c_ms c))%nat -> nth i (d_Ns d) None = Some 0) /\
  (forall k i, (match o with
                | Some s => match so_dep s with Some (k', i', _, _) => k <> k' \/ i <> i' | None => True end
                | None => True end) ->
     (i < length (cls_bins c k))%nat ->
     nth i (match k with WD => d_Nwd d | NS => d_Nns d | BH => d_Nbh d end) None = Some 0 /\
     nth i (match k with WD => d_Mwd d | NS => d_Mns d | BH => d_Mbh d end) None = Some 0).
Proof.
  intros J c o d. subst d. unfold sev_expand.
  destruct o as [s|].
  - destruct (so_dep s) as [[[[k' i'] dn] dm]|].
    + cbn [d_alpha d_Ns d_Nwd d_Nns d_Nbh d_Mwd d_Mns d_Mbh].
      split; [apply Forall_zeros_like|]. split.
      * intros i Hne Hi. rewrite nth_set_nth_ne by exact Hne. apply nth_zeros_like; exact Hi.
      * intros k i Hne Hi.
        destruct k; destruct k'; cbn [cls_bins] in Hi;
          try (split; apply nth_zeros_like; exact Hi);
          (destruct Hne as [Hne|Hne]; [exfalso; apply Hne; reflexivity|]);
          split; rewrite nth_set_nth_ne by exact Hne; apply nth_zeros_like; exact Hi.
    + cbn [d_alpha d_Ns d_Nwd d_Nns d_Nbh d_Mwd d_Mns d_Mbh].
      split; [apply Forall_zeros_like|]. split.
      * intros i Hne Hi. rewrite nth_set_nth_ne by exact Hne. apply nth_zeros_like; exact Hi.
      * intros k i _ Hi. destruct k; cbn [cls_bins] in Hi; split; apply nth_zeros_like; exact Hi.
  - cbn [d_alpha d_Ns d_Nwd d_Nns d_Nbh d_Mwd d_Mns d_Mbh].
    split; [apply Forall_zeros_like|]. split.
    + intros i _ Hi. apply nth_zeros_like; exact Hi.
    + intros k i _ Hi. destruct k; cbn [cls_bins] in Hi; split; apply nth_zeros_like; exact Hi.
Qed.
