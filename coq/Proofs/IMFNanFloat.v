(* binary64 witness of the known finding C11 nan_amplitudes_segment_below_pk_threshold (see Proofs/IMFNanProofs.v) *)
From Coq Require Import List Bool PrimFloat.
From SSP Require Import Num FloatFun Model.Pk Model.IMF.
Import ListNotations.

Definition nanw_res : float := 0x1.203af9ee75616p-50%float.   (* np.finfo(float).resolution = 1e-15 *)
Definition nanw_a : list float := [(-4)%float].
Definition nanw_mb : list float := [100000%float; 1000000%float].
Definition nanw_mb_ok : list float := [1%float; 10%float].
Lemma nan_amplitudes_refuted_float :
  A_comps (O:=F_ops) nanw_res nanw_a nanw_mb = None /\
  (match A_comps (O:=F_ops) nanw_res nanw_a nanw_mb_ok with Some [_] => True | _ => False end).
Proof. vm_compute. split; [reflexivity|exact I]. Qed.
