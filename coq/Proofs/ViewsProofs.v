(* Proofs/ViewsProofs.v -- list lemmas about the filtered summary views (Model/Views.v),
   used by Properties/C04.v. *)
From Coq Require Import List Bool Reals Lra.
From SSP Require Import Num Model.Sev Model.Views.
Import ListNotations.
Local Open Scope R_scope.

(* ---------------- unfolding of sel at the real instance ---------------- *)

Lemma sel_nil_l J A thr (X : list A) : sel (O:=R_ops J) thr [] X = [].
Proof. reflexivity. Qed.

Lemma sel_nil_r J A thr N : sel (O:=R_ops J) (A:=A) thr N [] = [].
Proof. destruct N; reflexivity. Qed.

Lemma sel_cons J A thr n N (x : A) X :
  sel (O:=R_ops J) thr (n :: N) (x :: X) =
  if Rltb thr n then x :: sel (O:=R_ops J) thr N X else sel (O:=R_ops J) thr N X.
Proof.
  unfold sel; simpl. destruct (Rltb thr n); reflexivity.
Qed.

(* key lemma: the number of selected entries only depends on the mask *)
Lemma sel_length J A thr N : forall (X : list A), length X = length N ->
  length (sel (O:=R_ops J) thr N X) = length (filter (fun n => Rltb thr n) N).
Proof.
  induction N as [|n N IH]; intros X HX.
  - reflexivity.
  - destruct X as [|x X]; [discriminate HX|].
    simpl in HX. injection HX as HX.
    rewrite sel_cons. simpl. destruct (Rltb thr n); simpl; rewrite (IH X HX); reflexivity.
Qed.

Lemma sel_self J thr N :
  sel (O:=R_ops J) thr N N = filter (fun n => Rltb thr n) N.
Proof.
  induction N as [|n N IH].
  - reflexivity.
  - rewrite sel_cons. simpl. destruct (Rltb thr n); rewrite IH; reflexivity.
Qed.

Lemma map_const_repeat A B (b : B) (l : list A) :
  map (fun _ => b) l = repeat b (length l).
Proof.
  induction l as [|a l IH]; simpl; [reflexivity|rewrite IH; reflexivity].
Qed.

Lemma nth_error_map_combine A B C (f : A * B -> C) :
  forall (la : list A) (lb : list B) i a b,
  nth_error la i = Some a -> nth_error lb i = Some b ->
  nth_error (map f (combine la lb)) i = Some (f (a, b)).
Proof.
  induction la as [|a0 la IH]; intros lb i a b Ha Hb.
  - destruct i; discriminate Ha.
  - destruct lb as [|b0 lb]; [destruct i; discriminate Hb|].
    destruct i as [|i]; simpl in *.
    + injection Ha as Ha; injection Hb as Hb; subst; reflexivity.
    + apply IH; assumption.
Qed.

(* ---------------- the C04 lemmas ---------------- *)

Lemma view_N_spec : forall J thr Ns Nr,
  view_N (O:=R_ops J) thr Ns Nr = filter (fun n => Rltb thr n) Ns ++ filter (fun n => Rltb thr n) Nr.
Proof.
  intros J thr Ns Nr. unfold view_N. rewrite !sel_self. reflexivity.
Qed.

Lemma views_lengths : forall J thr Ns Ms Nr Mr rem_types,
  length Ms = length Ns -> length Mr = length Nr -> length rem_types = length Nr ->
  let n := (nms (O:=R_ops J) thr Ns + nmr (O:=R_ops J) thr Nr)%nat in
  length (view_M (O:=R_ops J) thr Ns Ms Nr Mr) = n /\ length (view_N (O:=R_ops J) thr Ns Nr) = n /\
  length (view_m (O:=R_ops J) thr Ns Ms Nr Mr) = n /\ length (view_types (O:=R_ops J) thr Ns Nr rem_types) = n.
Proof.
  intros J thr Ns Ms Nr Mr rem_types HMs HMr Hty n.
  assert (HM : length (view_M (O:=R_ops J) thr Ns Ms Nr Mr) = n).
  { unfold view_M, n, nms, nmr. rewrite app_length.
    rewrite (sel_length J _ thr Ns Ms HMs), (sel_length J _ thr Nr Mr HMr).
    rewrite !sel_self. reflexivity. }
  assert (HN : length (view_N (O:=R_ops J) thr Ns Nr) = n).
  { unfold view_N, n, nms, nmr. rewrite app_length. reflexivity. }
  split; [exact HM|]. split; [exact HN|]. split.
  - unfold view_m. rewrite map_length, combine_length, HM, HN. apply Nat.min_id.
  - unfold view_types, n, nms, nmr. rewrite app_length, !map_length.
    rewrite (sel_length J _ thr Nr rem_types Hty), !sel_self. reflexivity.
Qed.

Lemma types_order : forall J thr Ns Nr rem_types,
  exists k, view_types (O:=R_ops J) thr Ns Nr rem_types =
            repeat TMS (nms (O:=R_ops J) thr Ns) ++ map TRem k /\
            k = sel (O:=R_ops J) thr Nr rem_types.
Proof.
  intros J thr Ns Nr rem_types.
  exists (sel (O:=R_ops J) thr Nr rem_types). split; [|reflexivity].
  unfold view_types, nms. rewrite map_const_repeat. reflexivity.
Qed.

Lemma listed_bins_populated : forall J thr Ns Nr n,
  In n (view_N (O:=R_ops J) thr Ns Nr) -> thr < n.
Proof.
  intros J thr Ns Nr n Hin. rewrite view_N_spec in Hin.
  apply in_app_or in Hin.
  destruct Hin as [Hin|Hin]; apply filter_In in Hin; destruct Hin as [_ Hlt];
    apply Rltb_true in Hlt; exact Hlt.
Qed.

Lemma m_is_M_over_N : forall J thr Ns Ms Nr Mr i M N, 0 <= thr ->
  nth_error (view_M (O:=R_ops J) thr Ns Ms Nr Mr) i = Some M ->
  nth_error (view_N (O:=R_ops J) thr Ns Nr) i = Some N ->
  nth_error (view_m (O:=R_ops J) thr Ns Ms Nr Mr) i = Some (M / N).
Proof.
  intros J thr Ns Ms Nr Mr i M N Hthr HM HN.
  unfold view_m.
  rewrite (nth_error_map_combine _ _ _ _ _ _ i M N HM HN). simpl.
  assert (Hlt : thr < N).
  { apply (listed_bins_populated J thr Ns Nr N). eapply nth_error_In; exact HN. }
  rewrite Rdiv_j_ok; [reflexivity|lra].
Qed.
