(* Proofs/BinsProofs.v -- proofs of the C13 statements (Properties/C13.v)
   about Model/Bins.v.  No axioms beyond the standard library's reals. *)
From Coq Require Import List Reals Sorted Arith Lia Lra Bool ZArith.
From SSP Require Import Num RFacts Model.Bins Model.BinsSpec.
Import ListNotations.
Local Open Scope R_scope.

(* ------------------------------------------------------------------ *)
(* bin counts *)

Lemma fold_add_app (l1 l2 : list nat) :
  fold_right Nat.add 0%nat (l1 ++ l2) =
  (fold_right Nat.add 0 l1 + fold_right Nat.add 0 l2)%nat.
Proof. induction l1 as [|x l1 IH]; simpl; [reflexivity|rewrite IH; lia]. Qed.

Lemma fold_add_repeat (x n : nat) :
  fold_right Nat.add 0%nat (repeat x n) = (n * x)%nat.
Proof. induction n as [|n IH]; simpl; [reflexivity|rewrite IH; lia]. Qed.

Lemma divide_bin_sizes_spec : forall N Nsec, (0 < Nsec)%nat ->
  length (divide_bin_sizes N Nsec) = Nsec /\
  fold_right Nat.add 0%nat (divide_bin_sizes N Nsec) = N /\
  Forall (fun n => n = (N / Nsec)%nat \/ n = S (N / Nsec)) (divide_bin_sizes N Nsec).
Proof.
  intros N Nsec H. unfold divide_bin_sizes.
  assert (Hr : (N mod Nsec < Nsec)%nat) by (apply Nat.mod_upper_bound; lia).
  assert (Hd : N = (Nsec * (N / Nsec) + N mod Nsec)%nat) by (apply Nat.div_mod; lia).
  set (q := (N / Nsec)%nat) in *. set (r := (N mod Nsec)%nat) in *.
  clearbody q r.
  split; [|split].
  - rewrite app_length, !repeat_length. lia.
  - rewrite fold_add_app, !fold_add_repeat.
    assert (Hk : exists k, Nsec = (r + k)%nat) by (exists (Nsec - r)%nat; lia).
    destruct Hk as [k Hk]. subst Nsec. replace (r + k - r)%nat with k by lia. nia.
  - apply Forall_app; split; apply Forall_forall; intros x Hx;
      apply repeat_spec in Hx; auto.
Qed.

(* ------------------------------------------------------------------ *)
(* packing *)

Lemma blueprint_spec : forall L,
  blueprint L = [0; nMS L; nMS L + nMS L; nMS L + nMS L + nWD L;
                 nMS L + nMS L + nWD L + nNS L; nMS L + nMS L + nWD L + nNS L + nBH L;
                 nMS L + nMS L + nWD L + nNS L + nBH L + nWD L;
                 nMS L + nMS L + nWD L + nNS L + nBH L + nWD L + nNS L;
                 nMS L + nMS L + nWD L + nNS L + nBH L + nWD L + nNS L + nBH L]%nat.
Proof. intros L. reflexivity. Qed.

Section Slices.
  Context {T : Type}.
  Implicit Types (y a b c r : list T).

  Lemma slice_skip a r i j : (length a <= i)%nat ->
    slice (a ++ r) i j = slice r (i - length a) (j - length a).
  Proof.
    intros H. unfold slice. rewrite skipn_app, (skipn_all2 a) by exact H.
    simpl. f_equal. lia.
  Qed.

  Lemma slice_hd b c i j : i = 0%nat -> j = length b -> slice (b ++ c) i j = b.
  Proof.
    intros -> ->. unfold slice. simpl. rewrite Nat.sub_0_r, firstn_app, firstn_all.
    rewrite Nat.sub_diag. simpl. apply app_nil_r.
  Qed.

  Lemma slice_full b i j : i = 0%nat -> j = length b -> slice b i j = b.
  Proof. intros -> ->. unfold slice. simpl. rewrite Nat.sub_0_r. apply firstn_all. Qed.

  Lemma slice_length y i j : (i <= j)%nat -> (j <= length y)%nat ->
    length (slice y i j) = (j - i)%nat.
  Proof. intros H1 H2. unfold slice. rewrite firstn_length, skipn_length. lia. Qed.

  Lemma firstn_cat n m y : firstn n y ++ firstn m (skipn n y) = firstn (n + m) y.
  Proof.
    revert y; induction n as [|n IH]; intros y; simpl; [reflexivity|].
    destruct y as [|x y]; simpl; [apply firstn_nil|]. rewrite IH. reflexivity.
  Qed.

  Lemma skipn_skipn' n m y : skipn m (skipn n y) = skipn (n + m) y.
  Proof.
    revert y; induction n as [|n IH]; intros y; simpl; [reflexivity|].
    destruct y as [|x y]; simpl; [apply skipn_nil|]. apply IH.
  Qed.

  Lemma slice_cat y i j k : (i <= j)%nat -> (j <= k)%nat ->
    slice y i j ++ slice y j k = slice y i k.
  Proof.
    intros H1 H2. unfold slice.
    replace (skipn j y) with (skipn (j - i) (skipn i y))
      by (rewrite skipn_skipn'; f_equal; lia).
    rewrite firstn_cat. f_equal. lia.
  Qed.
End Slices.

Lemma pack_size_mismatch : forall (L : layout) (u : unpacked (T:=R)),
  sizes_ok L u = false -> pack L u = Err ValueError.
Proof. intros L u H. unfold pack. rewrite H. reflexivity. Qed.

Lemma unpack_pack : forall (L : layout) (u : unpacked (T:=R)) y,
  pack L u = Ok y -> length y = ysize L /\ unpack L y = u.
Proof.
  intros L u y H. unfold pack in H. destruct (sizes_ok L u) eqn:Hs; [|discriminate].
  injection H as <-. unfold sizes_ok in Hs.
  rewrite !andb_true_iff, !Nat.eqb_eq in Hs.
  destruct Hs as [[[[[[[H0 H1] H2] H3] H4] H5] H6] H7].
  destruct u as [l0 l1 l2 l3 l4 l5 l6 l7].
  cbn [uNs uAlpha uNwd uNns uNbh uMwd uMns uMbh] in *.
  split.
  - rewrite !app_length. unfold ysize. lia.
  - unfold unpack. rewrite blueprint_spec.
    cbn [nth].
    f_equal;
      repeat (rewrite slice_skip by lia);
      first [apply slice_hd; lia | apply slice_full; lia].
Qed.

Lemma pack_unpack : forall (L : layout) (y : list R),
  length y = ysize L -> pack L (unpack L y) = Ok y.
Proof.
  intros L y H. unfold pack. unfold ysize in H.
  assert (Hs : sizes_ok L (unpack L y) = true).
  { unfold sizes_ok, unpack. rewrite blueprint_spec.
    cbn [nth uNs uAlpha uNwd uNns uNbh uMwd uMns uMbh].
    rewrite !slice_length by lia.
    rewrite !andb_true_iff, !Nat.eqb_eq. repeat split; lia. }
  rewrite Hs. f_equal. unfold unpack. rewrite blueprint_spec.
  cbn [nth uNs uAlpha uNwd uNns uNbh uMwd uMns uMbh].
  repeat (rewrite slice_cat by lia).
  apply slice_full; lia.
Qed.

(* ------------------------------------------------------------------ *)
(* generic list helpers *)

Lemma last_nth' {A} (l : list A) d : last l d = nth (length l - 1) l d.
Proof.
  induction l as [|x l IH]; [reflexivity|].
  destruct l as [|y l]; [reflexivity|].
  change (last (x :: y :: l) d) with (last (y :: l) d). rewrite IH.
  simpl. rewrite Nat.sub_0_r. reflexivity.
Qed.

Lemma last_cons_ne {A} (x : A) l d : l <> [] -> last (x :: l) d = last l d.
Proof. intros H. destruct l; [congruence|reflexivity]. Qed.

Lemma last_indep {A} (l : list A) d d' : l <> [] -> last l d = last l d'.
Proof.
  induction l as [|x l IH]; intros H; [congruence|].
  destruct l as [|y l]; [reflexivity|].
  change (last (y :: l) d = last (y :: l) d'). apply IH. discriminate.
Qed.

Lemma last_cons_default {A} (x : A) l d : last (x :: l) d = last l x.
Proof.
  destruct l as [|y l]; [reflexivity|].
  rewrite last_cons_ne by discriminate. apply last_indep. discriminate.
Qed.

Lemma hd_nth0 {A} (l : list A) d : hd d l = nth 0 l d.
Proof. destruct l; reflexivity. Qed.

Lemma filter_all {A} (f : A -> bool) l :
  (forall x, In x l -> f x = true) -> filter f l = l.
Proof.
  induction l as [|x l IH]; intros H; [reflexivity|]. simpl.
  rewrite (H x (or_introl eq_refl)). f_equal. apply IH. intros y Hy. apply H. right; exact Hy.
Qed.

Lemma filter_none {A} (f : A -> bool) l :
  (forall x, In x l -> f x = false) -> filter f l = [].
Proof.
  induction l as [|x l IH]; intros H; [reflexivity|]. simpl.
  rewrite (H x (or_introl eq_refl)). apply IH. intros y Hy. apply H. right; exact Hy.
Qed.

(* ------------------------------------------------------------------ *)
(* tiling *)

Lemma tiling_nil : tiling [].
Proof. split; [constructor|]. intros i Hi. simpl in Hi. lia. Qed.

Lemma tiling_cons_iff p r :
  tiling (p :: r) <->
  fst p < snd p /\ (r <> [] -> snd p = fst (hd (0, 0) r)) /\ tiling r.
Proof.
  unfold tiling. split.
  - intros [HF Hc]. inversion HF as [|? ? Hp HFr]; subst. split; [exact Hp|]. split.
    + intros Hr. destruct r as [|q r']; [congruence|].
      exact (Hc 0%nat ltac:(simpl; lia)).
    + split; [exact HFr|]. intros i Hi. exact (Hc (S i) ltac:(simpl; lia)).
  - intros [Hp [Hh [HFr Hc]]]. split; [constructor; assumption|].
    intros i Hi. destruct i as [|i].
    + destruct r as [|q r']; [simpl in Hi; lia|]. apply Hh. discriminate.
    + apply (Hc i). simpl in Hi. lia.
Qed.

Lemma tiling_tail_above r : forall p, tiling (p :: r) ->
  Forall (fun q => snd p <= fst q /\ fst q < snd q) r.
Proof.
  induction r as [|q r IH]; intros p H; [constructor|].
  apply tiling_cons_iff in H. destruct H as [Hp [Hh Ht]].
  specialize (Hh ltac:(discriminate)). simpl in Hh.
  pose proof (IH q Ht) as HF.
  apply tiling_cons_iff in Ht. destruct Ht as [Hq _].
  constructor; [lra|].
  eapply Forall_impl; [|exact HF]. simpl. intros x [Hx1 Hx2]. lra.
Qed.

Lemma tiling_nth_lt b i : tiling b -> (i < length b)%nat ->
  fst (nth i b (0, 0)) < snd (nth i b (0, 0)).
Proof. intros [HF _] Hi. exact (proj1 (Forall_nth _ _) HF i (0, 0) Hi). Qed.

Lemma tiling_nth_le b : tiling b -> forall j i, (i < j)%nat -> (j < length b)%nat ->
  snd (nth i b (0, 0)) <= fst (nth j b (0, 0)).
Proof.
  intros Ht j. induction j as [|j IH]; intros i Hij Hj; [lia|].
  destruct (Nat.eq_dec i j) as [->|Hne].
  - right. apply (proj2 Ht). exact Hj.
  - assert (Hi : (i < j)%nat) by lia.
    pose proof (IH i Hi ltac:(lia)) as H1.
    pose proof (tiling_nth_lt b j Ht ltac:(lia)) as H2.
    pose proof (proj2 Ht j Hj) as H3. lra.
Qed.

Lemma tiling_lower_mono b : tiling b -> forall i j, (i <= j)%nat -> (j < length b)%nat ->
  fst (nth i b (0, 0)) <= fst (nth j b (0, 0)).
Proof.
  intros Ht i j Hij Hj. destruct (Nat.eq_dec i j) as [->|Hne]; [lra|].
  pose proof (tiling_nth_lt b i Ht ltac:(lia)).
  pose proof (tiling_nth_le b Ht j i ltac:(lia) Hj). lra.
Qed.

Lemma tiling_upper_mono b : tiling b -> forall i j, (i <= j)%nat -> (j < length b)%nat ->
  snd (nth i b (0, 0)) <= snd (nth j b (0, 0)).
Proof.
  intros Ht i j Hij Hj. destruct (Nat.eq_dec i j) as [->|Hne]; [lra|].
  pose proof (tiling_nth_lt b j Ht ltac:(lia)).
  pose proof (tiling_nth_le b Ht j i ltac:(lia) Hj). lra.
Qed.

Lemma bin_unique b m i k : tiling b ->
  (i < length b)%nat -> fst (nth i b (0, 0)) <= m < snd (nth i b (0, 0)) ->
  (k < length b)%nat -> fst (nth k b (0, 0)) <= m ->
  ((S k < length b)%nat -> m < fst (nth (S k) b (0, 0))) -> i = k.
Proof.
  intros Ht Hi Hb Hk H1 H2.
  destruct (lt_eq_lt_dec i k) as [[Hlt|Heq]|Hgt]; [exfalso|exact Heq|exfalso].
  - pose proof (tiling_nth_le b Ht k i Hlt Hk). lra.
  - pose proof (H2 ltac:(lia)).
    pose proof (tiling_lower_mono b Ht (S k) i ltac:(lia) Hi). lra.
Qed.

(* ------------------------------------------------------------------ *)
(* stellar bins from edges *)

Lemma bins_of_edges_cons2 (x y : R) s :
  bins_of_edges (x :: y :: s) = (x, y) :: bins_of_edges (y :: s).
Proof. reflexivity. Qed.

Lemma bins_of_edges_tile : forall s, StronglySorted Rlt s -> (2 <= length s)%nat ->
  let b := bins_of_edges s in
  length b = (length s - 1)%nat /\ tiling b /\
  fst (hd (0, 0) b) = hd 0 s /\ snd (last b (0, 0)) = last s 0.
Proof.
  intros s. cbv zeta.
  induction s as [|x t IH]; intros Hs Hlen; [simpl in Hlen; lia|].
  destruct t as [|y t']; [simpl in Hlen; lia|].
  apply StronglySorted_inv in Hs. destruct Hs as [Hst HF].
  assert (Hxy : x < y) by (inversion HF; assumption).
  rewrite bins_of_edges_cons2.
  destruct t' as [|z t''].
  - cbv [bins_of_edges removelast tl combine]. simpl.
    repeat split.
    + repeat constructor. simpl. exact Hxy.
    + intros i Hi. simpl in Hi. lia.
  - destruct (IH Hst ltac:(simpl; lia)) as [IH1 [IH2 [IH3 IH4]]].
    set (bt := bins_of_edges (y :: z :: t'')) in *.
    assert (Hbt : bt <> []) by (intros E; rewrite E in IH1; simpl in IH1; lia).
    repeat split.
    + simpl length in *. lia.
    + apply (proj1 (proj2 (tiling_cons_iff (x, y) bt) (conj Hxy (conj (fun _ => eq_sym IH3) IH2)))).
    + apply (proj2 (proj2 (tiling_cons_iff (x, y) bt) (conj Hxy (conj (fun _ => eq_sym IH3) IH2)))).
    + rewrite last_cons_ne by exact Hbt. rewrite IH4. reflexivity.
Qed.

(* ------------------------------------------------------------------ *)
Section WithJ.
  Variable J : Junk.

  (* ---- lookup ---- *)
  Lemma last_le_cons lo up r m i acc :
    last_le (O:=R_ops J) ((lo, up) :: r) m i acc =
    last_le (O:=R_ops J) r m (S i) (if Rleb lo m then Some i else acc).
  Proof. reflexivity. Qed.

  Lemma last_le_spec b : forall m i acc,
    (Forall (fun p => m < fst p) b /\ last_le (O:=R_ops J) b m i acc = acc) \/
    (exists k, (k < length b)%nat /\
       last_le (O:=R_ops J) b m i acc = Some (i + k)%nat /\
       fst (nth k b (0, 0)) <= m /\
       ((S k < length b)%nat -> m < fst (nth (S k) b (0, 0)))).
  Proof.
    induction b as [|[lo up] r IH]; intros m i acc.
    - left. split; [constructor|reflexivity].
    - rewrite last_le_cons.
      destruct (IH m (S i) (if Rleb lo m then Some i else acc))
        as [[HF He]|[k [Hk [He [H1 H2]]]]].
      + destruct (Rleb_spec lo m) as [Hle|Hnle].
        * right. exists 0%nat. split; [simpl; lia|].
          split; [rewrite He; f_equal; lia|]. split; [exact Hle|].
          intros Hlen. destruct r as [|q r']; [simpl in Hlen; lia|].
          inversion HF; subst; assumption.
        * left. split; [constructor; [simpl; lra|exact HF]|exact He].
      + right. exists (S k). split; [simpl; lia|].
        split; [rewrite He; f_equal; lia|]. split; [exact H1|].
        intros Hlen. apply H2. simpl in Hlen. lia.
  Qed.

  Lemma determine_index_unf m b :
    determine_index (O:=R_ops J) m b false =
    match last_le (O:=R_ops J) b m 0 None with
    | None => Err ValueError
    | Some ind =>
        if Nat.leb (length b - 1) ind then
          if Rleb (snd (last b (0, 0))) m && true then Err ValueError else Ok ind
        else Ok ind
    end.
  Proof. reflexivity. Qed.

  Lemma determine_index_spec : forall b m i, tiling b -> b <> [] ->
    (determine_index (O:=R_ops J) m b false = Ok i <->
     (i < length b)%nat /\ fst (nth i b (0, 0)) <= m < snd (nth i b (0, 0))).
  Proof.
    intros b m i Ht Hne. rewrite determine_index_unf, last_nth'.
    destruct (last_le_spec b m 0%nat None) as [[HF He]|[k [Hk [He [H1 H2]]]]]; rewrite He.
    - split; [discriminate|]. intros [Hi [Hlo _]]. exfalso.
      pose proof (proj1 (Forall_nth _ _) HF i (0, 0) Hi) as H. simpl in H. lra.
    - change (0 + k)%nat with k.
      assert (Huniq : (i < length b)%nat /\
                fst (nth i b (0, 0)) <= m < snd (nth i b (0, 0)) -> i = k).
      { intros [Hi Hb]. exact (bin_unique b m i k Ht Hi Hb Hk H1 H2). }
      destruct (Nat.leb_spec (length b - 1) k) as [Hge|Hlt].
      + assert (Hk' : (length b - 1)%nat = k) by lia. rewrite Hk'.
        destruct (Rleb_spec (snd (nth k b (0, 0))) m) as [Hle|Hnle]; simpl.
        * split; [discriminate|]. intros Hb. pose proof (Huniq Hb) as ->. lra.
        * split.
          -- intros [= <-]. split; [exact Hk|]. lra.
          -- intros Hb. rewrite (Huniq Hb). reflexivity.
      + pose proof (proj2 Ht k ltac:(lia)) as Hc.
        pose proof (H2 ltac:(lia)) as Hm.
        split.
        * intros [= <-]. split; [exact Hk|]. lra.
        * intros Hb. rewrite (Huniq Hb). reflexivity.
  Qed.

  Lemma determine_index_raises : forall b m, tiling b -> b <> [] ->
    (determine_index (O:=R_ops J) m b false = Err ValueError <->
     m < fst (hd (0, 0) b) \/ snd (last b (0, 0)) <= m).
  Proof.
    intros b m Ht Hne. rewrite determine_index_unf, last_nth', hd_nth0.
    assert (Hlen : (0 < length b)%nat) by (destruct b; [congruence|simpl; lia]).
    destruct (last_le_spec b m 0%nat None) as [[HF He]|[k [Hk [He [H1 H2]]]]]; rewrite He.
    - split; [|reflexivity]. intros _. left.
      exact (proj1 (Forall_nth _ _) HF 0%nat (0, 0) Hlen).
    - change (0 + k)%nat with k.
      pose proof (tiling_lower_mono b Ht 0%nat k ltac:(lia) Hk) as Hlo0.
      destruct (Nat.leb_spec (length b - 1) k) as [Hge|Hlt].
      + assert (Hk' : (length b - 1)%nat = k) by lia. rewrite Hk'.
        destruct (Rleb_spec (snd (nth k b (0, 0))) m) as [Hle|Hnle]; simpl.
        * split; [|reflexivity]. intros _. right. exact Hle.
        * split; [discriminate|]. intros [Hlo|Hup]; exfalso; lra.
      + split; [discriminate|].
        pose proof (H2 ltac:(lia)) as Hm.
        pose proof (tiling_nth_lt b (S k) Ht ltac:(lia)) as Hlt'.
        pose proof (tiling_upper_mono b Ht (S k) (length b - 1)%nat ltac:(lia) ltac:(lia)) as Hup'.
        intros [Hlo|Hup]; exfalso; lra.
  Qed.

  (* ---- turn-off ---- *)
  Lemma set_upper_length (b : list (R * R)) : forall i x, length (set_upper b i x) = length b.
  Proof.
    induction b as [|[lo up] r IH]; intros i x; [reflexivity|].
    destruct i as [|i]; simpl; [reflexivity|]. rewrite IH. reflexivity.
  Qed.

  Lemma set_upper_fst (b : list (R * R)) : forall i x, map fst (set_upper b i x) = map fst b.
  Proof.
    induction b as [|[lo up] r IH]; intros i x; [reflexivity|].
    destruct i as [|i]; simpl; [reflexivity|]. rewrite IH. reflexivity.
  Qed.

  Lemma set_upper_nth_same (b : list (R * R)) : forall i x, (i < length b)%nat ->
    nth i (map snd (set_upper b i x)) 0 = x.
  Proof.
    induction b as [|[lo up] r IH]; intros i x Hi; [simpl in Hi; lia|].
    destruct i as [|i]; simpl; [reflexivity|]. apply IH. simpl in Hi. lia.
  Qed.

  Lemma set_upper_nth_other (b : list (R * R)) : forall i j x, j <> i ->
    nth j (map snd (set_upper b i x)) 0 = nth j (map snd b) 0.
  Proof.
    induction b as [|[lo up] r IH]; intros i j x Hij; [reflexivity|].
    destruct i as [|i]; destruct j as [|j]; simpl; try reflexivity; try congruence.
    apply IH. congruence.
  Qed.

  Lemma turned_off_inside : forall b mto i, tiling b -> b <> [] ->
    (i < length b)%nat -> fst (nth i b (0, 0)) <= mto < snd (nth i b (0, 0)) ->
    let b' := turned_off_bins (O:=R_ops J) b mto in
    length b' = length b /\
    map fst b' = map fst b /\
    nth i (map snd b') 0 = mto /\
    (forall j, j <> i -> nth j (map snd b') 0 = nth j (map snd b) 0).
  Proof.
    intros b mto i Ht Hne Hi Hb. cbv zeta.
    assert (Hd : determine_index (O:=R_ops J) mto b false = Ok i)
      by (apply determine_index_spec; auto).
    unfold turned_off_bins. rewrite Hd.
    split; [apply set_upper_length|]. split; [apply set_upper_fst|].
    split; [apply set_upper_nth_same; exact Hi|].
    intros j Hj. apply set_upper_nth_other; exact Hj.
  Qed.

  Lemma turned_off_outside : forall b mto, tiling b -> b <> [] ->
    mto < fst (hd (0, 0) b) \/ snd (last b (0, 0)) <= mto ->
    turned_off_bins (O:=R_ops J) b mto = b.
  Proof.
    intros b mto Ht Hne Hout.
    assert (Hd : determine_index (O:=R_ops J) mto b false = Err ValueError)
      by (apply determine_index_raises; auto).
    unfold turned_off_bins. rewrite Hd. reflexivity.
  Qed.

  (* ---- remnant bins ---- *)
  Lemma carve_BH_unf ms x :
    carve_BH (O:=R_ops J) ms x =
    match filter (fun p => Rltb x (snd p)) ms with
    | [] => Ok []
    | l => Ok (set_first_lower l x)
    end.
  Proof. reflexivity. Qed.

  Lemma carve_WD_unf ms x :
    carve_WD (O:=R_ops J) ms x =
    match filter (fun p => Rleb (fst p) x) ms with
    | [] => Ok []
    | l => Ok (set_last_upper l x)
    end.
  Proof. reflexivity. Qed.

  Lemma carve_NS_unf ms c :
    carve_NS (O:=R_ops J) ms c =
    filter (fun p => Rleb (fst p) c && Rltb c (snd p)) ms.
  Proof. reflexivity. Qed.

  Lemma carve_BH_aux bh_lo : forall ms, tiling ms -> ms <> [] ->
    bh_lo < snd (last ms (0, 0)) ->
    exists p l, filter (fun p => Rltb bh_lo (snd p)) ms = p :: l /\
      bh_lo < snd p /\ tiling (p :: l) /\
      snd (last (p :: l) (0, 0)) = snd (last ms (0, 0)) /\
      (forall q, In q l -> In q ms).
  Proof.
    induction ms as [|p r IH]; intros Ht Hne Hlast; [congruence|].
    destruct (Rlt_dec bh_lo (snd p)) as [Hlt|Hnlt].
    - exists p, r. split.
      + apply filter_all. intros x [<-|Hx]; [apply Rltb_true; exact Hlt|].
        pose proof (tiling_tail_above r p Ht) as HF.
        destruct (proj1 (Forall_forall _ _) HF x Hx) as [Hx1 Hx2].
        apply Rltb_true. lra.
      + split; [exact Hlt|]. split; [exact Ht|]. split; [reflexivity|].
        intros q Hq. right. exact Hq.
    - assert (Hr : r <> []) by (intros ->; simpl in Hlast; lra).
      rewrite last_cons_ne in Hlast by exact Hr.
      apply tiling_cons_iff in Ht. destruct Ht as [Hp [Hh Ht]].
      destruct (IH Ht Hr Hlast) as [p' [l [Hf [Hb [Htl [Hl Hin]]]]]].
      exists p', l. split.
      + simpl filter. rewrite (proj2 (Rltb_false bh_lo (snd p))) by lra. exact Hf.
      + split; [exact Hb|]. split; [exact Htl|].
        split; [rewrite (last_cons_ne p r) by exact Hr; exact Hl|].
        intros q Hq. right. apply Hin. exact Hq.
  Qed.

  Lemma carve_BH_spec : forall ms bh_lo, tiling ms -> ms <> [] ->
    bh_lo < snd (last ms (0, 0)) ->
    exists bh, carve_BH (O:=R_ops J) ms bh_lo = Ok bh /\ tiling bh /\ bh <> [] /\
      fst (hd (0, 0) bh) = bh_lo /\ snd (last bh (0, 0)) = snd (last ms (0, 0)) /\
      (forall p, In p (tl bh) -> In p ms).
  Proof.
    intros ms bh_lo Ht Hne Hlast.
    destruct (carve_BH_aux bh_lo ms Ht Hne Hlast) as [[plo pup] [l [Hf [Hb [Htl [Hl Hin]]]]]].
    rewrite carve_BH_unf, Hf. simpl set_first_lower.
    exists ((bh_lo, pup) :: l). split; [reflexivity|].
    apply tiling_cons_iff in Htl. destruct Htl as [Hp [Hh Htl]]. simpl in Hb, Hh.
    split; [apply tiling_cons_iff; simpl; auto|].
    split; [discriminate|]. split; [reflexivity|].
    split; [|exact Hin].
    rewrite <- Hl. destruct l as [|q l']; reflexivity.
  Qed.

  Lemma set_last_upper_cons (p : R * R) l x : l <> [] ->
    set_last_upper (p :: l) x = p :: set_last_upper l x.
  Proof. intros H. destruct p as [lo up]. destruct l; [congruence|reflexivity]. Qed.

  Lemma carve_WD_aux x : forall ms, tiling ms -> ms <> [] ->
    fst (hd (0, 0) ms) < x -> Forall (fun p => fst p <> x) ms ->
    filter (fun p => Rleb (fst p) x) ms <> [] /\
    tiling (set_last_upper (filter (fun p => Rleb (fst p) x) ms) x) /\
    set_last_upper (filter (fun p => Rleb (fst p) x) ms) x <> [] /\
    fst (hd (0, 0) (set_last_upper (filter (fun p => Rleb (fst p) x) ms) x))
      = fst (hd (0, 0) ms) /\
    snd (last (set_last_upper (filter (fun p => Rleb (fst p) x) ms) x) (0, 0)) = x /\
    (forall p, In p (removelast (set_last_upper (filter (fun p => Rleb (fst p) x) ms) x))
               -> In p ms).
  Proof.
    induction ms as [|p r IH]; intros Ht Hne Hlo Hnx; [congruence|].
    simpl in Hlo. simpl filter. rewrite (proj2 (Rleb_true (fst p) x)) by lra.
    set (F := filter (fun p0 : R * R => Rleb (fst p0) x) r) in *.
    assert (Hsingle : F = [] ->
      (p :: F <> [] /\ tiling (set_last_upper (p :: F) x) /\
       set_last_upper (p :: F) x <> [] /\
       fst (hd (0, 0) (set_last_upper (p :: F) x)) = fst (hd (0, 0) (p :: r)) /\
       snd (last (set_last_upper (p :: F) x) (0, 0)) = x /\
       (forall p0, In p0 (removelast (set_last_upper (p :: F) x)) -> In p0 (p :: r)))).
    { intros ->. destruct p as [lo up]. simpl in *.
      split; [discriminate|]. split; [apply tiling_cons_iff; simpl; split; [lra|]; split; [congruence|apply tiling_nil]|].
      split; [discriminate|]. split; [reflexivity|]. split; [reflexivity|].
      intros p0 []. }
    destruct r as [|q r'].
    - apply Hsingle. reflexivity.
    - pose proof Ht as Ht0.
      apply tiling_cons_iff in Ht. destruct Ht as [Hp [Hh Ht]].
      specialize (Hh ltac:(discriminate)). simpl in Hh.
      inversion Hnx as [|? ? Hpx Hnx']; subst.
      destruct (Rle_dec (fst q) x) as [Hle|Hnle].
      + assert (Hqx : fst q <> x) by (inversion Hnx'; assumption).
        destruct (IH Ht ltac:(discriminate) ltac:(simpl; lra) Hnx')
          as [I1 [I2 [I3 [I4 [I5 I6]]]]].
        fold F in I1, I2, I3, I4, I5, I6.
        rewrite set_last_upper_cons by exact I1.
        set (wd' := set_last_upper F x) in *.
        split; [discriminate|].
        split; [apply tiling_cons_iff; split; [exact Hp|]; split; [intros _; rewrite I4; exact Hh|exact I2]|].
        split; [discriminate|]. split; [reflexivity|].
        split; [rewrite last_cons_ne by exact I3; exact I5|].
        intros p0 Hp0.
        assert (Hrl : removelast (p :: wd') = p :: removelast wd')
          by (destruct wd'; [congruence|reflexivity]).
        rewrite Hrl in Hp0. destruct Hp0 as [<-|Hp0]; [left; reflexivity|].
        right. apply I6. exact Hp0.
      + apply Hsingle. apply filter_none.
        intros y Hy. apply Rleb_false.
        destruct Hy as [<-|Hy]; [lra|].
        pose proof (tiling_tail_above r' q Ht) as HF.
        destruct (proj1 (Forall_forall _ _) HF y Hy) as [Hy1 Hy2].
        apply tiling_cons_iff in Ht. destruct Ht as [Hq _]. lra.
  Qed.

  Lemma carve_WD_spec : forall ms wd_up, tiling ms -> ms <> [] ->
    fst (hd (0, 0) ms) < wd_up ->
    Forall (fun p => fst p <> wd_up) ms ->
    exists wd, carve_WD (O:=R_ops J) ms wd_up = Ok wd /\ tiling wd /\ wd <> [] /\
      fst (hd (0, 0) wd) = fst (hd (0, 0) ms) /\ snd (last wd (0, 0)) = wd_up /\
      (forall p, In p (removelast wd) -> In p ms).
  Proof.
    intros ms x Ht Hne Hlo Hnx.
    destruct (carve_WD_aux x ms Ht Hne Hlo Hnx) as [I1 [I2 [I3 [I4 [I5 I6]]]]].
    rewrite carve_WD_unf.
    destruct (filter (fun p : R * R => Rleb (fst p) x) ms) as [|p l] eqn:HF; [congruence|].
    exists (set_last_upper (p :: l) x). split; [reflexivity|]. auto.
  Qed.

  Lemma carve_NS_unique : forall ms c14 i, tiling ms ->
    (i < length ms)%nat -> fst (nth i ms (0, 0)) <= c14 < snd (nth i ms (0, 0)) ->
    carve_NS (O:=R_ops J) ms c14 = [nth i ms (0, 0)].
  Proof.
    intros ms c i Ht. rewrite carve_NS_unf. revert i.
    induction ms as [|p r IH]; intros i Hi Hb; [simpl in Hi; lia|].
    pose proof (tiling_tail_above r p Ht) as HF.
    destruct i as [|i]; simpl nth in *.
    - simpl filter. rewrite (proj2 (Rleb_true (fst p) c)) by lra.
      rewrite (proj2 (Rltb_true c (snd p))) by lra. simpl. f_equal.
      apply filter_none. intros x Hx.
      destruct (proj1 (Forall_forall _ _) HF x Hx) as [H1 H2].
      rewrite (proj2 (Rleb_false (fst x) c)) by lra. reflexivity.
    - simpl in Hi. assert (Hi' : (i < length r)%nat) by lia.
      destruct (proj1 (Forall_forall _ _) HF _ (nth_In r (0, 0) Hi')) as [H1 H2].
      simpl filter. rewrite (proj2 (Rltb_false c (snd p))) by lra.
      rewrite andb_false_r. apply IH; [|exact Hi'|exact Hb].
      apply tiling_cons_iff in Ht. tauto.
  Qed.

  (* a point of the tiled range lies in some (left-inclusive) bin *)
  Lemma tiling_locate (m : R) : forall b, tiling b -> b <> [] ->
    fst (hd (0, 0) b) <= m < snd (last b (0, 0)) ->
    exists i, (i < length b)%nat /\ fst (nth i b (0, 0)) <= m < snd (nth i b (0, 0)).
  Proof.
    induction b as [|p r IH]; intros Ht Hne Hm; [congruence|].
    destruct (Rlt_dec m (snd p)) as [Hlt|Hnlt].
    - exists 0%nat. simpl in *. split; [lia|lra].
    - assert (Hr : r <> []) by (intros ->; simpl in Hm; lra).
      rewrite last_cons_ne in Hm by exact Hr.
      apply tiling_cons_iff in Ht. destruct Ht as [Hp [Hh Htr]].
      specialize (Hh Hr).
      destruct (IH Htr Hr ltac:(split; [rewrite <- Hh; lra|tauto])) as [i [Hi Hb]].
      exists (S i). split; [simpl; lia|exact Hb].
  Qed.

  Lemma carve_NS_exists : forall ms c14, tiling ms -> ms <> [] ->
    fst (hd (0, 0) ms) <= c14 < snd (last ms (0, 0)) ->
    exists i, (i < length ms)%nat /\ carve_NS (O:=R_ops J) ms c14 = [nth i ms (0, 0)].
  Proof.
    intros ms c14 Ht Hne Hm.
    destruct (tiling_locate c14 ms Ht Hne Hm) as [i [Hi Hb]].
    exists i. split; [exact Hi|]. apply carve_NS_unique; assumption.
  Qed.
End WithJ.

(* ------------------------------------------------------------------ *)
(* edges *)

Lemma SSorted_app (l1 l2 : list R) :
  StronglySorted Rlt l1 -> StronglySorted Rlt l2 ->
  (forall x y, In x l1 -> In y l2 -> x < y) -> StronglySorted Rlt (l1 ++ l2).
Proof.
  induction l1 as [|a l1 IH]; intros H1 H2 H; [exact H2|].
  apply StronglySorted_inv in H1. destruct H1 as [H1 HF]. simpl. constructor.
  - apply IH; auto. intros x y Hx Hy. apply H; [right; exact Hx|exact Hy].
  - apply Forall_app. split; [exact HF|]. apply Forall_forall. intros y Hy.
    apply H; [left; reflexivity|exact Hy].
Qed.

Lemma mono_steps (g : nat -> R) :
  (forall j, g j < g (S j)) -> forall i j, (i < j)%nat -> g i < g j.
Proof.
  intros Hs i j Hij. induction Hij as [|m Hm IH]; [apply Hs|].
  eapply Rlt_trans; [exact IH|apply Hs].
Qed.

Lemma map_seq_sorted (g : nat -> R) :
  (forall i j, (i < j)%nat -> g i < g j) ->
  forall m k, StronglySorted Rlt (map g (seq k m)).
Proof.
  intros Hm m. induction m as [|m IH]; intros k; simpl; constructor; [apply IH|].
  apply Forall_forall. intros y Hy. apply in_map_iff in Hy. destruct Hy as [j [<- Hj]].
  apply in_seq in Hj. apply Hm. lia.
Qed.

Lemma last_app_default {A} (l s : list A) : forall d, last (l ++ s) d = last s (last l d).
Proof.
  induction l as [|x l IH]; intros d; [reflexivity|].
  change ((x :: l) ++ s) with (x :: (l ++ s)).
  rewrite !last_cons_default. apply IH.
Qed.

Lemma In_last {A} (l : list A) d : l <> [] -> In (last l d) l.
Proof.
  intros H. rewrite (app_removelast_last d H) at 2. apply in_or_app. right. left. reflexivity.
Qed.

Section Edges.
  Variable J : Junk.

  Lemma seg_point_lin a b n j :
    seg_point (O:=R_ops J) Lin a b n j =
    if (j =? n)%nat then b
    else IZR (Z.of_nat j) * Rdiv_j J (b - a) (IZR (Z.of_nat n)) + a.
  Proof. reflexivity. Qed.

  Lemma seg_point_log a b n j :
    seg_point (O:=R_ops J) Log a b n j =
    if (j =? 0)%nat then a else if (j =? n)%nat then b
    else a * Rpow_j J (Rdiv_j J b a) (Rdiv_j J (IZR (Z.of_nat j)) (IZR (Z.of_nat n))).
  Proof. reflexivity. Qed.

  (* on 0..n the segment points agree with a strictly increasing function
     that starts at a and ends at b *)
  Lemma seg_point_model sp a b n : 0 < a -> a < b -> (1 <= n)%nat ->
    exists g : nat -> R,
      (forall j, (j <= n)%nat -> seg_point (O:=R_ops J) sp a b n j = g j) /\
      g 0%nat = a /\ g n = b /\ (forall j, g j < g (S j)).
  Proof.
    intros Ha Hab Hn.
    assert (HnR : 0 < INR n) by (apply lt_0_INR; lia).
    destruct sp.
    - (* Log *)
      assert (Hq : 1 < b / a) by (apply lt_div_iff; lra).
      assert (Hq0 : 0 < b / a) by lra.
      exists (fun j => a * Rpower (b / a) (INR j / INR n)).
      split; [|split; [|split]].
      + intros j Hj. rewrite seg_point_log.
        destruct (Nat.eqb_spec j 0) as [->|Hj0].
        * simpl INR. unfold Rdiv at 2. rewrite Rmult_0_l, Rpower_O by exact Hq0. ring.
        * destruct (Nat.eqb_spec j n) as [->|Hjn].
          -- unfold Rdiv at 2. rewrite Rinv_r by lra. rewrite Rpower_1 by exact Hq0.
             field. lra.
          -- rewrite <- !INR_IZR_INZ.
             rewrite (Rdiv_j_ok J b a) by lra.
             rewrite (Rdiv_j_ok J (INR j) (INR n)) by lra.
             rewrite Rpow_j_ok by exact Hq0. reflexivity.
      + simpl INR. unfold Rdiv at 2. rewrite Rmult_0_l, Rpower_O by exact Hq0. ring.
      + unfold Rdiv at 2. rewrite Rinv_r by lra. rewrite Rpower_1 by exact Hq0.
        field. lra.
      + intros j. apply Rmult_lt_compat_l; [exact Ha|].
        apply Rpower_lt; [exact Hq|]. rewrite S_INR.
        unfold Rdiv. apply Rmult_lt_compat_r; [apply Rinv_0_lt_compat; exact HnR|lra].
    - (* Lin *)
      assert (Hd : 0 < (b - a) / INR n) by (apply div_pos; lra).
      exists (fun j => INR j * ((b - a) / INR n) + a).
      split; [|split; [|split]].
      + intros j Hj. rewrite seg_point_lin. rewrite <- !INR_IZR_INZ.
        rewrite Rdiv_j_ok by lra.
        destruct (Nat.eqb_spec j n) as [->|Hjn]; [field; lra|reflexivity].
      + simpl INR. ring.
      + field. lra.
      + intros j. rewrite S_INR. nra.
  Qed.

  Lemma seg_edges_facts sp a b n : 0 < a -> a < b -> (1 <= n)%nat ->
    exists t, seg_edges (O:=R_ops J) sp a b n = a :: t /\ length t = n /\
      StronglySorted Rlt (a :: t) /\ Forall (fun x => x <= b) t /\ last t a = b.
  Proof.
    intros Ha Hab Hn.
    destruct (seg_point_model sp a b n Ha Hab Hn) as [g [Hg [G0 [Gn Gs]]]].
    pose proof (mono_steps g Gs) as Gm.
    assert (Hseg : seg_edges (O:=R_ops J) sp a b n = map g (seq 0 (S n))).
    { unfold seg_edges. apply map_ext_in. intros j Hj. apply in_seq in Hj. apply Hg. lia. }
    exists (map g (seq 1 n)).
    split; [rewrite Hseg; cbn [seq map]; rewrite G0; reflexivity|].
    split; [rewrite map_length, seq_length; reflexivity|].
    split.
    { rewrite <- G0. change (g 0%nat :: map g (seq 1 n)) with (map g (seq 0 (S n))).
      apply map_seq_sorted. exact Gm. }
    split.
    { apply Forall_forall. intros y Hy. apply in_map_iff in Hy.
      destruct Hy as [j [<- Hj]]. apply in_seq in Hj. rewrite <- Gn.
      destruct (Nat.eq_dec j n) as [->|Hne]; [lra|]. left. apply Gm. lia. }
    destruct n as [|n']; [lia|].
    rewrite seq_S, map_app. cbn [map]. rewrite last_last. exact Gn.
  Qed.

  Lemma edges_from_cons sp a b rest n cs first :
    edges_from (O:=R_ops J) sp (a :: b :: rest) (n :: cs) first =
    rbind (edges_from (O:=R_ops J) sp (b :: rest) cs false) (fun tl_ =>
      Ok ((if first then seg_edges (O:=R_ops J) sp a b n
           else tl (seg_edges (O:=R_ops J) sp a b n)) ++ tl_)).
  Proof. reflexivity. Qed.

  Lemma edges_from_false sp : forall counts breaks,
    length breaks = S (length counts) -> Forall (fun n => (1 <= n)%nat) counts ->
    StronglySorted Rlt breaks -> Forall (fun x => 0 < x) breaks ->
    exists s, edges_from (O:=R_ops J) sp breaks counts false = Ok s /\
      length s = fold_right Nat.add 0%nat counts /\
      StronglySorted Rlt s /\ Forall (fun x => hd 0 breaks < x) s /\
      (forall b, In b (tl breaks) -> In b s) /\
      last s (hd 0 breaks) = last breaks 0.
  Proof.
    induction counts as [|n cs IH]; intros breaks Hlen Hc Hs Hp.
    - destruct breaks as [|a [|b rest]]; simpl in Hlen; try lia.
      exists []. simpl. repeat split; try constructor. intros b [].
    - destruct breaks as [|a [|b rest]]; simpl in Hlen; try lia.
      inversion Hc as [|? ? Hn Hcs]; subst.
      apply StronglySorted_inv in Hs. destruct Hs as [Hs' HFa].
      inversion Hp as [|? ? Ha Hp']; subst.
      assert (Hab : a < b) by (inversion HFa; assumption).
      destruct (IH (b :: rest) ltac:(simpl; lia) Hcs Hs' Hp')
        as [s' [He [Hl [Hss [Hgt [Hin Hlast]]]]]].
      destruct (seg_edges_facts sp a b n Ha Hab Hn) as [t [Hseg [Htl [Hts [Htb Htlast]]]]].
      rewrite edges_from_cons, He, Hseg. cbn [rbind tl].
      exists (t ++ s'). split; [reflexivity|].
      cbn [hd] in *.
      apply StronglySorted_inv in Hts. destruct Hts as [Hts Hat].
      assert (Htne : t <> []) by (intros E; rewrite E in Htl; simpl in Htl; lia).
      split; [rewrite app_length; simpl; lia|].
      split.
      { apply SSorted_app; auto. intros x y Hx Hy.
        pose proof (proj1 (Forall_forall _ _) Htb x Hx) as H1.
        pose proof (proj1 (Forall_forall _ _) Hgt y Hy) as H2. simpl in H1, H2. lra. }
      split.
      { apply Forall_app; split; [exact Hat|].
        eapply Forall_impl; [|exact Hgt]. simpl. intros x Hx. lra. }
      split.
      { intros x Hx. cbn [tl] in Hx. apply in_or_app. destruct Hx as [<-|Hx].
        - left. rewrite <- Htlast. apply In_last. exact Htne.
        - right. apply Hin. exact Hx. }
      rewrite last_app_default, Htlast, Hlast. reflexivity.
  Qed.

  Lemma edges_spec : forall sp breaks counts, valid_request breaks counts ->
    exists s, edges (O:=R_ops J) sp breaks counts = Ok s /\
      length s = S (fold_right Nat.add 0%nat counts) /\
      StronglySorted Rlt s /\
      (forall b, In b breaks -> In b s) /\
      hd 0 s = hd 0 breaks /\ last s 0 = last breaks 0.
  Proof.
    intros sp breaks counts [Hlen [Hne [Hc [Hs Hp]]]].
    destruct counts as [|n cs]; [congruence|].
    destruct breaks as [|a [|b rest]]; simpl in Hlen; try lia.
    destruct (edges_from_false sp (n :: cs) (a :: b :: rest) ltac:(simpl; lia) Hc Hs Hp)
      as [s [He [Hl [Hss [Hgt [Hin Hlast]]]]]].
    assert (Ha : 0 < a) by (inversion Hp; assumption).
    assert (Hab : a < b).
    { apply StronglySorted_inv in Hs. destruct Hs as [_ HFa]. inversion HFa; assumption. }
    assert (Hn : (1 <= n)%nat) by (inversion Hc; assumption).
    destruct (seg_edges_facts sp a b n Ha Hab Hn) as [t [Hseg _]].
    unfold edges. rewrite edges_from_cons in He |- *.
    destruct (edges_from (O:=R_ops J) sp (b :: rest) cs false) as [s'|e]; [|discriminate].
    cbn [rbind] in He |- *. rewrite Hseg in He |- *. cbn [tl] in He.
    injection He as <-.
    exists (a :: t ++ s'). split; [reflexivity|].
    cbn [hd] in *.
    split; [simpl length in *; lia|].
    split; [constructor; assumption|].
    split.
    { intros x [<-|Hx]; [left; reflexivity|right; apply Hin; exact Hx]. }
    split; [reflexivity|].
    rewrite last_cons_default. exact Hlast.
  Qed.
End Edges.
