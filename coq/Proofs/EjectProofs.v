(* Proofs/EjectProofs.v -- theorems about Model/Eject.v at the real instance.
   Every statement is universally quantified over the Junk record, so no
   step can rely on the value of x/0. *)
From Coq Require Import List Bool Reals Lra Lia.
From SSP Require Import Num RFacts Model.Eject.
Import ListNotations.
Local Open Scope R_scope.

Lemma repeat_snoc {A} (x : A) k : repeat x k ++ [x] = x :: repeat x k.
Proof. induction k as [|k IH]; simpl; [reflexivity|]. now rewrite IH. Qed.
Lemma rev_repeat_same {A} (x : A) k : rev (repeat x k) = repeat x k.
Proof. induction k as [|k IH]; simpl; [reflexivity|]. rewrite IH. apply repeat_snoc. Qed.

Section EjectR.
  Variable J : Junk.
  Local Instance OR : NumOps R := R_ops J.

  Definition sumM (l : list (R * R)) : R := fold_right (fun p a => fst p + a) 0 l.
  (* a well-formed bin: non-negative, and populated in mass iff in number *)
  Definition wfbin (p : R * R) : Prop := 0 <= fst p /\ 0 <= snd p /\ (0 < fst p -> 0 < snd p).
  Definition zeros (k : nat) : list (R * R) := repeat (0, 0) k.

  Lemma sumM_app a b : sumM (a ++ b) = sumM a + sumM b.
  Proof. induction a as [|p a IH]; simpl; [lra|rewrite IH; lra]. Qed.
  Lemma sumM_zeros k : sumM (zeros k) = 0.
  Proof. induction k; simpl; [reflexivity|unfold zeros in IHk; rewrite IHk; lra]. Qed.
  Lemma sumM_nonneg l : Forall wfbin l -> 0 <= sumM l.
  Proof. induction 1 as [|p l Hp _ IH]; simpl; [lra|destruct Hp; lra]. Qed.
  Lemma sumM_rev l : sumM (rev l) = sumM l.
  Proof. induction l as [|p l IH]; simpl; [reflexivity|rewrite sumM_app, IH; simpl; lra]. Qed.

  Ltac cmp :=
    repeat match goal with
    | H : context [Rleb ?a ?b] |- _ => destruct (Rleb_spec a b)
    | H : context [Rltb ?a ?b] |- _ => destruct (Rltb_spec a b)
    | |- context [Rleb ?a ?b] => destruct (Rleb_spec a b)
    | |- context [Rltb ?a ?b] => destruct (Rltb_spec a b)
    end.

  (* unfolding one step of the loop *)
  Lemma eject_rev_nil E : eject_rev [] E = if Rleb 0 E then Err ValueError else Ok [].
  Proof. reflexivity. Qed.
  Lemma eject_rev_cons m n r E :
    eject_rev ((m, n) :: r) E =
      if Rleb 0 E then
        if Rltb m E then rmap (cons (0, 0)) (eject_rev r (E - m))
        else if Rltb 0 E then Ok ((m - E, n - Rdiv_j J E (Rdiv_j J m n)) :: r)
             else Ok ((m, n) :: r)
      else Ok ((m, n) :: r).
  Proof. reflexivity. Qed.

  (* The full structural description of a successful ejection. *)
  Theorem eject_rev_shape : forall l E l',
    Forall wfbin l -> 0 <= E -> eject_rev l E = Ok l' ->
    exists removed m n rest e,
      l = removed ++ (m, n) :: rest /\
      e = E - sumM removed /\ 0 <= e <= m /\
      (forall p, In p removed -> fst p < E) /\
      ((e = 0 /\ l' = zeros (length removed) ++ (m, n) :: rest) \/
       (0 < e /\ 0 < n /\
        l' = zeros (length removed) ++ (m - e, n - e / (m / n)) :: rest)).
  Proof.
    induction l as [|[m n] r IH]; intros E l' Hwf HE Hr.
    - rewrite eject_rev_nil in Hr. cmp; [discriminate|lra].
    - rewrite eject_rev_cons in Hr. inversion Hwf as [|? ? Hp Hwr]; subst.
      destruct Hp as (Hm & Hn & Hmn); simpl in Hm, Hn, Hmn.
      cmp; try lra.
      + (* whole bin removed *)
        destruct (eject_rev r (E - m)) as [l1|] eqn:Hrec; simpl in Hr; [|discriminate].
        injection Hr as <-.
        destruct (IH (E - m) l1 Hwr ltac:(lra) Hrec)
          as (rem & m1 & n1 & rest & e & Hl & He & Hle & Hlt & Hcase).
        exists ((m, n) :: rem), m1, n1, rest, e. simpl.
        split; [rewrite Hl; reflexivity|].
        split; [lra|]. split; [exact Hle|].
        split.
        * intros p [<-|Hin]; simpl; [lra|]. specialize (Hlt p Hin). lra.
        * destruct Hcase as [[He0 Hl1]|(He0 & Hn1 & Hl1)]; [left|right]; rewrite Hl1; auto.
      + (* partial removal, something to eject *)
        injection Hr as <-.
        assert (Hm0 : 0 < m) by lra. specialize (Hmn Hm0).
        exists [], m, n, r, E. simpl.
        split; [reflexivity|]. split; [lra|]. split; [lra|].
        split; [intros p []|].
        right. split; [lra|]. split; [exact Hmn|].
        rewrite (Rdiv_j_ok J m n) by lra.
        rewrite (Rdiv_j_ok J E (m / n)).
        * reflexivity.
        * apply Rgt_not_eq. apply Rmult_lt_0_compat; [lra|apply Rinv_0_lt_compat; lra].
      + (* nothing to eject *)
        injection Hr as <-.
        exists [], m, n, r, E. simpl.
        split; [reflexivity|]. split; [lra|]. split; [lra|].
        split; [intros p []|]. left. split; [lra|reflexivity].
  Qed.

  Theorem eject_rev_total : forall l E l',
    Forall wfbin l -> 0 <= E -> eject_rev l E = Ok l' -> sumM l' = sumM l - E.
  Proof.
    intros l E l' Hwf HE Hr.
    destruct (eject_rev_shape l E l' Hwf HE Hr)
      as (rem & m & n & rest & e & Hl & He & Hle & _ & Hcase).
    subst l. rewrite sumM_app. simpl.
    destruct Hcase as [[He0 ->]|(He0 & Hn & ->)]; rewrite sumM_app, sumM_zeros; simpl; lra.
  Qed.

  (* mean mass of the partly depleted bin is preserved, division-free:
     M' * N = M * N'  *)
  Lemma partial_mean m n e : 0 < m -> 0 < n ->
    (m - e) * n = m * (n - e / (m / n)).
  Proof. intros Hm Hn. field. split; lra. Qed.

  Lemma partial_nonneg m n e : 0 < m -> 0 < n -> 0 <= e <= m ->
    0 <= m - e /\ 0 <= n - e / (m / n).
  Proof.
    intros Hm Hn He. split; [lra|].
    replace (e / (m / n)) with (n * (e / m)) by (field; split; lra).
    assert (Hq1 : e / m <= 1).
    { apply (Rmult_le_reg_r m); [lra|]. unfold Rdiv. rewrite Rmult_assoc, Rinv_l by lra. lra. }
    assert (Hq0 : 0 <= e / m).
    { apply Rmult_le_pos; [lra|]. left. apply Rinv_0_lt_compat. lra. }
    nra.
  Qed.

  Theorem eject_rev_wf : forall l E l',
    Forall wfbin l -> 0 <= E -> eject_rev l E = Ok l' ->
    Forall (fun p => 0 <= fst p /\ 0 <= snd p) l'.
  Proof.
    intros l E l' Hwf HE Hr.
    destruct (eject_rev_shape l E l' Hwf HE Hr)
      as (rem & m & n & rest & e & Hl & He & Hle & _ & Hcase).
    subst l. apply Forall_app in Hwf as [_ Hwf]. inversion Hwf as [|? ? Hp Hrest]; subst.
    assert (Hrest' : Forall (fun p => 0 <= fst p /\ 0 <= snd p) rest).
    { eapply Forall_impl; [|exact Hrest]. intros p (A & B & _); auto. }
    assert (Hz : forall k, Forall (fun p : R * R => 0 <= fst p /\ 0 <= snd p) (zeros k)).
    { induction k; simpl; constructor; simpl; auto; lra. }
    destruct Hp as (Hm & Hn & Hmn); simpl in *.
    destruct Hcase as [[He0 ->]|(He0 & Hn0 & ->)]; apply Forall_app; split; auto;
      constructor; simpl; auto.
    assert (0 < m) by lra.
    apply partial_nonneg; lra.
  Qed.

  Theorem eject_rev_too_much : forall l E,
    Forall wfbin l -> sumM l < E -> eject_rev l E = Err ValueError.
  Proof.
    induction l as [|[m n] r IH]; intros E Hwf HE.
    - simpl in HE. rewrite eject_rev_nil. cmp; [reflexivity|lra].
    - inversion Hwf as [|? ? Hp Hwr]; subst. destruct Hp as (Hm & _); simpl in Hm, HE.
      pose proof (sumM_nonneg r Hwr).
      rewrite eject_rev_cons. cmp; try lra.
      rewrite IH; [reflexivity|assumption|lra].
  Qed.

  Theorem eject_rev_enough : forall l E,
    Forall wfbin l -> 0 <= E <= sumM l -> l <> [] -> exists l', eject_rev l E = Ok l'.
  Proof.
    induction l as [|[m n] r IH]; intros E Hwf HE Hne; [contradiction|].
    inversion Hwf as [|? ? Hp Hwr]; subst. simpl in HE.
    rewrite eject_rev_cons. cmp; try lra; eauto.
    destruct r as [|q r'].
    - simpl in HE. lra.
    - destruct (IH (E - m) Hwr) as [l1 H1]; [lra|discriminate|]. rewrite H1. simpl. eauto.
  Qed.

  Theorem eject_rev_negative : forall l E, E < 0 -> eject_rev l E = Ok l.
  Proof. intros [|[m n] r] E HE; [rewrite eject_rev_nil|rewrite eject_rev_cons]; cmp; try lra; reflexivity. Qed.

  (* ---- statements about the array in its own (ascending) order -------- *)
  Lemma dyn_eject_unfold MN E : dyn_eject MN E = rmap (@rev _) (eject_rev (rev MN) E).
  Proof. reflexivity. Qed.

  Theorem dyn_eject_total MN E MN' :
    Forall wfbin MN -> 0 <= E -> dyn_eject MN E = Ok MN' -> sumM MN' = sumM MN - E.
  Proof.
    intros Hwf HE H. rewrite dyn_eject_unfold in H.
    destruct (eject_rev (rev MN) E) as [l1|] eqn:Hr; [|discriminate]. injection H as <-.
    rewrite sumM_rev. rewrite (eject_rev_total _ _ _ (Forall_rev Hwf) HE Hr). now rewrite sumM_rev.
  Qed.

  (* cut structure in array order: bins below the cut untouched, the cut bin
     partly depleted (mean preserved), bins above emptied *)
  Theorem dyn_eject_shape MN E MN' :
    Forall wfbin MN -> 0 <= E -> dyn_eject MN E = Ok MN' ->
    exists below m n above e,
      MN = below ++ (m, n) :: above /\
      e = E - sumM above /\ 0 <= e <= m /\
      (forall p, In p above -> fst p < E) /\
      exists m' n',
        MN' = below ++ (m', n') :: zeros (length above) /\
        m' = m - e /\ 0 <= m' /\ 0 <= n' /\ m' * n = m * n' /\ (e = 0 -> n' = n).
  Proof.
    intros Hwf HE H. rewrite dyn_eject_unfold in H.
    destruct (eject_rev (rev MN) E) as [l1|] eqn:Hr; [|discriminate]. injection H as <-.
    destruct (eject_rev_shape _ _ _ (Forall_rev Hwf) HE Hr)
      as (rem & m & n & rest & e & Hl & He & Hle & Hlt & Hcase).
    assert (HMN : MN = rev rest ++ (m, n) :: rev rem).
    { rewrite <- (rev_involutive MN), Hl, rev_app_distr. simpl. now rewrite <- app_assoc. }
    assert (Hz : forall k, rev (zeros k) = zeros k) by (intros k; apply rev_repeat_same).
    assert (Hwfp : wfbin (m, n)).
    { rewrite HMN in Hwf. apply Forall_app in Hwf as [_ Hwf]. now inversion Hwf. }
    destruct Hwfp as (Hm & Hn & Hmn); simpl in Hm, Hn, Hmn.
    exists (rev rest), m, n, (rev rem), e.
    split; [exact HMN|]. split; [now rewrite sumM_rev|]. split; [exact Hle|].
    split; [intros p Hin; apply Hlt; now apply in_rev|].
    rewrite rev_length.
    destruct Hcase as [[He0 ->]|(He0 & Hn0 & ->)].
    - exists m, n. rewrite rev_app_distr. simpl. rewrite Hz, <- app_assoc. simpl.
      repeat split; auto; lra.
    - exists (m - e), (n - e / (m / n)). rewrite rev_app_distr. simpl. rewrite Hz, <- app_assoc. simpl.
      assert (0 < m) by lra.
      destruct (partial_nonneg m n e) as [A B]; try lra.
      repeat split; auto; try lra. apply partial_mean; lra.
  Qed.

  Theorem dyn_eject_too_much MN E :
    Forall wfbin MN -> sumM MN < E -> dyn_eject MN E = Err ValueError.
  Proof.
    intros Hwf HE. rewrite dyn_eject_unfold, eject_rev_too_much; [reflexivity|now apply Forall_rev|now rewrite sumM_rev].
  Qed.

  Theorem dyn_eject_enough MN E :
    Forall wfbin MN -> 0 <= E <= sumM MN -> MN <> [] -> exists MN', dyn_eject MN E = Ok MN'.
  Proof.
    intros Hwf HE Hne. rewrite dyn_eject_unfold.
    destruct (eject_rev_enough (rev MN) E) as [l1 H1].
    - now apply Forall_rev.
    - now rewrite sumM_rev.
    - intros Hnil. apply Hne. rewrite <- (rev_involutive MN), Hnil. reflexivity.
    - rewrite H1. simpl. eauto.
  Qed.

  (* ---- the budget block of EvolvedMF._evolve ------------------------- *)
  Theorem bh_post_not_formed MN Msum ret Nmin k : bh_post false MN Msum ret Nmin k = PostOk MN.
  Proof. reflexivity. Qed.

  Theorem bh_post_shortcut MN Msum ret Nmin k :
    shortcut MN Msum ret Nmin = true ->
    bh_post true MN Msum ret Nmin k = PostOk (map (fun _ => (0, 0)) MN).
  Proof. intros H. unfold bh_post. simpl. rewrite H. reflexivity. Qed.

  (* what the shortcut means when the lightest bin is populated *)
  Theorem shortcut_meaning m0 n0 rest Msum ret Nmin :
    0 < m0 -> 0 < n0 ->
    (shortcut ((m0, n0) :: rest) Msum ret Nmin = true <->
     0 <= ret * Msum < Nmin * (m0 / n0)).
  Proof.
    intros Hm Hn. unfold shortcut. simpl.
    assert (Hmn : 0 < m0 / n0) by (apply div_pos; lra).
    rewrite (Rdiv_j_ok J m0 n0) by lra.
    rewrite (Rdiv_j_ok J _ (m0 / n0)) by lra.
    replace (Msum - Msum * (1 - ret)) with (ret * Msum) by ring.
    rewrite andb_true_iff, Rleb_true, Rltb_true.
    rewrite (le_div_iff _ 0 _ Hmn), (div_lt_iff _ _ _ Hmn). lra.
  Qed.

  (* without kicks the retained BH mass is exactly ret_dyn times the mass formed *)
  Theorem bh_post_budget MN Msum ret Nmin :
    Forall wfbin MN -> MN <> [] -> Msum = sumM MN -> 0 <= ret <= 1 ->
    shortcut MN Msum ret Nmin = false ->
    exists l, bh_post true MN Msum ret Nmin None = PostOk l /\ sumM l = ret * Msum.
  Proof.
    intros Hwf Hne HM Hret Hs. unfold bh_post. simpl. rewrite Hs.
    pose proof (sumM_nonneg MN Hwf) as Hpos.
    assert (H1 : 0 <= sumM MN * ret) by (apply Rmult_le_pos; lra).
    assert (H2 : 0 <= sumM MN * (1 - ret)) by (apply Rmult_le_pos; lra).
    assert (HE : 0 <= Msum * (1 - ret) <= sumM MN) by (subst Msum; lra).
    destruct (Rltb_spec (Msum * (1 - ret)) 0); [lra|].
    destruct (dyn_eject_enough MN _ Hwf HE Hne) as [l Hl]. rewrite Hl.
    exists l. split; [reflexivity|].
    rewrite (dyn_eject_total _ _ _ Hwf (proj1 HE) Hl). subst Msum. ring.
  Qed.

  (* with natal kicks: the kicked mass counts toward the ejected share *)
  Theorem bh_post_kicks MN Msum ret Nmin lk k :
    Forall wfbin lk -> lk <> [] -> sumM lk = Msum - k -> 0 <= ret <= 1 ->
    0 <= k <= Msum * (1 - ret) ->
    shortcut MN Msum ret Nmin = false ->
    exists l, bh_post true MN Msum ret Nmin (Some (lk, k)) = PostOk l /\ sumM l = ret * Msum.
  Proof.
    intros Hwf Hne HM Hret Hk Hs. unfold bh_post. simpl. rewrite Hs.
    pose proof (sumM_nonneg lk Hwf) as Hpos.
    destruct (Rltb_spec (Msum * (1 - ret) - k) 0); [lra|].
    assert (H1 : 0 <= Msum * ret) by (apply Rmult_le_pos; lra).
    assert (HE : 0 <= Msum * (1 - ret) - k <= sumM lk) by lra.
    destruct (dyn_eject_enough lk _ Hwf HE Hne) as [l Hl]. rewrite Hl.
    exists l. split; [reflexivity|].
    rewrite (dyn_eject_total _ _ _ Hwf (proj1 HE) Hl). rewrite HM. ring.
  Qed.

  Theorem bh_post_kicks_exceed MN Msum ret Nmin lk k :
    Msum * (1 - ret) < k ->
    shortcut MN Msum ret Nmin = false ->
    bh_post true MN Msum ret Nmin (Some (lk, k)) = PostErrKicks.
  Proof.
    intros Hk Hs. unfold bh_post. simpl. rewrite Hs.
    destruct (Rltb_spec (Msum * (1 - ret) - k) 0); [reflexivity|lra].
  Qed.
End EjectR.
