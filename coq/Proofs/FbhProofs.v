(* Proofs/FbhProofs.v -- theorems about the BH mass-fraction ejection
   (EvolvedMFWithBH._dyn_eject_BH and its per-row block) of Model/Eject.v at
   the real instance.  Every statement is universally quantified over the Junk
   record, so no step can rely on the value of x/0. *)
From Coq Require Import List Bool Reals Lra Lia.
From SSP Require Import Num RFacts Model.Eject Proofs.EjectProofs.
Import ListNotations.
Local Open Scope R_scope.

(* ---- unfolding lemmas ------------------------------------------------ *)
Lemma mrem_unfold J d Mb Mt :
  mrem (O:=R_ops J) d Mb Mt = Rdiv_j J (Rpow_j J Mt (1 + 1) * d) (Mt * (1 + d) - Mb).
Proof. reflexivity. Qed.

Lemma fbh_rev_nil J MBH Mtot f :
  fbh_rev (O:=R_ops J) [] MBH Mtot f =
    if Rltb f (Rdiv_j J MBH Mtot) then ([], true) else ([], false).
Proof. reflexivity. Qed.

Lemma fbh_rev_cons J m n r MBH Mtot f :
  fbh_rev (O:=R_ops J) ((m, n) :: r) MBH Mtot f =
    if Rltb f (Rdiv_j J MBH Mtot) then
      if Rleb f (Rdiv_j J (MBH - m) (Mtot - m)) then
        let '(r', w) := fbh_rev (O:=R_ops J) r (MBH - m) (Mtot - m) f in
        ((0, 0) :: r', w)
      else
        ((m - mrem (O:=R_ops J) (Rdiv_j J MBH Mtot - f) MBH Mtot,
          n - Rdiv_j J (mrem (O:=R_ops J) (Rdiv_j J MBH Mtot - f) MBH Mtot) (Rdiv_j J m n)) :: r,
         false)
    else ((m, n) :: r, false).
Proof. reflexivity. Qed.

Lemma nowrap_unfold J MN MBH Mtot f :
  dyn_eject_fbh_nowrap (O:=R_ops J) MN MBH Mtot f =
    let '(l', w) := fbh_rev (O:=R_ops J) (rev MN) MBH Mtot f in (rev l', w).
Proof. reflexivity. Qed.

Lemma fbh_post_unfold J formed strict MN Mtot Mbh f :
  fbh_post (O:=R_ops J) formed strict MN Mtot Mbh f =
    if negb formed then FbhOk MN false else
    if Rltb (Rdiv_j J Mbh Mtot) f && strict then FbhErr
    else FbhOk (fst (dyn_eject_fbh_nowrap (O:=R_ops J) MN Mbh Mtot f))
               (Rltb (Rdiv_j J Mbh Mtot) f).
Proof. reflexivity. Qed.

Lemma sumM_cons m n r : sumM ((m, n) :: r) = m + sumM r.
Proof. reflexivity. Qed.

(* ---- the closed form -------------------------------------------------- *)
Lemma mrem_value J f Mb Mt : 0 < Mt -> 0 <= f < 1 ->
  mrem (O:=R_ops J) (Mb / Mt - f) Mb Mt = (Mb - f * Mt) / (1 - f).
Proof.
  intros HMt Hf. rewrite mrem_unfold.
  rewrite Rpow_j_ok by assumption.
  rewrite Rpower_plus, Rpower_1 by assumption.
  assert (Hden : Mt * (1 + (Mb / Mt - f)) - Mb = Mt * (1 - f)) by (field; lra).
  rewrite Hden.
  rewrite Rdiv_j_ok.
  - field. split; lra.
  - apply Rgt_not_eq. apply Rmult_lt_0_compat; lra.
Qed.

Theorem mrem_closed_form : forall J f Mb Mt, 0 < Mt -> Mb < Mt -> 0 <= f < 1 ->
  let x := mrem (O:=R_ops J) (Mb / Mt - f) Mb Mt in
  x = (Mb - f * Mt) / (1 - f) /\ (Mb - x) = f * (Mt - x).
Proof.
  intros J f Mb Mt HMt HMb Hf x. subst x.
  rewrite (mrem_value J f Mb Mt HMt Hf).
  split; [reflexivity|]. field. lra.
Qed.

(* ---- the loop --------------------------------------------------------- *)
Lemma fbh_rev_stop J l MBH Mtot f : 0 < Mtot -> MBH / Mtot <= f ->
  fbh_rev (O:=R_ops J) l MBH Mtot f = (l, false).
Proof.
  intros HMt H.
  destruct l as [|[m n] r]; [rewrite fbh_rev_nil|rewrite fbh_rev_cons];
    rewrite (Rdiv_j_ok J MBH Mtot) by lra;
    destruct (Rltb_spec f (MBH / Mtot)); try lra; reflexivity.
Qed.

Lemma fbh_rev_hits J Mo f : 0 < Mo -> 0 <= f < 1 -> forall l,
  Forall wfbin l -> f * (Mo + sumM l) < sumM l ->
  exists l', fbh_rev (O:=R_ops J) l (sumM l) (Mo + sumM l) f = (l', false) /\
    sumM l' = f * (Mo + sumM l') /\
    exists removed m n rest m' n',
      l = removed ++ (m, n) :: rest /\
      l' = zeros (length removed) ++ (m', n') :: rest /\
      0 <= m' <= m /\ 0 <= n' /\ m' * n = m * n'.
Proof.
  intros HMo Hf. induction l as [|[m n] r IH]; intros Hwf Hc.
  - simpl in Hc. nra.
  - inversion Hwf as [|? ? Hp Hwr]; subst.
    destruct Hp as (Hm & Hn & Hmn); simpl in Hm, Hn, Hmn.
    pose proof (sumM_nonneg r Hwr) as Hr0.
    rewrite sumM_cons in Hc. rewrite fbh_rev_cons, sumM_cons.
    replace (m + sumM r - m) with (sumM r) by ring.
    replace (Mo + (m + sumM r) - m) with (Mo + sumM r) by ring.
    rewrite (Rdiv_j_ok J (m + sumM r) (Mo + (m + sumM r))) by lra.
    rewrite (Rdiv_j_ok J (sumM r) (Mo + sumM r)) by lra.
    destruct (Rltb_spec f ((m + sumM r) / (Mo + (m + sumM r)))) as [Hlt|Hnlt].
    2:{ exfalso. apply Hnlt. apply lt_div_iff; lra. }
    destruct (Rleb_spec f (sumM r / (Mo + sumM r))) as [Hle|Hnle].
    + (* whole bin removed *)
      apply le_div_iff in Hle; [|lra].
      destruct (Rle_lt_or_eq_dec _ _ Hle) as [Hlt2|Heq].
      * destruct (IH Hwr Hlt2)
          as (l1 & Hl1 & Hsum & rem & m1 & n1 & rest & m1' & n1' & Hl & Hl' & Hb & Hn1 & Hmean).
        rewrite Hl1. exists ((0, 0) :: l1). split; [reflexivity|].
        split; [rewrite sumM_cons; lra|].
        exists ((m, n) :: rem), m1, n1, rest, m1', n1'. simpl.
        rewrite Hl, Hl'. auto.
      * rewrite fbh_rev_stop; [| lra | apply div_le_iff; lra].
        exists ((0, 0) :: r). split; [reflexivity|].
        split; [rewrite sumM_cons; lra|].
        exists [], m, n, r, 0, 0. simpl.
        split; [reflexivity|]. split; [reflexivity|].
        split; [lra|]. split; [lra|]. ring.
    + (* partial removal *)
      assert (Hgt : sumM r < f * (Mo + sumM r)).
      { apply Rnot_le_lt. intros H. apply Hnle. apply le_div_iff; lra. }
      rewrite (mrem_value J f (m + sumM r) (Mo + (m + sumM r))) by lra.
      set (x := (m + sumM r - f * (Mo + (m + sumM r))) / (1 - f)).
      assert (Hx0 : 0 < x) by (apply div_pos; lra).
      assert (Hxm : x <= m) by (apply div_le_iff; lra).
      assert (Hx : x * (1 - f) = m + sumM r - f * (Mo + (m + sumM r)))
        by (unfold x; field; lra).
      assert (Hm0 : 0 < m) by lra. specialize (Hmn Hm0).
      rewrite (Rdiv_j_ok J m n) by lra.
      rewrite (Rdiv_j_ok J x (m / n)) by (apply Rgt_not_eq, div_pos; lra).
      eexists. split; [reflexivity|].
      split; [rewrite sumM_cons; lra|].
      destruct (partial_nonneg m n x) as [A B]; try lra.
      exists [], m, n, r, (m - x), (n - x / (m / n)). simpl.
      split; [reflexivity|]. split; [reflexivity|].
      split; [lra|]. split; [exact B|]. apply partial_mean; lra.
Qed.

(* ---- statements in array order ---------------------------------------- *)
Theorem fbh_hits_target : forall J MN Mo f, Forall wfbin MN -> 0 < Mo -> 0 <= f < 1 ->
  f * (Mo + sumM MN) < sumM MN ->
  exists MN' w, dyn_eject_fbh_nowrap (O:=R_ops J) MN (sumM MN) (Mo + sumM MN) f = (MN', w) /\
    w = false /\
    sumM MN' = f * (Mo + sumM MN') /\
    exists below m n above m' n',
      MN = below ++ (m, n) :: above /\
      MN' = below ++ (m', n') :: zeros (length above) /\
      0 <= m' <= m /\ 0 <= n' /\ m' * n = m * n'.
Proof.
  intros J MN Mo f Hwf HMo Hf Hc.
  destruct (fbh_rev_hits J Mo f HMo Hf (rev MN))
    as (l' & Hl' & Hsum & rem & m & n & rest & m' & n' & Hl & Hl2 & Hb & Hn & Hmean).
  - now apply Forall_rev.
  - now rewrite sumM_rev.
  - rewrite sumM_rev in Hl'.
    exists (rev l'), false. rewrite nowrap_unfold, Hl'.
    split; [reflexivity|]. split; [reflexivity|].
    split; [rewrite sumM_rev; exact Hsum|].
    assert (HMN : MN = rev rest ++ (m, n) :: rev rem).
    { rewrite <- (rev_involutive MN), Hl, rev_app_distr. simpl. now rewrite <- app_assoc. }
    exists (rev rest), m, n, (rev rem), m', n'.
    split; [exact HMN|].
    split.
    { rewrite Hl2, rev_app_distr, rev_length. simpl.
      unfold zeros. rewrite rev_repeat_same, <- app_assoc. reflexivity. }
    auto.
Qed.

Theorem fbh_above_formed_identity : forall J MN Mtot Mbh f, 0 < Mtot -> Mbh / Mtot <= f ->
  dyn_eject_fbh_nowrap (O:=R_ops J) MN Mbh Mtot f = (MN, false).
Proof.
  intros J MN Mtot Mbh f HMt H.
  rewrite nowrap_unfold, fbh_rev_stop by assumption.
  now rewrite rev_involutive.
Qed.

(* ---- the per-row block ------------------------------------------------- *)
Theorem fbh_post_strict_raises : forall J MN Mtot Mbh f, 0 < Mtot -> Mbh / Mtot < f ->
  fbh_post (O:=R_ops J) true true MN Mtot Mbh f = FbhErr.
Proof.
  intros J MN Mtot Mbh f HMt H. rewrite fbh_post_unfold. simpl negb.
  rewrite (Rdiv_j_ok J Mbh Mtot) by lra.
  destruct (Rltb_spec (Mbh / Mtot) f); [reflexivity|contradiction].
Qed.

Theorem fbh_post_nonstrict_warns : forall J MN Mtot Mbh f, 0 < Mtot -> Mbh / Mtot < f ->
  fbh_post (O:=R_ops J) true false MN Mtot Mbh f = FbhOk MN true.
Proof.
  intros J MN Mtot Mbh f HMt H. rewrite fbh_post_unfold. simpl negb.
  rewrite fbh_above_formed_identity by lra.
  rewrite (Rdiv_j_ok J Mbh Mtot) by lra.
  destruct (Rltb_spec (Mbh / Mtot) f); [reflexivity|contradiction].
Qed.

Theorem fbh_post_not_formed : forall J strict MN Mtot Mbh f,
  fbh_post (O:=R_ops J) false strict MN Mtot Mbh f = FbhOk MN false.
Proof. reflexivity. Qed.

Theorem fbh_post_meets_target : forall J strict MN Mo f, Forall wfbin MN -> 0 < Mo -> 0 <= f < 1 ->
  f * (Mo + sumM MN) <= sumM MN ->
  exists MN', fbh_post (O:=R_ops J) true strict MN (Mo + sumM MN) (sumM MN) f = FbhOk MN' false /\
    sumM MN' = f * (Mo + sumM MN').
Proof.
  intros J strict MN Mo f Hwf HMo Hf Hc.
  pose proof (sumM_nonneg MN Hwf) as H0.
  rewrite fbh_post_unfold. simpl negb.
  rewrite (Rdiv_j_ok J (sumM MN) (Mo + sumM MN)) by lra.
  destruct (Rltb_spec (sumM MN / (Mo + sumM MN)) f) as [Hlt|_].
  { exfalso. apply div_lt_iff in Hlt; lra. }
  simpl andb.
  destruct (Rle_lt_or_eq_dec _ _ Hc) as [Hlt|Heq].
  - destruct (fbh_hits_target J MN Mo f Hwf HMo Hf Hlt) as (MN' & w & Hr & _ & Hsum & _).
    rewrite Hr. exists MN'. split; [reflexivity|exact Hsum].
  - rewrite fbh_above_formed_identity; [| lra | apply div_le_iff; lra].
    exists MN. split; [reflexivity|lra].
Qed.
