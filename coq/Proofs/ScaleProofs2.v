(* Proofs/ScaleProofs2.v -- C18 (continued): the escape field before core
   collapse is homogeneous of degree one in (Ns, Nr, Mr, rate), at the real
   instance.  Every statement is universally quantified over the Junk record. *)
From Coq Require Import List Bool Reals Lra.
From SSP Require Import Num RFacts Model.Pk Model.Esc Model.EscSpec Model.ScaleSpec
  Proofs.PkProofs Proofs.EscProofs.
Import ListNotations.
Local Open Scope R_scope.

(* ------------------------------------------------------------------ *)
(* helpers *)

Lemma Rltb_pos_scale lam y : 0 < lam -> Rltb 0 (lam * y) = Rltb 0 y.
Proof.
  intros Hl. destruct (Rltb_spec 0 y) as [H|H].
  - apply Rltb_true. apply Rmult_lt_0_compat; assumption.
  - apply Rltb_false. apply Rnot_lt_le in H.
    assert (0 <= lam * - y) by (apply Rmult_le_pos; lra). lra.
Qed.

Lemma sumR_lin {A} (f : A -> R) c l : sumR (map (fun x => c * f x) l) = c * sumR (map f l).
Proof. induction l as [|x l IH]; simpl; [ring|]. rewrite IH. ring. Qed.

(* scaling of one star-bin tuple *)
Definition sc (lam : R) (q : R * R * R * R) : R * R * R * R :=
  let '(n, al, lo, up) := q in (lam * n, al, lo, up).

Lemma scale_stars_sc lam stars : scale_stars lam stars = map (sc lam) stars.
Proof. reflexivity. Qed.

Lemma q_n_sc lam q : q_n (sc lam q) = lam * q_n q.
Proof. destruct q as [[[n al] lo] up]; reflexivity. Qed.

Lemma ms_of_sc J res lam q : ms_of J res (sc lam q) = ms_of J res q.
Proof. destruct q as [[[n al] lo] up]; reflexivity. Qed.

Lemma bin_ok_sc J res lam q : 0 < lam -> bin_ok J res q -> bin_ok J res (sc lam q).
Proof.
  intros Hl. destruct q as [[[n al] lo] up]. intros (Hn & Hrest).
  split; [apply Rmult_le_pos; lra|exact Hrest].
Qed.

Lemma stars_ok_scale J res lam stars : 0 < lam ->
  stars_ok J res stars -> stars_ok J res (scale_stars lam stars).
Proof.
  intros Hl Hs. rewrite scale_stars_sc. unfold stars_ok. apply Forall_forall.
  intros q' Hq'. apply in_map_iff in Hq'. destruct Hq' as (q & <- & Hq).
  apply (bin_ok_sc J res lam q Hl). eapply stars_ok_In; eassumption.
Qed.

Lemma Nsum_scale lam stars rems :
  Nsum (scale_stars lam stars) (scale_bins lam rems) = lam * Nsum stars rems.
Proof.
  unfold Nsum. rewrite scale_stars_sc. unfold scale_bins. rewrite !map_map.
  rewrite (sumR_ext (fun q => q_n (sc lam q)) (fun q => lam * q_n q)) by (intros q _; apply q_n_sc).
  cbn [fst]. rewrite !sumR_lin. ring.
Qed.

Lemma Msum_scale J res lam stars rems :
  Msum J res (scale_stars lam stars) (scale_bins lam rems) = lam * Msum J res stars rems.
Proof.
  unfold Msum. rewrite scale_stars_sc. unfold scale_bins. rewrite !map_map.
  rewrite (sumR_ext (fun q => q_n (sc lam q) * ms_of J res (sc lam q))
                    (fun q => lam * (q_n q * ms_of J res q))).
  2:{ intros q _. rewrite q_n_sc, ms_of_sc. ring. }
  cbn [snd]. rewrite !sumR_lin. ring.
Qed.

(* ------------------------------------------------------------------ *)
(* main theorem *)

Lemma esc_homogeneous_pre : forall J res md rate tcc t nm stars rems lam, 0 < lam -> t < tcc ->
  stars_ok J res stars -> rems_ok rems ->
  match nm with
  | NormN => sumR (map (fun q => fst (fst (fst q))) stars) + sumR (map fst rems) <> 0
  | NormM => sumR (map (fun q => fst (fst (fst q)) * ms_of J res q) stars) + sumR (map snd rems) <> 0
  end ->
  esc_field (O:=R_ops J) res md (lam * rate) tcc t nm (scale_stars lam stars) (scale_bins lam rems) =
  scale_esc lam (esc_field (O:=R_ops J) res md rate tcc t nm stars rems).
Proof.
  intros J res md rate tcc t nm stars rems lam Hl Ht Hs Hr Hnz.
  pose proof (stars_ok_scale J res lam stars Hl Hs) as Hs'.
  destruct nm.
  - (* NormN *)
    change (Nsum stars rems <> 0) in Hnz.
    assert (Hnz' : lam * Nsum stars rems <> 0) by (apply Rmult_integral_contrapositive_currified; lra).
    unfold scale_esc.
    esc_pre J t tcc Ht.
    rewrite !sbN_sum, !sum_plain_sumR.
    fold (Nsum stars rems). fold (Nsum (scale_stars lam stars) (scale_bins lam rems)).
    rewrite Nsum_scale.
    f_equal.
    + rewrite scale_stars_sc, !map_map. apply map_ext. intros q.
      rewrite !sb_N_mkb, q_n_sc. rewrite !Rdiv_j_ok by assumption.
      cbn [oscale]. f_equal. field. repeat split; (assumption || lra).
    + rewrite scale_stars_sc, map_map. reflexivity.
    + unfold scale_bins. rewrite !map_map. apply map_ext. intros p. cbn [fst snd].
      rewrite (Rltb_pos_scale lam (fst p) Hl).
      destruct (Rltb 0 (fst p)).
      * rewrite !Rdiv_j_ok by assumption. cbn [oscale]. f_equal. field. repeat split; (assumption || lra).
      * cbn [oscale]. f_equal. ring.
    + unfold scale_bins. rewrite !map_map. apply map_ext. intros p. cbn [fst snd].
      rewrite (Rltb_pos_scale lam (fst p) Hl).
      destruct (Rltb_spec 0 (fst p)) as [Hpos|Hnp].
      * assert (lam * fst p <> 0) by (apply Rmult_integral_contrapositive_currified; lra).
        rewrite !Rdiv_j_ok by (try assumption; lra).
        cbn [oscale]. f_equal. field. repeat split; (assumption || lra).
      * cbn [oscale]. f_equal. ring.
  - (* NormM *)
    change (Msum J res stars rems <> 0) in Hnz.
    assert (Hnz' : lam * Msum J res stars rems <> 0) by (apply Rmult_integral_contrapositive_currified; lra).
    unfold scale_esc.
    esc_pre J t tcc Ht.
    rewrite (M_sum_eq J res stars rems Hs).
    rewrite (M_sum_eq J res (scale_stars lam stars) (scale_bins lam rems) Hs').
    rewrite Msum_scale.
    cbn [odiv ndiv R_ops].
    f_equal.
    + rewrite scale_stars_sc, !map_map. apply map_ext. intros q.
      rewrite !sb_N_mkb, q_n_sc. rewrite !Rdiv_j_ok by assumption.
      cbn [oscale]. f_equal. field. repeat split; (assumption || lra).
    + rewrite scale_stars_sc, map_map. reflexivity.
    + unfold scale_bins. rewrite !map_map. apply map_ext. intros p. cbn [fst snd].
      rewrite (Rltb_pos_scale lam (fst p) Hl).
      destruct (Rltb 0 (fst p)).
      * rewrite !Rdiv_j_ok by assumption. cbn [oscale]. f_equal. field. repeat split; (assumption || lra).
      * cbn [oscale]. f_equal. ring.
    + unfold scale_bins. rewrite !map_map. apply map_ext. intros p. cbn [fst snd].
      rewrite (Rltb_pos_scale lam (fst p) Hl).
      destruct (Rltb 0 (fst p)).
      * rewrite !Rdiv_j_ok by assumption. cbn [oscale]. f_equal. field. repeat split; (assumption || lra).
      * cbn [oscale]. f_equal. ring.
Qed.
