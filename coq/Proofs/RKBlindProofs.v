(* Known finding C19 single_bin_window_stepped_over (and C04's "first trial step"), the arithmetic core:
   in the Dormand-Prince 5(4) pair used by scipy's dopri5 the SECOND stage has weight zero both in the
   5th-order solution (b2 = 0) and in the embedded error estimate (e2 = 0).  A right-hand side that is
   non-zero only at the second stage point of a step therefore leaves the state unchanged AND reports
   error zero: the controller accepts the step.  Proved for every right-hand side, step and state. *)
From Coq Require Import List Reals Lra.
From SSP Require Import Model.RK.
Import ListNotations.
Local Open Scope R_scope.

Definition vzero : vec := fun _ => 0.
(* Dormand & Prince (1980), as in Hairer-Norsett-Wanner's DOPRI5 (scipy.integrate.ode 'dopri5') *)
Definition dopri5_b : list R := [35/384; 0; 500/1113; 125/192; -2187/6784; 11/84; 0].
Definition dopri5_e : list R := [71/57600; 0; -71/16695; 71/1920; -17253/339200; 22/525; -1/40].
Definition only_second (k2 : vec) : list vec := [vzero; k2; vzero; vzero; vzero; vzero; vzero].

Lemma weights_sum : sumlist dopri5_b = 1 /\ sumlist dopri5_e = 0.
Proof. unfold sumlist, dopri5_b, dopri5_e; simpl; split; lra. Qed.

Lemma blind_to_second_stage : forall (k2 : vec) (i : nat),
  lincomb dopri5_b (only_second k2) i = 0 /\ lincomb dopri5_e (only_second k2) i = 0.
Proof. intros k2 i. unfold lincomb, only_second, dopri5_b, dopri5_e, vzero; simpl; split; lra. Qed.

Lemma step_blind_to_second_stage : forall f A c t h y k2,
  rk_stages f t h y A c [] = only_second k2 ->
  forall i, rk_step f {| tA := A; tb := dopri5_b; tc := c |} t h y i = y i /\
            h * lincomb dopri5_e (only_second k2) i = 0.
Proof.
  intros f A c t h y k2 Hst i. unfold rk_step; simpl. rewrite Hst. unfold vadd, vscale.
  destruct (blind_to_second_stage k2 i) as [Hb He]. rewrite Hb, He. split; lra.
Qed.
