(* C18 -- the natal-kick loop is homogeneous of degree one in the bin contents: retention
   fractions are functions of a bin's MEAN mass (scale-free) and are inputs here; the only absolute
   number is the 0.1-object skip threshold, which has to be scaled along (like Nmin). *)
From Coq Require Import List Reals Lra.
From SSP Require Import Num Model.Kicks Model.ScaleSpec.
Import ListNotations.
Local Open Scope R_scope.

Lemma Rltb_scale_pos lam x y : 0 < lam -> Rltb (lam * x) (lam * y) = Rltb x y.
Proof.
  intros Hl. destruct (Rltb_spec x y) as [H|H].
  - apply Rltb_true. apply Rmult_lt_compat_l; assumption.
  - apply Rltb_false. apply Rnot_lt_le in H. apply Rmult_le_compat_l; lra.
Qed.

Lemma kicks_loop_cons J c01 m n r rets ej :
  kicks_loop (O:=R_ops J) c01 ((m, n) :: r) rets ej =
  if Rltb n c01 then
    let '(r', e) := kicks_loop (O:=R_ops J) c01 r (tl rets) ej in ((m, n) :: r', e)
  else
    let '(r', e) := kicks_loop (O:=R_ops J) c01 r (tl rets) (ej + m * (1 - hd 1 rets)) in
    ((m * hd 1 rets, n * hd 1 rets) :: r', e).
Proof. reflexivity. Qed.

Lemma kicks_loop_homogeneous : forall J lam c01 MN rets ej, 0 < lam ->
  kicks_loop (O:=R_ops J) (lam * c01) (scale_bins lam MN) rets (lam * ej) =
  let '(l, e) := kicks_loop (O:=R_ops J) c01 MN rets ej in (scale_bins lam l, lam * e).
Proof.
  intros J lam c01 MN. induction MN as [|[m n] r IH]; intros rets ej Hl.
  - reflexivity.
  - change (scale_bins lam ((m, n) :: r)) with ((lam * m, lam * n) :: scale_bins lam r).
    rewrite !kicks_loop_cons. rewrite Rltb_scale_pos by exact Hl.
    destruct (Rltb n c01).
    + rewrite (IH (tl rets) ej Hl).
      destruct (kicks_loop (O:=R_ops J) c01 r (tl rets) ej) as [l e]. reflexivity.
    + replace (lam * ej + lam * m * (1 - hd 1 rets)) with (lam * (ej + m * (1 - hd 1 rets))) by ring.
      rewrite (IH (tl rets) _ Hl).
      destruct (kicks_loop (O:=R_ops J) c01 r (tl rets) (ej + m * (1 - hd 1 rets))) as [l e].
      unfold scale_bins at 2. cbn [map fst snd].
      replace (lam * m * hd 1 rets) with (lam * (m * hd 1 rets)) by ring.
      replace (lam * n * hd 1 rets) with (lam * (n * hd 1 rets)) by ring.
      reflexivity.
Qed.

Lemma kicks_homogeneous : forall J lam c01 MN rets, 0 < lam ->
  unbound_natal_kicks (O:=R_ops J) (lam * c01) (scale_bins lam MN) rets =
  let '(l, e) := unbound_natal_kicks (O:=R_ops J) c01 MN rets in (scale_bins lam l, lam * e).
Proof.
  intros J lam c01 MN rets Hl. unfold unbound_natal_kicks.
  replace (@nzero R (R_ops J)) with (lam * 0) at 1 by (cbn; ring).
  rewrite kicks_loop_homogeneous by exact Hl. reflexivity.
Qed.
