(* Proofs/BHPopProofs2.v -- bookkeeping of Model/BHPop.v (`_derivs_BHs`) at the real
   instance: what is deposited, where, and when.  Used by Properties/C19b.v.
   Every statement is universally quantified over the Junk record. *)
From Coq Require Import List Bool Reals Lra.
From SSP Require Import Num Model.Pk Model.Lifetime Model.Bins Model.Sev Model.BHPop.
Import ListNotations.
Local Open Scope R_scope.

(* inversion of a successful, active evaluation of bh_field: the record is determined by
   one (opaque) dNdt, and either a BH deposit was made or none at all *)
Lemma bh_field_inv : forall J c c01 alast final_age t Ns m_rem cls s,
  bh_field (O:=R_ops J) c c01 alast final_age t Ns m_rem cls = Ok (Some s) ->
  (t <= final_age /\ 0 < m_rem /\ cls = BH /\
   exists irem, determine_index (O:=R_ops J) m_rem (c_bh c) false = Ok irem /\
     so_dep s = Some (BH, irem, omul (O:=R_ops J) (oneg (O:=R_ops J) (so_dNdt s)) (Some 1),
                      omul (O:=R_ops J) (omul (O:=R_ops J) (Some (- m_rem)) (so_dNdt s)) (Some 1)))
  \/ so_dep s = None.
Proof.
  intros J c c01 alast final_age t Ns m_rem cls s Hs.
  unfold bh_field in Hs.
  destruct (nltb (last (c_tms_u c) nzero) t) eqn:Hlast; [|discriminate Hs].
  destruct (first_gt (O:=R_ops J) t (c_tms_u c) 0) as [isev|] eqn:Hfg; [|discriminate Hs].
  destruct (nleb (NumOps:=R_ops J) t final_age) eqn:Hle;
    [destruct (nltb (NumOps:=R_ops J) (nzero (NumOps:=R_ops J)) m_rem) eqn:Hm|];
    cbn [andb] in Hs.
  - destruct cls; [discriminate Hs|discriminate Hs|].
    destruct (determine_index (O:=R_ops J) m_rem (c_bh c) false) as [irem|e] eqn:Hdi;
      [|discriminate Hs].
    injection Hs as <-. left.
    split; [exact (proj1 (Rleb_true _ _) Hle)|].
    split; [exact (proj1 (Rltb_true _ _) Hm)|].
    split; [reflexivity|].
    exists irem. split; [reflexivity|]. reflexivity.
  - injection Hs as <-. right. reflexivity.
  - injection Hs as <-. right. reflexivity.
Qed.

Lemma bh_balance : forall J c c01 alast final_age t Ns m_rem cls s k irem dn dm x,
  bh_field (O:=R_ops J) c c01 alast final_age t Ns m_rem cls = Ok (Some s) ->
  so_dep s = Some (k, irem, dn, dm) -> so_dNdt s = Some x ->
  k = BH /\ cls = BH /\ t <= final_age /\ 0 < m_rem /\
  determine_index (O:=R_ops J) m_rem (c_bh c) false = Ok irem /\
  dn = Some (- x) /\ dm = Some (m_rem * (- x)).
Proof.
  intros J c c01 alast final_age t Ns m_rem cls s k irem dn dm x Hs Hdep Hx.
  destruct (bh_field_inv _ _ _ _ _ _ _ _ _ _ Hs) as [(Hle & Hm & Hcls & i' & Hdi & Hd)|Hd].
  - rewrite Hd, Hx in Hdep. cbn [omul oneg] in Hdep.
    injection Hdep as Hk Hi Hdn Hdm. subst k i'.
    split; [reflexivity|]. split; [exact Hcls|]. split; [exact Hle|]. split; [exact Hm|].
    split; [exact Hdi|]. split.
    + rewrite <- Hdn. f_equal. change (- x * 1 = - x). ring.
    + rewrite <- Hdm. f_equal. change (- m_rem * x * 1 = m_rem * - x). ring.
  - rewrite Hd in Hdep. discriminate Hdep.
Qed.

Lemma bh_deposit_exists : forall J c c01 alast final_age t Ns m_rem s irem,
  bh_field (O:=R_ops J) c c01 alast final_age t Ns m_rem BH = Ok (Some s) ->
  t <= final_age -> 0 < m_rem ->
  determine_index (O:=R_ops J) m_rem (c_bh c) false = Ok irem ->
  exists dn dm, so_dep s = Some (BH, irem, dn, dm).
Proof.
  intros J c c01 alast final_age t Ns m_rem s irem Hs Hle Hm Hdi.
  unfold bh_field in Hs.
  assert (H2 : nleb (NumOps:=R_ops J) t final_age = true)
    by exact (proj2 (Rleb_true _ _) Hle).
  assert (H3 : nltb (NumOps:=R_ops J) (nzero (NumOps:=R_ops J)) m_rem = true)
    by exact (proj2 (Rltb_true _ _) Hm).
  rewrite H2, H3, Hdi in Hs. cbn [andb] in Hs.
  destruct (nltb (last (c_tms_u c) nzero) t); [|discriminate Hs].
  destruct (first_gt t (c_tms_u c) 0) as [isev|]; [|discriminate Hs].
  injection Hs as <-. cbn [so_dep]. eexists. eexists. reflexivity.
Qed.

Lemma bh_unbinned_raises : forall J c c01 alast final_age t Ns m_rem i e,
  last (c_tms_u c) 0 < t -> first_gt (O:=R_ops J) t (c_tms_u c) 0 = Some i ->
  t <= final_age -> 0 < m_rem ->
  determine_index (O:=R_ops J) m_rem (c_bh c) false = Err e ->
  bh_field (O:=R_ops J) c c01 alast final_age t Ns m_rem BH = Err e.
Proof.
  intros J c c01 alast final_age t Ns m_rem i e Hlast Hfg Hle Hm Hdi.
  unfold bh_field.
  assert (H1 : nltb (NumOps:=R_ops J) (last (c_tms_u c) (nzero (NumOps:=R_ops J))) t = true)
    by exact (proj2 (Rltb_true _ _) Hlast).
  assert (H2 : nleb (NumOps:=R_ops J) t final_age = true)
    by exact (proj2 (Rleb_true _ _) Hle).
  assert (H3 : nltb (NumOps:=R_ops J) (nzero (NumOps:=R_ops J)) m_rem = true)
    by exact (proj2 (Rltb_true _ _) Hm).
  rewrite H1, Hfg, H2, H3, Hdi. cbn [andb]. reflexivity.
Qed.
