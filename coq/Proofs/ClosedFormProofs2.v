(* Proofs/ClosedFormProofs2.v -- lemmas behind Properties/C01c.v: what the closed
   form for the bin that is turning off MEANS, as integrals of the IMF over the
   progenitor masses swept by the turn-off mass.
   Composed from PkProofs (Pk_raw is the integral of the power law) and
   LifetimeProofs (mto is decreasing with derivative -dmdt).  Every statement is
   universally quantified over Junk. *)
From Coq Require Import List Bool Reals Lra Lia.
From Coquelicot Require Import Coquelicot.
From SSP Require Import Num RFacts Model.Pk Model.Lifetime
  Proofs.LifetimeProofs Proofs.PkProofs.
Import ListNotations.
Local Open Scope R_scope.

(* ------------------------------------------------------------------ *)
(* helpers about mto and dmdt *)

Lemma mto_pos2 J a0 a1 a2 t : 0 < a0 -> 0 < a1 -> a2 < 0 -> a0 < t ->
  0 < mto (O:=R_ops J) a0 a1 a2 t.
Proof.
  intros H0 H1 H2 Ht. rewrite mto_eq by assumption. apply PkProofs.Rpower_pos.
Qed.

Lemma mto_decreasing_le J a0 a1 a2 t t' : 0 < a0 -> 0 < a1 -> a2 < 0 -> a0 < t -> t <= t' ->
  mto (O:=R_ops J) a0 a1 a2 t' <= mto (O:=R_ops J) a0 a1 a2 t.
Proof.
  intros H0 H1 H2 Ht [Hlt|Heq].
  - destruct (mto_strictly_decreasing J a0 a1 a2 t t' H0 H1 H2 Ht Hlt) as [_ Hd]. lra.
  - subst t'. lra.
Qed.

Lemma mto_continuous J a0 a1 a2 t : 0 < a0 -> 0 < a1 -> a2 < 0 -> a0 < t ->
  continuous (fun s => mto (O:=R_ops J) a0 a1 a2 s) t.
Proof.
  intros H0 H1 H2 Ht.
  destruct (dmdt_is_sweep_speed J a0 a1 a2 t H0 H1 H2 Ht) as [Hd _].
  apply (ex_derive_continuous (fun s => mto (O:=R_ops J) a0 a1 a2 s)).
  eexists. exact Hd.
Qed.

Lemma dmdt_explicit J a0 a1 a2 t : 0 < a0 -> 0 < a1 -> a2 < 0 -> a0 < t ->
  dmdt (O:=R_ops J) a0 a1 a2 t =
    - (1 / (a1 * a2 * t) * exp ((1 / a2 - 1) * ln (ln (t / a0) / a1))).
Proof.
  intros H0 H1 H2 Ht.
  rewrite dmdt_eq by assumption.
  assert (Hd : a1 * a2 * t < 0) by (apply prod_neg; lra).
  assert (Hneg : 1 / (a1 * a2 * t) < 0) by (apply one_div_neg; assumption).
  assert (HP : 0 < Rpower (ln (t / a0) / a1) (1 / a2 - 1)) by apply PkProofs.Rpower_pos.
  fold (Rpower (ln (t / a0) / a1) (1 / a2 - 1)).
  apply Rabs_left. nra.
Qed.

Lemma dmdt_continuous J a0 a1 a2 t : 0 < a0 -> 0 < a1 -> a2 < 0 -> a0 < t ->
  continuous (fun s => dmdt (O:=R_ops J) a0 a1 a2 s) t.
Proof.
  intros H0 H1 H2 Ht.
  apply (continuous_ext_loc _
           (fun s => - (1 / (a1 * a2 * s) * exp ((1 / a2 - 1) * ln (ln (s / a0) / a1))))).
  - exists (mkposreal (t - a0) ltac:(lra)). intros y Hy.
    assert (Hy' : Rabs (y - t) < t - a0) by exact Hy.
    apply Rabs_def2 in Hy'. destruct Hy' as [Hy1 Hy2].
    rewrite dmdt_explicit by (try assumption; lra). reflexivity.
  - apply (ex_derive_continuous
             (fun s => - (1 / (a1 * a2 * s) * exp ((1 / a2 - 1) * ln (ln (s / a0) / a1))))).
    assert (HL : 0 < ln (t / a0) / a1) by (apply Lbase_pos; assumption).
    assert (Hta : 0 < t / a0) by (apply div_pos; lra).
    assert (Hd : a1 * a2 * t < 0) by (apply prod_neg; lra).
    auto_derive.
    repeat split; try lra; try assumption.
Qed.

(* ------------------------------------------------------------------ *)
(* (1) stars left = IMF integrated below the turn-off *)

Lemma stars_are_imf_below_turnoff : forall J a0 a1 a2 alpha lo up N0 t,
  0 < a0 -> 0 < a1 -> a2 < 0 -> 0 < lo -> lo < up -> a0 < t ->
  lo <= mto (O:=R_ops J) a0 a1 a2 t ->
  let A := N0 / Pk_raw (O:=R_ops J) alpha 1 lo up in
  let N := fun s => N0 * Pk_raw (O:=R_ops J) alpha 1 lo (mto (O:=R_ops J) a0 a1 a2 s) / Pk_raw (O:=R_ops J) alpha 1 lo up in
  is_RInt (fun m => A * Rpower m alpha) lo (mto (O:=R_ops J) a0 a1 a2 t) (N t).
Proof.
  intros J a0 a1 a2 alpha lo up N0 t H0 H1 H2 Hlo Hlu Ht HloM A N.
  pose proof (Pk_raw_is_RInt J alpha 1 lo _ Hlo HloM) as HI.
  apply (is_RInt_scal _ _ _ A) in HI.
  replace (N t) with (scal A (Pk_raw (O:=R_ops J) alpha 1 lo (mto (O:=R_ops J) a0 a1 a2 t))).
  2:{ unfold N, A, scal; simpl. unfold mult; simpl. unfold Rdiv. ring. }
  apply (is_RInt_ext (fun y => scal A (Rpower y (alpha + 1 - 1)))); [|exact HI].
  intros x _. replace (alpha + 1 - 1) with alpha by ring.
  unfold scal; simpl. unfold mult; simpl. reflexivity.
Qed.

(* ------------------------------------------------------------------ *)
(* (2) stars that left between two ages *)

Lemma deposit_number : forall J a0 a1 a2 alpha lo up N0 t1 t2,
  0 < a0 -> 0 < a1 -> a2 < 0 -> 0 < lo -> lo < up -> a0 < t1 -> t1 <= t2 ->
  lo <= mto (O:=R_ops J) a0 a1 a2 t2 ->
  let A := N0 / Pk_raw (O:=R_ops J) alpha 1 lo up in
  let N := fun s => N0 * Pk_raw (O:=R_ops J) alpha 1 lo (mto (O:=R_ops J) a0 a1 a2 s) / Pk_raw (O:=R_ops J) alpha 1 lo up in
  is_RInt (fun m => A * Rpower m alpha) (mto (O:=R_ops J) a0 a1 a2 t2) (mto (O:=R_ops J) a0 a1 a2 t1) (N t1 - N t2).
Proof.
  intros J a0 a1 a2 alpha lo up N0 t1 t2 H0 H1 H2 Hlo Hlu Ht1 Ht12 HloM A N.
  pose proof (mto_decreasing_le J a0 a1 a2 t1 t2 H0 H1 H2 Ht1 Ht12) as Hle.
  assert (Ht2 : a0 < t2) by lra.
  assert (HloM1 : lo <= mto (O:=R_ops J) a0 a1 a2 t1) by lra.
  pose proof (stars_are_imf_below_turnoff J a0 a1 a2 alpha lo up N0 t1
                H0 H1 H2 Hlo Hlu Ht1 HloM1) as I1.
  pose proof (stars_are_imf_below_turnoff J a0 a1 a2 alpha lo up N0 t2
                H0 H1 H2 Hlo Hlu Ht2 HloM) as I2.
  cbv zeta in I1, I2. fold A in I1, I2.
  apply is_RInt_swap in I2.
  pose proof (is_RInt_Chasles _ _ _ _ _ _ I2 I1) as I3.
  replace (N t1 - N t2) with
    (plus (opp (N0 * Pk_raw (O:=R_ops J) alpha 1 lo (mto (O:=R_ops J) a0 a1 a2 t2) / Pk_raw (O:=R_ops J) alpha 1 lo up))
          (N0 * Pk_raw (O:=R_ops J) alpha 1 lo (mto (O:=R_ops J) a0 a1 a2 t1) / Pk_raw (O:=R_ops J) alpha 1 lo up)).
  - exact I3.
  - unfold N, plus, opp; simpl. ring.
Qed.

(* ------------------------------------------------------------------ *)
(* (3) remnant mass deposited between two ages: change of variables m = mto s *)

Lemma deposit_mass : forall J a0 a1 a2 alpha lo up N0 frem (g Mr : R -> R) t1 t2,
  0 < a0 -> 0 < a1 -> a2 < 0 -> 0 < lo -> lo < up -> a0 < t1 -> t1 <= t2 ->
  lo <= mto (O:=R_ops J) a0 a1 a2 t2 ->
  let A := N0 / Pk_raw (O:=R_ops J) alpha 1 lo up in
  (forall m, mto (O:=R_ops J) a0 a1 a2 t2 <= m <= mto (O:=R_ops J) a0 a1 a2 t1 -> continuous g m) ->
  (forall s, t1 <= s <= t2 ->
     is_derive Mr s (frem * g (mto (O:=R_ops J) a0 a1 a2 s) *
                     (A * Rpower (mto (O:=R_ops J) a0 a1 a2 s) alpha * dmdt (O:=R_ops J) a0 a1 a2 s))) ->
  is_RInt (fun m => frem * g m * (A * Rpower m alpha))
          (mto (O:=R_ops J) a0 a1 a2 t2) (mto (O:=R_ops J) a0 a1 a2 t1) (Mr t2 - Mr t1).
Proof.
  intros J a0 a1 a2 alpha lo up N0 frem g Mr t1 t2 H0 H1 H2 Hlo Hlu Ht1 Ht12 HloM A Hg HMr.
  set (phi := fun s => mto (O:=R_ops J) a0 a1 a2 s).
  set (dphi := fun s => - dmdt (O:=R_ops J) a0 a1 a2 s).
  set (h := fun m => frem * g m * (A * Rpower m alpha)).
  assert (Hrange : forall s, t1 <= s <= t2 -> phi t2 <= phi s <= phi t1).
  { intros s [Hs1 Hs2]. unfold phi. split.
    - apply mto_decreasing_le; try assumption; lra.
    - apply mto_decreasing_le; try assumption. }
  (* continuity of h on the swept mass range *)
  assert (Hh : forall m, phi t2 <= m <= phi t1 -> continuous h m).
  { intros m Hm. unfold h.
    assert (Hmpos : 0 < m) by (unfold phi in Hm; lra).
    apply (continuous_mult (fun m => frem * g m) (fun m => A * Rpower m alpha)).
    - apply (continuous_mult (fun _ => frem) g); [apply continuous_const|].
      apply Hg. exact Hm.
    - apply (continuous_mult (fun _ => A) (fun m => Rpower m alpha)); [apply continuous_const|].
      apply Rpower_continuous. exact Hmpos. }
  (* substitution m = phi s *)
  assert (Hcomp : is_RInt (fun s => scal (dphi s) (h (phi s))) t1 t2 (RInt h (phi t1) (phi t2))).
  { apply (is_RInt_comp h phi dphi).
    - intros x Hx. rewrite Rmin_left, Rmax_right in Hx by exact Ht12.
      apply Hh. apply Hrange. exact Hx.
    - intros x Hx. rewrite Rmin_left, Rmax_right in Hx by exact Ht12.
      assert (Hx0 : a0 < x) by lra.
      destruct (dmdt_is_sweep_speed J a0 a1 a2 x H0 H1 H2 Hx0) as [Hd _].
      split; [exact Hd|].
      unfold dphi.
      apply (continuous_opp (fun s => dmdt (O:=R_ops J) a0 a1 a2 s)).
      apply dmdt_continuous; assumption. }
  (* fundamental theorem for Mr *)
  set (dMr := fun s => frem * g (phi s) * (A * Rpower (phi s) alpha * dmdt (O:=R_ops J) a0 a1 a2 s)).
  assert (HdMr : forall s, dMr s = opp (scal (dphi s) (h (phi s)))).
  { intros s. unfold dMr, dphi, h, opp, scal; simpl. unfold mult; simpl. ring. }
  assert (Hder : is_RInt dMr t1 t2 (minus (Mr t2) (Mr t1))).
  { apply (is_RInt_derive Mr dMr).
    - intros x Hx. rewrite Rmin_left, Rmax_right in Hx by exact Ht12.
      apply HMr. exact Hx.
    - intros x Hx. rewrite Rmin_left, Rmax_right in Hx by exact Ht12.
      assert (Hx0 : a0 < x) by lra.
      apply (continuous_ext (fun s => opp (scal (dphi s) (h (phi s))))).
      + intros s. symmetry. apply HdMr.
      + apply (continuous_opp (fun s => scal (dphi s) (h (phi s)))).
        apply (continuous_scal dphi (fun s => h (phi s))).
        * unfold dphi.
          apply (continuous_opp (fun s => dmdt (O:=R_ops J) a0 a1 a2 s)).
          apply dmdt_continuous; assumption.
        * apply (continuous_comp phi h).
          -- apply mto_continuous; assumption.
          -- apply Hh. apply Hrange. exact Hx. }
  (* the two integrals of dMr agree *)
  pose proof (is_RInt_opp _ _ _ _ Hcomp) as Hopp.
  apply (is_RInt_ext _ dMr) in Hopp.
  2:{ intros x _. symmetry. apply HdMr. }
  assert (Heq : minus (Mr t2) (Mr t1) = opp (RInt h (phi t1) (phi t2))).
  { rewrite <- (is_RInt_unique _ _ _ _ Hder). apply is_RInt_unique. exact Hopp. }
  (* h is integrable over the swept range *)
  assert (Hle : phi t2 <= phi t1) by (apply Hrange; lra).
  assert (Hex : ex_RInt h (phi t2) (phi t1)).
  { apply (ex_RInt_continuous h). intros z Hz.
    rewrite Rmin_left, Rmax_right in Hz by exact Hle. apply Hh. exact Hz. }
  replace (Mr t2 - Mr t1) with (RInt h (phi t2) (phi t1)).
  - apply (RInt_correct h). exact Hex.
  - change (Mr t2 - Mr t1) with (minus (Mr t2) (Mr t1)). rewrite Heq.
    symmetry. apply opp_RInt_swap. apply ex_RInt_swap. exact Hex.
Qed.
