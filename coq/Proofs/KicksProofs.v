(* Proofs/KicksProofs.v -- theorems about Model/Kicks.v at the real instance. *)
From Coq Require Import List Bool Reals Lra Lia.
From Coquelicot Require Import Coquelicot.
From SSP Require Import Num RFacts Model.Kicks Model.KicksSpec Proofs.EjectProofs.
(* Coquelicot.AutoDerive exports a constructor named [Forall] that shadows
   Forall for anyone importing List before Coquelicot (as Properties/C15.v
   does).  Re-exporting List here makes [Forall] mean Forall again in every
   file that imports this one last. *)
From Coq Require Export List.
Import ListNotations.
Local Open Scope R_scope.

(* ------------------------------------------------------------------ *)
(* constants *)
Lemma PI_pos : 0 < PI. Proof. exact PI_RGT_0. Qed.
Lemma sqrt2_pos : 0 < sqrt 2. Proof. apply sqrt_lt_R0; lra. Qed.
Lemma sqrtPI_pos : 0 < sqrt PI. Proof. apply sqrt_lt_R0; exact PI_pos. Qed.
Lemma sqrt2_sq : sqrt 2 * sqrt 2 = 2. Proof. apply sqrt_sqrt; lra. Qed.
Lemma sqrtPI_sq : sqrt PI * sqrt PI = PI. Proof. apply sqrt_sqrt; left; exact PI_pos. Qed.
Lemma sqrt_2PI : sqrt (2 / PI) = sqrt 2 / sqrt PI.
Proof. apply sqrt_div_alt; exact PI_pos. Qed.

(* the clean primitive and integrand *)
Definition cF (J : Junk) (a x : R) : R :=
  jerf J (x / (a * sqrt 2)) - sqrt (2 / PI) * (x / a) * exp (- (x * x) / (2 * (a * a))).
Definition cg (a x : R) : R :=
  sqrt (2 / PI) * (x * x * exp (- (x * x) / (2 * (a * a)))) / (a * a * a).

Lemma cF_derive J a x : erf_facts J -> 0 < a -> is_derive (cF J a) x (cg a x).
Proof.
  intros (_ & Hd & _) Ha.
  pose proof sqrt2_pos as H2. pose proof sqrtPI_pos as HP.
  pose proof sqrt2_sq as H22. pose proof sqrtPI_sq as HPP.
  unfold cF.
  auto_derive.
  - exists (2 / sqrt PI * exp (- (x * / (a * sqrt 2) * (x * / (a * sqrt 2))))). apply Hd.
  - rewrite (is_derive_unique (fun x0 : R => jerf J x0) _ _ (Hd (x * / (a * sqrt 2)))).
    unfold cg. rewrite sqrt_2PI.
    replace (x * / (a * sqrt 2) * (x * / (a * sqrt 2))) with ((x * x) / (2 * (a * a))).
    2:{ transitivity (x * x / ((sqrt 2 * sqrt 2) * (a * a))); [now rewrite H22|field; lra]. }
    replace (- (x * x) / (2 * (a * a))) with (- ((x * x) / (2 * (a * a)))) by (field; lra).
    replace (- (x * x) * / (2 * (a * a))) with (- ((x * x) / (2 * (a * a)))) by (field; lra).
    set (E := exp (- (x * x / (2 * (a * a))))).
    field_simplify_eq; [|repeat split; lra].
    replace (sqrt 2 ^ 2) with 2 by (simpl; lra).
    ring.
Qed.

Lemma cg_continuous a x : 0 < a -> continuous (cg a) x.
Proof.
  intros Ha. apply (ex_derive_continuous (cg a)). unfold cg. auto_derive.
  repeat split; try exact I.
Qed.

Lemma cg_nonneg a x : 0 < a -> 0 <= cg a x.
Proof.
  intros Ha. unfold cg. apply div_nonneg.
  - apply Rmult_le_pos; [apply sqrt_pos|]. apply Rmult_le_pos; [nra|left; apply exp_pos].
  - apply Rmult_lt_0_compat; [apply Rmult_lt_0_compat|]; assumption.
Qed.

Lemma cF_int J a u w : erf_facts J -> 0 < a -> is_RInt (cg a) u w (cF J a w - cF J a u).
Proof.
  intros HJ Ha.
  apply (is_RInt_derive (cF J a) (cg a)).
  - intros x _. now apply cF_derive.
  - intros x _. now apply cg_continuous.
Qed.

Lemma cF_mono J a u w : erf_facts J -> 0 < a -> u <= w -> cF J a u <= cF J a w.
Proof.
  intros HJ Ha Huw.
  pose proof (is_RInt_ge_0 (cg a) u w _ Huw (cF_int J a u w HJ Ha)) as H.
  assert (0 <= cF J a w - cF J a u) by (apply H; intros x _; now apply cg_nonneg).
  lra.
Qed.

Lemma cF_0 J a : erf_facts J -> cF J a 0 = 0.
Proof.
  intros (H0 & _). unfold cF.
  replace (0 / (a * sqrt 2)) with 0 by (unfold Rdiv; ring).
  rewrite H0. unfold Rdiv. ring.
Qed.

(* erf is non-decreasing *)
Lemma erf_mono J x y : erf_facts J -> x <= y -> jerf J x <= jerf J y.
Proof.
  intros (_ & Hd & _) Hxy.
  destruct (MVT_gen (jerf J) x y (fun t => 2 / sqrt PI * exp (- (t * t)))) as (c & _ & Hc).
  - intros t _. apply Hd.
  - intros t _. apply derivable_continuous_pt. eexists. apply is_derive_Reals, Hd.
  - assert (0 <= 2 / sqrt PI * exp (- (c * c)) * (y - x)).
    { apply Rmult_le_pos; [|lra]. apply Rmult_le_pos; [|left; apply exp_pos].
      apply div_nonneg; [lra|exact sqrtPI_pos]. }
    lra.
Qed.

(* ------------------------------------------------------------------ *)
(* unfolding the model at the real instance *)
Lemma maxwell_pdf_unfold J x a :
  maxwell_pdf (O:=R_ops J) PI x a =
  Rdiv_j J (Rsqrt_j J (Rdiv_j J (1 + 1) PI) *
            (Rpow_j J x (1 + 1) * exp (Rdiv_j J (- 1 * Rpow_j J x (1 + 1)) ((1 + 1) * Rpow_j J a (1 + 1)))))
           (Rpow_j J a (1 + 1 + 1)).
Proof. reflexivity. Qed.

Lemma maxwell_cdf_unfold J v a :
  maxwell_cdf (O:=R_ops J) PI v a =
  jerf J (Rdiv_j J v (a * Rsqrt_j J (1 + 1))) -
  Rsqrt_j J (Rdiv_j J (1 + 1) PI) * Rdiv_j J v a * exp (Rdiv_j J (- (v * v)) ((1 + 1) * (a * a))).
Proof. reflexivity. Qed.

Lemma Rpower_2 x : 0 < x -> Rpower x (1 + 1) = x * x.
Proof. intros Hx. rewrite Rpower_plus, Rpower_1 by assumption. reflexivity. Qed.
Lemma Rpower_3 x : 0 < x -> Rpower x (1 + 1 + 1) = x * x * x.
Proof. intros Hx. rewrite !Rpower_plus, Rpower_1 by assumption. reflexivity. Qed.

Lemma norm_ok J : Rsqrt_j J (Rdiv_j J (1 + 1) PI) = sqrt (2 / PI).
Proof.
  pose proof PI_pos as HP.
  rewrite Rdiv_j_ok by lra. replace (1 + 1) with 2 by lra.
  apply Rsqrt_j_ok. apply div_nonneg; lra.
Qed.

Lemma maxwell_pdf_clean J x a : 0 < a -> 0 < x -> maxwell_pdf (O:=R_ops J) PI x a = cg a x.
Proof.
  intros Ha Hx. rewrite maxwell_pdf_unfold, norm_ok.
  rewrite !Rpow_j_ok by assumption. rewrite !Rpower_2, Rpower_3 by assumption.
  assert (0 < a * a) by (apply Rmult_lt_0_compat; assumption).
  assert (0 < a * a * a) by (apply Rmult_lt_0_compat; assumption).
  rewrite !Rdiv_j_ok by lra.
  unfold cg. replace (1 + 1) with 2 by lra.
  replace (-1 * (x * x)) with (- (x * x)) by ring. reflexivity.
Qed.

Lemma maxwell_cdf_clean J v a : 0 < a -> maxwell_cdf (O:=R_ops J) PI v a = cF J a v.
Proof.
  intros Ha. pose proof sqrt2_pos as H2.
  rewrite maxwell_cdf_unfold, norm_ok.
  rewrite (Rsqrt_j_ok J (1 + 1)) by lra. replace (1 + 1) with 2 by lra.
  assert (0 < a * sqrt 2) by (apply Rmult_lt_0_compat; assumption).
  assert (0 < a * a) by (apply Rmult_lt_0_compat; assumption).
  rewrite !Rdiv_j_ok by lra. reflexivity.
Qed.

(* ------------------------------------------------------------------ *)
Theorem maxwell_cdf_is_integral : forall J v a, erf_facts J -> 0 < a -> 0 <= v ->
  is_RInt (fun x => maxwell_pdf (O:=R_ops J) PI x a) 0 v (maxwell_cdf (O:=R_ops J) PI v a).
Proof.
  intros J v a HJ Ha Hv. rewrite maxwell_cdf_clean by assumption.
  apply (is_RInt_ext (cg a)).
  - intros x (Hx & _). rewrite Rmin_left in Hx by assumption.
    symmetry. now apply maxwell_pdf_clean.
  - replace (cF J a v) with (cF J a v - cF J a 0) by (rewrite (cF_0 J a HJ); ring).
    now apply cF_int.
Qed.

Theorem maxwell_cdf_in_01 : forall J v a, erf_facts J -> 0 < a -> 0 <= v ->
  0 <= maxwell_cdf (O:=R_ops J) PI v a <= 1.
Proof.
  intros J v a HJ Ha Hv. rewrite maxwell_cdf_clean by assumption. split.
  - rewrite <- (cF_0 J a HJ). now apply cF_mono.
  - unfold cF. destruct HJ as (_ & _ & H1). specialize (H1 (v / (a * sqrt 2))).
    assert (0 <= sqrt (2 / PI) * (v / a) * exp (- (v * v) / (2 * (a * a)))).
    { apply Rmult_le_pos; [|left; apply exp_pos].
      apply Rmult_le_pos; [apply sqrt_pos|now apply div_nonneg]. }
    lra.
Qed.

Theorem maxwell_cdf_monotone : forall J v v' a, erf_facts J -> 0 < a -> 0 <= v -> v <= v' ->
  maxwell_cdf (O:=R_ops J) PI v a <= maxwell_cdf (O:=R_ops J) PI v' a.
Proof.
  intros J v v' a HJ Ha Hv Hvv'. rewrite !maxwell_cdf_clean by assumption. now apply cF_mono.
Qed.

Lemma retention_exact_unfold J fb vesc vdisp :
  retention_exact (O:=R_ops J) PI fb vesc vdisp =
  if Rleb 1 fb then 1 else maxwell_cdf (O:=R_ops J) PI vesc (vdisp * (1 - fb)).
Proof. reflexivity. Qed.

Theorem retention_full_fallback : forall J fb vesc vdisp, 1 <= fb ->
  retention_exact (O:=R_ops J) PI fb vesc vdisp = 1.
Proof.
  intros J fb vesc vdisp H. rewrite retention_exact_unfold.
  destruct (Rleb_spec 1 fb); [reflexivity|contradiction].
Qed.

Theorem retention_exact_in_01 : forall J fb vesc vdisp, erf_facts J -> 0 <= fb -> 0 < vdisp -> 0 <= vesc ->
  0 <= retention_exact (O:=R_ops J) PI fb vesc vdisp <= 1.
Proof.
  intros J fb vesc vdisp HJ Hfb Hvd Hve. rewrite retention_exact_unfold.
  destruct (Rleb_spec 1 fb) as [H|H]; [lra|].
  apply maxwell_cdf_in_01; try assumption.
  apply Rmult_lt_0_compat; lra.
Qed.

Theorem sigmoid_in_01 : forall J m slope scale, erf_facts J ->
  0 <= sigmoid (O:=R_ops J) m slope scale <= 1.
Proof.
  intros J m slope scale HJ.
  change (sigmoid (O:=R_ops J) m slope scale) with (jerf J (exp (slope * (m - scale)))).
  split.
  - destruct HJ as (H0 & HJ'). rewrite <- H0. apply erf_mono; [exact (conj H0 HJ')|].
    left; apply exp_pos.
  - destruct HJ as (_ & _ & H1). apply H1.
Qed.

(* ------------------------------------------------------------------ *)
(* the kick loop *)
Lemma kicks_loop_cons J c01 m n r rets ej :
  kicks_loop (O:=R_ops J) c01 ((m, n) :: r) rets ej =
  if Rltb n c01 then
    let '(r', e) := kicks_loop (O:=R_ops J) c01 r (tl rets) ej in ((m, n) :: r', e)
  else
    let '(r', e) := kicks_loop (O:=R_ops J) c01 r (tl rets) (ej + m * (1 - hd 1 rets)) in
    ((m * hd 1 rets, n * hd 1 rets) :: r', e).
Proof. reflexivity. Qed.

Lemma kicks_loop_inv J c01 : forall MN rets ej MN' ej',
  length rets = length MN -> Forall (fun r => 0 <= r <= 1) rets -> Forall wfbin MN ->
  kicks_loop (O:=R_ops J) c01 MN rets ej = (MN', ej') ->
  length MN' = length MN /\
  (forall j m n r, nth_error MN j = Some (m, n) -> nth_error rets j = Some r ->
     nth_error MN' j = Some (if Rlt_dec n c01 then (m, n) else (m * r, n * r))) /\
  Forall2 (fun p p' => fst p' <= fst p /\ snd p' <= snd p /\ fst p' * snd p = fst p * snd p') MN MN' /\
  ej' = ej + sumM MN - sumM MN'.
Proof.
  induction MN as [|[m n] MN IH]; intros rets ej MN' ej' Hlen Hr Hwf Hk.
  - simpl in Hk. inversion Hk; subst. split; [reflexivity|].
    split; [intros j m n r Hj; destruct j; discriminate|].
    split; [constructor|]. simpl; lra.
  - destruct rets as [|r0 rets]; [discriminate|]. simpl in Hlen.
    inversion Hr as [|? ? Hr0 Hr']; inversion Hwf as [|? ? Hw0 Hw']; subst.
    destruct Hw0 as (Hm & Hn & _). simpl in Hm, Hn.
    rewrite kicks_loop_cons in Hk. simpl hd in Hk; simpl tl in Hk.
    unfold Rltb in Hk. destruct (Rlt_dec n c01) as [Hlt|Hnlt].
    + destruct (kicks_loop (O:=R_ops J) c01 MN rets ej) as [r' e] eqn:E.
      inversion Hk; subst.
      destruct (IH rets ej r' ej' (eq_add_S _ _ Hlen) Hr' Hw' E) as (A & B & C & D).
      split; [simpl; now rewrite A|].
      split.
      { intros j m0 n0 r Hj Hrj. destruct j as [|j]; simpl in *.
        - inversion Hj; inversion Hrj; subst.
          destruct (Rlt_dec n0 c01); [reflexivity|contradiction].
        - now apply (B j). }
      split; [constructor; [simpl; lra|exact C]|].
      simpl. lra.
    + destruct (kicks_loop (O:=R_ops J) c01 MN rets (ej + m * (1 - r0))) as [r' e] eqn:E.
      inversion Hk; subst.
      destruct (IH rets _ r' ej' (eq_add_S _ _ Hlen) Hr' Hw' E) as (A & B & C & D).
      split; [simpl; now rewrite A|].
      split.
      { intros j m0 n0 r Hj Hrj. destruct j as [|j]; simpl in *.
        - inversion Hj; inversion Hrj; subst.
          destruct (Rlt_dec n0 c01); [contradiction|reflexivity].
        - now apply (B j). }
      split; [constructor; [simpl; repeat split; nra|exact C]|].
      simpl. lra.
Qed.

Theorem kicks_bookkeeping : forall J c01 MN rets MN' ej,
  length rets = length MN -> Forall (fun r => 0 <= r <= 1) rets -> Forall wfbin MN ->
  unbound_natal_kicks (O:=R_ops J) c01 MN rets = (MN', ej) ->
  length MN' = length MN /\
  (forall j m n r, nth_error MN j = Some (m, n) -> nth_error rets j = Some r ->
     nth_error MN' j = Some (if Rlt_dec n c01 then (m, n) else (m * r, n * r))) /\
  Forall2 (fun p p' => fst p' <= fst p /\ snd p' <= snd p /\ fst p' * snd p = fst p * snd p') MN MN' /\
  ej = sumM MN - sumM MN'.
Proof.
  intros J c01 MN rets MN' ej Hlen Hr Hwf Hk.
  destruct (kicks_loop_inv J c01 MN rets 0 MN' ej Hlen Hr Hwf Hk) as (A & B & C & D).
  repeat split; try assumption. lra.
Qed.

(* ------------------------------------------------------------------ *)
(* interpolation *)
Definition incr (xs : list R) : Prop :=
  forall j, (S j < length xs)%nat -> nth j xs 0 < nth (S j) xs 0.

Lemma incr_tl x xs : incr (x :: xs) -> incr xs.
Proof. intros H j Hj. apply (H (S j)). simpl. lia. Qed.

Lemma incr_le xs : incr xs -> forall i j, (i <= j)%nat -> (j < length xs)%nat ->
  nth i xs 0 <= nth j xs 0.
Proof.
  intros H i j. induction j as [|j IH]; intros Hij Hj.
  - replace i with 0%nat by lia. lra.
  - destruct (Nat.eq_dec i (S j)) as [->|Hne]; [lra|].
    assert (nth i xs 0 <= nth j xs 0) by (apply IH; lia).
    pose proof (H j Hj). lra.
Qed.

Lemma last_nth_len (xs : list R) d : last xs d = nth (length xs - 1) xs d.
Proof.
  induction xs as [|x xs IH]; [reflexivity|].
  destruct xs as [|x' xs]; [reflexivity|].
  change (last (x :: x' :: xs) d) with (last (x' :: xs) d). rewrite IH.
  simpl. rewrite Nat.sub_0_r. reflexivity.
Qed.

Lemma searchsorted_cons J x r v k :
  searchsorted_left (O:=R_ops J) (x :: r) v k =
  if Rltb x v then searchsorted_left (O:=R_ops J) r v (S k) else k.
Proof. reflexivity. Qed.

Lemma searchsorted_between J : forall xs v k i, incr xs -> (S i < length xs)%nat ->
  nth i xs 0 < v <= nth (S i) xs 0 ->
  searchsorted_left (O:=R_ops J) xs v k = (k + S i)%nat.
Proof.
  induction xs as [|x r IH]; intros v k i Hinc Hlen Hv; [simpl in Hlen; lia|].
  rewrite searchsorted_cons.
  assert (Hx : x < v).
  { pose proof (incr_le _ Hinc 0 i ltac:(lia) ltac:(lia)) as H. simpl in H. simpl in Hv. lra. }
  destruct (Rltb_spec x v) as [_|Hn]; [|contradiction].
  destruct i as [|i].
  - destruct r as [|x1 r']; [simpl in Hlen; lia|].
    rewrite searchsorted_cons. simpl in Hv.
    destruct (Rltb_spec x1 v) as [Hc|_]; [lra|]. lia.
  - rewrite (IH v (S k) i (incr_tl _ _ Hinc)); [lia|simpl in Hlen; lia|exact Hv].
Qed.

Lemma interp1d_unfold J xs ys lo hi v :
  interp1d (O:=R_ops J) xs ys lo hi v =
  if Rltb v (nth 0 xs 0) then lo
  else if Rltb (last xs 0) v then hi
  else
    let idx := Nat.min (Nat.max (searchsorted_left (O:=R_ops J) xs v 0) 1) (length xs - 1) in
    Rdiv_j J (nth idx ys 0 - nth (idx - 1) ys 0) (nth idx xs 0 - nth (idx - 1) xs 0)
      * (v - nth (idx - 1) xs 0) + nth (idx - 1) ys 0.
Proof. reflexivity. Qed.

Theorem interp1d_between : forall J xs ys v i,
  (S i < length xs)%nat -> length ys = length xs ->
  (forall j, (S j < length xs)%nat -> nth j xs 0 < nth (S j) xs 0) ->
  nth i xs 0 < v <= nth (S i) xs 0 ->
  let y := interp1d (O:=R_ops J) xs ys 0 1 v in
  Rmin (nth i ys 0) (nth (S i) ys 0) <= y <= Rmax (nth i ys 0) (nth (S i) ys 0).
Proof.
  intros J xs ys v i Hlen _ Hinc Hv y. subst y.
  rewrite interp1d_unfold.
  pose proof (incr_le _ Hinc 0 i ltac:(lia) ltac:(lia)) as H0.
  pose proof (incr_le _ Hinc (S i) (length xs - 1) ltac:(lia) ltac:(lia)) as Hl.
  destruct (Rltb_spec v (nth 0 xs 0)) as [Hc|_]; [lra|].
  rewrite last_nth_len.
  destruct (Rltb_spec (nth (length xs - 1) xs 0) v) as [Hc|_]; [lra|].
  rewrite (searchsorted_between J xs v 0 i Hinc Hlen Hv).
  replace (Nat.min (Nat.max (0 + S i) 1) (length xs - 1)) with (S i) by lia.
  cbv zeta. replace (S i - 1)%nat with i by lia.
  set (x0 := nth i xs 0) in *. set (x1 := nth (S i) xs 0) in *.
  set (y0 := nth i ys 0). set (y1 := nth (S i) ys 0).
  rewrite Rdiv_j_ok by lra.
  set (t := (v - x0) / (x1 - x0)).
  assert (Ht : 0 <= t <= 1).
  { unfold t. split; [apply div_nonneg; lra|apply div_le_iff; lra]. }
  replace ((y1 - y0) / (x1 - x0) * (v - x0) + y0) with (y0 + (y1 - y0) * t)
    by (unfold t; field; lra).
  unfold Rmin, Rmax. destruct (Rle_dec y0 y1); split; nra.
Qed.
