(* Proofs/ArgStoreProofs.v -- no hidden state, no argument mutation (C16). *)
From Coq Require Import List Bool ZArith String Lia.
From SSP Require Import Model.ArgStore.
Import ListNotations.
Local Open Scope Z_scope.
Arguments String.eqb : simpl never.

Lemma ifmr_call_copy_store s c : fst (ifmr_call true s c) = s.
Proof. unfold ifmr_call. destruct (c_kwargs c) as [h|]; [destruct (sget s h)|]; reflexivity. Qed.

(* for every history of calls, with arbitrary sharing of dictionaries, the store
   of argument objects after the history equals the store before *)
Theorem store_unchanged : forall cs s, fst (run_history true s cs) = s.
Proof.
  induction cs as [|c r IH]; intros s; [reflexivity|]. simpl.
  destruct (ifmr_call true s c) as [s1 v] eqn:Hc.
  pose proof (ifmr_call_copy_store s c) as H1. rewrite Hc in H1. simpl in H1. subst s1.
  specialize (IH s). destruct (run_history true s r) as [s2 vs]. exact IH.
Qed.

(* each result equals the result of the same call made on the ORIGINAL store:
   results do not depend on what was constructed before *)
Theorem history_free : forall cs s,
  snd (run_history true s cs) = map (fun c => snd (ifmr_call true s c)) cs.
Proof.
  induction cs as [|c r IH]; intros s; [reflexivity|]. simpl.
  destruct (ifmr_call true s c) as [s1 v] eqn:Hc.
  pose proof (ifmr_call_copy_store s c) as H1. rewrite Hc in H1. simpl in H1. subst s1.
  specialize (IH s). destruct (run_history true s r) as [s2 vs]. simpl in *. now rewrite IH.
Qed.

(* a call whose dictionary does not fix the metallicity uses the requested one *)
Theorem uses_requested_feh : forall s c h d,
  c_kwargs c = Some h -> sget s h = Some d -> dget d "FeH" = None ->
  snd (ifmr_call true s c) = c_feh c.
Proof.
  intros s c h d Hk Hs Hd. unfold ifmr_call. rewrite Hk, Hs. simpl.
  unfold setdefault. rewrite Hd.
  assert (H : forall d0, dget d0 "FeH" = None -> dget (d0 ++ [("FeH"%string, c_feh c)]) "FeH" = Some (c_feh c)).
  { induction d0 as [|[k v] r IH]; simpl; intros H0; [reflexivity|].
    destruct (String.eqb "FeH" k) eqn:E; [discriminate H0|]. apply IH. exact H0. }
  now rewrite (H d Hd).
Qed.

(* the code BEFORE fix cc856a2: the history  IFMR(-1.0, d); IFMR(0.2, d)  builds the
   second model at the first metallicity, and the caller's dictionary is changed *)
Theorem alias_refuted :
  let s := [(0%nat, [])] in
  let cs := [{| c_feh := -100; c_kwargs := Some 0%nat |}; {| c_feh := 20; c_kwargs := Some 0%nat |}] in
  snd (run_history false s cs) = [-100; -100] /\ fst (run_history false s cs) <> s /\
  snd (run_history true s cs) = [-100; 20].
Proof. vm_compute. repeat split; try reflexivity. discriminate. Qed.
