(* Proofs/EscProofs2.v -- further theorems about Model/Esc.v at the real instance
   (Properties/C03b.v).  Every statement is universally quantified over the Junk
   record, so no step can rely on the value of x/0. *)
From Coq Require Import List Bool Reals Lra.
From Coquelicot Require Import Coquelicot.
From SSP Require Import Num RFacts Model.Pk Model.Esc Model.EscSpec Proofs.PkProofs Proofs.EscProofs.
Import ListNotations.
Local Open Scope R_scope.

(* ------------------------------------------------------------------ *)
(* constants of the model *)

Lemma nhalf_eq J : nhalf (O:=R_ops J) = 1 / 2.
Proof.
  unfold nhalf, ntwo. cbn [nadd ndiv none R_ops]. rewrite Rdiv_j_ok by lra. lra.
Qed.

Lemma three_halves_eq J : three_halves (O:=R_ops J) = 3 / 2.
Proof.
  unfold three_halves, ntwo. cbn [nadd ndiv none R_ops]. rewrite Rdiv_j_ok by lra. lra.
Qed.

Lemma sb_Is_mk J res md n al lo up :
  sb_Is (O:=R_ops J) md (mk_starbin (O:=R_ops J) res n al lo up) =
  omul (O:=R_ops J) (Some n)
    (osub (O:=R_ops J) (Some 1)
       (omul (O:=R_ops J) (Some (Rpow_j J md (- nhalf (O:=R_ops J))))
          (odiv (O:=R_ops J) (Pk (O:=R_ops J) res al (three_halves (O:=R_ops J)) lo up)
                             (Pk (O:=R_ops J) res al 1 lo up)))).
Proof. reflexivity. Qed.

Lemma sb_Is_some J res md n al lo up :
  Pk (O:=R_ops J) res al 1 lo up <> None ->
  Pk (O:=R_ops J) res al (three_halves (O:=R_ops J)) lo up <> None ->
  sb_Is (O:=R_ops J) md (mk_starbin (O:=R_ops J) res n al lo up) =
  Some (n * (1 - Rpow_j J md (- nhalf (O:=R_ops J)) *
                 Rdiv_j J (Pk_raw (O:=R_ops J) al (three_halves (O:=R_ops J)) lo up)
                          (Pk_raw (O:=R_ops J) al 1 lo up))).
Proof.
  intros H1 H15. apply Pk_some_raw in H1. apply Pk_some_raw in H15.
  rewrite sb_Is_mk, H1, H15. reflexivity.
Qed.

(* ------------------------------------------------------------------ *)
(* Is is the integral of the bin's power law times 1 - sqrt (m / md) *)

Lemma integrand_eq md al x c : 0 < md -> 0 < x ->
  c * (Rpower x (al + 1 - 1) - Rpower md (- (1 / 2)) * Rpower x (al + 3 / 2 - 1))
  = c * Rpower x al * (1 - sqrt (x / md)).
Proof.
  intros Hmd Hx.
  replace (al + 1 - 1) with al by ring.
  replace (al + 3 / 2 - 1) with (al + / 2) by lra.
  replace (1 / 2) with (/ 2) by lra.
  rewrite Rpower_plus, Rpower_Ropp, !Rpower_sqrt by assumption.
  rewrite sqrt_div_alt by exact Hmd.
  unfold Rdiv. ring.
Qed.

Lemma Is_is_integral : forall J res md n al lo up v, 0 < md -> 0 < lo -> lo < up ->
  List.Forall (fun k => Pk (O:=R_ops J) res al k lo up <> None) [1; three_halves (O:=R_ops J)] ->
  sb_Is (O:=R_ops J) md (mk_starbin (O:=R_ops J) res n al lo up) = Some v ->
  is_RInt (fun m => n / Pk_raw (O:=R_ops J) al 1 lo up * Rpower m al * (1 - sqrt (m / md))) lo up v.
Proof.
  intros J res md n al lo up v Hmd Hlo Hup HF Hv.
  pose proof (Forall_inv HF) as H1. cbv beta in H1.
  pose proof (Forall_inv (Forall_inv_tail HF)) as H15. cbv beta in H15.
  rewrite (sb_Is_some J res md n al lo up H1 H15) in Hv.
  rewrite nhalf_eq, three_halves_eq in Hv.
  assert (HP1 : 0 < Pk_raw (O:=R_ops J) al 1 lo up) by (apply Pk_raw_pos; assumption).
  rewrite Rpow_j_ok in Hv by exact Hmd.
  rewrite Rdiv_j_ok in Hv by lra.
  injection Hv as Hv. subst v.
  set (P1 := Pk_raw (O:=R_ops J) al 1 lo up) in *.
  set (P15 := Pk_raw (O:=R_ops J) al (3 / 2) lo up).
  set (c := Rpower md (- (1 / 2))).
  assert (HI : is_RInt (fun m => scal (n / P1) (minus (Rpower m (al + 1 - 1))
                                                   (scal c (Rpower m (al + 3 / 2 - 1)))))
                 lo up (scal (n / P1) (minus P1 (scal c P15)))).
  { apply (is_RInt_scal (V:=R_NormedModule)).
    apply (is_RInt_minus (V:=R_NormedModule)).
    - apply Pk_raw_is_RInt; lra.
    - apply (is_RInt_scal (V:=R_NormedModule)). apply Pk_raw_is_RInt; lra. }
  replace (n * (1 - c * (P15 / P1))) with (scal (n / P1) (minus P1 (scal c P15))).
  2:{ unfold scal, minus, plus, opp; simpl. unfold mult; simpl. field. lra. }
  apply (is_RInt_ext (V:=R_NormedModule)) with (2 := HI).
  intros x Hx. rewrite Rmin_left, Rmax_right in Hx by lra.
  unfold scal, minus, plus, opp; simpl. unfold mult; simpl.
  change (Rpower x (al + 1 - 1) + - (c * Rpower x (al + 3 / 2 - 1)))
    with (Rpower x (al + 1 - 1) - c * Rpower x (al + 3 / 2 - 1)).
  unfold c. apply integrand_eq; lra.
Qed.

(* ------------------------------------------------------------------ *)
(* zero rate: nothing escapes *)

Lemma zero_rate_post : forall J res md tcc t stars rems den, tcc <= t ->
  ototal (map (sb_Is (O:=R_ops J) md)
            (filter (sb_depl (O:=R_ops J) md)
               (map (fun q => let '(n, al, lo, up) := q in mk_starbin (O:=R_ops J) res n al lo up) stars))) = Some den ->
  den + sumR (map (rem_I (O:=R_ops J) md) rems) <> 0 ->
  stars_ok J res stars ->
  let e := esc_field (O:=R_ops J) res md 0 tcc t NormN stars rems in
  List.Forall (fun v => v = Some 0) (e_dNs e) /\ List.Forall (fun v => v = Some 0) (e_dNr e) /\
  List.Forall (fun v => v = Some 0) (e_dMr e).
Proof.
  intros J res md tcc t stars rems den Ht Hden Hnz Hs e. subst e.
  rewrite (mkb_eq J) in Hden.
  esc_post J t tcc Ht.
  rewrite ototal_osumo, Hden, sum_plain_sumR.
  cbn [oadd odiv nadd ndiv R_ops].
  rewrite Rdiv_j_ok by exact Hnz.
  replace (0 / (den + sumR (map (rem_I (O:=R_ops J) md) rems))) with 0
    by (unfold Rdiv; ring).
  split; [|split].
  - apply Forall_forall. intros v Hv.
    apply in_map_iff in Hv. destruct Hv as (b & <- & Hb).
    apply in_map_iff in Hb. destruct Hb as (q & <- & Hq).
    destruct (sb_depl (O:=R_ops J) md (mkb J res q)); [|reflexivity].
    pose proof (stars_ok_In J res stars q Hs Hq) as Hok.
    destruct q as [[[n al] lo] up].
    destruct Hok as (_ & _ & _ & H1 & H15 & _).
    change (mkb J res (n, al, lo, up)) with (mk_starbin (O:=R_ops J) res n al lo up).
    rewrite (sb_Is_some J res md n al lo up H1 H15).
    cbn [omul nmul R_ops]. f_equal. ring.
  - apply Forall_forall. intros v Hv.
    apply in_map_iff in Hv. destruct Hv as (p & <- & _).
    destruct (Rltb 0 (fst p)); [|reflexivity].
    cbn [omul nmul R_ops]. f_equal. ring.
  - apply Forall_forall. intros v Hv.
    apply in_map_iff in Hv. destruct Hv as (p & <- & _).
    destruct (Rltb 0 (fst p)); [|reflexivity].
    cbn [omul nmul R_ops]. f_equal. ring.
Qed.
