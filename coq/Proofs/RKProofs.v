(* Proofs/RKProofs.v -- proofs of the facts stated in Properties/RK.v about
   every explicit Runge-Kutta method (Model/RK.v). Plain reals; no axioms
   beyond those of the standard library of reals. *)
From Coq Require Import List Reals Lra.
From SSP Require Import Model.RK.
Import ListNotations.
Local Open Scope R_scope.

(* ------------------------------------------------------------------ *)
(* linearity of [lin]                                                  *)

Lemma lin_ext : forall w n x y, (forall i, x i = y i) -> lin w n x = lin w n y.
Proof.
  intros w n x y Hxy. induction n as [|k IH]; simpl.
  - reflexivity.
  - rewrite IH, Hxy. reflexivity.
Qed.

Lemma lin_vadd : forall w n x y, lin w n (vadd x y) = lin w n x + lin w n y.
Proof.
  intros w n x y. induction n as [|k IH]; simpl.
  - lra.
  - rewrite IH. unfold vadd. lra.
Qed.

Lemma lin_vscale : forall w n h x, lin w n (vscale h x) = h * lin w n x.
Proof.
  intros w n h x. induction n as [|k IH]; simpl.
  - lra.
  - rewrite IH. unfold vscale. lra.
Qed.

Lemma lin_zero : forall w n, lin w n (fun _ => 0) = 0.
Proof.
  intros w n. induction n as [|k IH]; simpl.
  - reflexivity.
  - rewrite IH. lra.
Qed.

Lemma lin_axpy : forall w n a (x g : vec),
  lin w n (fun i => a * x i + g i) = a * lin w n x + lin w n g.
Proof.
  intros w n a x g. induction n as [|k IH]; simpl.
  - lra.
  - rewrite IH. lra.
Qed.

Lemma lin_fold : forall w n (l : list (R * vec)),
  lin w n (fun i => fold_right (fun p acc => fst p * snd p i + acc) 0 l)
  = fold_right (fun p acc => fst p * lin w n (snd p) + acc) 0 l.
Proof.
  intros w n l. induction l as [|p l IH]; simpl.
  - apply lin_zero.
  - rewrite <- IH. apply lin_axpy.
Qed.

Lemma lin_lincomb : forall w n coef ks,
  lin w n (lincomb coef ks)
  = fold_right (fun p acc => fst p * lin w n (snd p) + acc) 0 (combine coef ks).
Proof.
  intros w n coef ks. unfold lincomb. apply lin_fold.
Qed.

(* ------------------------------------------------------------------ *)
(* the stages                                                          *)

Lemma rk_stages_length : forall f t h y A c ks,
  length (rk_stages f t h y A c ks) = (length ks + min (length A) (length c))%nat.
Proof.
  intros f t h y A. induction A as [|arow A IH]; intros c ks; simpl.
  - rewrite Nat.add_0_r. reflexivity.
  - destruct c as [|ci c]; simpl.
    + rewrite Nat.add_0_r. reflexivity.
    + rewrite IH, app_length. simpl. rewrite <- Nat.add_assoc. reflexivity.
Qed.

Lemma rk_stages_lin : forall f w n r t h y,
  (forall t y, lin w n (f t y) = r t) ->
  forall A c ks cdone, length A = length c ->
  Forall2 (fun k cj => lin w n k = r (t + cj * h)) ks cdone ->
  Forall2 (fun k cj => lin w n k = r (t + cj * h))
          (rk_stages f t h y A c ks) (cdone ++ c).
Proof.
  intros f w n r t h y Hf A. induction A as [|arow A IH]; intros c ks cdone Hlen Hks.
  - destruct c as [|ci c]; simpl in Hlen; try discriminate.
    simpl. rewrite app_nil_r. exact Hks.
  - destruct c as [|ci c]; simpl in Hlen; try discriminate.
    simpl.
    replace (cdone ++ ci :: c) with ((cdone ++ [ci]) ++ c)
      by (rewrite <- app_assoc; reflexivity).
    apply IH.
    + injection Hlen as Hlen. exact Hlen.
    + apply Forall2_app.
      * exact Hks.
      * constructor.
        -- apply Hf.
        -- constructor.
Qed.

Lemma fold_stage_quad : forall w n r t h ks cs,
  Forall2 (fun k cj => lin w n k = r (t + cj * h)) ks cs ->
  forall b : list R,
  fold_right (fun p acc => fst p * lin w n (snd p) + acc) 0 (combine b ks)
  = fold_right (fun p acc => fst p * r (t + snd p * h) + acc) 0 (combine b cs).
Proof.
  intros w n r t h ks cs HF. induction HF as [|k cj ks cs Hk HF IH]; intros b.
  - destruct b; reflexivity.
  - destruct b as [|b0 b]; simpl.
    + reflexivity.
    + rewrite IH, Hk. reflexivity.
Qed.

Lemma rk_step_lin : forall f tab w n r, well_formed tab ->
  (forall t y, lin w n (f t y) = r t) ->
  forall t h y, lin w n (rk_step f tab t h y) = lin w n y + quad_step tab r t h.
Proof.
  intros f tab w n r [HA Hc] Hf t h y.
  unfold rk_step, quad_step.
  rewrite lin_vadd, lin_vscale, lin_lincomb.
  f_equal. f_equal.
  apply fold_stage_quad.
  change (tc tab) with ([] ++ tc tab) at 2.
  apply rk_stages_lin with (1 := Hf).
  - rewrite HA, Hc. reflexivity.
  - constructor.
Qed.

Lemma rk_linear_functional : forall f tab w n r, well_formed tab ->
  (forall t y, lin w n (f t y) = r t) ->
  forall hs t y, lin w n (rk_run f tab t y hs) = lin w n y + quad_run tab r t hs.
Proof.
  intros f tab w n r Hwf Hf hs. induction hs as [|h hs IH]; intros t y; simpl.
  - lra.
  - rewrite IH, (rk_step_lin f tab w n r Hwf Hf). lra.
Qed.

(* ------------------------------------------------------------------ *)
(* zero rate                                                           *)

Lemma fold_zero_rate : forall (t h : R) (l : list (R * R)),
  fold_right (fun p acc => fst p * 0 + acc) 0 l = 0.
Proof.
  intros t h l. induction l as [|p l IH]; simpl.
  - reflexivity.
  - rewrite IH. lra.
Qed.

Lemma quad_run_zero : forall tab hs t, quad_run tab (fun _ => 0) t hs = 0.
Proof.
  intros tab hs. induction hs as [|h hs IH]; intros t; simpl.
  - reflexivity.
  - rewrite IH. unfold quad_step. rewrite (fold_zero_rate t h). lra.
Qed.

Lemma rk_conserved : forall f tab w n, well_formed tab ->
  (forall t y, lin w n (f t y) = 0) ->
  forall hs t y, lin w n (rk_run f tab t y hs) = lin w n y.
Proof.
  intros f tab w n Hwf Hf hs t y.
  rewrite (rk_linear_functional f tab w n (fun _ => 0) Hwf Hf).
  rewrite quad_run_zero. lra.
Qed.

(* ------------------------------------------------------------------ *)
(* constant rate                                                       *)

Lemma fold_const_rate : forall (rho : R) (b c : list R), length c = length b ->
  fold_right (fun p acc => fst p * rho + acc) 0 (combine b c) = rho * sumlist b.
Proof.
  intros rho b. induction b as [|b0 b IH]; intros c Hlen; simpl.
  - unfold sumlist. simpl. lra.
  - destruct c as [|c0 c]; simpl in Hlen; try discriminate.
    injection Hlen as Hlen. simpl. rewrite (IH c Hlen).
    unfold sumlist. simpl. lra.
Qed.

Lemma quad_run_const : forall tab rho, well_formed tab -> sumlist (tb tab) = 1 ->
  forall hs t, quad_run tab (fun _ => rho) t hs = rho * sumlist hs.
Proof.
  intros tab rho [HA Hc] Hb hs. induction hs as [|h hs IH]; intros t; simpl.
  - unfold sumlist. simpl. lra.
  - rewrite IH. unfold quad_step.
    rewrite (fold_const_rate rho (tb tab) (tc tab) Hc), Hb.
    unfold sumlist. simpl. lra.
Qed.

Lemma rk_constant_rate : forall f tab w n rho, well_formed tab -> sumlist (tb tab) = 1 ->
  (forall t y, lin w n (f t y) = rho) ->
  forall hs t y, lin w n (rk_run f tab t y hs) = lin w n y + rho * sumlist hs.
Proof.
  intros f tab w n rho Hwf Hb Hf hs t y.
  rewrite (rk_linear_functional f tab w n (fun _ => rho) Hwf Hf).
  rewrite (quad_run_const tab rho Hwf Hb). reflexivity.
Qed.

(* ------------------------------------------------------------------ *)
(* homogeneity                                                         *)

Section Homogeneous.
  Variable f : R -> vec -> vec.
  Variable lam : R.
  Hypothesis Hhom : forall t y i, f t (vscale lam y) i = lam * f t y i.
  Hypothesis Hext : forall t y y', (forall i, y i = y' i) -> forall i, f t y i = f t y' i.

  Definition scaled (k' k : vec) : Prop := forall i, k' i = lam * k i.

  Lemma lincomb_scaled : forall ks' ks, Forall2 scaled ks' ks ->
    forall coef i, lincomb coef ks' i = lam * lincomb coef ks i.
  Proof.
    intros ks' ks HF. induction HF as [|k' k ks' ks Hk HF IH]; intros coef i.
    - unfold lincomb. destruct coef; simpl; lra.
    - destruct coef as [|a coef].
      + unfold lincomb. simpl. lra.
      + specialize (IH coef i). unfold lincomb in *. simpl.
        rewrite IH, (Hk i). lra.
  Qed.

  Lemma rk_stages_scaled : forall t h y' y, scaled y' y ->
    forall A c ks' ks, Forall2 scaled ks' ks ->
    Forall2 scaled (rk_stages f t h y' A c ks') (rk_stages f t h y A c ks).
  Proof.
    intros t h y' y Hy A. induction A as [|arow A IH]; intros c ks' ks Hks.
    - simpl. exact Hks.
    - destruct c as [|ci c]; simpl.
      + exact Hks.
      + apply IH. apply Forall2_app.
        * exact Hks.
        * constructor; [|constructor].
          intros i.
          rewrite <- Hhom.
          apply Hext. intros j.
          unfold vadd, vscale.
          rewrite (lincomb_scaled ks' ks Hks arow j), (Hy j). lra.
  Qed.

  Lemma rk_step_scaled : forall tab t h y' y, scaled y' y ->
    scaled (rk_step f tab t h y') (rk_step f tab t h y).
  Proof.
    intros tab t h y' y Hy i. unfold rk_step, vadd, vscale.
    rewrite (lincomb_scaled _ _
               (rk_stages_scaled t h y' y Hy (tA tab) (tc tab) [] [] (Forall2_nil _))
               (tb tab) i), (Hy i).
    lra.
  Qed.

  Lemma rk_run_scaled : forall tab hs t y' y, scaled y' y ->
    scaled (rk_run f tab t y' hs) (rk_run f tab t y hs).
  Proof.
    intros tab hs. induction hs as [|h hs IH]; intros t y' y Hy; simpl.
    - exact Hy.
    - apply IH. apply rk_step_scaled. exact Hy.
  Qed.
End Homogeneous.

Lemma rk_homogeneous : forall f tab lam,
  (forall t y i, f t (vscale lam y) i = lam * f t y i) ->
  (forall t y y', (forall i, y i = y' i) -> forall i, f t y i = f t y' i) ->
  forall hs t y i, rk_run f tab t (vscale lam y) hs i = lam * rk_run f tab t y hs i.
Proof.
  intros f tab lam Hhom Hext hs t y i.
  apply (rk_run_scaled f lam Hhom Hext tab hs t (vscale lam y) y).
  intros j. reflexivity.
Qed.
