(* Known finding C11 nan_amplitudes_segment_below_pk_threshold.
   (1) for EVERY number instance: if the integral Pk of any one segment is undefined (None = NaN),
       the IMF has no normalisation at all (A_comps = None);
   (2) over the reals, a one-segment IMF of slope -6 on [900, 1000] -- a positive integral of
       1.39e-16 -- is such a case with the code's threshold 1e-15 (composition with the C12 witness);
   (3) the same on the binary64 instance the correspondence check runs, slope -4 on [1e5, 1e6]. *)
From Coq Require Import List Bool Reals Lra.
From SSP Require Import Num FloatFun Model.Pk Model.IMF Proofs.PkProofs.
Import ListNotations.

Section Generic.
  Context {T : Type} {O : NumOps T}.
  Variable res : T.

  Lemma osum_none_absorbs : forall (l : list (option T)),
    fold_left (fun acc x => match acc, x with Some s, Some v => Some (nadd s v) | _, _ => None end) l None = None.
  Proof. induction l as [|x l IH]; simpl; [reflexivity|exact IH]. Qed.

  Lemma osum_in_none : forall (l : list (option T)) acc, In None l ->
    fold_left (fun acc x => match acc, x with Some s, Some v => Some (nadd s v) | _, _ => None end) l acc = None.
  Proof.
    induction l as [|x l IH]; intros acc Hin; [destruct Hin|].
    simpl. destruct Hin as [Hx|Hin].
    - subst x. destruct acc; apply osum_none_absorbs.
    - apply IH; exact Hin.
  Qed.

  Lemma norm_terms_none : forall (P : list (option T)) F, In None P -> In None (norm_terms P F).
  Proof.
    induction P as [|p P IH]; intros F Hin; [destruct Hin|].
    simpl. destruct Hin as [Hp|Hin].
    - subst p. left. reflexivity.
    - right. apply IH; exact Hin.
  Qed.

  Lemma A_comps_none_if_segment_none : forall a mb,
    In None (seg_P res none a mb) -> A_comps res a mb = None.
  Proof.
    intros a mb Hin. unfold A_comps, A_last, osum.
    rewrite (osum_in_none _ (Some nzero) (norm_terms_none _ (cont_factors a mb) Hin)). reflexivity.
  Qed.
End Generic.

Local Open Scope R_scope.

Lemma nan_amplitudes_refuted_R : forall J, exists a m1 m2,
  -6 <= a <= 4 /\ 1/1000 <= m1 /\ m1 < m2 /\ m2 <= 1000 /\
  0 < Pk_raw (O:=R_ops J) a 1 m1 m2 /\
  A_comps (O:=R_ops J) (1/1000000000000000) [a] [m1; m2] = None.
Proof.
  intro J. destruct (Pk_abs_threshold_refuted J) as (a & k & m1 & m2 & Ha & Hk & H1 & H12 & H2 & Hpos & Hnone).
  subst k. exists a, m1, m2. repeat (split; [assumption|]).
  apply A_comps_none_if_segment_none. simpl. left. exact Hnone.
Qed.

