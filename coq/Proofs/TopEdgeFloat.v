(* binary64 witness: BH bins ending at the broken power law's declared maximum 43.0 do not hold a 43.0 Msun BH *)
From Coq Require Import List Bool PrimFloat.
From SSP Require Import Num FloatFun Model.Bins.
Import ListNotations.
Definition te_bins : list (float * float) := [(0x1.98e219652bd3cp+2, 20); (20, 43)]%float.
Definition te_m : float := 43%float.
Definition te_in : float := 42.5%float.
Lemma top_edge_unbinned_float :
  determine_index (O:=F_ops) te_m te_bins false = Err ValueError /\ determine_index (O:=F_ops) te_in te_bins false = Ok 1%nat.
Proof. vm_compute. split; reflexivity. Qed.
