(* Non-negativity of counts and masses along the exact flow: every component of the modelled right-hand
   side is of the form  g' = c(t) g + h(t)  with h >= 0 (stars: h = 0, c = -(turn-off flux per star) + escape
   factor; remnants: h = deposit >= 0, c = escape factor).  Instances of ConeProofs.nonneg_invariant. *)
From Coq Require Import Reals Lra.
From Coquelicot Require Import Coquelicot.
From SSP Require Import Proofs.ConeProofs.
Local Open Scope R_scope.

Lemma linear_decay_nonneg : forall (c g : R -> R) t0 t1, t0 <= t1 ->
  (forall t, t0 <= t <= t1 -> continuous c t) ->
  (forall t, t0 <= t <= t1 -> is_derive g t (c t * g t)) ->
  0 <= g t0 -> forall t, t0 <= t <= t1 -> 0 <= g t.
Proof.
  intros c g t0 t1 Hle Hc Hg H0 t Ht.
  apply (nonneg_invariant c (fun _ => 0) g t0 t1 Hle Hc); try assumption.
  - intros s Hs. replace (c s * g s + 0) with (c s * g s) by ring. apply Hg; assumption.
  - intros s _. lra.
Qed.

(* a component that starts at zero and has h = 0 stays exactly zero (e.g. an empty star bin stays empty) *)
Lemma linear_decay_zero : forall (c g : R -> R) t0 t1, t0 <= t1 ->
  (forall t, t0 <= t <= t1 -> continuous c t) ->
  (forall t, t0 <= t <= t1 -> is_derive g t (c t * g t)) ->
  g t0 = 0 -> forall t, t0 <= t <= t1 -> g t = 0.
Proof.
  intros c g t0 t1 Hle Hc Hg H0 t Ht.
  assert (Hp : 0 <= g t) by (apply (linear_decay_nonneg c g t0 t1); try assumption; lra).
  assert (Hn : 0 <= - g t).
  { apply (linear_decay_nonneg c (fun s => - g s) t0 t1); try assumption.
    - intros s Hs. replace (c s * - g s) with (- (c s * g s)) by ring.
      apply (is_derive_opp g s (c s * g s)). apply Hg; assumption.
    - lra. }
  lra.
Qed.
