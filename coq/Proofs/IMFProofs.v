(* Proofs/IMFProofs.v -- theorems about Model/IMF.v at the real instance
   (statements fixed by Properties/C11.v).  Everything is universally
   quantified over the Junk record. *)
From Coq Require Import Bool Reals Lra Lia Sorted Arith.
From Coquelicot Require Import Coquelicot.
(* NOTE: Coquelicot.AutoDerive exports a constructor named [Forall] that shadows
   List.Forall.  List is therefore (re-)imported AFTER Coquelicot, and it is
   Require-EXPORTed so that Properties/C11.v (which imports Coquelicot after
   List and then this file) sees List.Forall under the short name again. *)
From Coq Require Export List.
From SSP Require Import Num RFacts Model.Pk Model.IMF Model.IMFSpec Proofs.PkProofs.
Import ListNotations.
Local Open Scope R_scope.

(* ------------------------------------------------------------------ *)
(* Junk-free list facts. *)

Lemma sorted_nth_lt (mb : list R) : StronglySorted Rlt mb ->
  forall i j, (i < j)%nat -> (j < length mb)%nat -> nth i mb 0 < nth j mb 0.
Proof.
  induction 1 as [|x l Hs IH Hall]; intros i j Hij Hj; simpl in Hj; [lia|].
  destruct j as [|j]; [lia|]. destruct i as [|i].
  - simpl. rewrite Forall_forall in Hall. apply Hall, nth_In. lia.
  - simpl. apply IH; lia.
Qed.

Lemma sorted_nth_le (mb : list R) : StronglySorted Rlt mb ->
  forall i j, (i <= j)%nat -> (j < length mb)%nat -> nth i mb 0 <= nth j mb 0.
Proof.
  intros Hs i j Hij Hj. destruct (Nat.eq_dec i j) as [->|Hne]; [lra|].
  left. apply sorted_nth_lt; try assumption; lia.
Qed.

Lemma last_nth_len (mb : list R) : forall n, length mb = S n -> last mb 0 = nth n mb 0.
Proof.
  induction mb as [|x l IH]; intros n Hn; [discriminate|].
  destruct l as [|y l'].
  - simpl in Hn. injection Hn as <-. reflexivity.
  - destruct n as [|n']; [discriminate|].
    change (last (x :: y :: l') 0) with (last (y :: l') 0).
    change (nth (S n') (x :: y :: l') 0) with (nth n' (y :: l') 0).
    apply IH. simpl in Hn. simpl. lia.
Qed.

Lemma pos_nth (mb : list R) : Forall (fun x => 0 < x) mb ->
  forall i, (i < length mb)%nat -> 0 < nth i mb 0.
Proof.
  intros H i Hi. rewrite Forall_forall in H. apply H, nth_In, Hi.
Qed.

Definition prodR (l : list R) : R := fold_right Rmult 1 l.

Lemma prodR_pos l : Forall (fun x => 0 < x) l -> 0 < prodR l.
Proof.
  induction 1 as [|x l Hx _ IH]; simpl; [lra|]. apply Rmult_lt_0_compat; assumption.
Qed.

Lemma fold_left_mul l : forall acc, fold_left Rmult l acc = acc * prodR l.
Proof.
  induction l as [|x l IH]; intros acc; simpl; [ring|]. rewrite IH. ring.
Qed.

(* Real-valued continuity factors (Rpower instead of the guarded power). *)
Fixpoint cfR (a mb : list R) : list R :=
  match a, mb with
  | a0 :: ((a1 :: _) as a'), _ :: ((m1 :: _) as mb') => Rpower m1 (a1 - a0) :: cfR a' mb'
  | _, _ => []
  end.

Lemma cfR_cons a0 a1 a' m0 m1 mb' :
  cfR (a0 :: a1 :: a') (m0 :: m1 :: mb') = Rpower m1 (a1 - a0) :: cfR (a1 :: a') (m1 :: mb').
Proof. reflexivity. Qed.

Lemma cfR_pos a : forall mb, Forall (fun x => 0 < x) (cfR a mb).
Proof.
  induction a as [|a0 a' IH]; intros mb; [constructor|].
  destruct mb as [|m0 [|m1 mb'']]; destruct a' as [|a1 a'']; try (simpl; constructor; fail).
  rewrite cfR_cons. constructor; [apply Rpower_pos|apply IH].
Qed.

Lemma cfR_length a : forall mb, a <> [] -> length mb = S (length a) ->
  S (length (cfR a mb)) = length a.
Proof.
  induction a as [|a0 a' IH]; intros mb Hne Hlen; [contradiction|].
  destruct a' as [|a1 a''].
  - destruct mb as [|m0 [|m1 mb'']]; reflexivity.
  - destruct mb as [|m0 [|m1 mb'']]; try (simpl in Hlen; lia).
    rewrite cfR_cons. cbn [length]. f_equal. apply IH; [discriminate|].
    simpl in Hlen. simpl. lia.
Qed.

Lemma cfR_nth a : forall mb i, length mb = S (length a) -> (S i < length a)%nat ->
  nth i (cfR a mb) 0 = Rpower (nth (S i) mb 0) (nth (S i) a 0 - nth i a 0).
Proof.
  induction a as [|a0 a' IH]; intros mb i Hlen Hi; [simpl in Hi; lia|].
  destruct a' as [|a1 a'']; [simpl in Hi; lia|].
  destruct mb as [|m0 [|m1 mb'']]; try (simpl in Hlen; lia).
  rewrite cfR_cons. destruct i as [|i'].
  - reflexivity.
  - change (nth (S i') (Rpower m1 (a1 - a0) :: cfR (a1 :: a'') (m1 :: mb'')) 0)
      with (nth i' (cfR (a1 :: a'') (m1 :: mb'')) 0).
    rewrite IH; [reflexivity| |].
    + simpl in Hlen. simpl. lia.
    + simpl in Hi. simpl. lia.
Qed.

(* sum_i r_i * prod_{j >= i} F_j *)
Fixpoint Ssum (rs F : list R) : R :=
  match rs with
  | [] => 0
  | r :: rs' => r * prodR F + Ssum rs' (tl F)
  end.

Lemma Ssum_nonneg rs : forall F, Forall (fun x => 0 < x) rs -> Forall (fun x => 0 < x) F ->
  0 <= Ssum rs F.
Proof.
  induction rs as [|r rs' IH]; intros F Hr HF; simpl; [lra|].
  inversion Hr as [|? ? Hr0 Hr']; subst.
  assert (HF' : Forall (fun x => 0 < x) (tl F)).
  { destruct HF; simpl; [constructor|assumption]. }
  pose proof (IH (tl F) Hr' HF'). pose proof (prodR_pos F HF).
  assert (0 < r * prodR F) by (apply Rmult_lt_0_compat; assumption). lra.
Qed.

Lemma Ssum_pos rs F : rs <> [] -> Forall (fun x => 0 < x) rs -> Forall (fun x => 0 < x) F ->
  0 < Ssum rs F.
Proof.
  intros Hne Hr HF. destruct rs as [|r rs']; [contradiction|]. simpl.
  inversion Hr as [|? ? Hr0 Hr']; subst.
  assert (HF' : Forall (fun x => 0 < x) (tl F)).
  { destruct HF; simpl; [constructor|assumption]. }
  pose proof (Ssum_nonneg rs' (tl F) Hr' HF'). pose proof (prodR_pos F HF).
  assert (0 < r * prodR F) by (apply Rmult_lt_0_compat; assumption). lra.
Qed.

Lemma all_some {A} (P : list (option A)) : Forall (fun p => p <> None) P ->
  exists rs, P = map Some rs.
Proof.
  induction 1 as [|p P Hp _ IH].
  - exists []. reflexivity.
  - destruct IH as [rs ->]. destruct p as [r|]; [|contradiction].
    exists (r :: rs). reflexivity.
Qed.

(* ------------------------------------------------------------------ *)
Section IMFR.
  Variable J : Junk.
  Local Instance ORI : NumOps R := R_ops J.

  Ltac cmp :=
    repeat match goal with
    | H : context [Rleb ?a ?b] |- _ => destruct (Rleb_spec a b)
    | H : context [Rltb ?a ?b] |- _ => destruct (Rltb_spec a b)
    | |- context [Rleb ?a ?b] => destruct (Rleb_spec a b)
    | |- context [Rltb ?a ?b] => destruct (Rltb_spec a b)
    end.

  (* ---------------- component selection ---------------- *)
  Lemma first_true_some f : forall n i k, (i <= k)%nat -> (k < i + n)%nat ->
    (forall j, (i <= j)%nat -> (j < k)%nat -> f j = false) -> f k = true ->
    first_true f i n = Some k.
  Proof.
    induction n as [|n IH]; intros i k Hik Hkn Hlt Hk; [lia|].
    simpl. destruct (Nat.eq_dec i k) as [->|Hne].
    - rewrite Hk. reflexivity.
    - rewrite (Hlt i) by lia. apply IH; try lia; [|exact Hk].
      intros j Hj1 Hj2. apply Hlt; lia.
  Qed.

  Lemma first_true_none f : forall n i,
    (forall j, (i <= j)%nat -> (j < i + n)%nat -> f j = false) -> first_true f i n = None.
  Proof.
    induction n as [|n IH]; intros i H; [reflexivity|].
    simpl. rewrite (H i) by lia. apply IH. intros j Hj1 Hj2. apply H; lia.
  Qed.

  Lemma in_comp_unfold ext mb nc i lo up :
    in_comp ext mb nc i lo up =
      match ext with
      | Extrapolate =>
          if (nc =? 1)%nat then true
          else if (i =? 0)%nat then Rleb up (nth (S i) mb 0)
          else if (S i =? nc)%nat then Rleb (nth i mb 0) up
          else Rleb (nth i mb 0) lo && Rleb up (nth (S i) mb 0)
      | _ => Rleb (nth i mb 0) lo && Rleb up (nth (S i) mb 0)
      end.
  Proof. reflexivity. Qed.

  Lemma in_comp_notextra ext mb nc i lo up : ext <> Extrapolate ->
    in_comp ext mb nc i lo up = Rleb (nth i mb 0) lo && Rleb up (nth (S i) mb 0).
  Proof. intros H. rewrite in_comp_unfold. destruct ext; [contradiction|reflexivity|reflexivity]. Qed.

  Lemma select_inside ext mb nc lo up i : ext <> Extrapolate ->
    StronglySorted Rlt mb -> length mb = S nc -> (i < nc)%nat ->
    nth i mb 0 <= lo -> nth i mb 0 < up -> up <= nth (S i) mb 0 ->
    select_comp ext mb nc lo up = Some i.
  Proof.
    intros Hext Hs Hlen Hi H1 H2 H3. unfold select_comp.
    apply first_true_some; try lia.
    - intros j _ Hj. rewrite in_comp_notextra by exact Hext.
      assert (Hle : nth (S j) mb 0 <= nth i mb 0) by (apply sorted_nth_le; [exact Hs|lia|lia]).
      apply andb_false_iff. right. apply Rleb_false. lra.
    - rewrite in_comp_notextra by exact Hext.
      apply andb_true_iff. split; apply Rleb_true; lra.
  Qed.

  Lemma select_outside ext mb nc lo up : ext <> Extrapolate ->
    (forall j, (j < nc)%nat -> lo < nth j mb 0 \/ nth (S j) mb 0 < up) ->
    select_comp ext mb nc lo up = None.
  Proof.
    intros Hext H. unfold select_comp. apply first_true_none.
    intros j _ Hj. rewrite in_comp_notextra by exact Hext.
    apply andb_false_iff. destruct (H j ltac:(lia)) as [Hc|Hc]; [left|right]; apply Rleb_false; exact Hc.
  Qed.

  Lemma select_outside_m ext mb nc m : ext <> Extrapolate ->
    StronglySorted Rlt mb -> length mb = S nc ->
    m < nth 0 mb 0 \/ last mb 0 < m ->
    select_comp ext mb nc m m = None.
  Proof.
    intros Hext Hs Hlen Hm. apply select_outside; [exact Hext|].
    intros j Hj. rewrite (last_nth_len mb nc Hlen) in Hm. destruct Hm as [Hm|Hm].
    - left. assert (nth 0 mb 0 <= nth j mb 0) by (apply sorted_nth_le; [exact Hs|lia|lia]). lra.
    - right. assert (nth (S j) mb 0 <= nth nc mb 0) by (apply sorted_nth_le; [exact Hs|lia|lia]). lra.
  Qed.

  (* ---------------- evaluation ---------------- *)
  Lemma imf_eval_unfold ext a mb A N m :
    imf_eval ext a mb A N m =
      match select_comp ext mb (length a) m m with
      | Some i => Ok (N * (nth i A 0 * Rpow_j J m (nth i a 0)))
      | None => match ext with Raise => Err ValueError | _ => Ok (N * 0) end
      end.
  Proof. reflexivity. Qed.

  Lemma imf_eval_inside_s ext a mb A N m i : valid_imf a mb -> ext <> Extrapolate ->
    (i < length a)%nat -> nth i mb 0 < m < nth (S i) mb 0 ->
    imf_eval ext a mb A N m = Ok (N * (nth i A 0 * Rpower m (nth i a 0))).
  Proof.
    intros (Hlen & Hne & Hs & Hpos) Hext Hi [Hm1 Hm2].
    rewrite imf_eval_unfold.
    rewrite (select_inside ext mb (length a) m m i) by (try assumption; lra).
    assert (0 < nth i mb 0) by (apply pos_nth; [exact Hpos|lia]).
    rewrite Rpow_j_ok by lra. reflexivity.
  Qed.

  Lemma imf_eval_outside_zeros_s a mb A N m : valid_imf a mb ->
    m < nth 0 mb 0 \/ last mb 0 < m ->
    imf_eval Zeros a mb A N m = Ok (N * 0).
  Proof.
    intros (Hlen & Hne & Hs & Hpos) Hm. rewrite imf_eval_unfold.
    rewrite select_outside_m; [reflexivity|discriminate|exact Hs|exact Hlen|exact Hm].
  Qed.

  Lemma imf_eval_outside_raise_s a mb A N m : valid_imf a mb ->
    m < nth 0 mb 0 \/ last mb 0 < m ->
    imf_eval Raise a mb A N m = Err ValueError.
  Proof.
    intros (Hlen & Hne & Hs & Hpos) Hm. rewrite imf_eval_unfold.
    rewrite select_outside_m; [reflexivity|discriminate|exact Hs|exact Hlen|exact Hm].
  Qed.

  Lemma imf_eval_outside_extrapolate_s a mb A N m : valid_imf a mb -> 0 < m ->
    (m < nth 0 mb 0 ->
       imf_eval Extrapolate a mb A N m = Ok (N * (nth 0 A 0 * Rpower m (nth 0 a 0)))) /\
    (last mb 0 < m ->
       imf_eval Extrapolate a mb A N m =
         Ok (N * (nth (length a - 1) A 0 * Rpower m (nth (length a - 1) a 0)))).
  Proof.
    intros (Hlen & Hne & Hs & Hpos) Hm.
    assert (Hnc : (0 < length a)%nat) by (destruct a; [contradiction|simpl; lia]).
    split; intros Hout; rewrite imf_eval_unfold.
    - assert (Hsel : select_comp Extrapolate mb (length a) m m = Some 0%nat).
      { unfold select_comp. apply first_true_some; try lia.
        rewrite in_comp_unfold. destruct (length a =? 1)%nat eqn:E1; [reflexivity|].
        apply Nat.eqb_neq in E1. cbn [Nat.eqb].
        apply Rleb_true.
        assert (nth 0 mb 0 < nth 1 mb 0) by (apply sorted_nth_lt; [exact Hs|lia|lia]). lra. }
      rewrite Hsel. rewrite Rpow_j_ok by exact Hm. reflexivity.
    - rewrite (last_nth_len mb (length a) Hlen) in Hout.
      assert (Hsel : select_comp Extrapolate mb (length a) m m = Some (length a - 1)%nat).
      { unfold select_comp. destruct (length a =? 1)%nat eqn:E1.
        - apply Nat.eqb_eq in E1. rewrite E1. cbn [Nat.sub].
          apply first_true_some; try lia.
          rewrite in_comp_unfold. reflexivity.
        - apply Nat.eqb_neq in E1. apply first_true_some; try lia.
          + intros j _ Hj. rewrite in_comp_unfold.
            replace (length a =? 1)%nat with false by (symmetry; apply Nat.eqb_neq; exact E1).
            assert (Hle : nth (S j) mb 0 <= nth (length a) mb 0)
              by (apply sorted_nth_le; [exact Hs|lia|lia]).
            destruct (j =? 0)%nat; [apply Rleb_false; lra|].
            replace (S j =? length a)%nat with false by (symmetry; apply Nat.eqb_neq; lia).
            apply andb_false_iff. right. apply Rleb_false. lra.
          + rewrite in_comp_unfold.
            replace (length a =? 1)%nat with false by (symmetry; apply Nat.eqb_neq; exact E1).
            replace (length a - 1 =? 0)%nat with false by (symmetry; apply Nat.eqb_neq; lia).
            replace (S (length a - 1) =? length a)%nat with true by (symmetry; apply Nat.eqb_eq; lia).
            assert (Hle : nth (length a - 1) mb 0 <= nth (length a) mb 0)
              by (apply sorted_nth_le; [exact Hs|lia|lia]).
            apply Rleb_true. lra. }
      rewrite Hsel. rewrite Rpow_j_ok by exact Hm. reflexivity.
  Qed.

  (* ---------------- binned evaluation ---------------- *)
  Lemma binned_eval1_unfold res ext a mb A N lo up :
    binned_eval1 res ext a mb A N lo up =
      match select_comp ext mb (length a) lo up with
      | Some i =>
          Ok (omul (Some (N * nth i A 0)) (Pk res (nth i a 0) 1 lo up),
              omul (Some (N * nth i A 0)) (Pk res (nth i a 0) (1 + 1) lo up), nth i a 0)
      | None =>
          match ext with
          | Raise => Err ValueError
          | _ => Ok (omul (Some (N * 0)) (Pk res 0 1 lo up),
                     omul (Some (N * 0)) (Pk res 0 (1 + 1) lo up), 0)
          end
      end.
  Proof. reflexivity. Qed.

  Lemma binned_inside_s res ext a mb A N lo up i : valid_imf a mb -> ext <> Extrapolate ->
    (i < length a)%nat -> nth i mb 0 <= lo -> lo < up -> up <= nth (S i) mb 0 ->
    binned_eval1 res ext a mb A N lo up =
      Ok (omul (Some (N * nth i A 0)) (Pk res (nth i a 0) 1 lo up),
          omul (Some (N * nth i A 0)) (Pk res (nth i a 0) (1 + 1) lo up),
          nth i a 0).
  Proof.
    intros (Hlen & Hne & Hs & Hpos) Hext Hi H1 H2 H3.
    rewrite binned_eval1_unfold.
    rewrite (select_inside ext mb (length a) lo up i) by (try assumption; lra).
    reflexivity.
  Qed.

  (* ---------------- sums with NaN propagation ---------------- *)
  Definition og (acc x : option R) : option R :=
    match acc, x with Some s, Some v => Some (s + v) | _, _ => None end.

  Lemma osum_unfold l : osum l = fold_left og l (Some 0).
  Proof. reflexivity. Qed.

  Lemma og_none l : fold_left og l None = None.
  Proof. induction l as [|x l IH]; simpl; [reflexivity|exact IH]. Qed.

  Lemma nprod_prodR l : nprod l = prodR l.
  Proof.
    change (nprod l) with (fold_left Rmult l 1). rewrite fold_left_mul. ring.
  Qed.

  Lemma norm_terms_cons p P F :
    norm_terms (p :: P) F = omul p (Some (nprod F)) :: norm_terms P (tl F).
  Proof. reflexivity. Qed.

  Lemma norm_osum_val rs : forall F acc,
    fold_left og (norm_terms (map Some rs) F) (Some acc) = Some (acc + Ssum rs F).
  Proof.
    induction rs as [|r rs' IH]; intros F acc.
    - simpl. f_equal. ring.
    - cbn [map]. rewrite norm_terms_cons. cbn [fold_left].
      change (og (Some acc) (omul (Some r) (Some (nprod F)))) with (Some (acc + r * nprod F)).
      rewrite IH, nprod_prodR. f_equal. simpl. ring.
  Qed.

  Lemma norm_osum_some P : forall F acc s,
    fold_left og (norm_terms P F) (Some acc) = Some s -> exists rs, P = map Some rs.
  Proof.
    induction P as [|p P' IH]; intros F acc s H.
    - exists []. reflexivity.
    - rewrite norm_terms_cons in H. cbn [fold_left] in H.
      destruct p as [r|].
      + change (og (Some acc) (omul (Some r) (Some (nprod F)))) with (Some (acc + r * nprod F)) in H.
        destruct (IH _ _ _ H) as [rs ->]. exists (r :: rs). reflexivity.
      + change (og (Some acc) (omul None (Some (nprod F)))) with (@None R) in H.
        rewrite og_none in H. discriminate.
  Qed.

  (* ---------------- segments ---------------- *)
  Lemma seg_P_cons res k a0 a' m0 m1 mb' :
    seg_P res k (a0 :: a') (m0 :: m1 :: mb') = Pk res a0 k m0 m1 :: seg_P res k a' (m1 :: mb').
  Proof. reflexivity. Qed.
  Lemma seg_raw_cons k a0 a' m0 m1 mb' :
    seg_raw J k (a0 :: a') (m0 :: m1 :: mb') = Pk_raw a0 k m0 m1 :: seg_raw J k a' (m1 :: mb').
  Proof. reflexivity. Qed.

  Lemma seg_P_map res k a : forall mb rs, seg_P res k a mb = map Some rs -> rs = seg_raw J k a mb.
  Proof.
    induction a as [|a0 a' IH]; intros mb rs H.
    - destruct rs; [reflexivity|discriminate].
    - destruct mb as [|m0 [|m1 mb'']];
        try (destruct rs; [reflexivity|discriminate]).
      rewrite seg_P_cons in H. rewrite seg_raw_cons.
      destruct rs as [|r rs']; [discriminate|]. cbn [map] in H.
      injection H as H1 H2. apply Pk_some in H1. destruct H1 as [-> _].
      f_equal. apply IH. exact H2.
  Qed.

  Lemma seg_raw_length k a : forall mb, length mb = S (length a) ->
    length (seg_raw J k a mb) = length a.
  Proof.
    induction a as [|a0 a' IH]; intros mb Hlen; [reflexivity|].
    destruct mb as [|m0 [|m1 mb'']]; try (simpl in Hlen; lia).
    rewrite seg_raw_cons. cbn [length]. f_equal. apply IH. simpl in Hlen. simpl. lia.
  Qed.

  Lemma seg_raw_nth k a : forall mb i, length mb = S (length a) -> (i < length a)%nat ->
    nth i (seg_raw J k a mb) 0 = Pk_raw (nth i a 0) k (nth i mb 0) (nth (S i) mb 0).
  Proof.
    induction a as [|a0 a' IH]; intros mb i Hlen Hi; [simpl in Hi; lia|].
    destruct mb as [|m0 [|m1 mb'']]; try (simpl in Hlen; lia).
    rewrite seg_raw_cons. destruct i as [|i']; [reflexivity|].
    change (nth (S i') (Pk_raw a0 k m0 m1 :: seg_raw J k a' (m1 :: mb'')) 0)
      with (nth i' (seg_raw J k a' (m1 :: mb'')) 0).
    rewrite IH; [reflexivity| |]; simpl in Hlen, Hi; simpl; lia.
  Qed.

  Lemma seg_raw_pos k a : forall mb, StronglySorted Rlt mb -> Forall (fun x => 0 < x) mb ->
    Forall (fun x => 0 < x) (seg_raw J k a mb).
  Proof.
    induction a as [|a0 a' IH]; intros mb Hs Hpos; [constructor|].
    destruct mb as [|m0 [|m1 mb'']]; try constructor.
    - inversion Hs as [|? ? Hs' Hall]; subst. inversion Hall; subst.
      inversion Hpos; subst. apply Pk_raw_pos; assumption.
    - apply IH.
      + inversion Hs; assumption.
      + inversion Hpos; assumption.
  Qed.

  Lemma cont_factors_cfR a : forall mb, Forall (fun x => 0 < x) mb -> cont_factors a mb = cfR a mb.
  Proof.
    induction a as [|a0 a' IH]; intros mb Hpos; [reflexivity|].
    destruct mb as [|m0 [|m1 mb'']]; destruct a' as [|a1 a'']; try reflexivity.
    rewrite cfR_cons.
    change (cont_factors (a0 :: a1 :: a'') (m0 :: m1 :: mb''))
      with (Rpow_j J m1 (a1 - a0) :: cont_factors (a1 :: a'') (m1 :: mb'')).
    inversion Hpos as [|? ? _ Hpos']; subst. inversion Hpos' as [|? ? Hm1 _]; subst.
    rewrite Rpow_j_ok by exact Hm1. f_equal. apply IH. exact Hpos'.
  Qed.

  (* ---------------- A_scan ---------------- *)
  Lemma A_scan_ne F l : A_scan F l <> [].
  Proof.
    induction F as [|f F' IH]; simpl; [discriminate|].
    destruct (A_scan F' l); [contradiction|discriminate].
  Qed.

  Lemma A_scan_cons f F' l : A_scan (f :: F') l = nth 0 (A_scan F' l) 0 * f :: A_scan F' l.
  Proof.
    pose proof (A_scan_ne F' l) as Hne. simpl.
    destruct (A_scan F' l) as [|h t]; [contradiction|reflexivity].
  Qed.

  Lemma A_scan_head F l : nth 0 (A_scan F l) 0 = l * prodR F.
  Proof.
    induction F as [|f F' IH].
    - simpl. ring.
    - rewrite A_scan_cons. cbn [nth]. rewrite IH. simpl. ring.
  Qed.

  Lemma A_scan_length F l : length (A_scan F l) = S (length F).
  Proof.
    induction F as [|f F' IH]; [reflexivity|]. rewrite A_scan_cons. cbn [length]. rewrite IH. reflexivity.
  Qed.

  Lemma A_scan_pos F l : 0 < l -> Forall (fun x => 0 < x) F -> Forall (fun x => 0 < x) (A_scan F l).
  Proof.
    intros Hl HF. induction HF as [|f F' Hf HF' IH].
    - simpl. constructor; [exact Hl|constructor].
    - rewrite A_scan_cons. constructor; [|exact IH].
      rewrite A_scan_head. apply Rmult_lt_0_compat; [|exact Hf].
      apply Rmult_lt_0_compat; [exact Hl|apply prodR_pos; exact HF'].
  Qed.

  Lemma A_scan_step F l : forall i, (i < length F)%nat ->
    nth i (A_scan F l) 0 = nth (S i) (A_scan F l) 0 * nth i F 0.
  Proof.
    induction F as [|f F' IH]; intros i Hi; [simpl in Hi; lia|].
    rewrite A_scan_cons. destruct i as [|i'].
    - reflexivity.
    - change (nth (S i') (nth 0 (A_scan F' l) 0 * f :: A_scan F' l) 0) with (nth i' (A_scan F' l) 0).
      change (nth (S (S i')) (nth 0 (A_scan F' l) 0 * f :: A_scan F' l) 0)
        with (nth (S i') (A_scan F' l) 0).
      change (nth (S i') (f :: F') 0) with (nth i' F' 0).
      apply IH. simpl in Hi. lia.
  Qed.

  Lemma dot_A_scan F l : forall rs, length rs = S (length F) ->
    dot (A_scan F l) rs = l * Ssum rs F.
  Proof.
    induction F as [|f F' IH]; intros rs Hlen.
    - destruct rs as [|r0 [|r1 rs']]; try discriminate. simpl. ring.
    - destruct rs as [|r0 rs']; [discriminate|].
      rewrite A_scan_cons. cbn [dot]. rewrite A_scan_head, IH by (simpl in Hlen; lia).
      simpl. ring.
  Qed.

  (* ---------------- normalisation constants ---------------- *)
  Lemma A_last_unfold res a mb :
    A_last res a mb =
      match fold_left og (norm_terms (seg_P res 1 a mb) (cont_factors a mb)) (Some 0) with
      | Some s => Some (Rpow_j J s (Ropp 1))
      | None => None
      end.
  Proof. reflexivity. Qed.

  Lemma A_comps_unfold res a mb :
    A_comps res a mb =
      match A_last res a mb with
      | Some l => Some (A_scan (cont_factors a mb) l)
      | None => None
      end.
  Proof. reflexivity. Qed.

  Lemma Rpower_m1 s : 0 < s -> Rpower s (Ropp 1) = / s.
  Proof. intros Hs. rewrite Rpower_Ropp, Rpower_1 by exact Hs. reflexivity. Qed.

  Lemma A_comps_defined_s res a mb : valid_imf a mb ->
    Forall (fun p => p <> None) (seg_P res 1 a mb) ->
    exists A, A_comps res a mb = Some A /\ length A = length a /\ Forall (fun x => 0 < x) A.
  Proof.
    intros (Hlen & Hne & Hs & Hpos) Hall.
    destruct (all_some _ Hall) as [rs Hrs].
    pose proof (seg_P_map _ _ _ _ _ Hrs) as Hrs'.
    rewrite A_comps_unfold, A_last_unfold, Hrs, norm_osum_val.
    rewrite cont_factors_cfR by exact Hpos.
    assert (Hsum : 0 < 0 + Ssum rs (cfR a mb)).
    { rewrite Rplus_0_l. apply Ssum_pos.
      - subst rs. intros E. apply (f_equal (@length R)) in E.
        rewrite seg_raw_length in E by exact Hlen. destruct a; [contradiction|discriminate].
      - subst rs. apply seg_raw_pos; assumption.
      - apply cfR_pos. }
    rewrite Rpow_j_ok by exact Hsum.
    eexists. split; [reflexivity|]. split.
    - rewrite A_scan_length. apply cfR_length; assumption.
    - apply A_scan_pos; [apply Rpower_pos|apply cfR_pos].
  Qed.

  Lemma imf_continuous_s res a mb A i : valid_imf a mb ->
    A_comps res a mb = Some A -> (S i < length a)%nat ->
    nth i A 0 * Rpower (nth (S i) mb 0) (nth i a 0) =
    nth (S i) A 0 * Rpower (nth (S i) mb 0) (nth (S i) a 0).
  Proof.
    intros (Hlen & Hne & Hs & Hpos) HA Hi.
    rewrite A_comps_unfold in HA. destruct (A_last res a mb) as [l|]; [|discriminate].
    injection HA as <-. rewrite cont_factors_cfR by exact Hpos.
    pose proof (cfR_length a mb Hne Hlen) as HlF.
    rewrite A_scan_step by lia. rewrite cfR_nth by assumption.
    rewrite Rmult_assoc, <- Rpower_plus. f_equal. f_equal. ring.
  Qed.

  Lemma imf_normalised_s res a mb A : valid_imf a mb ->
    A_comps res a mb = Some A ->
    dot A (seg_raw J 1 a mb) = 1.
  Proof.
    intros (Hlen & Hne & Hs & Hpos) HA.
    rewrite A_comps_unfold, A_last_unfold in HA.
    destruct (fold_left og (norm_terms (seg_P res 1 a mb) (cont_factors a mb)) (Some 0))
      as [s|] eqn:Hsum; [|discriminate].
    injection HA as <-.
    destruct (norm_osum_some _ _ _ _ Hsum) as [rs Hrs].
    pose proof (seg_P_map _ _ _ _ _ Hrs) as Hrs'.
    rewrite Hrs, norm_osum_val in Hsum. injection Hsum as <-.
    rewrite cont_factors_cfR by exact Hpos. subst rs.
    pose proof (cfR_length a mb Hne Hlen) as HlF.
    rewrite dot_A_scan by (rewrite seg_raw_length by exact Hlen; lia).
    assert (Hp : 0 < Ssum (seg_raw J 1 a mb) (cfR a mb)).
    { apply Ssum_pos.
      - intros E. apply (f_equal (@length R)) in E.
        rewrite seg_raw_length in E by exact Hlen. destruct a; [contradiction|discriminate].
      - apply seg_raw_pos; assumption.
      - apply cfR_pos. }
    rewrite Rplus_0_l. rewrite Rpow_j_ok by exact Hp. rewrite Rpower_m1 by exact Hp.
    field. lra.
  Qed.

  Lemma imf_segment_integral_s a mb i N0 Ai : valid_imf a mb -> (i < length a)%nat ->
    is_RInt (fun m => N0 * (Ai * Rpower m (nth i a 0))) (nth i mb 0) (nth (S i) mb 0)
            (N0 * (Ai * nth i (seg_raw J 1 a mb) 0)).
  Proof.
    intros (Hlen & Hne & Hs & Hpos) Hi.
    rewrite seg_raw_nth by assumption.
    apply (is_RInt_ext (fun m => scal N0 (scal Ai (Rpower m (nth i a 0 + 1 - 1))))).
    - intros x _. replace (nth i a 0 + 1 - 1) with (nth i a 0) by ring. reflexivity.
    - change (N0 * (Ai * Pk_raw (nth i a 0) 1 (nth i mb 0) (nth (S i) mb 0)))
        with (scal N0 (scal Ai (Pk_raw (nth i a 0) 1 (nth i mb 0) (nth (S i) mb 0)))).
      apply (is_RInt_scal (V:=R_NormedModule)). apply (is_RInt_scal (V:=R_NormedModule)).
      apply Pk_raw_is_RInt.
      + apply pos_nth; [exact Hpos|lia].
      + left. apply sorted_nth_lt; [exact Hs|lia|lia].
  Qed.

  (* ---------------- total mass ---------------- *)
  Definition mterm (N : R) (pA : option R * R) : option R := omul (Some (N * snd pA)) (fst pA).

  Lemma Mtot_unfold res a mb A N0 :
    Mtot res a mb A N0 = fold_left og (map (mterm N0) (combine (seg_P res (1 + 1) a mb) A)) (Some 0).
  Proof. reflexivity. Qed.

  Lemma mterm_lin N (l : list (option R * R)) : forall acc s1,
    fold_left og (map (mterm 1) l) (Some acc) = Some s1 ->
    fold_left og (map (mterm N) l) (Some (N * acc)) = Some (N * s1).
  Proof.
    induction l as [|[p Ai] l IH]; intros acc s1 H.
    - simpl in H. injection H as <-. reflexivity.
    - cbn [map fold_left] in H |- *. destruct p as [v|].
      + change (og (Some acc) (mterm 1 (Some v, Ai))) with (Some (acc + 1 * Ai * v)) in H.
        change (og (Some (N * acc)) (mterm N (Some v, Ai))) with (Some (N * acc + N * Ai * v)).
        replace (N * acc + N * Ai * v) with (N * (acc + 1 * Ai * v)) by ring.
        apply IH. exact H.
      + change (og (Some acc) (mterm 1 (None, Ai))) with (@None R) in H.
        rewrite og_none in H. discriminate.
  Qed.

  Lemma from_M0_N0_unfold res a mb A M0 :
    from_M0_N0 res a mb A M0 =
      match Mtot res a mb A 1 with
      | Some mt => Some (Rdiv_j J M0 (Rdiv_j J mt 1))
      | None => None
      end.
  Proof. reflexivity. Qed.

  Lemma from_M0_total_s res a mb A M0 mt1 N0 :
    Mtot res a mb A 1 = Some mt1 -> mt1 <> 0 ->
    from_M0_N0 res a mb A M0 = Some N0 ->
    N0 = M0 / mt1 /\ Mtot res a mb A N0 = Some M0.
  Proof.
    intros Hmt Hne HN. rewrite from_M0_N0_unfold, Hmt in HN. injection HN as HN.
    rewrite (Rdiv_j_ok J mt1 1) in HN by lra.
    assert (Hd : mt1 / 1 <> 0) by (unfold Rdiv; rewrite Rinv_1, Rmult_1_r; exact Hne).
    rewrite Rdiv_j_ok in HN by exact Hd.
    assert (HN0 : N0 = M0 / mt1) by (rewrite <- HN; field; exact Hne).
    split; [exact HN0|].
    rewrite Mtot_unfold in Hmt |- *.
    replace (Some 0) with (Some (N0 * 0)) by (f_equal; ring).
    rewrite (mterm_lin N0 _ 0 mt1 Hmt). f_equal. rewrite HN0. field. exact Hne.
  Qed.

  (* ---------------- the straddling bin ---------------- *)
  Lemma Pk_some_ge res a k m1 m2 : res <= Pk_raw a k m1 m2 ->
    Pk res a k m1 m2 = Some (Pk_raw a k m1 m2).
  Proof.
    intros H. destruct (Pk res a k m1 m2) as [r|] eqn:E.
    - apply Pk_some in E. destruct E as [-> _]. reflexivity.
    - apply Pk_none_iff in E. exfalso. exact (Rlt_irrefl _ (Rlt_le_trans _ _ _ E H)).
  Qed.

  Lemma Pk_raw_alpha0 k m1 m2 : 0 < m1 -> 0 < m2 -> k <> 0 ->
    Pk_raw 0 k m1 m2 = (Rpower m2 k - Rpower m1 k) / k.
  Proof.
    intros H1 H2 Hk.
    change (Pk_raw 0 k m1 m2) with
      (if Reqb (- 0) k then Rln_j J (Rdiv_j J m2 m1)
       else Rdiv_j J (Rpow_j J m2 (0 + k) - Rpow_j J m1 (0 + k)) (0 + k)).
    destruct (Reqb_spec (- 0) k) as [He|He]; [exfalso; lra|].
    rewrite !Rpow_j_ok by assumption. rewrite Rdiv_j_ok by lra.
    rewrite Rplus_0_l. reflexivity.
  Qed.

  Lemma Rpower_2 x : 0 < x -> Rpower x (1 + 1) = x * x.
  Proof. intros Hx. rewrite Rpower_plus, Rpower_1 by exact Hx. reflexivity. Qed.

  Lemma binned_straddle_s res A N : 0 < res <= 1 / 2 ->
    binned_eval1 res Zeros [0; 0] [1; 2; 3] A N (3 / 2) (5 / 2) =
      Ok (Some (N * 0 * (5 / 2 - 3 / 2)),
          Some (N * 0 * ((5 / 2 * (5 / 2) - 3 / 2 * (3 / 2)) / 2)), 0).
  Proof.
    intros [Hr0 Hr].
    rewrite binned_eval1_unfold.
    assert (Hsel : select_comp Zeros [1; 2; 3] (length [0; 0]) (3 / 2) (5 / 2) = None).
    { apply select_outside; [discriminate|].
      intros j Hj. cbn [length] in Hj.
      destruct j as [|[|j]]; [right|left|lia]; cbn [nth]; lra. }
    rewrite Hsel.
    assert (E1 : Pk_raw 0 1 (3 / 2) (5 / 2) = 5 / 2 - 3 / 2).
    { rewrite Pk_raw_alpha0 by lra. rewrite !Rpower_1 by lra. field. }
    assert (E2 : Pk_raw 0 (1 + 1) (3 / 2) (5 / 2) = (5 / 2 * (5 / 2) - 3 / 2 * (3 / 2)) / 2).
    { rewrite Pk_raw_alpha0 by lra. rewrite !Rpower_2 by lra. field. }
    rewrite (Pk_some_ge res 0 1) by (rewrite E1; lra).
    rewrite (Pk_some_ge res 0 (1 + 1)) by (rewrite E2; lra).
    rewrite E1, E2. reflexivity.
  Qed.
End IMFR.

(* ------------------------------------------------------------------ *)
(* Exported statements, exactly as used by Properties/C11.v. *)

Lemma A_comps_defined : forall J res a mb, valid_imf a mb ->
  Forall (fun p => p <> None) (seg_P (O:=R_ops J) res 1 a mb) ->
  exists A, A_comps (O:=R_ops J) res a mb = Some A /\ length A = length a /\ Forall (fun x => 0 < x) A.
Proof. exact A_comps_defined_s. Qed.

Lemma imf_continuous : forall J res a mb A i, valid_imf a mb ->
  A_comps (O:=R_ops J) res a mb = Some A -> (S i < length a)%nat ->
  nth i A 0 * Rpower (nth (S i) mb 0) (nth i a 0) =
  nth (S i) A 0 * Rpower (nth (S i) mb 0) (nth (S i) a 0).
Proof. exact imf_continuous_s. Qed.

Lemma imf_normalised : forall J res a mb A, valid_imf a mb ->
  A_comps (O:=R_ops J) res a mb = Some A ->
  dot A (seg_raw J 1 a mb) = 1.
Proof. exact imf_normalised_s. Qed.

Lemma imf_segment_integral : forall J a mb i N0 Ai, valid_imf a mb -> (i < length a)%nat ->
  is_RInt (fun m => N0 * (Ai * Rpower m (nth i a 0))) (nth i mb 0) (nth (S i) mb 0)
          (N0 * (Ai * nth i (seg_raw J 1 a mb) 0)).
Proof. exact imf_segment_integral_s. Qed.

Lemma imf_eval_inside : forall J ext a mb A N m i, valid_imf a mb -> ext <> Extrapolate ->
  (i < length a)%nat -> nth i mb 0 < m < nth (S i) mb 0 ->
  imf_eval (O:=R_ops J) ext a mb A N m = Ok (N * (nth i A 0 * Rpower m (nth i a 0))).
Proof. exact imf_eval_inside_s. Qed.

Lemma imf_eval_outside_zeros : forall J a mb A N m, valid_imf a mb ->
  m < nth 0 mb 0 \/ last mb 0 < m ->
  imf_eval (O:=R_ops J) Zeros a mb A N m = Ok (N * 0).
Proof. exact imf_eval_outside_zeros_s. Qed.

Lemma imf_eval_outside_raise : forall J a mb A N m, valid_imf a mb ->
  m < nth 0 mb 0 \/ last mb 0 < m ->
  imf_eval (O:=R_ops J) Raise a mb A N m = Err ValueError.
Proof. exact imf_eval_outside_raise_s. Qed.

Lemma imf_eval_outside_extrapolate : forall J a mb A N m, valid_imf a mb -> 0 < m ->
  (m < nth 0 mb 0 ->
     imf_eval (O:=R_ops J) Extrapolate a mb A N m = Ok (N * (nth 0 A 0 * Rpower m (nth 0 a 0)))) /\
  (last mb 0 < m ->
     imf_eval (O:=R_ops J) Extrapolate a mb A N m =
       Ok (N * (nth (length a - 1) A 0 * Rpower m (nth (length a - 1) a 0)))).
Proof. exact imf_eval_outside_extrapolate_s. Qed.

Lemma binned_inside : forall J res ext a mb A N lo up i, valid_imf a mb -> ext <> Extrapolate ->
  (i < length a)%nat -> nth i mb 0 <= lo -> lo < up -> up <= nth (S i) mb 0 ->
  binned_eval1 (O:=R_ops J) res ext a mb A N lo up =
    Ok (omul (O:=R_ops J) (Some (N * nth i A 0)) (Pk (O:=R_ops J) res (nth i a 0) 1 lo up),
        omul (O:=R_ops J) (Some (N * nth i A 0)) (Pk (O:=R_ops J) res (nth i a 0) (1 + 1) lo up),
        nth i a 0).
Proof. exact binned_inside_s. Qed.

Lemma from_M0_total : forall J res a mb A M0 mt1 N0,
  Mtot (O:=R_ops J) res a mb A 1 = Some mt1 -> mt1 <> 0 ->
  from_M0_N0 (O:=R_ops J) res a mb A M0 = Some N0 ->
  N0 = M0 / mt1 /\ Mtot (O:=R_ops J) res a mb A N0 = Some M0.
Proof. exact from_M0_total_s. Qed.

Lemma binned_straddle_refuted : exists a mb lo up,
  valid_imf a mb /\ nth 0 mb 0 <= lo /\ lo < up /\ up <= last mb 0 /\
  forall J res A N, 0 < res <= 1 / 2 ->
    binned_eval1 (O:=R_ops J) res Zeros a mb A N lo up =
      Ok (Some (N * 0 * (up - lo)), Some (N * 0 * ((up * up - lo * lo) / 2)), 0).
Proof.
  exists [0; 0], [1; 2; 3], (3 / 2), (5 / 2).
  split.
  { split; [reflexivity|]. split; [discriminate|]. split.
    - repeat (constructor; try lra).
    - repeat (constructor; try lra). }
  split; [simpl; lra|]. split; [lra|]. split; [simpl; lra|].
  intros J res A N Hres. exact (binned_straddle_s J res A N Hres).
Qed.
