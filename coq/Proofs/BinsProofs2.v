(* Proofs/BinsProofs2.v -- proofs of the C13b statements (Properties/C13b.v):
   remnant bins given directly (nbins is a dict) and single-segment edges.
   No axioms beyond the standard library's reals. *)
From Coq Require Import List Reals Sorted Arith Lia Lra Bool ZArith.
From SSP Require Import Num RFacts Model.Bins Model.BinsSpec Proofs.BinsProofs.
Import ListNotations.
Local Open Scope R_scope.

(* ------------------------------------------------------------------ *)
(* one segment *)

Lemma seg_edges_spec : forall J sp a b n, (1 <= n)%nat -> 0 < a -> a < b ->
  let s := seg_edges (O:=R_ops J) sp a b n in
  length s = S n /\ StronglySorted Rlt s /\ hd 0 s = a /\ last s 0 = b.
Proof.
  intros J sp a b n Hn Ha Hab. cbv zeta.
  destruct (seg_edges_facts J sp a b n Ha Hab Hn) as [t [Hseg [Htl [Hts [_ Htlast]]]]].
  rewrite Hseg.
  split; [simpl; rewrite Htl; reflexivity|].
  split; [exact Hts|].
  split; [reflexivity|].
  rewrite last_cons_default. exact Htlast.
Qed.

(* bins of one segment *)
Lemma seg_bins_spec J sp a b n : (1 <= n)%nat -> 0 < a -> a < b ->
  let bs := bins_of_edges (seg_edges (O:=R_ops J) sp a b n) in
  length bs = n /\ tiling bs /\ fst (hd (0, 0) bs) = a /\ snd (last bs (0, 0)) = b.
Proof.
  intros Hn Ha Hab. cbv zeta.
  destruct (seg_edges_spec J sp a b n Hn Ha Hab) as [HL [HS [Hh Hl]]].
  set (s := seg_edges (O:=R_ops J) sp a b n) in *.
  assert (Hlen : (2 <= length s)%nat) by (rewrite HL; lia).
  destruct (bins_of_edges_tile s HS Hlen) as [B1 [B2 [B3 B4]]].
  split; [rewrite B1, HL; lia|].
  split; [exact B2|].
  split; [rewrite B3; exact Hh|].
  rewrite B4. exact Hl.
Qed.

(* ------------------------------------------------------------------ *)
(* dict-form remnant bins *)

Lemma dict_WD_unf J sp m_first wd_lo wd_up n :
  dict_WD (O:=R_ops J) sp m_first wd_lo wd_up n =
  if Rleb wd_up (if Rltb wd_lo m_first then m_first else wd_lo) then Err ValueError
  else Ok (bins_of_edges (seg_edges (O:=R_ops J) sp
             (if Rltb wd_lo m_first then m_first else wd_lo) wd_up n)).
Proof. reflexivity. Qed.

Lemma dict_BH_unf J sp m_last bh_lo bh_up n :
  dict_BH (O:=R_ops J) sp m_last bh_lo bh_up n =
  if Rleb (if Rltb m_last bh_up then m_last else bh_up) bh_lo then Err ValueError
  else Ok (bins_of_edges (seg_edges (O:=R_ops J) sp bh_lo
             (if Rltb m_last bh_up then m_last else bh_up) n)).
Proof. reflexivity. Qed.

Lemma WD_lower_is_Rmax (m_first wd_lo : R) :
  (if Rltb wd_lo m_first then m_first else wd_lo) = Rmax m_first wd_lo.
Proof.
  destruct (Rltb_spec wd_lo m_first) as [Hlt|Hnlt].
  - symmetry. apply Rmax_left. lra.
  - symmetry. apply Rmax_right. lra.
Qed.

Lemma BH_upper_is_Rmin (m_last bh_up : R) :
  (if Rltb m_last bh_up then m_last else bh_up) = Rmin m_last bh_up.
Proof.
  destruct (Rltb_spec m_last bh_up) as [Hlt|Hnlt].
  - symmetry. apply Rmin_left. lra.
  - symmetry. apply Rmin_right. lra.
Qed.

Lemma dict_WD_spec : forall J sp m_first wd_lo wd_up n, (1 <= n)%nat -> 0 < m_first -> 0 < wd_lo ->
  Rmax m_first wd_lo < wd_up ->
  exists b, dict_WD (O:=R_ops J) sp m_first wd_lo wd_up n = Ok b /\
    length b = n /\ tiling b /\
    fst (hd (0, 0) b) = Rmax m_first wd_lo /\ snd (last b (0, 0)) = wd_up.
Proof.
  intros J sp m_first wd_lo wd_up n Hn Hm Hw Hlt.
  rewrite dict_WD_unf, WD_lower_is_Rmax.
  rewrite (proj2 (Rleb_false wd_up (Rmax m_first wd_lo)) Hlt).
  assert (Hpos : 0 < Rmax m_first wd_lo).
  { pose proof (Rmax_l m_first wd_lo) as H. lra. }
  eexists. split; [reflexivity|].
  exact (seg_bins_spec J sp (Rmax m_first wd_lo) wd_up n Hn Hpos Hlt).
Qed.

Lemma dict_WD_refused : forall J sp m_first wd_lo wd_up n,
  wd_up <= Rmax m_first wd_lo ->
  dict_WD (O:=R_ops J) sp m_first wd_lo wd_up n = Err ValueError.
Proof.
  intros J sp m_first wd_lo wd_up n Hle.
  rewrite dict_WD_unf, WD_lower_is_Rmax.
  rewrite (proj2 (Rleb_true wd_up (Rmax m_first wd_lo)) Hle). reflexivity.
Qed.

Lemma dict_BH_spec : forall J sp m_last bh_lo bh_up n, (1 <= n)%nat -> 0 < bh_lo ->
  bh_lo < Rmin m_last bh_up ->
  exists b, dict_BH (O:=R_ops J) sp m_last bh_lo bh_up n = Ok b /\
    length b = n /\ tiling b /\
    fst (hd (0, 0) b) = bh_lo /\ snd (last b (0, 0)) = Rmin m_last bh_up.
Proof.
  intros J sp m_last bh_lo bh_up n Hn Hlo Hlt.
  rewrite dict_BH_unf, BH_upper_is_Rmin.
  rewrite (proj2 (Rleb_false (Rmin m_last bh_up) bh_lo) Hlt).
  eexists. split; [reflexivity|].
  exact (seg_bins_spec J sp bh_lo (Rmin m_last bh_up) n Hn Hlo Hlt).
Qed.

Lemma dict_BH_refused : forall J sp m_last bh_lo bh_up n,
  Rmin m_last bh_up <= bh_lo ->
  dict_BH (O:=R_ops J) sp m_last bh_lo bh_up n = Err ValueError.
Proof.
  intros J sp m_last bh_lo bh_up n Hle.
  rewrite dict_BH_unf, BH_upper_is_Rmin.
  rewrite (proj2 (Rleb_true (Rmin m_last bh_up) bh_lo) Hle). reflexivity.
Qed.

Lemma dict_NS_unf J (ns c001 : R) :
  dict_NS (O:=R_ops J) ns c001 = [(ns + - c001, ns + c001)].
Proof. reflexivity. Qed.

Lemma dict_NS_spec : forall J ns c001, 0 < c001 ->
  exists lo up, dict_NS (O:=R_ops J) ns c001 = [(lo, up)] /\ lo <= ns < up /\ up - lo = 2 * c001.
Proof.
  intros J ns c001 Hc. rewrite dict_NS_unf.
  exists (ns + - c001), (ns + c001).
  split; [reflexivity|]. split; lra.
Qed.
