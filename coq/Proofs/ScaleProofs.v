(* Proofs/ScaleProofs.v -- C18: population size only sets the scale.
   Linearity of the binned IMF evaluation in N, degree-one homogeneity of the
   stellar-evolution field and of the dynamical BH ejection, at the real
   instance.  Every statement is universally quantified over the Junk record. *)
From Coq Require Import List Bool Reals Lra Lia.
From SSP Require Import Num RFacts Model.Pk Model.IMF Model.Lifetime Model.Bins Model.Sev
  Model.SevSpec Model.Eject Model.ScaleSpec
  Proofs.PkProofs Proofs.EjectProofs Proofs.SevProofs.
Import ListNotations.
Local Open Scope R_scope.

(* ------------------------------------------------------------------ *)
(* helpers *)

Lemma Rltb_scale lam x y : 0 < lam -> Rltb (lam * x) (lam * y) = Rltb x y.
Proof.
  intros Hl. destruct (Rltb_spec x y) as [H|H].
  - apply Rltb_true. apply Rmult_lt_compat_l; assumption.
  - apply Rltb_false. apply Rmult_le_compat_l; [lra|]. apply Rnot_lt_le. exact H.
Qed.

Lemma Rltb_scale0 lam y : 0 < lam -> Rltb 0 (lam * y) = Rltb 0 y.
Proof. intros Hl. rewrite <- (Rmult_0_r lam) at 1. apply Rltb_scale. exact Hl. Qed.

Lemma Rleb_scale0 lam y : 0 < lam -> Rleb 0 (lam * y) = Rleb 0 y.
Proof.
  intros Hl. destruct (Rleb_spec 0 y) as [H|H].
  - apply Rleb_true. apply Rmult_le_pos; lra.
  - apply Rleb_false. apply Rnot_le_lt in H.
    assert (0 < lam * - y) by (apply Rmult_lt_0_compat; lra). lra.
Qed.

Lemma nth_map_scale lam : forall (l : list R) i,
  nth i (map (Rmult lam) l) 0 = lam * nth i l 0.
Proof.
  induction l as [|x l IH]; intros i.
  - destruct i; simpl; ring.
  - destruct i as [|i]; simpl; [reflexivity|apply IH].
Qed.

Lemma omul_scale_l J lam x p :
  omul (O:=R_ops J) (Some (lam * x)) p = oscale lam (omul (O:=R_ops J) (Some x) p).
Proof. destruct p as [v|]; simpl; [f_equal; ring|reflexivity]. Qed.

(* ------------------------------------------------------------------ *)
(* binned evaluation is linear in N *)

Lemma binned_linear : forall J res ext a mb A N lo up lam,
  binned_eval1 (O:=R_ops J) res ext a mb A (lam * N) lo up =
  match binned_eval1 (O:=R_ops J) res ext a mb A N lo up with
  | Ok (n, m, al) => Ok (oscale lam n, oscale lam m, al)
  | Err e => Err e
  end.
Proof.
  intros J res ext a mb A N lo up lam. unfold binned_eval1.
  destruct (select_comp (O:=R_ops J) ext mb (length a) lo up) as [i|].
  - cbv zeta.
    change (nmul (lam * N) (nth i A nzero)) with (lam * N * nth i A 0).
    change (nmul N (nth i A nzero)) with (N * nth i A 0).
    rewrite Rmult_assoc. rewrite !omul_scale_l. reflexivity.
  - destruct ext; try reflexivity.
    + change (@nmul R (R_ops J) (lam * N) nzero) with (lam * N * 0).
      change (@nmul R (R_ops J) N nzero) with (N * 0).
      rewrite Rmult_assoc. rewrite !omul_scale_l. reflexivity.
    + change (@nmul R (R_ops J) (lam * N) nzero) with (lam * N * 0).
      change (@nmul R (R_ops J) N nzero) with (N * 0).
      rewrite Rmult_assoc. rewrite !omul_scale_l. reflexivity.
Qed.

(* ------------------------------------------------------------------ *)
(* the stellar-evolution field is homogeneous of degree one *)

Lemma sev_dNdm_scale J c t Ns alpha i lam : 0 < c_res c ->
  Rltb (c_Nmin c) (nth i Ns 0) = Rltb (c_Nmin c) (lam * nth i Ns 0) ->
  sev_dNdm J c t (map (Rmult lam) Ns) alpha i = oscale lam (sev_dNdm J c t Ns alpha i).
Proof.
  intros Hres Hg. unfold sev_dNdm. cbv zeta.
  rewrite nth_map_scale, <- Hg.
  destruct (Rltb (fst (nth i (c_ms c) (0, 0))) (mto (O:=R_ops J) (c_a0 c) (c_a1 c) (c_a2 c) t)
            && Rltb (c_Nmin c) (nth i Ns 0)).
  - destruct (Pk (O:=R_ops J) (c_res c) (nth i alpha 0) 1 (fst (nth i (c_ms c) (0, 0)))
                (mto (O:=R_ops J) (c_a0 c) (c_a1 c) (c_a2 c) t)) as [p|] eqn:HP.
    + destruct (Pk_some J _ _ _ _ _ _ HP) as [_ Hp].
      assert (Hp0 : p <> 0) by lra.
      cbn [omul odiv oscale]. f_equal.
      change (Rdiv_j J (lam * nth i Ns 0) p * Rpow_j J (mto (O:=R_ops J) (c_a0 c) (c_a1 c) (c_a2 c) t) (nth i alpha 0) =
              lam * (Rdiv_j J (nth i Ns 0) p * Rpow_j J (mto (O:=R_ops J) (c_a0 c) (c_a1 c) (c_a2 c) t) (nth i alpha 0))).
      rewrite !Rdiv_j_ok by exact Hp0. field. exact Hp0.
    + reflexivity.
  - cbn [oscale]. f_equal. ring.
Qed.

Lemma sev_dNdt_scale J c t Ns alpha i lam : 0 < c_res c ->
  Rltb (c_Nmin c) (nth i Ns 0) = Rltb (c_Nmin c) (lam * nth i Ns 0) ->
  sev_dNdt J c t (map (Rmult lam) Ns) alpha i = oscale lam (sev_dNdt J c t Ns alpha i).
Proof.
  intros Hres Hg. unfold sev_dNdt. rewrite (sev_dNdm_scale J c t Ns alpha i lam Hres Hg).
  destruct (sev_dNdm J c t Ns alpha i) as [x|]; [|reflexivity].
  cbn [oscale oneg omul]. f_equal.
  change (- (lam * x) * dmdt (O:=R_ops J) (c_a0 c) (c_a1 c) (c_a2 c) t =
          lam * (- x * dmdt (O:=R_ops J) (c_a0 c) (c_a1 c) (c_a2 c) t)).
  ring.
Qed.

Lemma sev_homogeneous : forall J c t Ns alpha m_rem cls lam, 0 < lam -> valid_cfg J c ->
  (forall i, Rltb (c_Nmin c) (nth i Ns 0) = Rltb (c_Nmin c) (lam * nth i Ns 0)) ->
  sev_field (O:=R_ops J) c t (map (Rmult lam) Ns) alpha m_rem cls =
  match sev_field (O:=R_ops J) c t Ns alpha m_rem cls with
  | Ok (Some s) => Ok (Some (scale_sev_out lam s))
  | Ok None => Ok None
  | Err e => Err e
  end.
Proof.
  intros J c t Ns alpha m_rem cls lam Hlam Hv Hg.
  assert (Hres : 0 < c_res c) by (destruct Hv as (_ & _ & _ & _ & _ & _ & _ & _ & Hr); exact Hr).
  rewrite !sev_field_unfold.
  destruct (Rltb (last (c_tms_u c) 0) t); [|reflexivity].
  destruct (first_gt (O:=R_ops J) t (c_tms_u c) 0) as [isev|]; [|reflexivity].
  cbv zeta.
  rewrite (sev_dNdt_scale J c t Ns alpha isev lam Hres (Hg isev)).
  destruct (Rltb 0 m_rem).
  - destruct (determine_index (O:=R_ops J) m_rem (cls_bins c cls) false) as [irem|e];
      [|reflexivity].
    unfold scale_sev_out. cbn [so_isev so_dNdt so_dep].
    destruct (sev_dNdt J c t Ns alpha isev) as [x|]; [|reflexivity].
    cbn [oscale oneg omul].
    do 4 f_equal. f_equal; [do 2 f_equal|f_equal].
    + change (- (lam * x) * cls_frem c cls = lam * (- x * cls_frem c cls)). ring.
    + change (- m_rem * (lam * x) * cls_frem c cls = lam * (- m_rem * x * cls_frem c cls)). ring.
  - reflexivity.
Qed.

(* ------------------------------------------------------------------ *)
(* BH ejection is homogeneous of degree one *)

Lemma scale_bins_cons lam m n r :
  scale_bins lam ((m, n) :: r) = (lam * m, lam * n) :: scale_bins lam r.
Proof. reflexivity. Qed.

Lemma eject_rev_nil' J E :
  eject_rev (O:=R_ops J) [] E = if Rleb 0 E then Err ValueError else Ok [].
Proof. reflexivity. Qed.
Lemma eject_rev_cons' J m n r E :
  eject_rev (O:=R_ops J) ((m, n) :: r) E =
    if Rleb 0 E then
      if Rltb m E then rmap (cons (0, 0)) (eject_rev (O:=R_ops J) r (E - m))
      else if Rltb 0 E then Ok ((m - E, n - Rdiv_j J E (Rdiv_j J m n)) :: r)
           else Ok ((m, n) :: r)
    else Ok ((m, n) :: r).
Proof. reflexivity. Qed.

Lemma eject_rev_homogeneous J lam : 0 < lam -> forall l E, Forall wfbin l ->
  eject_rev (O:=R_ops J) (scale_bins lam l) (lam * E) =
  match eject_rev (O:=R_ops J) l E with Ok l' => Ok (scale_bins lam l') | Err e => Err e end.
Proof.
  intros Hlam. induction l as [|[m n] r IH]; intros E Hwf.
  - change (scale_bins lam []) with (@nil (R * R)).
    rewrite !eject_rev_nil', (Rleb_scale0 lam E Hlam).
    destruct (Rleb 0 E); reflexivity.
  - inversion Hwf as [|? ? Hp Hwr]; subst.
    destruct Hp as (Hm & Hn & Hmn); simpl in Hm, Hn, Hmn.
    rewrite scale_bins_cons, !eject_rev_cons'.
    rewrite (Rleb_scale0 lam E Hlam), (Rltb_scale lam m E Hlam), (Rltb_scale0 lam E Hlam).
    destruct (Rleb_spec 0 E) as [HE0|HE0]; [|reflexivity].
    destruct (Rltb_spec m E) as [HmE|HmE].
    + replace (lam * E - lam * m) with (lam * (E - m)) by ring.
      rewrite (IH (E - m) Hwr).
      destruct (eject_rev (O:=R_ops J) r (E - m)) as [l1|e]; [|reflexivity].
      simpl. rewrite !Rmult_0_r. reflexivity.
    + destruct (Rltb_spec 0 E) as [HE|HE]; [|reflexivity].
      assert (Hm0 : 0 < m) by lra. specialize (Hmn Hm0).
      assert (Hlm : 0 < lam * m) by (apply Rmult_lt_0_compat; lra).
      assert (Hln : 0 < lam * n) by (apply Rmult_lt_0_compat; lra).
      assert (Hq : 0 < m / n) by (apply div_pos; lra).
      assert (Hq' : 0 < lam * m / (lam * n)) by (apply div_pos; lra).
      rewrite (Rdiv_j_ok J m n) by lra.
      rewrite (Rdiv_j_ok J (lam * m) (lam * n)) by lra.
      rewrite (Rdiv_j_ok J E (m / n)) by lra.
      rewrite (Rdiv_j_ok J (lam * E) (lam * m / (lam * n))) by lra.
      rewrite scale_bins_cons. do 3 f_equal.
      * ring.
      * field. repeat split; lra.
Qed.

Lemma scale_bins_rev lam l : scale_bins lam (rev l) = rev (scale_bins lam l).
Proof. unfold scale_bins. apply map_rev. Qed.

Lemma eject_homogeneous : forall J MN E lam, 0 < lam -> Forall wfbin MN ->
  dyn_eject (O:=R_ops J) (scale_bins lam MN) (lam * E) =
  match dyn_eject (O:=R_ops J) MN E with Ok l => Ok (scale_bins lam l) | Err e => Err e end.
Proof.
  intros J MN E lam Hlam Hwf. unfold dyn_eject.
  rewrite <- scale_bins_rev.
  rewrite (eject_rev_homogeneous J lam Hlam (rev MN) E (Forall_rev Hwf)).
  destruct (eject_rev (O:=R_ops J) (rev MN) E) as [l1|e]; [|reflexivity].
  simpl. rewrite scale_bins_rev. reflexivity.
Qed.
