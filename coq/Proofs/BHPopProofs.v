(* Proofs/BHPopProofs.v -- theorems about Model/BHPop.v (the simplified
   derivative `_derivs_BHs`) against Model/Sev.v at the real instance.
   Every statement is universally quantified over the Junk record. *)
From Coq Require Import List Bool Reals Lra.
From SSP Require Import Num Model.Pk Model.Lifetime Model.Bins Model.Sev Model.BHPop.
Import ListNotations.
Local Open Scope R_scope.

(* the shortcut IS the full derivative up to the final age, under full BH
   retention, the same empty-bin threshold, and the last-segment slope for
   the bin that is turning off *)
Lemma bh_field_eq_sev : forall J c c01 alast final_age t Ns alpha m_rem,
  c_Nmin c = c01 -> c_fbh c = 1 -> t <= final_age ->
  (forall i, first_gt (O:=R_ops J) t (c_tms_u c) 0 = Some i -> nth i alpha 0 = alast) ->
  bh_field (O:=R_ops J) c c01 alast final_age t Ns m_rem BH = sev_field (O:=R_ops J) c t Ns alpha m_rem BH.
Proof.
  intros J c c01 alast final_age t Ns alpha m_rem HNmin Hfbh Hle Halpha.
  unfold bh_field, sev_field.
  destruct (nltb (last (c_tms_u c) nzero) t) eqn:Hlast; [|reflexivity].
  destruct (first_gt (O:=R_ops J) t (c_tms_u c) 0) as [isev|] eqn:Hfg; [|reflexivity].
  specialize (Halpha isev eq_refl).
  assert (Hg : nleb (NumOps:=R_ops J) t final_age = true)
    by exact (proj2 (Rleb_true _ _) Hle).
  rewrite Hg. cbn [andb].
  change (nth isev alpha (nzero (NumOps:=R_ops J))) with (nth isev alpha 0).
  rewrite Halpha, HNmin.
  cbn [cls_bins cls_frem]. rewrite Hfbh.
  reflexivity.
Qed.

(* a non-BH remnant before the final age is an error *)
Lemma bh_field_non_bh_raises : forall J c c01 alast final_age t Ns m_rem cls i,
  last (c_tms_u c) 0 < t -> first_gt (O:=R_ops J) t (c_tms_u c) 0 = Some i ->
  t <= final_age -> 0 < m_rem -> cls <> BH ->
  bh_field (O:=R_ops J) c c01 alast final_age t Ns m_rem cls = Err RuntimeError.
Proof.
  intros J c c01 alast final_age t Ns m_rem cls i Hlast Hfg Hle Hm Hcls.
  unfold bh_field.
  assert (H1 : nltb (NumOps:=R_ops J) (last (c_tms_u c) (nzero (NumOps:=R_ops J))) t = true)
    by exact (proj2 (Rltb_true _ _) Hlast).
  assert (H2 : nleb (NumOps:=R_ops J) t final_age = true)
    by exact (proj2 (Rleb_true _ _) Hle).
  assert (H3 : nltb (NumOps:=R_ops J) (nzero (NumOps:=R_ops J)) m_rem = true)
    by exact (proj2 (Rltb_true _ _) Hm).
  rewrite H1, Hfg, H2, H3. cbn [andb].
  destruct cls; [reflexivity|reflexivity|contradiction Hcls; reflexivity].
Qed.

(* after the final age nothing is deposited *)
Lemma bh_field_no_deposit_after : forall J c c01 alast final_age t Ns m_rem cls s,
  final_age < t -> bh_field (O:=R_ops J) c c01 alast final_age t Ns m_rem cls = Ok (Some s) -> so_dep s = None.
Proof.
  intros J c c01 alast final_age t Ns m_rem cls s Hlt Hr.
  unfold bh_field in Hr.
  assert (H2 : nleb (NumOps:=R_ops J) t final_age = false)
    by exact (proj2 (Rleb_false _ _) Hlt).
  rewrite H2 in Hr. cbn [andb] in Hr.
  destruct (nltb (last (c_tms_u c) nzero) t); [|discriminate Hr].
  destruct (first_gt t (c_tms_u c) 0) as [isev|]; [|discriminate Hr].
  injection Hr as <-. reflexivity.
Qed.
