(* Proofs/IFMRProofs.v -- theorems about Model/IFMR.v at the real instance (C09).
   Every statement is universally quantified over the Junk record, so no
   step can rely on the value of x/0. *)
From Coq Require Import ZArith List Bool Reals Lra Lia.
From SSP Require Import Num RFacts Model.Sev Model.IFMR Model.IFMRSpec.
Import ListNotations.
Local Open Scope R_scope.

Ltac cmp :=
  repeat match goal with
  | H : context [Rleb ?a ?b] |- _ => destruct (Rleb_spec a b)
  | H : context [Rltb ?a ?b] |- _ => destruct (Rltb_spec a b)
  | |- context [Rleb ?a ?b] => destruct (Rleb_spec a b)
  | |- context [Rltb ?a ?b] => destruct (Rltb_spec a b)
  end.

(* ------------------------------------------------------------------ *)
(* unfolding lemmas for lin_interp *)

Lemma lin_interp_1 J x0 y0 m : lin_interp (O:=R_ops J) [(x0, y0)] m = y0.
Proof. reflexivity. Qed.
Lemma lin_interp_2 J x0 y0 x1 y1 m :
  lin_interp (O:=R_ops J) [(x0, y0); (x1, y1)] m =
  y0 + Rdiv_j J (y1 - y0) (x1 - x0) * (m - x0).
Proof. reflexivity. Qed.
Lemma lin_interp_3 J x0 y0 x1 y1 r rest m :
  lin_interp (O:=R_ops J) ((x0, y0) :: (x1, y1) :: r :: rest) m =
  if Rleb m x1 then y0 + Rdiv_j J (y1 - y0) (x1 - x0) * (m - x0)
  else lin_interp (O:=R_ops J) ((x1, y1) :: r :: rest) m.
Proof. reflexivity. Qed.

(* ------------------------------------------------------------------ *)
(* real lemma: a segment between two admissible knots is admissible *)

Lemma segment_bounds lo x0 y0 x1 y1 m :
  x0 < x1 -> x0 <= m <= x1 ->
  0 < y0 -> lo <= y0 -> y0 <= x0 ->
  0 < y1 -> lo <= y1 -> y1 <= x1 ->
  let v := y0 + (y1 - y0) / (x1 - x0) * (m - x0) in
  0 < v /\ lo <= v /\ v <= m.
Proof.
  intros Hx Hm H0 Hl0 Hu0 H1 Hl1 Hu1 v.
  set (t := (m - x0) / (x1 - x0)).
  assert (Ht0 : 0 <= t) by (apply div_nonneg; lra).
  assert (Ht1 : t <= 1) by (apply div_le_iff; lra).
  assert (Hmt : m = x0 + t * (x1 - x0)) by (unfold t; field; lra).
  assert (Hv : v = y0 + (y1 - y0) * t) by (unfold v, t; field; lra).
  rewrite Hv. clear Hv v.
  assert (Ht0' : 0 <= 1 - t) by lra.
  split; [|split].
  - destruct (Rle_lt_dec t (1/2)) as [Hh|Hh].
    + assert (0 <= t * y1) by (apply Rmult_le_pos; lra).
      assert (1/2 * y0 <= (1 - t) * y0) by (apply Rmult_le_compat_r; lra).
      lra.
    + assert (0 <= (1 - t) * y0) by (apply Rmult_le_pos; lra).
      assert (1/2 * y1 < t * y1) by (apply Rmult_lt_compat_r; lra).
      lra.
  - assert (0 <= t * (y1 - lo)) by (apply Rmult_le_pos; lra).
    assert (0 <= (1 - t) * (y0 - lo)) by (apply Rmult_le_pos; lra).
    lra.
  - assert (0 <= t * (x1 - y1)) by (apply Rmult_le_pos; lra).
    assert (0 <= (1 - t) * (x0 - y0)) by (apply Rmult_le_pos; lra).
    lra.
Qed.

(* ------------------------------------------------------------------ *)
(* knots_ok bookkeeping *)

Lemma knots_ok_tail lo p k : knots_ok lo (p :: k) -> knots_ok lo k.
Proof.
  intros [Hinc Hall]. split.
  - intros i Hi. apply (Hinc (S i)). simpl. lia.
  - inversion Hall; assumption.
Qed.

Lemma knots_ok_head lo p k : knots_ok lo (p :: k) ->
  0 < snd p /\ lo <= snd p /\ snd p <= fst p.
Proof. intros [_ Hall]. inversion Hall; assumption. Qed.

Lemma knots_ok_head2 lo p q k : knots_ok lo (p :: q :: k) -> fst p < fst q.
Proof. intros [Hinc _]. apply (Hinc O). simpl. lia. Qed.

Lemma knots_ok_mono lo k : knots_ok lo k ->
  forall j i, (i < j)%nat -> (j < length k)%nat ->
  fst (nth i k (0, 0)) < fst (nth j k (0, 0)).
Proof.
  intros [Hinc _]. induction j as [|j IH]; intros i Hij Hj; [lia|].
  assert (Hc : (i = j \/ i < j)%nat) by lia.
  destruct Hc as [->|Hlt].
  - apply Hinc. exact Hj.
  - apply Rlt_trans with (fst (nth j k (0, 0))).
    + apply IH; lia.
    + apply Hinc. exact Hj.
Qed.

(* ------------------------------------------------------------------ *)
(* lin_interp_bounds *)

Lemma lin_interp_bounds : forall J k lo m, knots_ok lo k -> (2 <= length k)%nat ->
  fst (hd (0, 0) k) <= m <= fst (last k (0, 0)) ->
  0 < lin_interp (O:=R_ops J) k m /\ lo <= lin_interp (O:=R_ops J) k m /\ lin_interp (O:=R_ops J) k m <= m.
Proof.
  intros J k lo m. revert m.
  induction k as [|[x0 y0] k IH]; intros m Hok Hlen Hm; [simpl in Hlen; lia|].
  destruct k as [|[x1 y1] k]; [simpl in Hlen; lia|].
  pose proof (knots_ok_head2 _ _ _ _ Hok) as Hx. simpl in Hx.
  pose proof (knots_ok_head _ _ _ Hok) as (H0 & Hl0 & Hu0). simpl in H0, Hl0, Hu0.
  pose proof (knots_ok_tail _ _ _ Hok) as Hok'.
  pose proof (knots_ok_head _ _ _ Hok') as (H1 & Hl1 & Hu1). simpl in H1, Hl1, Hu1.
  destruct k as [|r rest].
  - rewrite lin_interp_2. rewrite Rdiv_j_ok by lra.
    simpl in Hm.
    apply (segment_bounds lo x0 y0 x1 y1 m); assumption.
  - rewrite lin_interp_3.
    change (fst (hd (0, 0) ((x0, y0) :: (x1, y1) :: r :: rest))) with x0 in Hm.
    change (last ((x0, y0) :: (x1, y1) :: r :: rest) (0, 0))
      with (last ((x1, y1) :: r :: rest) (0, 0)) in Hm.
    destruct (Rleb_spec m x1) as [Hle|Hgt].
    + rewrite Rdiv_j_ok by lra.
      apply (segment_bounds lo x0 y0 x1 y1 m); try assumption. lra.
    + apply IH; [exact Hok'|simpl; lia|].
      change (fst (hd (0, 0) ((x1, y1) :: r :: rest))) with x1. lra.
Qed.

(* ------------------------------------------------------------------ *)
(* lin_interp_at_knot *)

Lemma lin_interp_at_knot : forall J k lo i, knots_ok lo k -> (2 <= length k)%nat -> (i < length k)%nat ->
  lin_interp (O:=R_ops J) k (fst (nth i k (0, 0))) = snd (nth i k (0, 0)).
Proof.
  intros J k lo.
  induction k as [|[x0 y0] k IH]; intros i Hok Hlen Hi; [simpl in Hlen; lia|].
  destruct k as [|[x1 y1] k]; [simpl in Hlen; lia|].
  pose proof (knots_ok_head2 _ _ _ _ Hok) as Hx. simpl in Hx.
  pose proof (knots_ok_tail _ _ _ Hok) as Hok'.
  destruct k as [|r rest].
  - rewrite lin_interp_2. rewrite Rdiv_j_ok by lra.
    destruct i as [|[|i]]; simpl; [field; lra|field; lra|simpl in Hi; lia].
  - rewrite lin_interp_3.
    destruct i as [|[|i]].
    + simpl nth. simpl fst. simpl snd.
      destruct (Rleb_spec x0 x1) as [_|Hn]; [|lra].
      rewrite Rdiv_j_ok by lra. field; lra.
    + simpl nth. simpl fst. simpl snd.
      destruct (Rleb_spec x1 x1) as [_|Hn]; [|lra].
      rewrite Rdiv_j_ok by lra. field; lra.
    + change (nth (S (S i)) ((x0, y0) :: (x1, y1) :: r :: rest) (0, 0))
        with (nth (S i) ((x1, y1) :: r :: rest) (0, 0)).
      assert (Hgt : x1 < fst (nth (S i) ((x1, y1) :: r :: rest) (0, 0))).
      { change x1 with (fst (nth O ((x1, y1) :: r :: rest) (0, 0))) at 1.
        apply (knots_ok_mono lo _ Hok'); [lia|simpl in Hi |- *; lia]. }
      destruct (Rleb_spec (fst (nth (S i) ((x1, y1) :: r :: rest) (0, 0))) x1) as [Hle|_]; [lra|].
      apply IH; [exact Hok'|simpl; lia|simpl in Hi |- *; lia].
Qed.

(* ------------------------------------------------------------------ *)
(* table_sound *)

Lemma incrZ_nth rows : incrZ rows = true ->
  forall i, (S i < length rows)%nat ->
  (fst (nth i rows (0, 0)) < fst (nth (S i) rows (0, 0)))%Z.
Proof.
  induction rows as [|a rows IH]; intros Hinc i Hi; [simpl in Hi; lia|].
  destruct rows as [|b rows]; [simpl in Hi; lia|].
  change (incrZ (a :: b :: rows)) with ((fst a <? fst b)%Z && incrZ (b :: rows)) in Hinc.
  apply andb_true_iff in Hinc. destruct Hinc as [Hab Hrest].
  destruct i as [|i].
  - simpl. apply Z.ltb_lt. exact Hab.
  - change (nth (S i) (a :: b :: rows) (0, 0)%Z) with (nth i (b :: rows) (0, 0)%Z).
    change (nth (S (S i)) (a :: b :: rows) (0, 0)%Z) with (nth (S i) (b :: rows) (0, 0)%Z).
    apply IH; [exact Hrest|simpl in Hi |- *; lia].
Qed.

Lemma fold_min_le r : forall a,
  (fold_left (fun m (q : Z * Z) => Z.min m (snd q)) r a <= a)%Z /\
  (forall q, In q r -> (fold_left (fun m (q : Z * Z) => Z.min m (snd q)) r a <= snd q)%Z).
Proof.
  induction r as [|b r IH]; intros a; simpl.
  - split; [lia|intros q []].
  - destruct (IH (Z.min a (snd b))) as [H1 H2]. split.
    + lia.
    + intros q [<-|Hin]; [lia|apply H2; exact Hin].
Qed.

Lemma minfZ_le rows p : In p rows -> (minfZ rows <= snd p)%Z.
Proof.
  destruct rows as [|a r]; [intros []|].
  unfold minfZ. destruct (fold_min_le r (snd a)) as [H1 H2].
  intros [<-|Hin]; [exact H1|apply H2; exact Hin].
Qed.

Lemma knotsR_nth rows i : (i < length rows)%nat ->
  nth i (knotsR rows) (0, 0) =
  (IZR (fst (nth i rows (0, 0)%Z)) / 10, IZR (snd (nth i rows (0, 0)%Z)) / 100000).
Proof.
  intros Hi. unfold knotsR.
  set (g := fun p : Z * Z => (IZR (fst p) / 10, IZR (snd p) / 100000)).
  rewrite (nth_indep _ (0, 0) (g (0, 0)%Z)) by (rewrite map_length; exact Hi).
  rewrite (map_nth g). reflexivity.
Qed.

Lemma table_sound : forall rows, table_okZ rows = true ->
  knots_ok (IZR (minfZ rows) / 100000) (knotsR rows).
Proof.
  intros rows Hok. unfold table_okZ in Hok.
  apply andb_true_iff in Hok. destruct Hok as [Hinc Hall].
  split.
  - intros i Hi. unfold knotsR in Hi. rewrite map_length in Hi.
    rewrite !knotsR_nth by lia. simpl.
    pose proof (incrZ_nth rows Hinc i Hi) as Hlt.
    apply IZR_lt in Hlt. lra.
  - apply Forall_forall. intros q Hq. unfold knotsR in Hq.
    apply in_map_iff in Hq. destruct Hq as (p & <- & Hp). simpl.
    rewrite forallb_forall in Hall. specialize (Hall p Hp).
    apply andb_true_iff in Hall. destruct Hall as [Hpos Hle].
    apply Z.ltb_lt in Hpos. apply Z.leb_le in Hle.
    apply IZR_lt in Hpos. apply IZR_le in Hle. rewrite mult_IZR in Hle.
    pose proof (minfZ_le rows p Hp) as Hmin. apply IZR_le in Hmin.
    lra.
Qed.

(* ------------------------------------------------------------------ *)
(* predict_type / predict *)

Lemma predict_type_unfold J (f : ifmr) m :
  predict_type (O:=R_ops J) f m =
  if Rleb (i_bh_lo f) m then BH
  else if Rltb (i_wd_mi_up f) m && Rleb m (i_bh_lo f) then NS else WD.
Proof. reflexivity. Qed.

Lemma predict_unfold J (f : ifmr) m :
  predict (O:=R_ops J) f m =
  if Rleb (i_bh_lo f) m then lin_interp (O:=R_ops J) (i_bh_knots f) m
  else if Rltb (i_wd_mi_up f) m && Rleb m (i_bh_lo f) then i_ns_mass f
  else horner (O:=R_ops J) (i_wd_coeffs f) m.
Proof. reflexivity. Qed.

(* NOTE: the WD clause needs `m < i_bh_lo f` because the hypothesis is
   non-strict: i_wd_mi_up f = i_bh_lo f = m gives class BH. *)
Lemma classes_contiguous : forall J f m, i_wd_mi_up f <= i_bh_lo f ->
  (predict_type (O:=R_ops J) f m = WD <-> m <= i_wd_mi_up f /\ m < i_bh_lo f) /\
  (predict_type (O:=R_ops J) f m = NS <-> i_wd_mi_up f < m < i_bh_lo f) /\
  (predict_type (O:=R_ops J) f m = BH <-> i_bh_lo f <= m).
Proof.
  intros J f m Hlt. rewrite predict_type_unfold.
  cmp; simpl; repeat split; intros; try discriminate; try reflexivity; try lra.
Qed.

Lemma predict_agrees_with_type : forall J f m,
  predict (O:=R_ops J) f m =
  match predict_type (O:=R_ops J) f m with
  | BH => lin_interp (O:=R_ops J) (i_bh_knots f) m
  | NS => i_ns_mass f
  | WD => horner (O:=R_ops J) (i_wd_coeffs f) m
  end.
Proof.
  intros J f m. rewrite predict_unfold, predict_type_unfold.
  destruct (Rleb (i_bh_lo f) m); [reflexivity|].
  destruct (Rltb (i_wd_mi_up f) m && Rleb m (i_bh_lo f)); reflexivity.
Qed.

(* ------------------------------------------------------------------ *)
(* analytic (linear) prescription *)

Lemma line_unfold J m e slope scale :
  line (O:=R_ops J) m e slope scale = slope * Rpow_j J m e + scale.
Proof. reflexivity. Qed.

Lemma line_1 J m slope scale : 0 < m ->
  line (O:=R_ops J) m 1 slope scale = slope * m + scale.
Proof.
  intros Hm. rewrite line_unfold, Rpow_j_ok by exact Hm.
  rewrite Rpower_1 by exact Hm. reflexivity.
Qed.

Lemma powerlaw_valid_unfold J e slope scale ml mu :
  powerlaw_valid (O:=R_ops J) e slope scale ml mu =
  if negb ((Rltb 0 (line (O:=R_ops J) ml e slope scale)
            && Rleb (line (O:=R_ops J) ml e slope scale) ml)
           && (Rltb 0 (line (O:=R_ops J) mu e slope scale)
               && Rleb (line (O:=R_ops J) mu e slope scale) mu))
  then Err ValueError
  else if Rltb ml 0 then Err ValueError
  else if Rltb mu ml then Err ValueError
  else Ok tt.
Proof. reflexivity. Qed.

Lemma linear_in_bounds : forall J slope scale m_lower m_upper m, 0 < m_lower ->
  powerlaw_valid (O:=R_ops J) 1 slope scale m_lower m_upper = Ok tt ->
  m_lower <= m <= m_upper ->
  0 < line (O:=R_ops J) m 1 slope scale <= m.
Proof.
  intros J slope scale ml mu m Hml Hv Hm.
  rewrite powerlaw_valid_unfold in Hv.
  destruct (Rltb_spec mu ml) as [Hc|Hc].
  { destruct (negb _); [discriminate|]. destruct (Rltb ml 0); discriminate. }
  assert (Hmu : 0 < mu) by lra.
  rewrite (line_1 J ml) in Hv by exact Hml.
  rewrite (line_1 J mu) in Hv by exact Hmu.
  rewrite (line_1 J m) by lra.
  destruct (Rltb_spec 0 (slope * ml + scale)) as [Hl0|]; [|discriminate].
  destruct (Rleb_spec (slope * ml + scale) ml) as [Hl1|]; [|discriminate].
  destruct (Rltb_spec 0 (slope * mu + scale)) as [Hu0|]; [|discriminate].
  destruct (Rleb_spec (slope * mu + scale) mu) as [Hu1|]; [|discriminate].
  clear Hv.
  destruct (Req_dec ml mu) as [Heq|Hne].
  - assert (m = ml) by lra. subst m. lra.
  - set (t := (m - ml) / (mu - ml)).
    assert (Ht0 : 0 <= t) by (apply div_nonneg; lra).
    assert (Ht1 : t <= 1) by (apply div_le_iff; lra).
    assert (Hmt : m = ml + t * (mu - ml)) by (unfold t; field; lra).
    assert (Hval : slope * m + scale =
                   (1 - t) * (slope * ml + scale) + t * (slope * mu + scale))
      by (rewrite Hmt; ring).
    rewrite Hval.
    split.
    + destruct (Rle_lt_dec t (1/2)) as [Hh|Hh].
      * assert (0 <= t * (slope * mu + scale)) by (apply Rmult_le_pos; lra).
        assert (1/2 * (slope * ml + scale) <= (1 - t) * (slope * ml + scale))
          by (apply Rmult_le_compat_r; lra).
        lra.
      * assert (0 <= (1 - t) * (slope * ml + scale)) by (apply Rmult_le_pos; lra).
        assert (1/2 * (slope * mu + scale) < t * (slope * mu + scale))
          by (apply Rmult_lt_compat_r; lra).
        lra.
    + assert (0 <= t * (mu - (slope * mu + scale))) by (apply Rmult_le_pos; lra).
      assert (0 <= (1 - t) * (ml - (slope * ml + scale))) by (apply Rmult_le_pos; lra).
      assert (m = (1 - t) * ml + t * mu) by (rewrite Hmt; ring).
      lra.
Qed.
