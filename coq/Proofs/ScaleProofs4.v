(* Proofs/ScaleProofs4.v -- C18 (continued): population size only sets the scale.
   Degree-one homogeneity of the BH mass-fraction ejection
   (EvolvedMFWithBH._dyn_eject_BH and its per-row block) and of the
   standard-model BH post-processing (shortcut + budget block) of Model/Eject.v,
   at the real instance.  Every statement is universally quantified over the
   Junk record: a quotient is only used after its denominator has been shown
   non-zero, on BOTH sides of the scaling. *)
From Coq Require Import List Bool Reals Lra Lia.
From SSP Require Import Num RFacts Model.Eject Model.ScaleSpec
  Proofs.EjectProofs Proofs.FbhProofs Proofs.ScaleProofs.
Import ListNotations.
Local Open Scope R_scope.

(* ------------------------------------------------------------------ *)
(* helpers *)

Lemma scale_ne0 lam y : lam <> 0 -> y <> 0 -> lam * y <> 0.
Proof. intros Hl Hy. apply Rmult_integral_contrapositive_currified; assumption. Qed.

(* a guarded quotient of two scaled quantities is scale free ... *)
Lemma Rdiv_j_scale J lam x y : lam <> 0 -> y <> 0 ->
  Rdiv_j J (lam * x) (lam * y) = Rdiv_j J x y.
Proof.
  intros Hl Hy.
  rewrite (Rdiv_j_ok J x y) by exact Hy.
  rewrite (Rdiv_j_ok J (lam * x) (lam * y)) by (apply scale_ne0; assumption).
  field. split; assumption.
Qed.

(* ... and one with a scale-free denominator is homogeneous in the numerator *)
Lemma Rdiv_j_scale_num J lam x y : y <> 0 ->
  Rdiv_j J (lam * x) y = lam * Rdiv_j J x y.
Proof. intros Hy. rewrite !Rdiv_j_ok by exact Hy. field. exact Hy. Qed.

Lemma Rleb_scale_l lam x y : 0 < lam -> Rleb (lam * x) (lam * y) = Rleb x y.
Proof.
  intros Hl. destruct (Rleb_spec x y) as [H|H].
  - apply Rleb_true. apply Rmult_le_compat_l; lra.
  - apply Rleb_false. apply Rmult_lt_compat_l; lra.
Qed.

Lemma Rltb_scale_0r lam x : 0 < lam -> Rltb (lam * x) 0 = Rltb x 0.
Proof. intros Hl. rewrite <- (Rltb_scale lam x 0 Hl), Rmult_0_r. reflexivity. Qed.

Lemma scale_bins_zero_map lam (l : list (R * R)) :
  map (fun _ => (0, 0)) (scale_bins lam l) = scale_bins lam (map (fun _ => (0, 0)) l).
Proof.
  induction l as [|p l IH]; [reflexivity|].
  simpl. rewrite IH, !Rmult_0_r. reflexivity.
Qed.

(* ------------------------------------------------------------------ *)
(* (A) the BH mass-fraction loop *)

(* the mass to strip from the cut bin is homogeneous of degree one in
   (MBH, Mtot) at a fixed (scale-free) excess fraction d *)
Lemma mrem_scale J lam d Mb Mt : 0 < lam -> 0 < Mt -> Mt * (1 + d) - Mb <> 0 ->
  mrem (O:=R_ops J) d (lam * Mb) (lam * Mt) = lam * mrem (O:=R_ops J) d Mb Mt.
Proof.
  intros Hl HMt Hden. rewrite !mrem_unfold.
  assert (HlMt : 0 < lam * Mt) by (apply Rmult_lt_0_compat; assumption).
  rewrite (Rpow_j_ok J Mt) by exact HMt.
  rewrite (Rpow_j_ok J (lam * Mt)) by exact HlMt.
  rewrite !Rpower_plus, !Rpower_1 by assumption.
  replace (lam * Mt * (1 + d) - lam * Mb) with (lam * (Mt * (1 + d) - Mb)) by ring.
  rewrite (Rdiv_j_ok J _ (Mt * (1 + d) - Mb)) by exact Hden.
  rewrite (Rdiv_j_ok J _ (lam * (Mt * (1 + d) - Mb))) by (apply scale_ne0; [lra|exact Hden]).
  field. split; [exact Hden|lra].
Qed.

(* Hypotheses:
     Forall wfbin l     bins non-negative, populated in mass => populated in number
     sumM l < Mtot      the BH bins do not make up the whole cluster: every total
                        Mtot - (bins removed so far) met by the loop stays > 0
     f <> 1 \/ MBH <= Mtot
                        the denominator Mtot*(1+dfbh) - MBH of [mrem] equals
                        Mtot*(1-f): non-zero unless the target is exactly 1, a
                        target that is never *acted upon* when MBH <= Mtot. *)
Lemma fbh_rev_homogeneous J lam f : 0 < lam -> forall l MBH Mtot,
  Forall wfbin l -> sumM l < Mtot -> (f <> 1 \/ MBH <= Mtot) ->
  fbh_rev (O:=R_ops J) (scale_bins lam l) (lam * MBH) (lam * Mtot) f =
  let '(l', w) := fbh_rev (O:=R_ops J) l MBH Mtot f in (scale_bins lam l', w).
Proof.
  intros Hlam. assert (Hl0 : lam <> 0) by lra.
  induction l as [|[m n] r IH]; intros MBH Mtot Hwf Hsum Hf.
  - simpl in Hsum.
    change (scale_bins lam []) with (@nil (R * R)).
    rewrite !fbh_rev_nil, (Rdiv_j_scale J lam MBH Mtot Hl0) by lra.
    destruct (Rltb f (Rdiv_j J MBH Mtot)); reflexivity.
  - inversion Hwf as [|? ? Hp Hwr]; subst.
    destruct Hp as (Hm & Hn & Hmn); simpl in Hm, Hn, Hmn.
    pose proof (sumM_nonneg r Hwr) as Hr0.
    rewrite sumM_cons in Hsum.
    rewrite scale_bins_cons, !fbh_rev_cons.
    replace (lam * MBH - lam * m) with (lam * (MBH - m)) by ring.
    replace (lam * Mtot - lam * m) with (lam * (Mtot - m)) by ring.
    rewrite (Rdiv_j_scale J lam MBH Mtot Hl0) by lra.
    rewrite (Rdiv_j_scale J lam (MBH - m) (Mtot - m) Hl0) by lra.
    destruct (Rltb_spec f (Rdiv_j J MBH Mtot)) as [Hlt|Hnlt]; [|reflexivity].
    destruct (Rleb_spec f (Rdiv_j J (MBH - m) (Mtot - m))) as [Hle|Hnle].
    + (* whole bin removed *)
      assert (Hf' : f <> 1 \/ MBH - m <= Mtot - m)
        by (destruct Hf as [Hf|Hf]; [left; exact Hf|right; lra]).
      rewrite (IH (MBH - m) (Mtot - m) Hwr) by (try exact Hf'; lra).
      destruct (fbh_rev (O:=R_ops J) r (MBH - m) (Mtot - m) f) as [r' w].
      rewrite scale_bins_cons, !Rmult_0_r. reflexivity.
    + (* partial removal: the cut bin is populated, the target is not 1 *)
      assert (Hm0 : 0 < m).
      { destruct (Rle_lt_or_eq_dec _ _ Hm) as [H|H]; [exact H|].
        exfalso. apply Hnle. subst m. rewrite !Rminus_0_r. lra. }
      specialize (Hmn Hm0).
      assert (HMt : 0 < Mtot) by lra.
      assert (Hf1 : f <> 1).
      { destruct Hf as [Hf|Hf]; [exact Hf|].
        rewrite (Rdiv_j_ok J MBH Mtot) in Hlt by lra.
        apply lt_div_iff in Hlt; [|exact HMt]. intros ->. lra. }
      assert (Hden : Mtot * (1 + (Rdiv_j J MBH Mtot - f)) - MBH <> 0).
      { rewrite (Rdiv_j_ok J MBH Mtot) by lra.
        replace (Mtot * (1 + (MBH / Mtot - f)) - MBH) with (Mtot * (1 - f)) by (field; lra).
        apply scale_ne0; lra. }
      rewrite (mrem_scale J lam _ MBH Mtot Hlam HMt Hden).
      set (x := mrem (O:=R_ops J) (Rdiv_j J MBH Mtot - f) MBH Mtot).
      rewrite (Rdiv_j_scale J lam m n Hl0) by lra.
      assert (Hq : Rdiv_j J m n <> 0).
      { rewrite (Rdiv_j_ok J m n) by lra. apply Rgt_not_eq, div_pos; lra. }
      rewrite (Rdiv_j_scale_num J lam x _ Hq).
      rewrite scale_bins_cons. do 3 f_equal; ring.
Qed.

Theorem fbh_homogeneous : forall J MN MBH Mtot f lam, 0 < lam ->
  Forall wfbin MN -> sumM MN < Mtot -> (f <> 1 \/ MBH <= Mtot) ->
  dyn_eject_fbh_nowrap (O:=R_ops J) (scale_bins lam MN) (lam * MBH) (lam * Mtot) f =
  let '(l, w) := dyn_eject_fbh_nowrap (O:=R_ops J) MN MBH Mtot f in (scale_bins lam l, w).
Proof.
  intros J MN MBH Mtot f lam Hlam Hwf Hsum Hf.
  rewrite !nowrap_unfold, <- scale_bins_rev.
  rewrite (fbh_rev_homogeneous J lam f Hlam (rev MN) MBH Mtot)
    by (try apply Forall_rev; try rewrite sumM_rev; assumption).
  destruct (fbh_rev (O:=R_ops J) (rev MN) MBH Mtot f) as [l' w].
  rewrite scale_bins_rev. reflexivity.
Qed.

(* the state the code actually builds: MBH is the sum of the BH bins and the
   rest of the cluster has positive mass Mo; any target except exactly 1 *)
Corollary fbh_homogeneous_physical : forall J MN Mo f lam, 0 < lam ->
  Forall wfbin MN -> 0 < Mo ->
  dyn_eject_fbh_nowrap (O:=R_ops J) (scale_bins lam MN)
      (lam * sumM MN) (lam * (Mo + sumM MN)) f =
  let '(l, w) := dyn_eject_fbh_nowrap (O:=R_ops J) MN (sumM MN) (Mo + sumM MN) f in
  (scale_bins lam l, w).
Proof.
  intros J MN Mo f lam Hlam Hwf HMo.
  apply fbh_homogeneous; [exact Hlam|exact Hwf|lra|right; lra].
Qed.

(* the sums themselves scale, so the corollary is about a scaled *state* *)
Lemma sumM_scale lam l : sumM (scale_bins lam l) = lam * sumM l.
Proof.
  induction l as [|[m n] r IH]; [simpl; ring|].
  rewrite scale_bins_cons, !sumM_cons, IH. ring.
Qed.

Lemma wfbin_scale lam l : 0 < lam -> Forall wfbin l -> Forall wfbin (scale_bins lam l).
Proof.
  intros Hlam H. unfold scale_bins. apply Forall_map.
  eapply Forall_impl; [|exact H].
  intros [m n] (Hm & Hn & Hmn); simpl in *. unfold wfbin; simpl.
  split; [apply Rmult_le_pos; lra|]. split; [apply Rmult_le_pos; lra|].
  intros H0. apply Rmult_lt_0_compat; [lra|]. apply Hmn.
  destruct (Rle_lt_or_eq_dec _ _ Hm) as [Hlt|Heq]; [exact Hlt|].
  subst m. rewrite Rmult_0_r in H0. lra.
Qed.

(* the hypotheses of [fbh_homogeneous] are themselves scale invariant *)
Lemma fbh_hyps_scale lam MN MBH Mtot f : 0 < lam ->
  Forall wfbin MN -> sumM MN < Mtot -> (f <> 1 \/ MBH <= Mtot) ->
  Forall wfbin (scale_bins lam MN) /\ sumM (scale_bins lam MN) < lam * Mtot /\
  (f <> 1 \/ lam * MBH <= lam * Mtot).
Proof.
  intros Hlam Hwf Hsum Hf. split; [apply wfbin_scale; assumption|].
  split; [rewrite sumM_scale; apply Rmult_lt_compat_l; assumption|].
  destruct Hf as [Hf|Hf]; [left; exact Hf|right; apply Rmult_le_compat_l; lra].
Qed.

(* no vacuity: three bins (masses 1, 2, 4; numbers 10, 10, 10), 13 units of
   other mass, target 2/15: the loop removes the top bin (7/20 -> 3/16 >= 2/15)
   and half of the middle one (1/14 < 2/15), and the hypotheses hold *)
Example fbh_homogeneous_example : forall J lam, 0 < lam ->
  let MN := [(1, 10); (2, 10); (4, 10)] in
  dyn_eject_fbh_nowrap (O:=R_ops J) MN 7 20 (2 / 15) = ([(1, 10); (1, 5); (0, 0)], false) /\
  dyn_eject_fbh_nowrap (O:=R_ops J) (scale_bins lam MN) (lam * 7) (lam * 20) (2 / 15) =
    (scale_bins lam [(1, 10); (1, 5); (0, 0)], false).
Proof.
  intros J lam Hlam MN.
  assert (Hwf : Forall wfbin MN).
  { unfold MN. repeat constructor; simpl; lra. }
  assert (Hrun : dyn_eject_fbh_nowrap (O:=R_ops J) MN 7 20 (2 / 15) =
                 ([(1, 10); (1, 5); (0, 0)], false)).
  { rewrite nowrap_unfold. unfold MN. simpl rev.
    rewrite fbh_rev_cons.
    rewrite (Rdiv_j_ok J 7 20) by lra. rewrite (Rdiv_j_ok J (7 - 4) (20 - 4)) by lra.
    destruct (Rltb_spec (2 / 15) (7 / 20)) as [_|H]; [|exfalso; lra].
    destruct (Rleb_spec (2 / 15) ((7 - 4) / (20 - 4))) as [_|H]; [|exfalso; lra].
    rewrite fbh_rev_cons.
    rewrite (Rdiv_j_ok J (7 - 4) (20 - 4)) by lra.
    rewrite (Rdiv_j_ok J (7 - 4 - 2) (20 - 4 - 2)) by lra.
    destruct (Rltb_spec (2 / 15) ((7 - 4) / (20 - 4))) as [_|H]; [|exfalso; lra].
    destruct (Rleb_spec (2 / 15) ((7 - 4 - 2) / (20 - 4 - 2))) as [H|_]; [exfalso; lra|].
    replace (7 - 4) with 3 by ring. replace (20 - 4) with 16 by ring.
    rewrite (mrem_value J (2 / 15) 3 16) by lra.
    rewrite (Rdiv_j_ok J 2 10) by lra. rewrite (Rdiv_j_ok J _ (2 / 10)) by lra.
    simpl rev. simpl app. repeat f_equal; field. }
  split; [exact Hrun|].
  rewrite (fbh_homogeneous J MN 7 20 (2 / 15) lam Hlam Hwf) by (unfold MN; simpl; lra).
  rewrite Hrun. reflexivity.
Qed.

(* ------------------------------------------------------------------ *)
(* (B) the per-row block of EvolvedMFWithBH._evolve *)

Theorem fbh_post_homogeneous : forall J formed strict MN Mtot Mbhtot f lam, 0 < lam ->
  Forall wfbin MN -> sumM MN < Mtot -> (f <> 1 \/ Mbhtot <= Mtot) ->
  fbh_post (O:=R_ops J) formed strict (scale_bins lam MN) (lam * Mtot) (lam * Mbhtot) f =
  match fbh_post (O:=R_ops J) formed strict MN Mtot Mbhtot f with
  | FbhOk l w => FbhOk (scale_bins lam l) w
  | FbhErr => FbhErr
  end.
Proof.
  intros J formed strict MN Mtot Mbhtot f lam Hlam Hwf Hsum Hf.
  pose proof (sumM_nonneg MN Hwf) as H0.
  rewrite !fbh_post_unfold.
  destruct formed; simpl negb; cbv iota; [|reflexivity].
  rewrite (Rdiv_j_scale J lam Mbhtot Mtot) by lra.
  destruct (Rltb (Rdiv_j J Mbhtot Mtot) f && strict); [reflexivity|].
  rewrite (fbh_homogeneous J MN Mbhtot Mtot f lam Hlam Hwf Hsum Hf).
  destruct (dyn_eject_fbh_nowrap (O:=R_ops J) MN Mbhtot Mtot f) as [l w].
  reflexivity.
Qed.

(* ------------------------------------------------------------------ *)
(* (C) the "kicking basically all" shortcut.  It compares a NUMBER of objects
   (retained mass / mean mass of the lightest bin) with the absolute constant
   Nmin, so it is scale invariant only when Nmin is scaled as well. *)

Lemma shortcut_unfold J MN Msum ret Nmin :
  shortcut (O:=R_ops J) MN Msum ret Nmin =
    let '(m0, n0) := match MN with p :: _ => p | [] => (0, 0) end in
    let q := Rdiv_j J (Msum - Msum * (1 - ret)) (Rdiv_j J m0 n0) in
    Rleb 0 q && Rltb q Nmin.
Proof. reflexivity. Qed.

(* Hypotheses: the lightest bin is populated (m0 <> 0, n0 <> 0), so that the
   mean mass m0/n0 is a genuine non-zero quotient; for an empty array both
   premises are false ([hd] returns (0,0)), which is right: there the code
   evaluates 0/0. *)
Theorem shortcut_scale : forall J MN Msum ret_dyn Nmin lam, 0 < lam ->
  fst (hd (0, 0) MN) <> 0 -> snd (hd (0, 0) MN) <> 0 ->
  shortcut (O:=R_ops J) (scale_bins lam MN) (lam * Msum) ret_dyn (lam * Nmin) =
  shortcut (O:=R_ops J) MN Msum ret_dyn Nmin.
Proof.
  intros J MN Msum ret Nmin lam Hlam Hm Hn.
  assert (Hl0 : lam <> 0) by lra.
  rewrite !shortcut_unfold.
  destruct MN as [|[m0 n0] rest]; simpl in Hm, Hn; [exfalso; apply Hm; reflexivity|].
  rewrite scale_bins_cons. cbv zeta.
  rewrite (Rdiv_j_scale J lam m0 n0 Hl0 Hn).
  assert (Hq : Rdiv_j J m0 n0 <> 0).
  { rewrite (Rdiv_j_ok J m0 n0 Hn). unfold Rdiv.
    apply scale_ne0; [exact Hm|apply Rinv_neq_0_compat; exact Hn]. }
  replace (lam * Msum - lam * Msum * (1 - ret)) with (lam * (Msum - Msum * (1 - ret))) by ring.
  rewrite (Rdiv_j_scale_num J lam _ _ Hq).
  rewrite (Rleb_scale0 lam _ Hlam), (Rltb_scale lam _ Nmin Hlam). reflexivity.
Qed.

(* ------------------------------------------------------------------ *)
(* (D) the budget block of EvolvedMF._evolve *)

Definition scale_kicked (lam : R) (k : option (list (R * R) * R)) : option (list (R * R) * R) :=
  match k with Some (l, x) => Some (scale_bins lam l, lam * x) | None => None end.

Definition scale_post (lam : R) (o : bh_post_out (T:=R)) : bh_post_out (T:=R) :=
  match o with
  | PostOk l => PostOk (scale_bins lam l)
  | PostErrKicks => PostErrKicks
  | PostErrEject => PostErrEject
  end.

(* Hypotheses: lightest bin populated (for the shortcut test, (C)); the arrays
   handed to _dyn_eject_BH -- the kicked ones when natal kicks are on, else
   the original ones -- well formed (for [eject_homogeneous]). *)
Theorem bh_post_homogeneous : forall J formed MN Msum ret_dyn Nmin kicked lam, 0 < lam ->
  fst (hd (0, 0) MN) <> 0 -> snd (hd (0, 0) MN) <> 0 ->
  Forall wfbin (match kicked with Some (l, _) => l | None => MN end) ->
  bh_post (O:=R_ops J) formed (scale_bins lam MN) (lam * Msum) ret_dyn (lam * Nmin)
          (scale_kicked lam kicked) =
  scale_post lam (bh_post (O:=R_ops J) formed MN Msum ret_dyn Nmin kicked).
Proof.
  intros J formed MN Msum ret Nmin kicked lam Hlam Hm Hn Hwf.
  unfold bh_post. destruct formed; simpl negb; cbv iota; [|reflexivity].
  rewrite (shortcut_scale J MN Msum ret Nmin lam Hlam Hm Hn).
  destruct (shortcut (O:=R_ops J) MN Msum ret Nmin).
  { simpl scale_post. rewrite scale_bins_zero_map. reflexivity. }
  change (@nmul R (R_ops J) (lam * Msum) (@nsub R (R_ops J) (@none R (R_ops J)) ret))
    with (lam * Msum * (1 - ret)).
  change (@nmul R (R_ops J) Msum (@nsub R (R_ops J) (@none R (R_ops J)) ret))
    with (Msum * (1 - ret)).
  destruct kicked as [[lk k]|]; simpl scale_kicked; cbv iota beta.
  - change (@nsub R (R_ops J) (lam * Msum * (1 - ret)) (lam * k))
      with (lam * Msum * (1 - ret) - lam * k).
    change (@nsub R (R_ops J) (Msum * (1 - ret)) k) with (Msum * (1 - ret) - k).
    replace (lam * Msum * (1 - ret) - lam * k) with (lam * (Msum * (1 - ret) - k)) by ring.
    change (@nltb R (R_ops J)) with Rltb. change (@nzero R (R_ops J)) with 0.
    rewrite (Rltb_scale_0r lam _ Hlam).
    destruct (Rltb (Msum * (1 - ret) - k) 0); [reflexivity|].
    rewrite (eject_homogeneous J lk _ lam Hlam Hwf).
    destruct (dyn_eject (O:=R_ops J) lk (Msum * (1 - ret) - k)); reflexivity.
  - replace (lam * Msum * (1 - ret)) with (lam * (Msum * (1 - ret))) by ring.
    change (@nltb R (R_ops J)) with Rltb. change (@nzero R (R_ops J)) with 0.
    rewrite (Rltb_scale_0r lam _ Hlam).
    destruct (Rltb (Msum * (1 - ret)) 0); [reflexivity|].
    rewrite (eject_homogeneous J MN _ lam Hlam Hwf).
    destruct (dyn_eject (O:=R_ops J) MN (Msum * (1 - ret))); reflexivity.
Qed.

Print Assumptions fbh_homogeneous.
Print Assumptions fbh_homogeneous_physical.
Print Assumptions fbh_homogeneous_example.
Print Assumptions fbh_post_homogeneous.
Print Assumptions shortcut_scale.
Print Assumptions bh_post_homogeneous.
