(* C02 / C09 -- the end-point validation of an analytic IFMR segment is vacuous at an
   unbounded upper end.  `_linear_BH_predictor` and `_powerlaw_BH_predictor` call
   `_powerlaw_predictor(..., m_upper=np.inf)`; in binary64 `0 < line(inf) <= inf` holds for
   every positive slope and exponent, so the check accepts relations that give remnants
   heavier than their progenitors.  Machine-checked witness on the float model (the same
   definitions the correspondence check runs against ifmr._powerlaw_predictor): the listed
   known finding `unbounded_bh_segment_upper_end_unchecked`. *)
From Coq Require Import PrimFloat.
From SSP Require Import Num FloatFun Model.IFMR.

Lemma unbounded_segment_refuted :
  exists e s c ml m : float,
    powerlaw_valid (O:=F_ops) e s c ml infinity = Ok tt /\
    PrimFloat.leb ml m = true /\
    PrimFloat.ltb m (line (O:=F_ops) m e s c) = true.
Proof.
  exists 2%float, 0x1.47ae147ae147bp-7%float, 0%float, 19%float, 150%float.
  vm_compute. repeat split.
Qed.

(* with a finite upper end the same parameters are refused *)
Definition w_exp : float := 2%float.
Definition w_slope : float := 0x1.47ae147ae147bp-7%float.   (* 0.01 *)
Definition w_scale : float := 0%float.
Definition w_lower : float := 19%float.
Definition w_upper : float := 150%float.
Lemma bounded_segment_refused :
  powerlaw_valid (O:=F_ops) w_exp w_slope w_scale w_lower w_upper = Err ValueError.
Proof. vm_compute. reflexivity. Qed.

(* an increasing, strictly concave segment (exponent 1/2) that passes the end-point validation
   and yet gives a remnant heavier than its progenitor in between -- on the float model *)
Definition c_exp : float := 0x1p-1%float.        (* 0.5 *)
Definition c_slope : float := 3%float.
Definition c_scale : float := (-2)%float.
Definition c_lower : float := 1%float.
Definition c_upper : float := 4%float.
Definition c_m : float := 0x1.2p+1%float.        (* 2.25 *)
Lemma concave_segment_refuted_float :
  powerlaw_valid (O:=F_ops) c_exp c_slope c_scale c_lower c_upper = Ok tt /\
  PrimFloat.leb c_lower c_m = true /\ PrimFloat.leb c_m c_upper = true /\
  PrimFloat.ltb c_m (line (O:=F_ops) c_m c_exp c_slope c_scale) = true.
Proof. vm_compute. repeat split. Qed.
