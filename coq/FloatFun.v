(* FloatFun.v -- ln / exp / pow / erf over primitive binary64 floats.

   These are small executable approximations (target: ~1e-14 relative) used
   ONLY on the executable side of the correspondence check, where libm /
   scipy.special are used by the implementation.  Nothing is proved about
   them; routines that go through them are compared at a relative tolerance
   (1e-9), never bit-exactly, and they are validated against the
   implementation's libm on every run (harness/selftest). *)
From Coq Require Import ZArith List Bool.
From Coq Require Import PrimFloat Uint63 FloatOps SpecFloat.
From SSP Require Import Num.
Import ListNotations.
Local Open Scope float_scope.

Definition ln2_hi := 0x1.62e42fee00000p-1.
Definition ln2_lo := 0x1.a39ef35793c76p-33.
Definition ln2 := 0x1.62e42fefa39efp-1.
Definition sqrt_half := 0x1.6a09e667f3bcdp-1.

Definition fofZ (z : Z) : float :=
  match z with
  | Z0 => 0
  | Zpos _ => of_uint63 (Uint63.of_Z z)
  | Zneg _ => - of_uint63 (Uint63.of_Z (Z.opp z))
  end.

(* floor of a finite float as Z (0 for nan/inf) *)
Definition ffloorZ (x : float) : Z :=
  match Prim2SF x with
  | S754_finite s m e =>
      let v := if (0 <=? e)%Z then (Zpos m * 2 ^ e)%Z
               else (Zpos m / 2 ^ (- e))%Z in
      if s then (if (0 <=? e)%Z then - v
                 else (- ((Zpos m + 2 ^ (- e) - 1) / 2 ^ (- e))))%Z
      else v
  | _ => 0%Z
  end.

Definition horner (cs : list float) (z : float) : float :=
  fold_right (fun c acc => c + z * acc) 0 cs.
(* 1/(2i+1), i = 0..13 *)
Definition ln_coeffs : list float := [0x1.0000000000000p+0; 0x1.5555555555555p-2; 0x1.999999999999ap-3; 0x1.2492492492492p-3; 0x1.c71c71c71c71cp-4; 0x1.745d1745d1746p-4; 0x1.3b13b13b13b14p-4; 0x1.1111111111111p-4; 0x1.e1e1e1e1e1e1ep-5; 0x1.af286bca1af28p-5; 0x1.8618618618618p-5; 0x1.642c8590b2164p-5; 0x1.47ae147ae147bp-5; 0x1.2f684bda12f68p-5].
(* 1/i!, i = 0..15 *)
Definition exp_coeffs : list float := [0x1.0000000000000p+0; 0x1.0000000000000p+0; 0x1.0000000000000p-1; 0x1.5555555555555p-3; 0x1.5555555555555p-5; 0x1.1111111111111p-7; 0x1.6c16c16c16c17p-10; 0x1.a01a01a01a01ap-13; 0x1.a01a01a01a01ap-16; 0x1.71de3a556c734p-19; 0x1.27e4fb7789f5cp-22; 0x1.ae64567f544e4p-26; 0x1.1eed8eff8d898p-29; 0x1.6124613a86d09p-33; 0x1.93974a8c07c9dp-37; 0x1.ae7f3e733b81fp-41].

Definition fln (x : float) : float :=
  if is_nan x then nan
  else if x <? 0 then nan
  else if x =? 0 then neg_infinity
  else if x =? infinity then infinity
  else
    let (m, e) := frshiftexp x in
    let ez := (Uint63.to_Z e - shift)%Z in
    let m' := if m <? sqrt_half then m * 2 else m in
    let ez' := if m <? sqrt_half then (ez - 1)%Z else ez in
    let s := (m' - 1) / (m' + 1) in
    let z := s * s in
    (* 2*atanh(s) = 2 s (1 + z/3 + z^2/5 + ... ) , z <= 0.0295 *)
    let p := horner ln_coeffs z in
    let k := fofZ ez' in
    k * ln2_hi + (2 * s * p + k * ln2_lo).

Definition fexp (x : float) : float :=
  if is_nan x then nan
  else if 0x1.62e42fefa39efp+9 <? x then infinity       (* > 709.7827 *)
  else if x <? -0x1.749999999999ap+9 then 0            (* < -745.13 *)
  else
    let kz := ffloorZ (x / ln2 + 0x1p-1) in
    let k := fofZ kz in
    let r := (x - k * ln2_hi) - k * ln2_lo in
    (* Taylor, |r| <= 0.35, degree 14 *)
    let p := horner exp_coeffs r in
    (* scale by 2^k in two steps to stay inside the exponent range *)
    let k1 := (kz / 2)%Z in
    let k2 := (kz - k1)%Z in
    ldshiftexp (ldshiftexp p (Uint63.of_Z (k1 + shift))) (Uint63.of_Z (k2 + shift)).

Definition fis_int (y : float) : bool :=
  match Prim2SF y with
  | S754_zero _ => true
  | S754_finite _ m e =>
      if (0 <=? e)%Z then true
      else Z.eqb (Zpos m mod 2 ^ (- e)) 0
  | _ => false
  end.
Definition fis_odd_int (y : float) : bool :=
  fis_int y && Z.odd (ffloorZ y).

(* x ** y with numpy / C99 pow conventions for the cases the package reaches *)
Definition fpow (x y : float) : float :=
  if y =? 0 then 1
  else if x =? 1 then 1
  else if y =? 2 then x * x             (* libm / numpy: exact square *)
  else if y =? 1 then x
  else if (y =? -1) && negb (x =? 0) then 1 / x
  else if (y =? 0x1p-1) && (0 <=? x) then PrimFloat.sqrt x
  else if is_nan x || is_nan y then nan
  else if x =? 0 then
    (if 0 <? y then 0 else infinity)
  else if x <? 0 then
    (if fis_int y then
       let r := fexp (y * fln (- x)) in if fis_odd_int y then - r else r
     else nan)
  else if x =? infinity then (if 0 <? y then infinity else 0)
  else fexp (y * fln x).

(* erf by the all-positive series
     erf x = 2/sqrt(pi) * exp(-x^2) * sum_n 2^n x^(2n+1) / (2n+1)!!       *)
Fixpoint erf_series (fuel : nat) (n : float) (term acc x2 : float) : float :=
  match fuel with
  | O => acc
  | S f =>
      let term' := term * (2 * x2) / (2 * n + 3) in
      erf_series f (n + 1) term' (acc + term') x2
  end.
Definition two_over_sqrt_pi := 0x1.20dd750429b6dp+0.
Definition ferf (x : float) : float :=
  if is_nan x then nan
  else
    let a := abs x in
    let r := if 0x1.8p+2 <? a then 1        (* |x| > 6 : 1 - erf < 2e-17 *)
             else two_over_sqrt_pi * fexp (- (a * a))
                  * erf_series 200 0 a a (a * a) in
    let r := if 1 <? r then 1 else r in
    if x <? 0 then - r else r.

#[export] Instance F_ops : NumOps float := F_ops_with fpow fln fexp ferf.
