(* RFacts.v -- small real-arithmetic helpers used across the proofs. *)
From Coq Require Import Reals Lra.
Local Open Scope R_scope.

Lemma div_pos a c : 0 < a -> 0 < c -> 0 < a / c.
Proof. intros; apply Rmult_lt_0_compat; [assumption|apply Rinv_0_lt_compat; assumption]. Qed.
Lemma div_nonneg a c : 0 <= a -> 0 < c -> 0 <= a / c.
Proof. intros; apply Rmult_le_pos; [assumption|left; apply Rinv_0_lt_compat; assumption]. Qed.
Lemma div_mul_cancel a c : c <> 0 -> a / c * c = a.
Proof. intros; field; assumption. Qed.
Lemma div_le_iff a b c : 0 < c -> (a / c <= b <-> a <= b * c).
Proof.
  intros Hc; split; intros H.
  - rewrite <- (div_mul_cancel a c) by lra. apply Rmult_le_compat_r; lra.
  - apply (Rmult_le_reg_r c); [assumption|]. rewrite div_mul_cancel by lra. assumption.
Qed.
Lemma div_lt_iff a b c : 0 < c -> (a / c < b <-> a < b * c).
Proof.
  intros Hc; split; intros H.
  - rewrite <- (div_mul_cancel a c) by lra. apply Rmult_lt_compat_r; lra.
  - apply (Rmult_lt_reg_r c); [assumption|]. rewrite div_mul_cancel by lra. assumption.
Qed.
Lemma le_div_iff a b c : 0 < c -> (b <= a / c <-> b * c <= a).
Proof.
  intros Hc; split; intros H.
  - rewrite <- (div_mul_cancel a c) by lra. apply Rmult_le_compat_r; lra.
  - apply (Rmult_le_reg_r c); [assumption|]. rewrite div_mul_cancel by lra. assumption.
Qed.
Lemma lt_div_iff a b c : 0 < c -> (b < a / c <-> b * c < a).
Proof.
  intros Hc; split; intros H.
  - rewrite <- (div_mul_cancel a c) by lra. apply Rmult_lt_compat_r; lra.
  - apply (Rmult_lt_reg_r c); [assumption|]. rewrite div_mul_cancel by lra. assumption.
Qed.
