#!/bin/sh
# regenerate _CoqProject from the static sources (gen/ and cases/ are per-run).
# A property file is listed only when every Proofs/*.v it imports exists.
cd "$(dirname "$0")"
python3 - <<'PY'
import glob, os, re
out = ["-Q . SSP"] + sorted(glob.glob("*.v")) + sorted(glob.glob("Model/*.v")) + sorted(glob.glob("Proofs/*.v"))
for p in sorted(glob.glob("Properties/*.v")):
    src = re.sub(r"\(\*.*?\*\)", "", open(p).read(), flags=re.S)
    deps = set(re.findall(r"\bProofs\.([A-Za-z0-9_]+)", src))
    if all(os.path.exists("Proofs/%s.v" % d) for d in deps):
        out.append(p)
open("_CoqProject", "w").write("\n".join(out) + "\n")
PY
coq_makefile -f _CoqProject -o Makefile >/dev/null
