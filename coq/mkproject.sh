#!/bin/sh
# regenerate _CoqProject from the static sources (gen/ and cases/ are per-run)
cd "$(dirname "$0")"
{ echo "-Q . SSP"; ls *.v Model/*.v Proofs/*.v Properties/*.v 2>/dev/null; } > _CoqProject
coq_makefile -f _CoqProject -o Makefile >/dev/null
