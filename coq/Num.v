(* Num.v -- the number-system interface every numeric model is written against.

   One Gallina term per routine, used at two instances:
     R_ops : Coq reals          (all universal theorems)
     F_ops : primitive binary64 (executed by vm_compute against the code)

   No axioms are declared here. *)
From Coq Require Import ZArith List Bool Reals.
From Coq Require Import PrimFloat Uint63 FloatOps.
Import ListNotations.

Class NumOps (T : Type) := mkNumOps {
  nzero : T; none : T;
  nadd : T -> T -> T; nsub : T -> T -> T;
  nmul : T -> T -> T; ndiv : T -> T -> T;
  nopp : T -> T; nabs : T -> T;
  nltb : T -> T -> bool; nleb : T -> T -> bool; neqb : T -> T -> bool;
  npow : T -> T -> T;   (* x ** y, x > 0 *)
  nln : T -> T; nexp : T -> T; nsqrt : T -> T;
  nerf : T -> T;
  ninf : T;
  nisnan : T -> bool;
  nofZ : Z -> T
}.

Declare Scope num_scope.
Delimit Scope num_scope with num.
Infix "+" := nadd : num_scope.
Infix "-" := nsub : num_scope.
Infix "*" := nmul : num_scope.
Infix "/" := ndiv : num_scope.
Notation "- x" := (nopp x) : num_scope.
Infix "<?" := nltb : num_scope.
Infix "<=?" := nleb : num_scope.
Infix "=?" := neqb : num_scope.
Infix "**" := npow (at level 30, right associativity) : num_scope.

Section Derived.
  Context {T : Type} {O : NumOps T}.
  Local Open Scope num_scope.
  Definition ntwo : T := none + none.
  Definition nhalf : T := none / ntwo.
  Definition ngtb (x y : T) : bool := y <? x.
  Definition ngeb (x y : T) : bool := y <=? x.
  Fixpoint nsum (l : list T) : T :=
    match l with [] => nzero | x :: r => x + nsum r end.
  (* numpy's sum is pairwise for n >= 8; models that need bit-exact sums use
     nsum_left on short lists (left-to-right, the order numpy uses below 8
     elements) -- see harness notes. *)
  Fixpoint nsum_left_acc (acc : T) (l : list T) : T :=
    match l with [] => acc | x :: r => nsum_left_acc (acc + x) r end.
  Definition nsum_left (l : list T) : T :=
    match l with [] => nzero | x :: r => nsum_left_acc x r end.
  Definition nmin (x y : T) : T := if y <? x then y else x.
  Definition nmax (x y : T) : T := if x <? y then y else x.
End Derived.

(* ------------------------------------------------------------------ *)
(* Real instance.  Comparisons are the decidable ones of the standard
   library (they do not compute; theorems reason about them through
   Rltb_spec etc.).  erf is NOT available in the standard library: models
   that use it take it from the instance, and the R instance is therefore
   built from a function argument (R_ops_with erf); R_ops uses a dummy
   that no theorem relies on. *)

Definition Rltb (x y : R) : bool := if Rlt_dec x y then true else false.
Definition Rleb (x y : R) : bool := if Rle_dec x y then true else false.
Definition Reqb (x y : R) : bool := if Req_EM_T x y then true else false.

Lemma Rltb_spec x y : reflect (x < y)%R (Rltb x y).
Proof. unfold Rltb; destruct (Rlt_dec x y); constructor; assumption. Qed.
Lemma Rleb_spec x y : reflect (x <= y)%R (Rleb x y).
Proof. unfold Rleb; destruct (Rle_dec x y); constructor; assumption. Qed.
Lemma Reqb_spec x y : reflect (x = y)%R (Reqb x y).
Proof. unfold Reqb; destruct (Req_EM_T x y); constructor; assumption. Qed.

Lemma Rltb_true x y : Rltb x y = true <-> (x < y)%R.
Proof. destruct (Rltb_spec x y); split; intros; try assumption; try reflexivity; try discriminate; contradiction. Qed.
Lemma Rltb_false x y : Rltb x y = false <-> (y <= x)%R.
Proof. destruct (Rltb_spec x y); split; intros; try reflexivity; try discriminate.
  - exfalso; apply (Rlt_not_le _ _ r); assumption.
  - apply Rnot_lt_le; assumption. Qed.
Lemma Rleb_true x y : Rleb x y = true <-> (x <= y)%R.
Proof. destruct (Rleb_spec x y); split; intros; try assumption; try reflexivity; try discriminate; contradiction. Qed.
Lemma Rleb_false x y : Rleb x y = false <-> (y < x)%R.
Proof. destruct (Rleb_spec x y); split; intros; try reflexivity; try discriminate.
  - exfalso; apply (Rlt_not_le _ _ H); assumption.
  - apply Rnot_le_lt; assumption. Qed.
Lemma Reqb_true x y : Reqb x y = true <-> x = y.
Proof. destruct (Reqb_spec x y); split; intros; try assumption; try reflexivity; try discriminate; contradiction. Qed.
Lemma Reqb_false x y : Reqb x y = false <-> x <> y.
Proof. destruct (Reqb_spec x y); split; intros; try assumption; try reflexivity; try discriminate; contradiction. Qed.

(* Partiality.  In Coq's reals x / 0, ln of a non-positive number, Rpower of
   a non-positive base and sqrt of a negative number are all *defined* (and
   facts such as 0 / 0 = 0 are provable), whereas numpy yields nan / inf
   there.  To make sure no theorem is true "because 0 / 0 = 0", the real
   instance is parameterised by a record of arbitrary "junk" functions that
   supply the value at exactly those arguments, and every theorem is
   universally quantified over that record: a proof can therefore use a
   division only after showing that the denominator is non-zero, etc.
   [jerf] is the error function (absent from the standard library); theorems
   that need facts about it state them as hypotheses. *)
Record Junk := mkJunk {
  jdiv : R -> R;            (* value of x / 0 *)
  jln : R -> R;             (* value of ln x, x <= 0 *)
  jpow : R -> R -> R;       (* value of x ** y, x <= 0 *)
  jsqrt : R -> R;           (* value of sqrt x, x < 0 *)
  jerf : R -> R;            (* erf *)
  jinf : R                  (* stand-in for +inf *)
}.

Definition Rdiv_j (J : Junk) (x y : R) : R :=
  if Reqb y 0 then jdiv J x else (x / y)%R.
Definition Rln_j (J : Junk) (x : R) : R :=
  if Rltb 0 x then Rpower.ln x else jln J x.
Definition Rpow_j (J : Junk) (x y : R) : R :=
  if Rltb 0 x then Rpower x y else jpow J x y.
Definition Rsqrt_j (J : Junk) (x : R) : R :=
  if Rltb x 0 then jsqrt J x else R_sqrt.sqrt x.

#[export] Instance R_ops (J : Junk) : NumOps R := {|
  nzero := 0%R; none := 1%R;
  nadd := Rplus; nsub := Rminus; nmul := Rmult; ndiv := Rdiv_j J;
  nopp := Ropp; nabs := Rbasic_fun.Rabs;
  nltb := Rltb; nleb := Rleb; neqb := Reqb;
  npow := Rpow_j J; nln := Rln_j J; nexp := Rtrigo_def.exp; nsqrt := Rsqrt_j J;
  nerf := jerf J;
  ninf := jinf J;
  nisnan := fun _ => false;
  nofZ := IZR |}.

Lemma Rdiv_j_ok J x y : y <> 0%R -> Rdiv_j J x y = (x / y)%R.
Proof. intros H; unfold Rdiv_j; destruct (Reqb_spec y 0); [contradiction|reflexivity]. Qed.
Lemma Rln_j_ok J x : (0 < x)%R -> Rln_j J x = Rpower.ln x.
Proof. intros H; unfold Rln_j; destruct (Rltb_spec 0 x); [reflexivity|contradiction]. Qed.
Lemma Rpow_j_ok J x y : (0 < x)%R -> Rpow_j J x y = Rpower x y.
Proof. intros H; unfold Rpow_j; destruct (Rltb_spec 0 x); [reflexivity|contradiction]. Qed.
Lemma Rsqrt_j_ok J x : (0 <= x)%R -> Rsqrt_j J x = R_sqrt.sqrt x.
Proof. intros H; unfold Rsqrt_j; destruct (Rltb_spec x 0); [exfalso; apply (Rlt_not_le _ _ r H)|reflexivity]. Qed.

(* ------------------------------------------------------------------ *)
(* binary64 instance: arithmetic is the kernel's IEEE-754 primitives;
   pow/ln/exp/erf are supplied by FloatFun.v through F_ops_with. *)

Definition F_ops_with (fpow : float -> float -> float)
    (fln fexp ferf : float -> float) : NumOps float := {|
  nzero := PrimFloat.zero; none := PrimFloat.one;
  nadd := PrimFloat.add; nsub := PrimFloat.sub;
  nmul := PrimFloat.mul; ndiv := PrimFloat.div;
  nopp := PrimFloat.opp; nabs := PrimFloat.abs;
  nltb := PrimFloat.ltb; nleb := PrimFloat.leb; neqb := PrimFloat.eqb;
  npow := fpow; nln := fln; nexp := fexp; nsqrt := PrimFloat.sqrt;
  nerf := ferf;
  ninf := PrimFloat.infinity;
  nisnan := PrimFloat.is_nan;
  nofZ := fun z => match z with
                   | Z0 => PrimFloat.zero
                   | Zpos _ => PrimFloat.of_uint63 (Uint63.of_Z z)
                   | Zneg _ => PrimFloat.opp (PrimFloat.of_uint63 (Uint63.of_Z (Z.opp z)))
                   end |}.

(* Results of routines that can raise. *)
Inductive pyerr := ValueError | IndexError | TypeError | KeyError
                 | RuntimeError | ZeroDivisionError | OutOfFuel.
Inductive res (A : Type) := Ok (a : A) | Err (e : pyerr).
Arguments Ok {A} a. Arguments Err {A} e.
Definition rbind {A B} (r : res A) (f : A -> res B) : res B :=
  match r with Ok a => f a | Err e => Err e end.
Definition rmap {A B} (f : A -> B) (r : res A) : res B :=
  match r with Ok a => Ok (f a) | Err e => Err e end.
