Num.vo Num.glob Num.v.beautified Num.required_vo: Num.v 
Num.vio: Num.v 
Num.vos Num.vok Num.required_vos: Num.v 
FloatFun.vo FloatFun.glob FloatFun.v.beautified FloatFun.required_vo: FloatFun.v Num.vo
FloatFun.vio: FloatFun.v Num.vio
FloatFun.vos FloatFun.vok FloatFun.required_vos: FloatFun.v Num.vos
RFacts.vo RFacts.glob RFacts.v.beautified RFacts.required_vo: RFacts.v 
RFacts.vio: RFacts.v 
RFacts.vos RFacts.vok RFacts.required_vos: RFacts.v 
Model/Eject.vo Model/Eject.glob Model/Eject.v.beautified Model/Eject.required_vo: Model/Eject.v Num.vo
Model/Eject.vio: Model/Eject.v Num.vio
Model/Eject.vos Model/Eject.vok Model/Eject.required_vos: Model/Eject.v Num.vos
Proofs/EjectProofs.vo Proofs/EjectProofs.glob Proofs/EjectProofs.v.beautified Proofs/EjectProofs.required_vo: Proofs/EjectProofs.v Num.vo RFacts.vo Model/Eject.vo
Proofs/EjectProofs.vio: Proofs/EjectProofs.v Num.vio RFacts.vio Model/Eject.vio
Proofs/EjectProofs.vos Proofs/EjectProofs.vok Proofs/EjectProofs.required_vos: Proofs/EjectProofs.v Num.vos RFacts.vos Model/Eject.vos
Properties/C07.vo Properties/C07.glob Properties/C07.v.beautified Properties/C07.required_vo: Properties/C07.v Num.vo FloatFun.vo Model/Eject.vo Proofs/EjectProofs.vo
Properties/C07.vio: Properties/C07.v Num.vio FloatFun.vio Model/Eject.vio Proofs/EjectProofs.vio
Properties/C07.vos Properties/C07.vok Properties/C07.required_vos: Properties/C07.v Num.vos FloatFun.vos Model/Eject.vos Proofs/EjectProofs.vos
