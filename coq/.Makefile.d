Num.vo Num.glob Num.v.beautified Num.required_vo: Num.v 
Num.vio: Num.v 
Num.vos Num.vok Num.required_vos: Num.v 
FloatFun.vo FloatFun.glob FloatFun.v.beautified FloatFun.required_vo: FloatFun.v Num.vo
FloatFun.vio: FloatFun.v Num.vio
FloatFun.vos FloatFun.vok FloatFun.required_vos: FloatFun.v Num.vos
Model/Eject.vo Model/Eject.glob Model/Eject.v.beautified Model/Eject.required_vo: Model/Eject.v Num.vo
Model/Eject.vio: Model/Eject.v Num.vio
Model/Eject.vos Model/Eject.vok Model/Eject.required_vos: Model/Eject.v Num.vos
