(* Model/KroupaSpec.v -- hypotheses for the C20 theorems. *)
From Coq Require Import List Reals Sorted Arith.
Import ListNotations.
Local Open Scope R_scope.
(* at least two pieces, one more limit than exponents, limits positive and strictly increasing *)
Definition valid_kroupa (a mlim : list R) : Prop :=
  length mlim = S (length a) /\ (2 <= length a)%nat /\ StronglySorted Rlt mlim /\ Forall (fun x => 0 < x) mlim.
Definition sumR (l : list R) : R := fold_right Rplus 0 l.
