(* Model/Bins.v -- masses.MassBins: bin edges, remnant carving, lookup,
   turn-off truncation, packing.   Source: ssptools/masses.py:64-67, 396-572,
   661-855.  A set of bins is a list of (lower, upper) pairs. *)
From Coq Require Import List Bool ZArith Arith.
From SSP Require Import Num.
Import ListNotations.
Local Open Scope num_scope.

(* _divide_bin_sizes(N, Nsec): ext * [Neach + 1] + (Nsec - ext) * [Neach] *)
Definition divide_bin_sizes (N Nsec : nat) : list nat :=
  (repeat (S (N / Nsec)) (N mod Nsec) ++ repeat (N / Nsec) (Nsec - N mod Nsec))%nat.

Section Bins.
  Context {T : Type} {O : NumOps T}.
  Definition bins := list (T * T).
  Definition lowers (b : bins) : list T := map fst b.
  Definition uppers (b : bins) : list T := map snd b.
  Definition nofnat (n : nat) : T := nofZ (Z.of_nat n).

  (* ---- edges ------------------------------------------------------ *)
  Inductive spacing := Log | Lin.
  (* np.geomspace(a, b, n+1)[j] = a * (b/a)^(j/n), end points exact;
     np.linspace(a, b, n+1)[j]  = j * ((b - a)/n) + a, last point exact *)
  Definition seg_point (sp : spacing) (a b : T) (n j : nat) : T :=
    match sp with
    | Log => if (j =? 0)%nat then a else if (j =? n)%nat then b
             else a * (b / a) ** (nofnat j / nofnat n)
    | Lin => if (j =? n)%nat then b else nofnat j * ((b - a) / nofnat n) + a
    end.
  Definition seg_edges (sp : spacing) (a b : T) (n : nat) : list T :=
    map (seg_point sp a b n) (seq 0 (S n)).

  (* np.r_[tuple(space(m_break[i], m_break[i+1], n_i + 1)[(i > 0):] for i in range(len(counts)))] *)
  Fixpoint edges_from (sp : spacing) (breaks : list T) (counts : list nat) (first : bool)
    : res (list T) :=
    match counts with
    | [] => Ok []
    | n :: cs =>
        match breaks with
        | a :: ((b :: _) as rest) =>
            rbind (edges_from sp rest cs false) (fun tl_ =>
              Ok ((if first then seg_edges sp a b n else tl (seg_edges sp a b n)) ++ tl_))
        | _ => Err IndexError
        end
    end.
  Definition edges (sp : spacing) (breaks : list T) (counts : list nat) : res (list T) :=
    edges_from sp breaks counts true.

  (* mbin(bin_sides[:-1], bin_sides[1:]) *)
  Definition bins_of_edges (s : list T) : bins := combine (removelast s) (tl s).

  (* ---- remnant bins carved out of the stellar bins ----------------- *)
  Fixpoint set_last_upper (b : bins) (x : T) : bins :=
    match b with
    | [] => []
    | [(lo, _)] => [(lo, x)]
    | p :: r => p :: set_last_upper r x
    end.
  Definition set_first_lower (b : bins) (x : T) : bins :=
    match b with [] => [] | (_, up) :: r => (x, up) :: r end.

  (* WD_mask = bins_MS.lower <= WD_mf.upper; bins_WD.upper[-1] = WD_mf.upper *)
  (* (since /repo fix 8cb9ba6 an empty selection is left empty instead of raising IndexError) *)
  Definition carve_WD (ms : bins) (wd_up : T) : res bins :=
    match filter (fun p => fst p <=? wd_up) ms with
    | [] => Ok []
    | l => Ok (set_last_upper l wd_up)
    end.
  (* BH_mask = bins_MS.upper > BH_mf.lower; bins_BH.lower[0] = BH_mf.lower *)
  Definition carve_BH (ms : bins) (bh_lo : T) : res bins :=
    match filter (fun p => bh_lo <? snd p) ms with
    | [] => Ok []
    | l => Ok (set_first_lower l bh_lo)
    end.
  (* NS_mask = (bins_MS.lower <= 1.4) & (1.4 < bins_MS.upper); c14 is the literal 1.4
     (left-inclusive since /repo fix 46060d4; it used to be strict on both sides) *)
  Definition carve_NS (ms : bins) (c14 : T) : bins :=
    filter (fun p => (fst p <=? c14) && (c14 <? snd p)) ms.

  (* ---- remnant bins given directly (nbins is a dict) ----------------- *)
  (* WD: binfunc(max(m_break[0], WD_mf.lower), WD_mf.upper, n + 1); ValueError if upper <= lower
     BH: binfunc(BH_mf.lower, min(m_break[-1], BH_mf.upper), n + 1); ValueError if lower >= upper
     NS: one bin [NS_mass - 0.01, NS_mass + 0.01] (c001 is the literal 0.01) *)
  Definition dict_WD (sp : spacing) (m_first wd_lo wd_up : T) (n : nat) : res bins :=
    let bl := if wd_lo <? m_first then m_first else wd_lo in
    if wd_up <=? bl then Err ValueError else Ok (bins_of_edges (seg_edges sp bl wd_up n)).
  Definition dict_BH (sp : spacing) (m_last bh_lo bh_up : T) (n : nat) : res bins :=
    let bu := if m_last <? bh_up then m_last else bh_up in
    if bu <=? bh_lo then Err ValueError else Ok (bins_of_edges (seg_edges sp bh_lo bu n)).
  Definition dict_NS (ns c001 : T) : bins := [(ns + (- c001), ns + c001)].

  (* ---- lookup ------------------------------------------------------ *)
  (* ind = np.flatnonzero(massbins.lower <= mass)[-1] *)
  Fixpoint last_le (b : bins) (mass : T) (i : nat) (acc : option nat) : option nat :=
    match b with
    | [] => acc
    | (lo, _) :: r => last_le r mass (S i) (if lo <=? mass then Some i else acc)
    end.
  Definition last_upper (b : bins) : T := snd (last b (nzero, nzero)).
  Definition determine_index (mass : T) (b : bins) (allow_overflow : bool) : res nat :=
    match last_le b mass 0 None with
    | None => Err ValueError
    | Some ind =>
        if (Nat.leb (length b - 1) ind) then
          if (last_upper b <=? mass) && negb allow_overflow then Err ValueError else Ok ind
        else Ok ind
    end.

  (* ---- turn-off truncation ---------------------------------------- *)
  Fixpoint set_upper (b : bins) (i : nat) (x : T) : bins :=
    match b with
    | [] => []
    | (lo, up) :: r =>
        match i with
        | 0%nat => (lo, x) :: r
        | S k => (lo, up) :: set_upper r k x
        end
    end.
  Definition turned_off_bins (ms : bins) (mto : T) : bins :=
    match determine_index mto ms false with
    | Ok isev => set_upper ms isev mto
    | Err _ => ms
    end.

  (* ---- packing ----------------------------------------------------- *)
  Record layout := { nMS : nat; nWD : nat; nNS : nat; nBH : nat }.
  Definition ysize (L : layout) : nat :=
    (nMS L + nMS L + (nWD L + nNS L + nBH L) + (nWD L + nNS L + nBH L))%nat.
  (* np.cumsum([0, nMS, nMS, nWD, nNS, nBH, nWD, nNS, nBH]) *)
  Definition blueprint (L : layout) : list nat :=
    let s := [nMS L; nMS L; nWD L; nNS L; nBH L; nWD L; nNS L; nBH L] in
    fold_left (fun acc n => acc ++ [(last acc 0 + n)%nat]) s [0%nat].
  Record unpacked := { uNs : list T; uAlpha : list T;
                       uNwd : list T; uNns : list T; uNbh : list T;
                       uMwd : list T; uMns : list T; uMbh : list T }.
  Definition slice (y : list T) (i j : nat) : list T := firstn (j - i)%nat (skipn i y).
  Definition unpack (L : layout) (y : list T) : unpacked :=
    let bp := blueprint L in
    let s k := slice y (nth k bp 0%nat) (nth (S k) bp 0%nat) in
    {| uNs := s 0; uAlpha := s 1; uNwd := s 2; uNns := s 3; uNbh := s 4;
       uMwd := s 5; uMns := s 6; uMbh := s 7 |}.
  Definition sizes_ok (L : layout) (u : unpacked) : bool :=
    (length (uNs u) =? nMS L)%nat && (length (uAlpha u) =? nMS L)%nat &&
    (length (uNwd u) =? nWD L)%nat && (length (uNns u) =? nNS L)%nat && (length (uNbh u) =? nBH L)%nat &&
    (length (uMwd u) =? nWD L)%nat && (length (uMns u) =? nNS L)%nat && (length (uMbh u) =? nBH L)%nat.
  (* out[i:j] = inp for each component; numpy raises ValueError on a size
     mismatch (arrays of a different, non-unit size cannot be broadcast) *)
  Definition pack (L : layout) (u : unpacked) : res (list T) :=
    if sizes_ok L u then
      Ok (uNs u ++ uAlpha u ++ uNwd u ++ uNns u ++ uNbh u ++ uMwd u ++ uMns u ++ uMbh u)
    else Err ValueError.
End Bins.
