(* Model/EscSpec.v -- predicates used to STATE the C03 theorems. *)
From Coq Require Import List Reals.
From SSP Require Import Num Model.Pk Model.Esc.
Import ListNotations.
Local Open Scope R_scope.

(* star bins: non-negative counts, positive (truncated) edges lo < up, and none of
   the four moments below the Pk threshold (no NaN) *)
Definition stars_ok (J : Junk) (res : R) (stars : list (R * R * R * R)) : Prop :=
  Forall (fun q => let '(n, al, lo, up) := q in
            0 <= n /\ 0 < lo /\ lo < up /\
            Pk (O:=R_ops J) res al 1 lo up <> None /\
            Pk (O:=R_ops J) res al (three_halves (O:=R_ops J)) lo up <> None /\
            Pk (O:=R_ops J) res al (ntwo (O:=R_ops J)) lo up <> None /\
            Pk (O:=R_ops J) res al (five_halves (O:=R_ops J)) lo up <> None) stars.
(* remnant bins (N, M): non-negative, and no mass without objects *)
Definition rems_ok (rems : list (R * R)) : Prop :=
  Forall (fun p => 0 <= fst p /\ 0 <= snd p /\ (0 < snd p -> 0 < fst p)) rems.
(* sum of a list of possibly-NaN values (None = NaN) *)
Definition ototal (l : list (option R)) : option R :=
  fold_right (fun x acc => match x, acc with Some a, Some b => Some (a + b) | _, _ => None end) (Some 0) l.
Definition sumR (l : list R) : R := fold_right Rplus 0 l.
(* mean mass P2/P1 of a star bin as a real, and whether the bin is depletable *)
Definition ms_of (J : Junk) (res : R) (q : R * R * R * R) : R :=
  let '(n, al, lo, up) := q in
  Pk_raw (O:=R_ops J) al (ntwo (O:=R_ops J)) lo up / Pk_raw (O:=R_ops J) al 1 lo up.
