(* Model/IMF.v -- masses.PowerLawIMF: normalisation constants, evaluation with
   the three outside-range modes, binned evaluation, total mass, from_M0.
   Source: ssptools/masses.py:111-303.
   An IMF is given by slopes a (Nc of them) and breaks mb (Nc + 1). *)
From Coq Require Import List Bool ZArith.
From SSP Require Import Num Model.Pk.
Import ListNotations.
Local Open Scope num_scope.

Section IMF.
  Context {T : Type} {O : NumOps T}.
  Variable resolution : T.      (* np.finfo(float).resolution, threshold inside Pk *)

  (* F[j-1] = mb[j] ** (a[j] - a[j-1]),  j = 1 .. Nc-1 *)
  Fixpoint cont_factors (a mb : list T) : list T :=
    match a, mb with
    | a0 :: ((a1 :: _) as a'), _ :: ((m1 :: _) as mb') => m1 ** (a1 - a0) :: cont_factors a' mb'
    | _, _ => []
    end.
  (* P_i = Pk(a[i], 1, mb[i], mb[i+1]) *)
  Fixpoint seg_P (k : T) (a mb : list T) : list (option T) :=
    match a, mb with
    | a0 :: a', m0 :: ((m1 :: _) as mb') => Pk resolution a0 k m0 m1 :: seg_P k a' mb'
    | _, _ => []
    end.
  (* np.prod(list): left-to-right, 1.0 for the empty list *)
  Definition nprod (l : list T) : T := fold_left nmul l none.
  (* np.sum(list): left-to-right (fewer than 8 elements), 0.0 for the empty list *)
  Definition osum (l : list (option T)) : option T :=
    fold_left (fun acc x => match acc, x with Some s, Some v => Some (s + v) | _, _ => None end) l (Some nzero).

  (* A_N^{-1} = sum_i P(a_i) prod_{j=i+1}^{N} m_j^{a_j - a_{j-1}} *)
  Fixpoint norm_terms (P : list (option T)) (F : list T) : list (option T) :=
    match P with
    | [] => []
    | p :: P' => omul p (Some (nprod F)) :: norm_terms P' (tl F)
    end.
  Definition A_last (a mb : list T) : option T :=
    match osum (norm_terms (seg_P none a mb) (cont_factors a mb)) with
    | Some s => Some (s ** (- none))
    | None => None
    end.
  (* A_{i-1} = A_i * mb[i] ** (a[i] - a[i-1]), filled from the last one down *)
  Fixpoint A_scan (F : list T) (last_ : T) : list T :=
    match F with
    | [] => [last_]
    | f :: F' => let r := A_scan F' last_ in
                 match r with [] => [] | h :: _ => h * f :: r end
    end.
  Definition A_comps (a mb : list T) : option (list T) :=
    match A_last a mb with
    | Some l => Some (A_scan (cont_factors a mb) l)
    | None => None
    end.

  (* ---- evaluation N(m) -------------------------------------------- *)
  Inductive extmode := Extrapolate | Zeros | Raise.
  (* bounds for the i-th component (0-based) out of nc *)
  Definition in_comp (ext : extmode) (mb : list T) (nc i : nat) (lo up : T) : bool :=
    let mbi := nth i mb nzero in
    let mbi1 := nth (S i) mb nzero in
    match ext with
    | Extrapolate =>
        if (nc =? 1)%nat then true
        else if (i =? 0)%nat then up <=? mbi1
        else if (S i =? nc)%nat then mbi <=? up
        else (mbi <=? lo) && (up <=? mbi1)
    | _ => (mbi <=? lo) && (up <=? mbi1)
    end.
  (* np.select: index of the first matching component *)
  Fixpoint first_true (f : nat -> bool) (i n : nat) : option nat :=
    match n with
    | 0%nat => None
    | S n' => if f i then Some i else first_true f (S i) n'
    end.
  Definition select_comp (ext : extmode) (mb : list T) (nc : nat) (lo up : T) : option nat :=
    first_true (fun i => in_comp ext mb nc i lo up) 0 nc.

  (* self(mass, N): N * A_i * mass ** a_i of the selected component *)
  Definition imf_eval (ext : extmode) (a mb : list T) (A : list T) (N mass : T) : res T :=
    match select_comp ext mb (length a) mass mass with
    | Some i => Ok (N * (nth i A nzero * mass ** nth i a nzero))
    | None => match ext with Raise => Err ValueError | _ => Ok (N * nzero) end
    end.

  (* binned_eval(bins, N) for one bin: (N_bin, M_bin, alpha); None = NaN *)
  Definition binned_eval1 (ext : extmode) (a mb : list T) (A : list T) (N lo up : T)
    : res (option T * option T * T) :=
    match select_comp ext mb (length a) lo up with
    | Some i =>
        let Ai := N * nth i A nzero in
        let al := nth i a nzero in
        Ok (omul (Some Ai) (Pk resolution al none lo up),
            omul (Some Ai) (Pk resolution al ntwo lo up), al)
    | None =>
        match ext with
        | Raise => Err ValueError
        | _ => Ok (omul (Some (N * nzero)) (Pk resolution nzero none lo up),
                   omul (Some (N * nzero)) (Pk resolution nzero ntwo lo up), nzero)
        end
    end.

  (* total mass: sum_i N0 * A_i * Pk(a_i, 2, mb_i, mb_i+1)   (the code integrates
     m N(m) with scipy.integrate.quad; compared at 1e-7) *)
  Definition Mtot (a mb : list T) (A : list T) (N0 : T) : option T :=
    osum (map (fun pA => omul (Some (N0 * snd pA)) (fst pA)) (combine (seg_P ntwo a mb) A)).
  (* from_M0: N0 = M0 / (Mtot(N0 = 1) / 1) *)
  Definition from_M0_N0 (a mb : list T) (A : list T) (M0 : T) : option T :=
    match Mtot a mb A none with
    | Some mt => Some (M0 / (mt / none))
    | None => None
    end.
End IMF.
