(* Model/IMFSpec.v -- predicates and helper functions used to STATE the C11 theorems. *)
From Coq Require Import List Reals Sorted Arith.
From SSP Require Import Num Model.Pk.
Import ListNotations.
Local Open Scope R_scope.

(* Nc slopes, Nc + 1 strictly increasing positive breaks, Nc >= 1 *)
Definition valid_imf (a mb : list R) : Prop :=
  length mb = S (length a) /\ a <> [] /\ StronglySorted Rlt mb /\ Forall (fun x => 0 < x) mb.

Definition sumR (l : list R) : R := fold_right Rplus 0 l.

(* the raw k-th moment integral of each segment, Pk_raw a_i k mb_i mb_{i+1} *)
Fixpoint seg_raw (J : Junk) (k : R) (a mb : list R) : list R :=
  match a, mb with
  | a0 :: a', m0 :: ((m1 :: _) as mb') => Pk_raw (O:=R_ops J) a0 k m0 m1 :: seg_raw J k a' mb'
  | _, _ => []
  end.

(* sum_i A_i * x_i *)
Fixpoint dot (A x : list R) : R :=
  match A, x with
  | p :: A', q :: x' => p * q + dot A' x'
  | _, _ => 0
  end.
