(* Model/Dispatch.v -- EvolvedMF._derivs (ssptools/evolve_mf.py:503-520): the right-hand side handed
   to the solver is the sum of the stellar-evolution part (only if switched on) and the escape part
   (whenever the rate is callable, or a NEGATIVE constant - of any size).
     if self._stellar_ev: derivs_sev = self._derivs_sev(t, y) else: blanks
     if self._time_dep_esc or self.esc_rate < 0: derivs_esc = self._derivs_esc(t, y) else: zeros
     return derivs_sev + derivs_esc
   The two parts are inputs (they are Model/Sev.v and Model/Esc.v, tied separately). *)
From Coq Require Import List Bool.
From SSP Require Import Num.
Import ListNotations.
Local Open Scope num_scope.

Section Dispatch.
  Context {T : Type} {O : NumOps T}.
  Definition vzero (n : nat) : list T := repeat nzero n.
  Fixpoint vplus (x y : list T) : list T :=
    match x, y with a :: x', b :: y' => (a + b) :: vplus x' y' | _, _ => [] end.
  Definition escape_active (time_dep : bool) (rate : T) : bool := time_dep || (rate <? nzero).
  Definition derivs (stellar_ev time_dep : bool) (rate : T) (sev esc : list T) : list T :=
    vplus (if stellar_ev then sev else vzero (length sev))
          (if escape_active time_dep rate then esc else vzero (length sev)).
End Dispatch.
