(* Model/ArgStore.v -- argument objects and constructor calls as transitions on a
   store of mutable objects (C16).  Source: ssptools/ifmr.py:522-546, 569-576.
   An option dictionary is a list of (key, value); handles are natural numbers.
   IFMR.__init__ does  kw.setdefault('FeH', FeH)  and then reads kw['FeH'].
   Since /repo fix cc856a2 this happens on a COPY of the caller's dictionary;
   [on_copy = false] is the code before the fix. *)
From Coq Require Import List Bool ZArith String.
Import ListNotations.
Local Open Scope Z_scope.

Definition dictv := list (string * Z).
Definition store := list (nat * dictv).

Fixpoint dget (d : dictv) (k : string) : option Z :=
  match d with [] => None | (k', v) :: r => if String.eqb k k' then Some v else dget r k end.
Definition setdefault (d : dictv) (k : string) (v : Z) : dictv :=
  match dget d k with Some _ => d | None => d ++ [(k, v)] end.
Fixpoint sget (s : store) (h : nat) : option dictv :=
  match s with [] => None | (h', d) :: r => if Nat.eqb h h' then Some d else sget r h end.
Fixpoint sset (s : store) (h : nat) (d : dictv) : store :=
  match s with
  | [] => []
  | (h', d') :: r => if Nat.eqb h h' then (h', d) :: r else (h', d') :: sset r h d
  end.

(* one constructor call: IFMR(FeH, BH_kwargs = <handle or None>).  The result is
   abstracted to the metallicity the BH predictor is actually built with. *)
Record call := { c_feh : Z; c_kwargs : option nat }.
Definition ifmr_call (on_copy : bool) (s : store) (c : call) : store * Z :=
  match c_kwargs c with
  | None => (s, c_feh c)
  | Some h =>
      match sget s h with
      | None => (s, c_feh c)
      | Some d =>
          let d' := setdefault d "FeH" (c_feh c) in
          let used := match dget d' "FeH" with Some v => v | None => c_feh c end in
          (if on_copy then s else sset s h d', used)
      end
  end.
Fixpoint run_history (on_copy : bool) (s : store) (cs : list call) : store * list Z :=
  match cs with
  | [] => (s, [])
  | c :: r => let '(s1, v) := ifmr_call on_copy s c in
              let '(s2, vs) := run_history on_copy s1 r in (s2, v :: vs)
  end.
