(* Model/Esc.v -- EvolvedMF._derivs_esc (ssptools/evolve_mf.py:584-693):
   the escape part of the ODE right-hand side, both branches (before / after
   core collapse) and both normalisations.  NaN = None. *)
From Coq Require Import List Bool ZArith.
From SSP Require Import Num Model.Pk Model.Bins.
Import ListNotations.
Local Open Scope num_scope.

Section Esc.
  Context {T : Type} {O : NumOps T}.

  Definition oadd (x y : option T) : option T :=
    match x, y with Some a, Some b => Some (a + b) | _, _ => None end.
  Definition osub (x y : option T) : option T :=
    match x, y with Some a, Some b => Some (a - b) | _, _ => None end.
  Definition osumo (l : list (option T)) : option T := fold_right oadd (Some nzero) l.
  Definition is_some {A} (x : option A) : bool := match x with Some _ => true | None => false end.

  Inductive norm := NormN | NormM.

  (* per star bin: the four moments on the turn-off-truncated edges *)
  Record starbin := { sb_N : T; sb_lo : T; sb_up : T;
                      sb_p1 : option T; sb_p15 : option T; sb_p2 : option T; sb_p25 : option T }.
  Definition three_halves : T := (none + ntwo) / ntwo.
  Definition five_halves : T := (ntwo + ntwo + none) / ntwo.
  Definition mk_starbin (res : T) (N alpha lo up : T) : starbin :=
    {| sb_N := N; sb_lo := lo; sb_up := up;
       sb_p1 := Pk res alpha none lo up; sb_p15 := Pk res alpha three_halves lo up;
       sb_p2 := Pk res alpha ntwo lo up; sb_p25 := Pk res alpha five_halves lo up |}.
  Definition sb_ms (b : starbin) : option T := odiv (sb_p2 b) (sb_p1 b).        (* ms = P2 / P1 *)
  Definition sb_Ms (b : starbin) : option T := omul (Some (sb_N b)) (sb_ms b).  (* Ms = Ns * ms *)
  Definition sb_finite (b : starbin) : bool := is_some (sb_p1 b).               (* ~isnan(P1) *)
  Definition sb_depl (md : T) (b : starbin) : bool :=                           (* (ms < md) & finite *)
    match sb_ms b with Some m => (m <? md) && sb_finite b | None => false end.
  (* Is = Ns * (1 - md ** (-0.5) * (P15 / P1)) ;  Js = Ms * (1 - md ** (-0.5) * (P25 / P2)) *)
  Definition sb_Is (md : T) (b : starbin) : option T :=
    omul (Some (sb_N b)) (osub (Some none) (omul (Some (md ** (- nhalf))) (odiv (sb_p15 b) (sb_p1 b)))).
  Definition sb_Js (md : T) (b : starbin) : option T :=
    omul (sb_Ms b) (osub (Some none) (omul (Some (md ** (- nhalf))) (odiv (sb_p25 b) (sb_p2 b)))).

  (* per remnant bin (N, M): Ir / Jr, zero unless populated and lighter than md *)
  Definition rem_I (md : T) (p : T * T) : T :=
    let '(n, m) := p in
    if nzero <? n then (if (m / n) <? md then n * (none - nsqrt ((m / n) / md)) else nzero) else nzero.
  Definition rem_J (md : T) (p : T * T) : T :=
    let '(n, m) := p in
    if nzero <? n then (if (m / n) <? md then m * (none - nsqrt ((m / n) / md)) else nzero) else nzero.

  Record esc_out := { e_dNs : list (option T); e_dalpha : list (option T);
                      e_dNr : list (option T); e_dMr : list (option T) }.
      (* remnant entries are listed WD bins, then NS, then BH, as (N, M) pairs are given *)

  Definition sum_plain (l : list T) : T := fold_right nadd nzero l.

  Definition esc_field (res md rate tcc t : T) (nm : norm)
      (stars : list (T * T * T * T))        (* (Ns, alpha, lower, truncated upper) per star bin *)
      (rems : list (T * T))                 (* (Nr, Mr) per remnant bin, all classes *)
    : esc_out :=
    let sb := map (fun q => let '(n, al, lo, up) := q in mk_starbin res n al lo up) stars in
    let zero_s := map (fun _ => Some nzero) stars in
    if t <? tcc then
      (* not core collapsed: every bin loses the same fraction *)
      match nm with
      | NormM =>
          let M_sum := oadd (osumo (map sb_Ms (filter sb_finite sb))) (Some (sum_plain (map snd rems))) in
          {| e_dNs := map (fun b => odiv (Some (rate * sb_N b)) M_sum) sb;
             e_dalpha := zero_s;
             e_dNr := map (fun p => if nzero <? fst p then odiv (Some (rate * fst p)) M_sum else Some nzero) rems;
             e_dMr := map (fun p => if nzero <? fst p then odiv (Some (rate * snd p)) M_sum else Some nzero) rems |}
      | NormN =>
          let N_sum := sum_plain (map sb_N sb) + sum_plain (map fst rems) in
          {| e_dNs := map (fun b => Some (rate * sb_N b / N_sum)) sb;
             e_dalpha := zero_s;
             e_dNr := map (fun p => if nzero <? fst p then Some (rate * fst p / N_sum) else Some nzero) rems;
             e_dMr := map (fun p => if nzero <? fst p
                                    then Some ((snd p / fst p) * rate * fst p / N_sum) else Some nzero) rems |}
      end
    else
      let depl := filter (sb_depl md) sb in
      let sumIr := sum_plain (map (rem_I md) rems) in
      let sumJr := sum_plain (map (rem_J md) rems) in
      let B : option T :=
        match nm with
        | NormM => odiv (Some rate) (oadd (osumo (map (sb_Js md) depl)) (Some sumJr))
        | NormN => odiv (Some rate) (oadd (osumo (map (sb_Is md) depl)) (Some sumIr))
        end in
      {| e_dNs := map (fun b => if sb_depl md b then omul B (sb_Is md b) else Some nzero) sb;
         e_dalpha := map (fun b => if sb_depl md b then
                            odiv (omul B (Some ((sb_lo b / md) ** nhalf - (sb_up b / md) ** nhalf)))
                                 (Some (nln (sb_up b / sb_lo b)))
                          else Some nzero) sb;
         e_dNr := map (fun p => if nzero <? fst p then omul B (Some (rem_I md p)) else Some nzero) rems;
         e_dMr := map (fun p => if nzero <? fst p then omul B (Some (rem_J md p)) else Some nzero) rems |}.
End Esc.
