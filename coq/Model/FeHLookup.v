(* Model/FeHLookup.v -- metallicity snapping.
   Source: ssptools/ifmr.py _check_IFMR_FeH_bounds (180-198), the file-name
   format f"IFMR_FEH{FeH:+.2f}.dat" (215, 244, 322, 351; kicks.py:92).
   A Python float is an exact rational; the model works on Q (plus the sign
   bit, which decides between "+0.00" and "-0.00" for zero). A table name is
   (negative?, hundredths). *)
From Coq Require Import ZArith QArith List Bool.
Import ListNotations.
Local Open Scope Z_scope.

(* round-half-even of the non-negative rational n/d (d > 0) *)
Definition rhe (n d : Z) : Z :=
  let q := n / d in let r := n mod d in
  if 2 * r <? d then q else if d <? 2 * r then q + 1 else if Z.even q then q else q + 1.

(* f"{x:+.2f}": sign character from the sign of x (sign bit for zeros),
   digits = round-half-even of |x| * 100 *)
Definition fmt2 (negzero : bool) (x : Q) : bool * Z :=
  let n := Qnum x in let d := Zpos (Qden x) in
  let neg := if n =? 0 then negzero else n <? 0 in
  (neg, rhe (100 * Z.abs n) d).

(* if FeH < min(grid): min ; elif FeH > max(grid): max ; else FeH.
   Returning a grid end replaces the sign bit by that end's (never zero in the
   packaged grids; [lo_negzero]/[hi_negzero] keep the model total). *)
Definition clampQ (lo hi : Q) (x : Q) : Q :=
  if Qlt_le_dec x lo then lo else if Qlt_le_dec hi x then hi else x.

Definition table_of (lo hi : Q) (negzero : bool) (x : Q) : bool * Z :=
  fmt2 negzero (clampQ lo hi x).

(* the listing of a table directory as names; complete between lo_h and hi_h
   hundredths (signed), with both zeros present *)
Definition name_eqb (p q : bool * Z) : bool := Bool.eqb (fst p) (fst q) && (snd p =? snd q).
Definition has (l : list (bool * Z)) (p : bool * Z) : bool := existsb (name_eqb p) l.
Fixpoint range_ok (l : list (bool * Z)) (neg : bool) (k : nat) : bool :=
  (* names (neg, 0) ... (neg, k) all present *)
  match k with
  | O => has l (neg, 0)
  | S k' => has l (neg, Z.of_nat k) && range_ok l neg k'
  end.
Definition grid_complete (l : list (bool * Z)) (neg_h pos_h : nat) : bool :=
  range_ok l true neg_h && range_ok l false pos_h.
(* value of a name in hundredths *)
Definition name_val (p : bool * Z) : Z := if fst p then - snd p else snd p.
