(* Model/Gate.v -- "Check if any BH have been created" (evolve_mf.py, both _evolve loops):
       if ti > self.compute_tms(self.IFMR.BH_mi.upper):
   the BH block of an output row runs exactly when the age exceeds the lifetime of the heaviest
   BH progenitor of the IFMR. *)
From Coq Require Import Bool.
From SSP Require Import Num Model.Lifetime.
Local Open Scope num_scope.

Section Gate.
  Context {T : Type} {O : NumOps T}.
  Definition bh_gate (a0 a1 a2 bh_mi_upper t : T) : bool := tms a0 a1 a2 bh_mi_upper <? t.
End Gate.
