(* Model/Kroupa.v -- ssptools/Kroupa.py: piecewise power-law pdf x^(-a_i) on
   [mlim_i, mlim_{i+1}), its continuity constants, normalisation, moments,
   integral() and the single-piece sampler _getmass.  (After /repo fixes
   3b435a4, 4b3b663, 8c12907 of the logarithmic special cases.) *)
From Coq Require Import List Bool ZArith.
From SSP Require Import Num.
Import ListNotations.
Local Open Scope num_scope.

Section Kroupa.
  Context {T : Type} {O : NumOps T}.

  (* _mom0 / _mom1 *)
  Definition mom0 (xmin xmax a : T) : T :=
    if a =? none then nln xmax - nln xmin
    else (xmax ** (none - a) - xmin ** (none - a)) / (none - a).
  Definition mom1 (xmin xmax a : T) : T :=
    if a =? ntwo then nln xmax - nln xmin
    else (xmax ** (ntwo - a) - xmin ** (ntwo - a)) / (ntwo - a).

  (* continuity constants.  C[0] = (1/mlim[1])^(-a[0]); C[1] = (1/mlim[1])^(-a[1]);
     C[i] = (1/mlim[i])^(-a[i]) * prod_{j=1}^{i-1} (mlim[j+1]/mlim[j])^(-a[j])   (i >= 2) *)
  Fixpoint ratios (a mlim : list T) (n : nat) (j : nat) : list T :=
    (* [(mlim[j+1]/mlim[j])^(-a[j]) ; ... ] n factors starting at j *)
    match n with
    | 0%nat => []
    | S n' => (nth (S j) mlim nzero / nth j mlim nzero) ** (- nth j a nzero) :: ratios a mlim n' (S j)
    end.
  Definition Cconst (a mlim : list T) (i : nat) : T :=
    match i with
    | 0%nat => (none / nth 1 mlim nzero) ** (- nth 0 a nzero)
    | 1%nat => (none / nth 1 mlim nzero) ** (- nth 1 a nzero)
    | _ => fold_left nmul (ratios a mlim (i - 1) 1) ((none / nth i mlim nzero) ** (- nth i a nzero))
    end.
  Definition Cs (a mlim : list T) : list T := map (Cconst a mlim) (seq 0 (length a)).
  Definition areas (a mlim : list T) : list T :=
    map (fun i => mom0 (nth i mlim nzero) (nth (S i) mlim nzero) (nth i a nzero)) (seq 0 (length a)).
  Definition sumT (l : list T) : T := fold_left nadd l nzero.
  Definition knorm (a mlim : list T) : T :=
    none / sumT (map (fun p => fst p * snd p) (combine (areas a mlim) (Cs a mlim))).

  (* eval(X) for a scalar X: the piece with mlim[i] <= X < mlim[i+1]; None outside *)
  Fixpoint piece_of (mlim : list T) (x : T) (i : nat) : option nat :=
    match mlim with
    | lo :: ((hi :: _) as r) => if (lo <=? x) && (x <? hi) then Some i else piece_of r x (S i)
    | _ => None
    end.
  Definition keval (a mlim : list T) (N0 x : T) : option T :=
    match piece_of mlim x 0 with
    | Some i => if (i <? length a)%nat
                then Some (N0 * knorm a mlim * Cconst a mlim i * x ** (- nth i a nzero)) else None
    | None => None
    end.

  (* integral(xmin, xmax) inside ONE piece i (imin == imax == i) and the general sum *)
  Definition kint_piece (a mlim : list T) (i : nat) (xmin xmax : T) : T * T :=
    (knorm a mlim * Cconst a mlim i * mom0 xmin xmax (nth i a nzero),
     knorm a mlim * Cconst a mlim i * mom1 xmin xmax (nth i a nzero)).
  (* imin = last i with xmin / mlim[i] >= 1 ; imax = len-1 if xmax == mlim[-1] else first i with xmax / mlim[i] < 1 *)
  Fixpoint last_ge1 (mlim : list T) (x : T) (i : nat) (acc : option nat) : option nat :=
    match mlim with
    | [] => acc
    | m :: r => last_ge1 r x (S i) (if none <=? x / m then Some i else acc)
    end.
  Fixpoint first_lt1 (mlim : list T) (x : T) (i : nat) : option nat :=
    match mlim with
    | [] => None
    | m :: r => if x / m <? none then Some i else first_lt1 r x (S i)
    end.
  Definition kintegral (a mlim : list T) (xmin xmax : T) : res (T * T) :=
    if xmin <? nth 0 mlim nzero then Err ValueError
    else if last mlim nzero <? xmax then Err ValueError
    else
      match last_ge1 mlim xmin 0 None with
      | None => Err IndexError
      | Some imin =>
          match (if xmax =? last mlim nzero then Some (length mlim - 1)%nat else first_lt1 mlim xmax 0) with
          | None => Err IndexError
          | Some imax =>
              if (imin =? imax)%nat then
                (if (imin <? length a)%nat then Ok (kint_piece a mlim imin xmin xmax) else Err IndexError)
              else
                Ok (fold_left (fun acc i =>
                       let XMIN := nmax (nth i mlim nzero) xmin in
                       let XMAX := nmin (nth (S i) mlim nzero) xmax in
                       let p := kint_piece a mlim i XMIN XMAX in
                       (fst acc + fst p, snd acc + snd p))
                     (seq imin (imax - imin)) (nzero, nzero))
          end
      end.

  (* _getmass(x, slope, xmin, xmax) for one uniform variate x *)
  Definition getmass (x slope xmin xmax : T) : T :=
    if slope =? none then xmin * (xmax / xmin) ** x
    else
      let A := (none / (none - slope)) * (xmax ** (none - slope) - xmin ** (none - slope)) in
      ((none - slope) * x * A + xmin ** (none - slope)) ** (none / (none - slope)).
End Kroupa.
