(* Model/Sev.v -- EvolvedMF._derivs_sev (ssptools/evolve_mf.py:521-582):
   the stellar-evolution part of the ODE right-hand side.

   The IFMR enters only through the pair (m_rem, cls) = (predict(mto),
   predict_type(mto)), which is an INPUT of the field here (C09 is about the
   IFMR itself).  NaN (a Pk below threshold) is modelled as None. *)
From Coq Require Import List Bool ZArith.
From SSP Require Import Num Model.Pk Model.Lifetime Model.Bins.
Import ListNotations.
Local Open Scope num_scope.

Inductive rcls := WD | NS | BH.

Section Sev.
  Context {T : Type} {O : NumOps T}.

  Record sev_cfg := {
    c_ms : bins (T:=T);            (* stellar bins (lower, upper) *)
    c_tms_u : list T;              (* lifetime of each upper edge *)
    c_a0 : T; c_a1 : T; c_a2 : T;  (* lifetime coefficients *)
    c_Nmin : T; c_res : T;         (* 0.1 ; Pk threshold *)
    c_wd : bins (T:=T); c_ns : bins (T:=T); c_bh : bins (T:=T);
    c_fwd : T; c_fns : T; c_fbh : T  (* retention fractions per class *)
  }.
  Definition cls_bins (c : sev_cfg) (k : rcls) : bins :=
    match k with WD => c_wd c | NS => c_ns c | BH => c_bh c end.
  Definition cls_frem (c : sev_cfg) (k : rcls) : T :=
    match k with WD => c_fwd c | NS => c_fns c | BH => c_fbh c end.

  (* np.where(t > tms_u)[0][0] *)
  Fixpoint first_gt (t : T) (l : list T) (i : nat) : option nat :=
    match l with
    | [] => None
    | x :: r => if x <? t then Some i else first_gt t r (S i)
    end.

  Record sev_out := {
    so_isev : nat;                      (* the only star bin that changes *)
    so_dNdt : option T;                 (* dNs[isev]  (None = NaN) *)
    so_dep : option (rcls * nat * option T * option T)
                                        (* (class, irem, dNr[irem], dMr[irem]) *)
  }.

  Definition oneg (x : option T) : option T := match x with Some v => Some (- v) | None => None end.

  (* None = no evolution at this time (t <= tms_u[-1]) *)
  Definition sev_field (c : sev_cfg) (t : T) (Ns alpha : list T) (m_rem : T) (cls : rcls)
    : res (option sev_out) :=
    if last (c_tms_u c) nzero <? t then
      match first_gt t (c_tms_u c) 0 with
      | None => Err IndexError
      | Some isev =>
          let m1 := fst (nth isev (c_ms c) (nzero, nzero)) in
          let mto_ := mto (c_a0 c) (c_a1 c) (c_a2 c) t in
          let Nj := nth isev Ns nzero in
          let alphaj := nth isev alpha nzero in
          let dNdm : option T :=
            if (m1 <? mto_) && (c_Nmin c <? Nj) then
              omul (odiv (Some Nj) (Pk (c_res c) alphaj none m1 mto_)) (Some (mto_ ** alphaj))
            else Some nzero in
          let dmdt_ := dmdt (c_a0 c) (c_a1 c) (c_a2 c) t in
          let dNdt := omul (oneg dNdm) (Some dmdt_) in
          if nzero <? m_rem then
            match determine_index m_rem (cls_bins c cls) false with
            | Err e => Err e
            | Ok irem =>
                let frem := cls_frem c cls in
                Ok (Some {| so_isev := isev; so_dNdt := dNdt;
                            so_dep := Some (cls, irem,
                                            omul (oneg dNdt) (Some frem),
                                            omul (omul (Some (- m_rem)) dNdt) (Some frem)) |})
            end
          else Ok (Some {| so_isev := isev; so_dNdt := dNdt; so_dep := None |})
      end
    else Ok None.

  (* the packed derivative as eight arrays (zeros except the entries above) *)
  Definition zeros_like {A} (l : list A) : list (option T) := map (fun _ => Some nzero) l.
  Fixpoint set_nth {A} (l : list A) (i : nat) (x : A) : list A :=
    match l with
    | [] => []
    | h :: r => match i with 0%nat => x :: r | S k => h :: set_nth r k x end
    end.
  Record sev_arrays := { d_Ns : list (option T); d_alpha : list (option T);
                         d_Nwd : list (option T); d_Nns : list (option T); d_Nbh : list (option T);
                         d_Mwd : list (option T); d_Mns : list (option T); d_Mbh : list (option T) }.
  Definition sev_expand (c : sev_cfg) (o : option sev_out) : sev_arrays :=
    let z := zeros_like (c_ms c) in
    let zw := zeros_like (c_wd c) in let zn := zeros_like (c_ns c) in let zb := zeros_like (c_bh c) in
    match o with
    | None => {| d_Ns := z; d_alpha := z; d_Nwd := zw; d_Nns := zn; d_Nbh := zb;
                 d_Mwd := zw; d_Mns := zn; d_Mbh := zb |}
    | Some s =>
        let dNs := set_nth z (so_isev s) (so_dNdt s) in
        match so_dep s with
        | None => {| d_Ns := dNs; d_alpha := z; d_Nwd := zw; d_Nns := zn; d_Nbh := zb;
                     d_Mwd := zw; d_Mns := zn; d_Mbh := zb |}
        | Some (k, i, dn, dm) =>
            {| d_Ns := dNs; d_alpha := z;
               d_Nwd := match k with WD => set_nth zw i dn | _ => zw end;
               d_Nns := match k with NS => set_nth zn i dn | _ => zn end;
               d_Nbh := match k with BH => set_nth zb i dn | _ => zb end;
               d_Mwd := match k with WD => set_nth zw i dm | _ => zw end;
               d_Mns := match k with NS => set_nth zn i dm | _ => zn end;
               d_Mbh := match k with BH => set_nth zb i dm | _ => zb end |}
        end
    end.
End Sev.
