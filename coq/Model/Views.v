(* Model/Views.v -- the filtered summary views of EvolvedMF (evolve_mf.py:228-283):
   M, N, m, types, nms, nmr built from the LAST output row with the mask
   N > 10 * Nmin (a NaN count compares false and is left out). *)
From Coq Require Import List Bool ZArith.
From SSP Require Import Num Model.Sev.
Import ListNotations.
Local Open Scope num_scope.

Section Views.
  Context {T : Type} {O : NumOps T}.
  Inductive otype := TMS | TRem (k : rcls).

  (* X[N > thr] *)
  Definition sel {A} (thr : T) (N : list T) (X : list A) : list A :=
    map snd (filter (fun p => thr <? fst p) (combine N X)).
  (* np.r_[Ms[cs], Mr[cr]] etc.; Nr / Mr are the remnant rows concatenated WD, NS, BH *)
  Definition view_M (thr : T) (Ns Ms Nr Mr : list T) : list T := sel thr Ns Ms ++ sel thr Nr Mr.
  Definition view_N (thr : T) (Ns Nr : list T) : list T := sel thr Ns Ns ++ sel thr Nr Nr.
  Definition view_m (thr : T) (Ns Ms Nr Mr : list T) : list T :=
    map (fun p => fst p / snd p) (combine (view_M thr Ns Ms Nr Mr) (view_N thr Ns Nr)).
  Definition view_types (thr : T) (Ns Nr : list T) (rem_types : list rcls) : list otype :=
    map (fun _ => TMS) (sel thr Ns Ns) ++ map TRem (sel thr Nr rem_types).
  Definition nms (thr : T) (Ns : list T) : nat := length (sel thr Ns Ns).
  Definition nmr (thr : T) (Nr : list T) : nat := length (sel thr Nr Nr).
End Views.
