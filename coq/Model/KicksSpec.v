(* Model/KicksSpec.v -- the facts about erf that the C15 theorems assume (erf is
   scipy.special.erf in the code and is not defined in Coq's standard library;
   it is the `jerf` field of the Junk record). *)
From Coq Require Import Reals.
From Coquelicot Require Import Coquelicot.
From SSP Require Import Num.
Local Open Scope R_scope.
Definition erf_facts (J : Junk) : Prop :=
  jerf J 0 = 0 /\ (forall x, is_derive (jerf J) x (2 / sqrt PI * exp (- (x * x)))) /\ (forall x, jerf J x <= 1).
