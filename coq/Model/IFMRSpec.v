(* Model/IFMRSpec.v -- predicates used to STATE the C09 theorems, and the integer
   form of a BH table (progenitor mass in tenths, remnant mass in 1e-5) whose
   checks the kernel evaluates on the regenerated data. *)
From Coq Require Import ZArith List Bool Reals.
Import ListNotations.

(* knots (x_i, y_i): x strictly increasing; every y positive, at least lo, at most x *)
Definition knots_ok (lo : R) (k : list (R * R)) : Prop :=
  (forall i, (S i < length k)%nat -> (fst (nth i k (0, 0)) < fst (nth (S i) k (0, 0)))%R) /\
  Forall (fun p => (0 < snd p /\ lo <= snd p /\ snd p <= fst p)%R) k.

Local Open Scope Z_scope.
(* rows (mi in tenths of Msun, mf in 1e-5 Msun) *)
Fixpoint incrZ (rows : list (Z * Z)) : bool :=
  match rows with
  | a :: ((b :: _) as r) => (fst a <? fst b) && incrZ r
  | _ => true
  end.
Definition table_okZ (rows : list (Z * Z)) : bool :=
  incrZ rows && forallb (fun p => (0 <? snd p) && (snd p <=? fst p * 10000)) rows.
Definition minfZ (rows : list (Z * Z)) : Z :=
  match rows with [] => 0 | p :: r => fold_left (fun m q => Z.min m (snd q)) r (snd p) end.
Definition knotsR (rows : list (Z * Z)) : list (R * R) :=
  map (fun p => (IZR (fst p) / 10, IZR (snd p) / 100000)%R) rows.
