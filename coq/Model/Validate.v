(* Model/Validate.v -- argument validation at construction (order of the checks
   as in the source) and the convergence flag (C17).
   Sources: evolve_mf.py:307-312 (escape), 324-326 -> ifmr.py:557-558, 581-582,
   597-601, 60-71 (IFMR), 343 -> masses.py:456-458 (binning), 376-394 (kicks),
   984-990 (f_BH), masses.py:138-147 (IMF breaks); 905-908 (flag).
   scipy's ode keeps `success` false once any integrate call failed (it is only
   reset by set_initial_value): `successful()` after the loop is the conjunction
   of all segments. *)
From Coq Require Import List Bool ZArith.
From SSP Require Import Num.
Import ListNotations.
Local Open Scope num_scope.

Section Validate.
  Context {T : Type} {O : NumOps T}.

  Inductive site := SEscRate | SEscNorm | SIFMRBH | SIFMRWD | SIFMRRange | SAnalytic | SBinning | SKick
                  | SFbhSize | SFbhNeg | SIMFSize | SIMFOrder.
  Record request := {
    r_esc_callable : bool; r_esc_rate : T; r_esc_norm_known : bool;
    r_bh_method_known : bool; r_wd_method_known : bool;
    r_analytic_ok : bool;            (* end-point validation of an analytic prescription passed *)
    r_wd_mi_up : T; r_bh_mi_lo : T;  (* progenitor ranges produced by the chosen IFMR methods *)
    r_binning_known : bool; r_kick_known : bool }.

  (* EvolvedMF.__init__ up to the evolution *)
  Definition validate_emf (r : request) : res unit :=
    if negb (r_esc_callable r) && (nzero <? r_esc_rate r) then Err ValueError      (* 'esc_rate' must be less than 0 *)
    else if negb (r_esc_norm_known r) then Err ValueError
    else if negb (r_bh_method_known r) then Err ValueError                         (* IFMR: BH method first *)
    else if negb (r_analytic_ok r) then Err ValueError
    else if negb (r_wd_method_known r) then Err ValueError
    else if r_bh_mi_lo r <? r_wd_mi_up r then Err ValueError                        (* WD upper bound above BH lower bound *)
    else if negb (r_binning_known r) then Err ValueError
    else if negb (r_kick_known r) then Err ValueError
    else Ok tt.

  (* EvolvedMFWithBH.__init__: f_BH checks come before everything else *)
  Definition validate_fbh (n_fbh n_tout : nat) (fbh : list T) (r : request) : res unit :=
    if negb (n_fbh =? n_tout)%nat then Err ValueError
    else if existsb (fun f => f <? nzero) fbh then Err ValueError
    else validate_emf r.

  (* PowerLawIMF.__init__ *)
  Fixpoint increasing (l : list T) : bool :=
    match l with a :: ((b :: _) as r) => (a <? b) && increasing r | _ => true end.
  Definition validate_imf (mb a : list T) : res unit :=
    if negb (length mb =? S (length a))%nat then Err ValueError
    else if (length mb <? 2)%nat then Err ValueError
    else if negb (increasing mb) then Err ValueError
    else Ok tt.
End Validate.

(* ---- convergence flag -------------------------------------------------- *)
(* one entry per sol.integrate(ti) call: did that call succeed, and the solver
   time it stopped at *)
Definition converged (segments : list bool) : bool := forallb (fun b => b) segments.
