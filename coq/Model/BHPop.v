(* Model/BHPop.v -- InitialBHPopulation.from_IMF: the nested, simplified derivative
   `_derivs_BHs` (ssptools/evolve_mf.py:1474-1536).  It is a hand-written copy
   of _derivs_sev that (a) uses the slope of the IMF's LAST segment for whatever
   bin is turning off, (b) retains every BH (frem = 1), (c) stops depositing
   after `final_age`, (d) raises RuntimeError if the remnant is not a BH, and
   (e) hard-codes the empty-bin threshold 0.1 (c01). *)
From Coq Require Import List Bool ZArith.
From SSP Require Import Num Model.Pk Model.Lifetime Model.Bins Model.Sev.
Import ListNotations.
Local Open Scope num_scope.

Section BHPop.
  Context {T : Type} {O : NumOps T}.

  Definition bh_field (c : sev_cfg) (c01 alast final_age t : T) (Ns : list T) (m_rem : T) (cls : rcls)
    : res (option sev_out) :=
    if last (c_tms_u c) nzero <? t then
      match first_gt t (c_tms_u c) 0 with
      | None => Err IndexError
      | Some isev =>
          let m1 := fst (nth isev (c_ms c) (nzero, nzero)) in
          let mto_ := mto (c_a0 c) (c_a1 c) (c_a2 c) t in
          let Nj := nth isev Ns nzero in
          let dNdm : option T :=
            if (m1 <? mto_) && (c01 <? Nj) then
              omul (odiv (Some Nj) (Pk (c_res c) alast none m1 mto_)) (Some (mto_ ** alast))
            else Some nzero in
          let dmdt_ := dmdt (c_a0 c) (c_a1 c) (c_a2 c) t in
          let dNdt := omul (oneg dNdm) (Some dmdt_) in
          if (t <=? final_age) && (nzero <? m_rem) then
            match cls with
            | BH =>
                match determine_index m_rem (c_bh c) false with
                | Err e => Err e
                | Ok irem =>
                    Ok (Some {| so_isev := isev; so_dNdt := dNdt;
                                so_dep := Some (BH, irem, omul (oneg dNdt) (Some none),
                                                omul (omul (Some (- m_rem)) dNdt) (Some none)) |})
                end
            | _ => Err RuntimeError
            end
          else Ok (Some {| so_isev := isev; so_dNdt := dNdt; so_dep := None |})
      end
    else Ok None.
End BHPop.
