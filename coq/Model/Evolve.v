(* Model/Evolve.v -- the row bookkeeping of EvolvedMF._evolve / EvolvedMFWithBH._evolve
   (ssptools/evolve_mf.py:363-368, 770-908, 1141-1282) over an abstract solver:

     self.t = np.sort(np.r_[tms_u[tms_u < max(tout)], tout])
     for ti in self.t:
         sol.integrate(ti)
         if ti in self.tout:
             iout = np.where(self.tout == ti)[0][0]
             row[iout] = extract(iout, ti, sol.y.copy())

   `flow a b y` is the solver taken from time a to time b (scipy's dopri5 is not
   modelled; the theorems assume the identity and semigroup laws of an exact
   flow, stated as hypotheses). Output buffers are allocated uninitialised
   (np.empty): a row that is never written is None. *)
From Coq Require Import List Bool ZArith.
From SSP Require Import Num.
Import ListNotations.
Local Open Scope num_scope.

Section Evolve.
  Context {T : Type} {O : NumOps T}.
  Variables state row : Type.
  Variable flow : T -> T -> state -> state.
  Variable extract : nat -> T -> state -> row.   (* row index (selects the per-row BH target), age, state copy *)

  (* np.sort *)
  Fixpoint insert_sorted (x : T) (l : list T) : list T :=
    match l with
    | [] => [x]
    | h :: r => if x <=? h then x :: l else h :: insert_sorted x r
    end.
  Definition sortT (l : list T) : list T := fold_right insert_sorted [] l.
  Definition maxT (l : list T) : T :=
    match l with [] => nzero | h :: r => fold_left (fun m x => if m <? x then x else m) r h end.
  Definition grid (tms_u tout : list T) : list T :=
    sortT (filter (fun x => x <? maxT tout) tms_u ++ tout).

  (* np.where(tout == ti)[0][0] *)
  Fixpoint first_eq (ti : T) (tout : list T) (i : nat) : option nat :=
    match tout with
    | [] => None
    | x :: r => if x =? ti then Some i else first_eq ti r (S i)
    end.
  Fixpoint set_row (rows : list (option row)) (i : nat) (v : row) : list (option row) :=
    match rows with
    | [] => []
    | h :: r => match i with 0%nat => Some v :: r | S k => h :: set_row r k v end
    end.

  Fixpoint run_grid (ts : list T) (tout : list T) (cur : T) (y : state) (rows : list (option row))
    : list (option row) * (T * state) :=
    match ts with
    | [] => (rows, (cur, y))
    | ti :: rest =>
        let y' := flow cur ti y in
        let rows' := match first_eq ti tout 0 with
                     | Some iout => set_row rows iout (extract iout ti y')
                     | None => rows
                     end in
        run_grid rest tout ti y' rows'
    end.

  Definition evolve_rows (tms_u tout : list T) (y0 : state) : list (option row) :=
    fst (run_grid (grid tms_u tout) tout nzero y0 (map (fun _ => None) tout)).
End Evolve.
