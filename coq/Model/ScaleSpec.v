(* Model/ScaleSpec.v -- scaling of states and outputs, used to STATE the C18 theorems. *)
From Coq Require Import List Reals.
From SSP Require Import Num Model.Sev.
Import ListNotations.
Local Open Scope R_scope.

Definition scale_bins (lam : R) (l : list (R * R)) : list (R * R) := map (fun p => (lam * fst p, lam * snd p)) l.
Definition oscale (lam : R) (x : option R) : option R := match x with Some v => Some (lam * v) | None => None end.
Definition scale_sev_out (lam : R) (s : sev_out (T:=R)) : sev_out (T:=R) :=
  {| so_isev := so_isev s; so_dNdt := oscale lam (so_dNdt s);
     so_dep := match so_dep s with
               | Some (k, i, dn, dm) => Some (k, i, oscale lam dn, oscale lam dm)
               | None => None
               end |}.
