(* Model/ScaleSpec.v -- scaling of states and outputs, used to STATE the C18 theorems. *)
From Coq Require Import List Reals.
From SSP Require Import Num Model.Sev.
Import ListNotations.
Local Open Scope R_scope.

Definition scale_bins (lam : R) (l : list (R * R)) : list (R * R) := map (fun p => (lam * fst p, lam * snd p)) l.
Definition oscale (lam : R) (x : option R) : option R := match x with Some v => Some (lam * v) | None => None end.
Definition scale_sev_out (lam : R) (s : sev_out (T:=R)) : sev_out (T:=R) :=
  {| so_isev := so_isev s; so_dNdt := oscale lam (so_dNdt s);
     so_dep := match so_dep s with
               | Some (k, i, dn, dm) => Some (k, i, oscale lam dn, oscale lam dm)
               | None => None
               end |}.

(* scaling of escape-field inputs and outputs *)
From SSP Require Import Model.Esc.
Definition scale_stars (lam : R) (stars : list (R * R * R * R)) : list (R * R * R * R) :=
  map (fun q => let '(n, al, lo, up) := q in (lam * n, al, lo, up)) stars.
Definition scale_esc (lam : R) (e : esc_out (T:=R)) : esc_out (T:=R) :=
  {| e_dNs := map (oscale lam) (e_dNs e); e_dalpha := e_dalpha e;
     e_dNr := map (oscale lam) (e_dNr e); e_dMr := map (oscale lam) (e_dMr e) |}.
