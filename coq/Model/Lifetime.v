(* Model/Lifetime.v -- main-sequence lifetime, turn-off mass and sweep speed.
   Source: ssptools/evolve_mf.py  compute_tms (462-465), compute_mto (467-477),
   the dmdt expression in _derivs_sev (556-559) and its copy in
   InitialBHPopulation.from_IMF._derivs_BHs (1510-1513); nearest-row choice
   (351-353, 1553-1556). *)
From Coq Require Import List Bool ZArith.
From SSP Require Import Num.
Import ListNotations.
Local Open Scope num_scope.

Section Lifetime.
  Context {T : Type} {O : NumOps T}.

  (* a[0] * exp(a[1] * mi ** a[2]) *)
  Definition tms (a0 a1 a2 m : T) : T := a0 * nexp (a1 * m ** a2).

  (* (log(t / a0) / a1) ** (1 / a2)   where t > a0, else inf *)
  Definition mto (a0 a1 a2 t : T) : T :=
    if a0 <? t then (nln (t / a0) / a1) ** (none / a2) else ninf.

  (* abs((1.0 / (a[1] * a[2] * t)) * (log(t / a[0]) / a[1]) ** (1 / a[2] - 1)) *)
  Definition dmdt (a0 a1 a2 t : T) : T :=
    nabs ((none / (a1 * a2 * t)) * (nln (t / a0) / a1) ** (none / a2 - none)).

  (* np.argmin(np.abs(grid - FeH)): index of the first minimum *)
  Fixpoint argmin_from (best : T) (bi i : nat) (l : list T) : nat :=
    match l with
    | [] => bi
    | x :: r => if x <? best then argmin_from x i (S i) r else argmin_from best bi (S i) r
    end.
  Definition argmin (l : list T) : nat :=
    match l with [] => 0 | x :: r => argmin_from x 0 1 r end.
  Definition nearest_row (grid : list T) (feh : T) : nat :=
    argmin (map (fun g => nabs (g - feh)) grid).
  (* the WD lookup computes |FeH - grid| instead (same values) *)
  Definition nearest_row_wd (grid : list T) (feh : T) : nat :=
    argmin (map (fun g => nabs (feh - g)) grid).
End Lifetime.
