(* Model/Pk.v -- the power-law moment integral masses.Pk and its array forms.
   Source: ssptools/masses.py:20-61.

     a = asarray(a, float)
     res = (m2 ** (a + k) - m1 ** (a + k)) / (a + k)
     where -a == k:  res = log(m2 / m1)
     res[res < finfo(float).resolution] = nan

   NaN is modelled as None (the float instance also maps a NaN intermediate
   result to None, which is what `res < resolution` being False leaves). *)
From Coq Require Import List Bool.
From SSP Require Import Num.
Import ListNotations.
Local Open Scope num_scope.

Section Pk.
  Context {T : Type} {O : NumOps T}.

  Definition Pk_gen (a k m1 m2 : T) : T := (m2 ** (a + k) - m1 ** (a + k)) / (a + k).
  Definition Pk_log (m1 m2 : T) : T := nln (m2 / m1).
  Definition Pk_raw (a k m1 m2 : T) : T :=
    if (- a) =? k then Pk_log m1 m2 else Pk_gen a k m1 m2.

  Definition Pk (resolution : T) (a k m1 m2 : T) : option T :=
    let r := Pk_raw a k m1 m2 in
    if nisnan r || (r <? resolution) then None else Some r.

  (* array form used by the package: `a`, `m1`, `m2` equal-length arrays, `k`
     scalar (binned_eval, _derivs_esc, _evolve); element-wise by construction,
     numpy raises on mismatched lengths (not modelled: lengths are equal at
     every call site; the tie checks them). *)
  Fixpoint Pk_arr (resolution k : T) (a m1 m2 : list T) : list (option T) :=
    match a, m1, m2 with
    | x :: a', y :: m1', z :: m2' => Pk resolution x k y z :: Pk_arr resolution k a' m1' m2'
    | _, _, _ => []
    end.

  (* option arithmetic mirroring NaN propagation through * and / *)
  Definition omul (x : option T) (y : option T) : option T :=
    match x, y with Some a, Some b => Some (a * b) | _, _ => None end.
  Definition odiv (x : option T) (y : option T) : option T :=
    match x, y with Some a, Some b => Some (a / b) | _, _ => None end.
End Pk.
