(* Model/SevSpec.v -- hypotheses under which the C02 theorems are stated. *)
From Coq Require Import List Reals Sorted Arith.
From SSP Require Import Num Model.Lifetime Model.Bins Model.BinsSpec Model.Sev.
Import ListNotations.
Local Open Scope R_scope.

(* a well-formed configuration: tiling stellar bins with positive edges,
   tms_u the lifetimes of the upper edges, physical lifetime coefficients,
   non-negative Nmin and a positive Pk threshold *)
Definition valid_cfg (J : Junk) (c : sev_cfg (T:=R)) : Prop :=
  tiling (c_ms c) /\ c_ms c <> [] /\ Forall (fun p => 0 < fst p) (c_ms c) /\
  c_tms_u c = map (fun p => tms (O:=R_ops J) (c_a0 c) (c_a1 c) (c_a2 c) (snd p)) (c_ms c) /\
  0 < c_a0 c /\ 0 < c_a1 c /\ c_a2 c < 0 /\ 0 <= c_Nmin c /\ 0 < c_res c.
