(* Model/Kicks.v -- ssptools/kicks.py: Maxwellian pdf / exact cdf, fallback
   fraction interpolation, sigmoid retention, the per-bin kick loop.
   The spline quadrature scipy applies to the pdf on a fixed 1 km/s grid is NOT
   modelled; `retention_exact` is the quantity it approximates (the integral of
   the pdf), and the tie measures the difference. *)
From Coq Require Import List Bool ZArith.
From SSP Require Import Num.
Import ListNotations.
Local Open Scope num_scope.

Section Kicks.
  Context {T : Type} {O : NumOps T}.
  Variable pi : T.

  (* norm = sqrt(2/pi); exponent = x**2 * exp((-1 * x**2) / (2 * a**2)); norm * exponent / a**3 *)
  Definition maxwell_pdf (x a : T) : T :=
    nsqrt (ntwo / pi) * (x ** ntwo * nexp ((- none * x ** ntwo) / (ntwo * a ** ntwo))) / a ** (ntwo + none).
  (* integral of the pdf from 0 to v *)
  Definition maxwell_cdf (v a : T) : T :=
    nerf (v / (a * nsqrt ntwo)) - nsqrt (ntwo / pi) * (v / a) * nexp (- (v * v) / (ntwo * (a * a))).
  (* fb >= 1 -> 1 ; else integral up to vesc of the Maxwellian with dispersion vdisp * (1 - fb) *)
  Definition retention_exact (fb vesc vdisp : T) : T :=
    if none <=? fb then none else maxwell_cdf vesc (vdisp * (none - fb)).
  (* erf(exp(slope * (m - scale))) *)
  Definition sigmoid (m slope scale : T) : T := nerf (nexp (slope * (m - scale))).

  (* scipy.interpolate.interp1d(x, y, kind="linear", bounds_error=False, fill_value=(lo, hi))
     on x already sorted (interp1d sorts its input; the sorted columns are regenerated data):
     idx = searchsorted(x, v) (left) clipped to [1, n-1]; slope = (y[idx] - y[idx-1]) / (x[idx] - x[idx-1]);
     y = slope * (v - x[idx-1]) + y[idx-1]; below x[0] -> lo, above x[-1] -> hi *)
  Fixpoint searchsorted_left (xs : list T) (v : T) (i : nat) : nat :=
    match xs with
    | [] => i
    | x :: r => if x <? v then searchsorted_left r v (S i) else i
    end.
  Definition interp1d (xs ys : list T) (lo hi v : T) : T :=
    if v <? nth 0 xs nzero then lo
    else if last xs nzero <? v then hi
    else
      let idx0 := searchsorted_left xs v 0 in
      let idx := Nat.min (Nat.max idx0 1) (length xs - 1) in
      let x0 := nth (idx - 1) xs nzero in let x1 := nth idx xs nzero in
      let y0 := nth (idx - 1) ys nzero in let y1 := nth idx ys nzero in
      ((y1 - y0) / (x1 - x0)) * (v - x0) + y0.

  (* _unbound_natal_kicks: rets[j] is f_ret(Mr[j]/Nr[j]) for the bins that are not skipped *)
  Fixpoint kicks_loop (c01 : T) (MN : list (T * T)) (rets : list T) (ej : T) : list (T * T) * T :=
    match MN with
    | [] => ([], ej)
    | (m, n) :: r =>
        if n <? c01 then
          let '(r', e) := kicks_loop c01 r (tl rets) ej in ((m, n) :: r', e)
        else
          let ret := hd none rets in
          let '(r', e) := kicks_loop c01 r (tl rets) (ej + m * (none - ret)) in
          ((m * ret, n * ret) :: r', e)
    end.
  Definition unbound_natal_kicks (c01 : T) (MN : list (T * T)) (rets : list T) : list (T * T) * T :=
    kicks_loop c01 MN rets nzero.
End Kicks.
