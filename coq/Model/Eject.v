(* Model/Eject.v -- dynamical BH ejection.
   Source: ssptools/evolve_mf.py
     EvolvedMF._dyn_eject_BH         (standard model, mass budget)
     EvolvedMFWithBH._dyn_eject_BH   (BH mass-fraction target)
     the post-processing block of EvolvedMF._evolve that decides the budget.
   Arrays are lists of (M_j, N_j) pairs; the loops run from the LAST bin
   downwards, so the recursion is over the reversed list.  Models only; no
   proofs in this file. *)
From Coq Require Import List Bool ZArith.
From SSP Require Import Num.
Import ListNotations.
Local Open Scope num_scope.

Section Eject.
  Context {T : Type} {O : NumOps T}.

  (* ---- EvolvedMF._dyn_eject_BH (M_eject given) --------------------- *)
  (* while M_eject >= 0: j -= 1; if j < 0: raise ValueError
       if Mr[j] < M_eject: M_eject -= Mr[j]; Mr[j] = Nr[j] = 0; continue
       else: if M_eject > 0: mr = Mr[j]/Nr[j]; Mr[j] -= M_eject; Nr[j] -= M_eject/mr
             break                      (the M_eject > 0 guard is /repo fix cd913a3) *)
  Fixpoint eject_rev (l : list (T * T)) (E : T) : res (list (T * T)) :=
    if nzero <=? E then
      match l with
      | [] => Err ValueError
      | (m, n) :: r =>
          if m <? E then rmap (cons (nzero, nzero)) (eject_rev r (E - m))
          else if nzero <? E then Ok ((m - E, n - E / (m / n)) :: r)
               else Ok l       (* nothing left to eject: bin untouched *)
      end
    else Ok l.

  Definition dyn_eject (MN : list (T * T)) (E : T) : res (list (T * T)) :=
    rmap (@rev _) (eject_rev (rev MN) E).

  (* ---- EvolvedMFWithBH._dyn_eject_BH -------------------------------- *)
  Definition mrem (dfbh Mb Mt : T) : T :=
    (Mt ** ntwo * dfbh) / ((Mt * (none + dfbh)) - Mb).

  (* State of the python loop: remaining reversed bins still to visit.  The
     python test `j >= 0` is made BEFORE the decrement, so with every bin
     consumed (j = 0) one more iteration runs at index -1, i.e. on the LAST
     bin of the array again; [orig_last] carries that bin's *current*
     contents (it has been emptied by then if the array has >= 1 bin).
     [fuel_wrap] = true while that extra iteration is still available. *)
  Fixpoint fbh_rev (l : list (T * T)) (MBH Mtot f : T) : list (T * T) * bool :=
    (* returns the new reversed list and whether the loop ran off the array
       with the while-condition still true (-> wrap iteration at index -1) *)
    if f <? MBH / Mtot then
      match l with
      | [] => ([], true)
      | (m, n) :: r =>
          if f <=? (MBH - m) / (Mtot - m) then
            let '(r', w) := fbh_rev r (MBH - m) (Mtot - m) f in
            ((nzero, nzero) :: r', w)
          else
            let mreq := mrem (MBH / Mtot - f) MBH Mtot in
            ((m - mreq, n - mreq / (m / n)) :: r, false)
      end
    else (l, false).

  (* total of the masses and total mass after k whole-bin removals are needed
     for the wrap iteration: recompute them from the result. *)
  Definition dyn_eject_fbh_nowrap (MN : list (T * T)) (MBH Mtot f : T)
    : list (T * T) * bool :=
    let '(l', w) := fbh_rev (rev MN) MBH Mtot f in (rev l', w).


  (* ---- the per-row block of EvolvedMFWithBH._evolve (lines 1210-1247) -- *)
  (* inputs: BH arrays AFTER optional natal kicks, total cluster mass and BH mass
     as numpy summed them, the row's target, strict mode *)
  Inductive fbh_out :=
  | FbhOk (l : list (T * T)) (warned : bool)
  | FbhErr.                      (* ValueError: target above the fraction formed *)
  Definition fbh_post (formed strict : bool) (MN : list (T * T)) (Mtot Mbhtot f : T) : fbh_out :=
    if negb formed then FbhOk MN false else
    let warn := (Mbhtot / Mtot) <? f in
    if warn && strict then FbhErr
    else FbhOk (fst (dyn_eject_fbh_nowrap MN Mbhtot Mtot f)) warn.

  (* ---- budget decision of EvolvedMF._evolve (lines 843-873) -------- *)
  (* inputs: the BH arrays, their sum as numpy computed it, ret_dyn, Nmin,
     natal-kick result (already-kicked arrays and kicked mass) if kicks on *)
  Inductive bh_post_out :=
  | PostOk (l : list (T * T))
  | PostErrKicks                (* "Natal kicks already removed ..." *)
  | PostErrEject.               (* ValueError from _dyn_eject_BH *)

  (* "If kicking basically all, skip ahead":
       0. <= M_ret / (Mr.BH[0] / Nr.BH[0]) < Nmin *)
  Definition shortcut (MN : list (T * T)) (Msum ret_dyn Nmin : T) : bool :=
    let M_eject := Msum * (none - ret_dyn) in
    let M_ret := Msum - M_eject in
    let '(m0, n0) := match MN with p :: _ => p | [] => (nzero, nzero) end in
    let q := M_ret / (m0 / n0) in
    (nzero <=? q) && (q <? Nmin).

  Definition bh_post (formed : bool) (MN : list (T * T)) (Msum ret_dyn Nmin : T)
      (kicked : option (list (T * T) * T)) : bh_post_out :=
    if negb formed then PostOk MN else
    let M_eject := Msum * (none - ret_dyn) in
    if shortcut MN Msum ret_dyn Nmin then
      PostOk (map (fun _ => (nzero, nzero)) MN)
    else
      let '(MN', M_eject') := match kicked with
                              | Some (l, k) => (l, M_eject - k)
                              | None => (MN, M_eject) end in
      if M_eject' <? nzero then PostErrKicks
      else match dyn_eject MN' M_eject' with
           | Ok l => PostOk l
           | Err _ => PostErrEject
           end.
End Eject.
