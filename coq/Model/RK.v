(* Model/RK.v -- explicit Runge-Kutta methods over R^n, for ANY tableau.
   scipy's dopri5 (Fortran) is an explicit RK method with an adaptive step
   controller; it is not modelled.  What is proved (Proofs/RKProofs.v) holds
   for every explicit tableau and every sequence of step sizes, hence for
   whatever steps the controller chooses. Vectors are functions nat -> R
   (only the first n components matter). *)
From Coq Require Import List Reals.
Import ListNotations.
Local Open Scope R_scope.

Definition vec := nat -> R.
Definition vadd (x y : vec) : vec := fun i => x i + y i.
Definition vscale (h : R) (x : vec) : vec := fun i => h * x i.
Definition lincomb (coef : list R) (ks : list vec) : vec :=
  fun i => fold_right (fun p acc => fst p * snd p i + acc) 0 (combine coef ks).

Record tableau := { tA : list (list R); tb : list R; tc : list R }.

(* stage j uses the previously computed stages with the j-th row of A *)
Fixpoint rk_stages (f : R -> vec -> vec) (t h : R) (y : vec)
    (A : list (list R)) (c : list R) (ks : list vec) : list vec :=
  match A, c with
  | arow :: A', ci :: c' =>
      rk_stages f t h y A' c' (ks ++ [f (t + ci * h) (vadd y (vscale h (lincomb arow ks)))])
  | _, _ => ks
  end.
Definition rk_step (f : R -> vec -> vec) (tab : tableau) (t h : R) (y : vec) : vec :=
  vadd y (vscale h (lincomb (tb tab) (rk_stages f t h y (tA tab) (tc tab) []))).
Fixpoint rk_run (f : R -> vec -> vec) (tab : tableau) (t : R) (y : vec) (hs : list R) : vec :=
  match hs with
  | [] => y
  | h :: r => rk_run f tab (t + h) (rk_step f tab t h y) r
  end.

(* a linear functional on the first n components *)
Fixpoint lin (w : vec) (n : nat) (y : vec) : R :=
  match n with 0%nat => 0 | S k => lin w k y + w k * y k end.

(* the quadrature the method applies to a scalar rate r over one step *)
Definition quad_step (tab : tableau) (r : R -> R) (t h : R) : R :=
  h * fold_right (fun p acc => fst p * r (t + snd p * h) + acc) 0 (combine (tb tab) (tc tab)).
Fixpoint quad_run (tab : tableau) (r : R -> R) (t : R) (hs : list R) : R :=
  match hs with
  | [] => 0
  | h :: rest => quad_step tab r t h + quad_run tab r (t + h) rest
  end.
Definition sumlist (l : list R) : R := fold_right Rplus 0 l.
Definition well_formed (tab : tableau) : Prop :=
  length (tA tab) = length (tb tab) /\ length (tc tab) = length (tb tab).
