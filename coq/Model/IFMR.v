(* Model/IFMR.v -- ssptools/ifmr.py: remnant type and mass prediction.
   WD: degree-10 polynomial (numpy Polynomial.__call__ = Horner on the
   coefficients in increasing order, identity domain/window map);
   BH: UnivariateSpline(k=1, s=0, ext=0) = piecewise-linear interpolation through
   the type-14 rows, linearly extrapolated beyond the end knots; NS: constant;
   analytic BH prescriptions (slope * m ** exponent + scale). *)
From Coq Require Import List Bool ZArith.
From SSP Require Import Num Model.Sev.
Import ListNotations.
Local Open Scope num_scope.

Section IFMR.
  Context {T : Type} {O : NumOps T}.

  (* polyval: c0 = c[-1]; for i in 2..len: c0 = c[-i] + c0 * x   (coefficients lowest order first) *)
  Definition horner (c : list T) (x : T) : T :=
    match rev c with
    | [] => nzero
    | top :: rest => fold_left (fun acc ci => ci + acc * x) rest top
    end.

  (* piecewise-linear interpolation through knots (x_i, y_i), x strictly increasing;
     beyond the ends the first / last segment is extended (ext=0) *)
  Fixpoint lin_interp (k : list (T * T)) (m : T) : T :=
    match k with
    | (x0, y0) :: (((x1, y1) :: rest) as tl_) =>
        match rest with
        | [] => y0 + (y1 - y0) / (x1 - x0) * (m - x0)
        | _ => if m <=? x1 then y0 + (y1 - y0) / (x1 - x0) * (m - x0) else lin_interp tl_ m
        end
    | [(x0, y0)] => y0
    | [] => nzero
    end.

  Record ifmr := {
    i_wd_coeffs : list T;      (* lowest order first (the file row reversed) *)
    i_wd_mi_up : T;            (* WD_mi.upper = m_max of the row *)
    i_bh_lo : T;               (* BH_mi.lower = first type-14 progenitor *)
    i_ns_mass : T;
    i_bh_knots : list (T * T)
  }.

  (* np.where(m >= BH_mi[0], 'BH', np.where((WD_mi[1] < m) & (m <= BH_mi[0]), 'NS', 'WD')) *)
  Definition predict_type (f : ifmr) (m : T) : rcls :=
    if i_bh_lo f <=? m then BH
    else if (i_wd_mi_up f <? m) && (m <=? i_bh_lo f) then NS else WD.
  Definition predict (f : ifmr) (m : T) : T :=
    if i_bh_lo f <=? m then lin_interp (i_bh_knots f) m
    else if (i_wd_mi_up f <? m) && (m <=? i_bh_lo f) then i_ns_mass f
    else horner (i_wd_coeffs f) m.

  (* analytic predictors: _line(mi, exponent, slope, scale) = slope * mi ** exponent + scale,
     validated at the end points: 0 < line(m_lower) <= m_lower and 0 < line(m_upper) <= m_upper *)
  Definition line (mi exponent slope scale : T) : T := slope * mi ** exponent + scale.
  Definition powerlaw_valid (exponent slope scale m_lower m_upper : T) : res unit :=
    let l := line m_lower exponent slope scale in
    let u := line m_upper exponent slope scale in
    if negb (((nzero <? l) && (l <=? m_lower)) && ((nzero <? u) && (u <=? m_upper))) then Err ValueError
    else if m_lower <? nzero then Err ValueError
    else if m_upper <? m_lower then Err ValueError
    else Ok tt.
End IFMR.
