(* Model/BinsSpec.v -- the predicates used to STATE the C13 theorems. *)
From Coq Require Import List Reals Sorted Arith.
Import ListNotations.
Local Open Scope R_scope.

(* valid request: k+1 strictly increasing positive breaks, k counts >= 1 *)
Definition valid_request (breaks : list R) (counts : list nat) : Prop :=
  length breaks = S (length counts) /\ counts <> [] /\
  Forall (fun n => (1 <= n)%nat) counts /\
  StronglySorted Rlt breaks /\ Forall (fun x => 0 < x) breaks.


(* a set of bins tiles its range: non-empty intervals, each upper edge the next lower edge *)
Definition tiling (b : list (R * R)) : Prop :=
  Forall (fun p => fst p < snd p) b /\
  (forall i, (S i < length b)%nat -> snd (nth i b (0, 0)) = fst (nth (S i) b (0, 0))).

