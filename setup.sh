#!/bin/sh
# Build the static Coq development (substrate, models, proofs, property files) from files on disk.
set -e
cd "$(dirname "$0")/coq"
coq_makefile -f _CoqProject -o Makefile >/dev/null
timeout 3000 make -j16
