#!/bin/sh
# Build the static Coq development (substrate, models, proofs, property files) from files on disk.
set -e
cd "$(dirname "$0")/coq"
./mkproject.sh
timeout 3000 make -j16
