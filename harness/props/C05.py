"""C05 -- mean masses lie inside their bins; remnant classes never mix.

Proved (Properties/C05.v + C03/C07/C08/C15): star mean in the truncated bin, the
deposit cone, radial escape, mean-preserving kicks and ejection, deposits only
into the predicted class.  Validated here (the solver is not modelled): full
constructions with escape on both sides of core collapse, kicks, partial
retention and BH targets; every populated bin's mean mass against its edges and
the turn-off mass; NS bins at exactly the NS mass; empty remnant bins at centre.
"""
import math

import numpy as np

import common as C
import fullrun as FR

STATIC = ["Model/Sev.vo"]
EXTRA_PROPS = ["C05b", "C05c"]


def run(chk):
    rng = chk.rng
    nrun = 24 if chk.tier == "quick" else 240
    cfgs = []
    for k in range(nrun):
        cfg = FR.gen_config(rng, cls="EvolvedMFWithBH" if k % 5 == 4 else "EvolvedMF", escape=(k % 3 != 0))
        cfg["tout"] = [t for t in cfg["tout"] if t > 0] or [9000.0]
        if "f_BH" in cfg:
            cfg["f_BH"] = cfg["f_BH"][:len(cfg["tout"])] + [0.0] * (len(cfg["tout"]) - len(cfg["f_BH"]))
        if k % 6 == 5 and cfg["cls"] == "EvolvedMF":
            cfg["stellar_evolution"] = False        # escape-only runs: the reported moments still use the turn-off-truncated bin of the requested age
        cfgs.append(cfg)
    # always present (whatever the random draws): the default layout with (a) full retention at two ages - the reference of the few-object
    # ejection stage below, (b) half of the BH mass ejected at ages inside and after the BH-formation epoch (bins populated early, empty later),
    # (c) fifty million stars at a young age (every bin above the turn-off must hold no more than the 0.1-object residue)
    base_ = dict(cls="EvolvedMF", m_breaks=[0.1, 0.5, 1.0, 100.0], a_slopes=[-0.5, -1.3, -2.5], nbins=[5, 5, 20], FeH=-1.0, N0=5e5, BH_IFMR_method="banerjee20",
                 NS_ret=0.1, BH_ret_int=1.0, BH_ret_dyn=1.0, binning_method="default", esc_rate=0.0)
    cfgs = [dict(base_, tout=[100.0, 12000.0]), dict(base_, tout=[4.0, 6.0, 100.0], BH_ret_dyn=0.5), dict(base_, tout=[50.0, 3000.0], N0=5e7)] + cfgs
    outs = FR.run_many(cfgs)
    # second stage: the same configurations at ages just after a stellar bin's lower edge turns off (the turn-off bin is then a thin
    # sliver that still holds stars): ages are lifetimes of lower_edge * (1 + delta), from the model's own lifetime row and bin edges
    import math
    extra = []
    for out in outs[: (10 if chk.tier == "quick" else 80)]:
        if "error" in out or not out["converged"]:
            continue
        a0, a1, a2 = out["tms"]
        lo = out["bins"][0][0]
        cand = [float(x) for x in lo if a0 * math.exp(a1 * x ** a2) < 14000]
        if not cand:
            continue
        c2 = {k_: v_ for k_, v_ in out["cfg"].items()}
        edges = rng.sample(cand, min(len(cand), 2))
        c2["tout"] = sorted(a0 * math.exp(a1 * (x * (1 + 10 ** rng.uniform(-5, -3.05))) ** a2) for x in edges)
        if "f_BH" in c2:
            c2["f_BH"] = [0.0] * len(c2["tout"])
        extra.append(c2)
    if extra:
        outs = outs + FR.run_many(extra)
        chk.count("runs at ages just after a bin edge turns off", len(extra))
    # third stage: dynamical ejection that leaves the partly emptied BH bin with only a few objects (1.3 - 3.5): the retained fraction is computed
    # from the same configuration's full-retention run (the ejection works on the extracted copy of each row, heaviest bin first)
    few = []
    for out in outs[: (12 if chk.tier == "quick" else 100)]:
        cfg = out["cfg"]
        if "error" in out or not out["converged"] or cfg["cls"] != "EvolvedMF" or cfg.get("natal_kicks"):
            continue
        Mb, Nb = out["Mr"][2][0], out["Nr"][2][0]
        if cfg.get("BH_ret_dyn", 1.0) != 1.0:
            continue          # only full-retention runs show the BHs as formed
        js = [j for j in range(len(Nb)) if Nb[j] > 4.5]
        if not js or Mb.sum() <= 0:
            continue
        j = rng.choice(js)
        x = rng.uniform(1.3, 3.5)
        keep = float(Mb[:j].sum() + x * Mb[j] / Nb[j])
        few.append(dict(cfg, BH_ret_dyn=keep / float(Mb.sum())))
    if few:
        outs = outs + FR.run_many(few)
        chk.count("runs whose dynamical ejection leaves the boundary BH bin with 1.3 - 3.5 objects", len(few))
    # fourth stage, fixed (nothing drawn from the generator, run after every stage that slices `outs`): the dynamical ejection asked to remove all, or all
    # but a few hundred-thousandths, of the BH mass - the "kicking basically all, skip ahead" shortcut of _evolve: numbers and masses empty together
    outs = outs + FR.run_many([dict(base_, tout=[100.0, 12000.0], BH_ret_dyn=0.0), dict(base_, tout=[30.0, 3000.0], BH_ret_dyn=1e-5),
                               dict(base_, tout=[12000.0], N0=2e3, BH_ret_dyn=0.01), dict(base_, tout=[500.0], BH_ret_dyn=0.0, esc_rate=-10.0)] + [
        {k_: v_ for k_, v_ in kf_["witness"].items() if k_ not in ("observed", "found_by")}      # the witness of each listed finding of this property is run every time
        for kf_ in C.load_known() if kf_["property"] == "C05" and kf_.get("status") == "open" and "m_breaks" in kf_.get("witness", {})])
    for out in outs:
        cfg = out["cfg"]
        if "error" in out:
            chk.count("constructions that raised (reported under C04)")
            continue
        if not out["converged"]:
            chk.count("non-converged runs (exempt)")
            continue
        chk.note_distinct(cfg)
        chk.count("runs")
        lo, up = out["bins"][0]
        for row, t in enumerate(cfg["tout"]):
            mto = FR.mto_of(out["tms"], t)
            Ns, ms = out["Ns"][row], out["ms"][row]
            for i in range(len(Ns)):
                if Ns[i] > 1:
                    if cfg.get("stellar_evolution") is False and lo[i] >= mto:
                        continue          # stars are not evolved: bins wholly above the turn-off stay populated and have no admissible range
                    chk.count("populated star bins")
                    hi = min(up[i], mto)
                    if not (lo[i] * (1 - 1e-9) <= ms[i] <= hi * (1 + 1e-9)):
                        al = float(out["alpha"][row][i])
                        chk.fail("each populated star bin's mean mass lies between its lower edge and the smaller of upper edge and turn-off mass",
                                 dict(cfg=cfg, row=row, age=t), dict(bin=i, ms=float(ms[i]), lower=float(lo[i]), upper=float(up[i]), mto=mto, N=float(Ns[i]),
                                                                    alpha=al, P1=pk_plain(al, 1, lo[i], hi), P2=pk_plain(al, 2, lo[i], hi)),
                                 moment_below_pk_abs_threshold=bool(math.isnan(ms[i]) and pk_under_threshold(al, lo[i], hi)))
                        break
            for c, cname in enumerate(("WD", "NS", "BH")):
                bl, bu = out["bins"][c + 1]
                Nr, Mr, mr = out["Nr"][c][row], out["Mr"][c][row], out["mr"][c][row]
                for i in range(len(Nr)):
                    if Nr[i] > 1:
                        chk.count("populated %s bins" % cname)
                        w = bu[i] - bl[i]
                        if cname == "NS":
                            if abs(mr[i] - out["bounds"]["NS"]) > 1e-9 * out["bounds"]["NS"]:
                                chk.fail("neutron-star bins hold exactly the NS mass", dict(cfg=cfg, row=row, age=t), dict(mr=float(mr[i])))
                        elif not (bl[i] - 1e-6 * w <= mr[i] <= bu[i] + 1e-6 * w):
                            chk.fail("each populated remnant bin's mean mass lies within that bin's own edges", dict(cfg=cfg, row=row, age=t),
                                     dict(cls=cname, bin=i, mr=float(mr[i]), lower=float(bl[i]), upper=float(bu[i]), N=float(Nr[i])))
                            break
                    elif not (Nr[i] > 0):
                        if abs(mr[i] - 0.5 * (bl[i] + bu[i])) > 1e-12 * bu[i]:
                            chk.fail("unpopulated remnant bins report their bin centre", dict(cfg=cfg, row=row, age=t), dict(cls=cname, bin=i, mr=float(mr[i])))
                            break
    chk.evaluations += len(outs)
    chk.samples.append(dict(cfg=cfgs[0]))
    chk.trusted += ["harness/props/C05.py + fullrun.py", "cone invariance is proved for the fields (deposit cone, radial escape) but NOT for DOPRI5 steps "
                    "(negative weight b5): the per-row statement is validated on sampled configurations"]


def pk_plain(a, k, m1, m2):
    """the closed form of masses.Pk WITHOUT its NaN threshold (plain floats)"""
    p = a + k
    return float(math.log(m2 / m1) if p == 0 else (float(m2) ** p - float(m1) ** p) / p)


def pk_under_threshold(a, m1, m2):
    """a moment of the bin (first or second) is a POSITIVE number below the absolute threshold 1e-15 under which masses.Pk returns NaN - on an
    interval that is not thin (upper edge at least 1e-6 above the lower one, relatively): the class of C12/pk_nan_below_abs_resolution"""
    res = float(np.finfo(float).resolution)
    return bool(m2 > m1 * (1 + 1e-6) and any(0 < pk_plain(a, k, m1, m2) < res for k in (1, 2)))


def classify(f):
    if f["clause"].startswith("each populated star bin's mean mass") and f.get("moment_below_pk_abs_threshold"):
        return "star_moment_below_pk_abs_threshold"
    return None


def replay(chk, payload):
    run(chk)
