"""C01 -- without escape the evolved population equals its closed form.

Proved (Properties/C01.v): the star closed form solves exactly the ODE the code
integrates for the turning-off bin, and the field's flux is that expression;
the ties of the parts (C11 IMF, C13 bins, C14 lifetimes, C09 IFMR, C02 field)
compose.  Validated here on every run (not proved): full constructions over
random IMFs / layouts / metallicities / IFMR methods / retention fractions /
N0 / ages against (a) the closed-form star counts, (b) per-bin remnant numbers
and masses obtained by pushing the IMF above the turn-off mass through the IFMR
on a fine progenitor grid, at the default tolerance and with the tolerance
tightened from outside (convergence).
"""
import math

import numpy as np

import common as C
import fullrun as FR

STATIC = ["Model/Sev.vo"]
EXTRA_PROPS = ["C01b", "C01c"]
GRID = 40000


def reference(out, row):
    """closed-form stars and pre-image remnants for output row `row`"""
    cfg = out["cfg"]
    t = cfg["tout"][row]
    mto = FR.mto_of(out["tms"], t) if t > 0 else math.inf
    A = out["A"]
    lo, up = out["bins"][0]
    stars = np.array([FR.imf_int(cfg, A, l, min(u, mto)) if min(u, mto) > l else 0.0 for l, u in zip(lo, up)])
    g, mf, ty = out["grid"], out["grid_mf"], out["grid_ty"]
    refN = [np.zeros(len(out["bins"][c + 1][0])) for c in range(3)]
    refM = [np.zeros(len(out["bins"][c + 1][0])) for c in range(3)]
    unbinned = 0.0
    maxcell = 0.0
    frem = dict(WD=1.0, NS=cfg["NS_ret"], BH=cfg["BH_ret_int"])
    cidx = dict(WD=0, NS=1, BH=2)
    lo_s, hi_s = float(lo[0]), float(up[-1])      # only stars inside the stellar bins exist in the model (bins may cover part of the IMF's range)
    for j in range(len(g) - 1):
        a, b = max(g[j], mto, lo_s), min(g[j + 1], hi_s)
        if b <= a or a < cfg["m_breaks"][0]:
            if b <= max(a, cfg["m_breaks"][0]):
                continue
            a = max(a, cfg["m_breaks"][0])
        n = FR.imf_int(cfg, A, a, b)
        if n == 0:
            continue
        maxcell = max(maxcell, n)
        mc = 0.5 * (a + b)
        k = j if abs(g[j] - mc) < abs(g[j + 1] - mc) else j + 1
        c = cidx[ty[k]]
        f = mf[k]
        bl, bu = out["bins"][c + 1]
        i = np.searchsorted(bl, f, side="right") - 1
        if i < 0 or i >= len(bl) or not (bl[i] <= f < bu[i]):
            unbinned += n
            continue
        refN[c][i] += n * frem[ty[k]]
        refM[c][i] += n * f * frem[ty[k]]
    return stars, refN, refM, mto, unbinned, maxcell


def judge(chk, out, k, ncfg, dev_default):
    """compare one finished run with the closed form; returns the list of (clause, input, observed) it violates"""
    fails = []
    cfg = {kk: v for kk, v in out["cfg"].items() if kk != "want_ifmr_grid"}
    label = dict(cfg=cfg, tol=out["tol"])
    if "error" in out:
        chk.count("constructions that raised (reported under C04)")
        return fails
    if not out["converged"]:
        chk.count("non-converged runs (flagged by the model itself; exempt)")
        return fails
    chk.note_distinct(cfg)
    chk.count("runs" if out["tol"] is None else "runs with tightened tolerance")
    nms = len(out["bins"][0][0])
    for row, t in enumerate(cfg["tout"]):
        stars, refN, refM, mto, unb, cell = reference(out, row)
        sc = max(cfg["N0"], 1.0)
        rtol = 2e-3 if out["tol"] is None else 2e-5
        dS = np.abs(out["Ns"][row] - stars)
        if np.any(dS > rtol * np.maximum(stars, 1e-3 * sc / nms) + 0.11):
            i = int(np.argmax(dS))
            fails.append(("stars per bin equal the IMF integrated over the part of the bin below the turn-off mass", dict(label, row=row, age=t),
                          dict(bin=i, evolved=float(out["Ns"][row][i]), closed_form=float(stars[i]), mto=mto)))
        if unb > 1e-6 * sc:
            continue      # some remnant could not be binned (WD peak etc.): reported by C09 / C04
        for c, cname in enumerate(("WD", "NS", "BH")):
            eN, eM = out["Nr"][c][row], out["Mr"][c][row]
            if np.any(np.isnan(eN)) or np.any(np.isnan(eM)):
                fails.append(("remnant numbers and masses are finite", dict(label, row=row, age=t), dict(cls=cname)))
                continue
            totN = max(float(refN[c].sum()), 1.0)
            # the 0.1-object residue of every turned-off star bin is missing from the remnants
            # + resolution of the pre-image: a progenitor-grid cell at a class / bin boundary may be assigned to either side
            slackN = rtol * totN + 0.11 * nms + 5e-4 * totN + 2.0 * cell
            dN = np.abs(eN - refN[c])
            if np.any(dN > slackN):
                i = int(np.argmax(dN))
                fails.append(("remnant number per bin equals the IMF integrated over the progenitors whose remnant falls in that bin, times the "
                              "class retention fraction", dict(label, row=row, age=t),
                              dict(cls=cname, bin=i, evolved=float(eN[i]), closed_form=float(refN[c][i]), class_total=[float(eN.sum()), float(refN[c].sum())])))
            mscale = max(float(refM[c].sum()), 1.0)
            dM = np.abs(eM - refM[c])
            if np.any(dM > rtol * mscale + 5e-4 * mscale + (0.11 * nms + 2.0 * cell) * max(float(out["bins"][c + 1][1][-1]), 1.0)):
                i = int(np.argmax(dM))
                fails.append(("remnant mass per bin equals the IMF-weighted remnant mass of the progenitors whose remnant falls in that bin",
                              dict(label, row=row, age=t), dict(cls=cname, bin=i, evolved=float(eM[i]), closed_form=float(refM[c][i]))))
        big = stars > 100
        dev = float(np.max(dS[big] / stars[big])) if np.any(big) else 0.0
        if k is not None:
            if out["tol"] is None:
                dev_default[(k, row)] = dev
            else:
                d0 = dev_default.get((k - ncfg, row))
                chk.extra.setdefault("convergence", []).append(dict(age=t, rel_dev_default=d0, rel_dev_tight=dev))
    return fails


def run(chk):
    rng = chk.rng
    nrun = 14 if chk.tier == "quick" else 120
    cfgs = []
    for _ in range(nrun):
        cfg = FR.gen_config(rng, escape=False, kicks=False, cls="EvolvedMF")
        cfg["BH_ret_dyn"] = 1.0
        cfg["want_ifmr_grid"] = GRID
        if len(cfgs) % 3 == 0:
            cfg["imf_ext"] = "extrapolate"       # the primary constructor with a user-built, extrapolating IMF object
        if len(cfgs) % 4 == 1 and isinstance(cfg["nbins"], list) and "binning_breaks" not in cfg:
            # stellar bins covering only part of the IMF's range: each bin still holds the IMF integrated over THAT bin
            mb_ = cfg["m_breaks"]
            bb_ = [mb_[0] * 2.0] + list(mb_[1:-1]) + [mb_[-1] * 0.6]
            if all(y > x for x, y in zip(bb_, bb_[1:])):
                cfg["binning_breaks"] = bb_
        cfgs.append(cfg)
    # dynamical ejection on top (no escape): at EVERY requested age the BH mass remaining is BH_ret_dyn times the closed-form BH mass
    # formed by then (the ejection is applied to each output row on its own)
    ej_cfgs = []
    for _ in range(3 if chk.tier == "quick" else 20):
        cfg = FR.gen_config(rng, escape=False, kicks=False, cls="EvolvedMF", ntout=3)
        cfg["tout"] = sorted(set([float(rng.choice([50.0, 300.0, 1000.0])), float(rng.choice([3000.0, 6000.0])), 12000.0]), reverse=bool(rng.random() < 0.5))
        cfg["BH_ret_dyn"] = float(rng.choice([0.5, 0.3, 0.8]))
        cfg["want_ifmr_grid"] = GRID
        cfg.pop("imf_ext", None)
        ej_cfgs.append(cfg)
    full_ret = [dict(c, BH_ret_dyn=1.0) for c in ej_cfgs]
    outs_e = FR.run_many(ej_cfgs + full_ret)
    for out, outf in zip(outs_e[:len(ej_cfgs)], outs_e[len(ej_cfgs):]):
        cfg = {kk: v for kk, v in out["cfg"].items() if kk != "want_ifmr_grid"}
        if "error" in out or not out["converged"] or "error" in outf or not outf["converged"]:
            chk.count("ejection runs that raised or did not converge (C04 / exempt)")
            continue
        chk.count("runs with dynamical ejection over several ages")
        chk.note_distinct(cfg)
        for row, t in enumerate(cfg["tout"]):
            stars, refN, refM, mto, unb, cell = reference(outf, row)
            formed_cf = float(refM[2].sum())                 # closed form
            formed = float(outf["Mr"][2][row].sum())         # the same model with full dynamical retention
            if formed <= 0:
                continue
            got = float(out["Mr"][2][row].sum())
            lightest = float(out["bins"][3][0][0])
            want = cfg["BH_ret_dyn"] * formed
            # (the ejection is exact arithmetic on the formed BHs; 'retain less than a tenth of a lightest BH -> none' is the only other rule)
            if abs(got - want) > 1e-9 * formed and not (got == 0 and want < 0.2 * lightest):
                chk.fail("remnant mass per bin equals the IMF-weighted remnant mass of the progenitors whose remnant falls in that bin", dict(cfg=cfg, row=row, age=t),
                         dict(cls="BH", total_remaining=got, formed_with_full_retention=formed, closed_form_formed=formed_cf, BH_ret_dyn=cfg["BH_ret_dyn"],
                              expected_remaining=want))
    chk.evaluations += 2 * len(ej_cfgs)
    tight = [(dict(c), 1e-9) for c in cfgs[: (5 if chk.tier == "quick" else 30)]]
    outs = FR.run_many(cfgs + tight)
    base, tightened = outs[:len(cfgs)], outs[len(cfgs):]
    dev_default = {}
    pending = []          # default-tolerance deviations: judged again with the tolerance tightened (the property allows integrator accuracy)
    for k, out in enumerate(base + tightened):
        fails = judge(chk, out, k, len(cfgs), dev_default)
        if fails and out["tol"] is None:
            pending.append((out["cfg"], fails))
        else:
            for f in fails:
                chk.fail(*f)
    if pending:
        outs2 = FR.run_many([(dict(c), 1e-9) for c, _ in pending])
        chk.evaluations += len(outs2)
        for (cfg0, fails0), out2 in zip(pending, outs2):
            fails2 = judge(chk, out2, None, len(cfgs), dev_default) if ("error" not in out2 and out2["converged"]) else fails0
            if fails2:
                for f in fails2:
                    chk.fail(*f)
            else:
                chk.count("default-tolerance deviations above 2e-3 that vanish with the tolerance tightened (integrator accuracy, allowed by the property)")
                chk.extra.setdefault("integrator_accuracy_cases", []).append(
                    dict(cfg={kk: v for kk, v in cfg0.items() if kk != "want_ifmr_grid"}, default_tolerance_deviation=C.jsonable(fails0[0][2])))
    chk.samples.append(dict(cfg={kk: v for kk, v in cfgs[0].items() if kk != "want_ifmr_grid"}))
    chk.evaluations += len(outs)
    chk.trusted += ["harness/props/C01.py + fullrun.py (configuration generator, closed-form reference with a %d-point progenitor grid)" % GRID,
                    "NOT proved: the pre-image integral per remnant bin and dopri5's convergence (validated here); the Nmin residue is allowed for explicitly "
                    "(0.1 object per turned-off star bin)"]


def replay(chk, payload):
    run(chk)
