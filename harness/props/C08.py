"""C08 -- the BH mass-fraction target (EvolvedMFWithBH).

T2: the closed form Mrem re-extracted from the source.  T3 (bit-exact):
`dyn_eject_fbh_nowrap` vs EvolvedMFWithBH._dyn_eject_BH on arbitrary arrays,
`fbh_post` vs the per-row block of EvolvedMFWithBH._evolve driven through the
real `_evolve` with a stand-in solver, several rows with per-age targets.
Oracle: the property's clauses (target met, heaviest first, strict / warn,
stars and other remnants untouched, reported retention).
"""
import copy
import math
import warnings

import numpy as np

import common as C
import gen_formulas as GF
import implutil as U
from props.C07 import gen_array

STATIC = ["Model/Eject.vo"]
IMPORTS = "From SSP Require Import Model.Eject."


def impl_fbh(M, N, Mtot, f):
    obj = U.bare_emf_bh()
    Mr, Nr = np.array(M, dtype=float), np.array(N, dtype=float)
    try:
        r = obj._dyn_eject_BH(Mr, Nr, Mtot=Mtot, fBH_target=f)
    except Exception as e:  # noqa
        return ("Err", type(e).__name__)
    return ("Ok", list(map(float, Mr)), list(map(float, Nr)), (r[0] is Mr) and (r[1] is Nr))


def plist(v):
    return [float(p[0]) for p in v], [float(p[1]) for p in v]


def oracle_array(chk, case, out):
    M, N, Mtot, f = case["M"], case["N"], case["Mtot"], case["f"]
    tot = math.fsum(M)
    wf = all((m >= 0 and n >= 0 and ((m > 0) == (n > 0))) for m, n in zip(M, N))
    if not wf or not (Mtot > tot * (1 + 1e-9)) or not (0 <= f < 1) or tot == 0:
        return
    if out[0] != "Ok":
        chk.fail("array-level ejection to a target must not raise", case, out)
        return
    M2, N2 = out[1], out[2]
    if any(math.isnan(x) for x in M2 + N2) or min(M2 + N2) < -1e-9 * max(tot, max(N)):
        chk.fail("no count or mass becomes negative or NaN", case, out)
        return
    cur = tot / Mtot
    if f >= cur * (1 + 1e-12):
        chk.count("target above current")
        if not (C.all_same(M2, M) and C.all_same(N2, N)):
            chk.fail("a target above the current fraction leaves the BHs untouched", case, out)
        return
    if f > cur * (1 - 1e-12):
        return
    chk.count("target below current")
    tot_after = Mtot - (tot - math.fsum(M2))
    got = math.fsum(M2) / tot_after
    # rounding allowance: the retained mass is a difference of numbers as large as max(M)
    if abs(got - f) > 1e-9 * max(f, 1e-12) + 1e-14 * max(M) / tot_after + 1e-15:
        chk.fail("BH mass over total mass equals the target", case, dict(result=out[:3], fraction=got))
    n = len(M)
    changed = [i for i in range(n) if not (C.same_float(M[i], M2[i]) and C.same_float(N[i], N2[i]))]
    if changed:
        c = min(changed)
        if any(not (M2[i] == 0 and N2[i] == 0) for i in range(c + 1, n)):
            chk.fail("every bin above the cut is emptied", case, out)
        if not (M2[c] == 0 and N2[c] == 0) and N[c] > 0 and N2[c] > 1e-9 * N[c] and M2[c] > 1e-9 * M[c]:
            if abs(M2[c] / N2[c] - M[c] / N[c]) > 1e-6 * (M[c] / N[c]):
                chk.fail("partly depleted bin keeps its mean mass", case, out)


def run_post(carrier, rows, strict, kick_rfac=None):
    """rows: list of (T, f, Mbh, Nbh).  Runs the real EvolvedMFWithBH._evolve once on all rows."""
    emf, masses, ifmr, kicks = U.mods()
    obj = copy.copy(carrier)
    obj.__class__ = emf.EvolvedMFWithBH
    obj.strict_BH_target = strict
    obj.natal_kicks = kick_rfac is not None
    obj.tout = np.array([r[0] for r in rows])
    obj.t = np.sort(obj.tout)
    obj._fBH_target = np.array([r[1] for r in rows], dtype=float)
    mb = obj.massbins
    y0 = mb.initial_values(N0=obj.N0)
    states = {}
    for (T, f, Mbh, Nbh) in rows:
        Ns, alpha, Nr, Mr = mb.unpack_values(y0.copy(), grouped_rem=True)
        Ns *= 0.5 + 0.4 * math.sin(T)          # make the rows differ
        Nr.WD[:] = 3.0 + (T % 7)
        Mr.WD[:] = Nr.WD * 0.5 * (mb.bins.WD.lower + mb.bins.WD.upper)
        Nr.BH[:] = Nbh
        Mr.BH[:] = Mbh
        states[T] = mb.pack_values(Ns, alpha, *Nr, *Mr)
    rec = dict(after={}, totals={})

    def fake_kicks(Mr_BH, Nr_BH, **kw):
        for j in range(Mr_BH.size):
            Mr_BH[j] *= kick_rfac[j]
            Nr_BH[j] *= kick_rfac[j]
        return Mr_BH, Nr_BH, 0.0

    with U.fake_ode(lambda t, y0_: states[t]), U.patched(emf.kicks, "natal_kicks", fake_kicks), \
            warnings.catch_warnings(record=True) as w:
        warnings.simplefilter("always")
        try:
            obj._evolve()
        except ValueError as e:
            return ("Err", "ValueError", str(e)[:80]), obj, states, []
    return ("Ok",), obj, states, [str(x.message)[:60] for x in w]


def run(chk):
    rng = chk.rng
    n_arr = 1200 if chk.tier == "quick" else 10000
    n_post = 120 if chk.tier == "quick" else 900
    GF.tie(chk, "C08", [
        ("evolve_mf.EvolvedMFWithBH._dyn_eject_BH.Mrem:return", "src_mrem", ["dfbh", "Mb", "Mt"], "mrem @@ dfbh Mb Mt",
         {"Δfbh": "dfbh"}),
    ], IMPORTS)
    cases = [dict(M=[1.0, 2.0, 3.0], N=[1.0, 1.0, 1.0], Mtot=100.0, f=0.03),
             dict(M=[1.0, 2.0, 3.0], N=[1.0, 1.0, 1.0], Mtot=100.0, f=0.0),
             dict(M=[10.0, 0.0], N=[2.0, 0.0], Mtot=50.0, f=0.2)]
    while len(cases) < n_arr:
        M, N = gen_array(rng)
        tot = float(np.sum(M))
        Mtot = tot * rng.choice([1.0, 1.0001, 2.0, 20.0, 10 ** rng.uniform(0, 4)]) + rng.choice([0.0, 1.0, 1e3])
        cur = tot / Mtot if Mtot > 0 else 0.0
        f = rng.choice([0.0, cur, cur * rng.random(), cur * rng.random(), cur * (1 - 1e-12), cur * (1 + 1e-12), cur * 1.5,
                        float(np.nextafter(cur, 0)), 1e-6 * rng.random()])
        # fractions that land exactly on a bin boundary
        if rng.random() < 0.15 and len(M) > 1:
            k = rng.randrange(1, len(M))
            keep = float(np.sum(M[:k]))
            f = keep / (Mtot - (tot - keep)) if Mtot - (tot - keep) > 0 else f
        cases.append(dict(M=M, N=N, Mtot=Mtot, f=f))
    impl = [impl_fbh(c["M"], c["N"], c["Mtot"], c["f"]) for c in cases]
    exprs = ["dyn_eject_fbh_nowrap (O:=F_ops) %s %s %s %s" % (C.pairs(c["M"], c["N"]), C.fl(float(np.sum(np.array(c["M"])))),
                                                               C.fl(c["Mtot"]), C.fl(c["f"])) for c in cases]
    vals = C.eval_cases("C08a", IMPORTS, "", exprs)
    dis = []
    for c, i, v in zip(cases, impl, vals):
        chk.note_distinct(c)
        mM, mN = plist(v[0])
        if i[0] != "Ok":
            # python can only raise here on an empty array with the loop condition true (index -1 of nothing)
            if not (len(c["M"]) == 0):
                dis.append(dict(input=c, impl=i, model=[mM, mN]))
        elif not (C.all_same(i[1], mM) and C.all_same(i[2], mN)):
            # libm's pow(x, 2.0) is not always the correctly rounded x*x the model uses for `Mtot ** 2`; when the requested residue is
            # pure cancellation (target ~ 0) that one ulp shows up in the partly depleted bin.  Allowed: a few ulps of the largest bin.
            big = max([abs(x) for x in c["M"]] + [1e-300])
            ratio = max([n_ / m_ for m_, n_ in zip(c["M"], c["N"]) if m_ > 0] + [0.0])
            if C.all_close(i[1], mM, rtol=1e-12, atol=1e-14 * big) and C.all_close(i[2], mN, rtol=1e-12, atol=1e-14 * big * ratio):
                chk.count("residue equal up to pow(x,2) rounding (not bit-exact)")
            else:
                dis.append(dict(input=c, impl=C.jsonable(i), model=C.jsonable([mM, mN, v[1]])))
        if i[0] == "Ok" and not i[3]:
            chk.fail("in-place routine returns the arrays it was given", c, i)
        oracle_array(chk, c, i)
    chk.correspondence("dyn_eject_fbh (bit-exact) vs EvolvedMFWithBH._dyn_eject_BH", len(cases), dis)
    chk.samples.append(dict(case=cases[5], impl=C.jsonable(impl[5])))
    # ---- full path: several rows, per-age targets ---------------------------------
    from props.C07 import carriers
    cars = carriers()
    dis = []
    exprs, meta = [], []
    for k in range(n_post):
        car = cars[k % len(cars)]
        nbh = car.massbins.nbin.BH
        nrow = rng.choice([1, 2, 3, 4])
        gate = float(car.compute_tms(car.IFMR.BH_mi.upper))      # BHs exist once the heaviest BH progenitor has died
        Ts = rng.sample([0.5 * gate, 12000.0, 9000.0, 5000.0, 300.0, 100.0, gate * 1.05, 2.0, 3.0, 5.0, 8.0], nrow)
        strict = rng.random() < 0.5
        rf = [rng.choice([1.0, rng.random()]) for _ in range(nbh)] if rng.random() < 0.3 else None
        rows = []
        for T in Ts:
            M, N = gen_array(rng, nmax=nbh)
            M = (M + [0.0] * nbh)[:nbh]
            N = (N + [0.0] * nbh)[:nbh]
            rows.append([T, 0.0, M, N])
        # need Mtot to pick sensible targets: dry run with impossible-to-fail targets
        res0, obj0, states, _ = run_post(car, [(r[0], 0.0, r[2], r[3]) for r in rows], False, rf)
        for r in rows:
            T = r[0]
            y = states[T]
            Ns, al, Nr, Mr = car.massbins.unpack_values(y.copy(), grouped_rem=True)
            from ssptools.masses import Pk
            tb = car.massbins.turned_off_bins(car.compute_mto(np.array(T)))
            Ms = Ns / Pk(al, 1, *tb) * Pk(al, 2, *tb)
            Mbh_k = np.array(r[2]) * (np.array(rf) if rf else 1.0)
            Mtot = float(np.r_[Mr.WD, Mr.NS, Mbh_k].sum() + Ms.sum())
            cur = float(Mbh_k.sum()) / Mtot
            r[1] = float(rng.choice([0.0, cur * rng.random(), cur * rng.random(), cur * 0.999999, cur * 1.2 + 1e-4, cur]))
            r.append(Mtot)
            r.append(cur)
        res, obj, states, warns = run_post(car, [(r[0], r[1], r[2], r[3]) for r in rows], strict, rf)
        case = dict(car=k % len(cars), rows=[dict(T=r[0], f=r[1], M=r[2], N=r[3]) for r in rows], strict=strict, rfac=rf)
        chk.note_distinct(case)
        formed_rows = [r for r in rows if r[0] > gate]
        infeasible = [r for r in formed_rows if r[1] > r[5] * (1 + 1e-12)]
        knife = [r for r in formed_rows if abs(r[1] - r[5]) <= 1e-12 * r[5] and r[1] != r[5]]
        if knife:
            continue
        # ---- oracle on the whole construction --------------------------------
        if infeasible and strict:
            chk.count("strict + unreachable target")
            if res[0] != "Err":
                chk.fail("unreachable target in strict mode raises ValueError", case, res)
            continue
        if res[0] == "Err":
            chk.fail("reachable targets must not raise", case, res)
            continue
        if infeasible and not warns:
            chk.fail("unreachable target in non-strict mode issues a warning", case, warns)
        for irow, r in enumerate(rows):
            T, f, M, N, Mtot, cur = r
            Mk = list(np.array(M) * (np.array(rf) if rf else 1.0))
            Nk = list(np.array(N) * (np.array(rf) if rf else 1.0))
            got_M, got_N = list(map(float, obj.Mr.BH[irow])), list(map(float, obj.Nr.BH[irow]))
            formed = T > gate
            if not formed:
                if not (C.all_same(got_M, M) and C.all_same(got_N, N)):
                    chk.fail("BHs untouched before they form", case, dict(row=irow))
                continue
            tot_after = float(obj.Ms[irow].sum() + np.c_[obj.Mr][irow].sum())
            frac = float(np.sum(got_M)) / tot_after if tot_after > 0 else float("nan")
            if f <= cur and sum(Mk) > 0:
                chk.count("row with reachable target")
                if abs(frac - f) > 1e-9 * max(f, 1e-12) + 1e-14 * max(Mk) / tot_after + 1e-15:
                    chk.fail("each row meets its own target", case, dict(row=irow, target=f, fraction=frac))
            elif f > cur:
                if not (C.all_same(got_M, Mk) and C.all_same(got_N, Nk)):
                    chk.fail("non-strict mode leaves the BHs as formed", case, dict(row=irow))
            exprs.append("fbh_post (O:=F_ops) true %s %s %s %s %s" % (
                "true" if strict else "false", C.pairs(Mk, Nk), C.fl(Mtot), C.fl(float(np.sum(np.array(Mk)))), C.fl(f)))
            meta.append((case, irow, got_M, got_N))
        # stars and the other remnants equal the solver state (untouched by the BH step)
        for irow, r in enumerate(rows):
            Ns, al, Nr, Mr = car.massbins.unpack_values(states[r[0]].copy(), grouped_rem=True)
            if not (C.all_same(list(obj.Ns[irow]), list(Ns)) and C.all_same(list(obj.Mr.WD[irow]), list(Mr.WD))
                    and C.all_same(list(obj.Nr.NS[irow]), list(Nr.NS))):
                chk.fail("stars and other remnants are not affected by the BH target", case, dict(row=irow))
        if formed_rows and res[0] == "Ok":
            last = [i for i, r in enumerate(rows) if r[0] == max(rr[0] for rr in formed_rows)][0]
            Mk = np.array(rows[last][2]) * (np.array(rf) if rf else 1.0)
            if Mk.sum() > 0:
                want = float(np.sum(obj.Mr.BH[last])) / float(Mk.sum())
                if abs(obj.BH_ret_dyn - want) > 1e-12 * max(abs(want), 1e-300):
                    chk.fail("reported dynamical retention equals retained over pre-ejection BH mass", case,
                             dict(reported=float(obj.BH_ret_dyn), expected=want))
    # ---- complete constructions (real solver, real constructor): every age meets the target requested FOR IT, in any order of ages ----
    emf, *_ = U.mods()
    for r_ in range(3 if chk.tier == "quick" else 20):
        ages = rng.sample([100.0, 500.0, 3000.0, 9000.0, 12000.0], rng.choice([2, 3]))
        if r_ % 2 == 0:
            ages = sorted(ages, reverse=True)
        tg = [float(rng.choice([0.01, 0.02, 0.03, 0.005])) for _ in ages]
        kwc = dict(m_breaks=[0.1, 0.5, 1.0, 100], a_slopes=[-0.5, -1.3, -2.5], nbins=[3, 3, 10], FeH=float(rng.choice([-1.0, -2.0])),
                   tout=ages, esc_rate=float(rng.choice([0.0, -10.0])), N0=5e5, f_BH=tg)
        if r_ == 1:
            kwc["tout"], kwc["f_BH"] = np.array(ages), np.array(tg)
        if r_ == 2:
            # ages written as plain integers (the natural spelling, "tout=[100, 12000]"): the fractional targets must survive it
            kwc["tout"] = [int(a) for a in ages] if len(ages) == 2 else np.array([int(a) for a in ages])     # (no draw from rng: later cases keep their inputs)
        chk.note_distinct(dict(tout=ages, f_BH=tg))
        try:
            with warnings.catch_warnings():
                warnings.simplefilter("ignore")
                mc = emf.EvolvedMFWithBH.from_powerlaw(**kwc)
        except ValueError as e:
            chk.fail("reachable targets must not raise", dict(tout=ages, f_BH=tg), dict(error=str(e)[:100]))
            continue
        chk.count("complete constructions with per-age targets")
        for a_, t_ in zip(ages, tg):
            rows_ = np.flatnonzero(np.asarray(mc.tout) == a_)
            i_ = list(ages).index(a_)
            frac_row_i = float(mc.Mr.BH[i_].sum() / (mc.Ms[i_].sum() + sum(x[i_].sum() for x in mc.Mr)))
            if abs(frac_row_i - t_) > 1e-6 * t_:
                chk.fail("each row meets its own target", dict(tout=ages, f_BH=tg), dict(row=i_, age=a_, target=t_, fraction=frac_row_i,
                                                                                       model_tout=[float(x) for x in mc.tout]))
        if [float(x) for x in np.asarray(mc.tout)] != [float(x) for x in ages]:
            chk.fail("rows are reported in the order the ages were requested", dict(tout=ages, f_BH=tg), dict(model_tout=[float(x) for x in mc.tout]))
    # ---- the BH-fraction model is the standard model plus a different treatment of the BH arrays: with the same arguments (any of the
    #      documented options, given to the constructor) stars, white dwarfs and neutron stars of every row are IDENTICAL ---------------
    for r_ in range(4 if chk.tier == "quick" else 30):
        opts = dict(FeH=float(rng.choice([-1.0, -2.0, 0.0, -0.5])), esc_rate=float(rng.choice([0.0, -10.0, -30.0])), N0=float(rng.choice([5e5, 2e5])),
                    NS_ret=float(rng.choice([0.1, 0.5, 1.0])), BH_ret_int=float(rng.choice([1.0, 0.6])))
        if opts["esc_rate"] != 0:
            opts.update(tcc=float(rng.choice([0.0, 2000.0, 8000.0])), md=float(rng.choice([1.2, 0.8, 2.0])), esc_norm=rng.choice(["N", "M"]))
        if rng.random() < 0.4:
            opts.update(binning_method=rng.choice(["split_linear", "split_log"]))
        if rng.random() < 0.3:
            opts.update(binning_breaks=[0.1, 1.0, 100.0])
        if rng.random() < 0.3:
            opts.update(BH_IFMR_method=rng.choice(["linear", "banerjee20-delayed", "cosmic-rapid"]))
        nb_ = [3, 3, 8] if "binning_breaks" not in opts else [4, 8]
        ages_ = sorted(rng.sample([100.0, 1000.0, 5000.0, 12000.0], 2))
        base_ = dict(m_breaks=[0.1, 0.5, 1.0, 100], a_slopes=[-0.5, -1.3, -2.5], nbins=nb_, tout=ages_)
        label_ = dict(base_, **opts)
        chk.note_distinct(label_)
        try:
            with warnings.catch_warnings():
                warnings.simplefilter("ignore")
                if rng.random() < 0.5:
                    std_ = emf.EvolvedMF.from_powerlaw(**base_, **opts)
                    wbh_ = emf.EvolvedMFWithBH.from_powerlaw(f_BH=[0.0] * len(ages_), **base_, **opts)
                else:
                    # the primary constructors, handed an IMF object whose OWN N0 is not the N0 of the model
                    from ssptools.masses import PowerLawIMF as PLI_
                    own_ = float(rng.choice([1.0, 1e6, 7.0]))
                    label_["through"] = "primary constructors, IMF object with its own N0 = %g" % own_
                    o2_ = {k_: v_ for k_, v_ in opts.items() if k_ != "esc_rate"}
                    std_ = emf.EvolvedMF(PLI_(base_["m_breaks"], base_["a_slopes"], N0=own_), nb_, opts["FeH"] if "FeH" in opts else -1.0, ages_, opts["esc_rate"],
                                         **{k_: v_ for k_, v_ in o2_.items() if k_ != "FeH"})
                    wbh_ = emf.EvolvedMFWithBH(PLI_(base_["m_breaks"], base_["a_slopes"], N0=own_), nb_, opts["FeH"] if "FeH" in opts else -1.0, ages_, opts["esc_rate"],
                                               [0.0] * len(ages_), **{k_: v_ for k_, v_ in o2_.items() if k_ != "FeH"})
        except ValueError as e:
            chk.notes.append("standard / BH-fraction pair raised (%s)" % str(e)[:60])
            continue
        chk.count("standard vs BH-fraction model pairs (same options)")
        for nm_, a_, b_ in (("Ns", std_.Ns, wbh_.Ns), ("alpha", std_.alpha, wbh_.alpha), ("Ms", std_.Ms, wbh_.Ms), ("Nr.WD", std_.Nr.WD, wbh_.Nr.WD),
                            ("Mr.WD", std_.Mr.WD, wbh_.Mr.WD), ("Nr.NS", std_.Nr.NS, wbh_.Nr.NS)):
            if not np.array_equal(np.nan_to_num(np.asarray(a_)), np.nan_to_num(np.asarray(b_))):
                chk.fail("stars and other remnants are not affected by the BH target", label_,
                         dict(array=nm_, max_abs_diff=float(np.nanmax(np.abs(np.asarray(a_) - np.asarray(b_)))), note="EvolvedMF vs EvolvedMFWithBH with identical options"))
                break
    vals = C.eval_cases("C08p", IMPORTS, "", exprs)
    for (case, irow, gM, gN), v in zip(meta, vals):
        if v == "FbhErr":
            dis.append(dict(input=case, row=irow, impl="ok", model="FbhErr"))
            continue
        mM, mN = plist(v[2])
        if not (C.all_same(gM, mM) and C.all_same(gN, mN)):
            dis.append(dict(input=case, row=irow, impl=[gM, gN], model=[mM, mN]))
    chk.correspondence("fbh_post (bit-exact) vs the BH block of EvolvedMFWithBH._evolve (multi-row schedules)", len(meta), dis)
    chk.trusted += ["harness/props/C08.py (stand-in solver, injected kick factors)", "numpy sums passed to the model as inputs",
                    "translator gen_formulas.py for Mrem"]


def replay(chk, payload):
    c = payload["failure"]["input"]
    if isinstance(c, dict) and "Mtot" in c and "M" in c and "f" in c:
        c = dict(M=[C.unjson_float(x) for x in c["M"]], N=[C.unjson_float(x) for x in c["N"]], Mtot=c["Mtot"], f=c["f"])
        out = impl_fbh(c["M"], c["N"], c["Mtot"], c["f"])
        print("implementation:", out)
        oracle_array(chk, c, out)
    else:
        run(chk)
