"""C10 -- metallicity snapping.

T1: the directory listings of the four BH table families regenerated as Coq
data; obligation `grid_complete` (every hundredth between the ends, both
zeros) by vm_compute; the +0.00 / -0.00 tables have equal contents.
T3: for thousands of float metallicities the table file actually opened
(observed by wrapping numpy.loadtxt in the harness process) vs
Model/FeHLookup.v `table_of` evaluated on the float's exact rational; WD and
lifetime rows vs `nearest_row`.  Oracle: exact Decimal nearest-grid-point.
"""
import glob
import hashlib
import math
import os
import re
from decimal import Decimal
from fractions import Fraction

import numpy as np

import common as C
import implutil as U

STATIC = ["Model/FeHLookup.vo", "Model/Lifetime.vo"]
FAMILIES = {"banerjee20": "uSSE_rapid", "banerjee20-delayed": "uSSE_delayed", "cosmic-rapid": "COSMIC_rapid",
            "cosmic-delayed": "COSMIC_delayed"}
DATA = os.path.join(C.REPO, "ssptools", "data")


def listing(fam):
    names = []
    for fn in sorted(glob.glob(os.path.join(DATA, "ifmr", fam, "*dat"))):
        m = re.fullmatch(r"IFMR_FEH([+-])(\d+)\.(\d\d)\.dat", os.path.basename(fn))
        if not m:
            raise ValueError("unexpected table name %s" % fn)
        names.append((m.group(1) == "-", int(m.group(2)) * 100 + int(m.group(3)), fn))
    return names


def gen_grids(chk):
    os.makedirs(C.GEN, exist_ok=True)
    grids = {}
    path = os.path.join(C.GEN, "FeHGrid.v")
    with open(path, "w") as f:
        f.write("(* generated from the directory listings of ssptools/data/ifmr/* -- do not edit *)\n"
                "From Coq Require Import ZArith List Bool.\nFrom SSP Require Import Model.FeHLookup.\nImport ListNotations.\n"
                "Local Open Scope Z_scope.\n")
        for meth, fam in FAMILIES.items():
            ls = listing(fam)
            neg_h = max([h for n, h, _ in ls if n] + [0])
            pos_h = max([h for n, h, _ in ls if not n] + [0])
            grids[meth] = (ls, neg_h, pos_h)
            nm = fam
            f.write("Definition grid_%s : list (bool * Z) := [%s].\n" % (
                nm, "; ".join("(%s, %d)" % ("true" if n else "false", h) for n, h, _ in ls)))
            f.write("Lemma grid_%s_complete : grid_complete grid_%s %d %d = true.\nProof. vm_compute. reflexivity. Qed.\n" % (
                nm, nm, neg_h, pos_h))
            # signed-zero tables have equal contents
            hp = [fn for n, h, fn in ls if h == 0 and not n]
            hm = [fn for n, h, fn in ls if h == 0 and n]
            if hp and hm:
                a = int(hashlib.sha256(open(hp[0], "rb").read()).hexdigest()[:15], 16)
                b = int(hashlib.sha256(open(hm[0], "rb").read()).hexdigest()[:15], 16)
                f.write("Lemma zero_tables_equal_%s : %d = %d.\nProof. reflexivity. Qed.\n" % (nm, a, b))
    rc, out, err = C.coqc(path, timeout=300)
    chk.oblige("[gen] grid_complete for the 4 table families as listed on disk (%s files) and +0.00/-0.00 tables equal" % (
        ", ".join(str(len(g[0])) for g in grids.values())), rc == 0, (err or out)[-400:] if rc else "")
    return grids


def gen_feh(rng, n):
    xs = []
    grid = [k / 1000 for k in range(-4000, 2001)]
    xs += rng.sample(grid, min(n // 3, len(grid)))
    for _ in range(n // 3):
        k = rng.randint(-400, 200)
        base = rng.choice([k / 100, k / 100 + 0.005, k / 100 - 0.005])
        xs.append(float(rng.choice([base, np.nextafter(base, 9), np.nextafter(base, -9), np.nextafter(np.nextafter(base, 9), 9)])))
    xs += [0.0, -0.0, 1e-9, -1e-9, 0.004, -0.004, 0.005, -0.005, 0.0049999, -0.0049999, 0.007, -0.008, 5.0, -7.0,
           0.125, -0.125, 0.375, -1.625]
    while len(xs) < n:
        xs.append(rng.uniform(-4, 2))
    return xs[:n]


def nearest_ok(x, chosen_val, lo, hi):
    """is chosen_val/100 a nearest grid point to clamp(x) (exact arithmetic)?"""
    X = Fraction(x)
    y = min(max(X, Fraction(lo, 100)), Fraction(hi, 100))
    return abs(Fraction(chosen_val, 100) - y) <= Fraction(1, 200)


def qlit(x):
    n, d = float(x).as_integer_ratio()
    return "(%d # %d)%%Q" % (n, d)


def run(chk):
    rng = chk.rng
    emf, masses, ifmr_mod, kicks = U.mods()
    grids = gen_grids(chk)
    n = 700 if chk.tier == "quick" else 6000
    xs = gen_feh(rng, n)
    opened = []
    real = np.loadtxt

    def rec(path, *a, **k):
        opened.append(str(path))
        return real(path, *a, **k)
    dis = []
    ncase = 0
    with U.patched(np, "loadtxt", rec):
        for meth, fam in FAMILIES.items():
            ls, neg_h, pos_h = grids[meth]
            names = {(ng, h) for ng, h, _ in ls}
            exprs, meta = [], []
            # (every second lookup passes the SAME two option dictionaries, as a metallicity scan that keeps its options in one place does:
            #  the table must be the one nearest to the metallicity of THIS call)
            shared_bh, shared_wd = {}, {}
            for ix_, x in enumerate(xs):
                opened.clear()
                case = dict(method=meth, FeH=float(x), negzero=bool(x == 0 and math.copysign(1, x) < 0), shared_option_dicts=bool(ix_ % 2))
                chk.note_distinct(case)
                try:
                    obj = ifmr_mod.IFMR(x, BH_method=meth, BH_kwargs=shared_bh, WD_kwargs=shared_wd) if ix_ % 2 else ifmr_mod.IFMR(x, BH_method=meth)
                    bh = [p for p in opened if fam in p]
                    m = re.search(r"IFMR_FEH([+-])(\d+)\.(\d\d)\.dat", bh[0])
                    got = (m.group(1) == "-", int(m.group(2)) * 100 + int(m.group(3)))
                except Exception as e:  # noqa
                    got = ("Err", type(e).__name__)
                    chk.fail("every metallicity maps to an existing table", case, dict(error=type(e).__name__, msg=str(e)[:120]))
                if got[0] != "Err":
                    val = -got[1] if got[0] else got[1]
                    if not nearest_ok(x, val, -neg_h, pos_h):
                        chk.fail("the table used is the nearest tabulated metallicity (clamped at the grid ends)", case,
                                 dict(table="%s%.2f" % ("-" if got[0] else "+", got[1] / 100)))
                exprs.append("table_of (- inject_Z %d / 100)%%Q (inject_Z %d / 100)%%Q %s %s" % (
                    neg_h, pos_h, "true" if case["negzero"] else "false", qlit(x)))
                meta.append((case, got))
                # kick fallback table of the same supernova prescription
                if fam.startswith("uSSE"):
                    opened.clear()
                    try:
                        xb = ifmr_mod._check_IFMR_FeH_bounds(x)
                        kicks._F12_fallback_frac(xb, SNe_method=fam.split("_")[1])
                        m2 = re.search(r"(uSSE_\w+)/IFMR_FEH([+-])(\d+)\.(\d\d)\.dat", opened[-1])
                        gk = (m2.group(2) == "-", int(m2.group(3)) * 100 + int(m2.group(4)))
                        if m2.group(1) != fam or (got[0] != "Err" and gk != got and fam == "uSSE_rapid"):
                            chk.fail("kick fallback fractions come from the same nearest table", case, dict(opened=opened[-1]))
                    except Exception as e:  # noqa
                        if fam == "uSSE_rapid":
                            chk.fail("kick fallback table is available for every metallicity", case, dict(error=type(e).__name__))
            vals = C.eval_cases("C10_%s" % fam, "From Coq Require Import QArith.\nFrom SSP Require Import Model.FeHLookup.", "", exprs, shard=400)
            for (case, got), v in zip(meta, vals):
                ncase += 1
                mv = (bool(v[0]), int(v[1]))
                if got[0] == "Err" or mv != got:
                    dis.append(dict(input=case, impl=C.jsonable(got), model=mv))
                elif mv not in names:
                    dis.append(dict(input=case, impl=C.jsonable(got), model="model name not in listing"))
    chk.correspondence("table_of (exact rational of the float) vs the file opened by IFMR(FeH, BH_method=..)", ncase, dis)
    chk.samples.append(dict(FeH=xs[:6], family="all four"))
    # ---- WD rows and lifetime rows: nearest value ---------------------------------
    wd = np.loadtxt(os.path.join(DATA, "sevtables", "wdifmr.dat"))
    ms = np.loadtxt(os.path.join(DATA, "sevtables", "msto.dat"))
    real_loadtxt = np.loadtxt
    old = emf.EvolvedMF._evolve
    emf.EvolvedMF._evolve = lambda self: None
    nrow = 0
    rexprs, rmeta = [], []
    try:
        for x in xs[: (200 if chk.tier == "quick" else 2000)]:
            nrow += 1
            obj = ifmr_mod.IFMR(x)
            j = int(np.flatnonzero(wd[:, 1] == obj.WD_mi.upper)[0])
            xc = min(max(x, wd[:, 0].min()), wd[:, 0].max())
            if abs(wd[j, 0] - xc) > np.min(np.abs(wd[:, 0] - xc)) + 1e-15:
                chk.fail("WD relation of the nearest tabulated metallicity", dict(FeH=x), dict(row=j, row_FeH=float(wd[j, 0])))
            m = emf.EvolvedMF.from_powerlaw([0.1, 0.5, 1.0, 100], [-0.5, -1.3, -2.5], [1, 1, 2], x, [100.0], 0)
            k = int(np.flatnonzero((ms[:, 1:] == m._tms_constants).all(axis=1))[0])
            if abs(ms[k, 0] - x) > np.min(np.abs(ms[:, 0] - x)) + 1e-15:
                chk.fail("lifetimes of the nearest tabulated metallicity", dict(FeH=x), dict(row=k, row_FeH=float(ms[k, 0])))
            rexprs.append("(nearest_row_wd (O:=F_ops) %s %s, nearest_row (O:=F_ops) %s %s)" % (
                C.fll(wd[:, 0]), C.fl(xc), C.fll(ms[:, 0]), C.fl(x)))
            rmeta.append((float(x), j, k))
            if nrow <= (40 if chk.tier == "quick" else 400):
                # the BH-population shortcut has its own copy of the lifetime-row lookup: its reported age is the lifetime of the
                # lightest BH progenitor (+0.1) under the row it picked
                from ssptools.masses import PowerLawIMF
                with U.fake_ode(lambda t_, y0_: y0_):
                    pop = emf.InitialBHPopulation.from_IMF(PowerLawIMF([0.1, 0.5, 1.0, 100], [-0.5, -1.3, -2.5], N0=1e5), [1, 1, 4], x, natal_kicks=False)
                # ... and with natal kicks the fallback fractions must come from the table of the REQUESTED metallicity (BH grid, 0.01 dex),
                # not from the lifetime row's: every uSSE_rapid table opened during the construction is that nearest one
                def flow_bh_(t_, y0_):
                    y_ = np.array(y0_, dtype=float)
                    n_ = (len(y_) - 6) // 2
                    y_[6:6 + n_] = 5.0
                    y_[6 + n_:] = 100.0
                    return y_
                opened_k = []
                km_ = rng.choice(["maxwellian", "f12", "fryer2012", "F12", "Maxwellian"])      # every documented spelling of the fallback-scaled kicks
                try:
                    with U.fake_ode(flow_bh_), U.patched(np, "loadtxt", lambda p_, *a_, **k_: (opened_k.append(str(p_)), real_loadtxt(p_, *a_, **k_))[1]):
                        emf.InitialBHPopulation.from_IMF(PowerLawIMF([0.1, 0.5, 1.0, 100], [-0.5, -1.3, -2.5], N0=1e5), [1, 1, 4], x, natal_kicks=True, kick_method=km_)
                except Exception as e:  # noqa
                    chk.fail("every metallicity maps to an existing table", dict(FeH=x, through="InitialBHPopulation.from_IMF(natal_kicks=True, kick_method=%r)" % km_),
                             dict(error=type(e).__name__, msg=str(e)[-80:]))
                    continue
                tabs_ = sorted(set(re.search(r"IFMR_FEH([+-]\d+\.\d\d)\.dat", p_).group(1) for p_ in opened_k if "uSSE_rapid" in p_))
                ls_b, neg_b, pos_b = grids["banerjee20"]
                chk.count("BH-population constructions with kicks: tables opened")
                if len(opened_k) < 4 or len(tabs_) != 1 or not nearest_ok(x, int(round(float(tabs_[0]) * 100)), -neg_b, pos_b):
                    chk.fail("kick fallback fractions come from the same nearest table", dict(FeH=x, through="InitialBHPopulation.from_IMF(natal_kicks=True, kick_method=%r)" % km_),
                             dict(tables_opened=tabs_, files=len(opened_k)))
                k0 = int(np.argmin(np.abs(ms[:, 0] - x)))
                a0_, a1_, a2_ = ms[k0, 1:]
                want_age = a0_ * math.exp(a1_ * (obj.BH_mi.lower + 0.1) ** a2_)
                if abs(float(pop.age) - want_age) > 1e-12 * want_age:
                    chk.fail("lifetimes of the nearest tabulated metallicity (initial BH population shortcut)", dict(FeH=x),
                             dict(age=float(pop.age), expected=float(want_age), nearest_row_FeH=float(ms[k0, 0])))
            fk = m._kick_kw["FeH"]
            ls, neg_h, pos_h = grids["banerjee20"]
            if fk != min(max(x, -neg_h / 100), pos_h / 100):
                chk.fail("kick metallicity is the BH-grid clamp of the requested one", dict(FeH=x), dict(kick_FeH=float(fk)))
    finally:
        emf.EvolvedMF._evolve = old
    # the BH table used by a MODEL of each family is the nearest one of THAT family's grid (the grids end at different metallicities)
    emf.EvolvedMF._evolve = lambda self: None
    try:
        with U.patched(np, "loadtxt", rec):
            for meth, fam in FAMILIES.items():
                ls, neg_h, pos_h = grids[meth]
                for x in [0.43, 0.47, 0.8, 0.405, -0.0, pos_h / 100, -neg_h / 100 - 0.3] + [rng.uniform(-neg_h / 100 - 0.2, pos_h / 100 + 0.2) for _ in range(6 if chk.tier == "quick" else 60)]:
                    opened.clear()
                    try:
                        emf.EvolvedMF.from_powerlaw([0.1, 0.5, 1.0, 100], [-0.5, -1.3, -2.5], [1, 1, 2], float(x), [100.0], 0, BH_IFMR_method=meth)
                    except Exception as e:  # noqa
                        chk.fail("every metallicity maps to an existing table", dict(method=meth, FeH=float(x), through="EvolvedMF"), dict(error=type(e).__name__))
                        continue
                    bh = [p_ for p_ in opened if "/" + fam + "/" in p_]
                    if not bh:
                        chk.fail("the table used is the nearest tabulated metallicity (clamped at the grid ends)", dict(method=meth, FeH=float(x), through="EvolvedMF"), "no table of this family opened")
                        continue
                    m_ = re.search(r"IFMR_FEH([+-])(\d+)\.(\d\d)\.dat", bh[0])
                    val_ = (-1 if m_.group(1) == "-" else 1) * (int(m_.group(2)) * 100 + int(m_.group(3)))
                    chk.count("model-level table lookups")
                    if not nearest_ok(float(x), val_, -neg_h, pos_h):
                        chk.fail("the table used is the nearest tabulated metallicity (clamped at the grid ends)", dict(method=meth, FeH=float(x), through="EvolvedMF"),
                                 dict(table="%+.2f" % (val_ / 100)))
    finally:
        emf.EvolvedMF._evolve = old
    vals = C.eval_cases("C10rows", "From SSP Require Import Model.Lifetime.", "", rexprs, shard=400)
    dis = [dict(input=dict(FeH=x), impl=[j, k], model=[int(v[0]), int(v[1])]) for (x, j, k), v in zip(rmeta, vals)
           if (int(v[0]), int(v[1])) != (j, k)]
    chk.correspondence("nearest_row (first minimum of |grid - FeH|, theorem C14_nearest_row) vs the WD row and lifetime row actually used", len(rmeta), dis)
    chk.count("WD / lifetime / kick rows checked", nrow)
    chk.trusted += ["harness/props/C10.py (numpy.loadtxt wrapper observes the file opened)",
                    "Python's float formatting f'{x:+.2f}' is correctly rounded (round-half-even on the exact binary value)",
                    "translator: directory listing -> Coq list of names"]


def replay(chk, payload):
    run(chk)
