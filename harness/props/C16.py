"""C16 -- no hidden state, no argument mutation.

Model/ArgStore.v proves, for every history with arbitrary sharing, that the
store of argument objects is unchanged and results are history-free (and
refutes both for the code before fix cc856a2).  T3 / oracle: random histories
of constructor calls (IFMR, EvolvedMF, EvolvedMFWithBH,
InitialBHPopulation.from_IMF) that share dictionaries, lists, arrays and IMF
objects across differing metallicities and options; every shared object is
deep-snapshotted before and after each call; every result is compared
bit-for-bit with the same call evaluated ALONE in a fresh interpreter.
"""
import copy
import json
import os
import subprocess
import sys
from concurrent.futures import ThreadPoolExecutor

import numpy as np

import common as C
import fresh_worker as FW

STATIC = ["Model/ArgStore.vo"]
IMPORTS = "From Coq Require Import String.\nFrom SSP Require Import Model.ArgStore."


def snap(o):
    from ssptools.masses import PowerLawIMF
    if isinstance(o, dict):
        return ("dict", json.dumps({k: snap(v) for k, v in o.items()}, sort_keys=True, default=str))
    if isinstance(o, np.ndarray):
        return ("arr", o.dtype.str, o.shape, o.tobytes())
    if isinstance(o, list):
        return ("list", tuple(snap(x) for x in o))
    if isinstance(o, PowerLawIMF):
        return ("imf", o.mb.tobytes(), np.asarray(o.a, dtype=float).tobytes(), float(o.N0), o._A_comps.tobytes(), o._ext)
    return ("val", repr(o))


def literal(o):
    """JSON literal that rebuilds an equal FRESH object in the worker"""
    from ssptools.masses import PowerLawIMF
    if isinstance(o, np.ndarray):
        return {"$arr": o.tolist()}
    if isinstance(o, PowerLawIMF):
        return {"$imf": dict(mb=[float(x) for x in o.mb], a=[float(x) for x in o.a], N0=float(o.N0), ext=int(o._ext))}
    if isinstance(o, dict):
        return {k: literal(v) for k, v in o.items()}
    if isinstance(o, list):
        return [literal(v) for v in o]
    return o


def fresh(desc):
    env = dict(os.environ, PYTHONHASHSEED="0", SSPTOOLS_REPO=C.REPO)
    p = subprocess.run([sys.executable, os.path.join(C.VERIF, "harness", "fresh_worker.py"), json.dumps(desc)],
                       capture_output=True, text=True, env=env)
    for ln in p.stdout.splitlines():
        if ln.startswith("DIGEST "):
            return ln[7:]
    return "NOOUT:" + p.stderr[-200:]


def gen_history(rng):
    from ssptools.masses import PowerLawIMF
    pool = {
        "d_empty": {}, "d_empty2": {}, "d_lin": {"slope": 0.4, "scale": 0.7, "m_lower": 19},
        # same option NAMES, different values: a result must depend on the values it was given
        "d_lin2": {"slope": 0.3, "scale": 0.7, "m_lower": 19}, "d_lin3": {"slope": 0.4, "scale": 0.2, "m_lower": 21},
        "d_pl": {"exponent": 3, "slope": 3e-5, "scale": 14, "m_lower": 19}, "d_pl2": {"exponent": 2, "slope": 1e-3, "scale": 10, "m_lower": 19},
        "d_wd": {"slope": 0.15, "scale": 0.5, "m_upper": 5.5}, "d_wd2": {"slope": 0.1, "scale": 0.45, "m_upper": 5.0},
        "imf": PowerLawIMF([0.1, 0.5, 1.0, 100], [-0.5, -1.3, -2.5], N0=5e5),
        "imf1": PowerLawIMF([0.1, 0.5, 1.0, 100], [-0.5, -1.3, -2.5]),          # own N0 = 1
        # an IMF in 'raise' mode and bin breaks reaching beyond it: that construction raises the documented ValueError - and must leave no trace
        "imf_raise": PowerLawIMF([0.1, 0.5, 1.0, 100], [-0.5, -1.3, -2.5], N0=2e6, ext="raise"), "breaks_wide": [0.05, 0.5, 1.0, 150.0],
        "nbins": [3, 3, 8], "nbins_d": {"MS": [3, 3, 8], "WD": 4, "BH": 5}, "nbins_d2": {"MS": 12, "WD": 3, "NS": 1, "BH": 4},
        "tout": np.array([3000.0, 12000.0]), "tout1": [9000.0], "tout_u": np.array([12000.0, 3000.0, 7000.0]),      # ages in the caller's own order
        "fbh_u": np.array([0.001, 0.002, 0.0015]),
        # BH mass functions starting below / above the lightest BH of the IFMR, as list and as ndarray
        "bh_breaks": [5.0, 15.0, 40.0], "bh_breaks_a": np.array([5.0, 20.0, 50.0]), "bh_breaks_hi": [6.0, 30.0], "bh_slopes": [-1.0, -2.3], "bh_nbins": [4, 4],
        "fbh": np.array([0.06, 0.08]), "fbh_ok": np.array([0.001, 0.002]), "breaks": [0.1, 0.5, 1.0, 100.0],
    }
    calls = []
    n = rng.choice([2, 3, 4, 5])
    few = rng.sample([-2.0, -1.0, -0.5, 0.0, 0.2, 0.3], rng.choice([1, 2, 6]))   # repeats of one metallicity are likely

    def analytic():
        m = rng.choice(["linear", "linear", "powerlaw"])
        return m, {"$h": rng.choice(["d_lin", "d_lin2", "d_lin3"] if m == "linear" else ["d_pl", "d_pl2"])}
    for _ in range(n):
        feh = rng.choice(few)
        k = rng.choice(["IFMR", "IFMR", "EvolvedMF", "EvolvedMFWithBH", "from_IMF", "from_IMF", "from_BHMF"])
        if k == "from_BHMF":
            which = rng.choice(["bh_breaks", "bh_breaks", "bh_breaks_a", "bh_breaks_hi"])
            args = dict(m_breaks={"$h": which}, a_slopes=({"$h": "bh_slopes"} if which != "bh_breaks_hi" else [-1.0]),
                        nbins=({"$h": "bh_nbins"} if which != "bh_breaks_hi" else [6]), FeH=feh,
                        N0=rng.choice([1000, 2500.0]), natal_kicks=rng.choice([False, False, True]))
        elif k == "IFMR":
            m = rng.choice(["banerjee20", "banerjee20", "cosmic-rapid", "linear", "linear", "powerlaw"])
            kw = analytic()[1] if m == "linear" else {"$h": rng.choice(["d_pl", "d_pl2"])} if m == "powerlaw" else \
                rng.choice([{"$h": "d_empty"}, {"$h": "d_empty"}, None])
            args = dict(FeH=feh, BH_method=m, BH_kwargs=kw, WD_kwargs=rng.choice([{"$h": "d_empty2"}, None]))
            if rng.random() < 0.3:
                args.update(WD_method="linear", WD_kwargs={"$h": rng.choice(["d_wd", "d_wd2"])})
        elif k == "EvolvedMF" and rng.random() < 0.25:
            args = dict(IMF={"$h": "imf_raise"}, nbins={"$h": "nbins"}, FeH=feh, tout={"$h": "tout1"}, esc_rate=0,
                        binning_breaks=rng.choice([{"$h": "breaks_wide"}, None]))
            if rng.random() < 0.5:
                args["N0"] = None           # use the IMF object's own N0
        elif k == "EvolvedMF":
            args = dict(IMF={"$h": rng.choice(["imf", "imf1"])}, nbins={"$h": rng.choice(["nbins", "nbins", "nbins_d", "nbins_d2"])}, FeH=feh,
                        tout={"$h": rng.choice(["tout", "tout1", "tout_u"])},
                        esc_rate=rng.choice([0, -10.0]), N0=rng.choice([5e5, 2e5]), BH_IFMR_kwargs=rng.choice([{"$h": "d_empty"}, None]),
                        binning_breaks=rng.choice([{"$h": "breaks"}, None]), BH_ret_dyn=rng.choice([1.0, 0.7]))
            if rng.random() < 0.5:
                args["BH_IFMR_method"], args["BH_IFMR_kwargs"] = analytic()
            if rng.random() < 0.25:
                args.update(WD_IFMR_method="linear", WD_IFMR_kwargs={"$h": rng.choice(["d_wd", "d_wd2"])})
        elif k == "EvolvedMFWithBH":
            two = rng.random() < 0.7
            three = rng.random() < 0.3
            args = dict(IMF={"$h": "imf"}, nbins={"$h": "nbins"}, FeH=feh, tout={"$h": "tout_u" if three else "tout" if two else "tout1"}, esc_rate=0,
                        f_BH=({"$h": "fbh_u"} if three else {"$h": rng.choice(["fbh", "fbh_ok"])} if two else 0.001), N0=5e5, strict_BH_target=False,
                        natal_kicks=rng.choice([True, False]), vesc=rng.choice([30, 90]), BH_IFMR_kwargs=rng.choice([{"$h": "d_empty"}, None]))
        else:
            args = dict(IMF={"$h": rng.choice(["imf", "imf", "imf1"])}, nbins={"$h": rng.choice(["nbins", "nbins", "nbins_d"])}, FeH=feh, natal_kicks=False)
            if rng.random() < 0.6:
                args["N0"] = rng.choice([2e5, 1e6, 5e5])
            if rng.random() < 0.5:
                args["BH_IFMR_kwargs"] = {"$h": "d_empty"}
            if rng.random() < 0.5:
                args["BH_IFMR_method"], args["BH_IFMR_kwargs"] = analytic()
        calls.append(dict(kind=k, args=args))
    return pool, calls


def run(chk):
    rng = chk.rng
    nh = 24 if chk.tier == "quick" else 160
    jobs, records = [], []
    for hi in range(nh):
        pool, calls = gen_history(rng)
        hist = dict(history=hi, calls=[dict(kind=c["kind"], args={k: (v if not isinstance(v, dict) or "$h" not in v else "<%s>" % v["$h"])
                                                                 for k, v in c["args"].items()}) for c in calls])
        chk.note_distinct(hist)
        alive = []
        for ci, c in enumerate(calls):
            before = {h: snap(o) for h, o in pool.items()}
            try:
                obj = FW.build(c, pool)
                dg = FW.digest(obj)
                alive.append((ci, obj, dg))
            except Exception as e:  # noqa
                dg = "ERR:" + type(e).__name__
            after = {h: snap(o) for h, o in pool.items()}
            changed = [h for h in pool if before[h] != after[h]]
            if changed:
                chk.fail("building a model leaves every argument object unchanged", dict(hist, call=ci), dict(changed=changed))
                # restore so that later calls are judged on their own
            records.append((hist, ci, c, dg))
        # a result is a value: later constructions do not change what an earlier model reports (all models of the history are still alive)
        for ci, obj, dg in alive:
            chk.count("earlier results re-read at the end of their history")
            try:
                dg2 = FW.digest(obj)
            except Exception as e:  # noqa
                dg2 = "ERR:" + type(e).__name__
            if dg2 != dg:
                names = [n_ for n_ in ("age", "Ns_lost", "Ms_lost", "BH_ret_dyn", "converged") if hasattr(obj, n_)]
                chk.fail("building the same model after any sequence of other constructions gives bit-identical results", dict(hist, call=ci),
                         dict(digest_when_built=dg, digest_after_the_later_constructions=dg2,
                              summary_now={n_: C.jsonable(getattr(obj, n_)) for n_ in names}))
        chk.count("calls in histories", len(calls))
    # references: each call alone, in a fresh interpreter, with fresh literal arguments
    def ref(rec):
        hist, ci, c, dg = rec
        pool0, _ = gen_history_pool()
        lit = dict(kind=c["kind"], args={k: (literal(pool0[v["$h"]]) if isinstance(v, dict) and "$h" in v else v) for k, v in c["args"].items()})
        return fresh(lit)
    with ThreadPoolExecutor(max_workers=C.NPROC) as ex:
        refs = list(ex.map(ref, records))
    for (hist, ci, c, dg), r in zip(records, refs):
        chk.count("results compared with a fresh interpreter")
        if dg != r:
            chk.fail("building the same model after any sequence of other constructions gives bit-identical results", dict(hist, call=ci),
                     dict(in_history=dg, alone_in_fresh_interpreter=r))
    chk.samples.append(dict(history=records[0][0], digests=[r[3] for r in records[:3]]))
    # ---- model tie: effective metallicity sequence of IFMR calls sharing one dictionary ----------
    import re
    from ssptools.ifmr import IFMR
    import implutil as U
    opened = []
    real = np.loadtxt
    exprs, meta = [], []
    for _ in range(40 if chk.tier == "quick" else 400):
        d = {}
        fehs = [rng.choice([-2.0, -1.0, -0.5, 0.0, 0.2, 0.3]) for _ in range(rng.choice([2, 3, 4]))]
        use = [rng.random() < 0.7 for _ in fehs]
        eff = []
        with U.patched(np, "loadtxt", lambda p, *a, **k: (opened.append(str(p)), real(p, *a, **k))[1]):
            for f, u in zip(fehs, use):
                opened.clear()
                IFMR(f, BH_kwargs=d if u else None)
                m = re.search(r"uSSE_rapid/IFMR_FEH([+-]\d+\.\d\d)", [p for p in opened if "uSSE_rapid" in p][0])
                eff.append(int(round(float(m.group(1)) * 100)))
        cs = "[" + "; ".join("{| c_feh := %d; c_kwargs := %s |}" % (int(round(f * 100)), "Some 0%nat" if u else "None") for f, u in zip(fehs, use)) + "]"
        exprs.append("(run_history true [(0%%nat, [])] %s, %s)" % (cs, "true" if d == {} else "false"))
        meta.append((fehs, use, eff, dict(d)))
    vals = C.eval_cases("C16", IMPORTS, "", exprs)
    dis = []
    for (fehs, use, eff, d), v in zip(meta, vals):
        st, res, _ = v
        if [int(x) for x in res] != eff or d != {}:
            dis.append(dict(input=dict(FeH=fehs, shares_dict=use), impl=dict(effective=eff, dict_after=d), model=[int(x) for x in res]))
    chk.correspondence("run_history (copy semantics) vs sequences of IFMR(FeH, BH_kwargs=shared dict): table actually opened + dictionary afterwards",
                       len(meta), dis)
    # ---- routines documented as working IN PLACE: they modify the arrays they are given and return those very arrays -------------
    import implutil as U
    from ssptools import kicks as kk_
    emf_ = U.mods()[0]
    car_ = U.base_emf()
    car_bh = copy.copy(car_)
    car_bh.__class__ = emf_.EvolvedMFWithBH
    for name_, call_ in (
            ("natal_kicks(sigmoid)", lambda M_, N_: kk_.natal_kicks(M_, N_, method="sigmoid", slope=0.5, scale=15.0)[:2]),
            ("natal_kicks(maxwellian)", lambda M_, N_: kk_.natal_kicks(M_, N_, method="maxwellian", vesc=50.0, FeH=-1.0)[:2]),
            ("EvolvedMF._dyn_eject_BH", lambda M_, N_: car_._dyn_eject_BH(M_, N_, M_eject=0.4 * float(M_.sum()))),
            ("EvolvedMFWithBH._dyn_eject_BH", lambda M_, N_: car_bh._dyn_eject_BH(M_, N_, 10.0 * float(M_.sum()), 0.03))):
        M_ = np.array([12.0, 40.0, 90.0, 150.0, 60.0])
        N_ = np.array([2.0, 4.0, 6.0, 8.0, 2.5])
        before_ = (M_.copy(), N_.copy())
        rM_, rN_ = call_(M_, N_)
        chk.count("in-place routines exercised")
        if not (rM_ is M_ and rN_ is N_):
            chk.fail("routines documented as in-place return the very arrays they were given", dict(routine=name_), "new arrays returned")
        elif np.array_equal(M_, before_[0]) and np.array_equal(N_, before_[1]):
            chk.fail("routines documented as in-place modify the arrays they were given", dict(routine=name_), dict(M_after=[float(x) for x in M_]))
    chk.trusted += ["harness/props/C16.py + fresh_worker.py (fresh-interpreter references, deep snapshots)",
                    "the store model covers option dictionaries; lists / arrays / IMF objects are covered by the snapshot oracle only"]


def gen_history_pool():
    import random
    return gen_history(random.Random(0))


def replay(chk, payload):
    run(chk)
