"""C03 -- escape removes the requested rate (field-level, arbitrary states).

T3: Model/Esc.v float instance vs EvolvedMF._derivs_esc on arbitrary (t, y):
both sides of the core-collapse time, both normalisations, constant and
callable rates, depletion masses 0.3-5, several layouts.  Oracle: the sums,
the uniform-fraction law before core collapse, the 1-sqrt(m/md) weighting
(checked against scipy.integrate.quad of the weighted power law), untouched
heavy bins, preserved remnant means, the slope-change formula.
"""
import copy
import os
import warnings
import math

import numpy as np

import common as C
import fieldutil as F
import implutil as U

STATIC = ["Model/Dispatch.vo", "Model/Esc.vo"]
EXTRA_PROPS = ["RK", "C03b", "C03c", "C03d"]
IMPORTS = "From SSP Require Import Model.Pk Model.Bins Model.Esc."


def ol(v):
    return [float("nan") if x == "None" else float(x[2]) for x in v]


def run(chk):
    rng = chk.rng
    from scipy.integrate import quad
    cars = F.carriers(5 if chk.tier == "quick" else None)
    nst = 60 if chk.tier == "quick" else 500
    res = float(np.finfo(float).resolution)
    dis, ncase = [], 0
    for ci, (car0, kw, args) in enumerate(cars):
        mb = car0.massbins
        nb = mb.nbin
        exprs, meta = [], []
        for ist in range(nst):
            car = copy.copy(car0)
            t = F.random_time(rng, car)
            y = F.random_state(rng, car)
            if rng.random() < 0.15:       # thin turn-off bins: t just after an edge
                x = float(rng.choice(list(car.tms_u)))
                t = x * (1 + 10 ** rng.uniform(-14, -6))
            car.md = rng.choice([1.2, 1.2, 0.3, 0.8, 2.5, 5.0])
            if car.md == 5.0 and ist % 2 == 1:
                car.md = [12.0, 40.0][(ist // 2) % 2]   # a depletion mass above the lighter BH bins: they deplete like every other class (no draw from rng)
            car._esc_norm = rng.choice(["N", "M"])
            car.tcc = rng.choice([0.0, 0.0, t * 2, t, t * 0.5, 1e9])
            rate = -10 ** rng.uniform(-2, 3) if rng.random() < 0.9 else 0.0
            if rng.random() < 0.4:
                car.esc_rate = (lambda r: (lambda tt: r))(rate)
                car._time_dep_esc = True
            else:
                car.esc_rate = rate
                car._time_dep_esc = False
            mto = float(car.compute_mto(np.array(t)))
            tb = mb.turned_off_bins(mto)
            d = car._derivs_esc(t, y.copy())
            un = [list(map(float, a)) for a in mb.unpack_values(d)]
            out = [un[0], un[1], un[2] + un[3] + un[4], un[5] + un[6] + un[7]]
            Ns, al = y[:nb.MS], y[nb.MS:2 * nb.MS]
            nr = nb.WD + nb.NS + nb.BH
            Nr, Mr = y[2 * nb.MS:2 * nb.MS + nr], y[2 * nb.MS + nr:]
            stars = "[" + "; ".join("(%s, %s, %s, %s)" % (C.fl(a), C.fl(b), C.fl(c), C.fl(d_)) for a, b, c, d_ in
                                    zip(Ns, al, tb.lower, tb.upper)) + "]"
            exprs.append("(let e := esc_field (O:=F_ops) %s %s %s %s %s %s %s %s in [e_dNs e; e_dalpha e; e_dNr e; e_dMr e])" % (
                C.fl(res), C.fl(car.md), C.fl(rate), C.fl(car.tcc), C.fl(t), "NormN" if car._esc_norm == "N" else "NormM",
                stars, C.pairs(Nr, Mr)))
            case = dict(carrier=ci, t=t, md=car.md, norm=car._esc_norm, tcc=car.tcc, rate=rate,
                        callable=bool(car._time_dep_esc), y=[float(v) for v in y])
            thin = bool(np.any((tb.upper > tb.lower) & ((tb.upper - tb.lower) < 1e-9 * tb.lower)))
            meta.append((case, out, thin))
            chk.note_distinct(case)
            oracle(chk, quad, car, case, out, tb, Ns, al, Nr, Mr)
        vals = C.eval_cases("C03_%d" % ci, IMPORTS, "", exprs, shard=60)
        for (case, out, thin), v in zip(meta, vals):
            ncase += 1
            marr = [ol(a) for a in v]
            if not all(C.all_close(a, b, rtol=1e-8, atol=1e-300) for a, b in zip(out, marr)):
                if thin:
                    # a bin thinner than 1e-9: its moments are differences of nearly equal powers, i.e. rounding noise of pow (finding
                    # pk_generic_branch_cancellation, C12); whether |P1| falls below the NaN threshold is decided by the last bit of
                    # libm's pow vs the model's.  Counted, not compared.
                    chk.count("knife-edge: populated or empty turn-off bin thinner than 1e-9, moments are rounding noise (not compared)")
                    continue
                bad = [(k, j) for k in range(4) for j in range(len(out[k])) if not C.close_float(out[k][j], marr[k][j], rtol=1e-8)]
                k, j = bad[0]
                dis.append(dict(input=case, component=["dNs", "dalpha", "dNr", "dMr"][k], index=j, impl=C.jsonable(out[k][j]),
                                model=C.jsonable(marr[k][j]), n_bad=len(bad)))
        if ci == 0:
            chk.samples.append(dict(case=dict(meta[0][0], y=meta[0][0]["y"][:6]), impl_dNs=C.jsonable(meta[0][1][0][:4])))
    chk.correspondence("esc_field (1e-8) vs EvolvedMF._derivs_esc on arbitrary (t, y)", ncase, dis)
    # ---- the dispatcher: total derivative = (stellar evolution if enabled) + (escape unless the rate is a non-negative constant)
    nd = 0
    dexprs, dmeta = [], []
    for ci, (car0, kw, args) in enumerate(cars):
        for _ in range(20 if chk.tier == "quick" else 150):
            car = copy.copy(car0)
            t = F.random_time(rng, car)
            y = F.random_state(rng, car)
            car._stellar_ev = rng.random() < 0.5
            rate = rng.choice([0.0, 0.0, -7.5, -120.0, -0.1, -0.05, -1e-3, -1e-9])
            if rng.random() < 0.4:
                car.esc_rate = (lambda r: (lambda tt: r))(rate)
                car._time_dep_esc = True
            else:
                car.esc_rate = rate
                car._time_dep_esc = False
            car._esc_norm = rng.choice(["N", "M"])
            car.tcc = rng.choice([0.0, 1e9])
            case = dict(carrier=ci, t=t, stellar_evolution=bool(car._stellar_ev), rate=rate, callable=bool(car._time_dep_esc),
                        norm=car._esc_norm, tcc=car.tcc)
            try:
                tot = car._derivs(t, y.copy())
                want = np.zeros_like(tot)
                if car._stellar_ev:
                    want = want + car._derivs_sev(t, y.copy())
                if car._time_dep_esc or rate < 0:
                    want = want + car._derivs_esc(t, y.copy())
            except ValueError:
                continue
            nd += 1
            if len(dexprs) < (120 if chk.tier == "quick" else 1200):
                sv = car._derivs_sev(t, y.copy()) if car._stellar_ev else car.massbins.blanks(packed=True)
                ev = car._derivs_esc(t, y.copy())            # evaluated regardless: the MODEL decides whether it is used
                if not (np.any(np.isnan(sv)) or np.any(np.isnan(ev)) or np.any(np.isnan(tot))):
                    dexprs.append("derivs (O:=F_ops) %s %s %s %s %s" % ("true" if car._stellar_ev else "false", "true" if car._time_dep_esc else "false",
                                                                       C.fl(rate), C.fll(sv), C.fll(ev)))
                    dmeta.append((case, [float(x) for x in tot]))
            same = np.array_equal(np.nan_to_num(tot, nan=-1.234e300), np.nan_to_num(want, nan=-1.234e300))
            if not same:
                chk.fail("the instantaneous loss equals the requested rate: the total derivative includes the escape part whenever a rate is given "
                         "(and the stellar-evolution part only when enabled)", case,
                         dict(sum_total=float(np.nansum(tot[:car.massbins.nbin.MS])), sum_expected=float(np.nansum(want[:car.massbins.nbin.MS]))))
    vals = C.eval_cases("C03disp", "From SSP Require Import Model.Dispatch.", "", dexprs, shard=40)
    dis = [dict(input=case, impl=C.jsonable(tot[:6]), model=C.jsonable([float(x) for x in v][:6]))
           for (case, tot), v in zip(dmeta, vals) if not C.all_same(tot, [float(x) for x in v])]
    chk.correspondence("derivs (bit-exact; Model/Dispatch.v) vs EvolvedMF._derivs given the two parts", len(dmeta), dis)
    # structural tie: the condition under which the escape part is evaluated, as written in the source
    import ast as _ast
    src = open(os.path.join(C.REPO, "ssptools", "evolve_mf.py")).read()
    conds = []
    for cls_ in _ast.parse(src).body:
        if isinstance(cls_, _ast.ClassDef) and cls_.name == "EvolvedMF":
            for fn in cls_.body:
                if isinstance(fn, _ast.FunctionDef) and fn.name == "_derivs":
                    conds = [_ast.unparse(n.test) for n in _ast.walk(fn) if isinstance(n, _ast.If)]
    chk.oblige("[gen] EvolvedMF._derivs switches its two parts on exactly `self._stellar_ev` and `self._time_dep_esc or self.esc_rate < 0` "
               "(the conditions Model/Dispatch.v models)", sorted(conds) == sorted(["self._stellar_ev", "self._time_dep_esc or self.esc_rate < 0"]), str(conds))
    chk.count("dispatcher (_derivs) evaluations", nd)
    chk.evaluations += nd
    # ---- N(t) = N0 + integral of the rate over complete runs with all remnants retained --------------------
    emf, *_ = U.mods()
    for sev in (True, False):
        for nrm in (["N"] if chk.tier == "quick" else ["N", "M"]):
          for rate, N0 in ((-12.0, 5e5), (-0.06, 5e4), (-0.1, 2e4)):       # weak rates are rates too
            tout = [2000.0, 6000.0, 10000.0]
            m = emf.EvolvedMF.from_powerlaw([0.1, 0.5, 1.0, 100], [-0.5, -1.3, -2.5], [3, 3, 10], -1.0, tout, rate, N0=N0,
                                            NS_ret=1.0, BH_ret_int=1.0, BH_ret_dyn=1.0, stellar_evolution=sev, esc_norm=nrm)
            if nrm == "N" and m.converged:
                tot = m.Ns.sum(axis=1) + np.c_[m.Nr].sum(axis=1)
                want = N0 + rate * np.array(tout)
                chk.count("complete runs with escape")
                if np.any(np.abs(tot - want) > 1e-6 * N0 + 1e-3 * abs(rate) * np.array(tout)):
                    chk.fail("integrated over time N(t) = N0 + integral of the rate when all remnants are retained",
                             dict(stellar_evolution=sev, norm=nrm, rate=rate, N0=N0, tout=tout), dict(N=tot.tolist(), expected=want.tolist()))
    # ---- both model classes, built through their constructors with a core-collapse time: before it every bin loses the same fraction
    #      and slopes are frozen, after it heavy bins are untouched (the settings must reach the derivative of EITHER class) ----
    for cls_name in ("EvolvedMF", "EvolvedMFWithBH"):
        for nrm in ("N", "M"):
            tcc_ = float(rng.choice([5000.0, 800.0]))
            kwc = dict(m_breaks=[0.1, 0.5, 1.0, 100], a_slopes=[-0.5, -1.3, -2.5], nbins=[3, 3, 8], FeH=-1.0,
                       tout=[float(rng.choice([100.0, 300.0, 2.0 * tcc_]))],        # the construction itself may or may not integrate past tcc
                       esc_rate=-10.0, N0=5e5, tcc=tcc_, esc_norm=nrm, md=float(rng.choice([1.2, 0.8])))
            if cls_name == "EvolvedMFWithBH":
                kwc["f_BH"] = 0.0
            with warnings.catch_warnings():
                warnings.simplefilter("ignore")
                mc = getattr(emf, cls_name).from_powerlaw(**kwc)
            mbk = mc.massbins
            y = mbk.pack_values(mc.Ns[-1], mc.alpha[-1], *[x[-1] for x in mc.Nr], *[x[-1] for x in mc.Mr])
            seen_ = {}
            for t_ in (0.5 * tcc_, 2.0 * tcc_, 0.5 * tcc_, 2.0 * tcc_):
                raw_ = np.array(mc._derivs_esc(t_, y.copy()), dtype=float)
                # the field is a function of (t, y): the same point gives the same derivative whatever was evaluated in between
                if t_ in seen_ and not np.array_equal(raw_, seen_[t_], equal_nan=True):
                    chk.fail("the escape field at (t, y) does not depend on which ages were evaluated before (regime chosen by t < tcc alone)",
                             dict(cls=cls_name, norm=nrm, tcc=tcc_, t=t_, tout=kwc["tout"]), dict(max_abs_difference=float(np.nanmax(np.abs(raw_ - seen_[t_])))))
                seen_.setdefault(t_, raw_)
                dNs, dal, dNr, dMr = mbk.unpack_values(raw_.copy(), grouped_rem=True)
                Ns_ = mc.Ns[-1]
                pop = Ns_ > 1
                fr = dNs[pop] / Ns_[pop]
                case_c = dict(cls=cls_name, norm=nrm, tcc=tcc_, t=t_, md=kwc["md"])
                chk.count("constructor-level escape regime checks")
                if t_ < tcc_:
                    if np.any(dal != 0) or (fr.size and (fr.max() - fr.min()) > 1e-9 * abs(fr.min())):
                        chk.fail("before core collapse every bin loses the same fraction and slopes do not change (model built through its constructor)",
                                 case_c, dict(dN_over_N=[float(fr.min()), float(fr.max())] if fr.size else None, max_dalpha=float(np.max(np.abs(dal)))))
                else:
                    if fr.size and (fr.max() - fr.min()) <= 1e-9 * abs(fr.min()) and np.all(dal == 0):
                        chk.fail("after core collapse losses depend on mass (model built through its constructor)", case_c,
                                 dict(dN_over_N=[float(fr.min()), float(fr.max())]))
    # ---- measured, not judged: drift of the BINNED mass under norm 'M' (one power law per bin is an approximation) ----------
    from ssptools.masses import Pk
    drift = []
    for nbl, md_ in (([1, 1, 2], 0.6), ([2, 2, 4], 0.6), ([5, 5, 20], 1.2)):
        m = emf.EvolvedMF.from_powerlaw([0.1, 0.5, 1.0, 100], [-0.5, -1.3, -2.5], nbl, -1.0, [12000.0], -5.0, N0=1e6, esc_norm="M", md=md_, tcc=0.0)
        mbk = m.massbins
        y = mbk.pack_values(m.Ns[-1], m.alpha[-1], *[x[-1] for x in m.Nr], *[x[-1] for x in m.Mr])
        dNs, dal, dNr, dMr = mbk.unpack_values(m._derivs_esc(12000.0, y), grouped_rem=True)
        Ns_, al_, _, _ = mbk.unpack_values(y, grouped_rem=True)
        tb_ = mbk.turned_off_bins(m.compute_mto(12000.0))
        Mf = lambda N, a: N * Pk(a, 2, *tb_) / Pk(a, 1, *tb_)       # noqa
        h = 1e-6
        impl_rate = float(np.nansum((Mf(Ns_ + h * dNs, al_ + h * dal) - Mf(Ns_ - h * dNs, al_ - h * dal)) / (2 * h)) + sum(x.sum() for x in dMr))
        drift.append(dict(nbins=nbl, md=md_, requested_rate=-5.0, binned_mass_rate=impl_rate, relative_drift=impl_rate / -5.0 - 1))
    chk.extra["binned_mass_drift"] = drift
    chk.trusted += ["harness/props/C03.py, fieldutil.py", "numpy pairwise summation vs left-to-right sums (tolerance 1e-8)",
                    "scipy.integrate.quad as oracle for the 1-sqrt(m/md) weighted integrals", "FloatFun pow/ln/sqrt"]


def oracle(chk, quad, car, case, out, tb, Ns, al, Nr, Mr):
    dNs, dal, dNr, dMr = out
    if any(math.isnan(x) for x in dNs + dal + dNr + dMr):
        chk.count("NaN derivative (thin turn-off bin or nothing depletable)")
        return
    rate, md, t = case["rate"], case["md"], case["t"]
    lo, up = np.asarray(tb.lower), np.asarray(tb.upper)
    pre = t < case["tcc"]
    nrm = case["norm"]
    tot_scale = max(abs(rate), 1e-300)

    def mom(a, k, l, u):
        p = a + k
        return math.log(u / l) if p == 0 else (u ** p - l ** p) / p
    ms = np.array([mom(a, 2, l, u) / mom(a, 1, l, u) if (u > l and (u - l) / l >= 1e-9) else float("nan") for a, l, u in zip(al, lo, up)])
    # mean mass for the mass bookkeeping: a bin thinner than 1e-9 (turn-off mass just above an edge) still holds its stars, at the
    # mass of its edges; the moment ratio would be cancellation noise there
    thin_pop = bool(any((u >= l) and (u - l) < 1e-9 * l and n > 0 for n, l, u in zip(Ns, lo, up)))
    ms_book = np.array([m_ if not math.isnan(m_) else (0.5 * (l + u) if u >= l else float("nan")) for m_, l, u in zip(ms, lo, up)])
    if rate == 0:
        if any(x != 0 for x in dNs + dal + dNr + dMr):
            chk.fail("with zero rate nothing escapes", case, dict(max=max(map(abs, dNs + dNr))))
        return
    if pre:
        chk.count("pre-core-collapse " + nrm)
        if any(x != 0 for x in dal):
            chk.fail("before core collapse slopes do not change", case, dal)
        fr = [d / n for d, n in zip(dNs, Ns) if n > 0] + [d / n for d, n in zip(dNr, Nr) if n > 0]
        if fr and max(fr) - min(fr) > 1e-9 * abs(min(fr)):
            chk.fail("before core collapse every bin loses the same fraction", case, dict(min=min(fr), max=max(fr)))
        if nrm == "N":
            s = sum(dNs) + sum(dNr)
        else:
            s = float(np.nansum(np.array(dNs) * ms_book)) + sum(dMr)
        if abs(s - rate) > 1e-8 * tot_scale:
            chk.fail("the loss summed over all bins equals the requested rate (before core collapse, norm %s)" % nrm, case,
                     dict(sum=s, rate=rate), thin_bin_populated=thin_pop)
    else:
        chk.count("post-core-collapse " + nrm)
        # weights by quadrature, independent of the moment helper
        Iq, Jq = [], []
        for n, a, l, u, m_ in zip(Ns, al, lo, up, ms):
            if not (u > l) or (u - l) / l < 1e-9 or not (m_ < md) or n == 0:   # thin turn-off bins are masked out (NaN moments)
                Iq.append(0.0), Jq.append(0.0)
                continue
            A = n / mom(a, 1, l, u)
            Iq.append(A * quad(lambda m: m ** a * (1 - math.sqrt(m / md)), l, u, epsabs=0, epsrel=1e-11)[0])
            Jq.append(A * quad(lambda m: m ** (a + 1) * (1 - math.sqrt(m / md)), l, u, epsabs=0, epsrel=1e-11)[0])
        Ir = [n * (1 - math.sqrt(m / n / md)) if n > 0 and m / n < md else 0.0 for n, m in zip(Nr, Mr)]
        Jr = [m * (1 - math.sqrt(m / n / md)) if n > 0 and m / n < md else 0.0 for n, m in zip(Nr, Mr)]
        den = (sum(Iq) + sum(Ir)) if nrm == "N" else (sum(Jq) + sum(Jr))
        if den == 0 or not math.isfinite(den):
            return
        B = rate / den
        for i, (d, w) in enumerate(zip(dNs, Iq)):
            if abs(d - B * w) > 1e-7 * abs(B) * max(abs(w), 1e-12 * abs(den)) + 1e-300:
                heavy = not (ms[i] < md)
                chk.fail("after core collapse each object is lost at a rate proportional to 1 - sqrt(m/md)"
                         if not heavy else "bins heavier than the depletion mass are untouched", case,
                         dict(bin=i, dNs=d, expected=B * w, ms=float(ms[i])))
                break
        for j, (d, w, dm, wm) in enumerate(zip(dNr, Ir, dMr, Jr)):
            if abs(d - B * w) > 1e-7 * abs(B * w) + 1e-300 or abs(dm - B * wm) > 1e-7 * abs(B * wm) + 1e-300:
                chk.fail("remnant bins lose objects in proportion to 1 - sqrt(m/md), mean mass preserved", case,
                         dict(rem_bin=j, dNr=d, expected=B * w, dMr=dm, expected_M=B * wm))
                break
        s = (sum(dNs) + sum(dNr)) if nrm == "N" else (sum(B * w for w in Jq) + sum(dMr))
        if abs(s - rate) > 1e-7 * tot_scale:
            chk.fail("the loss summed over all bins equals the requested rate (after core collapse, norm %s)" % nrm, case,
                     dict(sum=s, rate=rate), thin_bin_populated=thin_pop)
        for i, (d, l, u, m_) in enumerate(zip(dal, lo, up, ms)):
            want = B * (math.sqrt(l / md) - math.sqrt(u / md)) / math.log(u / l) if (m_ < md and u > l) else 0.0
            if abs(d - want) > 1e-7 * max(abs(want), 1e-300) and abs(d - want) > 1e-300:
                chk.fail("star-bin slopes change consistently with the 1 - sqrt(m/md) weighting", case, dict(bin=i, dalpha=d, expected=want))
                break
    for j, (n, m, dn, dm) in enumerate(zip(Nr, Mr, dNr, dMr)):
        if n > 0 and abs(dm * n - dn * m) > 1e-9 * max(abs(dm * n), abs(dn * m), 1e-300):
            chk.fail("escape preserves remnant mean masses", case, dict(rem_bin=j))
            break


def classify(f):
    if f["clause"].startswith("the loss summed over all bins equals the requested rate") and f.get("thin_bin_populated"):
        return "thin_turnoff_bin_mean_mass_noise"
    return None


def replay(chk, payload):
    """re-evaluate the oracle on exactly the stored state and escape settings"""
    from scipy.integrate import quad
    c = payload["failure"]["input"]
    if "carrier" not in c:
        return run(chk)
    car0, kw, args = F.carriers(None)[c["carrier"]]
    car = copy.copy(car0)
    mb = car.massbins
    nb = mb.nbin
    y = np.array([C.unjson_float(v) for v in c["y"]])
    t = C.unjson_float(c["t"])
    car.md, car._esc_norm, car.tcc = c["md"], c["norm"], C.unjson_float(c["tcc"])
    rate = c["rate"]
    car.esc_rate = (lambda tt: rate) if c.get("callable") else rate
    car._time_dep_esc = bool(c.get("callable"))
    mto = float(car.compute_mto(np.array(t)))
    tb = mb.turned_off_bins(mto)
    un = [list(map(float, a)) for a in mb.unpack_values(car._derivs_esc(t, y.copy()))]
    out = [un[0], un[1], un[2] + un[3] + un[4], un[5] + un[6] + un[7]]
    nr = nb.WD + nb.NS + nb.BH
    oracle(chk, quad, car, dict(c, y=list(y), t=t), out, tb, y[:nb.MS], y[nb.MS:2 * nb.MS], y[2 * nb.MS:2 * nb.MS + nr], y[2 * nb.MS + nr:])
    print("sum dNs + dNr =", sum(out[0]) + sum(out[2]), "rate =", rate)
