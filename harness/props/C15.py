"""C15 -- kicks.

T2: Maxwellian pdf and sigmoid expressions re-extracted.  T3: sigmoid (1e-9),
fallback-fraction interpolation (1e-12, sorted table columns regenerated),
kick loop with injected retention values (bit-exact).  Maxwellian retention (closed-form
cdf since /repo fix e8173a9; it used to be a spline quadrature on a 1 km/s grid
that returned "fractions" up to 1.23) vs `retention_exact` at 1e-9.
"""
import glob
import math
import os
import re

import numpy as np

import common as C
import gen_formulas as GF
import implutil as U
from props.C07 import gen_array

STATIC = ["Model/Kicks.vo"]
IMPORTS = "From SSP Require Import Model.Kicks."
PI = C.fl(math.pi)


def exact_cdf(v, a):
    from scipy.special import erf
    return float(erf(v / (a * math.sqrt(2))) - math.sqrt(2 / math.pi) * (v / a) * math.exp(-v * v / (2 * a * a)))


def run(chk):
    rng = chk.rng
    emf, masses, ifmr, kicks = U.mods()
    GF.tie(chk, "C15", [
        ("kicks._sigmoid_retention_frac:return", "src_sigmoid", ["m", "slope", "scale"], "sigmoid @@ m slope scale"),
    ], IMPORTS)
    # ---- sigmoid ------------------------------------------------------------
    n = 300 if chk.tier == "quick" else 3000
    cases = [(rng.uniform(1, 150), rng.choice([0.0, 1.0, rng.uniform(-3, 3), rng.uniform(0, 0.3)]), rng.uniform(1, 60)) for _ in range(n)]
    impl = [float(kicks._sigmoid_retention_frac(m, s, c)) for m, s, c in cases]
    vals = C.eval_cases("C15s", IMPORTS, "", ["sigmoid (O:=F_ops) %s %s %s" % (C.fl(m), C.fl(s), C.fl(c)) for m, s, c in cases])
    dis = []
    for cse, i, v in zip(cases, impl, vals):
        chk.note_distinct(cse)
        if not C.close_float(i, float(v), rtol=1e-9, atol=1e-300):
            dis.append(dict(input=cse, impl=i, model=float(v)))
        if not (0 <= i <= 1):
            chk.fail("sigmoid retention lies in [0, 1]", cse, i)
    chk.correspondence("sigmoid (1e-9) vs _sigmoid_retention_frac", len(cases), dis)
    # ---- kick loop with injected retention ---------------------------------------
    n = 600 if chk.tier == "quick" else 6000
    lcases, limpl = [], []
    for _ in range(n):
        M, N = gen_array(rng)
        for j in range(len(N)):   # some sub-0.1 bins
            if rng.random() < 0.15 and N[j] > 0:
                f = rng.choice([0.05, 0.0999999, 0.1, 0.02]) / N[j]
                M[j] *= f
                N[j] *= f
        rets = [rng.choice([1.0, 0.0, rng.random(), 1 - rng.random() ** 4]) for _ in M]
        Mr, Nr = np.array(M), np.array(N)
        it = iter([r for r, nn in zip(rets, N) if not (nn < 0.1)])
        out = kicks._unbound_natal_kicks(Mr, Nr, lambda m_, **kw: next(it))
        same = out[0] is Mr and out[1] is Nr
        lcases.append(dict(M=M, N=N, rets=rets))
        limpl.append((list(map(float, Mr)), list(map(float, Nr)), float(out[2]), same))
    vals = C.eval_cases("C15k", IMPORTS, "", ["unbound_natal_kicks (O:=F_ops) 0x1.999999999999ap-4 %s %s" % (
        C.pairs(c["M"], c["N"]), C.fll(c["rets"])) for c in lcases])
    dis = []
    for c, i, v in zip(lcases, limpl, vals):
        chk.note_distinct(c)
        mM = [float(p[0]) for p in v[0]]
        mN = [float(p[1]) for p in v[0]]
        if not (C.all_same(i[0], mM) and C.all_same(i[1], mN) and C.same_float(i[2], float(v[1]))):
            dis.append(dict(input=c, impl=C.jsonable(i), model=C.jsonable([mM, mN, v[1]])))
        if not i[3]:
            chk.fail("kicks return the very arrays they were given", c, "new arrays")
        M, N, rets = c["M"], c["N"], c["rets"]
        for j in range(len(M)):
            if N[j] < 0.1:
                if not (C.same_float(i[0][j], M[j]) and C.same_float(i[1][j], N[j])):
                    chk.fail("bins with fewer than 0.1 objects are untouched", c, dict(bin=j))
            elif not (C.close_float(i[0][j], M[j] * rets[j], 1e-15) and C.close_float(i[1][j], N[j] * rets[j], 1e-15)):
                chk.fail("each populated bin is multiplied by the retention of its mean mass", c, dict(bin=j))
        rem = math.fsum(M) - math.fsum(i[0])
        if abs(i[2] - rem) > 1e-9 * max(math.fsum(M), 1e-300):
            chk.fail("reported ejecta equals the mass removed", c, dict(ejecta=i[2], removed=rem))
    chk.correspondence("unbound_natal_kicks (bit-exact, injected retention) vs _unbound_natal_kicks", len(lcases), dis)
    chk.samples.append(dict(case=lcases[0], impl=C.jsonable(limpl[0])))
    # ---- fallback fraction + Maxwellian retention ----------------------------------
    fam_files = {m: sorted(glob.glob(os.path.join(C.REPO, "ssptools/data/ifmr/uSSE_%s/IFMR_FEH*.dat" % m))) for m in ("rapid", "delayed")}
    ntab = 6 if chk.tier == "quick" else 60
    dis = []
    ncmp = 0
    exprs, meta = [], []
    for meth in ("rapid", "delayed"):
        files = [fam_files[meth][0], fam_files[meth][-1]] + rng.sample(fam_files[meth], ntab)
        for fn in files:
            feh = float(os.path.basename(fn)[8:-4])
            tab = np.loadtxt(fn, usecols=(1, 3))
            order = np.argsort(tab[:, 0], kind="mergesort")
            xs, ys = tab[order, 0], tab[order, 1]
            fb_i = kicks._F12_fallback_frac(feh, SNe_method=meth)
            if np.any((ys < 0) | (ys > 1)):
                chk.fail("fallback fractions lie in [0, 1]", dict(table=os.path.basename(fn), method=meth), [float(ys.min()), float(ys.max())])
            ms = [rng.uniform(1, 150) for _ in range(8)] + [float(rng.choice(xs)) for _ in range(3)] + [xs[0] * 0.9, xs[-1] * 1.1]
            # stratify on fallback in (0.9, 1)
            hi = xs[(ys > 0.9) & (ys < 1)]
            ms += [float(x) for x in rng.sample(list(hi), min(6, len(hi)))]
            for m in ms:
                fb = float(fb_i(m))
                # unique x only (duplicates make interp1d's slope 0/0: skip those nodes)
                k = np.searchsorted(xs, m)
                k = min(max(k, 1), len(xs) - 1)
                if xs[k] == xs[k - 1]:
                    continue
                fb_ref = float(np.interp(m, xs, ys, left=0.0, right=1.0))   # independent reading of THIS table
                if abs(fb - fb_ref) > 1e-12:
                    chk.fail("fallback fraction is interpolated from the table of the metallicity and supernova prescription in use",
                             dict(m=m, FeH=feh, method=meth), dict(fallback=fb, table_value=fb_ref))
                vesc = rng.choice([1.0, 20.0, 90.0, 400.0, 2000.0, rng.uniform(1, 2000)])
                vd = rng.choice([265.0, 50.0, 500.0, rng.uniform(50, 500)])
                r = float(kicks._maxwellian_retention_frac(m, vesc, feh, vd, SNe_method=meth))
                fb = fb_ref
                exprs.append("(interp1d (O:=F_ops) xs ys 0 1 %s, retention_exact (O:=F_ops) %s %s %s %s)" % (
                    C.fl(m), PI, C.fl(fb), C.fl(vesc), C.fl(vd)))
                meta.append((meth, feh, m, fb, r, vesc, vd))
                case = dict(m=m, vesc=vesc, FeH=feh, vdisp=vd, method=meth, fb=fb)
                chk.note_distinct(case)
                sig = vd * (1 - fb)
                ex = 1.0 if fb >= 1 else exact_cdf(min(vesc, 1e9), sig)
                ncmp += 1
                unresolved = bool(fb < 1 and sig < 5.0)
                beyond = bool(vesc > 1000)
                if not (0 <= r <= 1 + 1e-9):
                    chk.fail("Maxwellian retention lies in [0, 1]", case, r, sigma=sig, grid_unresolved=unresolved, vesc_beyond_grid=beyond)
                elif abs(r - ex) > 1e-9:
                    chk.fail("Maxwellian retention equals the speed distribution integrated from 0 to the escape velocity", case,
                             dict(retention=r, exact=ex), sigma=sig, grid_unresolved=unresolved, vesc_beyond_grid=beyond)
                r2 = float(kicks._maxwellian_retention_frac(m, vesc * 1.3, feh, vd, SNe_method=meth))
                if r2 < r - 1e-9:
                    chk.fail("Maxwellian retention is non-decreasing in escape velocity", case, dict(r=r, r_at_1_3_vesc=r2),
                             sigma=sig, grid_unresolved=unresolved, vesc_beyond_grid=bool(vesc * 1.3 > 1000))
            # evaluate this table's batch now (xs/ys as definitions)
            if exprs:
                defs = "Definition xs := %s.\nDefinition ys := %s.\n" % (C.fll(xs), C.fll(ys))
                vals = C.eval_cases("C15f_%s_%s" % (meth, os.path.basename(fn)[8:-4].replace("+", "p").replace("-", "m").replace(".", "_")),
                                    IMPORTS, defs, exprs, shard=400)
                for (mt, fh, m, fb, r_, ve, vd_), v in zip(meta, vals):
                    if not C.close_float(fb, float(v[0]), rtol=1e-12, atol=1e-15):
                        dis.append(dict(what="fallback", input=dict(method=mt, FeH=fh, m=m), impl=fb, model=float(v[0])))
                    if not C.close_float(r_, float(v[1]), rtol=1e-9, atol=1e-13):
                        dis.append(dict(what="retention", input=dict(method=mt, FeH=fh, m=m, vesc=ve, vdisp=vd_, fb=fb), impl=r_, model=float(v[1])))
                exprs, meta = [], []
    # every table of both prescriptions: no fallback below the lightest tabulated remnant, full fallback above the heaviest one
    nall = 0
    for meth_ in ("rapid", "delayed"):
        for fn_ in sorted(glob.glob(os.path.join(C.REPO, "ssptools", "data", "ifmr", "uSSE_%s" % meth_, "IFMR_FEH*.dat"))):
            mm_ = re.search(r"IFMR_FEH([+-]\d+\.\d\d)\.dat", fn_)
            feh_ = float(mm_.group(1))
            tab_ = np.loadtxt(fn_, usecols=(1, 3))
            fi_ = kicks._F12_fallback_frac(feh_, SNe_method=meth_)
            above, below = float(fi_(tab_[:, 0].max() * 1.1)), float(fi_(tab_[:, 0].min() * 0.9))
            nall += 1
            if above != 1.0 or below != 0.0:
                chk.fail("fallback fraction is interpolated from the table of the metallicity and supernova prescription in use",
                         dict(FeH=feh_, method=meth_, m="outside the tabulated remnant masses"), dict(above_table=above, below_table=below, expected=[1.0, 0.0]))
    chk.count("fallback tables checked outside their range", nall)
    chk.correspondence("interp1d (1e-12) vs _F12_fallback_frac(FeH)(m); retention_exact (1e-9) vs _maxwellian_retention_frac", ncmp, dis)
    # ---- dispatch --------------------------------------------------------------------
    M, N = np.array([30.0, 40.0]), np.array([2.0, 2.0])
    try:
        kicks.natal_kicks(M, N, method="nonsense")
        chk.fail("unknown kick method raises ValueError", "nonsense", "no error")
    except ValueError:
        pass
    # every argument given to the dispatcher reaches the retention function of the chosen method: each populated bin is multiplied by
    # the retention of ITS mean mass computed with exactly these arguments (the retention functions themselves are tied above)
    for _ in range(12 if chk.tier == "quick" else 120):
        nb_ = rng.choice([3, 5, 8])
        Md = np.array([rng.choice([0.0, rng.uniform(5, 60)]) for _ in range(nb_)])
        Nd = np.where(Md > 0, Md / np.array([rng.uniform(4, 40) for _ in range(nb_)]), 0.0) * rng.choice([1.0, 30.0])
        Md = Md * rng.choice([1.0, 30.0]) if False else Nd * np.array([rng.uniform(4, 40) for _ in range(nb_)])
        meth_ = rng.choice(["maxwellian", "f12", "sigmoid"])
        if meth_ == "sigmoid":
            kwd = dict(slope=rng.choice([0.3, 1.0, 2.5]), scale=rng.choice([8.0, 12.0, 20.0]))
            fn_ = lambda m_: float(kicks._sigmoid_retention_frac(m_, **kwd))    # noqa
        else:
            kwd = dict(vesc=rng.choice([20.0, 60.0, 90.0, 300.0]), FeH=rng.choice([-2.0, -1.0, 0.0]))
            if rng.random() < 0.7:
                kwd["vdisp"] = rng.choice([50.0, 100.0, 150.0, 500.0])
            if rng.random() < 0.4:
                kwd["SNe_method"] = rng.choice(["rapid", "delayed"])
            fn_ = lambda m_: float(kicks._maxwellian_retention_frac(m_, **kwd))   # noqa
        M1, N1 = Md.copy(), Nd.copy()
        case_d = dict(M=[float(x) for x in Md], N=[float(x) for x in Nd], method=meth_, **kwd)
        chk.note_distinct(case_d)
        _, _, ej_ = kicks.natal_kicks(M1, N1, method=meth_, **kwd)
        wantM, wantN, want_ej = Md.copy(), Nd.copy(), 0.0
        for j_ in range(nb_):
            if Nd[j_] < 0.1:
                continue
            r_ = fn_(Md[j_] / Nd[j_])
            want_ej += Md[j_] * (1 - r_)
            wantM[j_], wantN[j_] = Md[j_] * r_, Nd[j_] * r_
        if not (np.allclose(M1, wantM, rtol=1e-12, atol=0) and np.allclose(N1, wantN, rtol=1e-12, atol=0) and abs(ej_ - want_ej) <= 1e-9 * max(want_ej, 1e-300) + 1e-300):
            chk.fail("each populated bin is multiplied by the retention fraction of its mean mass (with the arguments given to natal_kicks)", case_d,
                     dict(M_after=[float(x) for x in M1], expected=[float(x) for x in wantM], ejected=float(ej_), expected_ejected=float(want_ej)))
    # the in-place contract for any array the caller may hand over: columns of a table, reversed / strided views, both methods
    for meth_, kwv in (("sigmoid", dict(slope=1.0, scale=20.0)), ("maxwellian", dict(vesc=60.0, FeH=-1.0)), ("sigmoid", dict(slope=0.4, scale=10.0))):
        tabv = np.array([[30.0, 2.0], [12.0, 1.5], [0.4, 0.05], [55.0, 3.0], [8.0, 1.0], [21.0, 2.0]])
        for form_, (Mv, Nv) in (("contiguous", (tabv[:, 0].copy(), tabv[:, 1].copy())), ("table columns", (tabv[:, 0], tabv[:, 1])),
                                ("reversed views", (tabv[::-1, 0], tabv[::-1, 1])), ("every other bin", (tabv[::2, 0], tabv[::2, 1]))):
            M0v, N0v = np.array(Mv, dtype=float), np.array(Nv, dtype=float)
            rM, rN, ejv = kicks.natal_kicks(Mv, Nv, method=meth_, **kwv)
            wantM, wantN, wej = M0v.copy(), N0v.copy(), 0.0
            fnv = (lambda m_: float(kicks._sigmoid_retention_frac(m_, **kwv))) if meth_ == "sigmoid" else (lambda m_: float(kicks._maxwellian_retention_frac(m_, **kwv)))
            for j_ in range(len(M0v)):
                if N0v[j_] >= 0.1:
                    r_ = fnv(M0v[j_] / N0v[j_])
                    wej += M0v[j_] * (1 - r_)
                    wantM[j_], wantN[j_] = M0v[j_] * r_, N0v[j_] * r_
            casev = dict(method=meth_, form=form_, **kwv)
            chk.note_distinct(casev)
            if not (rM is Mv and rN is Nv):
                chk.fail("kicks return the very arrays they were given", casev, "new arrays")
            if not (np.allclose(Mv, wantM, rtol=1e-12, atol=0) and np.allclose(Nv, wantN, rtol=1e-12, atol=0)):
                chk.fail("each populated bin is multiplied by the retention fraction of its mean mass (with the arguments given to natal_kicks)", casev,
                         dict(M_given_after=[float(x) for x in Mv], expected=[float(x) for x in wantM]))
            if abs(float(ejv) - (float(M0v.sum()) - float(np.sum(Mv)))) > 1e-9 * max(float(M0v.sum()), 1e-300):
                chk.fail("the mass reported as ejected is exactly the mass removed from the arrays given", casev,
                         dict(reported=float(ejv), removed=float(M0v.sum()) - float(np.sum(Mv))))
    o = kicks.natal_kicks(M, N, method="SIGMOID", slope=1.0, scale=20.0)
    if not (o[0] is M and o[1] is N):
        chk.fail("kicks return the very arrays they were given", "natal_kicks", "new arrays")
    chk.trusted += ["harness/props/C15.py; scipy.special.erf as oracle reference", "FloatFun erf/exp",
"interp1d modelled from scipy's documented algorithm on pre-sorted columns"]


def classify(f):
    cl = f["clause"]
    if cl.startswith("Maxwellian retention") and (f.get("grid_unresolved") or f.get("vesc_beyond_grid")):
        return "maxwell_quadrature_grid"
    return None


def replay(chk, payload):
    run(chk)
