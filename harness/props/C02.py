"""C02 -- stellar evolution conserves objects (field-level, arbitrary states).

T3: Model/Sev.v float instance vs EvolvedMF._derivs_sev on arbitrary (t, y),
several layouts / metallicities / IFMR methods / retention fractions (the
expected retention fractions are the CONSTRUCTOR ARGUMENTS, not read back
from the object).  Oracle: support, balance, signs, m_rem <= mto, and exact
conservation of the object count along full runs with everything retained.
"""
import math
import warnings

import numpy as np

import common as C
import fieldutil as F
import implutil as U

STATIC = ["Model/Sev.vo"]
EXTRA_PROPS = ["RK", "C02b"]
IMPORTS = "From SSP Require Import Model.Pk Model.Lifetime Model.Bins Model.Sev."


def cfg_expr(car, args):
    mb = car.massbins
    a0, a1, a2 = map(float, car._tms_constants)
    return ("{| c_ms := %s; c_tms_u := %s; c_a0 := %s; c_a1 := %s; c_a2 := %s; c_Nmin := %s; c_res := %s; "
            "c_wd := %s; c_ns := %s; c_bh := %s; c_fwd := 1; c_fns := %s; c_fbh := %s |}" % (
                F.coq_bins(mb.bins.MS), C.fll(car.tms_u), C.fl(a0), C.fl(a1), C.fl(a2), C.fl(car.Nmin),
                C.fl(np.finfo(float).resolution), F.coq_bins(mb.bins.WD), F.coq_bins(mb.bins.NS), F.coq_bins(mb.bins.BH),
                C.fl(args["NS_ret"]), C.fl(args["BH_ret_int"])))


def ol(v):
    """list of option float -> list of float (None -> nan)"""
    return [float("nan") if x == "None" else float(x[2]) for x in v]


def run(chk):
    rng = chk.rng
    cars = F.carriers(5 if chk.tier == "quick" else None)
    nst = 60 if chk.tier == "quick" else 500
    dis = []
    ncase = 0
    for ci, (car, kw, args) in enumerate(cars):
        mb = car.massbins
        nb = mb.nbin
        defs = "Definition cfg : sev_cfg (T:=float) := %s.\n" % cfg_expr(car, args)
        exprs, meta = [], []
        for _ in range(nst):
            t = F.random_time(rng, car)
            y = F.random_state(rng, car)
            mto = float(car.compute_mto(np.array(t)))
            case = dict(carrier=ci, t=t, y=[float(v) for v in y])
            try:
                d = car._derivs_sev(t, y.copy())
                out = ("Ok", [list(map(float, a)) for a in mb.unpack_values(d)])
            except ValueError:
                out = ("Err", "ValueError")
            except IndexError:
                out = ("Err", "IndexError")
            if math.isfinite(mto):
                m_rem = float(car.IFMR.predict(mto))
                cls = car.IFMR.predict_type(mto)
            else:
                m_rem, cls = float("nan"), "WD"
            Ns, al = y[:nb.MS], y[nb.MS:2 * nb.MS]
            exprs.append("rmap (fun o => let d := sev_expand cfg o in [d_Ns d; d_alpha d; d_Nwd d; d_Nns d; d_Nbh d; d_Mwd d; "
                         "d_Mns d; d_Mbh d]) (sev_field (O:=F_ops) cfg %s %s %s %s %s)" % (
                             C.fl(t), C.fll(Ns), C.fll(al), C.fl(m_rem), cls))
            # knife edge: the guard `mto > lower[isev]` is decided by the last bits of pow/log
            knife = False
            gt = np.where(t > car.tms_u)[0]
            if gt.size and math.isfinite(mto):
                m1 = float(mb.bins.MS.lower[gt[0]])
                knife = abs(mto - m1) <= 1e-9 * m1
            case["knife_edge"] = bool(knife)
            meta.append((case, out, mto, m_rem, cls))
            chk.note_distinct(case)
            oracle(chk, car, args, case, out, mto, m_rem, cls)
        vals = C.eval_cases("C02_%d" % ci, IMPORTS, defs, exprs, shard=100)
        for (case, out, mto, m_rem, cls), v in zip(meta, vals):
            ncase += 1
            if case["knife_edge"]:
                chk.count("knife edge (turn-off mass within 1e-9 of a bin edge): not compared")
                continue
            if v[1] == "Err":
                if out != ("Err", v[2]):
                    dis.append(dict(input=case, impl=C.jsonable(out)[:2], model=["Err", v[2]]))
                continue
            marr = [ol(a) for a in v[2]]
            if out[0] != "Ok" or not all(C.all_close(a, b, rtol=1e-9, atol=1e-300) for a, b in zip(out[1], marr)):
                dis.append(dict(input=dict(case, mto=mto, m_rem=m_rem, cls=cls), impl=C.jsonable(out), model=C.jsonable(marr)))
        if ci == 0:
            chk.samples.append(dict(case=meta[0][0], impl=C.jsonable(meta[0][1])[:2]))
    chk.correspondence("sev_field (1e-9) vs EvolvedMF._derivs_sev on arbitrary (t, y)", ncase, dis)
    # ---- the retention fractions scale the remnant flux whatever the OTHER options are: natal kicks (applied at the output ages, not in the
    #      derivative), either kick method, a dynamical retention below one. Fixed configurations, nothing drawn from rng. ------------------
    emf_, *_ = U.mods()
    for kwk in (dict(natal_kicks=True, BH_ret_int=0.5, BH_ret_dyn=0.05, NS_ret=0.1),
                dict(natal_kicks=True, BH_ret_int=0.25, BH_ret_dyn=0.1, NS_ret=0.6, kick_method="maxwellian"),
                dict(natal_kicks=False, BH_ret_int=0.5, BH_ret_dyn=0.05, NS_ret=0.1)):
        try:
            with warnings.catch_warnings():
                warnings.simplefilter("ignore")
                mk = emf_.EvolvedMF.from_powerlaw(m_breaks=[0.1, 0.5, 1.0, 100], a_slopes=[-0.5, -1.3, -2.5], nbins=[5, 5, 20], FeH=-1.0,
                                                  tout=[50.0], esc_rate=0.0, N0=5e5, vesc=90, **kwk)
        except Exception as e:  # noqa
            chk.notes.append("C02 retention-with-kicks block: constructor refused %r (%s)" % (kwk, type(e).__name__))
            continue
        mbk = mk.massbins
        y0 = mbk.initial_values(N0=mk.N0)
        for m_to, cls_, fr in ((37.3, "BH", kwk["BH_ret_int"]), (60.0, "BH", kwk["BH_ret_int"]), (12.0, "NS", kwk["NS_ret"]), (3.0, "WD", 1.0)):
            tq = float(mk.compute_tms(m_to))
            if mk.IFMR.predict_type(float(mk.compute_mto(np.array(tq)))) != cls_:
                continue
            dNs_, _dal, dNr_, dMr_ = mbk.unpack_values(mk._derivs_sev(tq, y0.copy()), grouped_rem=True)
            lost, gained = -float(np.sum(dNs_)), float(np.sum(getattr(dNr_, cls_)))
            case_k = dict(options={k_: v_ for k_, v_ in kwk.items()}, turn_off_mass=m_to, t=tq, cls=cls_)
            chk.note_distinct(case_k)
            if not (lost > 0 and abs(gained - fr * lost) <= 1e-10 * lost):
                chk.fail("remnants appear at the retention fraction of their class times the rate at which stars leave, whatever the kick options",
                         case_k, dict(stars_leaving=lost, remnants_created=gained, retention=fr))
    # ---- trajectories: exact conservation of the object count ----------------
    full_runs(chk)
    chk.trusted += ["harness/props/C02.py, fieldutil.py (carriers, arbitrary states)",
                    "the IFMR prediction (m_rem, class) is an input of the model field (C09 covers the IFMR)",
                    "FloatFun pow/ln/exp"]


def oracle(chk, car, args, case, out, mto, m_rem, cls):
    if out[0] != "Ok":
        if math.isfinite(mto) and 0.7 <= mto <= min(150, car.IFMR.BH_mi.upper):
            wdpeak = cls == "WD" and m_rem >= car.IFMR.WD_mf.upper
            chk.fail("the derivative does not raise for a turn-off mass inside the IFMR range", case, out,
                     mto=mto, m_rem=m_rem, cls=cls, wd_peak=bool(wdpeak))
        return
    mb = car.massbins
    dNs, dal, dNwd, dNns, dNbh, dMwd, dMns, dMbh = out[1]
    dN = dict(WD=dNwd, NS=dNns, BH=dNbh)
    dM = dict(WD=dMwd, NS=dMns, BH=dMbh)
    frem = dict(WD=1.0, NS=args["NS_ret"], BH=args["BH_ret_int"])
    if any(x != 0 for x in dal):
        chk.fail("slopes do not change under stellar evolution", case, dal)
    nz = [i for i, x in enumerate(dNs) if x != 0]
    if len(nz) > 1:
        chk.fail("stars leave only one bin", case, nz)
    lo, up = mb.bins.MS.lower, mb.bins.MS.upper
    if nz:
        i = nz[0]
        chk.count("active turn-off")
        if not (lo[i] * (1 - 1e-9) <= mto < up[i] * (1 + 1e-9)):   # edge ages: rounding of mto(tms(edge))
            chk.fail("stars leave only the bin containing the turn-off mass", case, dict(bin=i, mto=mto))
        if dNs[i] > 0:
            chk.fail("per-bin star counts never grow", case, dNs[i])
    # the bin holding the turn-off mass must actually lose stars at the closed-form rate
    #   dN/dt = -(N_j / int_lo^mto m^alpha dm) * mto^alpha * |d mto / dt|
    nbm = len(lo)
    yv = case["y"]
    inside = [i for i in range(nbm) if lo[i] * (1 + 1e-6) < mto < up[i] * (1 - 1e-6)]
    if inside and math.isfinite(mto):
        i = inside[0]
        Nj, alj = yv[i], yv[nbm + i]
        t = case["t"]
        if Nj > car.Nmin * (1 + 1e-9) and (mto - lo[i]) / lo[i] > 1e-3:
            p = alj + 1
            integ = math.log(mto / lo[i]) if p == 0 else (mto ** p - lo[i] ** p) / p
            h = t * 1e-6
            speed = -(float(car.compute_mto(np.array(t + h))) - float(car.compute_mto(np.array(t - h)))) / (2 * h)
            want = -(Nj / integ) * mto ** alj * speed
            chk.count("turn-off flux evaluated")
            if not (abs(dNs[i] - want) <= 1e-5 * abs(want)):
                chk.fail("turn-off flux equals dN/dm at the turn-off mass times the sweep speed, from the bin containing it",
                         case, dict(bin=i, dNs=dNs[i], expected=want, mto=mto))
    x = dNs[nz[0]] if nz else 0.0
    if math.isnan(x):
        return
    for k in ("WD", "NS", "BH"):
        nzr = [j for j, v in enumerate(dN[k]) if v != 0]
        nzm = [j for j, v in enumerate(dM[k]) if v != 0]
        if k != cls and (nzr or nzm):
            chk.fail("remnants appear only in the class dictated by the IFMR", case, dict(cls=k, predicted=cls))
        if k == cls and nz and frem[k] == 0 and (nzr or nzm):
            chk.fail("remnant flux equals the stars leaving times the class retention fraction", case,
                     dict(cls=k, dNr=[dN[k][j] for j in nzr][:3], dNs=x, frem_from_constructor=0.0))
        if k == cls and nz and m_rem > 0 and frem[k] > 0:
            b = getattr(mb.bins, k)
            bl, bu = np.atleast_1d(b.lower), np.atleast_1d(b.upper)
            if len(nzr) != 1:
                chk.fail("every star that leaves re-appears in exactly one remnant bin", case, dict(cls=k, bins=nzr))
                continue
            j = nzr[0]
            if not (bl[j] <= m_rem < bu[j]):
                chk.fail("remnants are deposited in the bin bracketing the IFMR mass", case, dict(cls=k, bin=j, m_rem=m_rem))
            if abs(dN[k][j] - (-x * frem[k])) > 1e-9 * abs(x):
                chk.fail("remnant flux equals the stars leaving times the class retention fraction", case,
                         dict(cls=k, dNr=dN[k][j], dNs=x, frem_from_constructor=frem[k]))
            if abs(dM[k][j] - m_rem * dN[k][j]) > 1e-9 * abs(m_rem * dN[k][j]):
                chk.fail("remnant mass flux equals IFMR mass times number flux", case, dict(cls=k, dMr=dM[k][j], dNr=dN[k][j], m_rem=m_rem))
    if nz and mto >= 0.7 and m_rem > mto * (1 + 1e-12):   # progenitors that can turn off within ~15 Gyr
        chk.fail("remnant mass never exceeds the progenitor mass", case, dict(mto=mto, m_rem=m_rem))


def full_runs(chk):
    emf, _masses, ifmr_mod, _k = U.mods()
    rng = chk.rng
    # ---- the IFMR remnant mass never exceeds the progenitor's, for every relation the constructor accepts ------
    nif = 60 if chk.tier == "quick" else 600
    for r in range(nif):
        kind = rng.choice(["brokenpowerlaw", "brokenpowerlaw", "powerlaw", "linear", "table"])
        feh = rng.choice([-2.0, -1.0, -0.5, 0.0, -2.5, -1.5, rng.uniform(-2.5, 0.5)])
        if kind == "table":
            ikw = dict(BH_method=rng.choice(["banerjee20", "banerjee20-delayed", "cosmic-rapid", "cosmic-delayed"]))
        elif kind == "linear":
            ikw = dict(BH_method="linear", BH_kwargs=dict(slope=rng.choice([0.4, 0.9, 1.0, 1.1, 1.5]), scale=rng.choice([0.0, 0.2, -1.0, 3.0])))
        elif kind == "powerlaw":
            ikw = dict(BH_method="powerlaw", BH_kwargs=dict(exponent=rng.choice([1, 0.9, 1.1, 2]), slope=rng.choice([0.4, 0.9, 1.0, 1e-2]),
                                                           scale=rng.choice([0.0, 0.2, 1.0])))
        else:
            b1 = rng.choice([20, 19, 25]); b2 = b1 + rng.choice([2, 5]); b3 = rng.choice([36, 38, 41, 45, 60])
            ikw = dict(BH_method="brokenpowerlaw", BH_kwargs=dict(
                m_breaks=[b1, b2, b3, rng.choice([100, 150])], exponents=[1, rng.choice([3, 3, 2.5, 1]), 1],
                slopes=[rng.choice([1, 0.9]), rng.choice([6e-4, 5e-4, 8e-4, 0.3]), rng.choice([0.43, 0.9, 1.05])],
                scales=[0, rng.choice([0, 0, 1.0]), rng.choice([0, 0, 5.0])]))
        if kind == "brokenpowerlaw" and rng.random() < 0.3:
            # an increasing, strictly concave middle segment that passes the end-point validation (just under the 1:1 line at both ends)
            kwb = ikw["BH_kwargs"]
            e_ = rng.choice([0.5, 0.7, 0.3])
            b2_, b3_ = kwb["m_breaks"][1], kwb["m_breaks"][2]
            q_ = rng.choice([0.999, 0.98, 0.9])
            s_ = q_ * (b3_ - b2_) / (b3_ ** e_ - b2_ ** e_)
            kwb["exponents"], kwb["slopes"], kwb["scales"] = [1, e_, 1], [kwb["slopes"][0], s_, kwb["slopes"][2]], [0, q_ * b2_ - s_ * b2_ ** e_, kwb["scales"][2]]
        case = dict(FeH=feh, **ikw)
        try:
            obj = ifmr_mod.IFMR(feh, **ikw)
        except ValueError:
            chk.count("IFMR parameters refused by the constructor (ValueError)")
            continue
        except Exception as e:  # noqa
            chk.fail("IFMR construction either succeeds or raises ValueError", case, dict(error=type(e).__name__, msg=str(e)[:100]))
            continue
        chk.count("IFMR relations accepted and scanned")
        chk.note_distinct(case)
        top = min(float(obj.BH_mi.upper), float(rng.choice([150.0, 150.0, 250.0, 300.0])))
        grid = np.r_[np.linspace(0.7, top, 3001), [float(obj.WD_mi.upper), float(obj.BH_mi.lower), top]]
        grid = grid[grid <= top]
        mf = np.asarray(obj.predict(grid), dtype=float)
        # a star that leaves must re-appear: the remnant mass of every progenitor inside the IFMR's range is positive
        # (a zero would make the field drop the star silently, C02_zero_mass_skipped)
        inr = grid <= float(obj.BH_mi.upper)
        nonpos = np.flatnonzero(inr & ~(mf > 0))
        if nonpos.size:
            chk.fail("every star that leaves re-appears as a remnant: the IFMR remnant mass is positive over the whole progenitor range", case,
                     dict(m=float(grid[nonpos[0]]), m_rem=float(mf[nonpos[0]]), n_bad=int(nonpos.size)))
        bad = np.flatnonzero(mf > grid * (1 + 1e-12))
        if bad.size:
            i = int(bad[np.argmax((mf - grid)[bad])])
            seg_concave = False
            if ikw["BH_method"] == "brokenpowerlaw":
                kwb = ikw["BH_kwargs"]
                for j_ in range(3):
                    if all(kwb["m_breaks"][j_] <= grid[b_] <= kwb["m_breaks"][j_ + 1] for b_ in bad):
                        e_, s_ = kwb["exponents"][j_], kwb["slopes"][j_]
                        seg_concave = bool(s_ * e_ > 0 and s_ * e_ * (e_ - 1) < 0)
            chk.fail("the IFMR remnant mass never exceeds the progenitor's mass", case, dict(m=float(grid[i]), m_rem=float(mf[i]), n_bad=int(bad.size)),
                     all_in_one_increasing_concave_segment=seg_concave)
    nrun = 3 if chk.tier == "quick" else 20
    nyoung = 2 if chk.tier == "quick" else 10
    for r in range(nrun + nyoung):
        kw = dict(m_breaks=[0.1, 0.5, 1.0, 100], a_slopes=[rng.uniform(-1, 0), rng.uniform(-2, -1), rng.uniform(-3, -2)],
                  nbins=[rng.randint(2, 6), rng.randint(2, 6), rng.randint(5, 25)], FeH=rng.choice([-2.0, -1.0, 0.0]),
                  tout=rng.sample(sorted(rng.uniform(5, 13000) for _ in range(3)), 3) if r % 3 else sorted((rng.uniform(5, 13000) for _ in range(3)), reverse=True),
                  esc_rate=0, N0=10 ** rng.uniform(4, 6),
                  NS_ret=1.0, BH_ret_int=1.0, BH_ret_dyn=1.0)
        if r >= nrun:
            # young ages, while the turn-off mass is still inside the MOST MASSIVE stellar bin (coarse layouts: that bin's stars are much lighter
            # than the remnants they leave), together with age 0: the total mass must not exceed the IMF's at any of them
            kw["nbins"] = rng.choice([[1, 1, 2], [1, 1, 1], [2, 2, 3], [1, 2, 2]])
            kw["tout"] = [0.0] + sorted(rng.uniform(1.9, 9.0) for _ in range(3)) + [rng.choice([30.0, 100.0])]
            if r % 2:
                kw["tout"] = kw["tout"][::-1]
        try:
            m = emf.EvolvedMF.from_powerlaw(**kw)
        except Exception as e:  # noqa
            chk.notes.append("full run raised %s (reported under C04)" % type(e).__name__)
            continue
        if r < nrun and r % 2 == 1:
            # the same with escape switched on (number-normalised, before / after / across a core-collapse time): with every remnant retained
            # the number of objects changes by the integrated escape rate and by nothing else - every class of object is stripped
            rate_ = -float(rng.choice([5.0, 20.0])) * kw["N0"] / 5e5
            kwe = dict(kw, esc_rate=rate_, esc_norm="N", tcc=[1e9, 0.0, 4000.0][(r // 2) % 3])      # the first such run is always wholly before core collapse
            try:
                me = emf.EvolvedMF.from_powerlaw(**kwe)
            except Exception as e:  # noqa
                chk.notes.append("full run with escape raised %s (reported under C04)" % type(e).__name__)
                me = None
            if me is not None and me.converged:
                tot_e = me.Ns.sum(axis=1) + np.c_[me.Nr].sum(axis=1)
                want_e = kw["N0"] + rate_ * np.asarray(kw["tout"], dtype=float)
                chk.count("full runs with escape, all remnants retained")
                if np.any(np.abs(tot_e - want_e) > 1e-6 * kw["N0"] + 1e-3 * abs(rate_) * np.asarray(kw["tout"], dtype=float)):
                    chk.fail("with all remnants retained the total number of objects changes only by the integrated escape rate", kwe,
                             dict(N=tot_e.tolist(), expected=want_e.tolist(), BH_number=[float(x.sum()) for x in me.Nr.BH]))
        tot = m.Ns.sum(axis=1) + np.c_[m.Nr].sum(axis=1)
        chk.count("full runs")
        if np.any(np.abs(tot - kw["N0"]) > 1e-9 * kw["N0"]):
            chk.fail("with all remnants retained and no escape the number of objects stays N0", kw, tot.tolist())
        # "with age": the rows are read in the order of the REQUESTED ages (row i belongs to kw['tout'][i]; any order may be requested)
        order = np.argsort(np.asarray(kw["tout"], dtype=float), kind="stable")
        ages = [float(kw["tout"][i]) for i in order]
        Mt = (m.Ms.sum(axis=1) + np.c_[m.Mr].sum(axis=1))[order]
        if np.any(np.diff(Mt) > 1e-6 * Mt.max()):
            chk.fail("total mass never increases with age", kw, dict(ages=ages, total_mass=Mt.tolist()))
        Ns_o = m.Ns[order]
        if np.any(np.diff(Ns_o, axis=0) > 1e-9 * kw["N0"]):
            r_, b_ = np.unravel_index(int(np.argmax(np.diff(Ns_o, axis=0))), np.diff(Ns_o, axis=0).shape)
            chk.fail("per-bin star counts never grow", kw, dict(bin=int(b_), ages=ages[r_:r_ + 2], counts=[float(Ns_o[r_, b_]), float(Ns_o[r_ + 1, b_])]))
        for cn_, Nc_ in zip(("WD", "NS", "BH"), m.Nr):
            Nc_o = np.asarray(Nc_)[order]
            if np.any(np.diff(Nc_o, axis=0) < -1e-9 * kw["N0"]):
                r_, b_ = np.unravel_index(int(np.argmin(np.diff(Nc_o, axis=0))), np.diff(Nc_o, axis=0).shape)
                chk.fail("every star that leaves re-appears as a remnant: with everything retained no remnant bin loses objects with age", kw,
                         dict(cls=cn_, bin=int(b_), ages=ages[r_:r_ + 2], counts=[float(Nc_o[r_, b_]), float(Nc_o[r_ + 1, b_])]))


def classify(f):
    if f["clause"] == "the derivative does not raise for a turn-off mass inside the IFMR range" and f.get("wd_peak"):
        return "wd_peak_on_upper_edge"
    if f["clause"] == "the IFMR remnant mass never exceeds the progenitor's mass" and f["input"].get("BH_method") in ("linear", "powerlaw"):
        return "unbounded_bh_segment_upper_end_unchecked"
    if f["clause"] == "the IFMR remnant mass never exceeds the progenitor's mass" and f.get("all_in_one_increasing_concave_segment"):
        return "concave_segment_endpoint_validation"
    return None


def replay(chk, payload):
    """re-evaluate the oracle on exactly the stored (carrier, t, y)"""
    c = payload["failure"]["input"]
    if "carrier" not in c:
        return run(chk)
    car, kw, args = F.carriers(None)[c["carrier"]]
    mb = car.massbins
    y = np.array([C.unjson_float(v) for v in c["y"]])
    t = C.unjson_float(c["t"])
    mto = float(car.compute_mto(np.array(t)))
    try:
        out = ("Ok", [list(map(float, a)) for a in mb.unpack_values(car._derivs_sev(t, y.copy()))])
    except (ValueError, IndexError) as e:
        out = ("Err", type(e).__name__)
    m_rem, cls = (float(car.IFMR.predict(mto)), car.IFMR.predict_type(mto)) if math.isfinite(mto) else (float("nan"), "WD")
    print("t =", t, "mto =", mto, "m_rem =", m_rem, cls, "->", out[0])
    oracle(chk, car, args, dict(c, y=list(y), t=t), out, mto, m_rem, cls)
