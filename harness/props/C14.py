"""C14 -- lifetime / turn-off mass / sweep speed.

T1: msto.dat rows regenerated (sign obligation + theorems instantiated per row).
T2: the source expressions of compute_tms, compute_mto and BOTH copies of the
    hand-derived |dm_to/dt| proved equal to the model kernels.
T3: float instance vs compute_tms / compute_mto / the sweep speed observed
    from _derivs_sev and from the captured _derivs_BHs closure.
Oracle: inverse, monotonicity, central finite differences of compute_mto.
"""
import math
import warnings

import numpy as np

import common as C
import gen_formulas as GF
import gen_tables as GT
import implutil as U

STATIC = ["Model/Lifetime.vo", "Proofs/TableFacts.vo", "Proofs/LifetimeProofs.vo"]
IMPORTS = "From SSP Require Import Model.Lifetime."
A3 = {"a[0]": "a0", "a[1]": "a1", "a[2]": "a2"}


def capture_bh_closure(FeH, **kw):
    """Build an InitialBHPopulation with a capturing stand-in for `ode` and
    return the nested derivative function together with what it closes over."""
    emf, masses, ifmr, kicks = U.mods()
    cap = {}

    class Cap(U.FakeOde):
        def __init__(self, f):
            super().__init__(f)
            cap["f"] = f
    Cap.state_fn = staticmethod(lambda t, y0: y0)
    Cap.log = []
    old = emf.ode
    emf.ode = Cap
    try:
        imf = masses.PowerLawIMF([0.1, 0.5, 1.0, 100], [-0.5, -1.3, -2.5], N0=5e5)
        pop = emf.InitialBHPopulation.from_IMF(imf, kw.pop("nbins", [5, 5, 20]), FeH, natal_kicks=False, **kw)
    finally:
        emf.ode = old
    return cap["f"], pop


def run(chk):
    rng = chk.rng
    rows = GT.gen_msto(chk)
    n_per = 12 if chk.tier == "quick" else 120
    GF.tie(chk, "C14", [
        ("evolve_mf.EvolvedMF.compute_tms:return", "src_tms", ["a0", "a1", "a2", "mi"], "tms @@ a0 a1 a2 mi", A3),
        ("evolve_mf.EvolvedMF.compute_mto:out[]", "src_mto", ["a0", "a1", "a2", "t"],
         "Rpow_j J (Rdiv_j J (Rln_j J (Rdiv_j J t a0)) a1) (Rdiv_j J 1 a2)", {"np.asanyarray(t)[asympt]": "t"}),
        ("evolve_mf.EvolvedMF._derivs_sev:dmdt", "src_dmdt_main", ["a0", "a1", "a2", "t"], "dmdt @@ a0 a1 a2 t", A3),
        ("evolve_mf.InitialBHPopulation.from_IMF._derivs_BHs:dmdt", "src_dmdt_bh", ["a0", "a1", "a2", "t"],
         "dmdt @@ a0 a1 a2 t", A3),
        ("evolve_mf.InitialBHPopulation.from_IMF.compute_tms:return", "src_tms_bh", ["a0", "a1", "a2", "mi"],
         "tms @@ a0 a1 a2 mi", A3),
        ("evolve_mf.InitialBHPopulation.from_IMF.compute_mto:return#0", "src_mto_bh", ["a0", "a1", "a2", "t"],
         "Rpow_j J (Rdiv_j J (Rln_j J (Rdiv_j J t a0)) a1) (Rdiv_j J 1 a2)"),
    ], IMPORTS + "\nLocal Open Scope R_scope.")
    # ---- T3 on the two functions ---------------------------------------
    cases = []
    objs = {}
    for r in rows:
        feh, a0, a1, a2 = r
        obj = U.bare_emf()
        obj._tms_constants = np.array([a0, a1, a2])
        objs[feh] = obj
        for _ in range(n_per):
            m = 10 ** rng.uniform(math.log10(0.05), math.log10(300))
            t = rng.choice([a0 * (1 + 10 ** rng.uniform(-12, 0)), 10 ** rng.uniform(math.log10(a0), 6), a0, a0 * 0.5,
                            0.0, -3.0, 1e300, float("nan")])
            cases.append(dict(feh=feh, a=[a0, a1, a2], m=m, t=t))
        # the SAME masses and ages asked of every row in turn (one process, one model per row): each row answers with its own constants
        for m_, t_ in ((0.05, 12000.0), (1.0, 100.0), (250.0, 3.0), (300.0, 1e6), (2.5, 13000.0)):
            cases.append(dict(feh=feh, a=[a0, a1, a2], m=m_, t=t_))
    impl = []
    for c in cases:
        o = objs[c["feh"]]
        impl.append((float(o.compute_tms(c["m"])), float(o.compute_mto(np.array(c["t"])))))
    exprs = ["(tms (O:=F_ops) %s %s, mto (O:=F_ops) %s %s, dmdt (O:=F_ops) %s %s)" % (
        " ".join(map(C.fl, c["a"])), C.fl(c["m"]), " ".join(map(C.fl, c["a"])), C.fl(c["t"]),
        " ".join(map(C.fl, c["a"])), C.fl(c["t"])) for c in cases]
    model = C.eval_cases("C14f", IMPORTS, "", exprs)
    dis = []
    for c, i, m in zip(cases, impl, model):
        chk.note_distinct(c)
        a0, a1, a2 = c["a"]
        tol_tms = 1e-9 + 1e-14 * abs(a1 * c["m"] ** a2)
        ok1 = C.close_float(i[0], m[0], rtol=tol_tms)
        tol_mto = 1e-9
        if c["t"] > a0 and math.isfinite(c["t"]):
            x = math.log(c["t"] / a0)
            tol_mto = 1e-9 + 1e-15 / max(abs(x), 1e-300) / abs(a2) if x > 0 else 1.0
        ok2 = C.close_float(i[1], m[1], rtol=tol_mto) or tol_mto > 1e-3
        if not (ok1 and ok2):
            dis.append(dict(input=c, impl=C.jsonable(i), model=C.jsonable(m[:2])))
        # oracle: inverse
        if math.isfinite(i[0]) and i[0] > a0:
            back = float(objs[c["feh"]].compute_mto(np.array(i[0])))
            cond = 1e-9 + 1e-14 * abs(a1 * c["m"] ** a2) / abs(a2)
            chk.count("inverse evaluated")
            if abs(back - c["m"]) > cond * c["m"]:
                chk.fail("turn-off mass is the inverse of the lifetime", c, dict(tms=i[0], mto_of_tms=back))
        if c["t"] <= a0 and not (i[1] == float("inf")):
            chk.fail("turn-off mass is infinite up to the shortest lifetime", c, i[1])
    chk.correspondence("tms / mto (1e-9) vs compute_tms / compute_mto on all table rows", len(cases), dis)
    chk.samples.append(dict(case=cases[3], impl=C.jsonable(impl[3]), model=C.jsonable(model[3])))
    # ---- the row a model takes its lifetimes from: nearest tabulated metallicity (first on ties), through the constructors --------
    emf_, masses_, *_ = U.mods()
    grid_f = [r[0] for r in rows]
    old_ev = emf_.EvolvedMF._evolve
    emf_.EvolvedMF._evolve = lambda self: None
    try:
        for x in grid_f + [g + d for g in rng.sample(grid_f, 6) for d in (0.04, 0.06, -0.04, -0.06, 0.05)] + [-3.0, -2.6, 0.7, 0.55]:
            mdl = emf_.EvolvedMF.from_powerlaw([0.1, 0.5, 1.0, 100], [-0.5, -1.3, -2.5], [1, 1, 2], float(x), [100.0], 0)
            k_near = int(np.argmin(np.abs(np.array(grid_f) - x)))
            dist = abs(grid_f[k_near] - x)
            ok_rows = [r for r in rows if abs(abs(r[0] - x) - dist) <= 1e-12]       # all nearest rows (ties at x.x5)
            chk.count("constructor-level lifetime rows")
            if not any(np.array_equal(np.array(r[1:]), np.asarray(mdl._tms_constants, dtype=float)) for r in ok_rows):
                chk.fail("lifetimes are those of the nearest tabulated metallicity", dict(FeH=float(x)),
                         dict(used=[float(v) for v in mdl._tms_constants], nearest_row_FeH=grid_f[k_near]))
    finally:
        emf_.EvolvedMF._evolve = old_ev
    # ---- monotonicity on the implementation ---------------------------
    for r in rows:
        feh, a0, a1, a2 = r
        o = objs[feh]
        ms = np.sort(10 ** np.array([rng.uniform(math.log10(0.05), math.log10(300)) for _ in range(60)]))
        ms_before = ms.copy()
        tm = o.compute_tms(ms)
        if not np.array_equal(ms, ms_before):
            chk.fail("lifetimes of a mass grid leave the grid as it was", dict(feh=feh, masses=ms_before.tolist()), ms.tolist())
        if not np.all(np.diff(tm) < 0):
            chk.fail("lifetime decreases strictly with mass", dict(feh=feh, masses=ms.tolist()), tm.tolist())
        ts = np.sort(a0 * (1 + 10 ** np.array([rng.uniform(-6, 6) for _ in range(60)])))
        mt = o.compute_mto(ts)
        if not np.all(np.diff(mt) < 0):
            chk.fail("turn-off mass decreases with age", dict(feh=feh, ages=ts.tolist()), mt.tolist())
    # ---- array form: element i of the result belongs to age i (ages on both sides of a0, any order) ----
    exprs, meta = [], []
    for r in rows:
        feh, a0, a1, a2 = r
        o = objs[feh]
        for _ in range(3 if chk.tier == "quick" else 12):
            n = rng.choice([2, 3, 5, 8, 13])
            ts = [float(rng.choice([0.0, a0 * 0.5, a0, a0 * (1 + 10 ** rng.uniform(-9, 0)), 10 ** rng.uniform(math.log10(a0), 4.2),
                                    10 ** rng.uniform(0, 4.2)])) for _ in range(n)]
            if rng.random() < 0.3:
                ts = sorted(ts)
            case = dict(feh=feh, a=[a0, a1, a2], ages=ts)
            chk.note_distinct(case)
            for form in ("ndarray", "list"):
                try:
                    arg = np.array(ts, dtype=float) if form == "ndarray" else list(ts)
                    got = [float(x) for x in o.compute_mto(arg)]
                    # the same grid object asked again: the turn-off mass is a function of the age, so a float64 grid that
                    # is reused (as a caller evaluating tms(mto(t)) against t does) must still hold the ages and give the same answer
                    again = [float(x) for x in o.compute_mto(arg)]
                    if [float(x) for x in arg] != [float(x) for x in ts] or not C.all_same(got, again):
                        chk.fail("turn-off masses of a reused age grid: the grid still holds the ages and a second call returns the same masses",
                                 dict(case, form=form), dict(grid_after=[float(x) for x in arg], first=got, second=again))
                        continue
                except Exception as e:  # noqa
                    if form == "ndarray":
                        chk.fail("turn-off masses of an array of ages are returned without raising", case, dict(error=type(e).__name__, msg=str(e)[:80]))
                    continue
                one = [float(o.compute_mto(np.array(t))) for t in ts]
                if not C.all_same(got, one):
                    chk.fail("turn-off mass of an array of ages equals the element-wise turn-off masses (same order)", dict(case, form=form),
                             dict(array=got, elementwise=one))
                if form == "ndarray":
                    exprs.append("map (mto (O:=F_ops) %s) %s" % (" ".join(map(C.fl, [a0, a1, a2])), C.fll(ts)))
                    meta.append((case, got))
    vals = C.eval_cases("C14arr", IMPORTS, "", exprs)
    dis = []
    for (case, got), v in zip(meta, vals):
        a0, a1, a2 = case["a"]
        ok = len(v) == len(got)
        for t, g, m_ in zip(case["ages"], got, v if ok else []):
            tol = 1e-9
            if t > a0:
                x = math.log(t / a0)
                tol = 1e-9 + 1e-15 / max(abs(x), 1e-300) / abs(a2)
            if not (C.close_float(g, float(m_), rtol=tol) or tol > 1e-3):
                ok = False
        if not ok:
            dis.append(dict(input=case, impl=C.jsonable(got), model=C.jsonable(v)))
    chk.correspondence("map mto (1e-9) vs compute_mto on arrays of ages straddling the shortest lifetime", len(meta), dis)
    # ---- sweep speed actually used, main model and BH-population model --
    from ssptools.masses import Pk
    dis = []
    ncmp = 0
    fehs = [r[0] for r in rows] if chk.tier == "thorough" else [rows[0][0], rows[7][0], rows[15][0], rows[-1][0]]
    for feh in fehs:
        a0, a1, a2 = [r for r in rows if r[0] == feh][0][1:]
        car = U.base_emf(FeH=feh)
        f_bh, pop = capture_bh_closure(feh)
        mb = car.massbins
        y0 = mb.initial_values(N0=car.N0)
        tms_u = car.tms_u
        nms = mb.nbin.MS
        exprs, meta = [], []
        for _ in range(10 if chk.tier == "quick" else 60):
            t = float(rng.choice([10 ** rng.uniform(math.log10(tms_u[-1]) + 1e-3, math.log10(13000)),
                                  10 ** rng.uniform(math.log10(tms_u[-1]) + 1e-3, math.log10(pop.age))]))
            isev = int(np.where(t > tms_u)[0][0])
            mto = float(car.compute_mto(np.array(t)))
            m1 = float(mb.bins.MS.lower[isev])
            Ns, alpha, Nr, Mr = mb.unpack_values(y0.copy(), grouped_rem=True)
            if not (mto > m1):
                continue
            d = car._derivs_sev(t, y0.copy())
            dNs = mb.unpack_values(d, grouped_rem=True)[0]
            dNdm = float(Ns[isev] / Pk(alpha[isev], 1, m1, mto) * mto ** alpha[isev])
            speed_main = float(-dNs[isev] / dNdm)
            speed_bh = None
            if t <= pop.age:
                ybh = np.r_[y0[:nms], np.zeros(2 * mb.nbin.BH)]
                dbh = f_bh(t, ybh)
                dNdm_bh = float(Ns[isev] / Pk(car.IMF.a[-1], 1, m1, mto) * mto ** car.IMF.a[-1])
                speed_bh = float(-dbh[isev] / dNdm_bh)
            h = t * 1e-5
            fd = -float(car.compute_mto(np.array(t + h)) - car.compute_mto(np.array(t - h))) / (2 * h) if t - h > a0 else None
            exprs.append("dmdt (O:=F_ops) %s %s" % (" ".join(map(C.fl, (a0, a1, a2))), C.fl(t)))
            meta.append(dict(feh=feh, t=t, isev=isev, speed_main=speed_main, speed_bh=speed_bh, finite_diff=fd))
        mod = C.eval_cases("C14s%s" % str(feh).replace("-", "m").replace(".", "_"), IMPORTS, "", exprs)
        for me, mv in zip(meta, mod):
            ncmp += 1
            chk.note_distinct(dict(feh=me["feh"], t=me["t"]))
            for key in ("speed_main", "speed_bh"):
                if me[key] is None:
                    continue
                if not C.close_float(me[key], mv, rtol=1e-8):
                    dis.append(dict(input=dict(feh=me["feh"], t=me["t"], which=key), impl=me[key], model=mv))
                if me["finite_diff"] is not None:
                    chk.count("sweep speed vs finite difference (%s)" % key)
                    if abs(me[key] - me["finite_diff"]) > 1e-6 * abs(me["finite_diff"]):
                        chk.fail("sweep speed used by the evolution equals -d(m_to)/dt (%s)" % (
                            "main model" if key == "speed_main" else "initial-BH-population model"),
                            dict(feh=me["feh"], t=me["t"]), dict(used=me[key], finite_difference=me["finite_diff"]))
    # ---- IMFs reaching above the heaviest tabulated BH progenitor (the property quantifies over masses up to 300) -------------
    for feh in ([rows[0][0], rows[15][0]] if chk.tier == "quick" else [r[0] for r in rows[::3]]):
        a0, a1, a2 = [r for r in rows if r[0] == feh][0][1:]
        try:
            car = U.base_emf(FeH=feh, m_breaks=[0.1, 0.5, 1.0, 300.0], nbins=[3, 3, 14])
        except Exception as e:  # noqa
            chk.notes.append("wide-IMF carrier could not be built at FeH=%s: %s" % (feh, type(e).__name__))
            continue
        mb = car.massbins
        y0 = mb.initial_values(N0=car.N0)
        t_lo, t_hi = float(car.compute_tms(299.0)), float(car.compute_tms(120.0))
        t_grid = float(car.compute_tms(min(float(car.IFMR.BH_mi.upper) * 1.02, 295.0)))     # half of the ages: turn-off above the IFMR grid's heaviest progenitor
        for q_ in range(8 if chk.tier == "quick" else 40):
            t = t_lo * ((t_grid if q_ % 2 == 0 else t_hi) / t_lo) ** rng.random()
            isev = int(np.where(t > car.tms_u)[0][0])
            mto = float(car.compute_mto(np.array(t)))
            m1 = float(mb.bins.MS.lower[isev])
            Ns, alpha, Nr, Mr = mb.unpack_values(y0.copy(), grouped_rem=True)
            if not (mto > m1 * (1 + 1e-6)):
                continue
            try:
                dNs = mb.unpack_values(car._derivs_sev(t, y0.copy()), grouped_rem=True)[0]
            except ValueError:
                continue          # remnant of an extrapolated IFMR outside the BH bins (C09 / C04)
            dNdm = float(Ns[isev] / Pk(alpha[isev], 1, m1, mto) * mto ** alpha[isev])
            used = float(-dNs[isev] / dNdm)
            h = t * 1e-6
            fd = -float(car.compute_mto(np.array(t + h)) - car.compute_mto(np.array(t - h))) / (2 * h)
            chk.count("sweep speed vs finite difference (IMF up to 300 Msun)")
            chk.note_distinct(dict(feh=feh, t=t, mmax=300))
            if abs(used - fd) > 1e-5 * abs(fd):
                chk.fail("sweep speed used by the evolution equals -d(m_to)/dt (main model)", dict(feh=feh, t=t, m_to=mto, mmax=300.0),
                         dict(used=used, finite_difference=fd))
    # ---- the two functions on models BUILT with documented options (not on carriers): whatever the options - stellar evolution switched off,
    #      escape, another class - they are the functions of the metallicity's table row --------------------------------------------------
    emf_ = U.mods()[0]
    for feh, a0, a1, a2 in (rows if chk.tier == "thorough" else rng.sample(rows, 4)):
        for opt_ in (dict(stellar_evolution=False), dict(stellar_evolution=False, esc_rate=-5.0), dict(esc_rate=-5.0, tcc=3000.0)):
            kwm = dict(m_breaks=[0.1, 0.5, 1.0, 100], a_slopes=[-0.5, -1.3, -2.5], nbins=[2, 2, 4], FeH=feh, tout=[50.0], esc_rate=0.0, N0=1e5)
            kwm.update(opt_)
            try:
                with warnings.catch_warnings():
                    warnings.simplefilter("ignore")
                    mo_ = emf_.EvolvedMF.from_powerlaw(**kwm)
            except Exception as e:  # noqa
                chk.notes.append("option model raised %s for %s" % (type(e).__name__, opt_))
                continue
            chk.count("lifetime / turn-off functions read from models built with options")
            for mq_ in (0.05, 1.0, 40.0, 300.0):
                want_t = a0 * math.exp(a1 * mq_ ** a2)
                got_t = float(mo_.compute_tms(mq_))
                back_ = float(mo_.compute_mto(np.array(want_t * (1 + 1e-9))))
                if not (abs(got_t - want_t) <= 1e-12 * want_t) or not (abs(back_ - mq_) <= 1e-6 * mq_):
                    chk.fail("lifetime and turn-off mass are mutual inverses (functions of the table row, whatever the model's options)", dict(feh=feh, options=opt_, m=mq_),
                             dict(lifetime=got_t, closed_form=want_t, turnoff_of_that_lifetime=back_))
                    break
    # ---- late ages, every row: the property quantifies over ages up to 1e6 Myr (turn-off masses down to ~0.3 Msun, where some rows' WD
    #      relation has already dropped to zero or below) ------------------------------------------------------------------------------
    late_exprs, late_meta = [], []
    late_rows = [(r_, None) for r_ in rows] + [(r_, [1, 1, 2]) for r_ in (rows if chk.tier == "thorough" else rng.sample(rows, 5))]
    for (feh, a0, a1, a2), coarse in late_rows:
        try:
            # (second pass: coarse layouts, whose LOWEST stellar bin [0.1, 0.5] is the one turning off beyond ~8e4 Myr)
            car = U.base_emf(FeH=feh) if coarse is None else U.base_emf(FeH=feh, nbins=coarse)
        except Exception as e:  # noqa
            chk.notes.append("carrier could not be built at FeH=%s: %s" % (feh, type(e).__name__))
            continue
        mb = car.massbins
        y0 = mb.initial_values(N0=car.N0)
        for _ in range(5 if chk.tier == "quick" else 30):
            t = 10 ** rng.uniform(math.log10(1.4e4), 6.0) if coarse is None else 10 ** rng.uniform(math.log10(9e4), 6.0)
            isev = int(np.where(t > car.tms_u)[0][0])
            mto = float(car.compute_mto(np.array(t)))
            m1 = float(mb.bins.MS.lower[isev])
            Ns, alpha, Nr, Mr = mb.unpack_values(y0.copy(), grouped_rem=True)
            if not (mto > m1 * (1 + 1e-6)):
                continue
            try:
                dNs = mb.unpack_values(car._derivs_sev(t, y0.copy()), grouped_rem=True)[0]
            except ValueError:
                chk.count("late ages whose WD mass falls below the lowest WD bin (lookup raises; ages beyond the documented 14 Gyr of C04)")
                continue
            dNdm = float(Ns[isev] / Pk(alpha[isev], 1, m1, mto) * mto ** alpha[isev])
            used = float(-dNs[isev] / dNdm)
            h = t * 1e-6
            fd = -float(car.compute_mto(np.array(t + h)) - car.compute_mto(np.array(t - h))) / (2 * h)
            chk.count("sweep speed vs finite difference (ages 1.4e4 - 1e6 Myr, all rows)")
            chk.note_distinct(dict(feh=feh, t=t, late=True))
            if abs(used - fd) > 1e-5 * abs(fd):
                chk.fail("sweep speed used by the evolution equals -d(m_to)/dt (main model)",
                         dict(feh=feh, t=t, m_to=mto, m_rem=float(car.IFMR.predict(mto)), nbins=coarse or [5, 5, 20], turnoff_bin=isev), dict(used=used, finite_difference=fd))
            late_exprs.append("dmdt (O:=F_ops) %s %s" % (" ".join(map(C.fl, (a0, a1, a2))), C.fl(t)))
            late_meta.append(dict(feh=feh, t=t, used=used))
    for me, mv in zip(late_meta, C.eval_cases("C14late", IMPORTS, "", late_exprs)):
        ncmp += 1
        if not C.close_float(me["used"], mv, rtol=1e-8):
            dis.append(dict(input=dict(feh=me["feh"], t=me["t"], which="speed_main (late age)"), impl=me["used"], model=mv))
    chk.correspondence("dmdt (1e-8) vs the speed observed in _derivs_sev and in the captured _derivs_BHs", ncmp, dis)
    chk.trusted += [
        "translators harness/gen_tables.py (msto.dat -> exact decimals) and harness/gen_formulas.py (ast -> Gallina)",
        "FloatFun.v pow/ln/exp (1e-9 correspondence)", "harness/props/C14.py (generators, closure capture, finite differences)",
    ]


def replay(chk, payload):
    print(payload["failure"])
    run(chk)
