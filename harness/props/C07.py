"""C07 -- dynamical BH retention (standard model).

Tie (T3, bit-exact): Model/Eject.v `dyn_eject` vs EvolvedMF._dyn_eject_BH on
arbitrary arrays; `bh_post` vs the post-processing block of
EvolvedMF._evolve, driven through the real `_evolve` with a stand-in solver
that hands it chosen BH arrays.  Oracle: the property's clauses evaluated on
every implementation output.
"""
import copy
import math
import warnings

import numpy as np

import common as C
import implutil as U

STATIC = ["Model/Eject.vo", "Model/Gate.vo"]
EXTRA_PROPS = ["C07b"]
IMPORTS = "From SSP Require Import Model.Eject Model.Gate."


# ------------------------------------------------------------------ inputs
def gen_array(rng, nmax=40):
    n = rng.choice([1, 1, 2, 2, 3, 3, 4, 5, 6, 8, 12, 20, nmax])
    style = rng.choice(["dyadic", "random", "random", "ints", "tiny"])
    pempty = rng.choice([0.0, 0.0, 0.2, 0.5, 0.9])
    M, N = [], []
    for _ in range(n):
        if rng.random() < pempty:
            M.append(0.0)
            N.append(0.0)
            continue
        if style == "dyadic":
            m = rng.randint(1, 64) / 4.0
            k = rng.randint(1, 32) / 2.0
        elif style == "ints":
            m = float(rng.randint(1, 50))
            k = float(rng.randint(1, 10))
        elif style == "tiny":
            m = 10 ** rng.uniform(-6, 0)
            k = m / rng.uniform(5, 40)
        else:
            m = 10 ** rng.uniform(-1, 4)
            k = m / rng.uniform(3, 60)
        M.append(m)
        N.append(k)
    return M, N


def gen_E(rng, M):
    tot = float(np.sum(M))
    suffix = [float(np.sum(M[i:])) for i in range(len(M))]
    kind = rng.choice(["zero", "frac", "frac", "frac", "suffix", "suffix_ulp", "total", "over", "neg", "tiny"])
    if kind == "zero":
        return 0.0
    if kind == "frac":
        return tot * rng.random()
    if kind == "suffix":
        return rng.choice(suffix)
    if kind == "suffix_ulp":
        s = rng.choice(suffix)
        return float(np.nextafter(s, rng.choice([-1e308, 1e308])))
    if kind == "total":
        return tot
    if kind == "over":
        return tot * (1 + 10 ** rng.uniform(-12, 0)) + rng.choice([0, 1e-9, 1.0])
    if kind == "neg":
        return -rng.random()
    return tot * 10 ** rng.uniform(-15, -3)


def impl_eject(M, N, E):
    obj = U.bare_emf()
    obj.BH_ret_dyn = 0.37          # the model's own fraction must play no role when the budget is given explicitly (zero included)
    Mr, Nr = np.array(M, dtype=float), np.array(N, dtype=float)
    try:
        r = obj._dyn_eject_BH(Mr, Nr, M_eject=E)
    except ValueError:
        return ("Err", "ValueError", None)
    except Exception as e:  # noqa
        return ("Err", type(e).__name__, None)
    same = (r[0] is Mr) and (r[1] is Nr)
    return ("Ok", list(map(float, Mr)), list(map(float, Nr)), same)


def model_out(v):
    """Parsed Coq value of `res (list (float*float))` -> comparable form"""
    if isinstance(v, tuple) and v[0] == "app" and v[1] == "Ok":
        l = v[2]
        return ("Ok", [float(p[0]) for p in l], [float(p[1]) for p in l])
    if isinstance(v, tuple) and v[0] == "app" and v[1] == "Err":
        return ("Err", v[2], None)
    if isinstance(v, tuple) and v[0] == "app" and v[1] == "PostOk":
        l = v[2]
        return ("Ok", [float(p[0]) for p in l], [float(p[1]) for p in l])
    if v in ("PostErrKicks", "PostErrEject"):
        return ("Err", v, None)
    raise ValueError("unexpected model output %r" % (v,))


# ------------------------------------------------------------------ oracle
def oracle_array(chk, case, out):
    """Property clauses on one direct call of the ejection routine."""
    M, N, E = case["M"], case["N"], case["E"]
    from fractions import Fraction
    tot = math.fsum(M)
    exact = sum(Fraction(m) for m in M)
    wf = all((m >= 0 and n >= 0 and ((m > 0) == (n > 0))) for m, n in zip(M, N))
    if not wf or not (E >= 0):
        return
    slack = 1e-9 * max(tot, 1e-300)
    if Fraction(E) > exact:
        if E > tot + slack:
            chk.count("E > total")
            if out[0] != "Err":
                chk.fail("over-ejection must raise ValueError", case, out)
        else:
            chk.count("E above total by rounding only (knife edge, no demand)")
        return
    if out[0] == "Err":
        chk.fail("ejecting no more than exists must not raise", case, out,
                 near_total=bool(E > tot - slack))
        return
    chk.count("0 <= E <= total")
    M2, N2 = out[1], out[2]
    if any(math.isnan(x) for x in M2 + N2):
        chk.fail("no count or mass becomes NaN", case, out,
                 cut_bin_empty=_cut_bin_empty(M, N, E))
        return
    tol = 1e-9 * max(tot, 1e-300)
    if any(x < -tol for x in M2) or any(x < -1e-9 * max(max(N), 1e-300) for x in N2):
        chk.fail("no count or mass becomes negative", case, out)
    if abs(math.fsum(M2) - (tot - E)) > 4 * tol:
        chk.fail("mass removed equals the requested amount", case, out)
    # cut structure: find the highest bin not zeroed
    n = len(M)
    changed = [i for i in range(n) if not (C.same_float(M[i], M2[i]) and C.same_float(N[i], N2[i]))]
    if changed:
        c = min(changed)
        for i in range(c + 1, n):
            if not (M2[i] == 0 and N2[i] == 0):
                chk.fail("every bin above the cut is emptied", case, out, bin=i)
                break
        if not (M2[c] == 0 and N2[c] == 0):
            # partly depleted bin keeps its mean mass
            if N[c] > 0 and N2[c] > 1e-9 * N[c] and M2[c] > 1e-9 * M[c]:
                if abs(M2[c] / N2[c] - M[c] / N[c]) > 1e-6 * (M[c] / N[c]):
                    chk.fail("partly depleted bin keeps its mean mass", case, out, bin=c)
    # heaviest first: a bin may only change if all heavier bins are empty after
    for i in changed:
        if any(M2[j] != 0 for j in range(i + 1, n)):
            chk.fail("bins are removed heaviest first", case, out, bin=i)
            break


def _cut_bin_empty(M, N, E):
    """Does the ejection loop land (with nothing left to remove) on an empty bin?"""
    e = E
    for j in range(len(M) - 1, -1, -1):
        if M[j] < e:
            e -= M[j]
            continue
        return bool(M[j] == 0 and N[j] == 0 and e == 0)
    return False


def _rounding_case(M, E, need_exact=True):
    """The listed finding: with the loop as written (heaviest first, whole bins
    while M_j < budget) the float budget runs off the array although in exact
    arithmetic E <= sum(M)."""
    from fractions import Fraction
    M = [C.unjson_float(x) for x in M]
    E = C.unjson_float(E)
    if need_exact and not (sum(Fraction(m) for m in M) >= Fraction(E)):
        return False
    e = E
    for j in range(len(M) - 1, -1, -1):
        if M[j] < e:
            e -= M[j]
            continue
        return False
    return True


def classify(f):
    cl = f["clause"]
    if cl == "no count or mass becomes NaN" and f.get("cut_bin_empty"):
        return "eject_nan_empty_cut_bin"
    if cl == "ejecting no more than exists must not raise" and f.get("near_total") \
            and _rounding_case(f["input"]["M"], f["input"]["E"]):
        return "eject_exact_total_rounding"
    if cl == "row: a feasible retention must not raise" and f.get("near_total") \
            and _rounding_case(f["M_after_kicks"], f["budget"], need_exact=False):
        return "eject_exact_total_rounding"
    if cl == "row: no count or mass becomes NaN" and f.get("cut_bin_empty"):
        return "eject_nan_empty_cut_bin"
    return None


# --------------------------------------------------------------- full path
def carriers():
    out = []
    for nb in ([5, 5, 3], [5, 5, 8], [5, 5, 20], [2, 2, 40]):
        out.append(U.base_emf(nbins=nb))
    return out


def run_post(carrier, Mbh, Nbh, ret_dyn, rfac, T):
    """Run the real EvolvedMF._evolve on a chosen solver state."""
    emf, masses, ifmr, kicks = U.mods()
    obj = copy.copy(carrier)
    obj.BH_ret_dyn = ret_dyn
    obj.natal_kicks = rfac is not None
    obj.tout = np.array([T])
    obj.t = np.array([T])
    mb = obj.massbins
    y0 = mb.initial_values(N0=obj.N0)
    Ns, alpha, Nr, Mr = mb.unpack_values(y0.copy(), grouped_rem=True)
    Nr.BH[:] = Nbh
    Mr.BH[:] = Mbh
    yT = mb.pack_values(Ns, alpha, *Nr, *Mr)
    rec = {}

    def fake_kicks(Mr_BH, Nr_BH, **kw):
        ej = 0.0
        for j in range(Mr_BH.size):
            ej += Mr_BH[j] * (1 - rfac[j])
            Mr_BH[j] *= rfac[j]
            Nr_BH[j] *= rfac[j]
        rec["after"] = (list(map(float, Mr_BH)), list(map(float, Nr_BH)))
        rec["kicked"] = float(ej)
        return Mr_BH, Nr_BH, ej

    with U.fake_ode(lambda t, y0_: yT), U.patched(emf.kicks, "natal_kicks", fake_kicks):
        try:
            obj._evolve()
        except ValueError as e:
            tag = "PostErrKicks" if "Natal kicks already removed" in str(e) else "PostErrEject"
            return ("Err", tag, None), rec
    return ("Ok", list(map(float, obj.Mr.BH[0])), list(map(float, obj.Nr.BH[0]))), rec


def run_post_rows(carrier, Mbh, Nbh, ret_dyn, rfac, Ts):
    """The same, on a schedule of several ages (the solver state holds the same BHs at each of them): one output per row."""
    emf, masses, ifmr, kicks = U.mods()
    obj = copy.copy(carrier)
    obj.BH_ret_dyn = ret_dyn
    obj.natal_kicks = rfac is not None
    obj.tout = np.array(Ts, dtype=float)
    obj.t = np.sort(obj.tout)
    mb = obj.massbins
    y0 = mb.initial_values(N0=obj.N0)
    Ns, alpha, Nr, Mr = mb.unpack_values(y0.copy(), grouped_rem=True)
    Nr.BH[:] = Nbh
    Mr.BH[:] = Mbh
    yT = mb.pack_values(Ns, alpha, *Nr, *Mr)
    recs = []

    def fake_kicks(Mr_BH, Nr_BH, **kw):
        ej = 0.0
        for j in range(Mr_BH.size):
            ej += Mr_BH[j] * (1 - rfac[j])
            Mr_BH[j] *= rfac[j]
            Nr_BH[j] *= rfac[j]
        recs.append(dict(after=(list(map(float, Mr_BH)), list(map(float, Nr_BH))), kicked=float(ej)))
        return Mr_BH, Nr_BH, ej

    with U.fake_ode(lambda t, y0_: yT), U.patched(emf.kicks, "natal_kicks", fake_kicks):
        try:
            obj._evolve()
        except ValueError as e:
            tag = "PostErrKicks" if "Natal kicks already removed" in str(e) else "PostErrEject"
            return [("Err", tag, None)] * len(Ts), recs
    return [("Ok", list(map(float, obj.Mr.BH[i])), list(map(float, obj.Nr.BH[i]))) for i in range(len(Ts))], recs


def oracle_post(chk, case, out, rec):
    M, N = case["M"], case["N"]
    ret, formed = case["ret_dyn"], case["formed"]
    tot = float(np.sum(M))
    if not formed:
        if out[0] != "Ok" or not (C.all_same(out[1], M) and C.all_same(out[2], N)):
            chk.fail("row: BH untouched before BHs form", case, out)
        return
    kicked = rec.get("kicked", 0.0)
    budget = tot * (1 - ret)
    m0 = M[0] / N[0] if N[0] > 0 else float("nan")
    shortcut = (0 <= (tot * ret) / m0 < 0.1) if N[0] > 0 else False
    if shortcut:
        chk.count("shortcut")
        if out[0] != "Ok" or any(x != 0 for x in out[1] + out[2]):
            chk.fail("row: retained mass below a tenth of a lightest BH zeroes all BHs", case, out)
        return
    if kicked > budget * (1 + 1e-9) + 1e-12 * tot:
        chk.count("kicks exceed budget")
        if out != ("Err", "PostErrKicks", None):
            chk.fail("row: kicks exceeding the budget raise ValueError", case, out)
        return
    if kicked > budget * (1 - 1e-9) - 1e-12 * tot:
        return  # knife edge
    Mk_, _ = rec.get("after", (M, N))
    if budget - kicked > math.fsum(Mk_) * (1 + 1e-9) + 1e-300:
        chk.count("asked to eject more than exists")
        if out != ("Err", "PostErrEject", None):
            chk.fail("row: ejecting more than the BH mass that exists raises ValueError", case, out)
        return
    if out[0] == "Err":
        Mk, Nk = rec.get("after", (M, N))
        chk.fail("row: a feasible retention must not raise", case, out, budget=budget - kicked, M_after_kicks=Mk,
                 near_total=bool(budget - kicked > (1 - 1e-9) * math.fsum(Mk)))
        return
    chk.count("budget met")
    M2, N2 = out[1], out[2]
    if any(math.isnan(x) for x in M2 + N2):
        Mk, Nk = rec.get("after", (M, N))
        chk.fail("row: no count or mass becomes NaN", case, out,
                 cut_bin_empty=_cut_bin_empty(Mk, Nk, budget - kicked))
        return
    if abs(math.fsum(M2) - ret * tot) > 1e-9 * max(tot, 1e-300):
        chk.fail("row: BH mass remaining equals ret_dyn times BH mass formed", case, out,
                 expected=ret * tot, got=math.fsum(M2))
    if any(x < 0 for x in M2 + N2):
        if min(M2 + N2) < -1e-9 * max(tot, max(N)):
            chk.fail("row: no count or mass becomes negative", case, out)


# --------------------------------------------------------------------- run
CORPUS = [
    dict(M=[10.0, 0.0], N=[2.0, 0.0], E=0.0),            # empty top bin, nothing to eject
    dict(M=[6.4, 1.2, 8.8, 1.9], N=[1.0, 1.0, 1.0, 1.0], E=18.3),  # E <= exact total, running budget rounds up
    dict(M=[3.3, 7.7, 10.1], N=[1.0, 1.0, 1.0], E=21.1),  # E = float sum, 1 ulp above the exact total
    dict(M=[5.0, 0.0, 8.0, 12.0], N=[5.0, 0.0, 4.0, 3.0], E=10.0),
    dict(M=[1.0, 2.0, 3.0], N=[1.0, 1.0, 1.0], E=7.0),
    dict(M=[0.0, 0.0], N=[0.0, 0.0], E=0.0),
    dict(M=[4.0], N=[2.0], E=4.0),
]


def run(chk):
    rng = chk.rng
    n_arr = 1500 if chk.tier == "quick" else 12000
    n_post = 240 if chk.tier == "quick" else 1600
    # ---- array level ------------------------------------------------
    cases = [dict(c) for c in CORPUS]
    while len(cases) < n_arr:
        M, N = gen_array(rng)
        cases.append(dict(M=M, N=N, E=gen_E(rng, M)))
    impl = [impl_eject(c["M"], c["N"], c["E"]) for c in cases]
    exprs = ["dyn_eject (O:=F_ops) %s %s" % (C.pairs(c["M"], c["N"]), C.fl(c["E"])) for c in cases]
    model = [model_out(v) for v in C.eval_cases("C07a", IMPORTS, "", exprs)]
    dis = []
    for c, i, m in zip(cases, impl, model):
        if any(x != 0 for x in c["M"]):
            chk.note_distinct(c)
        ok = (i[0] == m[0]) and (i[0] == "Err" and i[1] == m[1] or
                                 i[0] == "Ok" and C.all_same(i[1], m[1]) and C.all_same(i[2], m[2]))
        if not ok:
            dis.append(dict(input=C.jsonable(c), impl=C.jsonable(i), model=C.jsonable(m)))
        if i[0] == "Ok" and not i[3]:
            chk.fail("in-place routine returns the arrays it was given", c, i)
        oracle_array(chk, c, i)
    chk.correspondence("dyn_eject (bit-exact) vs EvolvedMF._dyn_eject_BH", len(cases), dis)
    chk.samples.append(dict(kind="array", case=C.jsonable(cases[7]), impl=C.jsonable(impl[7])))
    # ---- full path --------------------------------------------------
    cars = carriers()
    pcases, pimpl, precs = [], [], []
    for k in range(n_post):
        car = cars[k % len(cars)]
        nb = car.massbins.nbin.BH
        M, N = gen_array(rng, nmax=nb)
        # fit to nb bins; force a populated lightest bin most of the time
        M = (M + [0.0] * nb)[:nb]
        N = (N + [0.0] * nb)[:nb]
        if rng.random() < 0.8 and M[0] == 0:
            M[0], N[0] = 40.0 * rng.uniform(0.5, 2), rng.uniform(1, 5)
        ret = rng.choice([0.0, 1.0, 1.0, 0.5, rng.random(), rng.random() ** 4, 1 - rng.random() ** 4,
                          1e-4 * rng.random(), -0.05, -1.0, 1.2])
        rf = None
        if rng.random() < 0.4:
            rf = [rng.choice([1.0, rng.random(), 1 - rng.random() ** 3]) for _ in range(nb)]
        # BHs exist from the lifetime of the heaviest BH progenitor of the IFMR on (computed here from the lifetime law)
        gate = float(car.compute_tms(car.IFMR.BH_mi.upper))
        T = rng.choice([12000.0, 12000.0, 12000.0, 0.5 * gate, float(np.nextafter(gate, 0)), gate * 1.02, max(1.9, gate * 1.1), 2.1, 3.0, 5.0, 40.0])
        case = dict(car=k % len(cars), M=M, N=N, ret_dyn=ret, rfac=rf, T=T, formed=bool(T > gate),
                    gate=[float(x) for x in car._tms_constants] + [float(car.IFMR.BH_mi.upper)], knife=bool(abs(T - gate) <= 1e-9 * gate))
        out, rec = run_post(car, M, N, ret, rf, T)
        pcases.append(case)
        pimpl.append(out)
        precs.append(rec)
        chk.note_distinct(case)
        oracle_post(chk, case, out, rec)
    # ---- several output ages: every row is processed on its own (no carry-over of ejections or kicks between rows) ----
    for k in range(n_post // 4):
        car = cars[k % len(cars)]
        nb = car.massbins.nbin.BH
        M, N = gen_array(rng, nmax=nb)
        M = (M + [0.0] * nb)[:nb]
        N = (N + [0.0] * nb)[:nb]
        if M[0] == 0:
            M[0], N[0] = 40.0 * rng.uniform(0.5, 2), rng.uniform(1, 5)
        ret = rng.choice([1.0, 0.5, 0.3 + 0.6 * rng.random(), 0.8])
        rf = [rng.choice([1.0, 1 - 0.2 * rng.random()]) for _ in range(nb)] if rng.random() < 0.5 else None
        Ts = rng.sample([12000.0, 9000.0, 3000.0, 100.0, 0.3, 2.0, 4.0], rng.choice([2, 3]))
        outs, recs = run_post_rows(car, M, N, ret, rf, Ts)
        formed_recs = iter(recs)
        for irow in np.argsort(Ts):            # rows are processed in time order; one kick record per formed row
            T = Ts[irow]
            gate = float(car.compute_tms(car.IFMR.BH_mi.upper))
            case = dict(car=k % len(cars), M=M, N=N, ret_dyn=ret, rfac=rf, T=T, formed=bool(T > gate), schedule=Ts, row=int(irow),
                        gate=[float(x) for x in car._tms_constants] + [float(car.IFMR.BH_mi.upper)], knife=bool(abs(T - gate) <= 1e-9 * gate))
            rec = next(formed_recs, {}) if (rf is not None and T > gate) else {}
            if outs[irow][0] == "Err" and T <= gate:
                continue      # the construction raised at a later (formed) row: that row is judged, by the single-row rules
            chk.note_distinct(case)
            pcases.append(case)
            pimpl.append(outs[irow])
            precs.append(rec)
            oracle_post(chk, case, outs[irow], rec)
            if outs[irow][0] == "Err":
                break
    # ---- complete constructions with the REAL natal kicks: kicks count toward the ejected share, so the BH mass remaining is
    #      ret_dyn times the BH mass formed (formed: the same model with full retention and no kicks) --------------------------
    emf, *_ = U.mods()
    for r_ in range(3 if chk.tier == "quick" else 16):
        kwf = dict(m_breaks=[0.1, 0.5, 1.0, 100], a_slopes=[-0.5, -1.3, -2.5], nbins=[3, 3, int(rng.choice([8, 12]))], FeH=float(rng.choice([-1.0, -2.0, 0.0])),
                   tout=[float(rng.choice([50.0, 3000.0, 12000.0]))], esc_rate=0.0, N0=5e5)
        km = ["sigmoid", "maxwellian", "sigmoid"][r_ % 3]
        kk = dict(natal_kicks=True, kick_method=km, BH_ret_dyn=float(rng.choice([0.3, 0.4])))
        kk.update(dict(vesc=float(rng.choice([90.0, 200.0]))) if km == "maxwellian" else dict(kick_slope=float(rng.choice([0.5, 1.0])), kick_scale=float(rng.choice([8.0, 12.0]))))
        case_f = dict(kwf, **kk)
        try:
            with warnings.catch_warnings():
                warnings.simplefilter("ignore")
                formed = emf.EvolvedMF.from_powerlaw(BH_ret_dyn=1.0, **kwf)
                kicked_m = emf.EvolvedMF.from_powerlaw(**kwf, **kk)
        except ValueError as e:
            if "Natal kicks already removed" in str(e):
                chk.count("complete construction: kicks exceed the budget (by design)")
                continue
            chk.fail("row: a feasible retention must not raise", case_f, dict(error=str(e)[:100]))
            continue
        except TypeError:
            chk.notes.append("kick keyword names differ; complete-construction kick check skipped")
            break
        chk.count("complete constructions with real natal kicks")
        chk.note_distinct(case_f)
        tot_f, tot_k = float(formed.Mr.BH[-1].sum()), float(kicked_m.Mr.BH[-1].sum())
        if tot_f > 0 and abs(tot_k - kk["BH_ret_dyn"] * tot_f) > 2e-3 * tot_f:
            chk.fail("row: BH mass remaining equals ret_dyn times BH mass formed", case_f, dict(formed=tot_f, remaining=tot_k, ratio=tot_k / tot_f))
    # the same without kicks, through BOTH constructors and with the two BH retention fractions different from each other: the BH mass
    # remaining is the REQUESTED dynamical fraction of what the same model forms with full dynamical retention
    from ssptools.masses import PowerLawIMF as PLI_
    for r_ in range(4 if chk.tier == "quick" else 16):
        mbk_, sl_ = [0.1, 0.5, 1.0, 100], [-0.5, -1.3, -2.5]
        common_ = dict(nbins=[3, 3, int(rng.choice([8, 12]))], FeH=float(rng.choice([-1.0, -2.0, 0.0])), tout=[float(rng.choice([50.0, 3000.0, 12000.0]))], esc_rate=0.0)
        ri_, rd_ = [(1.0, 0.3), (0.8, 1.0), (0.6, 0.9), (0.9, 0.45)][r_ % 4]
        via_ = ["from_powerlaw", "primary constructor"][(r_ // 4) % 2] if chk.tier != "quick" else "from_powerlaw"
        case_c = dict(common_, BH_ret_int=ri_, BH_ret_dyn=rd_, through=via_)
        with warnings.catch_warnings():
            warnings.simplefilter("ignore")
            formed = emf.EvolvedMF(PLI_(mbk_, sl_, N0=5e5), common_["nbins"], common_["FeH"], common_["tout"], 0.0, N0=5e5, BH_ret_int=ri_, BH_ret_dyn=1.0)
            if via_ == "from_powerlaw":
                got_ = emf.EvolvedMF.from_powerlaw(mbk_, sl_, N0=5e5, BH_ret_int=ri_, BH_ret_dyn=rd_, **common_)
            else:
                got_ = emf.EvolvedMF(PLI_(mbk_, sl_, N0=5e5), common_["nbins"], common_["FeH"], common_["tout"], 0.0, N0=5e5, BH_ret_int=ri_, BH_ret_dyn=rd_)
        chk.count("complete constructions without kicks, both retention fractions given")
        chk.note_distinct(case_c)
        tot_f, tot_g = float(formed.Mr.BH[-1].sum()), float(got_.Mr.BH[-1].sum())
        if tot_f > 0 and abs(tot_g - rd_ * tot_f) > 1e-9 * tot_f:
            chk.fail("row: BH mass remaining equals ret_dyn times BH mass formed", case_c, dict(formed=tot_f, remaining=tot_g, ratio=tot_g / tot_f, requested=rd_))
    exprs = []
    for c, rec in zip(pcases, precs):
        kicked = "None"
        if c["rfac"] is not None and "after" in rec:
            kicked = "(Some (%s, %s))" % (C.pairs(*rec["after"]), C.fl(rec["kicked"]))
        msum = float(np.sum(np.array(c["M"])))
        # the gate is the model's own (Model/Gate.v) unless the age is within 1e-9 of the progenitor's lifetime (exp/pow last bits)
        gate_expr = ("true" if c["formed"] else "false") if c["knife"] else "(bh_gate (O:=F_ops) %s %s)" % (" ".join(map(C.fl, c["gate"])), C.fl(c["T"]))
        exprs.append("bh_post (O:=F_ops) %s %s %s %s %s %s" % (
            gate_expr, C.pairs(c["M"], c["N"]), C.fl(msum), C.fl(c["ret_dyn"]),
            C.fl(cars[0].Nmin), kicked))
    model = [model_out(v) for v in C.eval_cases("C07p", IMPORTS, "", exprs)]
    dis = []
    for c, i, m in zip(pcases, pimpl, model):
        ok = (i[0] == m[0]) and (i[0] == "Err" and i[1] == m[1] or
                                 i[0] == "Ok" and C.all_same(i[1], m[1]) and C.all_same(i[2], m[2]))
        if not ok:
            dis.append(dict(input=C.jsonable(c), impl=C.jsonable(i), model=C.jsonable(m)))
    chk.correspondence("bh_post (bit-exact) vs the BH block of EvolvedMF._evolve", len(pcases), dis)
    chk.samples.append(dict(kind="post", case=C.jsonable(pcases[0]), impl=C.jsonable(pimpl[0])))
    chk.trusted += [
        "correspondence harness harness/props/C07.py (generators, stand-in solver, comparator)",
        "numpy float64 arithmetic = IEEE-754 binary64 = Coq PrimFloat",
        "Mr.BH.sum() (numpy pairwise summation) is passed to the model as an input, not modelled",
    ]


def replay(chk, payload):
    f = payload["failure"]
    c = f["input"]
    if not isinstance(c, dict) or not ({"M", "N"} <= set(c)) or ("ret_dyn" not in c and "E" not in c):
        return run(chk)          # constructor-level / multi-construction failures: the whole run is re-created (same seed and tier)
    if "ret_dyn" in c:
        cars = carriers()
        M = [C.unjson_float(x) for x in c["M"]]
        N = [C.unjson_float(x) for x in c["N"]]
        out, rec = run_post(cars[c["car"]], M, N, c["ret_dyn"], c["rfac"], c["T"])
        c = dict(c, M=M, N=N)
        oracle_post(chk, c, out, rec)
    else:
        c = dict(M=[C.unjson_float(x) for x in c["M"]], N=[C.unjson_float(x) for x in c["N"]],
                 E=C.unjson_float(c["E"]))
        out = impl_eject(c["M"], c["N"], c["E"])
        oracle_array(chk, c, out)
    print("replayed: implementation output =", out)
