"""C20 -- the legacy Kroupa pdf.

T2: the moment helpers' expressions re-extracted.  T3: Model/Kroupa.v float
instance vs ssptools.Kroupa.Kroupa (constants, normalisation, eval, integral on
sub-ranges incl. limits +- ulp, _getmass with recorded variates).  Oracle:
continuity at limits, non-negativity, quad of the density = 1, integral() vs
quad moments, samples inside the limits -- exponents include exactly 1 and 2.
"""
import math

import numpy as np

import common as C
import gen_formulas as GF

STATIC = ["Model/Kroupa.vo"]
EXTRA_PROPS = ["C20b"]
IMPORTS = "From SSP Require Import Model.Kroupa."


def gen(rng):
    n = rng.choice([2, 2, 3, 3, 4, 5, 6])
    def near(x):       # close to, but not at, a special exponent: the closed form must still be the power law's
        return x + rng.choice([-1, 1]) * 10 ** rng.uniform(-9, -3.05)
    a = [rng.choice([rng.uniform(0, 3), rng.uniform(0, 3), 1.0, 2.0, 1.3, 2.35, 0.0, 0.3, near(1.0), near(2.0)]) for _ in range(n)]
    if rng.random() < 0.25:
        # exponents (and sometimes limits) written as plain integers, the natural spelling of the special values
        a = [rng.choice([0, 1, 2, 3, 1, 2]) for _ in range(n)]
        if rng.random() < 0.4:
            mlim = [1]
            for _ in range(n):
                mlim.append(mlim[-1] * rng.choice([2, 3, 10]))
            return dict(a=a, mlim=mlim)
    m = 10 ** rng.uniform(-2, -0.5)
    mlim = [m]
    for _ in range(n):
        m *= rng.choice([1.5, 2.0, 10 ** rng.uniform(0.05, 1.5)])
        mlim.append(m)
    return dict(a=a, mlim=mlim)


def cancels(a):
    """some exponent within 1e-6 of (but not at) a special value: (x**p - y**p)/p loses |eps/p| digits there"""
    return bool(any(0 < abs(x - 1) < 1e-6 or 0 < abs(x - 2) < 1e-6 for x in a))


def classify(f):
    if f.get("exponent_near_special") and f["clause"] in ("integral() returns the zeroth and first moments of the same density",
                                                          "density integrates to one", "sampled masses lie inside the mass limits"):
        return "kroupa_moment_cancellation_near_special_exponent"
    return None


def run(chk):
    rng = chk.rng
    from scipy.integrate import quad
    from ssptools.Kroupa import Kroupa
    GF.tie(chk, "C20", [
        ("Kroupa.Kroupa._mom0:return#1", "src_mom0_gen", ["xmin", "xmax", "a"],
         "Rdiv_j J (Rpow_j J xmax (1 - a) - Rpow_j J xmin (1 - a)) (1 - a)"),
        ("Kroupa.Kroupa._mom1:return#1", "src_mom1_gen", ["xmin", "xmax", "a"],
         "Rdiv_j J (Rpow_j J xmax (2 - a) - Rpow_j J xmin (2 - a)) (2 - a)"),
        ("Kroupa.Kroupa._mom0:return#0", "src_mom0_log", ["xmin", "xmax"], "Rln_j J xmax - Rln_j J xmin"),
        ("Kroupa.Kroupa._mom1:return#0", "src_mom1_log", ["xmin", "xmax"], "Rln_j J xmax - Rln_j J xmin"),
    ], IMPORTS + "\nLocal Open Scope R_scope.")
    n = 150 if chk.tier == "quick" else 1500
    specs = [dict(a=[1.3, 2.35], mlim=[0.08, 0.5, 120.0]), dict(a=[1.0, 2.35], mlim=[0.08, 0.5, 120.0]),
             dict(a=[1.3, 2.0], mlim=[0.08, 0.5, 120.0]), dict(a=[0.3, 1.3, 2.3, 2.7], mlim=[0.01, 0.08, 0.5, 1.0, 120.0]),
             dict(a=[1.0, 2.0, 1.0, 2.0, 0.0], mlim=[0.1, 0.2, 0.4, 0.8, 1.6, 3.2]),
             dict(a=[1, 2], mlim=[0.08, 0.5, 120.0]), dict(a=[2, 1], mlim=[0.1, 1.5, 100.0]), dict(a=[0, 1, 2, 3], mlim=[1, 2, 4, 8, 16])]
    specs += [gen(rng) for _ in range(n)]
    exprs, meta = [], []
    for sp in specs:
        a, mlim = sp["a"], sp["mlim"]
        chk.note_distinct(sp)
        chk.count("pieces=%d" % len(a))
        if 1.0 in a:
            chk.count("has exponent 1")
        if 2.0 in a:
            chk.count("has exponent 2")
        K = Kroupa(a=a, mlim=mlim)
        Cs = [float(x) for x in K._C]
        norm = float(K._norm)
        # ---- oracle -------------------------------------------------------------
        for i in range(1, len(a)):
            x = mlim[i]
            l = norm * Cs[i - 1] * x ** (-a[i - 1])
            r = float(K.eval(x)[0])
            if abs(l - r) > 1e-9 * abs(r):
                chk.fail("density is continuous at interior limits", sp, dict(limit=x, left=l, right=r))
        xs = [mlim[0]] + [mlim[i] * (mlim[i + 1] / mlim[i]) ** rng.random() for i in range(len(a))] + \
             [float(np.nextafter(mlim[-1], 0))]
        ev = []
        for x in xs:
            v = K.eval(x)
            ev.append(float(v[0]) if len(v) else None)
            if ev[-1] is not None and not (ev[-1] >= 0):
                chk.fail("density is non-negative", dict(sp, x=x), ev[-1])
        tot = quad(lambda m: float(K.eval(m)[0]) if len(K.eval(m)) else 0.0, mlim[0], mlim[-1] * (1 - 1e-15),
                   points=mlim[1:-1], limit=200, epsabs=0, epsrel=1e-10)[0]
        if not abs(tot - 1) <= 1e-7:
            chk.fail("density integrates to one", sp, dict(integral=tot), exponent_near_special=cancels(a))
        # eval(x, N0) is N0 times the density, and neither it nor integral() changes the object (sequence of calls on one object)
        snapK = (np.array(K._C, dtype=float).copy(), float(K._norm), np.array(K._a, dtype=float).copy(), np.array(K._mlim, dtype=float).copy())
        xq = mlim[0] * (mlim[-1] / mlim[0]) ** rng.random()
        base = float(K.eval(xq)[0])
        n0 = rng.choice([3e5, 2.0, 0.5, 17])
        scaled = float(K.eval(xq, N0=n0)[0])
        again = float(K.eval(xq)[0])
        if abs(scaled - n0 * base) > 1e-12 * abs(n0 * base) or again != base:
            chk.fail("eval(x, N0) is N0 times the density and leaves later evaluations unchanged", dict(sp, x=xq, N0=n0),
                     dict(density=base, scaled=scaled, density_afterwards=again))
        K.integral(mlim[0], mlim[-1])
        snapK2 = (np.array(K._C, dtype=float), float(K._norm), np.array(K._a, dtype=float), np.array(K._mlim, dtype=float))
        if not (np.array_equal(snapK[0], snapK2[0]) and snapK[1] == snapK2[1] and np.array_equal(snapK[2], snapK2[2]) and np.array_equal(snapK[3], snapK2[3])):
            chk.fail("evaluating or integrating the density does not change the object", sp, dict(C_before=snapK[0].tolist(), C_after=snapK2[0].tolist()))
        # the object is a value: built from the caller's float arrays (a scan re-using one work buffer), it keeps describing the exponents and
        # limits it was BUILT with when the caller later overwrites those arrays
        a_buf, l_buf = np.array(a, dtype=float), np.array(mlim, dtype=float)
        Kb = Kroupa(a=a_buf, mlim=l_buf)
        xs_b = [mlim[0] * (mlim[-1] / mlim[0]) ** u_ for u_ in (0.13, 0.5, 0.87)]
        dens_b = [float(Kb.eval(x_)[0]) for x_ in xs_b]
        a_buf += 0.5
        l_buf *= 1.25
        dens_after = [float(Kb.eval(x_)[0]) for x_ in xs_b]
        want_b = [float(K.eval(x_)[0]) for x_ in xs_b]
        chk.count("objects built from caller-owned float arrays that are overwritten afterwards")
        if dens_after != dens_b or not all(abs(p_ - q_) <= 1e-12 * abs(q_) for p_, q_ in zip(dens_b, want_b)):
            chk.fail("evaluating or integrating the density does not change the object", dict(sp, note="exponent / limit arrays of the caller overwritten after construction"),
                     dict(density_before=dens_b, density_after_caller_changed_its_arrays=dens_after, density_of_object_built_from_lists=want_b))
        # sub-ranges
        subs = []
        for _ in range(4):
            u, v = sorted(mlim[0] * (mlim[-1] / mlim[0]) ** rng.random() for _ in range(2))
            if rng.random() < 0.3:
                u = rng.choice(mlim[:-1])
            if rng.random() < 0.3:
                v = rng.choice(mlim[1:])
            if u < v:
                subs.append((u, v))
        subs.append((mlim[0], mlim[-1]))
        ints = []
        for u, v in subs:
            try:
                I, I2 = K.integral(u, v)
                ints.append(("Ok", float(I), float(I2)))
            except Exception as e:  # noqa
                ints.append(("Err", type(e).__name__))
                chk.fail("integral() of a sub-range inside the domain does not raise", dict(sp, xmin=u, xmax=v), type(e).__name__)
                continue
            pts = [b for b in mlim if u < b < v] or None
            q0 = quad(lambda m: float(K.eval(m)[0]) if len(K.eval(m)) else 0.0, u, min(v, mlim[-1] * (1 - 1e-15)), points=pts, limit=200, epsabs=0, epsrel=1e-10)[0]
            q1 = quad(lambda m: m * float(K.eval(m)[0]) if len(K.eval(m)) else 0.0, u, min(v, mlim[-1] * (1 - 1e-15)), points=pts, limit=200, epsabs=0, epsrel=1e-10)[0]
            if abs(I - q0) > 1e-7 * max(abs(q0), 1e-12) or abs(I2 - q1) > 1e-7 * max(abs(q1), 1e-12):
                chk.fail("integral() returns the zeroth and first moments of the same density", dict(sp, xmin=u, xmax=v),
                         dict(I=float(I), I2=float(I2), quad0=q0, quad1=q1), exponent_near_special=cancels(a))
        # sampler with recorded variates
        us = [0.0, 1.0, 0.5] + [rng.random() for _ in range(3)]
        gm = []
        for i in range(len(a)):
            vals = K._getmass(np.array(us), K._a[i], K._mlim[i], K._mlim[i + 1])      # as sample() calls it
            gm.append([float(x) for x in np.atleast_1d(vals)])
            for x in gm[-1]:
                if not (mlim[i] * (1 - 1e-12) <= x <= mlim[i + 1] * (1 + 1e-12)):
                    chk.fail("sampled masses lie inside the mass limits", dict(sp, piece=i, slope=a[i]), gm[-1],
                             exponent_near_special=bool(0 < abs(a[i] - 1) < 1e-3 and all(mlim[i] * (1 - 1e-6) <= x_ <= mlim[i + 1] * (1 + 1e-6) for x_ in gm[-1])))
                    break
        al, ml = C.fll(a), C.fll(mlim)
        exprs.append("(Cs (O:=F_ops) %s %s, knorm (O:=F_ops) %s %s, map (keval (O:=F_ops) %s %s 1) %s, "
                     "map (fun p => kintegral (O:=F_ops) %s %s (fst p) (snd p)) %s, "
                     "map (fun i => map (fun u => getmass (O:=F_ops) u (nth i %s 0) (nth i %s 0) (nth (S i) %s 0)) %s) (seq 0 %d))" % (
                         al, ml, al, ml, al, ml, C.fll(xs), al, ml, C.pairs(*zip(*subs)), al, ml, ml, C.fll(us), len(a)))
        meta.append(dict(spec=sp, Cs=Cs, norm=norm, xs=xs, ev=ev, subs=subs, ints=ints, gm=gm))
    vals = C.eval_cases("C20", IMPORTS, "", exprs, shard=40)
    dis = []
    for me, v in zip(meta, vals):
        mC, mn, mev, mint, mgm = v
        sp = me["spec"]
        if cancels(sp["a"]):
            # moments are differences of nearly equal powers divided by a tiny number: the last bits of libm's pow vs the model's decide
            # the 7th..9th digit (listed finding kroupa_moment_cancellation_near_special_exponent).  Counted, not compared.
            chk.count("exponent within 1e-6 of a special value: moments are rounding noise beyond ~1e-7 (not compared with the model)")
            continue
        if not (C.all_close(list(map(float, mC)), me["Cs"], rtol=1e-9) and C.close_float(float(mn), me["norm"], rtol=1e-9)):
            dis.append(dict(what="constants/normalisation", input=sp, impl=dict(C=me["Cs"], norm=me["norm"]),
                            model=dict(C=C.jsonable(mC), norm=C.jsonable(mn))))
            continue
        for x, iv, mv in zip(me["xs"], me["ev"], mev):
            mvv = None if mv == "None" else float(mv[2])
            if (iv is None) != (mvv is None) or (iv is not None and not C.close_float(iv, mvv, rtol=1e-9)):
                dis.append(dict(what="eval", input=dict(sp, x=x), impl=iv, model=mvv))
        for (u, w), iv, mv in zip(me["subs"], me["ints"], mint):
            if mv[1] == "Err":
                if iv[0] != "Err":
                    dis.append(dict(what="integral", input=dict(sp, xmin=u, xmax=w), impl=iv, model="Err"))
                continue
            p = mv[2]
            if iv[0] != "Ok" or not (C.close_float(iv[1], float(p[0]), rtol=1e-8, atol=1e-14) and C.close_float(iv[2], float(p[1]), rtol=1e-8, atol=1e-14)):
                dis.append(dict(what="integral", input=dict(sp, xmin=u, xmax=w), impl=iv, model=[float(p[0]), float(p[1])]))
        for i, (ig, mg) in enumerate(zip(me["gm"], mgm)):
            if not C.all_close(ig, list(map(float, mg)), rtol=1e-8):
                dis.append(dict(what="getmass", input=dict(sp, piece=i), impl=ig, model=C.jsonable(mg)))
    chk.correspondence("Cs / knorm / keval / kintegral / getmass (1e-9) vs Kroupa", len(meta), dis)
    chk.samples.append(dict(spec=meta[1]["spec"], C=meta[1]["Cs"], norm=meta[1]["norm"]))
    chk.trusted += ["harness/props/C20.py; scipy.integrate.quad as oracle", "FloatFun pow/ln", "translator gen_formulas.py"]


def replay(chk, payload):
    run(chk)
