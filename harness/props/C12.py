"""C12 -- the power-law moment integral masses.Pk.

Tie: T2 (source expressions of the two branches, regenerated and proved
equal to Model/Pk.v's) + T3 (float instance of the model vs the
implementation, scalar and array forms).  Oracle: 50-digit decimal reference
for the integral; positivity; additivity; mean inside the bin; NaN on
degenerate intervals; array == element-wise scalar calls.
"""
import math
from decimal import Decimal, getcontext

import numpy as np

import common as C
import gen_formulas as GF

getcontext().prec = 60
STATIC = ["Model/Pk.vo"]
IMPORTS = "From SSP Require Import Model.Pk."


def ref_integral(a, k, m1, m2):
    """integral of m^(a+k-1) over [m1,m2] with 60-digit decimals"""
    c = Decimal(a) + Decimal(k)
    m1d, m2d = Decimal(m1), Decimal(m2)
    if c == 0:
        return (m2d / m1d).ln()
    return ((c * m2d.ln()).exp() - (c * m1d.ln()).exp()) / c


def amp(a, k, m1, m2, ref=None):
    """amplification of rounding error through the subtraction (generic branch); with `ref` (the exact integral) the true
    difference |c| * ref is used instead of the float difference, which is itself noise when the powers agree to the last bit"""
    c = a + k
    if c == 0:
        r = m2 / m1
        return 1.0 / max(abs(math.log(r)), 1e-300) if r > 0 else 1.0
    try:
        p2, p1 = m2 ** c, m1 ** c
    except OverflowError:
        return 1.0
    d = abs(p2 - p1)
    if ref is not None:
        d = min(d, abs(c) * float(ref)) if d > 0 else abs(c) * float(ref)
    big = max(abs(p2), abs(p1)) * max(1.0, abs(c * math.log(max(m2, m1))), abs(c * math.log(min(m1, m2))))
    return big / d if d > 0 else float("inf")


def gen_scalar(rng):
    ka = rng.choice([1.0, 1.5, 2.0, 2.5, 1.0, 2.0, rng.uniform(0, 3)])
    kind = rng.choice(["rand", "rand", "rand", "cancel", "near6", "near9", "atom"])
    if kind == "rand":
        a = rng.uniform(-6, 4)
    elif kind == "cancel":
        a = -ka
    elif kind == "near6":
        a = -ka + rng.choice([-1, 1]) * 1e-6 * rng.uniform(1, 3)
    elif kind == "near9":
        a = -ka + rng.choice([-1, 1]) * 1e-9
    else:
        a = rng.choice([-2.0, -1.5, -1.0, -2.5, -2.35, -0.5, -1.3, 0.0, 1.0])
    m1 = 10 ** rng.uniform(-3, 3)
    shape = rng.choice(["wide", "wide", "mid", "thin", "vthin", "inverted", "equal", "tinyint"])
    if shape == "wide":
        m2 = m1 * 10 ** rng.uniform(0.02, 6)
    elif shape == "mid":
        m2 = m1 * (1 + 10 ** rng.uniform(-4, -1))
    elif shape == "thin":
        m2 = m1 * (1 + 10 ** rng.uniform(-9, -4))
    elif shape == "vthin":
        m2 = m1 * (1 + 10 ** rng.uniform(-15.5, -9))
    elif shape == "inverted":
        m2 = m1 / 10 ** rng.uniform(0.01, 2)
    elif shape == "equal":
        m2 = m1
    else:  # steep slope on a high interval: tiny integral
        a = rng.uniform(-6, -4)
        m1 = rng.uniform(300, 900)
        m2 = m1 * rng.uniform(1.01, 1.3)
    m2 = min(m2, 1e3) if shape not in ("inverted", "equal") else m2
    if shape not in ("inverted", "equal") and m2 <= m1:
        m2 = m1 * 1.5 if m1 * 1.5 <= 1e3 else m1
    return a, ka, m1, m2


def impl_scalar(a, k, m1, m2):
    from ssptools.masses import Pk
    return float(Pk(a, k, m1, m2))


def impl_array(a, k, m1, m2):
    from ssptools.masses import Pk
    return [float(x) for x in Pk(np.array(a), k, np.array(m1), np.array(m2))]


def mval(v):
    if v == "None":
        return float("nan")
    assert isinstance(v, tuple) and v[1] == "Some", v
    return float(v[2])


def oracle_scalar(chk, case, out, res):
    a, k, m1, m2 = case["a"], case["k"], case["m1"], case["m2"]
    if not (m1 > 0 and m2 > 0):
        return
    if m2 <= m1:
        chk.count("degenerate/inverted")
        if not math.isnan(out):
            chk.fail("degenerate or inverted interval yields NaN", case, out)
        return
    ref = ref_integral(a, k, m1, m2)
    A = amp(a, k, m1, m2, ref)
    c = a + k
    if math.isnan(out):
        # allowed only if the true integral is (within rounding) below the resolution... the property allows no NaN
        chk.fail("positive interval must not give NaN", case, out, true_integral=float(ref),
                 below_abs_threshold=bool(float(ref) < res * (1 + 1e-6) + 2e-16 * A * float(ref)),
                 # the subtraction m2^c - m1^c of two powers within a few ulps of each other: its rounding alone (<= 8e-16 * amplification, the
                 # same bound as in the accuracy clause) can take the computed value to zero or below, which the threshold then turns into NaN
                 cancelled_to_nan=bool(c != 0 and float(ref) * (1 - 8e-16 * A) < res * (1 + 1e-6)))
        return
    if not (out > 0):
        chk.fail("result is positive", case, out)
        return
    if c == 0 or abs(c) >= 1e-6:
        chk.count("accuracy clause applies")
        err = abs(Decimal(out) - ref) / ref
        if err > Decimal(1e-9):
            width = (m2 - m1) / m1
            chk.fail("integral to 1e-9 relative accuracy", case, out, reference=float(ref), rel_err=float(err),
                     rounding_only=bool(float(err) <= 8e-16 * A), rel_width=width)


def classify(f):
    cl = f["clause"]
    if cl == "positive interval must not give NaN" and f.get("below_abs_threshold"):
        return "pk_nan_below_abs_resolution"
    if cl == "integral to 1e-9 relative accuracy" and f.get("rounding_only"):
        return "pk_generic_branch_cancellation"
    if cl == "positive interval must not give NaN" and f.get("cancelled_to_nan"):
        return "pk_generic_branch_cancellation"
    return None


CORPUS = [
    (-6.0, 1.0, 900.0, 1000.0),
    (-1.0, 1.0, 0.5, 0.7),
    (-2.0, 2.0, 10.0, 40.0),
    (-2.5, 2.5, 5.0, 900.0),
    (-1.3, 1.0, 0.5, 1.0),
]


def run(chk):
    rng = chk.rng
    res = float(np.finfo(float).resolution)
    n_sc = 900 if chk.tier == "quick" else 9000
    n_ar = 150 if chk.tier == "quick" else 1500
    # ---- T2: formula tie --------------------------------------------
    GF.tie(chk, "C12", [
        ("masses.Pk:res", "src_pk_gen", ["a", "k", "m1", "m2"], "Pk_gen @@ a k m1 m2"),
        ("masses.Pk:res[]", "src_pk_log", ["m1", "m2"], "Pk_log @@ m1 m2"),
    ], IMPORTS)
    # ---- scalar form -------------------------------------------------
    cases = [dict(a=a, k=k, m1=m1, m2=m2) for a, k, m1, m2 in CORPUS]
    while len(cases) < n_sc:
        a, k, m1, m2 = gen_scalar(rng)
        cases.append(dict(a=a, k=k, m1=m1, m2=m2))
    impl = [impl_scalar(c["a"], c["k"], c["m1"], c["m2"]) for c in cases]
    exprs = ["Pk (O:=F_ops) %s %s %s %s %s" % (C.fl(res), C.fl(c["a"]), C.fl(c["k"]), C.fl(c["m1"]), C.fl(c["m2"]))
             for c in cases]
    model = [mval(v) for v in C.eval_cases("C12s", IMPORTS, "", exprs)]
    dis, knife = [], 0
    nfresh = 0
    for c, i, m in zip(cases, impl, model):
        chk.note_distinct(c)
        A = amp(c["a"], c["k"], c["m1"], c["m2"]) if c["m2"] != c["m1"] else 1.0
        tol = 1e-9 + 4e-15 * A
        if A > 1e12:
            knife += 1          # catastrophic cancellation: last-bit differences of pow decide everything
        elif math.isnan(i) != math.isnan(m):
            # threshold knife edge: the finite one is within tol of the resolution
            x = m if math.isnan(i) else i
            if abs(x - res) <= tol * res + 1e-30:
                knife += 1
            else:
                dis.append(dict(input=c, impl=C.jsonable(i), model=C.jsonable(m)))
        elif not C.close_float(i, m, rtol=tol):
            dis.append(dict(input=c, impl=C.jsonable(i), model=C.jsonable(m), tol=tol))
        oracle_scalar(chk, c, i, res)
        if c["m2"] > c["m1"] > 0 and not math.isnan(i) and nfresh < 60:
            nfresh += 1
            result_is_fresh_test(chk, c)
    chk.correspondence("Pk scalar form (1e-9 + rounding amplification) vs masses.Pk", len(cases), dis, knife_edge=knife)
    chk.samples.append(dict(kind="scalar", case=cases[10], impl=C.jsonable(impl[10]), model=C.jsonable(model[10])))
    # ---- additivity and mean in bin on the implementation -----------
    for _ in range(300 if chk.tier == "quick" else 3000):
        a, k, m1, m3 = gen_scalar(rng)
        if not (m3 > m1 * 1.0001):
            continue
        m2 = m1 * (m3 / m1) ** rng.uniform(0.05, 0.95)
        p13, p12, p23 = (impl_scalar(a, k, m1, m3), impl_scalar(a, k, m1, m2), impl_scalar(a, k, m2, m3))
        case = dict(a=a, k=k, m1=m1, m2=m2, m3=m3)
        if any(math.isnan(x) for x in (p13, p12, p23)):
            continue
        chk.count("additivity evaluated")
        A = max(amp(a, k, m1, m2), amp(a, k, m2, m3), amp(a, k, m1, m3))
        if abs(p12 + p23 - p13) > (1e-9 + 8e-16 * A) * p13:
            chk.fail("additivity over adjacent intervals", case, [p13, p12, p23], rounding_only=False)
        P1, P2 = impl_scalar(a, 1.0, m1, m3), impl_scalar(a, 2.0, m1, m3)
        if not (math.isnan(P1) or math.isnan(P2)):
            mean = P2 / P1
            A2 = max(amp(a, 1.0, m1, m3), amp(a, 2.0, m1, m3))
            slack = 8e-16 * A2 * mean
            if not (m1 - slack <= mean <= m3 + slack):
                chk.fail("mean mass inside the bin", dict(a=a, m1=m1, m2=m3), mean, rounding_only=False)
    # ---- array form: element-wise, mixed branches --------------------
    dis = []
    nel = 0
    for _ in range(n_ar):
        n = rng.choice([1, 2, 3, 5, 8, 13, 25, 40])
        k = rng.choice([1.0, 1.5, 2.0, 2.5])
        plog = rng.choice([0.0, 0.3, 0.7, 1.0])
        a, m1, m2 = [], [], []
        for _j in range(n):
            aa, _, x1, x2 = gen_scalar(rng)
            if rng.random() < plog:
                aa = -k
            a.append(aa)
            m1.append(x1)
            m2.append(x2)
        arr = impl_array(a, k, m1, m2)
        sc = [impl_scalar(x, k, y, z) for x, y, z in zip(a, m1, m2)]
        case = dict(a=a, k=k, m1=m1, m2=m2)
        chk.note_distinct(case)
        nel += n
        # numpy's vectorised pow (arrays) and libm's pow (scalars) differ in the last bit
        tols = [1e-9 + 4e-15 * (amp(x, k, y, z) if y != z else 1.0) for x, y, z in zip(a, m1, m2)]
        okv = [(t > 1e-3) or C.close_float(p, q, rtol=t) or
               (math.isnan(p) != math.isnan(q) and abs((q if math.isnan(p) else p) - res) <= t * res + 1e-30)
               for p, q, t in zip(arr, sc, tols)]
        if not all(okv):
            bad = [j for j in range(n) if not okv[j]]
            chk.fail("array arguments are handled element-wise", case, dict(array=arr, scalars=sc, elements=bad))
            dis.append(dict(input=C.jsonable(case), impl=C.jsonable(arr), model="element-wise scalar calls: %s" % C.jsonable(sc)))
        reuse_test(chk, case)
    chk.correspondence("Pk array form == map of the scalar form (1e-9 + rounding amplification; theorem C12_array_pointwise)", n_ar, dis,
                       elements=nel)
    if chk.tier == "thorough":
        interval_goals(chk, [c for c in cases if c["m2"] > c["m1"]], impl, cases)
    chk.trusted += [
        "translator harness/gen_formulas.py (python ast -> Gallina) for the two branch expressions of masses.Pk",
        "FloatFun.v pow/ln (validated against libm; compared at 1e-9 relative + rounding amplification)",
        "correspondence harness harness/props/C12.py; decimal (60 digit) reference integral in the oracle",
        "np.finfo(float).resolution read from numpy at run time (1e-15)",
    ]


def interval_goals(chk, sel, impl, cases):
    """thorough tier: for sampled well-conditioned inputs the value the IMPLEMENTATION returned is certified, by the
    `interval` tactic, to be within 1e-9 of the REAL closed form the theorems are about (this also validates FloatFun)."""
    import os
    from fractions import Fraction

    def q(x):
        fr = Fraction(float(x))
        return "(%d / %d)" % (fr.numerator, fr.denominator) if fr.denominator != 1 else "(%d)" % fr.numerator
    idx = {id(c): i for i, c in enumerate(cases)}
    good = [c for c in sel if not math.isnan(impl[idx[id(c)]]) and amp(c["a"], c["k"], c["m1"], c["m2"]) < 1e3][:60]
    path = os.path.join(C.GEN, "PkInterval.v")
    with open(path, "w") as f:
        f.write("(* generated: implementation outputs vs the real closed form -- do not edit *)\nFrom Coq Require Import Reals Lra.\n"
                "From Interval Require Import Tactic.\nFrom SSP Require Import Num Model.Pk Proofs.PkProofs.\nLocal Open Scope R_scope.\n")
        for n, c in enumerate(good):
            v = impl[idx[id(c)]]
            logc = (c["a"] + c["k"] == 0)
            f.write("Lemma pk_case_%d : forall J, Rabs (Pk_raw (O:=R_ops J) %s %s %s %s - %s) <= 1 / 1000000000 * Rabs %s.\n" % (
                n, q(c["a"]), q(c["k"]), q(c["m1"]), q(c["m2"]), q(v), q(v)))
            f.write("Proof. intros J. rewrite (Pk_raw_Pint J) by lra. unfold Pint. destruct (Req_EM_T _ 0) as [E|E]; [%s|%s]. Qed.\n" % (
                "interval with (i_prec 120)" if logc else "exfalso; lra", "exfalso; apply E; lra" if logc else "interval with (i_prec 120)"))
    rc, out, err = C.coqc(path, timeout=1800)
    chk.oblige("[gen] %d implementation outputs certified within 1e-9 of the real closed form Pk_raw by the interval tactic" % len(good),
               rc == 0, (err or out)[-400:] if rc else "")


def result_is_fresh_test(chk, case):
    """a result handed to the caller is the caller's: scaling it in place (P1 *= A, the usual next step) must not change what the same call returns next"""
    from ssptools.masses import Pk as Pk_
    a, k, m1, m2 = case["a"], case["k"], case["m1"], case["m2"]
    r1 = Pk_(a, k, m1, m2)
    v1 = float(r1)
    try:
        r1 *= 1e5
    except TypeError:
        return      # an immutable scalar was returned: nothing the caller could overwrite
    r2 = Pk_(a, k, m1, m2)
    v2 = float(r2)
    chk.count("scalar results modified in place by the caller, then recomputed")
    if not (C.same_float(v1, v2)):
        chk.fail("integral to 1e-9 relative accuracy", dict({k_: v_ for k_, v_ in case.items() if k_ != "note"}, note="same scalar call repeated after the caller scaled the first result in place"),
                 dict(first=v1, second=v2))


def reuse_test(chk, case):
    """the way the library uses it: ONE slope array (and one pair of edge arrays), several moments taken one after the other
    (P1 then P2 then P1 again); each must equal the first call, and the arrays come back untouched"""
    from ssptools.masses import Pk as Pk_
    a, k, m1, m2 = case["a"], case["k"], case["m1"], case["m2"]
    a_arr, m1_arr, m2_arr = np.array(a, dtype=float), np.array(m1, dtype=float), np.array(m2, dtype=float)
    first = [float(x) for x in Pk_(a_arr, k, m1_arr, m2_arr)]
    k2 = k + 1 if k < 2 else k - 1
    Pk_(a_arr, k2, m1_arr, m2_arr)
    again = [float(x) for x in Pk_(a_arr, k, m1_arr, m2_arr)]
    chk.count("slope arrays re-used for several moments")
    if not (np.array_equal(a_arr, np.array(a, dtype=float)) and np.array_equal(m1_arr, np.array(m1, dtype=float)) and np.array_equal(m2_arr, np.array(m2, dtype=float))) \
            or not C.all_same(first, again):
        chk.fail("array arguments are handled element-wise", dict({k_: v_ for k_, v_ in case.items() if k_ != "note"}, note="one slope array used for several moments in turn"),
                 dict(slopes_after=[float(x) for x in a_arr], first_call=first, same_call_again=again))


def replay(chk, payload):
    c = payload["failure"]["input"]
    res = float(np.finfo(float).resolution)
    if isinstance(c.get("a"), list) and c.get("note"):
        reuse_test(chk, c)
    elif c.get("note"):
        result_is_fresh_test(chk, c)
    elif isinstance(c.get("a"), list):
        arr = impl_array(c["a"], c["k"], c["m1"], c["m2"])
        sc = [impl_scalar(x, c["k"], y, z) for x, y, z in zip(c["a"], c["m1"], c["m2"])]
        print("array:", arr, "\nscalars:", sc)
        if not C.all_same(arr, sc):
            chk.fail("array arguments are handled element-wise", c, dict(array=arr, scalars=sc))
    else:
        out = impl_scalar(c["a"], c["k"], c["m1"], c["m2"])
        print("Pk =", out, "reference =", float(ref_integral(c["a"], c["k"], c["m1"], c["m2"])) if c["m2"] > c["m1"] else None)
        oracle_scalar(chk, c, out, res)
