"""C17 -- invalid requests rejected; non-convergence never silent.

T3: Model/Validate.v (validation order, f_BH checks, IMF checks) vs the real
constructors on generated requests: each invalid family combined with otherwise
valid random configurations; exception class compared, and that nothing is
returned.  The convergence flag: the REAL scipy solver object is subclassed so
that chosen integrate calls are made to fail the way dopri5 reports failure
(success flag cleared), including 'an intermediate segment fails, the last one
succeeds', plus natively provoked failures (tiny step budget); the flag and
the warning are compared with `converged` over the recorded per-call outcomes.
"""
import math
import warnings

import numpy as np

import common as C
import implutil as U

STATIC = ["Model/Validate.vo", "Model/IFMR.vo"]
IMPORTS = "From SSP Require Import Model.Validate."

BASE = dict(m_breaks=[0.1, 0.5, 1.0, 100], a_slopes=[-0.5, -1.3, -2.5], nbins=[2, 2, 6], FeH=-1.0, tout=[3000.0], esc_rate=0, N0=1e5)


def mutate(rng):
    """an otherwise valid random request + the set of defects injected"""
    kw = dict(BASE)
    kw["FeH"] = rng.choice([-2.0, -1.0, 0.0, 0.3])
    kw["nbins"] = rng.choice([[2, 2, 6], [1, 1, 2], 9, [3, 3, 12]])
    kw["esc_rate"] = rng.choice([0, -5.0, -100.0])
    kw["natal_kicks"] = rng.random() < 0.3
    defects = []
    if kw["natal_kicks"]:
        # kicks count toward the ejected share: with full dynamical retention they alone exceed the budget (by design -> ValueError)
        kw["BH_ret_dyn"] = rng.choice([0.3, 0.3, 1.0])
        if kw["BH_ret_dyn"] == 1.0:
            defects.append("kicks_over_budget?")      # decided in run(): only if the kicks remove any mass at all
    fam = rng.choice(["none", "esc_pos", "esc_norm", "bh_method", "wd_method", "analytic", "overlap", "binning", "kick",
                      "esc_pos", "kick", "binning"])
    extra = rng.choice(["none", "none", "kick", "binning", "esc_norm"])
    for f in {fam, extra} - {"none"}:
        defects.append(f)
        if f == "esc_pos":
            kw["esc_rate"] = rng.choice([1e-9, 1.0, 50.0])
        elif f == "esc_norm":
            kw["esc_norm"] = rng.choice(["n", "mass", "", "NM"])
        elif f == "bh_method":
            # wholly unknown names, and names that only START like a documented one (a typo in the supernova prescription, a doubled suffix)
            kw["BH_IFMR_method"] = rng.choice(["banerjee", "fryer", "", "ba20-delayd", "banerjee20-fast", "nbody7-", "ba20-rapid-delayed", "cosmic-fast", "linear-rapid",
                                               "cosmic_rapid", "powerlaw2"])
        elif f == "wd_method":
            kw["WD_IFMR_method"] = rng.choice(["mist", "kalirai", "mist18-rapid", "mist-2018", "linear-"])
        elif f == "analytic":
            kw["BH_IFMR_method"] = "linear"
            if rng.random() < 0.5:
                kw["BH_IFMR_kwargs"] = rng.choice([dict(slope=1.5, scale=0.7, m_lower=19), dict(slope=0.4, scale=-30.0, m_lower=19),
                                                   dict(slope=-0.1, scale=0.0, m_lower=19)])
            else:
                # only the UPPER end of a segment leaves (0, mi]: 6e-4 m^3 is below the 1:1 line at 22 but above it at 45
                kw["BH_IFMR_method"] = "brokenpowerlaw"
                kw["BH_IFMR_kwargs"] = rng.choice([dict(m_breaks=[20, 22, 45, 100]), dict(m_breaks=[20, 22, 36, 100], slopes=[1, 6e-4, 1.2]),
                                                   dict(m_breaks=[20, 22, 36, 100], scales=[0, 0, 60])])
        elif f == "overlap":
            kw["BH_IFMR_method"] = "linear"
            kw["BH_IFMR_kwargs"] = dict(slope=0.4, scale=0.7, m_lower=rng.choice([2.0, 3.0, 5.0]))
        elif f == "binning":
            kw["binning_method"] = rng.choice(["log", "linear", "uniform"])
        elif f == "kick":
            kw["kick_method"] = rng.choice(["maxwell", "gaussian", "none"])
    if "analytic" in defects and "overlap" in defects:
        defects.remove("overlap")
    if "bh_method" in defects:
        for x in ("analytic", "overlap"):
            if x in defects:
                defects.remove(x)
                kw.pop("BH_IFMR_kwargs", None)
    return kw, sorted(defects)


def request_expr(kw, defects, wd_up, bh_lo):
    b = lambda x: "true" if x else "false"
    return ("{| r_esc_callable := %s; r_esc_rate := %s; r_esc_norm_known := %s; r_bh_method_known := %s; r_wd_method_known := %s; "
            "r_analytic_ok := %s; r_wd_mi_up := %s; r_bh_mi_lo := %s; r_binning_known := %s; r_kick_known := %s |}" % (
                b(callable(kw["esc_rate"])), C.fl(0.0 if callable(kw["esc_rate"]) else kw["esc_rate"]), b("esc_norm" not in defects),
                b("bh_method" not in defects), b("wd_method" not in defects), b("analytic" not in defects), C.fl(wd_up), C.fl(bh_lo),
                b("binning" not in defects), b("kick" not in defects)))


def static_defects(defects):
    return [d for d in defects if d != "kicks_over_budget"]


def run(chk):
    rng = chk.rng
    emf, masses, ifmr, kicks = U.mods()
    n = 150 if chk.tier == "quick" else 1500
    exprs, meta = [], []
    reqs = [mutate(rng) for _ in range(n)]          # (the loop body below draws nothing from the generator)
    # fixed coverage points, present at every seed: every invalid option value of the families above as the ONLY defect of an otherwise
    # default request (in a random request a second defect can raise the ValueError on behalf of the first)
    for key, fam_, vals_ in (("BH_IFMR_method", "bh_method", ["banerjee", "fryer", "", "ba20-delayd", "banerjee20-fast", "nbody7-", "ba20-rapid-delayed", "cosmic-fast",
                                                            "linear-rapid", "cosmic_rapid", "powerlaw2", "ba20-", "nbody7-Rapid-", "banerjee20-delayed-rapid"]),
                             ("WD_IFMR_method", "wd_method", ["mist", "kalirai", "mist18-rapid", "mist-2018", "linear-"]),
                             ("esc_norm", "esc_norm", ["n", "mass", "", "NM"]), ("binning_method", "binning", ["log", "linear", "uniform"]),
                             ("kick_method", "kick", ["maxwell", "gaussian", "none"]), ("esc_rate", "esc_pos", [1e-9, 1.0, 50.0])):
        for v_ in vals_:
            reqs.append((dict(BASE, FeH=-1.0, nbins=[2, 2, 6], esc_rate=0, natal_kicks=(fam_ == "kick"), BH_ret_dyn=0.3, **{key: v_}) if key != "esc_rate"
                         else dict(BASE, FeH=-1.0, nbins=[2, 2, 6], natal_kicks=False, esc_rate=v_), [fam_]))
    for kw, defects in reqs:
        case = dict(kw=dict(kw), defects=defects)
        chk.note_distinct(case)
        for d in defects or ["valid"]:
            chk.count("family " + d)
        if "kicks_over_budget?" in defects:
            defects = [d for d in defects if d != "kicks_over_budget?"]
            if not static_defects(defects):
                # zero ejection budget: the request is invalid exactly when the kicks remove any mass (computed here by hand from the
                # same model without kicks and kicks.natal_kicks on copies of its BH bins)
                try:
                    with warnings.catch_warnings():
                        warnings.simplefilter("ignore")
                        plain = emf.EvolvedMF.from_powerlaw(**dict(kw, natal_kicks=False))
                        probe = emf.EvolvedMF.from_powerlaw(**dict(kw, BH_ret_dyn=0.3))
                    *_, kicked = kicks.natal_kicks(plain.Mr.BH[-1].copy(), plain.Nr.BH[-1].copy(), **probe._kick_kw)
                    if float(kicked) > 0:
                        defects = sorted(defects + ["kicks_over_budget"])
                    else:
                        chk.count("kicks remove nothing (full fallback in every BH bin): zero budget is not exceeded")
                except Exception:  # noqa
                    defects = sorted(defects + ["kicks_over_budget"])
            case = dict(kw=dict(kw), defects=defects)
        try:
            with warnings.catch_warnings():
                warnings.simplefilter("ignore")
                obj = emf.EvolvedMF.from_powerlaw(**kw)
            out = ("Ok",)
        except ValueError as e:
            out = ("Err", "ValueError")
            if kw.get("natal_kicks") and "Natal kicks already removed" in str(e) and "kicks_over_budget" not in defects:
                # the budget family (C07): decided during the evolution by how much the kicks happen to remove
                defects = sorted(defects + ["kicks_over_budget"])
                case = dict(kw=dict(kw), defects=defects)
                chk.count("family kicks_over_budget (found at run time)")
        except Exception as e:  # noqa
            out = ("Err", type(e).__name__)
        if defects and out != ("Err", "ValueError"):
            chk.fail("an invalid request raises ValueError before any result is returned", case, out)
        if not defects and out[0] != "Ok":
            chk.fail("a valid request is not rejected", case, out)
        # IFMR progenitor ranges as the chosen methods produce them
        wd_up, bh_lo = 5.3, 20.0
        if "bh_method" not in defects and "wd_method" not in defects and "analytic" not in defects:
            if kw.get("BH_IFMR_method") == "linear":
                bh_lo = kw["BH_IFMR_kwargs"]["m_lower"]
            wd_up = float(np.loadtxt(ifmr.get_data("sevtables/wdifmr.dat"))[:, 1].max())
        if "kicks_over_budget" in defects and not static_defects(defects):
            continue      # raised during the evolution, not by argument validation (C07: bh_post_kicks_exceed)
        exprs.append("validate_emf (O:=F_ops) %s" % request_expr(kw, defects, wd_up, bh_lo))
        meta.append((case, out))
    vals = C.eval_cases("C17v", IMPORTS, "", exprs)
    dis = []
    for (case, out), v in zip(meta, vals):
        mv = ("Ok",) if (isinstance(v, tuple) and v[1] == "Ok") else ("Err", v[2])
        if mv != out:
            dis.append(dict(input=case, impl=out, model=mv))
    chk.correspondence("validate_emf vs EvolvedMF.from_powerlaw on valid / invalid requests", len(meta), dis)
    chk.samples.append(dict(case=meta[0][0], impl=meta[0][1]))
    # ---- f_BH and IMF families ------------------------------------------------------------
    exprs, meta = [], []
    for _ in range(60 if chk.tier == "quick" else 600):
        nt = rng.choice([1, 2, 3])
        tout = sorted(rng.uniform(100, 12000) for _ in range(nt))
        nf = rng.choice([nt, nt, nt + 1, max(nt - 1, 1)])
        fbh = [rng.choice([0.0, 0.001, 0.0005, -0.001, -1e-12]) for _ in range(nf)]
        kw = dict(BASE, tout=tout)
        bad = (nf != nt) or any(f < 0 for f in fbh)
        try:
            with warnings.catch_warnings():
                warnings.simplefilter("ignore")
                emf.EvolvedMFWithBH.from_powerlaw(f_BH=fbh if nf > 1 else fbh[0], **kw)
            out = ("Ok",)
        except ValueError:
            out = ("Err", "ValueError")
        except Exception as e:  # noqa
            out = ("Err", type(e).__name__)
        case = dict(tout=tout, f_BH=fbh)
        if bad and out != ("Err", "ValueError"):
            chk.fail("a BH-fraction list of the wrong length or with negative entries raises ValueError", case, out)
        exprs.append("validate_fbh (O:=F_ops) %d %d %s %s" % (nf, nt, C.fll(fbh), request_expr(kw, [], 5.3, 20.0)))
        meta.append((case, out))
    # unreachable strict target
    try:
        emf.EvolvedMFWithBH.from_powerlaw(f_BH=0.9, **BASE)
        chk.fail("an unreachable strict BH-fraction target raises ValueError", dict(f_BH=0.9), "no error")
    except ValueError:
        pass
    # over-ejection: a dynamical retention fraction outside [0, 1] asks for more BH mass to be removed than exists (or for BHs to be
    # added) - ValueError, whatever the bin layout, never a silently empty or unchanged BH population
    for ret_ in (-0.001, -0.05, -1.0, 1.2, 1.0001):
        for nb_ in ([2, 2, 6], [1, 1, 2], 9):
            kwo = dict(BASE, nbins=nb_, BH_ret_dyn=ret_, tout=[float(rng.choice([3000.0, 100.0, 12000.0]))])
            try:
                with warnings.catch_warnings():
                    warnings.simplefilter("ignore")
                    mo = emf.EvolvedMF.from_powerlaw(**kwo)
                chk.fail("ejecting more BH mass than exists raises ValueError", kwo, dict(M_BH=float(mo.Mr.BH[-1].sum()), converged=bool(mo.converged)))
            except ValueError:
                chk.count("over-ejection requests refused")
    # the reachable window with natal kicks: the largest reachable fraction is the one left AFTER the kicks
    # (computed here by hand from a plain model without kicks / ejection and kicks.natal_kicks on copies of its BH bins)
    for kk in ([dict(kick_method="maxwellian", vesc=20), dict(kick_method="maxwellian", vesc=90), dict(kick_method="sigmoid", vesc=60)]
               if chk.tier == "quick" else
               [dict(kick_method=m_, vesc=v_) for m_ in ("maxwellian", "sigmoid") for v_ in (15, 20, 40, 60, 90, 200)]):
        kwb = dict(BASE, tout=[float(rng.choice([3000.0, 9000.0, 12000.0]))], FeH=float(rng.choice([-1.0, -2.0, -0.5])))
        with warnings.catch_warnings():
            warnings.simplefilter("ignore")
            plain = emf.EvolvedMF.from_powerlaw(BH_ret_dyn=1.0, natal_kicks=False, **kwb)
            probe = emf.EvolvedMFWithBH.from_powerlaw(f_BH=0.0, natal_kicks=True, strict_BH_target=False, **kwb, **kk)
        Mb, Nb = plain.Mr.BH[-1].copy(), plain.Nr.BH[-1].copy()
        Mtot = float(plain.Ms[-1].sum() + sum(x[-1].sum() for x in plain.Mr))
        f_formed = float(Mb.sum()) / Mtot
        *_, kicked = kicks.natal_kicks(Mb, Nb, **probe._kick_kw)
        f_after = (float(plain.Mr.BH[-1].sum()) - float(kicked)) / (Mtot - float(kicked))
        case0 = dict(kwb, **kk, f_formed=f_formed, f_after_kicks=f_after)
        chk.note_distinct(case0)
        if not (0 < f_after < f_formed * (1 - 1e-6)):
            chk.count("kick configuration removing (almost) nothing or everything: window empty")
            continue
        for tgt, reachable in ((0.5 * f_after, True), (0.98 * f_after, True), (f_after + 0.3 * (f_formed - f_after), False),
                               (f_after + 0.9 * (f_formed - f_after), False), (1.05 * f_formed, False)):
            for strict in (True, False):
                case = dict(case0, f_BH=tgt, strict=strict)
                try:
                    with warnings.catch_warnings(record=True) as w:
                        warnings.simplefilter("always")
                        m = emf.EvolvedMFWithBH.from_powerlaw(f_BH=tgt, natal_kicks=True, strict_BH_target=strict, **kwb, **kk)
                    got = float(m.Mr.BH[-1].sum()) / float(m.Ms[-1].sum() + sum(x[-1].sum() for x in m.Mr))
                    out = ("Ok", got, len(w))
                except ValueError:
                    out = ("Err", "ValueError")
                chk.count("BH-fraction targets around the kick window")
                if reachable:
                    if out[0] != "Ok" or abs(out[1] - tgt) > 1e-6 * tgt:
                        chk.fail("a reachable BH-fraction target is accepted and met", case, out)
                elif strict and out != ("Err", "ValueError"):
                    chk.fail("an unreachable strict BH-fraction target raises ValueError", case, out)
                elif not strict and (out[0] != "Ok" or out[2] == 0):
                    chk.fail("an unreachable non-strict BH-fraction target is reported by a warning", case, out)
    for mb, a in ([[0.1, 0.5, 0.5, 100], [-1, -2, -3]], [[0.1, 1.0, 0.5], [-1, -2]], [[0.1, 1.0], [-1, -2]], [[1.0], []], [[0.1, 1.0, 100], [-1.3, -2.3]]):
        try:
            masses.PowerLawIMF(mb, a)
            out = ("Ok",)
        except ValueError:
            out = ("Err", "ValueError")
        except Exception as e:  # noqa
            out = ("Err", type(e).__name__)
        exprs.append("validate_imf (O:=F_ops) %s %s" % (C.fll(mb), C.fll(a)))
        meta.append((dict(mb=mb, a=a), out))
        ok = len(mb) == len(a) + 1 and len(mb) >= 2 and all(y > x for x, y in zip(mb, mb[1:]))
        if not ok and out != ("Err", "ValueError"):
            chk.fail("non-increasing or mis-sized IMF breaks raise ValueError", dict(mb=mb, a=a), out)
    vals = C.eval_cases("C17f", IMPORTS, "", exprs)
    dis = []
    for (case, out), v in zip(meta, vals):
        mv = ("Ok",) if (isinstance(v, tuple) and v[1] == "Ok") else ("Err", v[2])
        if mv != out:
            dis.append(dict(input=case, impl=out, model=mv))
    chk.correspondence("validate_fbh / validate_imf vs EvolvedMFWithBH / PowerLawIMF", len(meta), dis)
    # ---- the end-point validation of analytic prescriptions, directly -----------------------------------
    from ssptools.ifmr import _powerlaw_predictor
    pex, pmeta = [], []
    for _ in range(150 if chk.tier == "quick" else 1500):
        ex = rng.choice([1.0, 1.0, 3.0, 2.0, 0.5])
        ml = rng.choice([0.0, 5.0, 19.0, 20.0, -1.0])
        mu = rng.choice([ml + rng.uniform(0.5, 80), 150.0, ml - 1.0])
        sl = rng.choice([0.4, 1.0, 1.5, 3e-5, 6e-4, -0.1, rng.uniform(0, 2)])
        sc = rng.choice([0.0, 0.7, 14.0, -30.0, rng.uniform(-5, 20)])
        try:
            _powerlaw_predictor(ex, sl, sc, m_lower=ml, m_upper=mu)
            out = ("Ok",)
        except ValueError:
            out = ("Err", "ValueError")
        except Exception as e:  # noqa
            out = ("Err", type(e).__name__)
        case = dict(exponent=ex, slope=sl, scale=sc, m_lower=ml, m_upper=mu)
        # oracle: an accepted relation must be inside (0, mi] at both ends
        if out[0] == "Ok" and ml >= 0:
            for m_ in (ml, mu):
                v = sl * m_ ** ex + sc if m_ > 0 or ex > 0 else float("nan")
                if m_ >= 0 and not (0 < v <= m_ * (1 + 1e-12)):
                    chk.fail("analytic IFMR parameters leaving (0, mi] at an end point raise ValueError", case, dict(at=m_, mf=v))
        pex.append("Model.IFMR.powerlaw_valid (O:=F_ops) %s %s %s %s %s" % (C.fl(ex), C.fl(sl), C.fl(sc), C.fl(ml), C.fl(mu)))
        pmeta.append((case, out))
    pv = C.eval_cases("C17p", "From SSP Require Import Model.IFMR.", "", pex)
    dis = []
    for (case, out), v in zip(pmeta, pv):
        mv = ("Ok",) if (isinstance(v, tuple) and v[1] == "Ok") else ("Err", v[2])
        if mv != out and not (case["m_lower"] <= 0):      # 0 ** exponent / negative bases: numpy's pow conventions are not modelled
            dis.append(dict(input=case, impl=out, model=mv))
    chk.correspondence("powerlaw_valid (end-point validation) vs ifmr._powerlaw_predictor", len(pmeta), dis)
    # over-ejection and kicks over budget are covered by C07 (dyn_eject_too_much, bh_post_kicks_exceed)
    # ---- convergence flag -------------------------------------------------------------------
    from scipy.integrate import ode as real_ode
    nflag = 24 if chk.tier == "quick" else 200
    dis = []
    exprs, meta = [], []
    for k in range(nflag):
        tout = sorted(rng.uniform(50, 13000) for _ in range(rng.choice([1, 2, 3])))
        cls_name = rng.choice(["EvolvedMF", "EvolvedMFWithBH"])
        mode = rng.choice(["inject", "inject", "native", "none"])
        log = []
        fail_calls = set()
        if mode == "inject":
            ncalls = 30
            fail_calls = set(rng.sample(range(ncalls), rng.choice([1, 1, 2])))
            if rng.random() < 0.5:
                fail_calls = {c for c in fail_calls if c < 8} or {rng.randrange(0, 6)}
        if k in (1, 3):
            # always present: one early segment fails, every later one succeeds, and the run crosses a core-collapse time afterwards
            mode, fail_calls, tout = "inject", {2 + k}, [3000.0, 9000.0, 12000.0]      # (9000: a grid point past tcc = 6000 before the last segment)
            cls_name = "EvolvedMF" if k == 1 else "EvolvedMFWithBH"

        class FOde(real_ode):
            def set_integrator(self, name, **kw):
                if mode == "native":
                    kw["nsteps"] = 3
                return super().set_integrator(name, **kw)

            def integrate(self, t, *a, **kk):
                r = super().integrate(t, *a, **kk)
                i = len(log)
                if i in fail_calls:
                    self._integrator.success = 0      # what dopri5.run does when istate < 0
                log.append(dict(target=float(t), t=float(self.t), ok=bool(self._integrator.success == 1) if i not in fail_calls else False,
                                flag_after=bool(self.successful())))
                return r
        old = emf.ode
        emf.ode = FOde
        try:
            with warnings.catch_warnings(record=True) as w:
                warnings.simplefilter("always")
                esc = (lambda tt: -40.0 * (1 + math.cos(tt))) if mode == "native" else -10.0
                kw = dict(BASE, tout=tout, esc_rate=esc if k not in (1, 3) else -2.0)      # (-2 / Myr: the cluster survives to the last age)
                if k % 2:
                    kw["tcc"] = 6000.0 if k in (1, 3) else float(rng.choice([2000.0, 6000.0, 9000.0]))      # a core-collapse time inside the run: a failure before it must not be forgotten after it
                if cls_name == "EvolvedMF":
                    m = emf.EvolvedMF.from_powerlaw(**kw)
                else:
                    m = emf.EvolvedMFWithBH.from_powerlaw(f_BH=[0.0] * len(tout) if len(tout) > 1 else 0.0, **kw)
            warned = any("not* converged" in str(x.message) or "converged" in str(x.message) for x in w)
        except Exception as e:  # noqa
            chk.notes.append("flag run raised %s" % type(e).__name__)
            emf.ode = old
            continue
        finally:
            emf.ode = old
        # per-call success as scipy itself reported it right after the call (sticky), decomposed into per-call outcomes
        per_call = []
        prev = True
        for i, e in enumerate(log):
            ok_i = not (prev and not e["flag_after"]) if prev else e["ok"]
            if prev and not e["flag_after"]:
                ok_i = False
            elif not prev:
                ok_i = e["ok"] if i in fail_calls or mode != "inject" else True
            per_call.append(bool(ok_i))
            prev = e["flag_after"]
        any_failed = any(not e["flag_after"] for e in log)
        case = dict(cls=cls_name, tout=tout, mode=mode, failed_calls=sorted(fail_calls), ncalls=len(log), tcc=kw.get("tcc", 0.0))
        chk.note_distinct(case)
        chk.count("flag runs (%s)" % mode)
        if any_failed:
            chk.count("runs with a failed segment")
            if len(log) and log[-1]["ok"] and not all(e["ok"] for e in log):
                chk.count("intermediate segment fails, last succeeds")
            if m.converged or not warned:
                chk.fail("if the solver fails at any stage the convergence flag is false and a warning is issued", case,
                         dict(converged=bool(m.converged), warned=warned))
        else:
            if not m.converged:
                chk.fail("the flag is not false when every segment succeeded", case, dict(converged=bool(m.converged)))
            for e in log:
                if e["t"] != e["target"]:
                    chk.fail("when the flag is true every row was taken with the solver exactly at its requested age", case, e)
                    break
        exprs.append("converged %s" % ("[" + "; ".join("true" if x else "false" for x in per_call) + "]"))
        meta.append((case, bool(m.converged)))
    vals = C.eval_cases("C17c", IMPORTS, "", exprs)
    for (case, got), v in zip(meta, vals):
        if bool(v) != got:
            dis.append(dict(input=case, impl=got, model=bool(v)))
    chk.correspondence("converged (conjunction over all integrate calls) vs EvolvedMF.converged with injected / native solver failures",
                       len(meta), dis)
    chk.trusted += ["harness/props/C17.py (request generator, failure-injecting subclass of the real scipy ode)",
                    "scipy's success flag is sticky until set_initial_value (exercised, not proved)",
                    "over-ejection and kicks-over-budget errors are proved and tied in C07; the unreachable strict target in C08"]


def replay(chk, payload):
    run(chk)
