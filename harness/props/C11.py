"""C11 -- PowerLawIMF: normalisation, continuity, ext modes, binned evaluation, from_M0.

T3: Model/IMF.v float instance vs masses.PowerLawIMF (constants, N(m) incl.
exact breaks and outside masses in all three modes, binned_eval per bin,
Mtot, from_M0; Mtot is the closed-form sum since /repo fix 7d88d64).  Oracle:
scipy.integrate.quad of N(m) and m N(m) per bin, closed forms for totals.
"""
import math

import numpy as np

import common as C

STATIC = ["Model/IMF.vo"]
EXTRA_PROPS = ["C11b"]
IMPORTS = "From SSP Require Import Model.Pk Model.IMF."
EXT = {"zeros": "Zeros", "ext": "Extrapolate", "raise": "Raise"}


def gen_imf(rng):
    nc = rng.choice([1, 2, 3, 3, 4, 5, 6])
    a = [rng.choice([rng.uniform(-4, 2), rng.uniform(-4, 2), -1.0, -2.0, -2.35, -1.3, -0.5, -1.5, -2.5]) for _ in range(nc)]
    m = 10 ** rng.uniform(-2, 0)
    mb = [m]
    for _ in range(nc):
        m = m * rng.choice([1.05, 1.5, 2.0, 10 ** rng.uniform(0.03, 1.5), 10 ** rng.uniform(0.03, 3)])
        mb.append(m)
    if rng.random() < 0.3:
        mb = [round(x, 3) for x in mb]
        if any(y <= x for x, y in zip(mb, mb[1:])):
            mb = [0.1 * 2 ** i for i in range(nc + 1)]
    N0 = rng.choice([1.0, 5e5, 10 ** rng.uniform(-2, 9)])
    ext = rng.choice(["zeros", "zeros", "ext", "raise"])
    if rng.random() < 0.15:
        # slopes (and sometimes breaks, N0) written as plain integers - the natural spelling of the exact slopes -1 and -2
        a = [rng.choice([-1, -2, -3, 0, 1, -2]) for _ in range(nc)]
        if rng.random() < 0.5:
            mb = [2 ** i for i in range(nc + 1)]
            N0 = rng.choice([1, 1000, 500000])
    return dict(a=a, mb=mb, N0=N0, ext=ext)


def mk(spec):
    from ssptools.masses import PowerLawIMF
    return PowerLawIMF(spec["mb"], spec["a"], N0=spec["N0"], ext=spec["ext"])


def ref_A(a, mb):
    """independent normalisation: continuity recursion from A_0 = 1, then normalise"""
    c = [1.0]
    for i in range(1, len(a)):
        c.append(c[-1] * mb[i] ** (a[i - 1] - a[i]))
    tot = 0.0
    for i in range(len(a)):
        p = a[i] + 1
        tot += c[i] * (math.log(mb[i + 1] / mb[i]) if p == 0 else (mb[i + 1] ** p - mb[i] ** p) / p)
    return [x / tot for x in c]


def seg_int(A, a, lo, up, k):
    p = a + k
    return A * (math.log(up / lo) if p == 0 else (up ** p - lo ** p) / p)


def classify(f):
    if f.get("nan_amplitudes") and f.get("segment_integral_below_pk_threshold"):
        return "nan_amplitudes_segment_below_pk_threshold"
    if f["clause"] in ("bins need not align with breaks (documented): straddling bin holds the integral",
                       "arbitrary bins covering the range sum to N0 (documented)") and f.get("straddles"):
        return "binned_eval_straddle"
    if f["clause"] in ("Mtot is the integral of m N(m)", "from_M0: closed-form total mass equals the requested mass",
                       "from_M0 yields exactly the requested total mass") \
            and f.get("rel_dev", 1) < 1e-3:
        return "mtot_quad_inaccuracy"
    if f["clause"] == "break-aligned bins sum to the total mass" and f.get("rel_dev", 1) < 1e-3 and f.get("bins_match_closed_form"):
        return "mtot_quad_inaccuracy"
    return None


def oval(v):
    return float("nan") if v == "None" else float(v[2])


def run(chk):
    rng = chk.rng
    from scipy.integrate import quad
    from ssptools.masses import mbin
    n = 160 if chk.tier == "quick" else 1600
    res = float(np.finfo(float).resolution)
    specs = [dict(a=[-0.5, -1.3, -2.5], mb=[0.1, 0.5, 1.0, 100.0], N0=5e5, ext="zeros"),
             dict(a=[-1.3, -2.3], mb=[0.1, 0.5, 100.0], N0=2.5e5, ext="ext"),
             dict(a=[-1.0, -2.0, -1.0, -2.0], mb=[0.08, 0.5, 1.0, 8.0, 120.0], N0=1.0, ext="raise"),
             dict(a=[-2], mb=[1, 100], N0=1000, ext="zeros"), dict(a=[-1, -2], mb=[0.1, 1, 100], N0=5e5, ext="zeros")]
    specs += [gen_imf(rng) for _ in range(n)]
    exprs, meta = [], []
    for sp in specs:
        imf = mk(sp)
        a, mb, N0 = sp["a"], sp["mb"], sp["N0"]
        chk.note_distinct(sp)
        chk.count("segments=%d" % len(a))
        chk.count("ext=" + sp["ext"])
        A = [float(x) for x in imf._A_comps]
        Ar = ref_A(a, mb)
        snap0 = (np.array(imf.mb, dtype=float).copy(), np.array(imf.a, dtype=float).copy(), np.array(imf._A_comps, dtype=float).copy(), float(imf.N0))
        if not np.all(np.isfinite(A)):
            # no finite normalisation at all: every clause fails as a consequence, reported once. The listed cause: some segment's un-normalised
            # integral int m^a dm is below masses.Pk's ABSOLUTE 1e-15 threshold (steep slope on masses >~ 1e5), Pk returns NaN (C12 finding)
            seg = [seg_int(1.0, a[i], mb[i], mb[i + 1], 1) for i in range(len(a))]
            chk.fail("IMF integrates to N0 over its range", sp, dict(A_comps=[repr(x) for x in A], segment_integrals=seg),
                     nan_amplitudes=True, segment_integral_below_pk_threshold=bool(any(0 < x < res * (1 + 1e-6) for x in seg)))
            continue
        # ---- oracle on constants: continuity + normalisation -----------------
        for i in range(1, len(a)):
            l, r = A[i - 1] * mb[i] ** a[i - 1], A[i] * mb[i] ** a[i]
            if not (abs(l - r) <= 1e-9 * abs(l)):
                chk.fail("IMF is continuous at every break", sp, dict(break_=mb[i], left=l, right=r))
        tot = sum(seg_int(A[i], a[i], mb[i], mb[i + 1], 1) for i in range(len(a)))
        if not (abs(tot - 1) <= 1e-9):
            chk.fail("IMF integrates to N0 over its range", sp, dict(integral_over_N0=tot))
        # evaluation points: inside, exact breaks, outside
        ms = []
        for i in range(len(a)):
            ms.append(mb[i] * (mb[i + 1] / mb[i]) ** rng.random())
        ms += [rng.choice(mb), mb[0], mb[-1], mb[0] * 0.5, mb[-1] * 1.7, float(np.nextafter(mb[0], 0)),
               float(np.nextafter(mb[-1], 1e9))]
        ev = []
        for m in ms:
            try:
                ev.append(("Ok", float(imf(m))))
            except ValueError:
                ev.append(("Err", "ValueError"))
            # oracle: ext modes
            inside = mb[0] <= m <= mb[-1]
            if inside:
                i = max(0, min(len(a) - 1, sum(1 for b in mb[1:-1] if b < m)))
                want = N0 * Ar[i] * m ** a[i]
                if ev[-1][0] != "Ok" or abs(ev[-1][1] - want) > 1e-8 * abs(want):
                    chk.fail("N(m) inside the range follows the segment's power law", dict(sp, m=m), ev[-1], want=want)
            else:
                if sp["ext"] == "zeros" and ev[-1] != ("Ok", 0.0):
                    chk.fail("outside-range mode 'zeros' returns 0", dict(sp, m=m), ev[-1])
                if sp["ext"] == "raise" and ev[-1][0] != "Err":
                    chk.fail("outside-range mode 'raise' raises ValueError", dict(sp, m=m), ev[-1])
                if sp["ext"] == "ext":
                    i = 0 if m < mb[0] else len(a) - 1
                    want = N0 * Ar[i] * m ** a[i]
                    if ev[-1][0] != "Ok" or abs(ev[-1][1] - want) > 1e-8 * abs(want):
                        chk.fail("outside-range mode 'extrapolate' continues the nearest segment", dict(sp, m=m), ev[-1], want=want)
        # bins: aligned sub-bins, interior bins, straddling bins, outside bins
        bl, bu, kinds = [], [], []
        for i in range(len(a)):
            k = rng.choice([1, 2, 3])
            ed = [mb[i] * (mb[i + 1] / mb[i]) ** (j / k) for j in range(k + 1)]
            ed[0], ed[-1] = mb[i], mb[i + 1]
            for x, y in zip(ed, ed[1:]):
                bl.append(x), bu.append(y), kinds.append("aligned")
        nal = len(bl)
        for i in range(1, len(a)):
            bl.append(mb[i] * 0.9 if mb[i] * 0.9 > mb[i - 1] else (mb[i - 1] + mb[i]) / 2)
            bu.append(mb[i] * 1.1 if mb[i] * 1.1 < mb[i + 1] else (mb[i] + mb[i + 1]) / 2)
            kinds.append("straddle")
        if sp["ext"] != "raise":
            bl.append(mb[-1] * 1.1), bu.append(mb[-1] * 1.3), kinds.append("outside")
        try:
            bn, bm, ba = imf.binned_eval(mbin(np.array(bl), np.array(bu)))
            bn, bm = np.atleast_1d(bn), np.atleast_1d(bm)
            ba = np.broadcast_to(np.atleast_1d(ba), bn.shape)
            be = ("Ok", list(map(float, bn)), list(map(float, bm)), list(map(float, ba)))
        except ValueError:
            be = ("Err", "ValueError")
        if be[0] == "Ok":
            for j, kd in enumerate(kinds):
                qn = quad(lambda m: float(imf(m)), bl[j], bu[j], points=[b for b in mb if bl[j] < b < bu[j]] or None, epsabs=0, epsrel=1e-10)[0] \
                    if sp["ext"] != "raise" or kd != "outside" else 0.0
                if kd == "aligned":
                    if abs(be[1][j] - qn) > 1e-7 * abs(qn):
                        chk.fail("bin inside one segment holds the integral of N(m)", dict(sp, lo=bl[j], up=bu[j]), dict(binned=be[1][j], quad=qn))
                    i = sum(1 for b in mb[1:-1] if b <= bl[j])
                    if be[3][j] != a[i]:
                        chk.fail("bin inside one segment reports the segment's slope", dict(sp, lo=bl[j], up=bu[j]), dict(alpha=be[3][j], want=a[i]))
                    qm = quad(lambda m: m * float(imf(m)), bl[j], bu[j], epsabs=0, epsrel=1e-10)[0]
                    if abs(be[2][j] - qm) > 1e-7 * abs(qm):
                        chk.fail("bin inside one segment holds the integral of m N(m)", dict(sp, lo=bl[j], up=bu[j]), dict(binned=be[2][j], quad=qm))
                elif kd == "straddle" and sp["ext"] != "ext":
                    if abs(be[1][j] - qn) > 1e-7 * abs(qn):
                        chk.fail("bins need not align with breaks (documented): straddling bin holds the integral",
                                 dict(sp, lo=bl[j], up=bu[j]), dict(binned=be[1][j], quad=qn), straddles=True)
            s = sum(be[1][:nal])
            if abs(s - N0) > 1e-8 * N0:
                chk.fail("break-aligned bins sum to N0", sp, dict(sum=s))
        if sp["ext"] == "raise":
            # raise mode on a bin set that MIXES bins inside the range with one beyond it (above or below): the outside bin makes the call raise
            for lo_x, up_x, where_ in ((mb[-1] * 1.1, mb[-1] * 1.3, "above"), (mb[0] * 0.5, mb[0] * 0.9, "below")):
                try:
                    r_ = imf.binned_eval(mbin(np.array(bl[:nal] + [lo_x]), np.array(bu[:nal] + [up_x])))
                    got_x = ("returned", [float(x) for x in np.atleast_1d(r_[0])][-3:])
                except ValueError:
                    got_x = ("ValueError",)
                chk.count("raise mode on mixed inside / outside bin sets")
                if got_x[0] != "ValueError":
                    chk.fail("outside-range mode 'raise' raises ValueError", dict(sp, bins="%d bins inside the range plus one %s it" % (nal, where_)), got_x)
        # a per-call normalisation N overrides the object's own N0 - whatever its value or type (zero included): N(m) and every bin scale with N
        for Nx in (0, 0.0, np.float64(0.0), 2.5 * float(N0), np.float32(3.0)):
            m_in = ms[0]
            i_in = max(0, min(len(a) - 1, sum(1 for b in mb[1:-1] if b < m_in)))
            want = float(Nx) * Ar[i_in] * m_in ** a[i_in]
            try:
                got_n = float(imf(m_in, N=Nx))
                bnx = imf.binned_eval(mbin(np.array(bl[:nal]), np.array(bu[:nal])), N=Nx)[0]
                got_s = float(np.sum(bnx))
            except Exception as e:  # noqa
                chk.fail("N(m) and the binned numbers follow an explicit per-call normalisation N (break-aligned bins sum to N)", dict(sp, N=repr(Nx)),
                         dict(error=type(e).__name__, msg=str(e)[:80]))
                continue
            chk.count("explicit per-call normalisations")
            if not (abs(got_n - want) <= 1e-8 * abs(want) + 0.0) or not (abs(got_s - float(Nx)) <= 1e-8 * abs(float(Nx))):
                chk.fail("N(m) and the binned numbers follow an explicit per-call normalisation N (break-aligned bins sum to N)", dict(sp, N=repr(Nx), m=m_in),
                         dict(N_of_m=got_n, expected=want, bins_sum=got_s))
        mt = float(imf.Mtot)
        mt_ref = N0 * sum(seg_int(Ar[i], a[i], mb[i], mb[i + 1], 2) for i in range(len(a)))
        if abs(mt - mt_ref) > 1e-9 * mt_ref:
            chk.fail("Mtot is the integral of m N(m)", sp, dict(Mtot=mt, ref=mt_ref), rel_dev=abs(mt - mt_ref) / mt_ref)
        if be[0] == "Ok" and abs(sum(be[2][:nal]) - mt) > 1e-8 * mt:
            chk.fail("break-aligned bins sum to the total mass", sp, dict(sum=sum(be[2][:nal]), Mtot=mt),
                     rel_dev=abs(sum(be[2][:nal]) - mt) / mt, bins_match_closed_form=bool(abs(sum(be[2][:nal]) - mt_ref) <= 1e-8 * mt_ref))
        # array evaluation: element i is what the scalar call gives for mass i (mixed inside / outside masses, every mode)
        arr_m = [ms[0], mb[0] * 0.5, ms[-1] if len(ms) else mb[0], mb[-1] * 1.7, mb[0], mb[-1]]
        one_by_one = []
        for m_ in arr_m:
            try:
                one_by_one.append(float(imf(m_)))
            except ValueError:
                one_by_one.append("raise")
        try:
            arr_out = [float(x) for x in imf(np.array(arr_m, dtype=float))]
        except ValueError:
            arr_out = "raise"
        want_arr = "raise" if "raise" in one_by_one else one_by_one
        if (arr_out == "raise") != (want_arr == "raise") or (arr_out != "raise" and not np.allclose(arr_out, want_arr, rtol=1e-12, atol=0)):
            chk.fail({"zeros": "outside-range mode 'zeros' returns 0", "raise": "outside-range mode 'raise' raises ValueError",
                      "ext": "outside-range mode 'extrapolate' continues the nearest segment"}[sp["ext"]], dict(sp, masses=[float(x) for x in arr_m], form="array"),
                     dict(array_call=arr_out, scalar_calls=one_by_one))
        snap1 = (np.array(imf.mb, dtype=float), np.array(imf.a, dtype=float), np.array(imf._A_comps, dtype=float), float(imf.N0))
        if not all(np.array_equal(x, y) for x, y in zip(snap0[:3], snap1[:3])) or snap0[3] != snap1[3] or list(mb) != sp["mb"]:
            chk.fail("evaluating an IMF does not change it (breaks, slopes, amplitudes, N0)", sp,
                     dict(mb_before=snap0[0].tolist(), mb_after=[float(x) for x in snap1[0]]))
        M0 = 10 ** rng.uniform(0, 7)
        from ssptools.masses import PowerLawIMF
        im2 = PowerLawIMF.from_M0(mb, a, M0)
        if abs(float(im2.Mtot) - M0) > 1e-9 * M0:
            chk.fail("from_M0 yields exactly the requested total mass", dict(sp, M0=M0), dict(Mtot=float(im2.Mtot)),
                     rel_dev=abs(float(im2.Mtot) - M0) / M0)
        mt2 = float(im2.N0) * sum(seg_int(Ar[i], a[i], mb[i], mb[i + 1], 2) for i in range(len(a)))
        if abs(mt2 - M0) > 1e-9 * M0:
            chk.fail("from_M0: closed-form total mass equals the requested mass", dict(sp, M0=M0), dict(closed_form_Mtot=mt2),
                     rel_dev=abs(mt2 - M0) / M0)
        # ---- model expression -------------------------------------------------
        e = EXT[sp["ext"]]
        args = "%s %s" % (C.fll(a), C.fll(mb))
        exprs.append(
            "(match A_comps (O:=F_ops) %s %s with Some A => (A, map (fun m => imf_eval (O:=F_ops) %s %s A %s m) %s, "
            "map (fun b => binned_eval1 (O:=F_ops) %s %s %s A %s (fst b) (snd b)) %s, Mtot (O:=F_ops) %s %s A %s, "
            "from_M0_N0 (O:=F_ops) %s %s A %s) | None => ([], [], [], None, None) end)" % (
                C.fl(res), args, e, args, C.fl(N0), C.fll(ms),
                C.fl(res), e, args, C.fl(N0), C.pairs(bl, bu), C.fl(res), args, C.fl(N0), C.fl(res), args, C.fl(M0)))
        meta.append(dict(spec=sp, A=A, ms=ms, ev=ev, be=be, bl=bl, bu=bu, Mtot=mt, M0=M0, N0_from_M0=float(im2.N0)))
    vals = C.eval_cases("C11", IMPORTS, "", exprs, shard=40)
    dis = []
    for me, v in zip(meta, vals):
        mA, mev, mbe, mmt, mn0 = v
        sp = me["spec"]
        ok = C.all_close(list(map(float, mA)), me["A"], rtol=1e-9)
        if not ok:
            dis.append(dict(what="A_comps", input=sp, impl=me["A"], model=C.jsonable(mA)))
            continue
        for m, iv, mv in zip(me["ms"], me["ev"], mev):
            mvp = ("Ok", float(mv[2])) if mv[1] == "Ok" else ("Err", mv[2])
            if iv[0] != mvp[0] or (iv[0] == "Ok" and not C.close_float(iv[1], mvp[1], rtol=1e-9)):
                dis.append(dict(what="imf_eval", input=dict(sp, m=m), impl=iv, model=mvp))
        be = me["be"]
        if be[0] == "Err":
            if not any(x[1] == "Err" for x in mbe):
                dis.append(dict(what="binned_eval raises", input=sp, impl=be, model="no bin raises"))
        else:
            for j, x in enumerate(mbe):
                if x[1] != "Ok":
                    dis.append(dict(what="binned_eval", input=dict(sp, lo=me["bl"][j], up=me["bu"][j]), impl="ok", model="Err"))
                    continue
                (pn, pm, al) = x[2]
                got = (be[1][j], be[2][j], be[3][j])
                if not (C.close_float(oval(pn), got[0], rtol=1e-8) and C.close_float(oval(pm), got[1], rtol=1e-8)
                        and C.same_float(float(al), got[2])):
                    dis.append(dict(what="binned_eval", input=dict(sp, lo=me["bl"][j], up=me["bu"][j]), impl=got,
                                    model=[oval(pn), oval(pm), float(al)]))
        if not C.close_float(oval(mmt), me["Mtot"], rtol=1e-9):
            dis.append(dict(what="Mtot", input=sp, impl=me["Mtot"], model=oval(mmt)))
        if not C.close_float(oval(mn0), me["N0_from_M0"], rtol=1e-9):
            dis.append(dict(what="from_M0", input=dict(sp, M0=me["M0"]), impl=me["N0_from_M0"], model=oval(mn0)))
    chk.correspondence("A_comps / imf_eval / binned_eval1 / Mtot / from_M0 (1e-9; quad-based at 1e-6) vs PowerLawIMF",
                       len(meta), dis)
    chk.samples.append(dict(spec=meta[0]["spec"], A=meta[0]["A"], N_at=list(zip(meta[0]["ms"][:3], meta[0]["ev"][:3]))))
    chk.trusted += ["harness/props/C11.py; scipy.integrate.quad as oracle reference and inside PowerLawIMF.Mtot (not modelled: the model "
                    "uses the closed-form second moment, compared at 1e-6)", "FloatFun pow/ln"]


def replay(chk, payload):
    print(json_dump(payload["failure"]))
    run(chk)


def json_dump(x):
    import json
    return json.dumps(x)[:1000]
