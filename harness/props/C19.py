"""C19 -- the initial-BH-population shortcut.

T2: the nested copy of |dm_to/dt| (shared with C14).  T3: Model/BHPop.v float
instance vs the CAPTURED nested closure `_derivs_BHs` on arbitrary (t, y).
Oracle: from_IMF vs EvolvedMF evolved without escape to the same age with full
BH retention (per-bin N, M), the reported age, stellar losses vs the IMF above
the final turn-off mass, from_BHMF bins / sum / power law, kicks only remove.
"""
import math
import os
import warnings

import numpy as np

import common as C
import fieldutil as F
import gen_formulas as GF
import implutil as U
from props.C02 import cfg_expr, ol
from props.C14 import A3

STATIC = ["Model/BHPop.vo"]
EXTRA_PROPS = ["C19b", "C19c"]
IMPORTS = "From SSP Require Import Model.Pk Model.Lifetime Model.Bins Model.Sev Model.BHPop."


def capture(imf, nbins, feh, N0, **kw):
    emf, masses, ifmr, kicks = U.mods()
    cap = {}

    class Cap(U.FakeOde):
        def __init__(self, f):
            super().__init__(f)
            cap["f"] = f
    Cap.state_fn = staticmethod(lambda t, y0: y0)
    Cap.log = []
    old = emf.ode
    emf.ode = Cap
    try:
        pop = emf.InitialBHPopulation.from_IMF(imf, nbins, feh, N0=N0, natal_kicks=False, **kw)
    finally:
        emf.ode = old
    return cap["f"], pop


def run(chk):
    rng = chk.rng
    emf, masses, ifmr, kicks = U.mods()
    GF.tie(chk, "C19", [
        ("evolve_mf.InitialBHPopulation.from_IMF._derivs_BHs:dmdt", "src_dmdt_bh", ["a0", "a1", "a2", "t"], "dmdt @@ a0 a1 a2 t", A3),
    ], "From SSP Require Import Model.Lifetime.")
    cfgs = [
        dict(mb=[0.1, 0.5, 1.0, 100], a=[-0.5, -1.3, -2.5], nbins=[5, 5, 20], feh=-1.0),
        dict(mb=[0.1, 0.5, 1.0, 100], a=[-0.5, -1.3, -2.5], nbins=[2, 2, 8], feh=0.3),
        dict(mb=[0.1, 1.0, 150], a=[-1.3, -2.3], nbins=[3, 25], feh=-2.0),
        dict(mb=[0.1, 1, 50, 100], a=[-1.3, -2.0, -2.7], nbins=[3, 10, 4], feh=-1.0),       # BH progenitors span two IMF segments
        dict(mb=[0.08, 100], a=[-2.35], nbins=12, feh=-0.5, method="split_linear"),
    ]
    # metallicities outside / between the tabulated lifetimes (-2.5 .. 0.5 in steps of 0.1): the shortcut must use the same
    # (nearest, clamped) lifetime row as the full model
    cfgs[1]["feh"] = rng.choice([0.3, 0.62, 0.46])
    cfgs[2]["feh"] = rng.choice([-2.6, -3.0, -2.56, -2.0, -2.44])
    cfgs.append(dict(mb=[0.1, 0.5, 1.0, 100], a=[-0.5, -1.3, -2.5], nbins=[3, 3, 12], feh=rng.choice([-2.7, -3.4, -2.6])))
    # IMFs starting well above the WD / NS range, indeed above the lightest BH progenitor: every stellar bin, the lowest included, turns off
    cfgs.insert(3, dict(mb=[rng.choice([25.0, 30.0, 40.0]), 100.0], a=[rng.choice([-2.3, -1.8])], nbins=[rng.choice([4, 6, 1])], feh=rng.choice([-1.0, 0.0])))
    if chk.tier == "quick":
        cfgs = cfgs[:5] + cfgs[-1:]
    dis, ncase = [], 0
    for ci, cf in enumerate(cfgs):
        N0 = 10 ** rng.uniform(5, 6)
        imf = masses.PowerLawIMF(cf["mb"], cf["a"], N0=N0)
        kw = dict(binning_method=cf["method"]) if "method" in cf else {}
        with warnings.catch_warnings():
            warnings.simplefilter("ignore")
            f_bh, pop = capture(imf, cf["nbins"], cf["feh"], N0, **kw)
            full = emf.EvolvedMF(imf, cf["nbins"], cf["feh"], [pop.age], 0.0, N0=N0, NS_ret=1.0, BH_ret_int=1.0, BH_ret_dyn=1.0, **kw)
        mb = full.massbins
        nb = mb.nbin
        label = dict(cfg=ci, **{k: v for k, v in cf.items()}, N0=N0)
        chk.note_distinct(label)
        if not chk.samples:
            chk.samples.append(dict(kind="shortcut vs full model", case=label, age=float(pop.age),
                                    N_BH_full=[float(x) for x in np.asarray(full.Nr.BH[0])[:4]]))
        # ---- oracle: agreement with the full model -------------------------------------------
        popr = emf.InitialBHPopulation.from_IMF(imf, cf["nbins"], cf["feh"], N0=N0, natal_kicks=False, **kw)
        a0, a1, a2 = map(float, full._tms_constants)
        want_age = a0 * math.exp(a1 * (full.IFMR.BH_mi.lower + 0.1) ** a2)
        if abs(popr.age - want_age) > 1e-12 * want_age:
            chk.fail("the population reports the age at which the lightest BH progenitor (+0.1 Msun) leaves the main sequence", label,
                     dict(age=float(popr.age), expected=want_age))
        lastseg_lo = cf["mb"][-2]
        mto_f = float(full.compute_mto(np.array(popr.age)))
        spans = len(cf["mb"]) > 2 and mto_f < lastseg_lo      # (an IMF that simply STARTS above the final turn-off mass has one slope there)
        dN = np.abs(popr.N - full.Nr.BH[0])
        dM = np.abs(popr.M - full.Mr.BH[0])
        tolN = 2e-3 * max(float(full.Nr.BH[0].sum()), 1.0) + 0.2
        if np.any(dN > tolN) or np.any(dM > 2e-3 * max(float(full.Mr.BH[0].sum()), 1.0) + 5.0):
            chk.fail("BH number and mass per bin equal those of the full model evolved to the same age with full retention", label,
                     dict(max_dN=float(dN.max()), max_dM=float(dM.max()), N_short=float(popr.N.sum()), N_full=float(full.Nr.BH[0].sum())),
                     bh_progenitors_span_imf_segments=bool(spans))
        # the alternative constructor forwards every option: same bins, numbers and masses as from_IMF with the same options
        with warnings.catch_warnings():
            warnings.simplefilter("ignore")
            for kwx in (kw, dict(kw, binning_method="split_linear"), dict(kw, binning_breaks=[cf["mb"][0], 2.0, cf["mb"][-1]])):
                if "binning_breaks" in kwx and not isinstance(cf["nbins"], int) and len(cf["nbins"]) != 2:
                    kwx = dict(kwx); kwx.pop("binning_breaks")
                    kwx["binning_method"] = "split_log"
                try:
                    p_imf = emf.InitialBHPopulation.from_IMF(masses.PowerLawIMF(cf["mb"], cf["a"], N0=N0), cf["nbins"], cf["feh"], N0=N0, natal_kicks=False, **kwx)
                    p_pl = emf.InitialBHPopulation.from_powerlaw(cf["mb"], cf["a"], cf["nbins"], cf["feh"], N0=N0, natal_kicks=False, **kwx)
                except Exception as e:  # noqa
                    chk.notes.append("from_powerlaw/from_IMF option comparison raised %s for %s" % (type(e).__name__, sorted(kwx)))
                    continue
                chk.count("from_powerlaw vs from_IMF option comparisons")
                same = (len(p_imf.N) == len(p_pl.N) and np.array_equal(np.asarray(p_imf.bins.lower), np.asarray(p_pl.bins.lower))
                        and np.array_equal(p_imf.N, p_pl.N) and np.array_equal(p_imf.M, p_pl.M))
                if not same:
                    chk.fail("BH number and mass per bin equal those of the full model (from_powerlaw forwards the same options as from_IMF)",
                             dict(label, options={k_: (v_ if not isinstance(v_, list) else list(v_)) for k_, v_ in kwx.items()}),
                             dict(nbins_from_IMF=int(len(p_imf.N)), nbins_from_powerlaw=int(len(p_pl.N)),
                                  upper_from_IMF=[float(x) for x in np.asarray(p_imf.bins.upper)[:4]], upper_from_powerlaw=[float(x) for x in np.asarray(p_pl.bins.upper)[:4]]))
        # the same with an IMF object whose own N0 differs from the N0 argument (default N0 = 1, and from_M0)
        for imf2, lab in ((masses.PowerLawIMF(cf["mb"], cf["a"]), "IMF(N0=1)"), (masses.PowerLawIMF.from_M0(cf["mb"], cf["a"], 3.3e5), "IMF.from_M0")):
            with warnings.catch_warnings():
                warnings.simplefilter("ignore")
                p2 = emf.InitialBHPopulation.from_IMF(imf2, cf["nbins"], cf["feh"], N0=N0, natal_kicks=False, **kw)
            if abs(p2.Ms_lost - popr.Ms_lost) > 1e-6 * max(abs(popr.Ms_lost), 1.0) or np.any(np.abs(p2.M - popr.M) > 1e-6 * max(float(popr.M.sum()), 1.0)):
                chk.fail("stellar mass lost and BH masses do not depend on the N0 stored in the IMF object when N0 is given", dict(label, imf=lab),
                         dict(Ms_lost=float(p2.Ms_lost), expected=float(popr.Ms_lost), M_BH=float(p2.M.sum()), expected_M_BH=float(popr.M.sum())))
            if np.any(np.abs(p2.N - popr.N) > 1e-6 * max(float(popr.N.sum()), 1.0)) or abs(p2.Ns_lost - popr.Ns_lost) > 1e-6 * max(popr.Ns_lost, 1.0):
                chk.fail("BH number and mass per bin equal those of the full model (IMF object whose own N0 differs from the N0 argument)",
                         dict(label, imf=lab), dict(N_BH=float(p2.N.sum()), expected=float(popr.N.sum()), Ns_lost=float(p2.Ns_lost)))
        # stellar losses vs the IMF above the final turn-off mass (closed form, segment by segment)
        A = [float(x) for x in imf._A_comps]
        nabove = mabove = 0.0
        for i in range(len(cf["a"])):
            lo, hi = max(cf["mb"][i], mto_f), cf["mb"][i + 1]
            if hi > lo:
                for k, acc in ((1, "n"), (2, "m")):
                    p = cf["a"][i] + k
                    v = N0 * A[i] * (math.log(hi / lo) if p == 0 else (hi ** p - lo ** p) / p)
                    if acc == "n":
                        nabove += v
                    else:
                        mabove += v
        if abs(popr.Ns_lost - nabove) > 5e-3 * nabove + 1.0:
            # listed finding: with ONE stellar bin the only active window of the right-hand side is stepped over by a single solver step
            # (both the shortcut and the full model then report the untouched IMF)
            one_bin_skipped = bool(nb.MS == 1 and float(popr.Ns_lost) == 0.0 and abs(float(full.Ns[0].sum()) - N0) <= 1e-9 * N0)
            chk.fail("stars lost equal the number of the IMF above the final turn-off mass", label, dict(Ns_lost=float(popr.Ns_lost), imf_above=nabove,
                                                                                                        full_model_stars_left=float(full.Ns[0].sum())),
                     bh_progenitors_span_imf_segments=bool(spans), single_bin_window_skipped=one_bin_skipped)
        if abs(popr.Ns_lost - popr.N.sum()) > 5e-3 * nabove + 1.0:
            chk.fail("stars lost equal BHs formed", label, dict(Ns_lost=float(popr.Ns_lost), N_BH=float(popr.N.sum())))
        if popr.Ms_lost < popr.M.sum() * (1 - 1e-9):
            chk.fail("the stellar mass lost is at least the BH mass formed, whatever the bin layout", label,
                     dict(Ms_lost=float(popr.Ms_lost), M_BH=float(popr.M.sum()), imf_mass_above=mabove), ms_lost_untruncated=True)
        elif abs(popr.Ms_lost - mabove) > 2e-2 * mabove:
            chk.fail("stellar mass lost equals the mass of the IMF above the final turn-off mass", label,
                     dict(Ms_lost=float(popr.Ms_lost), imf_mass_above=mabove), ms_lost_untruncated=True)
        # ---- T3 on the captured closure ------------------------------------------------------------
        args = dict(NS_ret=1.0, BH_ret_int=1.0)
        defs = "Definition cfg : sev_cfg (T:=float) := %s.\n" % cfg_expr(full, args)
        exprs, meta = [], []
        for _ in range(50 if chk.tier == "quick" else 400):
            t = rng.choice([F.random_time(rng, full), 10 ** rng.uniform(math.log10(a0 * 1.001), math.log10(pop.age * 1.5))])
            y = F.random_state(rng, full)
            ybh = np.r_[y[:nb.MS], y[2 * nb.MS + nb.WD + nb.NS:2 * nb.MS + nb.WD + nb.NS + nb.BH], y[-nb.BH:]]
            mto = float(full.compute_mto(np.array(t)))
            try:
                d = f_bh(t, ybh.copy())
                out = ("Ok", [list(map(float, d[:nb.MS])), list(map(float, d[nb.MS:nb.MS + nb.BH])), list(map(float, d[nb.MS + nb.BH:]))])
            except ValueError:
                out = ("Err", "ValueError")
            except RuntimeError:
                out = ("Err", "RuntimeError")
            except IndexError:
                out = ("Err", "IndexError")
            m_rem, cls = (float(full.IFMR.predict(mto)), full.IFMR.predict_type(mto)) if math.isfinite(mto) else (float("nan"), "WD")
            gt = np.where(t > full.tms_u)[0]
            knife = bool(gt.size and math.isfinite(mto) and abs(mto - mb.bins.MS.lower[gt[0]]) <= 1e-9 * mb.bins.MS.lower[gt[0]])
            exprs.append("rmap (fun o => let d := sev_expand cfg o in [d_Ns d; d_Nbh d; d_Mbh d]) "
                         "(bh_field (O:=F_ops) cfg (0x1.999999999999ap-4) %s %s %s %s %s %s)" % (
                             C.fl(cf["a"][-1]), C.fl(pop.age), C.fl(t), C.fll(y[:nb.MS]), C.fl(m_rem), cls))
            meta.append((dict(cfg=ci, t=t, y=[float(v) for v in ybh]), out, knife))
        if spans:
            # machine-checked witness of the listed finding bh_slope_last_segment, regenerated from the implementation's own tables and
            # bins: at an age whose turn-off mass lies in the second-to-last IMF segment the simplified field (slope of the LAST segment)
            # and the full stellar-evolution field (the bin's own slope, full retention) give different fluxes
            y_w = mb.initial_values(N0=N0)
            t_w = float(full.compute_tms(0.5 * (lastseg_lo + max(float(full.IFMR.BH_mi.lower) + 0.2, cf["mb"][-3]))))
            mto_w = float(full.compute_mto(np.array(t_w)))
            if t_w < pop.age and mto_w < lastseg_lo:
                mrem_w, cls_w = float(full.IFMR.predict(mto_w)), full.IFMR.predict_type(mto_w)
                wsrc = (C.HEADER % IMPORTS + defs +
                        "Definition dn (r : res (option (sev_out (T:=float)))) : float := match r with Ok (Some s) => match so_dNdt s with Some x => x | None => nan end "
                        "| _ => nan end.\n"
                        "Definition dn_bh := dn (bh_field (O:=F_ops) cfg (0x1.999999999999ap-4) %s %s %s %s %s %s).\n"
                        "Definition dn_full := dn (sev_field (O:=F_ops) cfg %s %s %s %s %s).\n"
                        "Lemma bh_slope_last_segment_witness : PrimFloat.ltb dn_bh 0 = true /\\ PrimFloat.ltb dn_full 0 = true /\\ "
                        "PrimFloat.ltb (dn_full * 0x1.0cccccccccccdp+0) dn_bh = true \\/ PrimFloat.ltb dn_bh 0 = true /\\ PrimFloat.ltb dn_full 0 = true /\\ "
                        "PrimFloat.ltb (dn_bh * 0x1.0cccccccccccdp+0) dn_full = true.\n"
                        "Proof. vm_compute. first [left; repeat split; reflexivity | right; repeat split; reflexivity]. Qed.\n" % (
                            C.fl(cf["a"][-1]), C.fl(pop.age), C.fl(t_w), C.fll(y_w[:nb.MS]), C.fl(mrem_w), cls_w,
                            C.fl(t_w), C.fll(y_w[:nb.MS]), C.fll(y_w[nb.MS:2 * nb.MS]), C.fl(mrem_w), cls_w))
                os.makedirs(C.GEN, exist_ok=True)
                wpath = os.path.join(C.GEN, "C19Witness.v")
                open(wpath, "w").write(wsrc)
                rc_, out_, err_ = C.coqc(wpath, timeout=300)
                chk.oblige("[gen] listed finding bh_slope_last_segment is real in the model: at m_to = %.3g (second-to-last IMF segment) the simplified "
                           "and the full field differ by more than 5%% (vm_compute on the regenerated configuration)" % mto_w, rc_ == 0, (err_ or out_)[-400:] if rc_ else "")
        vals = C.eval_cases("C19_%d" % ci, IMPORTS, defs, exprs, shard=100)
        for (case, out, knife), v in zip(meta, vals):
            ncase += 1
            if knife:
                continue
            if v[1] == "Err":
                if out != ("Err", v[2]):
                    dis.append(dict(input=case, impl=C.jsonable(out)[:2], model=["Err", v[2]]))
                continue
            marr = [ol(a) for a in v[2]]
            if out[0] != "Ok" or not all(C.all_close(a, b, rtol=1e-9, atol=1e-300) for a, b in zip(out[1], marr)):
                dis.append(dict(input=case, impl=C.jsonable(out), model=C.jsonable(marr)))
    # several populations alive at once: each keeps reporting its own formation age (and a population built from a BH mass function none)
    imf_s = masses.PowerLawIMF([0.1, 0.5, 1.0, 100], [-0.5, -1.3, -2.5], N0=5e5)
    fehs_ = [-2.0, -1.0, 0.3]
    with warnings.catch_warnings():
        warnings.simplefilter("ignore")
        pops_ = [emf.InitialBHPopulation.from_IMF(imf_s, [3, 3, 10], f_, natal_kicks=False) for f_ in fehs_]
        first_ages = []
        for f_ in fehs_:
            first_ages.append(float(emf.InitialBHPopulation.from_IMF(imf_s, [3, 3, 10], f_, natal_kicks=False).age))
        p_bhmf = emf.InitialBHPopulation.from_BHMF([5.0, 20.0, 60.0], [-1.0, -2.0], [3, 3], -1.0, N0=1000.0, natal_kicks=False)
    ages_now = [float(p_.age) for p_ in pops_]
    if ages_now != first_ages or len(set(ages_now)) != len(ages_now):
        chk.fail("the population reports the age at which the lightest BH progenitor (+0.1 Msun) leaves the main sequence",
                 dict(FeH=fehs_, note="several populations built before any age is read"), dict(ages=ages_now, expected=first_ages))
    if getattr(p_bhmf, "age", None) is not None:
        chk.fail("the population reports the age at which the lightest BH progenitor (+0.1 Msun) leaves the main sequence",
                 dict(note="population built directly from a BH mass function has no formation age"), dict(age=float(p_bhmf.age)))
    # populations that differ ONLY in the parameters of an analytic IFMR (same metallicity, same method names), built one after the other:
    # each agrees with the full model given the same options
    opt_sets = [("linear", dict(m_lower=19, slope=0.4, scale=0.7)), ("linear", dict(m_lower=25, slope=0.25, scale=2.0)),
                ("powerlaw", dict(exponent=2, slope=1e-3, scale=10, m_lower=19)), ("linear", dict(m_lower=rng.choice([19, 22, 30]), slope=rng.choice([0.3, 0.5]), scale=1.0))]
    rng.shuffle(opt_sets)
    feh_o = rng.choice([-1.0, -0.5, 0.0])
    for meth_, okw_ in opt_sets:
        label = dict(FeH=feh_o, BH_IFMR_method=meth_, BH_IFMR_kwargs=okw_, note="built after other populations with the same method names")
        with warnings.catch_warnings():
            warnings.simplefilter("ignore")
            try:
                po_ = emf.InitialBHPopulation.from_IMF(imf_s, [3, 3, 12], feh_o, natal_kicks=False, BH_IFMR_method=meth_, BH_IFMR_kwargs=dict(okw_))
                fu_ = emf.EvolvedMF(imf_s, [3, 3, 12], feh_o, [po_.age], 0.0, NS_ret=1.0, BH_ret_int=1.0, BH_ret_dyn=1.0,
                                    BH_IFMR_method=meth_, BH_IFMR_kwargs=dict(okw_))
            except Exception as e:  # noqa
                chk.notes.append("IFMR-option population raised %s for %s" % (type(e).__name__, okw_))
                continue
        chk.count("populations differing only in analytic-IFMR parameters compared with the full model")
        chk.note_distinct(label)
        fb_ = fu_.massbins.bins.BH
        if len(po_.N) != len(fu_.Nr.BH[0]) or not np.array_equal(np.asarray(po_.bins.lower), np.asarray(fb_.lower)):
            chk.fail("BH number and mass per bin equal those of the full model evolved to the same age with full retention", label,
                     dict(first_BH_edge=float(np.asarray(po_.bins.lower)[0]), full_model_first_BH_edge=float(np.asarray(fb_.lower)[0])))
            continue
        dN_ = np.abs(po_.N - fu_.Nr.BH[0])
        dM_ = np.abs(po_.M - fu_.Mr.BH[0])
        if np.any(dN_ > 2e-3 * max(float(fu_.Nr.BH[0].sum()), 1.0) + 0.2) or np.any(dM_ > 2e-3 * max(float(fu_.Mr.BH[0].sum()), 1.0) + 5.0):
            chk.fail("BH number and mass per bin equal those of the full model evolved to the same age with full retention", label,
                     dict(max_dN=float(dN_.max()), N_short=float(po_.N.sum()), N_full=float(fu_.Nr.BH[0].sum()), age=float(po_.age)))
    chk.correspondence("bh_field (1e-9) vs the captured nested _derivs_BHs on arbitrary (t, y)", ncase, dis)
    # ---- from_BHMF ------------------------------------------------------------------------------------
    def one_bhmf(brk, sl, nb_, N0, ksets):
        label = dict(m_breaks=brk, a_slopes=sl, nbins=nb_, N0=N0)
        chk.note_distinct(label)
        try:
            p = emf.InitialBHPopulation.from_BHMF(brk, sl, nb_, -1.0, N0=N0, natal_kicks=False)
        except Exception as e:  # noqa
            wdmax = float(ifmr.IFMR(-1.0).WD_mf.upper)
            chk.fail("a population can be built directly from any BH mass function", label, dict(error=type(e).__name__),
                     first_break_above_wd=bool(brk[0] > wdmax))
            return
        chk.count("from_BHMF built")
        if np.any((p.N > 0) & (p.N < 0.1)):
            chk.count("from_BHMF built with a bin holding a non-zero number below the 0.1-object kick threshold")
        if abs(p.N.sum() - N0) > 1e-9 * N0:
            chk.fail("from_BHMF: numbers sum to N0", label, float(p.N.sum()))
        ed = np.r_[p.bins.lower, p.bins.upper[-1]]
        if ed[0] != brk[0] or ed[-1] != brk[-1] or not all(np.any(ed == b) for b in brk) or len(p.N) != sum(nb_):
            chk.fail("from_BHMF: bins have the requested edges", label, ed.tolist())
        for kset in ksets:
            try:
                pk = emf.InitialBHPopulation.from_BHMF(brk, sl, nb_, -1.0, N0=N0, natal_kicks=True, **kset)
            except Exception as e:  # noqa
                chk.fail("kicks only remove BHs, by exactly the reported kicked mass", dict(label, kicks=kset), dict(error=type(e).__name__, msg=str(e)[:80]))
                continue
            chk.count("from_BHMF with kicks (%s)" % kset.get("kick_method", "maxwellian"))
            if np.any(pk.M > p.M * (1 + 1e-12)) or np.any(pk.N > p.N * (1 + 1e-12)) or abs((p.M.sum() - pk.M.sum()) - pk._kicked_M) > 1e-9 * max(p.M.sum(), 1e-300):
                chk.fail("kicks only remove BHs, by exactly the reported kicked mass", dict(label, kicks=kset),
                         dict(removed=float(p.M.sum() - pk.M.sum()), reported=float(pk._kicked_M)))

    for _ in range(8 if chk.tier == "quick" else 60):
        lo = rng.choice([5.0, 3.0, 0.5, 1.0, 10.0])
        brk = [lo, lo * rng.uniform(2, 5), lo * rng.uniform(6, 20)]
        sl = [rng.uniform(-3, 0.5), rng.uniform(-3, 0.5)]
        nb_ = [rng.randint(1, 6), rng.randint(1, 6)]
        N0 = 10 ** rng.uniform(2, 4)
        if rng.random() < 0.4:
            # sparse populations: many bins hold a non-zero number below the 0.1-object threshold of the kick routine (left untouched by it)
            nb_ = [rng.randint(6, 14), rng.randint(6, 14)]
            N0 = float(rng.choice([1.0, 5.0, 25.0, 40.0]))
        p_ok = None
        try:
            p_ok = emf.InitialBHPopulation.from_BHMF(brk, sl, nb_, -1.0, N0=N0, natal_kicks=False)   # (only decides whether kick options are drawn: the stream below is the one of the earlier versions)
        except Exception:  # noqa
            pass
        ksets = () if p_ok is None else (
            dict(vesc=rng.choice([30, 90, 300])), dict(kick_method="sigmoid", kick_slope=rng.choice([0.4, 1.0]), kick_scale=rng.choice([10.0, 20.0])),
            dict(kick_method=rng.choice(["f12", "fryer2012"]), vesc=rng.choice([60, 150])))
        one_bhmf(brk, sl, nb_, N0, ksets)
    # fixed coverage points, present at every seed (they draw nothing from the generator): sparse populations in which several bins hold a non-zero
    # number below the 0.1-object threshold of the kick routine, under each kick method
    for brk, sl, nb_, N0 in (([5.0, 15.0, 60.0], [-1.0, -2.3], [8, 12], 1.0), ([3.0, 10.0, 45.0], [0.3, -2.8], [6, 14], 5.0),
                             ([10.0, 25.0, 90.0], [-0.5, -1.5], [10, 10], 25.0)):
        one_bhmf(brk, sl, nb_, N0, (dict(vesc=90), dict(vesc=300), dict(kick_method="sigmoid", kick_slope=1.0, kick_scale=20.0),
                                    dict(kick_method="fryer2012", vesc=150)))
    chk.trusted += ["harness/props/C19.py (closure capture through a stand-in for scipy's ode)", "FloatFun", "translator gen_formulas.py"]


def classify(f):
    cl = f["clause"]
    if f.get("bh_progenitors_span_imf_segments") and cl in (
            "BH number and mass per bin equal those of the full model evolved to the same age with full retention",
            "stars lost equal the number of the IMF above the final turn-off mass"):
        return "bh_slope_last_segment"
    if f.get("single_bin_window_skipped") and cl == "stars lost equal the number of the IMF above the final turn-off mass":
        return "single_bin_window_stepped_over"
    if f.get("ms_lost_untruncated"):
        return "ms_lost_untruncated"
    if cl == "a population can be built directly from any BH mass function" and f.get("first_break_above_wd"):
        return "from_bhmf_high_start_indexerror"
    return None


def replay(chk, payload):
    run(chk)
