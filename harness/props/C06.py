"""C06 -- rows and schedules.

T3: the real `_evolve` of EvolvedMF / EvolvedMFWithBH is run with a STATEFUL
stand-in solver (each integrate call derives the new state from the solver's
own previous state object, exactly as scipy does, so in-place damage to
`sol.y` would carry over) on random schedules (unsorted, repeats, 0, ages
equal to bin turn-off times); the sequence of integrate targets and the row
written for each age are compared with Model/Evolve.v run on floats.  Rows
never written are detected by pre-filling np.empty / np.empty_like with a
NaN sentinel.  Oracle: every row equals the row of the same age requested
ALONE (bit-identical under the stand-in flow; integrator accuracy with the
real solver), per-age BH targets, no feedback of ejection.
"""
import contextlib
import copy
import math
import warnings

import numpy as np

import common as C
import implutil as U

STATIC = ["Model/Evolve.vo"]
EXTRA_PROPS = ["C06b"]
IMPORTS = "From SSP Require Import Model.Evolve."
SENT = float.fromhex("0x1.deadp+1000")


class StatefulOde(U.FakeOde):
    """new state = previous solver state with a time marker written into it."""
    def integrate(self, t):
        cls = type(self)
        cls.log.append(float(t))
        y = self.y            # the very object the model code may have damaged
        new = np.array(y, dtype=float)
        new[cls.marker] = t
        if cls.bh_slice is not None:
            pass              # BH content is carried from the previous state unchanged
        self.y = new
        self.t = t
        return self.y


@contextlib.contextmanager
def sentinel_empty():
    oe, oel = np.empty, np.empty_like

    def e(shape, *a, **k):
        r = oe(shape, *a, **k)
        if r.dtype == float:
            r[...] = SENT
        return r

    def el(x, *a, **k):
        r = oel(x, *a, **k)
        if r.dtype == float:
            r[...] = SENT
        return r
    np.empty, np.empty_like = e, el
    try:
        yield
    finally:
        np.empty, np.empty_like = oe, oel


def run_fake(carrier, tout, ret_dyn=1.0, fbh=None, bh=None, kick_rfac=None):
    emf, masses, *_ = U.mods()
    obj = copy.copy(carrier)
    if fbh is not None:
        obj.__class__ = emf.EvolvedMFWithBH
        obj._fBH_target = np.array(fbh, dtype=float)
        obj.strict_BH_target = False
    obj.BH_ret_dyn = ret_dyn
    obj.natal_kicks = kick_rfac is not None
    obj.tout = np.atleast_1d(np.array(tout, dtype=float))
    t_end = np.max(obj.tout)
    obj.t = np.sort(np.r_[obj.tms_u[obj.tms_u < t_end], obj.tout])
    mb = obj.massbins
    cls = type("SOde", (StatefulOde,), {})
    cls.log = []
    cls.marker = 0                       # Ns[0] carries the age
    cls.bh_slice = None
    cls.state_fn = None
    old_init = mb.initial_values

    def init(**kw):
        y = old_init(**kw)
        Ns, al, Nr, Mr = mb.unpack_values(y, grouped_rem=True)
        if bh is not None:
            Nr.BH[:] = bh[1]
            Mr.BH[:] = bh[0]
        return y
    def fake_kicks(Mr_BH, Nr_BH, **kw):
        ej = 0.0
        for j in range(Mr_BH.size):
            ej += Mr_BH[j] * (1 - kick_rfac[j])
            Mr_BH[j] *= kick_rfac[j]
            Nr_BH[j] *= kick_rfac[j]
        return Mr_BH, Nr_BH, ej
    old = emf.ode
    emf.ode = cls
    mb.initial_values = init
    try:
        with sentinel_empty(), warnings.catch_warnings(), U.patched(emf.kicks, "natal_kicks", fake_kicks):
            warnings.simplefilter("ignore")
            obj._evolve()
    finally:
        emf.ode = old
        mb.initial_values = old_init
    return obj, cls.log


def gen_schedule(rng, car):
    n = rng.choice([1, 2, 3, 4, 5, 8])
    pool = [0.0, 12000.0, 100.0, 3000.0, 13999.0, 1.0] + [float(x) for x in car.tms_u if x < 14000] + \
           [rng.uniform(0, 14000) for _ in range(4)]
    t = [rng.choice(pool) for _ in range(n)]
    if rng.random() < 0.3 and n > 1:
        t[rng.randrange(n)] = t[rng.randrange(n)]     # repeat
    if rng.random() < 0.3 and n > 1:
        # two DISTINCT ages that agree to 6-15 digits (a finite-difference pair, ages from float arithmetic): still two rows of their own
        i, j = rng.sample(range(n), 2)
        near = t[i] * (1 + rng.choice([1, -1]) * 10 ** rng.uniform(-15, -5.5)) if t[i] > 0 else 10 ** rng.uniform(-12, -8.5)
        if near != t[i] and 0 <= near <= 14000:
            t[j] = near
    return t


def real_rows_vs_alone(chk, emf, kw, tout):
    """real solver: each row of a schedule against the same age requested alone, at integrator accuracy"""
    full = emf.EvolvedMF.from_powerlaw(tout=tout, **kw)
    for i, t in enumerate(tout):
        one = emf.EvolvedMF.from_powerlaw(tout=[t], **kw)
        chk.count("real-solver row comparisons")
        for nm, a, b in (("Ns", full.Ns[i], one.Ns[0]), ("Mr.BH", full.Mr.BH[i], one.Mr.BH[0]), ("Mr.WD", full.Mr.WD[i], one.Mr.WD[0])):
            # scale: the row itself, but not less than a thousandth of the initial population (a nearly dissolved cluster is
            # known only to the integrator's absolute accuracy)
            sc = max(float(np.max(np.abs(b))), 1e-3 * kw["N0"])
            # (the right-hand side jumps at the core-collapse time, which is not an integration grid point: dopri5 crosses it with
            #  step rejections and the schedule-to-schedule scatter grows to ~1e-3; measured on the unchanged tree)
            #  plus the absolute accuracy of the integration, a few 1e-5 of the initial population, which is all that is known
            #  about a cluster that has lost 99 % of its stars)
            if np.max(np.abs(a - b)) > (5e-3 if kw.get("tcc") else 2e-3) * sc + 3e-5 * kw["N0"]:
                chk.fail("the row for age T is the same (to integrator accuracy) alone or within a schedule [real solver]",
                         dict(kw, tout=tout), dict(row=i, age=t, array=nm, max_abs_diff=float(np.max(np.abs(a - b))), scale=sc))


def run(chk):
    rng = chk.rng
    emf, masses, *_ = U.mods()
    from props.C07 import carriers, gen_array
    cars = carriers()
    nsch = 150 if chk.tier == "quick" else 1500
    exprs, meta = [], []
    for k in range(nsch):
        car = cars[k % len(cars)]
        tout = gen_schedule(rng, car)
        nbh = car.massbins.nbin.BH
        M, N = gen_array(rng, nmax=nbh)
        M = (M + [0.0] * nbh)[:nbh]
        N = (N + [0.0] * nbh)[:nbh]
        if M[0] == 0:
            M[0], N[0] = 40.0, 2.0
        mode = rng.choice(["std", "std", "fbh"])
        ret = rng.choice([1.0, 0.5, 0.9, 0.3])
        fbh = [rng.choice([0.0, 0.001, 0.01, 0.9]) for _ in tout] if mode == "fbh" else None
        # natal kicks (stub retention factors close to 1, so that the ejection budget is not exceeded)
        rfk = [1 - 0.1 * rng.random() for _ in range(nbh)] if (rng.random() < 0.3 and (mode == "fbh" or ret <= 0.5)) else None
        case = dict(car=k % len(cars), tout=tout, mode=mode, ret_dyn=ret, fbh=fbh, M=M, N=N, kick_rfac=rfk)
        chk.note_distinct(case)
        chk.count("schedule length %d" % len(tout))
        try:
            obj, log = run_fake(car, tout, ret, fbh, (M, N), rfk)
        except ValueError as e:
            chk.notes.append("schedule run raised ValueError (%s)" % str(e)[:60])
            continue
        except Exception as e:  # noqa
            chk.fail("a valid schedule of output ages does not make the evolution raise", case, dict(error=type(e).__name__, msg=str(e)[:120]))
            continue
        written = [not C.same_float(float(obj.Ns[i][1]), SENT) if obj.Ns.shape[1] > 1 else True for i in range(len(tout))]
        markers = [float(obj.Ns[i][0]) for i in range(len(tout))]
        first = [tout.index(t) == i for i, t in enumerate(tout)]
        if len(set(tout)) < len(tout):
            chk.count("schedule with repeated ages")
        # ---- oracle: each first-occurrence row equals the same age requested alone -------
        for i, t in enumerate(tout):
            if not first[i]:
                if not written[i]:
                    chk.fail("row i corresponds to the i-th requested age (every row is filled)", case, dict(row=i, age=t),
                             duplicate_age=True)
                continue
            if not written[i]:
                chk.fail("row i corresponds to the i-th requested age (every row is filled)", case, dict(row=i, age=t), duplicate_age=False)
                continue
            if not C.same_float(markers[i], t) and not (t == 0 and markers[i] != SENT):
                chk.fail("row i corresponds to the i-th requested age", case, dict(row=i, requested=t, solver_age=markers[i]))
            alone, _ = run_fake(car, [t], ret, [fbh[i]] if fbh else None, (M, N), rfk)
            for nm in ("Ns", "alpha", "Ms"):
                a, b = getattr(obj, nm)[i], getattr(alone, nm)[0]
                if not C.all_same(list(a), list(b)):
                    chk.fail("the row for age T is the same whether T is requested alone or within a schedule", case,
                             dict(row=i, age=t, array=nm))
                    break
            for cname in ("WD", "NS", "BH"):
                a, b = getattr(obj.Nr, cname)[i], getattr(alone.Nr, cname)[0]
                a2, b2 = getattr(obj.Mr, cname)[i], getattr(alone.Mr, cname)[0]
                a3, b3 = getattr(obj.mr, cname)[i], getattr(alone.mr, cname)[0]
                if C.all_same(list(a), list(b)) and C.all_same(list(a2), list(b2)) and not C.all_same(list(a3), list(b3)):
                    j_ = [q_ for q_ in range(len(a3)) if not C.same_float(float(a3[q_]), float(b3[q_]))][0]
                    chk.fail("the row for age T is the same whether T is requested alone or within a schedule", case,
                             dict(row=i, age=t, array="mr." + cname, bin=j_, N_in_bin=float(a[j_]), mean_mass_in_schedule=float(a3[j_]), mean_mass_alone=float(b3[j_])))
                    break
                if not (C.all_same(list(a), list(b)) and C.all_same(list(a2), list(b2))):
                    chk.fail("BH ejection / targets at one age never affect another age" if cname == "BH" else
                             "the row for age T is the same whether T is requested alone or within a schedule", case,
                             dict(row=i, age=t, cls=cname, in_schedule=float(np.sum(a2)), alone=float(np.sum(b2))))
                    break
        # ---- model --------------------------------------------------------------------------
        exprs.append("(grid (O:=F_ops) %s %s, evolve_rows (O:=F_ops) float (nat * float * float) (fun a b y => b) "
                     "(fun i t y => (i, t, y)) %s %s 0)" % (C.fll(car.tms_u), C.fll(tout), C.fll(car.tms_u), C.fll(tout)))
        meta.append((case, log, written, markers))
    vals = C.eval_cases("C06", IMPORTS, "", exprs, shard=50)
    dis = []
    for (case, log, written, markers), v in zip(meta, vals):
        g, rows = v
        if not C.all_same(list(map(float, g)), log):
            dis.append(dict(what="integration grid", input=case, impl=log[:12], model=[float(x) for x in g][:12]))
            continue
        for i, r in enumerate(rows):
            mw = r != "None"
            if mw != written[i]:
                dis.append(dict(what="row written", input=case, row=i, impl=written[i], model=mw))
            elif mw:
                (idx, age, st) = r[2]
                if int(idx) != i or not C.same_float(float(st), markers[i] if case["tout"][i] != 0 else float(st)):
                    dis.append(dict(what="row content", input=case, row=i, impl=markers[i], model=[int(idx), float(age), float(st)]))
    chk.correspondence("grid / evolve_rows (exact) vs the integrate calls and rows of the real _evolve (stand-in solver)", len(meta), dis)
    chk.samples.append(dict(case=dict(meta[0][0], M=None, N=None), integrate_targets=meta[0][1][:8]))
    # ---- real solver: rows vs alone at integrator accuracy ---------------------------------
    nreal = 3 if chk.tier == "quick" else 20
    for _ in range(nreal):
        tout = [rng.choice([100.0, 500.0, 3000.0, 9000.0, 12000.0]) for _ in range(3)]
        tout = list(dict.fromkeys(tout))
        rng.shuffle(tout)
        kw = dict(m_breaks=[0.1, 0.5, 1.0, 100], a_slopes=[-0.5, -1.3, -2.5], nbins=[5, 5, 20], FeH=-1.0, esc_rate=rng.choice([0, -20.0]),
                  N0=5e5, BH_ret_dyn=rng.choice([0.5, 0.8]))
        if rng.random() < 0.5:
            kw.update(natal_kicks=True, vesc=rng.choice([90, 200]), BH_ret_dyn=0.3)
        if kw["esc_rate"] != 0 or _ == 0:
            # a core-collapse time between the requested ages: the switch of escape regime happens at tcc, whatever else is requested
            kw.update(esc_rate=-20.0, tcc=float(rng.choice([5800.0, 2500.0, 7000.0])), esc_norm=rng.choice(["N", "M"]))
            # (first run, always: a requested age 200 Myr after the core-collapse time, i.e. INSIDE the integration interval that contains it)
            tout = [kw["tcc"] + 200.0, 12000.0] if _ == 0 else tout
        real_rows_vs_alone(chk, emf, kw, tout)
    # fixed coverage points (nothing drawn from the generator): every core-collapse time of the list above, both normalisations of the escape rate,
    # with a requested age 200 Myr after the core-collapse time and one exactly at it - the collapse happens at tcc whatever else is requested
    for tcc_, norm_, first_ in ((5800.0, "N", 6000.0), (5800.0, "M", 5800.0), (2500.0, "N", 2700.0), (2500.0, "M", 2700.0), (7000.0, "M", 7200.0),
                                (7000.0, "N", 7000.0), (4000.0, "N", 4200.0)):
        real_rows_vs_alone(chk, emf, dict(m_breaks=[0.1, 0.5, 1.0, 100], a_slopes=[-0.5, -1.3, -2.5], nbins=[5, 5, 20], FeH=-1.0, esc_rate=-20.0, N0=5e5,
                                          BH_ret_dyn=0.5, tcc=tcc_, esc_norm=norm_), [first_, 12000.0])
    # natal kicks with an age INSIDE the BH-formation epoch requested first (the BH bins are still filling, their mean masses still moving): the
    # later row must be what that age gives alone
    for km_, extra_ in (("maxwellian", dict(vesc=90)), ("sigmoid", dict(kick_slope=0.4, kick_scale=18.0))):
        kwk = dict(m_breaks=[0.1, 0.5, 1.0, 100], a_slopes=[-0.5, -1.3, -2.5], nbins=[5, 5, 20], FeH=-1.0, esc_rate=0, N0=5e5, BH_ret_dyn=0.3,
                   natal_kicks=True, kick_method=km_, **extra_)
        sched_ = [float(rng.choice([4.0, 5.0, 6.5])), 12000.0]
        try:
            full = emf.EvolvedMF.from_powerlaw(tout=sched_, **kwk)
            one = emf.EvolvedMF.from_powerlaw(tout=[12000.0], **kwk)
        except ValueError as e:
            chk.notes.append("kick schedule raised ValueError (%s)" % str(e)[:60])
            continue
        chk.count("real-solver row comparisons")
        for nm, a, b in (("Nr.BH", full.Nr.BH[1], one.Nr.BH[0]), ("Mr.BH", full.Mr.BH[1], one.Mr.BH[0])):
            sc = max(float(np.sum(np.abs(b))), 1.0)
            if float(np.max(np.abs(a - b))) > 1e-2 * sc:
                chk.fail("BH ejection / targets at one age never affect another age", dict(kwk, tout=sched_),
                         dict(row=1, age=12000.0, array=nm, in_schedule=[float(x) for x in a[:8]], alone=[float(x) for x in b[:8]]))
                break
    # age 0 returns the unevolved IMF with no remnants (real solver)
    z = emf.EvolvedMF.from_powerlaw(m_breaks=[0.1, 0.5, 1.0, 100], a_slopes=[-0.5, -1.3, -2.5], nbins=[5, 5, 20], FeH=-1.0,
                                    tout=[5000.0, 0.0], esc_rate=-10.0, N0=5e5)
    y0 = z.massbins.initial_values(N0=5e5)
    if not (C.all_same(list(z.Ns[1]), list(y0[:z.massbins.nbin.MS])) and float(np.sum(np.c_[z.Nr][1])) == 0.0):
        chk.fail("age 0 returns the unevolved IMF with no remnants", dict(tout=[5000.0, 0.0]), dict(Nr_total=float(np.sum(np.c_[z.Nr][1]))))
    chk.trusted += ["harness/props/C06.py: stateful stand-in solver (identity + semigroup flow), NaN-sentinel np.empty wrapper",
                    "the C06 theorems assume an exact flow (H_id, H_semi); dopri5 satisfies them only to its tolerance (measured with the real solver)"]


def classify(f):
    if f["clause"].startswith("row i corresponds to the i-th requested age (every row is filled)") and f.get("duplicate_age"):
        return "duplicate_age_row_uninitialised"
    return None


def replay(chk, payload):
    run(chk)
