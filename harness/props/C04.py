"""C04 -- every valid configuration yields a complete, finite, non-negative result.

PARTIAL (DESIGN.md): proved = consistency of the filtered summary views for any
last row (Properties/C04.v), tied to the implementation by running the real
property getters on injected multi-row arrays.  Explored (not proved, the
Fortran solver is not modelled): random valid configurations over the documented
domain, both model classes; every public array inspected; exceptions classified
by call site against the listed findings.
"""
import copy
import math
import re

import numpy as np

import common as C
import fullrun as FR
import implutil as U

STATIC = ["Model/Views.vo"]
EXTRA_PROPS = ["C04b"]
IMPORTS = "From SSP Require Import Model.Sev Model.Views."


def views_tie(chk):
    rng = chk.rng
    from props.C07 import carriers
    cars = carriers()
    n = 80 if chk.tier == "quick" else 800
    exprs, meta = [], []
    for k in range(n):
        car = copy.copy(cars[k % len(cars)])
        nb = car.massbins.nbin
        nrow = rng.choice([1, 2, 3])
        def cnt():
            return rng.choice([0.0, 0.5, 1.0, 1.0000001, 2.0, 0.999, float("nan"), 10 ** rng.uniform(0, 5)])
        Ns = np.array([[cnt() for _ in range(nb.MS)] for _ in range(nrow)])
        Ms = Ns * np.array([[rng.uniform(0.1, 50) for _ in range(nb.MS)] for _ in range(nrow)])
        Nr = [np.array([[cnt() for _ in range(x)] for _ in range(nrow)]) for x in (nb.WD, nb.NS, nb.BH)]
        Mr = [a * rng.uniform(0.5, 30) for a in Nr]
        car.Ns, car.Ms = Ns, Ms
        car.Nr = type(car.Nr)(*Nr)
        car.Mr = type(car.Mr)(*Mr)
        car.tout = np.array([9000.0] * nrow)
        case = dict(carrier=k % len(cars), rows=nrow, Ns_last=[float(x) for x in Ns[-1]], Nr_last=[float(x) for x in np.concatenate([a[-1] for a in Nr])])
        got, broken = {}, None
        for nm_, fn_ in (("M", lambda: [float(x) for x in car.M]), ("N", lambda: [float(x) for x in car.N]), ("m", lambda: [float(x) for x in car.m]),
                         ("types", lambda: [str(x) for x in car.types]), ("nms", lambda: int(car.nms)), ("nmr", lambda: int(car.nmr)),
                         ("nbw", lambda: len(car.bin_widths))):
            try:
                got[nm_] = fn_()
            except Exception as e:  # noqa
                broken = (nm_, type(e).__name__, str(e)[:100])
                got[nm_] = [] if nm_ in ("M", "N", "m", "types") else -1
        if broken:
            chk.fail("the summary views have consistent lengths (nms + nmr)", case, dict(view=broken[0], raised=broken[1], msg=broken[2],
                                                                                       lengths={k2: (v if isinstance(v, int) else len(v)) for k2, v in got.items()}))
        chk.note_distinct(case)
        nrl = np.concatenate([a[-1] for a in Nr])
        mrl = np.concatenate([a[-1] for a in Mr])
        rt = "[" + "; ".join(["WD"] * nb.WD + ["NS"] * nb.NS + ["BH"] * nb.BH) + "]"
        thr = 10 * car.Nmin
        exprs.append("(view_M (O:=F_ops) %s %s %s %s %s, view_N (O:=F_ops) %s %s %s, view_m (O:=F_ops) %s %s %s %s %s, "
                     "view_types (O:=F_ops) %s %s %s %s, nms (O:=F_ops) %s %s, nmr (O:=F_ops) %s %s)" % (
                         C.fl(thr), C.fll(Ns[-1]), C.fll(Ms[-1]), C.fll(nrl), C.fll(mrl), C.fl(thr), C.fll(Ns[-1]), C.fll(nrl),
                         C.fl(thr), C.fll(Ns[-1]), C.fll(Ms[-1]), C.fll(nrl), C.fll(mrl), C.fl(thr), C.fll(Ns[-1]), C.fll(nrl), rt,
                         C.fl(thr), C.fll(Ns[-1]), C.fl(thr), C.fll(nrl)))
        meta.append((case, got))
        # oracle on the getters themselves
        L = len(got["M"])
        if not (len(got["N"]) == L and len(got["m"]) == L and len(got["types"]) == L and got["nbw"] == L and got["nms"] + got["nmr"] == L):
            chk.fail("the summary views have consistent lengths (nms + nmr)", case, {k2: (v if isinstance(v, int) else len(v)) for k2, v in got.items()})
        want = int(np.sum(Ns[-1] > thr)) + int(np.sum(nrl > thr))
        if L != want:
            chk.fail("the views contain exactly the bins holding more than one object at the last requested age", case, dict(listed=L, expected=want))
    vals = C.eval_cases("C04v", IMPORTS, "", exprs, shard=40)
    dis = []
    for (case, got), v in zip(meta, vals):
        mM, mN, mm, mt, a, b = v
        tmap = {"TMS": "MS"}
        mtypes = [("MS" if x == "TMS" else x[2]) for x in mt]
        ok = (C.all_same(list(map(float, mM)), got["M"]) and C.all_same(list(map(float, mN)), got["N"]) and
              C.all_same(list(map(float, mm)), got["m"]) and mtypes == got["types"] and int(a) == got["nms"] and int(b) == got["nmr"])
        if not ok:
            dis.append(dict(input=case, impl=dict(nms=got["nms"], nmr=got["nmr"], n=len(got["M"])), model=dict(nms=int(a), nmr=int(b), n=len(mM))))
    chk.correspondence("view_M / view_N / view_m / view_types / nms / nmr (exact) vs the EvolvedMF property getters on injected multi-row arrays",
                       len(meta), dis)


def far_probe_below(cfg, msg, sites):
    """the lookup raised 'below lowest bound' inside the stellar-evolution derivative for a remnant mass SMALLER than the white-dwarf mass of the
    turn-off at 14 Gyr: no requested age can produce it - the solver evaluated the derivative far beyond the last age (its first trial step)"""
    mm = re.search(r"mass ([0-9.eE+-]+) is below lowest bound", msg)
    if not (mm and "_derivs_sev" in sites and "determine_index" in sites):
        return False
    try:
        car = U.base_emf(FeH=cfg["FeH"])
        wd14 = float(car.IFMR.predict(float(car.compute_mto(np.array(14000.0)))))
        return bool(float(mm.group(1)) < wd14 * (1 - 1e-6) and max(cfg["tout"]) <= 14000.0)
    except Exception:  # noqa
        return False


def dissolved(cfg, out):
    """only consulted when a row has non-finite or negative entries: does the requested escape (rate x age, a constant rate) exceed what the SAME
    configuration holds at that age without escape?  Then there is no cluster left to describe (the generator's 40 % cap refers to N0, but a
    top-heavy IMF with no NS / BH retained keeps far less than that)"""
    bad = False
    for nm in ("Ns", "Ms"):
        a = np.asarray(out[nm], dtype=float)
        bad = bad or (not np.all(np.isfinite(a))) or bool(np.any(a < -1e-6 * max(cfg["N0"], 1.0)))
    for c in range(3):
        a = np.asarray(out["Nr"][c], dtype=float)
        bad = bad or (not np.all(np.isfinite(a))) or bool(np.any(a < -1e-6 * max(cfg["N0"], 1.0)))
    if not bad or callable(cfg.get("esc_rate")):
        return False
    try:
        import warnings
        with warnings.catch_warnings():
            warnings.simplefilter("ignore")
            ref = FR.build(dict({k: v for k, v in cfg.items() if k != "want_ifmr_grid"}, esc_rate=0.0))
    except Exception:  # noqa
        return False
    for i, t in enumerate(cfg["tout"]):
        if cfg.get("esc_norm", "N") == "M":
            left = float(ref.Ms[i].sum() + sum(x[i].sum() for x in ref.Mr)) + cfg["esc_rate"] * t
            scale = float(ref.Ms[0].sum() + sum(x[0].sum() for x in ref.Mr))
        else:
            left = float(ref.Ns[i].sum() + sum(x[i].sum() for x in ref.Nr)) + cfg["esc_rate"] * t
            scale = cfg["N0"]
        if left <= 0.02 * max(scale, 1.0):
            return True
    return False


def kicks_exceed_budget(cfg):
    """formed BH mass per age (same configuration, no kicks, full dynamical retention) and the mass the natal kicks remove from it"""
    import warnings
    emf, _m, _i, kicks_ = U.mods()
    try:
        with warnings.catch_warnings():
            warnings.simplefilter("ignore")
            ref = FR.build(dict({k: v for k, v in cfg.items() if k not in ("natal_kicks", "kick_method", "vesc", "want_ifmr_grid")}, BH_ret_dyn=1.0))
            old = emf.EvolvedMF._evolve
            emf.EvolvedMF._evolve = lambda self: None
            try:
                shell = FR.build({k: v for k, v in cfg.items() if k != "want_ifmr_grid"})
            finally:
                emf.EvolvedMF._evolve = old
        rows = []
        for i in range(len(cfg["tout"])):
            M, N = np.array(ref.Mr.BH[i], dtype=float), np.array(ref.Nr.BH[i], dtype=float)
            formed = float(M.sum())
            kicked = float(kicks_.natal_kicks(M.copy(), N.copy(), **shell._kick_kw)[2]) if formed > 0 else 0.0
            rows.append(dict(age=float(cfg["tout"][i]), formed=formed, kicked=kicked, ejected_share=(1.0 - cfg["BH_ret_dyn"]) * formed))
        return dict(exceeds=bool(any(r["kicked"] > r["ejected_share"] * (1 + 1e-9) for r in rows)), rows=rows)
    except Exception as e:  # noqa
        return None


def inspect(chk, out):
    cfg = out["cfg"]
    if "error" in out and "Natal kicks already removed" in out.get("msg", ""):
        # by design ONLY IF the kicks really exceed the ejected share (1 - BH_ret_dyn) * formed at some requested age: recomputed by hand from the
        # same configuration without kicks and with full dynamical retention, and the library's kick routine applied to copies of those rows
        over = kicks_exceed_budget(cfg)
        if over is None or over["exceeds"]:
            chk.count("kicks exceed the ejection budget: ValueError by design (C07/C17), not a valid configuration")
        else:
            chk.fail("construction of a valid configuration returns without raising", cfg, dict(error=out["error"], msg=out["msg"][:120], recomputed=over),
                     error=out["error"], site=out.get("site"), kicks_within_budget=True)
        return
    if "error" in out:
        sites = out.get("sites", [])
        chk.fail("construction of a valid configuration returns without raising", cfg, dict(error=out["error"], site=out["site"], msg=out["msg"]),
                 error=out["error"], site=out["site"], in_determine_index=bool("determine_index" in sites), in_derivs=bool("_derivs_sev" in sites),
                 unbinned_mass=(lambda mm: float(mm.group(1)) if mm else None)(re.search(r"mass ([0-9.eE+-]+) is above highest bound", out["msg"])),
                 far_probe_below_wd_bins=far_probe_below(cfg, out["msg"], sites),
                 in_dyn_eject=bool("_dyn_eject_BH" in sites), kicks_msg=bool("Natal kicks already removed" in out["msg"]),
                 wd_msg=bool("above highest bound" in out["msg"] and "WD" not in out["msg"] or "above highest bound" in out["msg"]),
                 ret_dyn=cfg.get("BH_ret_dyn"))
        return
    if not out["converged"]:
        chk.count("non-converged (flagged, exempt)")
        return
    chk.count("converged runs inspected")
    if cfg.get("esc_rate") and dissolved(cfg, out):
        chk.count("requested escape exceeds what stellar evolution leaves of the cluster before the last age (dissolved cluster: not a valid configuration)")
        return
    arrs = dict(Ns=out["Ns"], alpha=out["alpha"], Ms=out["Ms"], mmean=out["mmean"])
    for c, nm in enumerate(("WD", "NS", "BH")):
        arrs["Nr." + nm], arrs["Mr." + nm], arrs["mr." + nm] = out["Nr"][c], out["Mr"][c], out["mr"][c]
    for nm, a in arrs.items():
        if not np.all(np.isfinite(a)):
            chk.fail("every element of every per-age output is finite", cfg, dict(array=nm, bad=int(np.sum(~np.isfinite(a)))))
        elif nm not in ("alpha",) and np.any(a < -1e-6 * max(cfg["N0"], 1.0)):
            chk.fail("counts and masses are non-negative", cfg, dict(array=nm, min=float(np.min(a))))
    ms = out["ms"]
    if not np.all(np.isfinite(ms)):
        zero = bool(np.all((out["Ns"] == 0)[~np.isfinite(ms)]))
        lo_, up_ = out["bins"][0]
        badb = np.flatnonzero(np.any(~np.isfinite(ms), axis=0))
        outside = bool(all(up_[j] <= cfg["m_breaks"][0] * (1 + 1e-12) or lo_[j] >= cfg["m_breaks"][-1] * (1 - 1e-12) for j in badb))
        chk.fail("star mean masses are finite", cfg, dict(bad=int(np.sum(~np.isfinite(ms))), bins=[int(j) for j in badb[:5]]),
                 empty_star_bin=bool(zero and outside and cfg.get("imf_ext") in (None, "zeros")))
    v = out["views"]
    L = len(v["M"])
    if not (len(v["N"]) == L and len(v["m"]) == L and len(v["types"]) == L and len(v["bin_widths"]) == L and v["nms"] + v["nmr"] == L):
        chk.fail("the summary views have consistent lengths (nms + nmr)", cfg, dict(M=L, N=len(v["N"]), types=len(v["types"]), nms=v["nms"], nmr=v["nmr"]))
    else:
        order = {"MS": 0, "WD": 1, "NS": 2, "BH": 3}
        rk = [order[t] for t in v["types"]]
        if any(b < a for a, b in zip(rk, rk[1:])):
            chk.fail("the views list star bins then WD, NS and BH bins", cfg, v["types"])
        if L and not np.allclose(v["m"], v["M"] / v["N"], rtol=1e-12, equal_nan=True):
            chk.fail("the views satisfy m = M / N", cfg, "mismatch")
        thr = 10 * out["Nmin"]
        want = int(np.sum(out["Ns"][-1] > thr)) + sum(int(np.sum(x[-1] > thr)) for x in out["Nr"])
        if L != want:
            chk.fail("the views contain exactly the bins holding more than one object at the last requested age", cfg, dict(listed=L, expected=want))


def schedule_block(chk):
    """schedules of several ages in ANY order: the summary views describe the LAST REQUESTED age (compared with a construction that requests that
    age alone), and per-age BH targets that are reachable at their own age never make the constructor raise"""
    rng = chk.rng
    n = 3 if chk.tier == "quick" else 16
    base = []
    for k in range(n):
        cfg = FR.gen_config(rng, escape=False, kicks=False, cls="EvolvedMF", ntout=3)
        ages = sorted([float(rng.choice([1.5, 30.0, 100.0, 400.0])), float(rng.choice([1500.0, 3000.0, 6000.0])), float(rng.choice([9000.0, 12000.0, 13500.0]))])
        if k % 3 == 0:
            cfg["BH_ret_int"] = 0.0      # no BH is ever retained: the only admissible BH target is exactly the fraction formed, 0
        cfg["tout"] = ages[::-1] if k % 2 == 0 else [ages[1], ages[2], ages[0]]      # the last requested age is never the oldest one
        cfg["BH_ret_dyn"] = 1.0
        cfg.pop("imf_ext", None)
        base.append(cfg)
    alone = [dict(c, tout=[c["tout"][-1]]) for c in base]
    outs = FR.run_many(base + alone)
    chk.evaluations += len(outs)
    targets = []
    for cfg, ob, oa in zip(base, outs[:n], outs[n:]):
        if "error" in ob or "error" in oa or not ob["converged"] or not oa["converged"]:
            chk.count("schedule block: constructions that raised / did not converge (reported by the main block)")
            targets.append(None)
            continue
        chk.count("unsorted schedules compared with the last requested age alone")
        chk.note_distinct(cfg)
        thr = 10 * oa["Nmin"]
        rowN = np.concatenate([oa["Ns"][-1]] + [x[-1] for x in oa["Nr"]])
        rowM = np.concatenate([oa["Ms"][-1]] + [x[-1] for x in oa["Mr"]])
        sure_in, sure_out = rowN > 1.02 * thr + 0.2, rowN < 0.98 * thr - 0.2
        v = ob["views"]
        allN = np.concatenate([ob["Ns"], np.concatenate(ob["Nr"], axis=1)], axis=1)      # every row of the schedule
        want_lo, want_hi = int(np.sum(sure_in)), int(np.sum(~sure_out))
        L = len(v["M"])
        tot = float(np.sum(rowM[rowN > thr]))
        if not (want_lo <= L <= want_hi) or abs(float(np.sum(v["M"])) - tot) > 5e-3 * tot + 3.0 * float(np.max(rowM / np.maximum(rowN, 1e-300) * (rowN > 0))):
            chk.fail("the views contain exactly the bins holding more than one object at the last requested age", cfg,
                     dict(last_requested_age=cfg["tout"][-1], listed=L, expected_between=[want_lo, want_hi], listed_mass=float(np.sum(v["M"])),
                          mass_of_populated_bins_at_that_age_alone=tot, heaviest_listed_star_mean=float(v["m"][v["nms"] - 1]) if v["nms"] else None))
        # per-age BH targets: 0.8 of the BH mass fraction formed at that age itself
        fb = []
        for row in range(len(cfg["tout"])):
            Mbh = float(ob["Mr"][2][row].sum())
            Mtot = float(ob["Ms"][row].sum() + sum(x[row].sum() for x in ob["Mr"]))
            fb.append(0.8 * Mbh / Mtot if Mtot > 0 else 0.0)
        c2 = dict(cfg, cls="EvolvedMFWithBH", f_BH=fb, strict_BH_target=True)
        c2.pop("BH_ret_dyn", None)
        targets.append(c2)
    t2 = [c for c in targets if c is not None]
    outs2 = FR.run_many(t2) if t2 else []
    chk.evaluations += len(outs2)
    for c2, o2 in zip(t2, outs2):
        chk.count("unsorted schedules with per-age BH targets below the fraction formed at their own age (strict)")
        if "error" in o2:
            chk.fail("construction of a valid configuration returns without raising", c2, dict(error=o2["error"], site=o2["site"], msg=o2["msg"]),
                     error=o2["error"], site=o2["site"], schedule_block=True)


def classify(f):
    if f["clause"] != "construction of a valid configuration returns without raising":
        if f["clause"] == "star mean masses are finite" and f.get("empty_star_bin"):
            return "empty_star_bin_mean_nan"
        return None
    if f.get("schedule_block"):
        return None
    if f.get("in_determine_index") and f.get("in_derivs") and f.get("unbinned_mass") is not None and f["unbinned_mass"] < 1.45:
        return "wd_peak_on_upper_edge"        # a white-dwarf mass (below the NS mass) on / above the top WD edge; a BH mass is not covered
    if f.get("far_probe_below_wd_bins"):
        return "solver_probe_beyond_last_age_wd_unbinned"
    if f.get("in_dyn_eject") and f.get("ret_dyn") == 0.0:
        return "eject_exact_total_rounding"
    return None


def run(chk):
    rng = chk.rng
    views_tie(chk)
    nrun = 48 if chk.tier == "quick" else 600
    cfgs = [FR.gen_config(rng, cls="EvolvedMFWithBH" if k % 4 == 3 else "EvolvedMF") for k in range(nrun)]
    outs = FR.run_many(cfgs)
    for out in outs:
        chk.note_distinct(out["cfg"])
        inspect(chk, out)
    chk.evaluations += len(outs)
    chk.samples.append(dict(cfg=cfgs[0]))
    schedule_block(chk)
    chk.trusted += ["harness/props/C04.py + fullrun.py (configuration generator over the documented domain)",
                    "NOT modelled: dopri5 itself (its evaluation points, its first trial step far beyond the last age); the level claimed for the "
                    "pipeline part is exploration, the proof covers the views only"]


def replay(chk, payload):
    f = payload["failure"]
    if f.get("schedule_block") or (isinstance(f.get("observed"), dict) and "last_requested_age" in f["observed"]):
        return run(chk)          # comparisons between several constructions: the whole run is re-created (same seed and tier)
    out = FR.run_config(f["input"])
    inspect(chk, out)
    print({k: v for k, v in out.items() if k in ("error", "msg", "site", "converged")})
