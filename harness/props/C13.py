"""C13 -- mass bins, lookup, packing.

T3: Model/Bins.v (float instance) vs masses.MassBins on generated layouts:
edges (log spacing at 1e-12, linear spacing bit-exact), remnant carving,
determine_index, turned_off_bins, pack/unpack -- all bit-exact on the
implementation's own stellar edges.  Oracle: the property's clauses on every
constructed MassBins.
"""
import math
from collections import namedtuple

import numpy as np

import common as C
import implutil as U

STATIC = ["Model/Bins.vo"]
IMPORTS = "From SSP Require Import Model.Bins."
EXTRA_PROPS = ["C13b"]
Stub = namedtuple("StubIFMR", "WD_mf BH_mf NS_mf WD_mi BH_mi")
B2 = namedtuple("bounds", "lower upper")


def stub_ifmr(wd_up, bh_lo, ns=1.4):
    return Stub(B2(0.0, wd_up), B2(bh_lo, np.inf), B2(ns, ns), B2(0.0, 5.0), B2(20.0, 150.0))


_real = {}


def real_ifmr(feh, ns=1.4):
    from ssptools.ifmr import IFMR
    if (feh, ns) not in _real:
        _real[(feh, ns)] = IFMR(feh) if ns == 1.4 else IFMR(feh, NS_mass=ns)
    return _real[(feh, ns)]


def gen_layout(rng):
    nseg = rng.choice([1, 2, 3, 3, 4, 5])
    lo = rng.choice([0.05, 0.08, 0.1, 0.1, 0.2, 0.5])
    hi = rng.choice([50.0, 100.0, 100.0, 120.0, 150.0, 1.0, 0.8, 1.2])      # incl. grids ending below the heaviest WD
    if hi < 2:
        lo = min(lo, 0.1)
    inner = sorted(10 ** rng.uniform(math.log10(lo * 1.2), math.log10(hi / 1.2)) for _ in range(nseg - 1))
    if rng.random() < 0.3 and nseg >= 3:
        inner[0], inner[1] = 0.5, 1.0
    breaks = [lo] + [round(x, rng.choice([1, 2, 6])) for x in inner] + [hi]
    breaks = sorted(set(breaks))
    nseg = len(breaks) - 1
    form = rng.choice(["list", "list", "int", "dict_list", "dict_int"])
    counts = [rng.choice([1, 1, 2, 3, 5, 8, 13, 40]) for _ in range(nseg)]
    if form == "int":
        nb = rng.choice([nseg, nseg + 1, 2 * nseg + 1, 7 * nseg, 30])
    elif form == "list":
        nb = counts
    elif form == "dict_list":
        nb = {"MS": counts, "WD": rng.choice([1, 3, 8]), "NS": 1, "BH": rng.choice([1, 4, 9])}
    else:
        nb = {"MS": rng.choice([nseg, 3 * nseg + 1, 30]), "WD": rng.choice([1, 3, 8]), "BH": rng.choice([1, 4, 9])}
    method = rng.choice(["default", "split_log", "log_split", "split_linear", "linear_split"])
    if rng.random() < 0.5:
        feh = rng.choice([-2.5, -2.0, -1.5, -1.0, -0.5, 0.0, 0.3])
        ifm = ("real", feh)
    else:
        ifm = ("stub", rng.choice([1.0, 1.2, 1.38]) + rng.random() * 0.3, rng.choice([2.5, 5.0, 5.5, 8.0]) + rng.random())
    lay = dict(breaks=breaks, nbins=nb, method=method, ifmr=ifm, form=form)
    if form in ("dict_list", "dict_int") and rng.random() < 0.4:
        lay["ns_mass"] = rng.choice([1.25, 1.6, 2.0, 1.41])        # an IFMR with another neutron-star mass (remnant bins requested explicitly)
    if rng.random() < 0.5:
        # the IMF object handed to MassBins is independent of the binning breaks (documented: the IMF's breaks are not used to set up the bins):
        # another number of components over the same range
        lay["imf_comps"] = rng.choice([k_ for k_ in (1, 2, 3, 4, 5) if k_ != nseg])
    if rng.random() < 0.2 and form in ("list", "dict_list"):
        # put a break exactly on an IFMR bound (minimum BH mass / maximum WD mass)
        io = real_ifmr(ifm[1]) if ifm[0] == "real" else stub_ifmr(ifm[1], ifm[2])
        x = float(rng.choice([io.BH_mf.lower, io.WD_mf.upper]))
        if breaks[0] < x < breaks[-1] and x not in breaks:
            k = sum(1 for b in breaks if b < x)
            lay["breaks"] = breaks[:k] + [x] + breaks[k:]
            cs = list(nb["MS"] if isinstance(nb, dict) else nb)
            cs = cs[:k] + [rng.choice([1, 2, 4])] + cs[k:]
            if isinstance(nb, dict):
                lay["nbins"] = dict(nb, MS=cs)
            else:
                lay["nbins"] = cs
    return lay


def build(lay):
    from ssptools.masses import MassBins, PowerLawIMF
    ns_ = lay.get("ns_mass", 1.4)
    ifm = real_ifmr(lay["ifmr"][1], ns_) if lay["ifmr"][0] == "real" else stub_ifmr(lay["ifmr"][1], lay["ifmr"][2], ns=ns_)
    b = lay["breaks"]
    nc = lay.get("imf_comps")
    if nc:
        ib = [b[0] * (b[-1] / b[0]) ** (k_ / nc) for k_ in range(nc + 1)]
        ib[0], ib[-1] = b[0], b[-1]
        imf = PowerLawIMF(ib, [-1.3] * nc, N0=1e5)
    else:
        imf = PowerLawIMF(b, [-1.3] * (len(b) - 1), N0=1e5)
    return MassBins(b, lay["nbins"], imf, ifm, binning_method=lay["method"]), ifm


def pairs_of(mb):
    return list(zip(map(float, np.atleast_1d(mb.lower)), map(float, np.atleast_1d(mb.upper))))


def coq_bins(pr):
    return "[" + "; ".join("(%s, %s)" % (C.fl(a), C.fl(b)) for a, b in pr) + "]"


def res_list(v):
    """Ok [...] / Err X  -> ('Ok', list) / ('Err', name)"""
    if isinstance(v, tuple) and v[0] == "app" and v[1] == "Ok":
        return ("Ok", v[2])
    if isinstance(v, tuple) and v[0] == "app" and v[1] == "Err":
        return ("Err", v[2])
    raise ValueError(v)


def oracle(chk, lay, mbins, ifm):
    b = mbins.bins
    lo, up = np.asarray(b.MS.lower, float), np.asarray(b.MS.upper, float)
    breaks = lay["breaks"]
    if not (np.all(up > lo) and np.all(up[:-1] == lo[1:])):
        chk.fail("stellar bins tile contiguously and strictly increasingly", lay, pairs_of(b.MS))
    if lo[0] != breaks[0] or up[-1] != breaks[-1]:
        chk.fail("stellar bins span [first break, last break]", lay, [lo[0], up[-1]])
    edges = np.r_[lo, up[-1]]
    for x in breaks:
        if not np.any(edges == x):
            chk.fail("every break is an edge", lay, dict(missing=x))
    nb = lay["nbins"]
    ms = nb["MS"] if isinstance(nb, dict) else nb
    want = ms if isinstance(ms, int) else sum(ms)
    if lo.size != want:
        chk.fail("requested number of stellar bins", lay, dict(got=int(lo.size), want=want))
    if not isinstance(ms, int):
        for i, n in enumerate(ms):
            got = int(np.sum((lo >= breaks[i]) & (up <= breaks[i + 1])))
            if got != n:
                chk.fail("requested number of bins per segment", lay, dict(segment=i, got=got, want=n))
    for cls in ("WD", "BH"):
        l2, u2 = np.atleast_1d(getattr(b, cls).lower), np.atleast_1d(getattr(b, cls).upper)
        if l2.size and not (np.all(u2 > l2) and np.all(u2[:-1] <= l2[1:] * (1 + 1e-15))):
            chk.fail("remnant bins are increasing and non-overlapping", lay, dict(cls=cls, bins=pairs_of(getattr(b, cls))),
                     wd_edge_at_wd_max=bool(cls == "WD" and np.any(lo == ifm.WD_mf.upper)))
    if np.atleast_1d(b.BH.lower).size and np.atleast_1d(b.BH.lower)[0] != ifm.BH_mf.lower:
        chk.fail("BH bins start at the minimum BH mass", lay, dict(first=float(np.atleast_1d(b.BH.lower)[0]), want=float(ifm.BH_mf.lower)))
    if np.atleast_1d(b.WD.upper).size == 0:
        chk.count("layout starting above the heaviest WD: no WD bins")
    elif np.atleast_1d(b.WD.upper)[-1] != ifm.WD_mf.upper:
        chk.fail("WD bins end at the maximum WD mass", lay, dict(last=float(np.atleast_1d(b.WD.upper)[-1]), want=float(ifm.WD_mf.upper)))
    nsm = ifm.NS_mf.lower
    nl, nu = np.atleast_1d(b.NS.lower), np.atleast_1d(b.NS.upper)
    ncont = int(np.sum((nl <= nsm) & (nsm < nu)))
    covers_ns = breaks[0] < nsm < breaks[-1] or isinstance(lay["nbins"], dict)
    if not covers_ns:
        chk.count("layout not covering the NS mass: NS clauses not applicable")
    elif ncont != 1 or nl.size != 1:
        chk.fail("exactly one NS bin contains the NS mass", lay, dict(bins=pairs_of(b.NS)),
                 edge_at_ns_mass=bool(np.any(edges == 1.4)))
    # the NS bin must be usable by the lookup (array-valued)
    try:
        if not covers_ns:
            raise StopIteration
        ind = mbins.determine_index(nsm, "NS")
        if ind != 0:
            chk.fail("lookup of the NS mass returns the NS bin", lay, dict(ind=int(ind)))
    except StopIteration:
        pass
    except Exception as e:  # noqa
        chk.fail("lookup of the NS mass returns the NS bin", lay, dict(error=type(e).__name__),
                 ns_scalar=bool(np.ndim(b.NS.lower) == 0), edge_at_ns_mass=bool(np.any(edges == 1.4)))
    if mbins.nbin.MS != lo.size or mbins.nbin.WD != np.atleast_1d(b.WD.lower).size or \
            mbins.nbin.BH != np.atleast_1d(b.BH.lower).size:
        chk.fail("nbin matches the bins", lay, dict(nbin=[int(x) for x in mbins.nbin]))


def classify(f):
    cl = f["clause"]
    if f.get("construction_error") == "TypeError" and f.get("form") == "dict_int":
        return "nbins_dict_int_typeerror"
    if cl == "lookup of the NS mass returns the NS bin" and f.get("ns_scalar"):
        return "nbins_dict_ns_scalar"
    if cl == "remnant bins are increasing and non-overlapping" and f.get("wd_edge_at_wd_max"):
        return "wd_bin_degenerate_edge_at_wd_max"
    if f.get("construction_error") == "IndexError" and f.get("first_break_above_wd"):
        return "carve_wd_empty_indexerror"
    return None


def run(chk):
    rng = chk.rng
    nlay = 220 if chk.tier == "quick" else 2000
    lays, objs = [], []
    # corpus: edge at 1.4; first break above WD maximum; BH minimum on an edge
    corpus = [
        dict(breaks=[0.1, 1.4, 100.0], nbins=[3, 5], method="default", ifmr=("real", -1.0), form="list"),
        dict(breaks=[2.0, 10.0, 100.0], nbins=[3, 5], method="default", ifmr=("real", -1.0), form="list"),
        dict(breaks=[0.1, 0.5, 1.0, 100.0], nbins={"MS": 30, "WD": 3, "BH": 4}, method="default", ifmr=("real", -1.0), form="dict_int"),
        dict(breaks=[0.1, 0.5, 1.0, 100.0], nbins={"MS": [5, 5, 20], "WD": 3, "NS": 1, "BH": 4}, method="default", ifmr=("real", -1.0), form="dict_list"),
        dict(breaks=[0.1, 0.5, 1.0, 8.0, 100.0], nbins=[2, 2, 3, 4], method="split_linear", ifmr=("stub", 1.3, 8.0), form="list"),
    ]
    for lay in corpus + [gen_layout(rng) for _ in range(nlay)]:
        try:
            mbins, ifm = build(lay)
        except Exception as e:  # noqa
            ifm = real_ifmr(lay["ifmr"][1]) if lay["ifmr"][0] == "real" else stub_ifmr(lay["ifmr"][1], lay["ifmr"][2])
            if isinstance(e, ValueError) and "cannot be higher than upper bound" in str(e) and isinstance(lay["nbins"], dict):
                chk.count("dict form on a grid that ends below the lightest BH: documented ValueError, not a valid layout")
                continue
            chk.fail("construction of a valid layout does not raise", lay, dict(error=type(e).__name__, msg=str(e)[:100]),
                     construction_error=type(e).__name__, form=lay["form"],
                     first_break_above_wd=bool(lay["breaks"][0] > ifm.WD_mf.upper))
            continue
        lays.append(lay)
        objs.append((mbins, ifm))
        chk.note_distinct(lay)
        chk.count("form " + lay["form"])
        chk.count("method " + lay["method"])
        oracle(chk, lay, mbins, ifm)
        # the same layout again in the same process with ANOTHER IFMR (other remnant bounds): its remnant bins are its own
        if len(lays) % 5 == 0 and lay["breaks"][-1] >= 50 and lay["breaks"][0] <= 0.5:
            for other in (("real", float(rng.choice([-2.0, 0.0, -0.5, 0.3]))), ("stub", 1.05 + 0.4 * rng.random(), 6.0 + 10 * rng.random())):
                lay2 = dict(lay, ifmr=list(other))
                try:
                    mb2, ifm2 = build(lay2)
                except Exception:  # noqa
                    continue
                chk.count("same layout rebuilt with another IFMR")
                oracle(chk, lay2, mb2, ifm2)
    # ---- T3 edges + carving -------------------------------------------
    exprs = []
    meta = []
    for lay, (mbins, ifm) in zip(lays, objs):
        nb = lay["nbins"]
        ms = nb["MS"] if isinstance(nb, dict) else nb
        counts = ms if not isinstance(ms, int) else None
        sp = "Lin" if lay["method"] in ("linear_split", "split_linear") else "Log"
        nseg = len(lay["breaks"]) - 1
        cexpr = ("[%s]" % "; ".join("%d%%nat" % n for n in counts)) if counts is not None else \
            "(divide_bin_sizes %d %d)" % (ms, nseg)
        msb = coq_bins(pairs_of(mbins.bins.MS))
        exprs.append("(edges (O:=F_ops) %s %s %s, carve_WD (O:=F_ops) %s %s, carve_BH (O:=F_ops) %s %s, "
                     "carve_NS (O:=F_ops) %s (0x1.6666666666666p+0))" % (
                         sp, C.fll(lay["breaks"]), cexpr, msb, C.fl(ifm.WD_mf.upper), msb, C.fl(ifm.BH_mf.lower), msb))
        meta.append((lay, mbins, ifm, sp))
    vals = C.eval_cases("C13e", IMPORTS, "", exprs, shard=60)
    dis = []
    dict_meta = []
    for (lay, mbins, ifm, sp), v in zip(meta, vals):
        e, wd, bh, ns = v
        e = res_list(e)
        impl_edges = [float(x) for x in np.r_[mbins.bins.MS.lower, mbins.bins.MS.upper[-1]]]
        ok = e[0] == "Ok" and len(e[1]) == len(impl_edges) and (
            C.all_same(e[1], impl_edges) if sp == "Lin" else
            (C.all_close(e[1], impl_edges, rtol=1e-12) and all(
                (x not in lay["breaks"]) or any(C.same_float(x, y) for y in e[1]) for x in impl_edges)))
        if not ok:
            dis.append(dict(what="edges", input=lay, impl=impl_edges, model=C.jsonable(e)))
        if isinstance(lay["nbins"], dict):
            dict_meta.append((lay, mbins, ifm, sp))
        if not isinstance(lay["nbins"], dict):
            for nm, mv in (("WD", res_list(wd)), ("BH", res_list(bh)), ("NS", ("Ok", ns))):
                ib = pairs_of(getattr(mbins.bins, nm))
                mvl = [(float(a), float(b)) for a, b in mv[1]] if mv[0] == "Ok" else None
                if mvl is None or len(mvl) != len(ib) or not all(C.same_float(a, c) and C.same_float(b, d)
                                                                  for (a, b), (c, d) in zip(mvl, ib)):
                    dis.append(dict(what="carve " + nm, input=lay, impl=ib, model=C.jsonable(mv)))
    # dict form: remnant bins built directly from the IFMR bounds
    dexprs = []
    for lay, mbins, ifm, sp in dict_meta:
        nb = lay["nbins"]
        dexprs.append("(dict_WD (O:=F_ops) %s %s %s %s %d, dict_BH (O:=F_ops) %s %s %s %s %d, dict_NS (O:=F_ops) %s (0x1.47ae147ae147bp-7))" % (
            sp, C.fl(lay["breaks"][0]), C.fl(ifm.WD_mf.lower), C.fl(ifm.WD_mf.upper), nb["WD"],
            sp, C.fl(lay["breaks"][-1]), C.fl(ifm.BH_mf.lower), C.fl(ifm.BH_mf.upper), nb["BH"], C.fl(ifm.NS_mf.lower)))
    if dexprs:
        dvals = C.eval_cases("C13d", IMPORTS, "", dexprs, shard=60)
        for (lay, mbins, ifm, sp), v in zip(dict_meta, dvals):
            for nm, mv in (("WD", res_list(v[0])), ("BH", res_list(v[1])), ("NS", ("Ok", v[2]))):
                ib = pairs_of(getattr(mbins.bins, nm))
                mvl = [(float(a), float(b)) for a, b in mv[1]] if mv[0] == "Ok" else None
                okd = mvl is not None and len(mvl) == len(ib) and all(
                    (C.close_float(a, c, 1e-12) and C.close_float(b, d, 1e-12)) if sp == "Log" else (C.same_float(a, c) and C.same_float(b, d))
                    for (a, b), (c, d) in zip(mvl, ib))
                if not okd:
                    dis.append(dict(what="dict-form " + nm, input=lay, impl=ib, model=C.jsonable(mv)))
    chk.correspondence("edges / carve_WD / carve_BH / carve_NS / dict_WD / dict_BH / dict_NS vs MassBins.__init__", len(meta) + len(dict_meta), dis)
    if meta:
        chk.samples.append(dict(layout=meta[0][0], impl_MS=pairs_of(meta[0][1].bins.MS)[:4]))
    # ---- T3 lookup + truncation ---------------------------------------
    exprs, meta2 = [], []
    for lay, (mbins, ifm) in list(zip(lays, objs))[: (150 if chk.tier == "quick" else 1500)]:
        cls = rng.choice(["MS", "MS", "WD", "BH"])
        bp = pairs_of(getattr(mbins.bins, cls))
        if not bp:
            continue
        ed = [p[0] for p in bp] + [bp[-1][1]]
        if cls == "MS":
            # a truncated bin set is a value: keeping it across later calls, or writing into it, changes nothing else
            ms_ = [rng.uniform(ed[0], ed[-1]) for _ in range(4)]
            kept = [mbins.turned_off_bins(m_) for m_ in ms_]
            snap = [pairs_of(k_) for k_ in kept]
            again = [pairs_of(mbins.turned_off_bins(m_)) for m_ in ms_]
            kept[0].upper[:] = -1.0
            after_write = pairs_of(mbins.turned_off_bins(ms_[1]))
            now = [pairs_of(k_) for k_ in kept[1:]]
            if snap != again or now != snap[1:] or after_write != snap[1] or pairs_of(mbins.bins.MS) != [tuple(p_) for p_ in bp]:
                chk.fail("truncating at a turn-off mass changes only the upper edge of the bin containing it (results kept across calls stay valid)",
                         dict(lay, mtos=ms_), dict(first_kept_now=now[0][:4], expected=snap[1][:4]))
        for _ in range(6):
            x = rng.choice(ed)
            m = rng.choice([x, float(np.nextafter(x, 0)), float(np.nextafter(x, 1e9)), x * rng.uniform(0.5, 1.5),
                            rng.uniform(ed[0], ed[-1]), float("nan"), ed[-1] * 2, ed[0] / 2])
            allow = rng.random() < 0.2
            try:
                r = ("Ok", int(mbins.determine_index(m, cls, allow_overflow=allow)))
            except ValueError:
                r = ("Err", "ValueError")
            to = pairs_of(mbins.turned_off_bins(m)) if cls == "MS" else None
            exprs.append("(determine_index (O:=F_ops) %s %s %s, %s)" % (
                C.fl(m), coq_bins(bp), "true" if allow else "false",
                ("turned_off_bins (O:=F_ops) %s %s" % (coq_bins(bp), C.fl(m))) if cls == "MS" else "@nil (float*float)"))
            meta2.append((lay, cls, m, allow, r, to, bp))
            # oracle: unique bin with lower <= m < upper
            inside = [i for i, (a, b) in enumerate(bp) if a <= m < b]
            if not allow:
                if inside and (r != ("Ok", inside[0]) or len(inside) != 1):
                    chk.fail("lookup returns the unique bin with lower <= m < upper", dict(lay, cls=cls, m=m), r)
                if not inside and r[0] == "Ok" and not math.isnan(m):
                    gap = any(bp[i][1] <= m < bp[i + 1][0] for i in range(len(bp) - 1))
                    if not gap:
                        chk.fail("lookup raises outside the range", dict(lay, cls=cls, m=m), r)
            if to is not None:
                diff = [i for i in range(len(bp)) if to[i] != bp[i]]
                if len(diff) > 1 or any(to[i][0] != bp[i][0] for i in diff) or \
                        (diff and not (to[diff[0]][1] == m and bp[diff[0]][0] <= m < bp[diff[0]][1])):
                    chk.fail("truncation changes only the upper edge of the bin containing the turn-off mass",
                             dict(lay, m=m), dict(changed=diff))
    vals = C.eval_cases("C13l", IMPORTS, "", exprs, shard=150)
    dis = []
    for (lay, cls, m, allow, r, to, bp), v in zip(meta2, vals):
        di, tb = v
        di = res_list(di)
        if (di[0], di[1]) != r:
            dis.append(dict(what="determine_index", input=dict(lay, cls=cls, m=m, allow=allow), impl=r, model=C.jsonable(di)))
        if to is not None:
            tbl = [(float(a), float(b)) for a, b in tb]
            if len(tbl) != len(to) or not all(C.same_float(a, c) and C.same_float(b, d) for (a, b), (c, d) in zip(tbl, to)):
                dis.append(dict(what="turned_off_bins", input=dict(lay, m=m), impl=to, model=tbl))
    chk.correspondence("determine_index / turned_off_bins (bit-exact) vs MassBins", len(meta2), dis)
    # ---- pack / unpack ---------------------------------------------------
    exprs, meta3 = [], []
    for lay, (mbins, ifm) in list(zip(lays, objs))[: (60 if chk.tier == "quick" else 600)]:
        nb = mbins.nbin
        size = int(mbins._ysize)
        y = [float(rng.randint(-50, 50)) + rng.random() for _ in range(size)]
        un = [list(map(float, a)) for a in mbins.unpack_values(np.array(y))]
        re_ = list(map(float, mbins.pack_values(*[np.array(a) for a in un])))
        if re_ != y:
            chk.fail("packing and unpacking are inverse", lay, dict(y=y[:5], repacked=re_[:5]))
        # the packed vector is the documented concatenation whatever the TYPE of a component (integer counts, single precision, lists)
        for kind_ in ("int64 counts", "list of ints", "float32 counts"):
            Ns_x = [float(int(v_)) for v_ in un[0]]
            first_ = np.array(Ns_x, dtype=np.int64) if kind_ == "int64 counts" else [int(v_) for v_ in Ns_x] if kind_ == "list of ints" else np.array(Ns_x, dtype=np.float32)
            try:
                pk_ = np.asarray(mbins.pack_values(first_, *[np.array(a_) for a_ in un[1:]]), dtype=float)
            except Exception as e:  # noqa
                chk.fail("packing and unpacking are inverse", dict(lay, counts_as=kind_), dict(error=type(e).__name__, msg=str(e)[:80]))
                continue
            want_ = np.array(Ns_x + [v_ for a_ in un[1:] for v_ in a_], dtype=float)
            chk.count("packing with counts given as another type")
            if pk_.shape != want_.shape or not np.array_equal(pk_, want_):
                j_ = int(np.flatnonzero(pk_ != want_)[0]) if pk_.shape == want_.shape else -1
                chk.fail("packing and unpacking are inverse", dict(lay, counts_as=kind_),
                         dict(index=j_, packed=float(pk_[j_]) if j_ >= 0 else None, expected=float(want_[j_]) if j_ >= 0 else None))
        if [len(a) for a in un] != [nb.MS, nb.MS, nb.WD, nb.NS, nb.BH, nb.WD, nb.NS, nb.BH]:
            chk.fail("unpacked components follow the documented order and sizes", lay, [len(a) for a in un])
        L = "{| nMS := %d; nWD := %d; nNS := %d; nBH := %d |}" % (nb.MS, nb.WD, nb.NS, nb.BH)
        exprs.append("(let u := unpack (T:=float) %s %s in ([uNs u; uAlpha u; uNwd u; uNns u; uNbh u; uMwd u; uMns u; uMbh u], "
                     "pack %s u, blueprint %s))" % (L, C.fll(y), L, L))
        meta3.append((lay, y, un, [int(x) for x in mbins._blueprint]))
    vals = C.eval_cases("C13p", IMPORTS, "", exprs, shard=30)
    dis = []
    for (lay, y, un, bp), v in zip(meta3, vals):
        mu, mp, mbp = v
        mp = res_list(mp)
        if [list(map(float, a)) for a in mu] != un or mp[0] != "Ok" or list(map(float, mp[1])) != y or [int(x) for x in mbp] != bp:
            dis.append(dict(what="pack/unpack", input=lay, impl=dict(blueprint=bp), model=C.jsonable(mbp)))
    chk.correspondence("unpack / pack / blueprint (exact) vs MassBins", len(meta3), dis)
    chk.trusted += ["harness/props/C13.py (layout generator, stub IFMR objects, comparator)",
                    "numpy.geomspace modelled by its mathematical definition (compared at 1e-12, end points exactly); "
                    "numpy.linspace modelled operation by operation (bit-exact)"]


def replay(chk, payload):
    lay = payload["failure"]["input"]
    if not isinstance(lay, dict) or not all(k in lay for k in ("breaks", "nbins", "method", "ifmr", "form")) or "counts_as" in lay or "m" in lay:
        return run(chk)          # lookup / truncation / packing clauses: the whole run is re-created (same seed and tier)
    lay = {k: lay[k] for k in ("breaks", "nbins", "method", "ifmr", "form", "imf_comps", "ns_mass") if k in lay}
    lay["ifmr"] = tuple(lay["ifmr"])
    try:
        mbins, ifm = build(lay)
        oracle(chk, lay, mbins, ifm)
        print("bins:", mbins.bins)
    except Exception as e:  # noqa
        print("construction raised", type(e).__name__, e)
        chk.fail("construction of a valid layout does not raise", lay, dict(error=type(e).__name__),
                 construction_error=type(e).__name__, form=lay["form"])
