"""C18 -- population size only sets the scale.

Proved: fields / ejection / initial values homogeneous of degree one, RK flow
homogeneous for any steps (Properties/C18.v, RK.v).  Per run:
[gen] inventory of numeric literals in the derivative / extraction functions
(an added absolute threshold breaks it); field-level scale pairs on the
implementation (arbitrary states); pairs of full constructions at scale
factors 0.1-100 for the three classes; explicit N0 overrides the IMF object's
own N0; from_powerlaw == passing an IMF object.
"""
import ast
import copy
import math
import os
import warnings

import numpy as np

import common as C
import fieldutil as F
import implutil as U

STATIC = ["Model/Sev.vo", "Model/Eject.vo"]
EXTRA_PROPS = ["RK", "C18b", "C18c", "C18d"]

# numeric literals that the models account for, per function
KNOWN = {
    "EvolvedMF._derivs_sev": {0: 5, -1: 1, 1: 6, 2: 2},
    "EvolvedMF._derivs_esc": {1: 6, 1.5: 1, 2: 1, 2.5: 2, 0: 6, 0.5: 2, -0.5: 3},
    "EvolvedMF._dyn_eject_BH": {0: 5, 1: 2},
    "EvolvedMFWithBH._dyn_eject_BH": {1: 2, 0: 3, 2: 1},
    "EvolvedMF._derivs": {1: 1, 0: 1},
}
# where the one absolute number of objects (Nmin) is consulted: function -> number of references
KNOWN_NMIN = {"EvolvedMF.M": 2, "EvolvedMF.N": 2, "EvolvedMF.bin_widths": 2, "EvolvedMF.types": 2, "EvolvedMF.nms": 1, "EvolvedMF.nmr": 1,
              "EvolvedMF.__init__": 1, "EvolvedMF._derivs_sev": 1, "EvolvedMF._evolve": 1}


def nmin_inventory():
    tree = ast.parse(open(os.path.join(C.REPO, "ssptools", "evolve_mf.py")).read())
    inv = {}
    for cls in tree.body:
        if isinstance(cls, ast.ClassDef):
            for fn in ast.walk(cls):
                if isinstance(fn, ast.FunctionDef):
                    n = sum(1 for x in ast.walk(fn) if (isinstance(x, ast.Attribute) and x.attr == "Nmin") or
                            (isinstance(x, ast.Name) and x.id == "Nmin"))
                    if n:
                        inv["%s.%s" % (cls.name, fn.name)] = n
    return inv


def literal_inventory():
    tree = ast.parse(open(os.path.join(C.REPO, "ssptools", "evolve_mf.py")).read())
    inv = {}
    for cls in tree.body:
        if isinstance(cls, ast.ClassDef):
            for fn in cls.body:
                if isinstance(fn, ast.FunctionDef):
                    key = "%s.%s" % (cls.name, fn.name)
                    if key in KNOWN:
                        cnt = {}
                        for n in ast.walk(fn):
                            if isinstance(n, ast.UnaryOp) and isinstance(n.op, ast.USub) and isinstance(n.operand, ast.Constant) \
                                    and isinstance(n.operand.value, (int, float)):
                                n.operand.value = -n.operand.value
                                n.op = ast.UAdd()
                        for n in ast.walk(fn):
                            if isinstance(n, ast.Constant) and isinstance(n.value, (int, float)) and not isinstance(n.value, bool):
                                cnt[n.value] = cnt.get(n.value, 0) + 1
                        inv[key] = cnt
    return inv


def run(chk):
    rng = chk.rng
    emf, masses, ifmr, kicks = U.mods()
    inv = literal_inventory()
    unknown = {}
    for k, cnt in inv.items():
        extra = {str(v): c for v, c in cnt.items() if KNOWN[k].get(v) != c}
        extra.update({str(v): 0 for v in KNOWN[k] if v not in cnt})
        if extra:
            unknown[k] = extra
    chk.oblige("[gen] every numeric literal in _derivs_sev / _derivs_esc / _dyn_eject_BH is one the models account for "
               "(an added absolute threshold or constant is a broken tie)", not unknown and set(inv) == set(KNOWN), str(unknown or inv.keys()))
    ninv = nmin_inventory()
    chk.oblige("[gen] the absolute object count Nmin is consulted only where the models account for it "
               "(empty-bin guard of the stellar-evolution field, the ejection shortcut, the summary views)", ninv == KNOWN_NMIN,
               str({k: (ninv.get(k), KNOWN_NMIN.get(k)) for k in set(ninv) | set(KNOWN_NMIN) if ninv.get(k) != KNOWN_NMIN.get(k)}))
    chk.extra["literal_inventory"] = {k: {str(a): b for a, b in v.items()} for k, v in inv.items()}
    # ---- field-level scale pairs on the implementation ------------------------------------
    cars = F.carriers(4 if chk.tier == "quick" else None)
    nst = 40 if chk.tier == "quick" else 300
    nf = 0
    for ci, (car0, kw, args) in enumerate(cars):
        mb = car0.massbins
        nb = mb.nbin
        for _ in range(nst):
            lam = rng.choice([0.1, 0.5, 3.0, 10.0, 100.0, 10 ** rng.uniform(-1, 2)])
            car = copy.copy(car0)
            t = F.random_time(rng, car)
            y = F.random_state(rng, car, scale=10 ** rng.uniform(3, 6))
            Ns = y[:nb.MS]
            # keep every Nmin comparison on the same side
            if np.any((Ns > car.Nmin) != (lam * Ns > car.Nmin)):
                continue
            y2 = y.copy()
            y2[:nb.MS] *= lam
            y2[2 * nb.MS:] *= lam
            car.md = rng.choice([1.2, 0.5, 3.0])
            car._esc_norm = rng.choice(["N", "M"])
            car.tcc = rng.choice([0.0, 1e9])
            rate = -10 ** rng.uniform(-3, 3)
            nf += 1
            case = dict(carrier=ci, t=t, lam=lam, norm=car._esc_norm, tcc=car.tcc, md=car.md, rate=rate, y=[float(v) for v in y])
            chk.note_distinct(case)
            if not chk.samples:
                chk.samples.append(dict(kind="field-level scale pair", case=dict(case, y=case["y"][:6])))
            for name in ("sev", "esc", "total"):
                outs = []
                for yy, rr in ((y, rate), (y2, lam * rate)):
                    car.esc_rate = rr
                    car._time_dep_esc = False
                    try:
                        d = car._derivs_sev(t, yy.copy()) if name == "sev" else car._derivs_esc(t, yy.copy()) if name == "esc" else \
                            car._derivs(t, yy.copy())
                    except ValueError:
                        d = None
                    outs.append(d)
                if outs[0] is None or outs[1] is None:
                    if (outs[0] is None) != (outs[1] is None):
                        chk.fail("scaling the population does not change whether the derivative raises", case, name)
                    continue
                d1 = mb.unpack_values(outs[0])
                d2 = mb.unpack_values(outs[1])
                for j, (a, b) in enumerate(zip(d1, d2)):
                    want = a if j == 1 else lam * a          # slopes' derivative is unchanged, everything else scales
                    sc = np.maximum(np.abs(want), 1e-300)
                    bad = ~(np.isclose(b, want, rtol=1e-9, atol=0) | (np.isnan(b) & np.isnan(want)) | ((b == 0) & (want == 0)))
                    if np.any(bad):
                        chk.fail("the %s derivative is homogeneous of degree one in (Ns, Nr, Mr, rate); slopes' derivative unchanged" % (
                            "stellar-evolution" if name == "sev" else "escape" if name == "esc" else "total"), case,
                            dict(component=j, index=int(np.flatnonzero(bad)[0]), scaled=float(b[bad][0]), expected=float(want[bad][0])))
                        break
    chk.count("field-level scale pairs", nf)
    chk.evaluations += nf
    # ---- ejection / kicks homogeneity on arrays ---------------------------------------------
    from props.C07 import gen_array, gen_E, impl_eject
    for _ in range(200 if chk.tier == "quick" else 2000):
        M, N = gen_array(rng)
        E = gen_E(rng, M)
        if E != 0 and abs(E) < 1e-290:
            continue      # subnormal budgets do not scale exactly
        lam = rng.choice([0.125, 0.5, 2.0, 8.0, 64.0])       # powers of two: exact in floating point
        a = impl_eject(M, N, E)
        b = impl_eject([lam * x for x in M], [lam * x for x in N], lam * E)
        if a[0] != b[0] or (a[0] == "Ok" and not (C.all_same([lam * x for x in a[1]], b[1]) and C.all_same([lam * x for x in a[2]], b[2]))):
            chk.fail("BH ejection is homogeneous (power-of-two scale factors: bit-exact)", dict(M=M, N=N, E=E, lam=lam), dict(base=a[:3], scaled=b[:3]))
    # the BH-target ejection likewise: scaling every BH bin and the total mass leaves the target fraction, hence the bins emptied, unchanged
    from props.C08 import impl_fbh
    for _ in range(200 if chk.tier == "quick" else 2000):
        M, N = gen_array(rng, nmax=12)
        if rng.random() < 0.5:
            # sparsely populated bins: between a tenth of an object and a few objects each
            N = [0.0 if x == 0 else rng.choice([0.15, 0.3, 0.6, 0.84, 1.5, 3.0]) for x in N]
            M = [n_ * 10.0 * (1.15 ** i_) for i_, n_ in enumerate(N)]
        Mbh = float(sum(M))
        if Mbh <= 0:
            continue
        Mtot = Mbh * rng.choice([2.0, 16.0, 64.0, 10 ** rng.uniform(0.1, 3)])
        f = (Mbh / Mtot) * rng.choice([0.03125, 0.25, 0.5, 0.75, rng.random()])
        lam = rng.choice([0.125, 0.5, 2.0, 8.0, 128.0])
        a = impl_fbh(M, N, Mtot, f)
        b = impl_fbh([lam * x for x in M], [lam * x for x in N], lam * Mtot, f)
        chk.count("BH-target ejection scale pairs")
        if a[0] != b[0] or (a[0] == "Ok" and not (C.all_close([lam * x for x in a[1]], b[1], rtol=1e-12, atol=0) and C.all_close([lam * x for x in a[2]], b[2], rtol=1e-12, atol=0))):
            chk.fail("multiplying N0 and the escape rate by the same factor multiplies every count by that factor (ejection towards a BH mass-fraction target)",
                     dict(M=M, N=N, Mtot=Mtot, f_BH=f, lam=lam), dict(base=a[:3], scaled=b[:3]))
    # natal kicks: the retained fraction of a bin depends on its MEAN mass only, so scaling mass and number of every bin scales what is kept and
    # what is ejected (bins stay on the same side of the 0.1-object threshold: N >= 0.15, factors >= 2)
    from ssptools import kicks as kicks_
    for _ in range(60 if chk.tier == "quick" else 600):
        nb_ = rng.choice([3, 5, 8])
        N = [rng.choice([0.15, 0.3, 0.6, 0.84, 1.5, 3.0, 40.0]) for _ in range(nb_)]
        mbar = sorted(rng.uniform(4.0, 45.0) for _ in range(nb_))
        M = [n_ * m_ for n_, m_ in zip(N, mbar)]
        lam = rng.choice([2.0, 8.0, 128.0])
        kwk = rng.choice([dict(method="maxwellian", vesc=rng.choice([30.0, 90.0, 200.0]), FeH=rng.choice([-2.0, -1.0, 0.0])),
                          dict(method="sigmoid", slope=rng.choice([0.5, 1.0]), scale=rng.choice([10.0, 20.0]))])
        outs_ = []
        for f_ in (1.0, lam):
            Mx, Nx = np.array([f_ * x for x in M]), np.array([f_ * x for x in N])
            try:
                r_ = kicks_.natal_kicks(Mx, Nx, **kwk)
                outs_.append((np.array(r_[0], dtype=float), np.array(r_[1], dtype=float), float(r_[2])))
            except Exception as e:  # noqa
                outs_.append(type(e).__name__)
        chk.count("natal-kick scale pairs on sparsely populated bins")
        if isinstance(outs_[0], str) or isinstance(outs_[1], str):
            if outs_[0] != outs_[1]:
                chk.fail("multiplying N0 and the escape rate by the same factor multiplies every count by that factor (natal kicks)", dict(M=M, N=N, lam=lam, kicks=kwk),
                         dict(base=str(outs_[0])[:60], scaled=str(outs_[1])[:60]))
            continue
        (M1, N1, e1), (M2, N2, e2) = outs_
        if not (np.allclose(M2, lam * M1, rtol=1e-10, atol=0) and np.allclose(N2, lam * N1, rtol=1e-10, atol=0) and abs(e2 - lam * e1) <= 1e-9 * max(abs(lam * e1), 1e-300)):
            chk.fail("multiplying N0 and the escape rate by the same factor multiplies every count by that factor (natal kicks)", dict(M=M, N=N, lam=lam, kicks=kwk),
                     dict(kept_mass=[float(x) for x in M1], kept_mass_scaled_over_lam=[float(x) / lam for x in M2], ejected=[e1, e2 / lam]))
    # ---- full constructions ---------------------------------------------------------------------
    nrun = 3 if chk.tier == "quick" else 20
    classes = [("EvolvedMF", {}), ("EvolvedMFWithBH", dict(f_BH=0.002)), ("EvolvedMF", dict(natal_kicks=True, BH_ret_dyn=0.2, vesc=150))]
    for r in range(nrun):
        cname, extra = classes[r % len(classes)]
        lam = rng.choice([0.1, 0.3, 5.0, 30.0, 100.0])
        if r == 0:
            # always present: the base class with partial dynamical retention, scaled UP a hundredfold (several million stars)
            extra, lam = dict(BH_ret_dyn=0.5), 100.0
        base = dict(m_breaks=[0.1, 0.5, 1.0, 100], a_slopes=[-0.5, -1.3, -2.5], nbins=[3, 3, 10], FeH=rng.choice([-1.0, 0.0]),
                    tout=[rng.choice([3000.0, 9000.0, 12000.0])], esc_norm=rng.choice(["N", "M"]))
        N0 = 10 ** rng.uniform(4.7, 5.7)
        rate = -rng.choice([5.0, 30.0, 0.4]) * (N0 / 5e5)
        cls = getattr(emf, cname)
        # the solver's tolerances are absolute (atol=1e-5): homogeneity of the RESULT holds to integrator accuracy only, so
        # both members of a pair are integrated with the tolerance tightened from outside (the equations are unchanged)
        old_ode = emf.ode
        emf.ode = U.make_recording_ode([], atol=1e-9, rtol=1e-9, nsteps=500000)
        try:
            with warnings.catch_warnings():
                warnings.simplefilter("ignore")
                m1 = cls.from_powerlaw(esc_rate=rate, N0=N0, **base, **extra)
                m2 = cls.from_powerlaw(esc_rate=lam * rate, N0=lam * N0, **base, **extra)
        finally:
            emf.ode = old_ode
        case = dict(cls=cname, lam=lam, N0=N0, rate=rate, **base, **extra)
        chk.note_distinct(case)
        chk.count("full scale pairs")
        nbm = m1.Ns.shape[1]
        slack = 0.11 * (1 + lam) * nbm    # the fixed 0.1-object empty-bin residue of every turned-off star bin, at both scales
        for nm, a, b in (("Ns", m1.Ns[0], m2.Ns[0]), ("Nr.WD", m1.Nr.WD[0], m2.Nr.WD[0]), ("Nr.BH", m1.Nr.BH[0], m2.Nr.BH[0])):
            if np.any(np.abs(b - lam * a) > 2e-3 * np.maximum(np.abs(lam * a), 1.0) + slack):
                chk.fail("multiplying N0 and the escape rate by the same factor multiplies every count by that factor", case,
                         dict(array=nm, max_dev=float(np.max(np.abs(b - lam * a)))))
        big = m1.Ns[0] > 100
        # the fixed 0.1-object residue of every turned-off star bin carries up to 0.1 * (that bin's upper edge) of mass whatever the scale:
        # its share of the mean mass is larger for the smaller population (allowed by the property: "up to the 0.1-object threshold")
        up_ = np.asarray(m1.massbins.bins.MS.upper, dtype=float)
        n_small = min(float(m1.Ns[0].sum() + sum(x[0].sum() for x in m1.Nr)), float(m2.Ns[0].sum() + sum(x[0].sum() for x in m2.Nr)))
        mm_slack = 0.11 * float(up_.sum()) / max(n_small, 1.0)
        if np.any(big) and (np.any(np.abs(m1.alpha[0][big] - m2.alpha[0][big]) > 5e-3) or abs(m1.mmean[0] - m2.mmean[0]) > 5e-3 * m1.mmean[0] + mm_slack):
            chk.fail("slopes and mean masses are unchanged by the scale", case,
                     dict(dalpha=float(np.max(np.abs(m1.alpha[0][big] - m2.alpha[0][big]))), mmean=[float(m1.mmean[0]), float(m2.mmean[0])]))
    # ---- explicit N0 overrides the IMF object's own N0; from_powerlaw == IMF object ---------------
    mbk, sl = [0.1, 0.5, 1.0, 100], [-0.5, -1.3, -2.5]
    for cname, extra in classes + [("InitialBHPopulation", {})]:
        N0 = 3e5
        with warnings.catch_warnings():
            warnings.simplefilter("ignore")
            imf_a = masses.PowerLawIMF(mbk, sl, N0=N0)
            imf_b = masses.PowerLawIMF(mbk, sl)                       # own N0 = 1
            imf_c = masses.PowerLawIMF.from_M0(mbk, sl, 7.7e5)        # own N0 from a total mass
            if cname == "InitialBHPopulation":
                objs = [emf.InitialBHPopulation.from_IMF(i, [3, 3, 10], -1.0, N0=N0, natal_kicks=False) for i in (imf_a, imf_b, imf_c)]
                objs.append(emf.InitialBHPopulation.from_powerlaw(mbk, sl, [3, 3, 10], -1.0, N0=N0, natal_kicks=False))
                arrs = [np.r_[o.N, o.M, o.age, o.Ns_lost, o.Ms_lost] for o in objs]
            else:
                cls = getattr(emf, cname)
                pos = ([0.002] if "f_BH" in extra else [])
                ex = {k: v for k, v in extra.items() if k != "f_BH"}
                objs = [cls(i, [3, 3, 10], -1.0, [9000.0], -10.0, *pos, N0=N0, **ex) for i in (imf_a, imf_b, imf_c)]
                objs.append(cls.from_powerlaw(mbk, sl, [3, 3, 10], -1.0, [9000.0], -10.0, *pos, N0=N0, **ex))
                arrs = [np.r_[o.Ns[0], o.alpha[0], o.Ms[0], o.Nr.WD[0], o.Nr.BH[0], o.Mr.BH[0]] for o in objs]
            # the explicit N0 may be any real number type (an element of an integer array, a float32, a 0-d array)
            if cname != "InitialBHPopulation":
                for n0_alt in (np.int64(int(N0)), np.float32(N0), np.array(N0), int(N0)):
                    try:
                        o_t = cls(imf_b, [3, 3, 10], -1.0, [9000.0], -10.0, *pos, N0=n0_alt, **ex)
                    except Exception as e_t:  # noqa
                        chk.fail("an IMF object's own N0 is irrelevant once N0 is passed explicitly; from_powerlaw is equivalent to passing the IMF object",
                                 dict(cls=cname, variant="N0 given as %s (IMF object with own N0 = 1, used before)" % type(n0_alt).__name__, extra=extra),
                                 dict(error=type(e_t).__name__, msg=str(e_t)[:120]))
                        continue
                    a_t = np.r_[o_t.Ns[0], o_t.alpha[0], o_t.Ms[0], o_t.Nr.WD[0], o_t.Nr.BH[0], o_t.Mr.BH[0]]
                    if not np.allclose(np.nan_to_num(a_t), np.nan_to_num(arrs[0]), rtol=1e-6, atol=1e-6 * N0):
                        chk.fail("an IMF object's own N0 is irrelevant once N0 is passed explicitly; from_powerlaw is equivalent to passing the IMF object",
                                 dict(cls=cname, variant="N0 given as %s" % type(n0_alt).__name__, extra=extra),
                                 dict(total_stars=float(np.nansum(o_t.Ns[0])), expected=float(np.nansum(objs[0].Ns[0]))))
            # the SAME IMF object used again for a population twice as large (and a rate twice as strong): nothing may be remembered
            # from the first construction - the result equals the one built from scratch at that size
            pairs = []
            for which, imf_re in (("IMF(N0=N0)", imf_a), ("IMF(N0=1)", imf_b)):     # own N0 equal to / different from the first construction's
                if cname == "InitialBHPopulation":
                    o_again = emf.InitialBHPopulation.from_IMF(imf_re, [3, 3, 10], -1.0, N0=2 * N0, natal_kicks=False)
                    o_fresh = emf.InitialBHPopulation.from_powerlaw(mbk, sl, [3, 3, 10], -1.0, N0=2 * N0, natal_kicks=False)
                    pairs.append((which, [np.r_[o.N, o.M, o.age, o.Ns_lost, o.Ms_lost] for o in (o_again, o_fresh)]))
                else:
                    o_again = cls(imf_re, [3, 3, 10], -1.0, [9000.0], -20.0, *pos, N0=2 * N0, **ex)
                    o_fresh = cls.from_powerlaw(mbk, sl, [3, 3, 10], -1.0, [9000.0], -20.0, *pos, N0=2 * N0, **ex)
                    pairs.append((which, [np.r_[o.Ns[0], o.alpha[0], o.Ms[0], o.Nr.WD[0], o.Nr.BH[0], o.Mr.BH[0]] for o in (o_again, o_fresh)]))
        for which, pair in pairs:
            if not np.array_equal(np.nan_to_num(pair[0]), np.nan_to_num(pair[1])):
                chk.fail("an IMF object's own N0 is irrelevant once N0 is passed explicitly; from_powerlaw is equivalent to passing the IMF object",
                         dict(cls=cname, variant="same IMF object (%s) re-used at twice the size" % which, extra=extra),
                         dict(max_abs_diff=float(np.nanmax(np.abs(pair[0] - pair[1]))), total_again=float(np.nansum(pair[0][:5])), total_fresh=float(np.nansum(pair[1][:5]))))
        chk.count("N0-override / from_powerlaw comparisons")
        labels = ["IMF(N0=N0)", "IMF(N0=1)", "IMF.from_M0", "from_powerlaw"]
        for lab, a in zip(labels[1:], arrs[1:]):
            if not np.array_equal(np.nan_to_num(a), np.nan_to_num(arrs[0])):
                chk.fail("an IMF object's own N0 is irrelevant once N0 is passed explicitly; from_powerlaw is equivalent to passing the IMF object",
                         dict(cls=cname, variant=lab, extra=extra), dict(max_abs_diff=float(np.nanmax(np.abs(a - arrs[0])))))
    chk.trusted += ["harness/props/C18.py (literal inventory via ast, scale pairs)",
                    "escape-field homogeneity is measured on the implementation (not proved); dopri5's absolute tolerance makes full-run scaling "
                    "hold to integrator accuracy only (measured at 2e-3)"]


def replay(chk, payload):
    run(chk)
