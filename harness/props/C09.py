"""C09 -- IFMRs closed, ordered, physical.

T1 (regenerated every run): BH tables -> integer rows, `table_okZ` decided by
vm_compute per table (quick: a seeded sample that always contains each
family's grid ends and both zero files; thorough: all 1186 tables); the 7 WD
rows -> Horner polynomials whose bounds (0 < p(m) <= m, p(m) <= declared
maximum) are proved for EVERY real mass in [0.7, m_max] by the `interval`
tactic; analytic default parameters scraped from the source and bounded by
`interval`.  T3: predict / predict_type vs Model/IFMR.v.  Oracle: the
property's clauses on dense mass grids.
"""
import ast
import glob
import math
import os
import re
from decimal import Decimal

import numpy as np

import common as C
import gen_tables as GT
import implutil as U

STATIC = ["Model/IFMR.vo", "Model/IFMRSpec.vo"]
EXTRA_PROPS = ["C09b", "C09c", "C09d"]
IMPORTS = "From SSP Require Import Model.Sev Model.IFMR."
FAMILIES = {"banerjee20": "uSSE_rapid", "banerjee20-delayed": "uSSE_delayed", "cosmic-rapid": "COSMIC_rapid",
            "cosmic-delayed": "COSMIC_delayed"}
DATA = os.path.join(C.REPO, "ssptools", "data")


def scaled(tok, k):
    d = Decimal(tok) * (10 ** k)
    if d != d.to_integral_value():
        raise ValueError("%s has more than %d decimals" % (tok, k))
    return int(d)


def bh_rows(fn):
    rows = []
    for r in GT.read_table(fn):
        if int(float(r[2])) == 14:
            rows.append((scaled(r[0], 1), scaled(r[1], 5)))
    return rows


def pick_tables(rng, tier):
    out = []
    for meth, fam in FAMILIES.items():
        files = sorted(glob.glob(os.path.join(DATA, "ifmr", fam, "IFMR_FEH*.dat")))
        if tier == "thorough":
            sel = files
        else:
            key = lambda f: float(os.path.basename(f)[8:-4])
            must = [min(files, key=key), max(files, key=key)] + [f for f in files if "0.00" in f]
            sel = sorted(set(must + rng.sample(files, 8)))
        out += [(meth, fam, f) for f in sel]
    return out


def gen_bh(chk, tables):
    os.makedirs(C.GEN, exist_ok=True)
    shard = 8 if chk.tier == "quick" else 20
    files = []
    info = {}
    for k in range(0, len(tables), shard):
        path = os.path.join(C.GEN, "BHTables_%03d.v" % (k // shard))
        with open(path, "w") as f:
            f.write("(* generated from ssptools/data/ifmr/*/IFMR_FEH*.dat (type-14 rows; mi in tenths, mf in 1e-5) -- do not edit *)\n"
                    "From Coq Require Import ZArith List Bool.\nFrom SSP Require Import Model.IFMRSpec.\nImport ListNotations.\nLocal Open Scope Z_scope.\n")
            for j, (meth, fam, fn) in enumerate(tables[k:k + shard]):
                rows = bh_rows(fn)
                nm = "t%d" % j
                info[fn] = rows
                f.write("Definition %s : list (Z * Z) := [%s].\n" % (nm, "; ".join("(%d, %d)" % r for r in rows)))
                f.write("Lemma %s_ok : table_okZ %s = true /\\ (2 <=? Z.of_nat (length %s)) = true. (* %s/%s *)\nProof. vm_compute. split; reflexivity. Qed.\n" % (
                    nm, nm, nm, fam, os.path.basename(fn)))
        files.append(path)
    res = C.coqc_many(files, timeout=1500, jobs=8)
    bad = [(p, (r[2] or r[1])[-300:]) for p, r in res.items() if r[0] != 0]
    chk.oblige("[gen] table_okZ (knots strictly increasing, 0 < mf <= mi) for %d BH tables as on disk (%d shards)" % (len(tables), len(files)),
               not bad, str(bad[:2]))
    return info


def gen_wd(chk, uppers):
    rows = GT.read_table(os.path.join(DATA, "sevtables", "wdifmr.dat"))
    path = os.path.join(C.GEN, "WDRows.v")
    with open(path, "w") as f:
        f.write("(* generated from ssptools/data/sevtables/wdifmr.dat -- do not edit *)\nFrom Coq Require Import Reals List.\n"
                "From Interval Require Import Tactic.\nFrom SSP Require Import Num Model.IFMR.\nImport ListNotations.\nLocal Open Scope R_scope.\n")
        for i, r in enumerate(rows):
            coeffs = [Decimal(t) for t in r[2:]][::-1]     # lowest order first
            def lit(d):
                s, digs, e = d.as_tuple()
                m = int("".join(map(str, digs))) * (-1 if s else 1)
                return "(%d / %d)" % (m, 10 ** (-e)) if e < 0 else "(%d)" % (m * 10 ** e)
            cl = [lit(c) for c in coeffs]
            h = cl[-1]
            for c in reversed(cl[:-1]):
                h = "(%s + m * %s)" % (c, h)
            mmax = lit(Decimal(r[1]))
            up = Decimal(repr(float(uppers[i])))
            f.write("Definition p%d (m : R) : R := %s.\n" % (i, h))
            f.write("Lemma wd_row%d_horner : forall J m, horner (O:=R_ops J) [%s] m = p%d m.\nProof. intros. unfold p%d. cbn. ring. Qed.\n" % (
                i, "; ".join(cl), i, i))
            f.write("Lemma wd_row%d_bounds : forall m, 7 / 10 <= m <= %s -> 0 < p%d m /\\ 0 <= m - p%d m /\\ 0 <= %s + 1 / 10000000 - p%d m.\n"
                    "Proof. intros m Hm. unfold p%d. split; [|split]; interval with (i_bisect m, i_taylor m, i_prec 80, i_depth 40). Qed.\n" % (
                        i, mmax, i, i, lit(up), i, i))
    rc, out, err = C.coqc(path, timeout=900)
    chk.oblige("[gen] 7 WD rows: Horner form = model, and for EVERY real m in [0.7, m_max]: 0 < p(m) <= m and p(m) <= declared WD maximum + 1e-7 (interval)",
               rc == 0, (err or out)[-500:] if rc else "")
    return rows


def gen_analytic(chk):
    """default parameters of the analytic BH prescriptions, scraped from the source, bounded by interval"""
    tree = ast.parse(open(os.path.join(C.REPO, "ssptools", "ifmr.py")).read())
    d = {}
    for n in ast.walk(tree):
        if isinstance(n, ast.FunctionDef) and n.name in ("_linear_BH_predictor", "_powerlaw_BH_predictor", "_brokenpl_BH_predictor"):
            names = [a.arg for a in n.args.args]
            d[n.name] = dict(zip(names, [ast.literal_eval(x) for x in n.args.defaults]))
    lin, pl, br = d["_linear_BH_predictor"], d["_powerlaw_BH_predictor"], d["_brokenpl_BH_predictor"]
    def q(x):
        dd = Decimal(repr(float(x)))
        s, digs, e = dd.as_tuple()
        m = int("".join(map(str, digs))) * (-1 if s else 1)
        return "(%d / %d)" % (m, 10 ** (-e)) if e < 0 else "(%d)" % (m * 10 ** e)
    path = os.path.join(C.GEN, "AnalyticBH.v")
    with open(path, "w") as f:
        f.write("(* generated from the default arguments in ssptools/ifmr.py -- do not edit *)\nFrom Coq Require Import Reals Lra.\n"
                "From Interval Require Import Tactic.\nLocal Open Scope R_scope.\n")
        f.write("Lemma linear_default : forall m, %s <= m <= 150 -> 0 < %s * m + %s /\\ 0 <= m - (%s * m + %s).\n"
                "Proof. intros m Hm. split; interval with (i_bisect m). Qed.\n" % (q(lin["m_lower"]), q(lin["slope"]), q(lin["scale"]), q(lin["slope"]), q(lin["scale"])))
        f.write("Lemma powerlaw_default : forall m, %s <= m <= 150 -> 0 < %s * Rpower m %s + %s /\\ 0 <= m - (%s * Rpower m %s + %s).\n"
                "Proof. intros m Hm. split; interval with (i_bisect m, i_taylor m). Qed.\n" % (
                    q(pl["m_lower"]), q(pl["slope"]), q(pl["exponent"]), q(pl["scale"]), q(pl["slope"]), q(pl["exponent"]), q(pl["scale"])))
        for i in range(len(br["exponents"])):
            lo, hi = br["m_breaks"][i], br["m_breaks"][i + 1]
            lin_piece = br["exponents"][i] == 1
            e = ("%s * m + %s" % (q(br["slopes"][i]), q(br["scales"][i]))) if lin_piece else \
                ("%s * Rpower m %s + %s" % (q(br["slopes"][i]), q(br["exponents"][i]), q(br["scales"][i])))
            f.write("Lemma broken_default_%d : forall m, %s <= m <= %s -> 0 < %s /\\ 0 <= m - (%s).\n"
                    "Proof. intros m Hm. split; %s. Qed.\n" % (i, q(lo), q(hi), e, e,
                                                            "Lra.lra" if lin_piece else "interval with (i_bisect m, i_taylor m)"))
    rc, out, err = C.coqc(path, timeout=600)
    chk.oblige("[gen] analytic BH prescriptions at the default parameters found in the source stay in (0, mi] on their whole range (interval)",
               rc == 0, (err or out)[-500:] if rc else str(d))
    return d


def oracle_ifmr(chk, label, ifm, rng, npts=400):
    """property clauses for one IFMR object"""
    from ssptools.masses import MassBins, PowerLawIMF
    top = min(150.0, float(ifm.BH_mi.upper))
    ms = np.unique(np.r_[np.linspace(0.7, top, npts), ifm.WD_mi.upper, ifm.BH_mi.lower,
                         np.nextafter(ifm.WD_mi.upper, 0), np.nextafter(ifm.WD_mi.upper, 999),
                         np.nextafter(ifm.BH_mi.lower, 0), np.nextafter(ifm.BH_mi.lower, 999)])
    # search neighbourhood: the interior extrema of the WD polynomial (where the declared maximum is attained)
    try:
        roots = ifm._WD_spline.deriv().roots()
        roots = roots[np.isreal(roots)].real
        extra = []
        for r_ in roots[(roots > 0.7) & (roots <= ifm.WD_mi.upper)]:
            x = float(r_)
            lo_ = x
            hi_ = x
            for _ in range(40):
                lo_ = float(np.nextafter(lo_, 0))
                hi_ = float(np.nextafter(hi_, 999))
                extra += [lo_, hi_]
            extra.append(x)
        ms = np.unique(np.r_[ms, extra])
    except AttributeError:
        pass
    ms = ms[(ms >= 0.7) & (ms <= top)]
    try:
        ty = ifm.predict_type(ms)
        mf = np.asarray(ifm.predict(ms), dtype=float)
    except Exception as e:  # noqa
        chk.fail("array prediction does not raise inside the range", label, type(e).__name__)
        return
    order = {"WD": 0, "NS": 1, "BH": 2}
    rank = [order[t] for t in ty]
    if any(b < a for a, b in zip(rank, rank[1:])):
        chk.fail("progenitor masses split into contiguous WD, NS, BH ranges in increasing order", label, "types not monotone")
    bnd = dict(WD=ifm.WD_mf, NS=ifm.NS_mf, BH=ifm.BH_mf)
    seen = set()          # one report per clause and object, but keep scanning: different clauses fail at different masses
    for m, t, f in zip(ms, ty, mf):
        if not (f > 0) and "pos" not in seen:
            seen.add("pos")
            chk.fail("remnant mass is positive", dict(label, mi=float(m)), float(f))
        if f > m * (1 + 1e-12) and "le" not in seen:
            seen.add("le")
            chk.fail("remnant mass is not larger than the progenitor", dict(label, mi=float(m)), float(f))
        if not (bnd[t].lower * (1 - 1e-12) <= f <= bnd[t].upper * (1 + 1e-12)):
            peak = bool(t == "WD" and f >= bnd[t].upper and f <= bnd[t].upper * (1 + 1e-9))
            key = "bnd_peak" if peak else "bnd"
            if key not in seen:
                seen.add(key)
                chk.fail("remnant mass is inside the final-mass bounds declared for its class", dict(label, mi=float(m), cls=t),
                         dict(mf=float(f), bounds=[float(bnd[t].lower), float(bnd[t].upper)]), wd_peak=peak)
    # integer-typed progenitor masses (python int, numpy int, integer arrays) give the same remnants as the equal floats
    ints = [int(x) for x in range(max(int(math.ceil(0.7)), 1), int(min(top, 150)) + 1)]
    ints = rng.sample(ints, min(len(ints), 25)) + [int(min(top, 150))]
    try:
        ref_f = np.asarray(ifm.predict(np.array(ints, dtype=float)), dtype=float)
        for form, val in (("int array", np.array(ints)), ("int list", list(ints))):
            got_i = np.asarray(ifm.predict(val if form == "int array" else np.array(val)), dtype=float)
            if not np.allclose(got_i, ref_f, rtol=1e-12, atol=0, equal_nan=True):
                j_ = int(np.flatnonzero(~np.isclose(got_i, ref_f, rtol=1e-12, atol=0, equal_nan=True))[0])
                chk.fail("scalar prediction agrees with array prediction", dict(label, mi=ints[j_], form=form), dict(from_int=float(got_i[j_]), from_float=float(ref_f[j_])))
        for m_i in ints[:5]:
            for form, val in (("int", int(m_i)), ("np.int64", np.int64(m_i))):
                try:
                    g_ = float(ifm.predict(val))
                except Exception as e:  # noqa
                    if not isinstance(e, (TypeError, IndexError)):
                        chk.fail("scalar prediction agrees with array prediction", dict(label, mi=m_i, form=form), type(e).__name__)
                    continue
                r_ = float(ifm.predict(np.float64(m_i)))
                if not (abs(g_ - r_) <= 1e-12 * abs(r_)):
                    chk.fail("scalar prediction agrees with array prediction", dict(label, mi=m_i, form=form), dict(from_int=g_, from_float=r_))
    except Exception as e:  # noqa
        chk.fail("array prediction does not raise inside the range", dict(label, form="integer masses"), type(e).__name__)
    # scalar / numpy scalar / python float agree with the array
    for m in rng.sample(list(ms), 6):
        for form, val in (("np.float64", np.float64(m)), ("float", float(m)), ("0-d", np.array(m))):
            try:
                f1 = float(ifm.predict(val))
                t1 = ifm.predict_type(val)
            except Exception as e:  # noqa
                chk.fail("scalar prediction agrees with array prediction", dict(label, mi=float(m), form=form), type(e).__name__,
                         python_float_typeerror=bool(form == "float" and isinstance(e, (TypeError, IndexError))))
                continue
            j = int(np.flatnonzero(ms == m)[0])
            if not (C.close_float(f1, float(mf[j]), 1e-13) and t1 == ty[j]):
                chk.fail("scalar prediction agrees with array prediction", dict(label, mi=float(m), form=form), dict(scalar=[f1, t1], array=[float(mf[j]), ty[j]]))
    # every remnant falls in exactly one bin of its class - for every accepted form of the bin-count argument (remnant bins carved out
    # of the stellar bins, or requested explicitly by a dict) and for IMFs ending at 100 or at 150 Msun
    for top_, nb_ in ((150.0, [5, 5, 30]), (150.0, {"MS": [5, 5, 30], "WD": 8, "NS": 1, "BH": 10}), (100.0, {"MS": [5, 5, 20], "WD": 10, "BH": 6})):
        lay_ = dict(label, m_upper=top_, nbins="dict" if isinstance(nb_, dict) else "list")
        try:
            imf = PowerLawIMF([0.1, 0.5, 1.0, top_], [-0.5, -1.3, -2.5])
            mb = MassBins([0.1, 0.5, 1.0, top_], nb_, imf, ifm)
        except Exception as e:  # noqa
            chk.notes.append("MassBins construction raised %s for %s" % (type(e).__name__, lay_))
            continue
        seen = set()
        for m, t, f in zip(ms, ty, mf):
            if m > top_:
                continue
            b = getattr(mb.bins, t)
            inside = int(np.sum((np.atleast_1d(b.lower) <= f) & (f < np.atleast_1d(b.upper))))
            if inside != 1:
                peak = bool(t == "WD" and f >= ifm.WD_mf.upper * (1 - 1e-12))
                key = "peak" if peak else "other"
                if key in seen:
                    continue
                seen.add(key)
                chk.fail("every remnant created during an evolution falls in exactly one bin of its class", dict(lay_, mi=float(m), cls=t),
                         dict(mf=float(f), bins_containing=inside, class_bins_span=[float(np.atleast_1d(b.lower)[0]), float(np.atleast_1d(b.upper)[-1])] if np.atleast_1d(b.lower).size else None),
                         wd_peak=peak, ns_no_bin=bool(t == "NS" and np.atleast_1d(b.lower).size == 0),
                         bh_on_top_dict_edge=bool(t == "BH" and isinstance(nb_, dict) and inside == 0 and np.atleast_1d(b.upper).size
                                                  and float(f) == float(np.atleast_1d(b.upper)[-1]) and float(f) == float(ifm.BH_mf.upper)))


def classify(f):
    if f.get("wd_peak"):
        return "wd_peak_on_upper_edge"
    if f.get("bh_on_top_dict_edge"):
        return "bh_max_on_top_dict_edge"
    if f.get("python_float_typeerror"):
        return "brokenpl_python_float"
    return None


def run(chk):
    rng = chk.rng
    emf, masses, ifmr_mod, kicks = U.mods()
    tables = pick_tables(rng, chk.tier)
    info = gen_bh(chk, tables)
    wdgrid = np.loadtxt(os.path.join(DATA, "sevtables", "wdifmr.dat"))
    uppers = [ifmr_mod.IFMR(float(f)).WD_mf.upper for f in wdgrid[:, 0]]
    gen_wd(chk, uppers)
    defaults = gen_analytic(chk)
    # ---- T3 + oracle per sampled table -------------------------------------------------
    dis = []
    ncase = 0
    if chk.tier == "thorough":
        sub = tables
    else:
        # always the grid ends and zero files of every family (where table structure differs most), plus a random few
        key = lambda f: float(os.path.basename(f)[8:-4])
        ends = []
        for fam in set(t[1] for t in tables):
            ft = [t for t in tables if t[1] == fam]
            ends += [min(ft, key=lambda t: key(t[2])), max(ft, key=lambda t: key(t[2]))]
        rest = [t for t in tables if t not in ends]
        sub = ends + rng.sample(rest, 8)
    shard_exprs, shard_meta, defs = [], [], []
    for ti, (meth, fam, fn) in enumerate(sub):
        feh = float(os.path.basename(fn)[8:-4])
        ifm = ifmr_mod.IFMR(feh, BH_method=meth)
        rows = info[fn]
        label = dict(method=meth, FeH=feh)
        chk.note_distinct(label)
        # declared bounds come from the table as the model says
        if not (C.same_float(float(ifm.BH_mf.lower), min(r[1] for r in rows) / 1e5) and
                C.same_float(float(ifm.BH_mi.lower), rows[0][0] / 10) and C.same_float(float(ifm.BH_mi.upper), rows[-1][0] / 10)):
            dis.append(dict(what="declared BH bounds", input=label, impl=[float(ifm.BH_mf.lower), float(ifm.BH_mi.lower), float(ifm.BH_mi.upper)],
                            model=[min(r[1] for r in rows) / 1e5, rows[0][0] / 10, rows[-1][0] / 10]))
        oracle_ifmr(chk, label, ifm, rng, 300 if chk.tier == "quick" else 1500)
        wj = int(np.argmin(np.abs(min(max(feh, wdgrid[:, 0].min()), wdgrid[:, 0].max()) - wdgrid[:, 0])))
        kn = [(a / 10, b / 1e5) for a, b in rows]
        xs = [k[0] for k in kn]
        pts = [rng.uniform(0.7, min(150, xs[-1])) for _ in range(25)] + [float(x) for x in rng.sample(xs, 6)] + \
              [float(np.nextafter(rng.choice(xs), 999)), float(np.nextafter(rng.choice(xs), 0)),
               float(ifm.WD_mi.upper), float(np.nextafter(ifm.WD_mi.upper, 99)), float(ifm.BH_mi.lower), float(np.nextafter(ifm.BH_mi.lower, 0))]
        # gaps between type-14 rows
        gaps = [i for i in range(len(xs) - 1) if xs[i + 1] - xs[i] > 0.15]
        pts += [0.5 * (xs[i] + xs[i + 1]) for i in gaps[:5]]
        pts = [p for p in pts if 0.7 <= p <= min(250, xs[-1])]
        it = np.asarray(ifm.predict(np.array(pts)), dtype=float)
        ty = ifm.predict_type(np.array(pts))
        defs.append("Definition f%d : ifmr (T:=float) := {| i_wd_coeffs := %s; i_wd_mi_up := %s; i_bh_lo := %s; i_ns_mass := %s; i_bh_knots := %s |}." % (
            ti, C.fll(list(wdgrid[wj, 2:][::-1])), C.fl(ifm.WD_mi.upper), C.fl(ifm.BH_mi.lower), C.fl(ifm._NS_mass), C.pairs(*zip(*kn))))
        shard_exprs.append("map (fun m => (predict_type (O:=F_ops) f%d m, predict (O:=F_ops) f%d m)) %s" % (ti, ti, C.fll(pts)))
        shard_meta.append((label, pts, it, ty))
    vals = []
    for k in range(0, len(shard_exprs), 4):
        vals += C.eval_cases("C09_%d" % k, IMPORTS, "\n".join(defs[k:k + 4]), shard_exprs[k:k + 4], shard=4)
    for (label, pts, it, ty), v in zip(shard_meta, vals):
        for m, fi, ti_, mv in zip(pts, it, ty, v):
            ncase += 1
            if mv[0] != ti_ or not C.close_float(float(mv[1]), float(fi), rtol=1e-12):
                dis.append(dict(what="predict", input=dict(label, mi=m), impl=[ti_, float(fi)], model=[mv[0], float(mv[1])]))
    chk.correspondence("predict / predict_type (Horner; linear spline at 1e-12) vs IFMR on sampled tables", ncase, dis)
    chk.samples.append(dict(table=shard_meta[0][0], masses=shard_meta[0][1][:4], impl=[float(x) for x in shard_meta[0][2][:4]]))
    # ---- WD rows (all 7) and analytic prescriptions ---------------------------------------
    for f in wdgrid[:, 0]:
        oracle_ifmr(chk, dict(method="banerjee20", FeH=float(f), wd_row=True), ifmr_mod.IFMR(float(f)), rng, 600)
    for meth in ("linear", "powerlaw", "brokenpowerlaw"):
        oracle_ifmr(chk, dict(method=meth, FeH=-1.0), ifmr_mod.IFMR(-1.0, BH_method=meth), rng, 300)
    chk.trusted += ["translators harness/props/C09.py (tables -> integer rows; WD rows / analytic defaults -> interval goals)",
                    "numpy.polynomial root finder is NOT modelled: the declared WD maximum it produces is CHECKED by the interval obligation",
                    "FITPACK linear spline modelled as piecewise-linear interpolation (compared at 1e-12)", "Interval tactic (Coq library)"]


def replay(chk, payload):
    run(chk)
