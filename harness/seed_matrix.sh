#!/bin/sh
# seed_matrix.sh : re-confirm every stored seed against /repo HEAD, then run the listed checks against each seed.
# usage: harness/seed_matrix.sh            (writes seeded/MATRIX.txt)
cd /verif
out=seeded/MATRIX.txt; : > $out
for d in seeded/*/; do
  name=$(basename $d)
  [ -f $d/patch.diff ] || continue
  prop=$(python3 -c "import json;print(json.load(open('$d/meta.json'))['property'])")
  if ! git -C /repo apply --check $d/patch.diff 2>/dev/null; then echo "$name: PATCH NO LONGER APPLIES" >> $out; continue; fi
  git -C /repo apply $d/patch.diff
  PYTHONPATH=/repo /venv/bin/python $d/demo.py > /dev/null 2>&1; rc=$?
  line="$name (breaks $prop; demo rc=$rc):"
  for c in $prop $(cat $d/also 2>/dev/null); do
    r=$(./check $c --tier quick 2>&1 | grep -v KNOWN | tail -1)
    v=$(echo "$r" | grep -o -- '-> [A-Za-z]*')
    nf=$(./check $c --tier quick 2>&1 | grep -c 'no-failing-input-found')
    line="$line $c$v"
  done
  git -C /repo checkout -- .
  echo "$line" >> $out
done
cat $out
