"""Common machinery for the ssptools Coq verification checks.

Everything random derives from one PRNG seeded by VERIF_SEED.  The
implementation is always imported from /repo's working tree.
"""
import hashlib
import json
import math
import os
import random
import re
import shutil
import subprocess
import sys
import time

VERIF = os.path.dirname(os.path.dirname(os.path.abspath(__file__)))
REPO = os.environ.get("SSPTOOLS_REPO", "/repo")
COQ = os.path.join(VERIF, "coq")
CASES = os.path.join(COQ, "cases")
GEN = os.path.join(COQ, "gen")
EVID = os.path.join(VERIF, "evidence")
NPROC = int(os.environ.get("VERIF_JOBS", "16"))

STD_AXIOMS = {
    # axioms declared by Coq's own standard library (Reals, Classical, FunExt)
    "ClassicalDedekindReals.sig_forall_dec",
    "ClassicalDedekindReals.sig_not_dec",
    "FunctionalExtensionality.functional_extensionality_dep",
    "Classical_Prop.classic",
    "ProofIrrelevance.proof_irrelevance",
    "ClassicalEpsilon.constructive_indefinite_description",
    "Eqdep.Eq_rect_eq.eq_rect_eq",
    "JMeq.JMeq_eq",
    "PropExtensionality.propositional_extensionality",
    "Classical_Pred_Type.classic", "ClassicalFacts.prop_extensionality",
    "Raxioms", "Rdefinitions",
}


def impl_env():
    """Force the implementation under test to be /repo's working tree."""
    if REPO not in sys.path or sys.path[0] != REPO:
        sys.path.insert(0, REPO)
    os.environ.setdefault("PYTHONHASHSEED", "0")
    os.environ["SSPTOOLS_VERIF"] = "1"
    import ssptools  # noqa
    assert os.path.realpath(ssptools.__file__).startswith(os.path.realpath(REPO)), ssptools.__file__
    import logging
    logging.disable(logging.CRITICAL)
    import warnings
    warnings.filterwarnings("ignore")
    import numpy as np
    np.seterr(all="ignore")


# ---------------------------------------------------------------- literals
def fl(x):
    """A python float as an exact Coq PrimFloat literal."""
    x = float(x)
    if math.isnan(x):
        return "nan"
    if math.isinf(x):
        return "infinity" if x > 0 else "neg_infinity"
    if x == 0:
        return "(-0)" if math.copysign(1, x) < 0 else "0"
    h = x.hex()
    return "(" + h + ")"


def fll(xs):
    return "[" + "; ".join(fl(x) for x in xs) + "]"


def zl(n):
    n = int(n)
    return "(%d)%%Z" % n


def pairs(ms, ns):
    return "[" + "; ".join("(%s, %s)" % (fl(m), fl(n)) for m, n in zip(ms, ns)) + "]"


# ------------------------------------------------------- coq output parser
_TOK = re.compile(r"\s*(\[|\]|\(|\)|;|,|[^\s\[\]\(\);,]+)")


def _tokens(s):
    pos = 0
    out = []
    while pos < len(s):
        m = _TOK.match(s, pos)
        if not m:
            break
        out.append(m.group(1))
        pos = m.end()
    return out


def _atom(t):
    t2 = re.sub(r"%(float|Z|nat|N|positive)$", "", t)
    if t2 == "nan":
        return float("nan")
    if t2 == "infinity":
        return float("inf")
    if t2 == "neg_infinity":
        return float("-inf")
    if t2 in ("true", "false"):
        return t2 == "true"
    try:
        if re.fullmatch(r"-?\d+", t2):
            return int(t2) if not t.endswith("%float") else float(t2)
        return float(t2)
    except ValueError:
        return t2  # identifier / constructor


def _parse_term(toks, i):
    """term := app ; app := item+ ; item := list | tuple | atom"""
    items = []
    while i < len(toks) and toks[i] not in ("]", ")", ";", ","):
        t = toks[i]
        if t == "[":
            lst = []
            i += 1
            if toks[i] == "]":
                i += 1
            else:
                while True:
                    v, i = _parse_term(toks, i)
                    lst.append(v)
                    if toks[i] == ";":
                        i += 1
                        continue
                    assert toks[i] == "]", toks[i - 3:i + 3]
                    i += 1
                    break
            items.append(lst)
        elif t == "(":
            tup = []
            i += 1
            while True:
                v, i = _parse_term(toks, i)
                tup.append(v)
                if toks[i] == ",":
                    i += 1
                    continue
                assert toks[i] == ")", toks[i - 3:i + 3]
                i += 1
                break
            items.append(tup[0] if len(tup) == 1 else tuple(tup))
        else:
            items.append(_atom(t))
            i += 1
    if len(items) == 1:
        return items[0], i
    return ("app",) + tuple(items), i


def parse_coq_evals(stdout):
    """All `= value : type` blocks printed by Eval commands, parsed."""
    vals = []
    # blocks start with '     = ' and end with a line starting '     : '
    for m in re.finditer(r"^\s*= (.*?)^\s*: [^\n]*(?:\n\s{7,}[^\n]*)*", stdout, re.S | re.M):
        body = re.sub(r"%[A-Za-z_]+", "", m.group(1))     # scope delimiters (%Z, %float, %nat) carry no information here
        toks = _tokens(body)
        v, _ = _parse_term(toks, 0)
        vals.append(v)
    return vals


# ------------------------------------------------------------- running coq
def clean_dir(d):
    shutil.rmtree(d, ignore_errors=True)
    os.makedirs(d, exist_ok=True)


def coqc(path, timeout=900, extra=()):
    cmd = ["timeout", str(timeout), "coqc", "-Q", COQ, "SSP", *extra, path]
    p = subprocess.run(cmd, capture_output=True, text=True, cwd=os.path.dirname(path))
    return p.returncode, p.stdout, p.stderr


def coqc_many(paths, timeout=900, jobs=None):
    """Compile several files in parallel; returns {path: (rc, out, err)}."""
    from concurrent.futures import ThreadPoolExecutor
    jobs = jobs or NPROC
    with ThreadPoolExecutor(max_workers=jobs) as ex:
        res = list(ex.map(lambda p: coqc(p, timeout), paths))
    return dict(zip(paths, res))


HEADER = """From Coq Require Import ZArith List Bool PrimFloat.
From SSP Require Import Num FloatFun.
%s
Import ListNotations.
Local Open Scope float_scope.
"""


def eval_cases(tag, imports, defs, exprs, shard=300, timeout=900):
    """Evaluate Coq expressions (strings, each of a printable type) with
    vm_compute, `shard` per file; returns the parsed values in order.
    Raises RuntimeError (with coqc's stderr) when a file does not compile."""
    os.makedirs(CASES, exist_ok=True)
    files = []
    for k in range(0, len(exprs), shard):
        path = os.path.join(CASES, "%s_%03d.v" % (tag, k // shard))
        with open(path, "w") as f:
            f.write(HEADER % imports)
            f.write(defs + "\n")
            for e in exprs[k:k + shard]:
                f.write("Eval vm_compute in (%s).\n" % e)
        files.append(path)
    res = coqc_many(files, timeout)
    vals = []
    for k, path in enumerate(files):
        rc, out, err = res[path]
        if rc != 0:
            raise RuntimeError("coqc failed on %s:\n%s" % (path, (err or out)[-3000:]))
        v = parse_coq_evals(out)
        n = len(exprs[k * shard:(k + 1) * shard])
        if len(v) != n:
            raise RuntimeError("parsed %d values, expected %d in %s" % (len(v), n, path))
        vals.extend(v)
    return vals


# ------------------------------------------------------------ comparisons
def same_float(a, b):
    """bit-level equality, nan == nan, +0 != -0"""
    if isinstance(a, bool) or isinstance(b, bool):
        return a == b
    a = float(a)
    b = float(b)
    if math.isnan(a) or math.isnan(b):
        return math.isnan(a) and math.isnan(b)
    return a == b and math.copysign(1, a) == math.copysign(1, b)


def close_float(a, b, rtol=1e-9, atol=1e-300):
    a = float(a)
    b = float(b)
    if math.isnan(a) or math.isnan(b):
        return math.isnan(a) and math.isnan(b)
    if math.isinf(a) or math.isinf(b):
        return a == b
    return abs(a - b) <= rtol * max(abs(a), abs(b)) + atol


def all_same(xs, ys):
    return len(xs) == len(ys) and all(same_float(x, y) for x, y in zip(xs, ys))


def all_close(xs, ys, rtol=1e-9, atol=1e-300):
    return len(xs) == len(ys) and all(close_float(x, y, rtol, atol) for x, y in zip(xs, ys))


def jsonable(x):
    import numpy as np
    if isinstance(x, dict):
        return {str(k): jsonable(v) for k, v in x.items()}
    if isinstance(x, (list, tuple)):
        return [jsonable(v) for v in x]
    if isinstance(x, np.ndarray):
        return jsonable(x.tolist())
    if isinstance(x, (np.floating, float)):
        x = float(x)
        if math.isnan(x):
            return "nan"
        if math.isinf(x):
            return "inf" if x > 0 else "-inf"
        return x
    if isinstance(x, (np.integer,)):
        return int(x)
    if isinstance(x, (np.bool_,)):
        return bool(x)
    if isinstance(x, (str, int, bool)) or x is None:
        return x
    return repr(x)


def unjson_float(x):
    if x == "nan":
        return float("nan")
    if x == "inf":
        return float("inf")
    if x == "-inf":
        return float("-inf")
    return float(x)


# ------------------------------------------------------------ static proofs
def ensure_static_built(cid=None, targets=()):
    """The static Coq development needed by this property (its property file
    and the models its cases import) must be built and up to date with its
    sources; (re)build if not.  `make` decides from timestamps."""
    subprocess.run([os.path.join(COQ, "mkproject.sh")], cwd=COQ, check=True, capture_output=True)
    tg = list(targets)
    tg += ["FloatFun.vo"]
    p = subprocess.run(["timeout", "3000", "make", "-j%d" % NPROC] + tg, cwd=COQ, capture_output=True, text=True)
    if p.returncode != 0:
        raise RuntimeError("static Coq build failed:\n" + (p.stdout + p.stderr)[-4000:])


def check_property_file(cid):
    """Recompile coq/Properties/<cid>.v (statements closed by `exact`) and
    collect, per theorem, the axioms printed by Print Assumptions.
    Returns (ok, theorems:[(name, axioms)], log)."""
    path = os.path.join(COQ, "Properties", cid + ".v")
    if not os.path.exists(path):
        return True, [], "no property file"
    if ("Properties/%s.v" % cid) not in open(os.path.join(COQ, "_CoqProject")).read().split():
        return False, [], "property file exists but a Proofs file it imports is missing"
    # dependencies (Proofs/*.vo) are brought up to date first; a proof that no longer
    # checks is a broken obligation of this property, not a crash of the check
    p = subprocess.run(["timeout", "3000", "make", "-j%d" % NPROC, "Properties/%s.vo" % cid], cwd=COQ,
                       capture_output=True, text=True)
    if p.returncode != 0:
        return False, [], (p.stdout + p.stderr)[-3000:]
    rc, out, err = coqc(path, timeout=1200)
    if rc != 0:
        return False, [], (err or out)[-3000:]
    src = open(path).read()
    names = re.findall(r"^\s*(?:Theorem|Lemma|Example|Corollary)\s+([A-Za-z0-9_']+)", src, re.M)
    printed = re.findall(r"^\s*Print Assumptions\s+([A-Za-z0-9_'.]+)\s*\.", src, re.M)
    # Split output into blocks per Print Assumptions
    blocks = re.split(r"(?=^Axioms:|^Closed under the global context)", out, flags=re.M)
    blocks = [b for b in blocks if b.startswith("Axioms:") or b.startswith("Closed under")]
    thms = []
    for i, nm in enumerate(printed):
        ax = []
        if i < len(blocks) and blocks[i].startswith("Axioms:"):
            ax = [a for a in re.findall(r"^([A-Za-z0-9_.']+)\s*:", blocks[i], re.M) if a != "Axioms"]
        thms.append((nm, ax))
    missing = [n for n in names if n not in printed and not n.endswith("_nonvacuous") and not n.startswith("ex_")]
    log = ""
    if missing:
        log = "theorems without Print Assumptions: %s" % missing
    return True, thms, log


def axioms_ok(ax):
    bad = []
    for a in ax:
        if a in STD_AXIOMS:
            continue
        if a.startswith(("Coq.", "ClassicalDedekindReals.", "FunctionalExtensionality.", "Classical_Prop.",
                         "ProofIrrelevance.", "ClassicalEpsilon.", "Eqdep.", "JMeq.", "PropExtensionality.",
                         "ClassicalFacts.", "Classical_Pred_Type.", "PrimFloat.", "Uint63.", "FloatAxioms.",
                         "Float", "Prim", "Uint63Axioms", "Interval.", "Flocq.", "Coquelicot.", "mathcomp.")):
            continue
        if re.match(r"^(PrimFloat|Uint63|PrimInt63|FloatOps|FloatAxioms|Uint63Axioms)\b", a):
            continue
        bad.append(a)
    return bad


def forbidden_scan():
    """No Admitted/admit/Axiom/Parameter/... anywhere in the development."""
    pat = re.compile(r"\b(Admitted|admit|Axiom|Axioms|Parameter|Parameters|Conjecture|Admit Obligations|"
                     r"Unset Guard Checking|bypass_check|Unset Positivity Checking|Unset Universe Checking)\b")
    hits = []
    for root, _, fs in os.walk(COQ):
        if "/cases" in root:
            continue
        for fn in fs:
            if fn.endswith(".v"):
                p = os.path.join(root, fn)
                txt = re.sub(r"\(\*.*?\*\)", "", open(p).read(), flags=re.S)
                for m in pat.finditer(txt):
                    hits.append("%s: %s" % (os.path.relpath(p, COQ), m.group(1)))
    return hits


# ------------------------------------------------------------------ result
class Check:
    """Accumulates what one run of one property check found."""

    def __init__(self, cid, tier, seed):
        self.cid = cid
        self.tier = tier
        self.seed = seed
        self.t0 = time.time()
        self.rng = random.Random("%s/%s" % (cid, seed))
        self.obligations = []      # (name, ok, detail)
        self.corr = {}             # name -> dict(cases, agree, disagreements:[...], ...)
        self.oracle_failures = []  # dict(clause, input, observed, classifier-input)
        self.known_replayed = []
        self.samples = []
        self.notes = []
        self.trusted = []
        self.extra = {}
        self.hyp_cov = {}
        self.evaluations = 0
        self.distinct = set()

    # obligations = static theorems re-checked + generated obligations
    def oblige(self, name, ok, detail=""):
        self.obligations.append((name, bool(ok), detail))

    def correspondence(self, name, cases, disagreements, **kw):
        d = self.corr.setdefault(name, dict(cases=0, disagreements=[]))
        d["cases"] += cases
        d["disagreements"].extend(disagreements)
        d.update(kw)
        self.evaluations += cases

    def count(self, key, n=1):
        self.hyp_cov[key] = self.hyp_cov.get(key, 0) + n

    def note_distinct(self, obj):
        self.distinct.add(hashlib.sha1(json.dumps(jsonable(obj), sort_keys=True).encode()).hexdigest())

    def fail(self, clause, inp, observed, **kw):
        d = dict(clause=clause, input=jsonable(inp), observed=jsonable(observed))
        d.update({k: jsonable(v) for k, v in kw.items()})
        self.oracle_failures.append(d)


def load_known():
    p = os.path.join(VERIF, "known_findings.json")
    if not os.path.exists(p):
        return []
    return json.load(open(p))["findings"]


def write_replay(cid, payload):
    d = os.path.join(VERIF, "replays")
    os.makedirs(d, exist_ok=True)
    h = hashlib.sha1(json.dumps(payload, sort_keys=True, default=str).encode()).hexdigest()[:10]
    p = os.path.join(d, "%s_%s.json" % (cid, h))
    with open(p, "w") as f:
        json.dump(payload, f, indent=1, default=str)
    return p


def finish(chk, classify, write_evidence=True):
    """Decide, print protocol lines, write evidence, return exit code.

    classify(failure_dict) -> id of a known finding (str) or None."""
    known = {k["id"]: k for k in load_known() if k["property"] == chk.cid and k.get("status") == "open"}
    lines = []
    violations = 0
    known_hits = {}
    unknown = []
    for f in chk.oracle_failures:
        try:
            kid = classify(f) if classify else None
        except Exception:  # noqa  (a classifier that cannot judge a failure leaves it unlisted, i.e. reported)
            kid = None
        if kid is not None and kid in known:
            known_hits.setdefault(kid, []).append(f)
        else:
            unknown.append(f)
    for kid, fs in known_hits.items():
        lines.append("KNOWN-FINDING: property=%s %s: %s (%d failing inputs this run, e.g. %s)" % (
            chk.cid, kid, known[kid]["what"], len(fs), json.dumps(fs[0]["input"])[:200]))
    for kid, kf in known.items():
        if kid not in known_hits and write_evidence:
            # every listed finding is named on every run; this one's failing inputs were not among the inputs sampled this time
            lines.append("KNOWN-FINDING: property=%s %s: %s (listed in known_findings.json with its witness; no input of this run fell in its class)" % (
                chk.cid, kid, kf["what"]))
    broken_obl = [(n, d) for n, ok, d in chk.obligations if not ok]
    broken_corr = {n: c for n, c in chk.corr.items() if c["disagreements"]}
    if unknown:
        # group by clause: one VIOLATION line per clause
        seen = set()
        for f in unknown:
            if f["clause"] in seen:
                continue
            seen.add(f["clause"])
            path = write_replay(chk.cid, dict(property=chk.cid, kind="failing-input", seed=int(chk.seed), tier=chk.tier, failure=f,
                                              broken_obligations=broken_obl[:5],
                                              broken_correspondence={n: c["disagreements"][:3] for n, c in broken_corr.items()}))
            lines.append("VIOLATION property=%s replay=%s" % (chk.cid, path))
            violations += 1
    elif broken_obl or broken_corr:
        path = write_replay(chk.cid, dict(
            property=chk.cid, kind="broken-proof-or-correspondence", seed=int(chk.seed), tier=chk.tier,
            broken_obligations=broken_obl,
            broken_correspondence={n: dict(cases=c["cases"], disagreements=c["disagreements"][:10])
                                   for n, c in broken_corr.items()},
            note="no failing input for the property was found by the search; the named theorem / "
                 "correspondence no longer checks, so the property is no longer shown to hold"))
        lines.append("VIOLATION property=%s replay=%s no-failing-input-found" % (chk.cid, path))
        violations += 1
    wall = time.time() - chk.t0
    nob = len(chk.obligations)
    ndis = sum(1 for _, ok, _ in chk.obligations if ok)
    cov = dict(
        obligations=nob, discharged=ndis,
        checker_cmd="coqc -Q /verif/coq SSP (Coq 8.16.1 kernel, vm_compute; full .vo build via coq_makefile/make); "
                    "./check %s --tier %s" % (chk.cid, chk.tier),
        trusted_base=sorted(set(chk.trusted)),
        evaluations=chk.evaluations,
        distinct_nontrivial=len(chk.distinct),
        rule="correspondence/oracle cases drawn from one PRNG seeded by VERIF_SEED after the committed corpus; "
             "distinct = distinct input records (sha1 of the JSON form); trivial (empty / all-zero) inputs are not "
             "recorded as distinct",
        samples=chk.samples[:8],
        obligation_list=[dict(name=n, ok=ok, detail=d[:300]) for n, ok, d in chk.obligations],
        correspondence={n: dict((k, v if k != "disagreements" else v[:5]) for k, v in c.items())
                        for n, c in chk.corr.items()},
        hypothesis_coverage=chk.hyp_cov,
        known_findings_replayed=sorted(known_hits),
        oracle_failures=len(chk.oracle_failures),
        notes=chk.notes,
    )
    cov.update(chk.extra)
    ev = dict(property_id=chk.cid, tier=chk.tier, seed=int(chk.seed), level="proof", coverage=cov,
              assumptions=sorted(set(chk.trusted)), wall_s=round(wall, 2), violations=violations)
    if write_evidence:          # a --replay run re-examines one stored input and must not overwrite the evidence of a full run
        os.makedirs(EVID, exist_ok=True)
        evp = os.path.join(EVID, chk.cid + ".json")
        with open(evp, "w") as f:
            json.dump(ev, f, indent=1, default=str)
        validate_evidence(evp)
    for ln in lines:
        print(ln)
    print("%s tier=%s seed=%s obligations=%d/%d correspondence_cases=%d disagreements=%d oracle_failures=%d "
          "(known=%d) wall=%.1fs -> %s" % (
              chk.cid, chk.tier, chk.seed, ndis, nob, chk.evaluations,
              sum(len(c["disagreements"]) for c in chk.corr.values()), len(chk.oracle_failures),
              sum(len(v) for v in known_hits.values()), wall, "VIOLATION" if violations else "ok"))
    return 1 if violations else 0


def validate_evidence(path):
    code = ("import json,jsonschema,sys;"
            "jsonschema.validate(json.load(open(sys.argv[1])),json.load(open('/root/.vp/EVIDENCE.schema.json')))")
    if shutil.which("python3-vt") and os.path.exists("/root/.vp/EVIDENCE.schema.json"):
        p = subprocess.run(["python3-vt", "-c", code, path], capture_output=True, text=True)
        if p.returncode != 0:
            print("WARNING: evidence file does not validate: " + p.stderr[-500:], file=sys.stderr)
